import Refinery.Model.Payload
/-!
# C20 — forwarded events carry exactly the client's fields

Statement (properties.jsonl): for any event Refinery forwards to Honeycomb or to a peer, the fields
and values are exactly those the client sent (JSON numbers becoming floats, msgpack values keeping
their encoded type), plus only the documented `meta.*` fields and configured attributes Refinery
adds; no client field is lost, renamed, duplicated or altered whatever its name, type or nesting.
Field names Refinery reserves for its own metadata are the only exception.

The model keeps, as the code does, three places a key can live in when `MarshalMsg` runs: a dedicated
metadata struct field, the memoised map, the raw bytes.  The theorems are about `marshal` applied to
every state reachable from an ingestion by any sequence of `MemoizeFields` / `Set` calls.

What does *not* hold for the code as it is (refuted below, reproduced on the real code by the
harness): a memoised value goes through Go and back (`ReadIntfBytes` / `AppendIntf`), and on that way
a msgpack timestamp (extension −1) is re-written as tinylib/msgp's private extension 5
(`memo_roundtrip`).
-/
namespace Refinery.Props.C20
open Refinery Refinery.Model.Payload

def keysOf (fs : List (String × Val)) : List String := fs.map (·.1)

/-! ## Association-list facts -/

theorem get_append (l1 l2 : List (String × Val)) (k : String) :
    AList.get (l1 ++ l2) k = (AList.get l1 k).orElse (fun _ => AList.get l2 k) := by
  induction l1 with
  | nil => simp
  | cons p t ih =>
    obtain ⟨a, b⟩ := p
    simp only [List.cons_append, AList.get_cons]
    by_cases h : a = k <;> simp [h, ih]

theorem get_filter_key (f : String → Bool) (l : List (String × Val)) (k : String) :
    AList.get (l.filter (fun kv => f kv.1)) k = if f k = true then AList.get l k else none := by
  induction l with
  | nil => simp
  | cons p t ih =>
    obtain ⟨a, b⟩ := p
    simp only [List.filter_cons]
    by_cases h : a = k
    · subst h
      by_cases hf : f a = true <;> simp [hf, AList.get_cons, ih]
    · by_cases hf : f a = true <;> simp [hf, AList.get_cons, h, ih]

theorem get_map_val (g : Val → Val) (l : List (String × Val)) (k : String) :
    AList.get (l.map (fun kv => (kv.1, g kv.2))) k = (AList.get l k).map g := by
  induction l with
  | nil => simp
  | cons p t ih =>
    obtain ⟨a, b⟩ := p
    simp only [List.map_cons, AList.get_cons]
    by_cases h : a = k <;> simp [h, ih]

theorem get_none_of_not_key {l : List (String × Val)} {k : String} (h : k ∉ AList.keys l) :
    AList.get l k = none := (AList.get_eq_none_iff l k).mpr h

/-! ## The reserved table -/

theorem table_kinds : ∀ e ∈ metaTable, (tableKind e.1).isSome = true := by decide
theorem table_nodup : (metaTable.map (·.1)).Nodup := by decide

/-- the three segments `MarshalMsg` writes -/
def segMeta (p : Pay) : List (String × Val) :=
  metaTable.filterMap fun e => (p.md.get e.1).map fun mv => (e.1, mvalVal mv)
def segMemoW (w : Val → Val) (p : Pay) : List (String × Val) :=
  (p.memo.filter fun kv => (tableKind kv.1).isNone).map fun kv => (kv.1, w kv.2)
def segRaw (p : Pay) : List (String × Val) :=
  p.raw.filter fun kv => !(AList.keys p.memo).contains kv.1 && (tableKind kv.1).isNone

theorem marshalW_eq (w : Val → Val) (p : Pay) : marshalW w p = segMeta p ++ segMemoW w p ++ segRaw p := rfl
theorem marshal_isW (p : Pay) : marshal p = marshalW toWire p := rfl

theorem segMeta_keys_sub (p : Pay) : (keysOf (segMeta p)).Sublist (metaTable.map (·.1)) := by
  unfold segMeta keysOf
  generalize metaTable = tb
  induction tb with
  | nil => simp
  | cons e t ih =>
    simp only [List.filterMap_cons, List.map_cons]
    cases h : p.md.get e.1 with
    | none => simp only [Option.map_none]; exact List.Sublist.cons _ ih
    | some mv => simp only [Option.map_some, List.map_cons]; exact List.Sublist.cons_cons _ ih

theorem segMeta_reserved {p : Pay} {k : String} (h : k ∈ keysOf (segMeta p)) : (tableKind k).isSome = true := by
  have h1 : k ∈ metaTable.map (·.1) := (segMeta_keys_sub p).subset h
  obtain ⟨e, he, rfl⟩ := List.mem_map.mp h1
  exact table_kinds e he

theorem segMemo_keys {w : Val → Val} {p : Pay} {k : String} (h : k ∈ keysOf (segMemoW w p)) :
    k ∈ AList.keys p.memo ∧ tableKind k = none := by
  unfold segMemoW keysOf at h
  simp only [List.map_map, List.mem_map, List.mem_filter, Function.comp] at h
  obtain ⟨kv, ⟨hm, hn⟩, rfl⟩ := h
  exact ⟨List.mem_map.mpr ⟨kv, hm, rfl⟩, by simpa using hn⟩

theorem segRaw_keys {p : Pay} {k : String} (h : k ∈ keysOf (segRaw p)) :
    k ∉ AList.keys p.memo ∧ tableKind k = none := by
  unfold segRaw keysOf at h
  simp only [List.mem_map, List.mem_filter, Bool.and_eq_true, Bool.not_eq_true'] at h
  obtain ⟨kv, ⟨_, hc, hn⟩, rfl⟩ := h
  refine ⟨?_, by simpa using hn⟩
  intro hk
  have : (AList.keys p.memo).contains kv.1 = true := List.contains_iff_mem.mpr hk
  rw [this] at hc
  cases hc

/-- **no_dup_keys** — `MarshalMsg` never writes a key twice: if the client's keys are unique (and the
memoised map, a Go map, has unique keys), the re-encoded map has unique keys. -/
theorem no_dup_keysW (w : Val → Val) (p : Pay) (hm : AList.NoDupKeys p.memo) (hr : (keysOf p.raw).Nodup) :
    (keysOf (marshalW w p)).Nodup := by
  rw [marshalW_eq]
  unfold keysOf
  rw [List.map_append, List.map_append]
  have hA : (keysOf (segMeta p)).Nodup := List.Nodup.sublist (segMeta_keys_sub p) table_nodup
  have hB : (keysOf (segMemoW w p)).Nodup := by
    unfold segMemoW keysOf
    rw [List.map_map]
    exact List.Nodup.sublist (List.Sublist.map _ List.filter_sublist) hm
  have hC : (keysOf (segRaw p)).Nodup := by
    unfold segRaw keysOf
    exact List.Nodup.sublist (List.Sublist.map _ List.filter_sublist) hr
  refine List.nodup_append.mpr ⟨List.nodup_append.mpr ⟨hA, hB, ?_⟩, hC, ?_⟩
  · intro a ha b hb e
    subst e
    have h1 := segMeta_reserved ha
    rw [(segMemo_keys hb).2] at h1
    cases h1
  · intro a ha b hb e
    subst e
    rcases List.mem_append.mp ha with ha | ha
    · have h1 := segMeta_reserved ha
      rw [(segRaw_keys hb).2] at h1
      cases h1
    · exact (segRaw_keys hb).1 (segMemo_keys ha).1

theorem no_dup_keys (p : Pay) (hm : AList.NoDupKeys p.memo) (hr : (keysOf p.raw).Nodup) :
    (keysOf (marshal p)).Nodup := no_dup_keysW toWire p hm hr

/-- where `MarshalMsg` takes a non-reserved key from: the memoised map wins over the raw bytes -/
theorem marshalW_get (w : Val → Val) (p : Pay) {k : String} (hk : tableKind k = none) :
    AList.get (marshalW w p) k =
      match AList.get p.memo k with
      | some v => some (w v)
      | none => AList.get p.raw k := by
  have hA : AList.get (segMeta p) k = none := by
    apply get_none_of_not_key
    intro h
    have := segMeta_reserved (p := p) h
    rw [hk] at this
    cases this
  have hB : AList.get (segMemoW w p) k = (AList.get p.memo k).map w := by
    unfold segMemoW
    rw [get_map_val, get_filter_key (fun k => (tableKind k).isNone)]
    simp [hk]
  have hC : AList.get (segRaw p) k = if (AList.keys p.memo).contains k = true then none else AList.get p.raw k := by
    unfold segRaw
    rw [get_filter_key (fun k => !(AList.keys p.memo).contains k && (tableKind k).isNone)]
    simp only [hk, Option.isNone_none, Bool.and_true, Bool.not_eq_true']
    cases (AList.keys p.memo).contains k <;> simp
  rw [marshalW_eq, get_append, get_append, hA, hB, hC]
  cases hg : AList.get p.memo k with
  | some v => simp
  | none =>
    have : k ∉ AList.keys p.memo := (AList.get_eq_none_iff _ _).mp hg
    have hc : (AList.keys p.memo).contains k = false := by
      cases h : (AList.keys p.memo).contains k
      · rfl
      · exact absurd (List.contains_iff_mem.mp h) this
    simp [this]

theorem marshal_get (p : Pay) {k : String} (hk : tableKind k = none) :
    AList.get (marshal p) k =
      match AList.get p.memo k with
      | some v => some (toWire v)
      | none => AList.get p.raw k := marshalW_get toWire p hk

/-! ## Reachable payload states -/

/-- `S` = the keys Refinery itself has `Set`.  Every other memoised entry is the Go form of the
client's value for that key. -/
def InvM (fs : List (String × Val)) (S : List String) (p : Pay) : Prop :=
  AList.NoDupKeys p.memo ∧
  ∀ k v, AList.get p.memo k = some v → k ∈ S ∨ ∃ w, (k, w) ∈ fs ∧ v = goNorm w

def Inv (fs : List (String × Val)) (S : List String) (p : Pay) : Prop := p.raw = fs ∧ InvM fs S p

theorem invM_set_client {fs : List (String × Val)} {S : List String} {p : Pay} {k : String} {w : Val}
    (hkw : (k, w) ∈ fs) (h : InvM fs S p) : InvM fs S (p.set k (goNorm w)) := by
  unfold Pay.set
  cases hk : tableKind k with
  | some kd => exact h
  | none =>
    refine ⟨AList.nodup_put _ h.1 _ _, ?_⟩
    intro k' v hv
    simp only at hv
    rw [AList.get_put] at hv
    by_cases e : k = k'
    · subst e
      simp only [if_true, Option.some.injEq] at hv
      exact Or.inr ⟨w, hkw, hv.symm⟩
    · simp only [e, if_false] at hv
      exact h.2 k' v hv

theorem invM_set_own {fs : List (String × Val)} {S : List String} {p : Pay} (k : String) (v : Val)
    (h : InvM fs S p) : InvM fs (k :: S) (p.set k v) := by
  unfold Pay.set
  cases hk : tableKind k with
  | some kd =>
    refine ⟨h.1, fun k' v' hv => ?_⟩
    rcases h.2 k' v' hv with h1 | h1
    · exact Or.inl (List.mem_cons_of_mem _ h1)
    · exact Or.inr h1
  | none =>
    refine ⟨AList.nodup_put _ h.1 _ _, ?_⟩
    intro k' v' hv
    simp only at hv
    rw [AList.get_put] at hv
    by_cases e : k = k'
    · subst e; exact Or.inl List.mem_cons_self
    · simp only [e, if_false] at hv
      rcases h.2 k' v' hv with h1 | h1
      · exact Or.inl (List.mem_cons_of_mem _ h1)
      · exact Or.inr h1

theorem set_raw (p : Pay) (k : String) (v : Val) : (p.set k v).raw = p.raw := by
  unfold Pay.set; split <;> rfl

theorem wireKey_invM {fs : List (String × Val)} {S : List String} {sk : List String} {p : Pay} {f : Nat}
    {k : String} {w : Val} (hkw : (k, w) ∈ fs) (h : InvM fs S p) : InvM fs S (wireKey sk p f k w).1 := by
  unfold wireKey
  split
  · exact invM_set_client hkw h
  · exact h

theorem wstep_invM {fs : List (String × Val)} {S : List String} {cfg : Cfg} {sk : List String}
    {st st' : Pay × Nat} {kv : String × Val} (hkv : kv ∈ fs) (h : InvM fs S st.1)
    (hs : wstep cfg sk st kv = some st') : InvM fs S st'.1 := by
  unfold wstep at hs
  cases hd : metaDecode kv.1 kv.2 with
  | err => rw [hd] at hs; simp at hs
  | done mv =>
    rw [hd] at hs
    simp only [Option.some.injEq] at hs
    subst hs
    exact h
  | skip =>
    rw [hd] at hs
    simp only at hs
    cases hf : idFall cfg st.1.md.id kv.1 kv.2 with
    | some i =>
      rw [hf] at hs
      simp only [Option.some.injEq] at hs
      subst hs
      exact h
    | none =>
      rw [hf] at hs
      simp only [Option.some.injEq] at hs
      subst hs
      exact wireKey_invM (k := kv.1) (w := kv.2) hkv h

theorem wfold_invM {fs : List (String × Val)} {S : List String} {cfg : Cfg} {sk : List String} :
    ∀ (t : List (String × Val)) (st st' : Pay × Nat), (∀ kv ∈ t, kv ∈ fs) → InvM fs S st.1 →
      wfold cfg sk st t = some st' → InvM fs S st'.1
  | [], st, st', _, h, hs => by simp [wfold] at hs; subst hs; exact h
  | kv :: t, st, st', hsub, h, hs => by
    unfold wfold at hs
    cases h1 : wstep cfg sk st kv with
    | none => rw [h1] at hs; simp at hs
    | some st1 =>
      rw [h1] at hs
      exact wfold_invM t st1 st' (fun x hx => hsub x (List.mem_cons_of_mem _ hx))
        (wstep_invM (hsub kv List.mem_cons_self) h h1) hs

theorem addUA_memo (cfg : Cfg) (p : Pay) : (addUA cfg p).memo = p.memo := by unfold addUA; split <;> rfl
theorem addUA_raw (cfg : Cfg) (p : Pay) : (addUA cfg p).raw = p.raw := by unfold addUA; split <;> rfl

theorem extractWire_invM {fs : List (String × Val)} {cfg : Cfg} {sk : List String} {p1 : Pay}
    (h : extractWire cfg sk {} fs = some p1) : InvM fs [] p1 := by
  unfold extractWire at h
  cases hw : wfold cfg sk ({ ({} : Pay) with md := initRoot ({} : Pay).md, isEmpty := ({} : Pay).isEmpty || fs.isEmpty }, 0) fs with
  | none => rw [hw] at h; simp at h
  | some r =>
    obtain ⟨q, found⟩ := r
    rw [hw] at h
    simp only [Option.some.injEq] at h
    subst h
    have h0 : InvM fs [] ({ ({} : Pay) with md := initRoot ({} : Pay).md, isEmpty := ({} : Pay).isEmpty || fs.isEmpty }, 0).1 :=
      ⟨AList.nodup_nil, fun k v hv => by simp at hv⟩
    have := wfold_invM (S := []) fs _ _ (fun _ hx => hx) h0 hw
    by_cases c : found < sk.length <;> simpa [c, InvM] using this

/-- the state right after `/1/batch` ingestion -/
theorem ingestBatch_inv {fs : List (String × Val)} {cfg : Cfg} {p0 : Pay} (h : ingestBatch cfg fs = some p0) :
    Inv fs [] p0 := by
  unfold ingestBatch at h
  cases he : extractWire cfg cfg.sk {} fs with
  | none => rw [he] at h; simp at h
  | some p1 =>
    rw [he] at h
    simp only at h
    split at h
    · cases h
    · simp only [Option.some.injEq] at h
      subst h
      have := extractWire_invM he
      exact ⟨by rw [addUA_raw], by unfold InvM at this ⊢; rw [addUA_memo]; exact this⟩

/-- the state right after the OTLP msgpack unmarshaller -/
theorem ingestMeta_inv {fs : List (String × Val)} {cfg : Cfg} {p0 : Pay} (h : ingestMeta cfg fs = some p0) :
    Inv fs [] p0 := by
  unfold ingestMeta at h
  cases he : extractWire cfg [] {} fs with
  | none => rw [he] at h; simp at h
  | some p1 =>
    rw [he] at h
    simp only [Option.some.injEq] at h
    subst h
    have := extractWire_invM he
    exact ⟨by rw [addUA_raw], by unfold InvM at this ⊢; rw [addUA_memo]; exact this⟩

theorem memoFold_inv {fs : List (String × Val)} {S : List String} (want : List String) :
    ∀ (l : List (String × Val)) (st : Pay × Nat), (∀ kv ∈ l, kv ∈ fs) → Inv fs S st.1 →
      Inv fs S (l.foldl (fun (st : Pay × Nat) kv =>
        if st.2 < want.length ∧ kv.1 ∈ want then (st.1.set kv.1 (goNorm kv.2), st.2 + 1) else st) st).1
  | [], st, _, h => h
  | kv :: t, st, hsub, h => by
    simp only [List.foldl_cons]
    apply memoFold_inv want t _ (fun x hx => hsub x (List.mem_cons_of_mem _ hx))
    split
    · exact ⟨by simp only [set_raw]; exact h.1,
        invM_set_client (k := kv.1) (w := kv.2) (hsub kv List.mem_cons_self) h.2⟩
    · exact h

theorem memoize_inv {fs : List (String × Val)} {S : List String} {p : Pay} (ks : List String)
    (h : Inv fs S p) : Inv fs S (memoize p ks) := by
  unfold memoize
  simp only
  split
  · exact h
  · have hsub : ∀ kv ∈ p.raw, kv ∈ fs := by rw [h.1]; exact fun _ hx => hx
    have := memoFold_inv (S := S)
      ((ks.filter fun k => !p.missing.contains k && !(AList.keys p.memo).contains k).eraseDups) p.raw (p, 0) hsub h
    exact ⟨this.1, this.2⟩

def setKeys : List Op → List String
  | [] => []
  | .set k _ :: t => k :: setKeys t
  | .memo _ :: t => setKeys t

theorem inv_mono {fs : List (String × Val)} {S S' : List String} {p : Pay} (hsub : ∀ k ∈ S, k ∈ S')
    (h : Inv fs S p) : Inv fs S' p :=
  ⟨h.1, h.2.1, fun k v hv => (h.2.2 k v hv).imp (hsub k) id⟩

theorem applyOps_inv {fs : List (String × Val)} :
    ∀ (ops : List Op) (S : List String) (p : Pay), Inv fs S p → Inv fs (setKeys ops ++ S) (applyOps p ops)
  | [], S, p, h => by simpa [applyOps, setKeys] using h
  | .memo ks :: t, S, p, h => by
    have := applyOps_inv t S (memoize p ks) (memoize_inv ks h)
    simpa [applyOps, setKeys, applyOp] using this
  | .set k v :: t, S, p, h => by
    have h1 : Inv fs (k :: S) (p.set k v) := ⟨by rw [set_raw]; exact h.1, invM_set_own k v h.2⟩
    have := applyOps_inv t (k :: S) (p.set k v) h1
    refine inv_mono ?_ (by simpa [applyOps, applyOp] using this)
    intro x hx
    simp only [setKeys, List.mem_append, List.mem_cons] at hx ⊢
    rcases hx with hx | hx | hx
    · exact Or.inl (Or.inr hx)
    · exact Or.inl (Or.inl hx)
    · exact Or.inr hx

/-! ## The property -/

/-- what a memoised value looks like when it is written again -/
def rt (v : Val) : Val := toWire (goNorm v)

theorem marshalW_of_inv (w : Val → Val) {fs : List (String × Val)} {S : List String} {p : Pay}
    (hnd : (keysOf fs).Nodup) (h : Inv fs S p) {k : String} (hk : tableKind k = none) (hS : k ∉ S) :
    match AList.get fs k with
    | none => AList.get (marshalW w p) k = none
    | some v => AList.get (marshalW w p) k = some v ∨ AList.get (marshalW w p) k = some (w (goNorm v)) := by
  rw [marshalW_get w p hk, h.1]
  have hnd' : AList.NoDupKeys fs := hnd
  cases hm : AList.get p.memo k with
  | some v =>
    simp only
    rcases h.2.2 k v hm with h1 | ⟨w, hw, rfl⟩
    · exact absurd h1 hS
    · rw [AList.get_of_mem hnd' hw]
      exact Or.inr rfl
  | none =>
    simp only
    cases hf : AList.get fs k with
    | none => rfl
    | some v => exact Or.inl rfl

theorem marshal_of_inv {fs : List (String × Val)} {S : List String} {p : Pay} (hnd : (keysOf fs).Nodup)
    (h : Inv fs S p) {k : String} (hk : tableKind k = none) (hS : k ∉ S) :
    match AList.get fs k with
    | none => AList.get (marshal p) k = none
    | some v => AList.get (marshal p) k = some v ∨ AList.get (marshal p) k = some (rt v) :=
  marshalW_of_inv toWire hnd h hk hS

/-- **marshal_extract_id** (`/1/batch`, msgpack or JSON) — after any sequence of `MemoizeFields` and
`Set` calls, for every key that is not a reserved metadata name and that Refinery did not `Set`
itself: the re-encoded map holds the key exactly when the client sent it, and then with the client's
value — as sent when the key stayed in the raw bytes, as `rt v` (through Go and back) when it was
memoised, whatever the sampling-key / trace-ID / parent-ID configuration. -/
theorem marshal_extract_id {cfg : Cfg} {fs : List (String × Val)} {p0 : Pay} (ops : List Op)
    (hnd : (keysOf fs).Nodup) (h0 : ingestBatch cfg fs = some p0) {k : String} (hk : tableKind k = none)
    (hS : k ∉ setKeys ops) :
    match AList.get fs k with
    | none => AList.get (marshal (applyOps p0 ops)) k = none
    | some v => AList.get (marshal (applyOps p0 ops)) k = some v ∨
        AList.get (marshal (applyOps p0 ops)) k = some (rt v) := by
  have := applyOps_inv ops [] p0 (ingestBatch_inv h0)
  exact marshal_of_inv hnd this hk (by simpa using hS)

theorem marshal_extract_id_otlp {cfg : Cfg} {fs : List (String × Val)} {p0 : Pay} (ops : List Op)
    (hnd : (keysOf fs).Nodup) (h0 : ingestMeta cfg fs = some p0) {k : String} (hk : tableKind k = none)
    (hS : k ∉ setKeys ops) :
    match AList.get fs k with
    | none => AList.get (marshal (applyOps p0 ops)) k = none
    | some v => AList.get (marshal (applyOps p0 ops)) k = some v ∨
        AList.get (marshal (applyOps p0 ops)) k = some (rt v) := by
  have := applyOps_inv ops [] p0 (ingestMeta_inv h0)
  exact marshal_of_inv hnd this hk (by simpa using hS)

/-- **no_dup_keys** for every reachable state: unique client keys give a re-encoded map with unique keys. -/
theorem no_dup_keys_reachable {cfg : Cfg} {fs : List (String × Val)} {p0 : Pay} (ops : List Op)
    (hnd : (keysOf fs).Nodup) (h0 : ingestBatch cfg fs = some p0) :
    (keysOf (marshal (applyOps p0 ops))).Nodup := by
  have := applyOps_inv ops [] p0 (ingestBatch_inv h0)
  exact no_dup_keys _ this.2.1 (by rw [this.1]; exact hnd)

/-- a field Refinery `Set` last (a documented addition) is emitted with the value it was given -/
theorem set_field_emitted (p : Pay) (k : String) (v : Val) (hk : tableKind k = none) :
    AList.get (marshal (p.set k v)) k = some (toWire v) := by
  rw [marshal_get _ hk]
  simp [Pay.set, hk, AList.get_put]

/-! ## `/1/events` (JSON): the whole object is memoised -/

theorem goNormM_eq (l : List (String × Val)) : goNormM l = l.map (fun kv => (kv.1, goNorm kv.2)) := by
  induction l with
  | nil => rfl
  | cons p t ih => obtain ⟨a, b⟩ := p; simp [goNormM, ih]

theorem dedup_fold_nodup : ∀ (l acc : List (String × Val)), AList.NoDupKeys acc →
    AList.NoDupKeys (l.foldl (fun a kv => AList.put a kv.1 kv.2) acc)
  | [], _, h => h
  | _ :: t, _, h => dedup_fold_nodup t _ (AList.nodup_put _ h _ _)

theorem dedup_fold_get (k : String) : ∀ (l acc : List (String × Val)), (keysOf l).Nodup →
    AList.get (l.foldl (fun a kv => AList.put a kv.1 kv.2) acc) k = (AList.get l k).orElse (fun _ => AList.get acc k)
  | [], acc, _ => by simp
  | (a, b) :: t, acc, hnd => by
    have hnd' : (keysOf t).Nodup := (List.nodup_cons.mp hnd).2
    have ha : a ∉ AList.keys t := (List.nodup_cons.mp hnd).1
    simp only [List.foldl_cons]
    rw [dedup_fold_get k t _ hnd', AList.get_put, AList.get_cons]
    by_cases e : a = k
    · subst e
      simp [(AList.get_eq_none_iff t a).mpr ha]
    · simp [e]

theorem memoOfJSON_get {fs : List (String × Val)} (hnd : (keysOf fs).Nodup) (k : String) :
    AList.get (memoOfJSON fs) k = (AList.get fs k).map goNorm := by
  unfold memoOfJSON dedupKeys
  have h1 : (keysOf (goNormM fs)).Nodup := by
    rw [goNormM_eq]; unfold keysOf; rw [List.map_map]; exact hnd
  rw [dedup_fold_get k _ _ h1, goNormM_eq, get_map_val]
  cases AList.get fs k <;> simp

theorem memoOfJSON_nodup (fs : List (String × Val)) : AList.NoDupKeys (memoOfJSON fs) :=
  dedup_fold_nodup _ _ AList.nodup_nil

/-- invariant of a `/1/events` payload: nothing in the raw bytes, every client key memoised -/
def InvJ (fs : List (String × Val)) (S : List String) (p : Pay) : Prop :=
  p.raw = [] ∧ AList.NoDupKeys p.memo ∧ ∀ k, k ∉ S → AList.get p.memo k = (AList.get fs k).map goNorm

theorem extractMap_memo {cfg : Cfg} {f2i : Nat → Int} {p p' : Pay} {ord : List (String × Val)}
    (hr : p.raw = []) (h : extractMap cfg f2i p ord = some p') : p'.memo = p.memo ∧ p'.raw = [] := by
  unfold extractMap at h
  split at h
  · cases h; exact ⟨rfl, hr⟩
  · simp only [hr, List.isEmpty_nil, if_true, Option.some.injEq] at h
    subst h
    exact ⟨rfl, rfl⟩

theorem ingestMap_inv {cfg : Cfg} {f2i : Nat → Int} {fs ord : List (String × Val)} {p0 : Pay}
    (hnd : (keysOf fs).Nodup) (h : ingestMap cfg f2i fs ord = some p0) : InvJ fs [] p0 := by
  unfold ingestMap at h
  split at h
  · cases h
  · have hr : (addUA cfg { memo := memoOfJSON fs }).raw = [] := by rw [addUA_raw]
    obtain ⟨h1, h2⟩ := extractMap_memo hr h
    refine ⟨h2, ?_, ?_⟩
    · rw [h1, addUA_memo]; exact memoOfJSON_nodup fs
    · intro k _
      rw [h1, addUA_memo]; exact memoOfJSON_get hnd k

theorem memoize_invJ {fs : List (String × Val)} {S : List String} {p : Pay} (ks : List String)
    (h : InvJ fs S p) : InvJ fs S (memoize p ks) := by
  unfold memoize
  simp only
  split
  · exact h
  · simp only [h.1, List.foldl_nil]
    exact ⟨rfl, h.2.1, h.2.2⟩

theorem set_invJ {fs : List (String × Val)} {S : List String} {p : Pay} (k : String) (v : Val)
    (h : InvJ fs S p) : InvJ fs (k :: S) (p.set k v) := by
  unfold Pay.set
  cases hk : tableKind k with
  | some kd => exact ⟨h.1, h.2.1, fun k' hk' => h.2.2 k' (fun hm => hk' (List.mem_cons_of_mem _ hm))⟩
  | none =>
    refine ⟨h.1, AList.nodup_put _ h.2.1 _ _, fun k' hk' => ?_⟩
    simp only
    rw [AList.get_put]
    have hne : k ≠ k' := fun e => hk' (by rw [e]; exact List.mem_cons_self)
    simp only [hne, if_false]
    exact h.2.2 k' (fun hm => hk' (List.mem_cons_of_mem _ hm))

theorem invJ_mono {fs : List (String × Val)} {S S' : List String} {p : Pay} (hsub : ∀ k ∈ S, k ∈ S')
    (h : InvJ fs S p) : InvJ fs S' p :=
  ⟨h.1, h.2.1, fun k hk => h.2.2 k (fun hm => hk (hsub k hm))⟩

theorem applyOps_invJ {fs : List (String × Val)} :
    ∀ (ops : List Op) (S : List String) (p : Pay), InvJ fs S p → InvJ fs (setKeys ops ++ S) (applyOps p ops)
  | [], S, p, h => by simpa [applyOps, setKeys] using h
  | .memo ks :: t, S, p, h => by
    have := applyOps_invJ t S (memoize p ks) (memoize_invJ ks h)
    simpa [applyOps, setKeys, applyOp] using this
  | .set k v :: t, S, p, h => by
    have := applyOps_invJ t (k :: S) (p.set k v) (set_invJ k v h)
    refine invJ_mono ?_ (by simpa [applyOps, applyOp] using this)
    intro x hx
    simp only [setKeys, List.mem_append, List.mem_cons] at hx ⊢
    rcases hx with hx | hx | hx
    · exact Or.inl (Or.inr hx)
    · exact Or.inl (Or.inl hx)
    · exact Or.inr hx

/-- **marshal_extract_id** (`/1/events`, JSON) — every non-reserved key Refinery did not `Set` is
emitted exactly when the client sent it, with the client's value through Go and back, for every
iteration order `ord` and every `MemoizeFields` / `Set` history. -/
theorem marshal_extract_id_events {cfg : Cfg} {f2i : Nat → Int} {fs ord : List (String × Val)} {p0 : Pay}
    (ops : List Op) (hnd : (keysOf fs).Nodup) (h0 : ingestMap cfg f2i fs ord = some p0) {k : String}
    (hk : tableKind k = none) (hS : k ∉ setKeys ops) :
    AList.get (marshal (applyOps p0 ops)) k = (AList.get fs k).map rt := by
  have h := applyOps_invJ ops [] p0 (ingestMap_inv hnd h0)
  rw [marshal_get _ hk, h.1, h.2.2 k (by simpa using hS)]
  cases AList.get fs k <;> simp [rt]

/-! ## Through Go and back: `memo_roundtrip` -/

/-- full-strength statement for a writer `w` of memoised values: the value is written back with the
wire type it came with (an unsigned value up to 127 as the positive fixint — the same msgpack integer) -/
def MemoRoundtripOf (w : Val → Val) : Prop :=
  ∀ v : Val, (w (goNorm v)).tag = v.tag ∨ ∃ n, v = .uint n ∧ n ≤ 127 ∧ w (goNorm v) = .int n

def MemoRoundtrip : Prop := MemoRoundtripOf toWire

theorem memo_roundtrip_refuted : ¬ MemoRoundtrip := by
  intro h
  rcases h (.time 1700000000 5) with h1 | ⟨n, hn, _⟩
  · revert h1; decide
  · cases hn

/-- **memo_roundtrip (partial)** — every wire type except the timestamp keeps its type (an unsigned
value up to 127 is written as the positive fixint, which is the same msgpack integer). -/
theorem memo_roundtrip_partial (v : Val) (ht : v.tag ≠ .time) (hu : ∀ n, v = .uint n → 127 < n) :
    (rt v).tag = v.tag := by
  cases v <;> simp_all [rt, goNorm, toWire, Val.tag]
  rename_i n
  have h1 : ¬ n ≤ 127 := by omega
  simp [h1]

/-- scalars other than timestamps come back identical -/
theorem memo_roundtrip_scalar (v : Val) (ht : v.tag ≠ .time) (ha : v.tag ≠ .arr) (hm : v.tag ≠ .map)
    (hu : ∀ n, v = .uint n → 127 < n) : rt v = v := by
  cases v <;> simp_all [rt, goNorm, toWire, Val.tag]

theorem goNormL_eq (l : List Val) : goNormL l = l.map goNorm := by
  induction l with
  | nil => rfl
  | cons v t ih => simp [goNormL, ih]

theorem toWireL_eq (l : List Val) : toWireL l = l.map toWire := by
  induction l with
  | nil => rfl
  | cons v t ih => simp [toWireL, ih]

/-- arrays come back element by element -/
theorem memo_roundtrip_arr (l : List Val) : rt (.arr l) = .arr (l.map rt) := by
  simp [rt, goNorm, toWire, goNormL_eq, toWireL_eq, Function.comp_def]

/-! ## The repaired variants (`Fixed` flags)

The oracle runs `ingestBatchF` / `ingestMetaF` / `ingestMapF` / `marshalF` with `fixedNow`; with no
flag set these are the functions above.  The theorems below hold for **every** combination of flags
(so they keep describing the model whichever repairs are in), and `memo_roundtrip_fixed` is the full
statement for repair 03 (`memoTime`: memoised timestamps are written with `AppendTimeExt`). -/

theorem fixed_none_marshal (p : Pay) : marshalF {} p = marshal p := rfl
theorem fixed_none_batch (cfg : Cfg) (fs : List (String × Val)) : ingestBatchF {} cfg fs = ingestBatch cfg fs := rfl

theorem wstepN_invM {fs : List (String × Val)} {S : List String} {fx : Fixed} {cfg : Cfg} {sk : List String}
    {st st' : (Pay × Nat) × (String × Nat)} {kv : String × Val} (hkv : kv ∈ fs) (h : InvM fs S st.1.1)
    (hs : wstepN fx cfg sk st kv = some st') : InvM fs S st'.1.1 := by
  unfold wstepN at hs
  cases hd : metaDecode kv.1 kv.2 with
  | err => rw [hd] at hs; simp at hs
  | done mv =>
    rw [hd] at hs
    simp only [Option.some.injEq] at hs
    subst hs
    exact h
  | skip =>
    rw [hd] at hs
    simp only at hs
    by_cases hc : fx.configuredOrder = true
    · simp only [hc, if_true] at hs
      cases hf : idFallC cfg st.1.1.md.id st.2 kv.1 kv.2 with
      | some ic =>
        rw [hf] at hs
        simp only [Option.some.injEq] at hs
        subst hs
        exact h
      | none =>
        rw [hf] at hs
        simp only [Option.some.injEq] at hs
        subst hs
        exact wireKey_invM (k := kv.1) (w := kv.2) hkv h
    · have hc' : fx.configuredOrder = false := by simpa using hc
      simp only [hc', Bool.false_eq_true, if_false] at hs
      cases hf : idFall cfg st.1.1.md.id kv.1 kv.2 with
      | some i =>
        rw [hf] at hs
        simp only [Option.some.injEq] at hs
        subst hs
        exact h
      | none =>
        rw [hf] at hs
        simp only [Option.some.injEq] at hs
        subst hs
        exact wireKey_invM (k := kv.1) (w := kv.2) hkv h

theorem wfoldN_invM {fs : List (String × Val)} {S : List String} {fx : Fixed} {cfg : Cfg} {sk : List String} :
    ∀ (t : List (String × Val)) (st st' : (Pay × Nat) × (String × Nat)), (∀ kv ∈ t, kv ∈ fs) →
      InvM fs S st.1.1 → wfoldN fx cfg sk st t = some st' → InvM fs S st'.1.1
  | [], st, st', _, h, hs => by simp [wfoldN] at hs; subst hs; exact h
  | kv :: t, st, st', hsub, h, hs => by
    unfold wfoldN at hs
    cases h1 : wstepN fx cfg sk st kv with
    | none => rw [h1] at hs; simp at hs
    | some st1 =>
      rw [h1] at hs
      exact wfoldN_invM t st1 st' (fun x hx => hsub x (List.mem_cons_of_mem _ hx))
        (wstepN_invM (hsub kv List.mem_cons_self) h h1) hs

theorem extractWireF_invM {fs : List (String × Val)} {fx : Fixed} {cfg : Cfg} {sk : List String} {p1 : Pay}
    (h : extractWireF fx cfg sk {} fs = some p1) : InvM fs [] p1 := by
  unfold extractWireF at h
  split at h
  · unfold extractWireN at h
    cases hw : wfoldN fx cfg sk (({ ({} : Pay) with md := initRoot ({} : Pay).md, isEmpty := ({} : Pay).isEmpty || fs.isEmpty }, 0), ("", cfg.tn.length)) fs with
    | none => rw [hw] at h; simp at h
    | some r =>
      obtain ⟨⟨q, found⟩, c⟩ := r
      rw [hw] at h
      simp only [Option.some.injEq] at h
      subst h
      have h0 : InvM fs [] (({ ({} : Pay) with md := initRoot ({} : Pay).md, isEmpty := ({} : Pay).isEmpty || fs.isEmpty }, 0), ("", cfg.tn.length)).1.1 :=
        ⟨AList.nodup_nil, fun k v hv => by simp at hv⟩
      have := wfoldN_invM (S := []) fs _ _ (fun _ hx => hx) h0 hw
      by_cases c : found < sk.length <;> simpa [c, InvM] using this
  · exact extractWire_invM h

theorem ingestBatchF_inv {fs : List (String × Val)} {fx : Fixed} {cfg : Cfg} {p0 : Pay}
    (h : ingestBatchF fx cfg fs = some p0) : Inv fs [] p0 := by
  unfold ingestBatchF at h
  cases he : extractWireF fx cfg cfg.sk {} fs with
  | none => rw [he] at h; simp at h
  | some p1 =>
    rw [he] at h
    simp only at h
    split at h
    · cases h
    · simp only [Option.some.injEq] at h
      subst h
      have := extractWireF_invM he
      exact ⟨by rw [addUA_raw], by unfold InvM at this ⊢; rw [addUA_memo]; exact this⟩

theorem ingestMetaF_inv {fs : List (String × Val)} {fx : Fixed} {cfg : Cfg} {p0 : Pay}
    (h : ingestMetaF fx cfg fs = some p0) : Inv fs [] p0 := by
  unfold ingestMetaF at h
  cases he : extractWireF fx cfg [] {} fs with
  | none => rw [he] at h; simp at h
  | some p1 =>
    rw [he] at h
    simp only [Option.some.injEq] at h
    subst h
    have := extractWireF_invM he
    exact ⟨by rw [addUA_raw], by unfold InvM at this ⊢; rw [addUA_memo]; exact this⟩

theorem extractMapF_memo {fx : Fixed} {cfg : Cfg} {f2i : Nat → Int} {p p' : Pay} {ord : List (String × Val)}
    (hr : p.raw = []) (h : extractMapF fx cfg f2i p ord = some p') : p'.memo = p.memo ∧ p'.raw = [] := by
  unfold extractMapF at h
  split at h
  · unfold extractMapN at h
    split at h
    · cases h; exact ⟨rfl, hr⟩
    · simp only [hr, List.isEmpty_nil, if_true, Option.some.injEq] at h
      subst h
      exact ⟨rfl, rfl⟩
  · exact extractMap_memo hr h

theorem ingestMapF_inv {fx : Fixed} {cfg : Cfg} {f2i : Nat → Int} {fs ord : List (String × Val)} {p0 : Pay}
    (hnd : (keysOf fs).Nodup) (h : ingestMapF fx cfg f2i fs ord = some p0) : InvJ fs [] p0 := by
  unfold ingestMapF at h
  split at h
  · cases h
  · have hr : (addUA cfg { memo := memoOfJSON fs }).raw = [] := by rw [addUA_raw]
    obtain ⟨h1, h2⟩ := extractMapF_memo hr h
    refine ⟨h2, ?_, ?_⟩
    · rw [h1, addUA_memo]; exact memoOfJSON_nodup fs
    · intro k _
      rw [h1, addUA_memo]; exact memoOfJSON_get hnd k

/-- a memoised value as the (possibly repaired) `MarshalMsg` writes it -/
def rtF (fx : Fixed) (v : Val) : Val := toWireF fx (goNorm v)

/-- **marshal_extract_id** for every combination of repairs (`/1/batch`) -/
theorem marshal_extract_id_fixed (fx : Fixed) {cfg : Cfg} {fs : List (String × Val)} {p0 : Pay} (ops : List Op)
    (hnd : (keysOf fs).Nodup) (h0 : ingestBatchF fx cfg fs = some p0) {k : String} (hk : tableKind k = none)
    (hS : k ∉ setKeys ops) :
    match AList.get fs k with
    | none => AList.get (marshalF fx (applyOps p0 ops)) k = none
    | some v => AList.get (marshalF fx (applyOps p0 ops)) k = some v ∨
        AList.get (marshalF fx (applyOps p0 ops)) k = some (rtF fx v) := by
  have := applyOps_inv ops [] p0 (ingestBatchF_inv h0)
  exact marshalW_of_inv (toWireF fx) hnd this hk (by simpa using hS)

theorem marshal_extract_id_fixed_otlp (fx : Fixed) {cfg : Cfg} {fs : List (String × Val)} {p0 : Pay} (ops : List Op)
    (hnd : (keysOf fs).Nodup) (h0 : ingestMetaF fx cfg fs = some p0) {k : String} (hk : tableKind k = none)
    (hS : k ∉ setKeys ops) :
    match AList.get fs k with
    | none => AList.get (marshalF fx (applyOps p0 ops)) k = none
    | some v => AList.get (marshalF fx (applyOps p0 ops)) k = some v ∨
        AList.get (marshalF fx (applyOps p0 ops)) k = some (rtF fx v) := by
  have := applyOps_inv ops [] p0 (ingestMetaF_inv h0)
  exact marshalW_of_inv (toWireF fx) hnd this hk (by simpa using hS)

theorem marshal_extract_id_fixed_events (fx : Fixed) {cfg : Cfg} {f2i : Nat → Int} {fs ord : List (String × Val)}
    {p0 : Pay} (ops : List Op) (hnd : (keysOf fs).Nodup) (h0 : ingestMapF fx cfg f2i fs ord = some p0)
    {k : String} (hk : tableKind k = none) (hS : k ∉ setKeys ops) :
    AList.get (marshalF fx (applyOps p0 ops)) k = (AList.get fs k).map (rtF fx) := by
  have h := applyOps_invJ ops [] p0 (ingestMapF_inv hnd h0)
  unfold marshalF
  rw [marshalW_get _ _ hk, h.1, h.2.2 k (by simpa using hS)]
  cases AList.get fs k <;> simp [rtF]

theorem no_dup_keys_reachable_fixed (fx : Fixed) {cfg : Cfg} {fs : List (String × Val)} {p0 : Pay} (ops : List Op)
    (hnd : (keysOf fs).Nodup) (h0 : ingestBatchF fx cfg fs = some p0) :
    (keysOf (marshalF fx (applyOps p0 ops))).Nodup := by
  have := applyOps_inv ops [] p0 (ingestBatchF_inv h0)
  exact no_dup_keysW _ _ this.2.1 (by rw [this.1]; exact hnd)

/-- **memo_roundtrip, full statement, with repair 03** — every memoised value, timestamps included,
is written back with the wire type it came with. -/
theorem memo_roundtrip_fixed {fx : Fixed} (h : fx.memoTime = true) : MemoRoundtripOf (toWireF fx) := by
  intro v
  cases v <;> simp [toWireF, h, toWireT, goNorm, Val.tag]
  rename_i n
  by_cases c : n ≤ 127 <;> simp [c]

/-- with repair 03 every scalar, timestamps included, comes back identical -/
theorem memo_roundtrip_fixed_scalar {fx : Fixed} (h : fx.memoTime = true) (v : Val) (ha : v.tag ≠ .arr)
    (hm : v.tag ≠ .map) (hu : ∀ n, v = .uint n → 127 < n) : rtF fx v = v := by
  cases v <;> simp_all [rtF, toWireF, toWireT, goNorm, Val.tag]

/-! ## Queued events and later requests -/

def isPostOf (id : String) : QOp → Bool
  | .post id' _ => id' == id
  | .other _ => false

/-- **later_requests_do_not_alter_queued_events** — an event queued by a request is still the same
event (hence re-encoded identically, `marshalF fx` being a function of it) after any number of later
requests of any content, as long as none of them re-uses its id.  Trivial in the model, where events
are values; the correspondence check holds the implementation to it through the real
`Router.batch`, whose body buffers are pooled. -/
theorem later_requests_do_not_alter_queued_events (q : AList String Pay) (id : String) (p : Pay) :
    ∀ (later : List QOp), (∀ o ∈ later, isPostOf id o = false) →
      AList.get (later.foldl qstep (qstep q (.post id (some p)))) id = some p := by
  suffices h : ∀ (later : List QOp) (q' : AList String Pay), AList.get q' id = some p →
      (∀ o ∈ later, isPostOf id o = false) → AList.get (later.foldl qstep q') id = some p by
    intro later hl
    exact h later _ (by simp [qstep, AList.get_put]) hl
  intro later
  induction later with
  | nil => intro q' h _; exact h
  | cons o t ih =>
    intro q' h hl
    apply ih
    · have ho := hl o List.mem_cons_self
      cases o with
      | other r => exact h
      | post id' r =>
        have hne : id' ≠ id := by simpa [isPostOf] using ho
        cases r with
        | none => simp [qstep, AList.get_del, hne, h]
        | some p' => simp [qstep, AList.get_put, hne, h]
    · exact fun o ho => hl o (List.mem_cons_of_mem _ ho)

/-! Non-vacuity: concrete payloads, evaluated by the kernel. -/

def cfgE : Cfg := { tn := ["trace.trace_id"], pn := ["trace.parent_id"], sk := ["name", "when"] }

def fsE : List (String × Val) :=
  [("trace.trace_id", .str "t1"), ("name", .str "x"), ("n", .int 3), ("when", .time 1700000000 5)]

example : (ingestBatch cfgE fsE).map (fun p => AList.keys p.memo) = some ["when", "name"] := by decide
example : (ingestBatch cfgE fsE).map (fun p => keysOf (marshal p)) =
    some ["meta.refinery.root", "meta.trace_id", "when", "name", "trace.trace_id", "n"] := by decide
example : (ingestBatch cfgE fsE).map (fun p => (AList.get (marshal p) "when").map Val.tag) =
    some (some .ext5) := by decide
example : (ingestBatch cfgE fsE).map (fun p => (AList.get (marshal (applyOps p [.memo ["n"], .set "added" (.str "a")])) "n").map Val.tag) =
    some (some .int) := by decide

example : (ingestBatchF { memoTime := true } cfgE fsE).map
    (fun p => (AList.get (marshalF { memoTime := true } p) "when").map Val.tag) = some (some .time) := by decide

end Refinery.Props.C20
