import Refinery.Lemmas.TransmitInv
/-!
# C26 — transmission delivers each event once to its own destination within limits

Statement (properties.jsonl): every event handed to a transmission is placed in exactly one outgoing
batch addressed to that event's own API host, API key and dataset, unless it alone serializes to
more than 1 MB (then it is dropped and counted as an error); request bodies never exceed 5 MB,
batches hold at most MaxBatchSize events and are dispatched within 1.25 × BatchTimeout of their
first event.  A batch answered with 429/503 (Retry-After under 60 s) or timing out is attempted at
most twice, everything pending is sent when the transmission stops, and the queued-items gauge
returns to zero once every event has an outcome.

The theorems quantify over every list of event sizes (splitting), every operation history
`ops : List Op` (enqueues with any destination and size, clock advances of any length, stops) and
every server script (`List Srv`: any function from the number of events in a request to a
timeout, a transport error or an HTTP response with any status, Retry-After class, decodability
and per-event statuses).  The limits are the constants compiled into the package
(`Refinery.Gen.Transmit`).
-/
namespace Refinery.Props.C26
open Refinery Refinery.Model.Transmit

/-- the limits the theorems speak about are the ones in the code -/
theorem limits : (maxB : Int) = Gen.Transmit.apiMaxBatchSize ∧ (maxE : Int) = Gen.Transmit.apiMaxEventSize ∧
    reserve + maxE ≤ maxB := by decide

/-- **wire_rate_is_event_rate** — the sample rate written into a forwarded event is the event's own
sample rate, for every rate an `int64` can hold (in particular beyond 2^31 and 2^32). -/
theorem wire_rate_is_event_rate (rate : Nat) (h : rate < 2 ^ 63) : wireRate rate = rate := by
  simp [wireRate, h]

/-! ## splitting (any list of events, any sizes) -/

/-- **split_terminates** — `sendBatch`'s outer loop always makes progress: with fuel `length + 1` it
runs to the end for every whole batch (an empty sub-batch can only arise when every event packed
so far was oversize, and those are consumed), so `sendBatch` returns and `Stop` cannot hang on it. -/
theorem split_terminates (evs : List Ev) : (split evs).2 = true := split_complete evs

/-- **split_concat** — the concatenation of the sub-batches is the input minus the events that do not
marshal or exceed 1 MB, order preserved; and exactly those events are the ones skipped. -/
theorem split_concat (evs : List Ev) :
    (split evs).1.flatMap (·.sub) = evs.filter (fits maxE) ∧
    (split evs).1.flatMap (·.dropped) = evs.filter (fun e => !fits maxE e) :=
  ⟨splitLoop_subs maxB maxE _ _ (split_complete evs), splitLoop_dropped maxB maxE _ _ (split_complete evs)⟩

/-- **body_le_5MB (splitting)** — every sub-batch of every whole batch has a request body of at
most `apiMaxBatchSize` = 5 000 000 bytes: the packed events plus the 5 reserved header bytes stay
within the limit and the real header is never longer than the reservation. -/
theorem split_body_le (evs : List Ev) : ∀ c ∈ (split evs).1,
    bodyLen c ≤ maxB ∧ c.packed = reserve + sizeSum c.sub ∧ c.packed ≤ maxB := by
  intro c hc
  obtain ⟨h1, h2, _⟩ := splitLoop_chunks maxB maxE (by decide) _ evs c hc
  refine ⟨?_, h2, h1⟩
  have := hdrLen_le c.sub.length
  unfold bodyLen; omega

/-! ## one `sendBatch` against any server behaviour -/

/-- **attempts_le_two (one batch)** — whatever the server and the network do (time-outs, 429/503 with
any Retry-After, any other answer), every sub-batch is sent at most twice. -/
theorem attempts_le_two_send (cfg : Cfg) (script : List Srv) (now : Nat) (evs : List Ev) (j : Nat) :
    ((sendBatch cfg script now evs).log.filter (fun a => a.chunk = j)).length ≤ 2 :=
  (sendBatch_spec cfg script now evs).2.2.2.2 j

/-- **gauge (one batch)** — over every branch (marshal error, oversize, URL error, transport error,
time-out twice, 429/503 with and without retry, other non-200, 200 with short / long / undecodable
body) `sendBatch` takes the queued-items gauge down exactly once per event handed to it, and
counts every oversize / unmarshalable event as a response error. -/
theorem sendBatch_accounts (cfg : Cfg) (script : List Srv) (now : Nat) (evs : List Ev) :
    (sendBatch cfg script now evs).ctr.downs = evs.length ∧ (sendBatch cfg script now evs).ctr.ups = 0 ∧
    (evs.filter (fun e => !fits maxE e)).length ≤ (sendBatch cfg script now evs).ctr.rerr :=
  ⟨(sendBatch_spec cfg script now evs).2.1, (sendBatch_spec cfg script now evs).1,
   (sendBatch_spec cfg script now evs).2.2.1⟩

/-! ## every history of enqueues, clock advances and stops -/

/-- every request belongs to a dispatch and carries one sub-batch of that dispatch's split -/
theorem attempt_origin (cfg : Cfg) (ops : List Op) : ∀ a ∈ attempts cfg (run cfg ops),
    ∃ d ∈ (run cfg ops).disps, a ∈ (d.out cfg).log ∧ a.time = d.time ∧
      ∃ ch ∈ d.chunks, a.dest = ch.dest ∧ a.events = ch.sub ∧ a.bodyLen = bodyLen ch ∧ ch.sub ≠ [] ∧
        a.path = requestPath (cfg.esc ch.dest.dataset) := by
  intro a ha
  simp only [attempts, List.mem_flatMap] at ha
  obtain ⟨d, hd, hal⟩ := ha
  obtain ⟨_, _, _, h4, _⟩ := sendBatch_spec cfg d.script d.time d.events
  obtain ⟨t, c, hc, r⟩ := h4 a hal
  exact ⟨d, hd, hal, t, c, hc, r⟩

/-- **one_batch_own_destination (addressing)** — every request is addressed to the (host, key,
dataset) of the batch it was cut from, and every event inside it has exactly that destination. -/
theorem request_to_own_destination (cfg : Cfg) (ops : List Op) : ∀ a ∈ attempts cfg (run cfg ops),
    (∀ e ∈ a.events, e.dest = a.dest) ∧ ∃ d ∈ (run cfg ops).disps, a ∈ (d.out cfg).log ∧ a.dest = d.dest := by
  intro a ha
  obtain ⟨d, hd, hal, _, ch, hch, h1, h2, _, h4, _⟩ := attempt_origin cfg ops a ha
  have inv := invA_run cfg ops
  obtain ⟨_, _, _, c4, _, c6⟩ := splitLoop_chunks maxB maxE (by decide) _ d.events ch hch
  have hdest : ch.dest = d.dest := by
    obtain ⟨x, hx, hxd⟩ := c6
    rw [hxd]; exact inv.dkeyed d hd x hx
  refine ⟨?_, d, hd, hal, by rw [h1, hdest]⟩
  intro e he
  rw [h2] at he
  rw [h1, hdest]
  exact inv.dkeyed d hd e (c4 e he).1

/-- The full-strength addressing claim: every request goes to the batch endpoint of its events' own
dataset, `/1/batch/<escaped dataset>` — for every dataset name. -/
def FullStatement : Prop :=
  ∀ (cfg : Cfg) (ops : List Op), ∀ a ∈ attempts cfg (run cfg ops), a.path = ownPath (cfg.esc a.dest.dataset)

/-- **Refuted on the code as it is**: `buildRequestURL` joins the escaped dataset with
`url.JoinPath`, which cleans the path.  An event whose dataset is `..` is sent to `/1`, one whose
dataset is `.` or empty to `/1/batch` — not to its own dataset's endpoint.  (Reproduced on the
real `DirectTransmission`: corpus/C26/dot-datasets.ops.) -/
theorem full_statement_refuted : ¬ FullStatement := by
  intro h
  have := h ⟨1, 400, fun _ => false, id⟩ [.enq ⟨0, ⟨"http://a", "k", ".."⟩, some 100, 0⟩ []]
    ⟨⟨"http://a", "k", ".."⟩, ["1"], [⟨0, ⟨"http://a", "k", ".."⟩, some 100, 0⟩], 101, 0, 0, 0⟩ (by decide)
  revert this
  decide

/-- **one_batch_own_destination (path), partial**: whenever the escaped dataset is not one of the
three names `url.JoinPath` cleans away (empty, `.`, `..`), the request goes to exactly
`/1/batch/<escaped dataset>`. -/
theorem request_path_own_dataset_partial (cfg : Cfg) (ops : List Op) : ∀ a ∈ attempts cfg (run cfg ops),
    cfg.esc a.dest.dataset ≠ "" → cfg.esc a.dest.dataset ≠ "." → cfg.esc a.dest.dataset ≠ ".." →
    a.path = ownPath (cfg.esc a.dest.dataset) := by
  intro a ha h1 h2 h3
  obtain ⟨d, _, _, _, ch, _, hd, _, _, _, hp⟩ := attempt_origin cfg ops a ha
  rw [hp, ← hd]
  simp [requestPath, ownPath, h1, h2, h3]

/-- **one_batch_own_destination (exactly once)** — for every destination `k`, the sub-batches cut
from the batches dispatched for `k`, in order, followed by the sendable events still waiting for
`k`, are exactly the sendable events accepted for `k`, in enqueue order: each such event is in
exactly one outgoing sub-batch (or still pending), none is duplicated, lost or reordered. -/
theorem one_batch_own_destination (cfg : Cfg) (ops : List Op) (k : Dest) :
    ((run cfg ops).disps.filter (fun d => d.dest = k)).flatMap (fun d => d.chunks.flatMap (·.sub))
      ++ (pendingOf (run cfg ops) k).filter (fits maxE)
    = ((run cfg ops).accepted.filter (fun e => e.dest = k)).filter (fits maxE) := by
  have inv := invA_run cfg ops
  have h := inv.acct k
  have hp : pendingOf (run cfg ops) k = evsOf (AList.get (run cfg ops).batches k) := by
    unfold pendingOf evsOf; cases AList.get (run cfg ops).batches k <;> rfl
  rw [hp, ← h, List.filter_append]
  congr 1
  simp only [sentD, List.filter_flatMap]
  apply flatMap_congr'
  intro d _
  exact (split_concat d.events).1

/-- **body_le_5MB** — no request body exceeds 5 000 000 bytes. -/
theorem body_le_5MB (cfg : Cfg) (ops : List Op) : ∀ a ∈ attempts cfg (run cfg ops), a.bodyLen ≤ 5000000 := by
  intro a ha
  obtain ⟨d, _, _, _, ch, hch, _, _, h3, _, _⟩ := attempt_origin cfg ops a ha
  have := (split_body_le d.events ch hch).1
  have hm : maxB = 5000000 := by decide
  omega

/-- **batch_le_max** — a request never carries more than MaxBatchSize events (MaxBatchSize ≥ 1), and
no batch waiting for dispatch has reached MaxBatchSize. -/
theorem batch_le_max (cfg : Cfg) (hmb : 0 < cfg.maxBatch) (ops : List Op) :
    (∀ a ∈ attempts cfg (run cfg ops), a.events.length ≤ cfg.maxBatch) ∧
    (∀ d ∈ (run cfg ops).disps, d.events.length ≤ cfg.maxBatch) ∧
    (∀ kb ∈ (run cfg ops).batches, kb.2.events.length < cfg.maxBatch) := by
  have inv := invA_run cfg ops
  have hd : ∀ d ∈ (run cfg ops).disps, d.events.length ≤ cfg.maxBatch := by
    intro d hd; have := inv.dsmall d hd; omega
  refine ⟨?_, hd, ?_⟩
  · intro a ha
    obtain ⟨d, hdm, _, _, ch, hch, _, h2, _, _, _⟩ := attempt_origin cfg ops a ha
    obtain ⟨_, _, c3, _⟩ := splitLoop_chunks maxB maxE (by decide) _ d.events ch hch
    have := hd d hdm
    rw [h2]; omega
  · intro kb hkb
    rcases inv.small kb hkb with h | h
    · rw [h]; exact hmb
    · exact h

/-- **oversize_dropped** — an event that alone serializes to more than 1 000 000 bytes (or does not
marshal at all) is never part of a request, and each such event of a dispatched batch has been
counted in `response_errors`. -/
theorem oversize_dropped (cfg : Cfg) (ops : List Op) :
    (∀ a ∈ attempts cfg (run cfg ops), ∀ e ∈ a.events, ∃ sz, e.size = some sz ∧ sz ≤ 1000000) ∧
    (((run cfg ops).disps.flatMap (·.events)).filter (fun e => !fits maxE e)).length ≤ (run cfg ops).ctr.rerr := by
  have inv := invA_run cfg ops
  constructor
  · intro a ha e he
    obtain ⟨d, _, _, _, ch, hch, _, h2, _, _, _⟩ := attempt_origin cfg ops a ha
    obtain ⟨_, _, _, c4, _⟩ := splitLoop_chunks maxB maxE (by decide) _ d.events ch hch
    rw [h2] at he
    have hf := (c4 e he).2
    have hm : maxE = 1000000 := by decide
    unfold fits at hf
    cases hs : e.size with
    | none => simp [hs] at hf
    | some sz => simp [hs] at hf; exact ⟨sz, rfl, by omega⟩
  · have : (((run cfg ops).disps.flatMap (·.events)).filter (fun e => !fits maxE e)).length = unfitD (run cfg ops).disps := by
      generalize (run cfg ops).disps = ds
      induction ds with
      | nil => rfl
      | cons d ds ih =>
        simp only [List.flatMap_cons, List.filter_append, List.length_append, unfitD, List.map_cons, List.sum_cons] at ih ⊢
        omega
    rw [this]; exact inv.errs

/-- **dispatch_within_1_25** — with the ticker firing every BatchTimeout/4, every batch is handed to
`sendBatch` (because it is full, by a tick, or by Stop) less than 1.25 × BatchTimeout after its
first event was enqueued — in fact after *any* of its events was enqueued — and a batch that is
still waiting is younger than that.  (`e.t` is the clock `EnqueueEvent` stamped on the event,
`d.start` the clock at the batch's first event.) -/
theorem dispatch_within_1_25 (cfg : Cfg) (hstart : (start cfg).isSome) (ops : List Op) :
    (∀ d ∈ (run cfg ops).disps, ∀ e ∈ d.events,
        d.start ≤ e.t ∧ d.time < d.start + cfg.bt + cfg.bt / 4 ∧ 4 * d.time < 4 * e.t + 5 * cfg.bt) ∧
    ((run cfg ops).stopped = false → ∀ kb ∈ (run cfg ops).batches, ∀ e ∈ kb.2.events,
        4 * (run cfg ops).now < 4 * e.t + 5 * cfg.bt) := by
  have hp : 0 < period cfg := by
    unfold start at hstart
    by_cases h : period cfg = 0
    · simp [h] at hstart
    · omega
  have inv := invT_run cfg hp ops
  have hper : period cfg = cfg.bt / 4 := rfl
  constructor
  · intro d hd e he
    have h1 := inv.dtime d hd
    have h2 := inv.dstarted d hd e he
    refine ⟨h2, by rw [← hper]; exact h1, ?_⟩
    rw [hper] at h1; omega
  · intro hs kb hkb e he
    have hne : kb.2.events ≠ [] := by intro h; rw [h] at he; simp at he
    have h1 := inv.fresh kb hkb hne
    have h2 := inv.started kb hkb e he
    obtain ⟨_, h3⟩ := inv.clock hs
    rw [hper] at h3; omega

/-- **attempts_le_two** — in every history and against every server behaviour, each sub-batch of
each dispatched batch is sent at most twice. -/
theorem attempts_le_two (cfg : Cfg) (ops : List Op) : ∀ d ∈ (run cfg ops).disps, ∀ j,
    (((d.out cfg).log).filter (fun a => a.chunk = j)).length ≤ 2 := by
  intro d _ j
  exact attempts_le_two_send cfg d.script d.time d.events j

/-- **stop_flushes** — after `Stop` nothing is pending: every event the transmission accepted has been
handed to `sendBatch` (per destination, in order), and this stays so. -/
theorem stop_flushes (cfg : Cfg) (ops : List Op) (hs : (run cfg ops).stopped = true) :
    (run cfg ops).batches = [] ∧ pendingCount (run cfg ops) = 0 ∧
    ∀ k, ((run cfg ops).disps.filter (fun d => d.dest = k)).flatMap (·.events)
          = (run cfg ops).accepted.filter (fun e => e.dest = k) := by
  have inv := invA_run cfg ops
  have hb := inv.stoppedEmpty hs
  refine ⟨hb, by simp [pendingCount, hb], ?_⟩
  intro k
  have := inv.acct k
  rw [hb] at this
  simpa [sentD, evsOf] using this

/-- `Stop` stops: the state after a `stop` operation is stopped, whatever came before. -/
theorem stop_stops (cfg : Cfg) (ops : List Op) (sc : List Srv) : (run cfg (ops ++ [.stop sc])).stopped = true := by
  simp only [run, List.foldl_append, List.foldl_cons, List.foldl_nil, step]
  generalize List.foldl (step cfg) {} ops = s
  by_cases hs : s.stopped = true
  · unfold stop; rw [if_pos hs]; exact hs
  · have hs : s.stopped = false := by simpa using hs
    rw [stop_eq cfg s sc hs]; rfl

/-- **gauge_zero** — in every reachable state, over every branch of every `sendBatch`, the queued-items
gauge (ups − downs) equals the number of events still waiting in batches; once the transmission
has stopped every event has had its outcome and the gauge is back at zero. -/
theorem gauge_zero (cfg : Cfg) (ops : List Op) :
    (run cfg ops).ctr.ups = (run cfg ops).ctr.downs + pendingCount (run cfg ops) ∧
    ((run cfg ops).stopped = true → (run cfg ops).ctr.ups = (run cfg ops).ctr.downs) := by
  have inv := invA_run cfg ops
  refine ⟨inv.gauge, ?_⟩
  intro hs
  have := inv.gauge
  rw [inv.stoppedEmpty hs] at this
  simpa [lens] using this

/-- what a burst of enqueues at one instant does to the history of accepted events and to `ups` -/
theorem enqs_effect (cfg : Cfg) : ∀ (es : List (Ev × List Srv)) (s : St),
    let s' := (es.map fun p => Op.enq p.1 p.2).foldl (step cfg) s
    s'.now = s.now ∧ s'.stopped = s.stopped ∧
    s'.accepted = s.accepted ++ (if s.stopped then [] else es.map fun p => { p.1 with t := s.now }) ∧
    s'.ctr.ups = s.ctr.ups + (if s.stopped then 0 else es.length) := by
  intro es
  induction es with
  | nil => intro s; cases h : s.stopped <;> simp [h]
  | cons p es ih =>
    intro s
    simp only [List.map_cons, List.foldl_cons]
    by_cases hs : s.stopped = true
    · have he : step cfg s (Op.enq p.1 p.2) = { s with panicked := true } := by
        simp only [step, enq]; exact enq_stopped_eq cfg s _ p.2 hs
      rw [he]
      obtain ⟨i1, i2, i3, i4⟩ := ih { s with panicked := true }
      refine ⟨i1, i2, ?_, ?_⟩
      · rw [i3]; simp [hs]
      · rw [i4]; simp [hs]
    · obtain ⟨i1, i2, i3, i4⟩ := ih (step cfg s (Op.enq p.1 p.2))
      have hs : s.stopped = false := by simpa using hs
      have e1 : (step cfg s (Op.enq p.1 p.2)).now = s.now := (enq_now cfg s _ p.2 hs).1
      have e2 : (step cfg s (Op.enq p.1 p.2)).stopped = false := enq_stopped cfg s _ p.2 hs
      have e3 : (step cfg s (Op.enq p.1 p.2)).accepted = s.accepted ++ [{ p.1 with t := s.now }] :=
        enq_accepted cfg s _ p.2 hs
      have e4 : (step cfg s (Op.enq p.1 p.2)).ctr.ups = s.ctr.ups + 1 := (enq_ctr cfg s _ p.2 hs).1
      refine ⟨by rw [i1, e1], by rw [i2, e2, hs], ?_, ?_⟩
      · rw [i3, e2, e3, e1]; simp [hs]
      · rw [i4, e2, e4]; simp [hs]; omega

/-- **enqueue_order_independent** — concurrent `EnqueueEvent` calls are some linearisation of the
same enqueues.  For every history and every two orders of a burst of enqueues (any destinations,
any sizes, any server behaviour), the accepted events are the same multiset, `ups` is the same,
`downs + pending` is the same, and for every destination the events sent or still waiting are
the same multiset: no order of the atomic enqueue steps loses, duplicates or misroutes an event. -/
theorem enqueue_order_independent (cfg : Cfg) (pre : List Op) (es1 es2 : List (Ev × List Srv)) (h : es1.Perm es2) :
    let s1 := run cfg (pre ++ es1.map fun p => Op.enq p.1 p.2)
    let s2 := run cfg (pre ++ es2.map fun p => Op.enq p.1 p.2)
    s1.accepted.Perm s2.accepted ∧ s1.ctr.ups = s2.ctr.ups ∧
    s1.ctr.downs + pendingCount s1 = s2.ctr.downs + pendingCount s2 ∧
    ∀ k, (sentD s1.disps k ++ pendingOf s1 k).Perm (sentD s2.disps k ++ pendingOf s2 k) := by
  intro s1 s2
  have inv1 := invA_run cfg (pre ++ es1.map fun p => Op.enq p.1 p.2)
  have inv2 := invA_run cfg (pre ++ es2.map fun p => Op.enq p.1 p.2)
  have r1 : s1 = (es1.map fun p => Op.enq p.1 p.2).foldl (step cfg) (run cfg pre) := by
    simp [s1, run, List.foldl_append]
  have r2 : s2 = (es2.map fun p => Op.enq p.1 p.2).foldl (step cfg) (run cfg pre) := by
    simp [s2, run, List.foldl_append]
  obtain ⟨_, _, a1, u1⟩ := enqs_effect cfg es1 (run cfg pre)
  obtain ⟨_, _, a2, u2⟩ := enqs_effect cfg es2 (run cfg pre)
  rw [← r1] at a1 u1
  rw [← r2] at a2 u2
  have hacc : s1.accepted.Perm s2.accepted := by
    rw [a1, a2]
    apply List.Perm.append_left
    cases (run cfg pre).stopped
    · simpa using h.map _
    · simp
  have hups : s1.ctr.ups = s2.ctr.ups := by rw [u1, u2, h.length_eq]
  refine ⟨hacc, hups, ?_, ?_⟩
  · have g1 := inv1.gauge
    have g2 := inv2.gauge
    show s1.ctr.downs + lens s1.batches = s2.ctr.downs + lens s2.batches
    have : s1.ctr.ups = s1.ctr.downs + lens s1.batches := g1
    have : s2.ctr.ups = s2.ctr.downs + lens s2.batches := g2
    omega
  · intro k
    have p1 : pendingOf s1 k = evsOf (AList.get s1.batches k) := by
      unfold pendingOf evsOf; cases AList.get s1.batches k <;> rfl
    have p2 : pendingOf s2 k = evsOf (AList.get s2.batches k) := by
      unfold pendingOf evsOf; cases AList.get s2.batches k <;> rfl
    rw [p1, p2, inv1.acct k, inv2.acct k]
    exact hacc.filter _

theorem ticks_disps (cfg : Cfg) (sc : List Srv) : ∀ (k : Nat) (s : St), ∃ l, (ticks cfg sc k s).disps = s.disps ++ l := by
  intro k
  induction k with
  | zero => intro s; exact ⟨[], by simp [ticks]⟩
  | succ n ih =>
    intro s
    simp only [ticks]
    obtain ⟨l, hl⟩ := ih (tick cfg sc { s with now := s.lastTick + period cfg, lastTick := s.lastTick + period cfg })
    rw [hl, tick_eq]
    refine ⟨((s.batches.filter (fun kb => stale cfg (s.lastTick + period cfg) kb.2)).map
      (mkDisp (s.lastTick + period cfg) .tick sc)) ++ l, ?_⟩
    simp [record, List.append_assoc]

theorem step_disps (cfg : Cfg) (s : St) (op : Op) : ∃ l, (step cfg s op).disps = s.disps ++ l := by
  cases op with
  | enq e sc =>
    by_cases hs : s.stopped = true
    · exact ⟨[], by simp only [step, enq]; rw [enq_stopped_eq cfg s _ sc hs]; simp⟩
    · have hs : s.stopped = false := by simpa using hs
      exact ⟨_, enq_disps cfg s _ sc hs⟩
  | adv d sc =>
    simp only [step, adv]
    by_cases hs : s.stopped = true
    · rw [if_pos hs]; exact ⟨[], by simp⟩
    · rw [if_neg hs]
      obtain ⟨l, hl⟩ := ticks_disps cfg sc ((s.now + d - s.lastTick) / period cfg) s
      exact ⟨l, hl⟩
  | stop sc =>
    by_cases hs : s.stopped = true
    · exact ⟨[], by simp only [step]; unfold stop; rw [if_pos hs]; simp⟩
    · have hs : s.stopped = false := by simpa using hs
      simp only [step]; rw [stop_eq cfg s sc hs]
      exact ⟨_, rfl⟩

/-- **inflight_batch_unaltered** — a batch handed to `sendBatch` is a value: whatever happens afterwards
(in particular events enqueued for the same destination while that send is still in flight), the
history of dispatched batches only grows; the events of the in-flight batch, and therefore the
requests cut from it, stay exactly as dispatched. -/
theorem inflight_batch_unaltered (cfg : Cfg) (pre post : List Op) :
    ∃ l, (run cfg (pre ++ post)).disps = (run cfg pre).disps ++ l := by
  simp only [run, List.foldl_append]
  generalize List.foldl (step cfg) {} pre = s
  induction post generalizing s with
  | nil => exact ⟨[], by simp⟩
  | cons o os ih =>
    simp only [List.foldl_cons]
    obtain ⟨l1, h1⟩ := step_disps cfg s o
    obtain ⟨l2, h2⟩ := ih (step cfg s o)
    exact ⟨l1 ++ l2, by rw [h2, h1, List.append_assoc]⟩

/-- every `sendBatch` the transmission ever started has returned -/
theorem never_hangs (cfg : Cfg) (ops : List Op) : (run cfg ops).complete = true := (invA_run cfg ops).complete

/-! ## Non-vacuity: concrete inputs, evaluated by the kernel -/

def dA : Dest := ⟨"http://a", "k", "ds"⟩
def dB : Dest := ⟨"http://a", "k2", "ds"⟩
def ev (i : Nat) (d : Dest) (sz : Nat) : Ev := ⟨i, d, some sz, 0⟩
def cfg0 : Cfg := ⟨3, 400, fun _ => false, id⟩
def retry429 : Srv := fun _ => .http 429 (.dur 1000000000) false []

-- six 1 MB events + an oversize one: two sub-batches (4 + 2), the 1 000 001-byte event dropped
example : ((split [ev 0 dA 1000000, ev 1 dA 1000000, ev 2 dA 1000001, ev 3 dA 1000000, ev 4 dA 1000000,
    ev 5 dA 1000000, ev 6 dA 999990]).1.map fun c => (c.sub.map (·.id), c.dropped.map (·.id), c.packed))
    = [([0, 1, 3, 4], [2], 4000005), ([5, 6], [], 1999995)] := by decide
-- exactly 5 000 000 packed bytes still fit, one more byte does not
example : ((split [ev 0 dA 1000000, ev 1 dA 1000000, ev 2 dA 1000000, ev 3 dA 1000000, ev 4 dA 999995]).1.map
    fun c => c.sub.length) = [5] := by decide
example : ((split [ev 0 dA 1000000, ev 1 dA 1000000, ev 2 dA 1000000, ev 3 dA 1000000, ev 4 dA 999996]).1.map
    fun c => c.sub.length) = [4, 1] := by decide
-- 429 twice: two attempts, then every event is an error and the gauge is back at 0
example : let s := run cfg0 [.enq (ev 0 dA 100) [], .enq (ev 1 dB 100) [], .enq (ev 2 dA 100) [], .adv 500 [retry429, retry429]]
    ((attempts cfg0 s).map (fun a => (a.dest.key, a.events.map (·.id), a.time)), s.ctr.ups, s.ctr.downs, s.ctr.rerr, s.ctr.retries)
    = ([("k", [0, 2], 400), ("k", [0, 2], 400), ("k2", [1], 400), ("k2", [1], 400)], 3, 3, 3, 2) := by decide
-- the third event fills the batch; Stop flushes the other destination
example : let s := run cfg0 [.enq (ev 0 dA 100) [], .enq (ev 1 dB 100) [], .enq (ev 2 dA 100) [], .enq (ev 3 dA 100) [], .stop []]
    ((s.disps.map fun d => (d.dest.key, d.events.map (·.id), d.why)), s.ctr.ups, s.ctr.downs, s.ctr.r20x)
    = ([("k", [0, 2, 3], Why.size), ("k2", [1], Why.stop)], 4, 4, 4) := by decide

end Refinery.Props.C26
