import Refinery.Model.SamplerSelect
/-!
# C14 — each trace is sampled by the sampler configured for its destination
-/
namespace Refinery.Props.C14
open Refinery Refinery.Model.SamplerSelect

/-! ## Key classification -/

def HexLower (c : Nat) : Prop := (48 ≤ c ∧ c ≤ 57) ∨ (97 ≤ c ∧ c ≤ 102)       -- [0-9a-f]
def AlnumLower (c : Nat) : Prop := (48 ≤ c ∧ c ≤ 57) ∨ (97 ≤ c ∧ c ≤ 122)     -- [0-9a-z]

/-- classic configuration key: `[0-9a-f]{32}` -/
def ClassicConfigKey (k : Str) : Prop := k.length = 32 ∧ ∀ c ∈ k, HexLower c
/-- classic ingest key: `hc[a-z]ic_[0-9a-z]{58}` -/
def ClassicIngestKey (k : Str) : Prop :=
  ∃ c body, k = [104, 99, c, 105, 99, 95] ++ body ∧ (97 ≤ c ∧ c ≤ 122) ∧ body.length = 58 ∧ ∀ x ∈ body, AlnumLower x
def Classic (k : Str) : Prop := ClassicConfigKey k ∨ ClassicIngestKey k

theorem isHexLower_iff (c : Nat) : isHexLower c = true ↔ HexLower c := by
  simp [isHexLower, isDigit, HexLower]
theorem isAlnumLower_iff (c : Nat) : isAlnumLower c = true ↔ AlnumLower c := by
  simp [isAlnumLower, isDigit, AlnumLower]

theorem legacy_key_spec (k : Str) : isLegacyKey k = true ↔ Classic k := by
  unfold isLegacyKey Classic ClassicConfigKey ClassicIngestKey
  by_cases h32 : k.length = 32
  · rw [if_pos h32]
    constructor
    · intro h
      left
      refine ⟨h32, ?_⟩
      intro c hc
      exact (isHexLower_iff c).mp (List.all_eq_true.mp h c hc)
    · rintro (⟨_, h⟩ | ⟨c, body, rfl, _, hb, _⟩)
      · exact List.all_eq_true.mpr fun c hc => (isHexLower_iff c).mpr (h c hc)
      · simp at h32; omega
  · rw [if_neg h32]
    by_cases h64 : k.length = 64
    · rw [if_pos h64]
      rcases k with _ | ⟨a0, _ | ⟨a1, _ | ⟨a2, _ | ⟨a3, _ | ⟨a4, _ | ⟨a5, body⟩⟩⟩⟩⟩⟩ <;> try (simp at h64)
      simp only [List.take_succ_cons, List.take_zero, List.drop_succ_cons, List.drop_zero]
      have hl32 : ¬ (a0 :: a1 :: a2 :: a3 :: a4 :: a5 :: body).length = 32 := h32
      have hcfg : ¬ ((a0 :: a1 :: a2 :: a3 :: a4 :: a5 :: body).length = 32 ∧
          ∀ c ∈ a0 :: a1 :: a2 :: a3 :: a4 :: a5 :: body, HexLower c) := fun h => hl32 h.1
      by_cases hp : a0 = 104 ∧ a1 = 99 ∧ a3 = 105 ∧ a4 = 99 ∧ a5 = 95
      · obtain ⟨rfl, rfl, rfl, rfl, rfl⟩ := hp
        by_cases hc : 97 ≤ a2 ∧ a2 ≤ 122
        · have hc' : ¬ (a2 < 97 ∨ a2 > 122) := by omega
          simp only [ne_eq, not_true_eq_false, decide_false, Bool.or_self, Bool.false_eq_true, ↓reduceIte,
            Bool.or_eq_true, decide_eq_true_eq, hc']
          constructor
          · intro h
            right
            exact ⟨a2, body, rfl, hc, h64, fun x hx => (isAlnumLower_iff x).mp (List.all_eq_true.mp h x hx)⟩
          · rintro (h | ⟨c, b, he, _, _, hall⟩)
            · exact absurd h hcfg
            · simp only [List.cons_append, List.nil_append, List.cons.injEq, true_and] at he
              obtain ⟨rfl, rfl⟩ := he
              exact List.all_eq_true.mpr fun x hx => (isAlnumLower_iff x).mpr (hall x hx)
        · have hc' : (a2 < 97 ∨ a2 > 122) := by omega
          simp only [ne_eq, not_true_eq_false, decide_false, Bool.or_self, Bool.false_eq_true, ↓reduceIte,
            Bool.or_eq_true, decide_eq_true_eq, hc', false_iff, not_or]
          refine ⟨hcfg, ?_⟩
          rintro ⟨c, b, he, hcc, _, _⟩
          simp only [List.cons_append, List.nil_append, List.cons.injEq, true_and] at he
          obtain ⟨rfl, rfl⟩ := he
          exact hc hcc
      · have hf : ([a0, a1] ≠ [104, 99] || [a3, a4, a5] ≠ [105, 99, 95]) = true := by
          simp only [ne_eq, List.cons.injEq, and_true, Bool.or_eq_true, decide_eq_true_eq]
          by_cases h1 : a0 = 104 ∧ a1 = 99
          · right; intro h2; exact hp ⟨h1.1, h1.2, h2.1, h2.2.1, h2.2.2⟩
          · left; exact h1
        split
        · simp only [Bool.false_eq_true, false_iff, not_or]
          refine ⟨hcfg, ?_⟩
          rintro ⟨c, b, he, _, _, _⟩
          simp only [List.cons_append, List.nil_append, List.cons.injEq] at he
          exact hp ⟨he.1, he.2.1, he.2.2.2.1, he.2.2.2.2.1, he.2.2.2.2.2.1⟩
        · rename_i hn
          exact absurd hf hn
    · rw [if_neg h64]
      simp only [Bool.false_eq_true, false_iff, not_or]
      refine ⟨fun h => h32 h.1, ?_⟩
      rintro ⟨c, b, rfl, _, hb, _⟩
      simp at h64; omega


/-- The pattern form used by the monitor is the same set of keys. -/
theorem spec_legacy_iff (k : Str) : specLegacyB k = true ↔ Classic k := by
  unfold specLegacyB Classic ClassicConfigKey ClassicIngestKey
  rw [Bool.or_eq_true]
  constructor
  · rintro (h | h)
    · left
      simp only [Bool.and_eq_true, beq_iff_eq] at h
      exact ⟨h.1, fun c hc => (isHexLower_iff c).mp (List.all_eq_true.mp h.2 c hc)⟩
    · right
      split at h
      · rename_i c body
        simp only [Bool.and_eq_true, decide_eq_true_eq, beq_iff_eq] at h
        exact ⟨c, body, rfl, h.1.1, h.1.2, fun x hx => (isAlnumLower_iff x).mp (List.all_eq_true.mp h.2 x hx)⟩
      · simp at h
  · rintro (⟨hl, h⟩ | ⟨c, body, rfl, hc, hb, hall⟩)
    · left
      simp only [Bool.and_eq_true, beq_iff_eq]
      exact ⟨hl, List.all_eq_true.mpr fun c hc => (isHexLower_iff c).mpr (h c hc)⟩
    · right
      simp only [List.cons_append, List.nil_append, Bool.and_eq_true, decide_eq_true_eq, beq_iff_eq]
      exact ⟨⟨hc, hb⟩, List.all_eq_true.mpr fun x hx => (isAlnumLower_iff x).mpr (hall x hx)⟩

/-! ## Selection -/

/-- **selection_spec** — a trace sent with an environment-scoped key (anything that is not one of the
two classic shapes, malformed keys included) is selected by its environment name; one sent with a
classic key by its dataset, prefixed with `DatasetPrefix.` when a prefix is set. -/
theorem selection_spec (pfx key env ds : Str) :
    (¬ Classic key → samplerKey pfx key env ds = env) ∧
    (Classic key → pfx = [] → samplerKey pfx key env ds = ds) ∧
    (Classic key → pfx ≠ [] → samplerKey pfx key env ds = pfx ++ [46] ++ ds) := by
  unfold samplerKey
  refine ⟨fun h => ?_, fun h hp => ?_, fun h hp => ?_⟩
  · have : isLegacyKey key = false := by
      cases hk : isLegacyKey key
      · rfl
      · exact absurd ((legacy_key_spec key).mp hk) h
    simp [this]
  · have := (legacy_key_spec key).mpr h
    simp [this, hp]
  · have := (legacy_key_spec key).mpr h
    simp [this, hp]

/-- The environment a request is processed with: none for classic (and absent) keys. -/
theorem env_of_classic (key env : Str) (h : Classic key) : envName key env = [] := by
  simp [envName, (legacy_key_spec key).mpr h]

/-! ## Lookup with `__default__` -/

/-- **default_fallback** — the sampler for a destination name is the one configured under that name;
a name without a sampler gets the `__default__` sampler; with a `__default__` entry (which rules
validation requires) every name gets a sampler. -/
theorem default_fallback (r : Rules) (name : Str) :
    (∀ s, AList.get r name = some s → lookupSampler r name = some s) ∧
    (AList.get r name = none → lookupSampler r name = AList.get r defaultName) ∧
    (∀ d, AList.get r defaultName = some d → ∃ s, lookupSampler r name = some s) := by
  unfold lookupSampler
  refine ⟨fun s h => by simp [h], fun h => ?_, fun d h => ?_⟩
  · simp only [h]
    cases AList.get r defaultName <;> rfl
  · cases hn : AList.get r name with
    | some s => exact ⟨s, rfl⟩
    | none => exact ⟨d, by simp [h]⟩

/-- The two lookups of the code (fields at ingestion, sampler at decision) choose the same entry. -/
theorem lookup_sites_agree (r : Rules) (name : Str) :
    lookupFields r name = match lookupSampler r name with
      | some s => samplingFields s
      | none => [] := by
  unfold lookupFields lookupSampler
  cases AList.get r name with
  | some s => rfl
  | none => cases AList.get r defaultName <;> rfl


/-! ## The two call sites -/

/-- What the ingestion site computed for a span is the selection function applied to the triple the
span was handed to the collector with. -/
def SpanOK (c : Cfg) (sp : SpanSt) : Prop :=
  ∀ sel, sp.ingSel = some sel → sel = samplerKey c.pfx sp.key sp.env sp.ds

/-- A buffered trace: every span is `SpanOK`; key and dataset are the first span's; the environment
is the first non-empty environment among its spans. -/
def TraceOK (c : Cfg) (t : TraceSt) : Prop :=
  (∀ sp ∈ t.spans, SpanOK c sp) ∧
  (∃ sp0 rest, t.spans = sp0 :: rest ∧ t.key = sp0.key ∧ t.ds = sp0.ds) ∧
  (t.env = [] → ∀ sp ∈ t.spans, sp.env = []) ∧
  (t.env ≠ [] → ∃ sp ∈ t.spans, sp.env = t.env)

def Inv (c : Cfg) (s : St) : Prop := ∀ tid t, AList.get s.traces tid = some t → TraceOK c t

theorem route_spanOK {c : Cfg} {path : Path} {key : Str} {env : Option Str} {ds : Str}
    {data : List (Str × Val)} {tid : Str} {sp : SpanSt}
    (h : routeSpan c path key env ds data = .span tid sp) : SpanOK c sp := by
  have hm : ∃ e p, sp = mkSpan c path key e ds p := by
    unfold routeSpan at h
    split at h
    · simp at h
    · split at h
      · simp at h
      · rename_i e _
        unfold routeWith at h
        split at h
        · simp at h
        · unfold routeExtract at h
          split at h
          · simp at h
          · split at h
            · simp at h
            · simp only [Routed.span.injEq] at h
              exact ⟨e, _, h.2.symm⟩
  obtain ⟨e, p, rfl⟩ := hm
  intro sel hsel
  simp only [mkSpan] at hsel ⊢
  split at hsel
  · simp at hsel
  · simp only [Option.some.injEq] at hsel
    exact hsel.symm

theorem traceOK_new (c : Cfg) (sp : SpanSt) (h : SpanOK c sp) :
    TraceOK c (addSpan { key := sp.key, env := sp.env, ds := sp.ds } sp) := by
  unfold addSpan
  refine ⟨?_, ⟨sp, [], by simp, rfl, rfl⟩, ?_, ?_⟩
  · intro x hx
    simp at hx
    subst hx
    exact h
  · intro he x hx
    simp at hx
    subst hx
    by_cases h0 : x.env = []
    · exact h0
    · simp [h0] at he
  · intro he
    refine ⟨sp, by simp, ?_⟩
    by_cases h0 : sp.env = [] <;> simp [h0]

theorem traceOK_add (c : Cfg) (t : TraceSt) (sp : SpanSt) (ht : TraceOK c t) (h : SpanOK c sp) :
    TraceOK c (addSpan t sp) := by
  obtain ⟨h1, ⟨sp0, rest, hs, hk, hd⟩, h3, h4⟩ := ht
  unfold addSpan
  refine ⟨?_, ⟨sp0, rest ++ [sp], by simp [hs], hk, hd⟩, ?_, ?_⟩
  · intro x hx
    simp only [List.mem_append, List.mem_singleton] at hx
    rcases hx with hx | rfl
    · exact h1 x hx
    · exact h
  · intro he x hx
    simp only at he
    simp only [List.mem_append, List.mem_singleton] at hx
    by_cases ht0 : t.env = []
    · by_cases hs0 : sp.env = []
      · rcases hx with hx | rfl
        · exact h3 ht0 x hx
        · exact hs0
      · simp [ht0, hs0] at he
    · simp [ht0] at he
  · intro he
    simp only at he ⊢
    by_cases ht0 : t.env = []
    · by_cases hs0 : sp.env = []
      · simp [ht0, hs0] at he
      · refine ⟨sp, by simp, ?_⟩
        simp [ht0, hs0]
    · obtain ⟨x, hx, hxe⟩ := h4 ht0
      refine ⟨x, by simp [hx], ?_⟩
      simp [ht0, hxe]

theorem inv_step (c : Cfg) (s : St) (o : Op) (h : Inv c s) : Inv c (step c s o).1 := by
  cases o with
  | classify k => exact h
  | selkey k e d => exact h
  | lookup n => exact h
  | span path key env ds data =>
    simp only [step]
    cases hr : routeSpan c path key env ds data with
    | nosampler => exact h
    | nothing => exact h
    | panic => exact h
    | event => exact h
    | span tid sp =>
      simp only
      by_cases hl : s.decided.contains tid = true
      · simp only [hl, if_true]; exact h
      · simp only [hl]
        intro tid' t' hg
        have hok := route_spanOK hr
        simp only [collectSpan, Bool.false_eq_true, if_false] at hg
        rw [AList.get_put] at hg
        by_cases ht : tid = tid'
        · simp only [ht, if_true, Option.some.injEq] at hg
          subst hg
          cases hgt : AList.get s.traces tid with
          | none => rw [← ht]; simp only [hgt]; exact traceOK_new c sp hok
          | some t => rw [← ht]; simp only [hgt]; exact traceOK_add c t sp (h tid t hgt) hok
        · simp only [ht, if_false] at hg
          exact h tid' t' hg
  | decide tid =>
    simp only [step]
    cases hg : AList.get s.traces tid with
    | none => exact h
    | some t =>
      intro tid' t' hg'
      simp only at hg'
      rw [AList.get_del] at hg'
      by_cases ht : tid = tid'
      · simp [ht] at hg'
      · simp only [ht, if_false] at hg'
        exact h tid' t' hg'

theorem inv_run (c : Cfg) (ops : List Op) : Inv c (run c ops) := by
  unfold run
  have : ∀ (s : St), Inv c s → Inv c (ops.foldl (fun s o => (step c s o).1) s) := by
    induction ops with
    | nil => intro s hs; exact hs
    | cons o t ih => intro s hs; exact ih _ (inv_step c s o hs)
  exact this {} (by intro tid t h; simp at h)

/-- **ingest_decide_agree** — in every state reachable by any sequence of requests and decisions, for
every buffered trace and every span of it that was handed to the collector with the trace's own
(key, environment, dataset): the selector the ingestion site computed is the selector `makeDecision`
computes, and the fields ingestion selected for extraction are the key fields of the sampler that
will decide (`GetSamplingKeyFieldsForDestName` and `GetSamplerConfigForDestName` agree). -/
theorem ingest_decide_agree (c : Cfg) (ops : List Op) (tid : Str) (t : TraceSt)
    (h : AList.get (run c ops).traces tid = some t) (sp : SpanSt) (hsp : sp ∈ t.spans)
    (hk : sp.key = t.key) (he : sp.env = t.env) (hd : sp.ds = t.ds) :
    (∀ sel, sp.ingSel = some sel → sel = decideSel c t) ∧
    ingestFields c.rules c.pfx sp.key sp.env sp.ds =
      match lookupSampler c.rules (decideSel c t) with
      | some s => (keyFields (samplingFields s)).map (·.1)
      | none => some [] := by
  have hinv := inv_run c ops tid t h
  constructor
  · intro sel hsel
    have := hinv.1 sp hsp sel hsel
    rw [this, decideSel, hk, he, hd]
  · unfold ingestFields decideSel
    rw [hk, he, hd, lookup_sites_agree]
    cases lookupSampler c.rules (samplerKey c.pfx t.key t.env t.ds) with
    | some s => rfl
    | none => simp [keyFields]

/-- A trace all of whose spans arrived with one key, one environment and one dataset — the
property's "a trace sent with a key" — is decided with exactly that triple, and every ingestion-time
selection agrees with the decision-time one. -/
theorem uniform_trace_agree (c : Cfg) (ops : List Op) (tid : Str) (t : TraceSt)
    (h : AList.get (run c ops).traces tid = some t) (k e d : Str)
    (hu : ∀ sp ∈ t.spans, sp.key = k ∧ sp.env = e ∧ sp.ds = d) :
    decideSel c t = samplerKey c.pfx k e d ∧
    ∀ sp ∈ t.spans, ∀ sel, sp.ingSel = some sel → sel = decideSel c t := by
  obtain ⟨h1, ⟨sp0, rest, hs, hk, hd⟩, h3, h4⟩ := inv_run c ops tid t h
  have h0 : sp0 ∈ t.spans := by simp [hs]
  have hkey : t.key = k := by rw [hk]; exact (hu sp0 h0).1
  have hds : t.ds = d := by rw [hd]; exact (hu sp0 h0).2.2
  have henv : t.env = e := by
    by_cases ht0 : t.env = []
    · rw [ht0, ← (hu sp0 h0).2.1]; exact (h3 ht0 sp0 h0).symm
    · obtain ⟨x, hx, hxe⟩ := h4 ht0
      rw [← hxe]; exact (hu x hx).2.1
  have hsel : decideSel c t = samplerKey c.pfx k e d := by rw [decideSel, hkey, henv, hds]
  refine ⟨hsel, ?_⟩
  intro sp hsp sel hs'
  rw [h1 sp hsp sel hs', hsel, (hu sp hsp).1, (hu sp hsp).2.1, (hu sp hsp).2.2]


/-! ## Fields available at decision time -/

section extract
variable (tids pids skf : List Str)

theorem keyStep_found_le (st : Ex) (k : Str) (v : Val) : st.found ≤ (keyStep skf st k v).found := by
  unfold keyStep; split <;> simp

theorem keyStep_memo_mono (st : Ex) (k : Str) (v : Val) (k' : Str) (h : AList.get st.memo k' ≠ none) :
    AList.get (keyStep skf st k v).memo k' ≠ none := by
  unfold keyStep
  split
  · simp only [AList.get_put]
    split <;> simp_all
  · exact h

theorem exStep_found_le (st : Ex) (kv : Str × Val) : st.found ≤ (exStep tids pids skf st kv).found := by
  unfold exStep
  split
  · split
    · simp
    · split
      · simp
      · exact keyStep_found_le skf st _ _
  · exact keyStep_found_le skf st _ _

theorem exStep_memo_mono (st : Ex) (kv : Str × Val) (k' : Str) (h : AList.get st.memo k' ≠ none) :
    AList.get (exStep tids pids skf st kv).memo k' ≠ none := by
  unfold exStep
  split
  · split
    · exact h
    · split
      · exact h
      · exact keyStep_memo_mono skf st _ _ k' h
  · exact keyStep_memo_mono skf st _ _ k' h

theorem exFold_mono (l : List (Str × Val)) (st : Ex) :
    st.found ≤ (l.foldl (exStep tids pids skf) st).found ∧
    ∀ k', AList.get st.memo k' ≠ none → AList.get (l.foldl (exStep tids pids skf) st).memo k' ≠ none := by
  induction l generalizing st with
  | nil => exact ⟨Nat.le_refl _, fun _ h => h⟩
  | cons kv t ih =>
    simp only [List.foldl_cons]
    have := ih (exStep tids pids skf st kv)
    exact ⟨Nat.le_trans (exStep_found_le tids pids skf st kv) this.1,
      fun k' h => this.2 k' (exStep_memo_mono tids pids skf st kv k' h)⟩

/-- every memoized entry is an entry of the payload, under a selected field -/
theorem exFold_sound (D l : List (Str × Val)) (st : Ex) (hl : ∀ kv ∈ l, kv ∈ D)
    (hq : ∀ k v, AList.get st.memo k = some v → (k, v) ∈ D ∧ k ∈ skf) :
    ∀ k v, AList.get (l.foldl (exStep tids pids skf) st).memo k = some v → (k, v) ∈ D ∧ k ∈ skf := by
  induction l generalizing st with
  | nil => exact hq
  | cons kv t ih =>
    simp only [List.foldl_cons]
    apply ih
    · intro x hx; exact hl x (List.mem_cons_of_mem _ hx)
    · have hks : ∀ v', (∀ k v, AList.get (keyStep skf st kv.1 v').memo k = some v → (k, v) ∈ D ∧ k ∈ skf) ∨ v' ≠ kv.2 := by
        intro v'
        by_cases hv' : v' = kv.2
        · left
          subst hv'
          unfold keyStep
          split
          · rename_i hc
            intro k v hg
            simp only [AList.get_put] at hg
            split at hg
            · rename_i hkk
              simp only [Option.some.injEq] at hg
              subst hg; subst hkk
              exact ⟨hl kv (by simp), hc.2.1⟩
            · exact hq k v hg
          · exact hq
        · right; exact hv'
      unfold exStep
      split
      · rename_i s hs
        split
        · exact hq
        · split
          · exact hq
          · rcases hks kv.2 with h | h
            · exact h
            · exact absurd rfl h
      · rename_i v' hv' 
        rcases hks kv.2 with h | h
        · exact h
        · exact absurd rfl h

/-- a selected field that is present and is not consumed as a trace / parent id is memoized, unless
every selected field had already been found -/
theorem exFold_complete (l : List (Str × Val)) (st : Ex) (k : Str) (v : Val) (hm : (k, v) ∈ l)
    (hid : ∀ s, v = .str s → k ∉ tids ∧ k ∉ pids) (hk : k ∈ skf)
    (hf : (l.foldl (exStep tids pids skf) st).found < skf.length) :
    AList.get (l.foldl (exStep tids pids skf) st).memo k ≠ none := by
  induction l generalizing st with
  | nil => simp at hm
  | cons kv t ih =>
    simp only [List.foldl_cons] at hf ⊢
    rcases List.mem_cons.mp hm with heq | hmt
    · subst heq
      have hmono := exFold_mono tids pids skf t (exStep tids pids skf st (k, v))
      apply hmono.2
      have hst : (exStep tids pids skf st (k, v)) = keyStep skf st k v := by
        unfold exStep
        cases v with
        | str s =>
          have := hid s rfl
          simp [this.1, this.2]
        | int n => rfl
      rw [hst]
      have hlt : st.found < skf.length := by
        have h1 := exStep_found_le tids pids skf st (k, v)
        have h2 := hmono.1
        omega
      unfold keyStep
      by_cases hg : AList.get st.memo k = none
      · simp [hlt, hk, hg, AList.get_put]
      · simp [hg]
    · exact ih _ hmt hf

end extract

theorem extract_memo_sound (tids pids skf : List Str) (data : List (Str × Val)) (k : Str) (v : Val)
    (h : AList.get (extract tids pids skf data).memo k = some v) : (k, v) ∈ data ∧ k ∈ skf := by
  unfold extract at h
  exact exFold_sound tids pids skf data data {} (fun _ h => h) (by intro k v h; simp at h) k v h

theorem extract_missing (tids pids skf : List Str) (data : List (Str × Val)) (k : Str)
    (h : k ∈ (extract tids pids skf data).missing) :
    k ∈ skf ∧ (data.foldl (exStep tids pids skf) {}).found < skf.length := by
  unfold extract at h
  simp only at h
  split at h
  · rename_i hlt
    exact ⟨(List.mem_filter.mp h).1, hlt⟩
  · simp at h

theorem extract_not_missing (tids pids skf : List Str) (data : List (Str × Val)) (k : Str) (v : Val)
    (hm : (k, v) ∈ data) (hid : k ∈ skf → ∀ s, v = .str s → k ∉ tids ∧ k ∉ pids)
    (hnone : AList.get (extract tids pids skf data).memo k = none) :
    k ∉ (extract tids pids skf data).missing := by
  intro hmiss
  obtain ⟨hk, hlt⟩ := extract_missing tids pids skf data k hmiss
  have := exFold_complete tids pids skf data {} k v hm (hid hk) hk hlt
  unfold extract at hnone
  exact this hnone

/-! `MemoizeFields` -/

theorem memoFold_other (tf : List Str) (l : List (Str × Val)) (acc : AList Str Val × Nat) (k : Str)
    (h : k ∉ tf ∨ k ∉ l.map (·.1)) : AList.get (l.foldl (memoStep tf) acc).1 k = AList.get acc.1 k := by
  induction l generalizing acc with
  | nil => rfl
  | cons kv t ih =>
    simp only [List.foldl_cons]
    rw [ih]
    · unfold memoStep
      split
      · rename_i hc
        simp only [AList.get_put]
        split
        · rename_i hkk
          subst hkk
          rcases h with h | h
          · exact absurd hc.2 h
          · simp at h
        · rfl
      · rfl
    · rcases h with h | h
      · exact Or.inl h
      · right; intro hx; exact h (by simp only [List.map_cons, List.mem_cons]; exact Or.inr hx)

theorem filter_mem_mono (tf proc : List Str) (k : Str) :
    (tf.filter (fun x => decide (x ∈ proc))).length ≤ (tf.filter (fun x => decide (x ∈ k :: proc))).length := by
  induction tf with
  | nil => simp
  | cons a t ih =>
    simp only [List.filter_cons]
    by_cases ha : a ∈ proc
    · have : a ∈ k :: proc := List.mem_cons_of_mem _ ha
      simp [ha, this]; omega
    · by_cases hk : a ∈ k :: proc
      · simp [ha, hk]; omega
      · simp [ha, hk]; exact ih

theorem filter_mem_step (tf proc : List Str) (k : Str) (hk : k ∈ tf) (hn : k ∉ proc) :
    (tf.filter (fun x => decide (x ∈ proc))).length + 1 ≤ (tf.filter (fun x => decide (x ∈ k :: proc))).length := by
  induction tf with
  | nil => simp at hk
  | cons a t ih =>
    simp only [List.filter_cons]
    by_cases hak : a = k
    · subst hak
      have := filter_mem_mono t proc a
      simp [hn]; omega
    · have hkt : k ∈ t := by
        rcases List.mem_cons.mp hk with h | h
        · exact absurd h.symm hak
        · exact h
      have := ih hkt
      by_cases ha : a ∈ proc
      · have h2 : a ∈ k :: proc := List.mem_cons_of_mem _ ha
        simp [ha, h2]; omega
      · have h2 : a ∉ k :: proc := by simp [hak, ha]
        simp [ha, h2]; exact this

/-- a requested key that occurs in the payload is found by the scan: the scan's early exit
(`keysFound == len(keysToFind)`) cannot come before it, because payload keys are distinct -/
theorem memoFold_finds (tf : List Str) (l : List (Str × Val)) (proc : List Str) (acc : AList Str Val × Nat)
    (hn : (l.map (·.1)).Nodup) (hd : ∀ x ∈ l.map (·.1), x ∉ proc)
    (hc : acc.2 ≤ (tf.filter (fun x => decide (x ∈ proc))).length)
    (f : Str) (v : Val) (hm : (f, v) ∈ l) (hf : f ∈ tf) :
    AList.get (l.foldl (memoStep tf) acc).1 f = some v := by
  induction l generalizing proc acc with
  | nil => simp at hm
  | cons kv t ih =>
    simp only [List.foldl_cons]
    simp only [List.map_cons, List.nodup_cons] at hn
    rcases List.mem_cons.mp hm with heq | hmt
    · subst heq
      have hfp : f ∉ proc := hd f (by simp)
      have hlt : acc.2 < tf.length := by
        have : (tf.filter (fun x => decide (x ∈ proc))).length < tf.length :=
          List.length_filter_lt_length_iff_exists.mpr ⟨f, hf, by simp [hfp]⟩
        omega
      rw [memoFold_other tf t _ f (Or.inr hn.1)]
      simp [memoStep, hlt, hf, AList.get_put]
    · apply ih (k := kv.1 :: proc) hn.2
      · intro x hx
        simp only [List.mem_cons, not_or]
        refine ⟨?_, hd x (by simp only [List.map_cons, List.mem_cons]; exact Or.inr hx)⟩
        intro hxe; subst hxe; exact hn.1 hx
      · have hkp : kv.1 ∉ proc := hd kv.1 (by simp)
        unfold memoStep
        split
        · rename_i hcnd
          have := filter_mem_step tf proc kv.1 hcnd.2 hkp
          simp only; omega
        · have := filter_mem_mono tf proc kv.1
          omega
      · exact hmt

/-- **fields_available (the part that holds)** — whatever field selection `skf` ingestion extracted
with (the sampler of another destination, an older rules file, none at all on the OTLP path), after
`makeDecision`'s `MemoizeFields(keys)` every field `f` among the deciding sampler's `keys` that the
client sent (with distinct keys) reads back with the client's value — provided `f` is not a field
that ingestion *selected* and also *consumed* as the trace-id / parent-id (a string value under a
configured trace-id or parent-id name). -/
theorem fields_available_partial (tids pids skf keys : List Str) (data : List (Str × Val)) (f : Str) (v : Val)
    (hn : (data.map (·.1)).Nodup) (hf : f ∈ keys) (hv : first data f = some v)
    (hid : f ∈ skf → ∀ s, v = .str s → f ∉ tids ∧ f ∉ pids) :
    (memoize keys (extract tids pids skf data)).get f = some v := by
  have hmem : (f, v) ∈ data := AList.mem_of_get hv
  have hdata : (extract tids pids skf data).data = data := rfl
  cases hg : AList.get (extract tids pids skf data).memo f with
  | some v' =>
    -- already memoized at ingestion, with the client's value; MemoizeFields leaves it alone
    have hv' : v' = v := by
      have h1 := (extract_memo_sound tids pids skf data f v' hg).1
      have h2 := AList.get_of_mem (l := data) hn h1
      unfold first at hv
      rw [h2] at hv
      exact Option.some.inj hv
    subst hv'
    have hnt : f ∉ toFind keys (extract tids pids skf data) := by
      unfold toFind
      rw [List.mem_eraseDups, List.mem_filter]
      simp [hg]
    unfold memoize
    simp only
    split
    · simp [Pay.get, hg]
    · simp only [Pay.get]
      rw [memoFold_other _ _ _ f (Or.inl hnt), hg]
  | none =>
    have hnm : f ∉ (extract tids pids skf data).missing :=
      extract_not_missing tids pids skf data f v hmem hid hg
    have ht : f ∈ toFind keys (extract tids pids skf data) := by
      unfold toFind
      rw [List.mem_eraseDups, List.mem_filter]
      simp [hf, hnm, hg]
    unfold memoize
    simp only
    split
    · rename_i he
      rw [he] at ht
      simp at ht
    · simp only [Pay.get]
      have := memoFold_finds (toFind keys (extract tids pids skf data)) data [] ((extract tids pids skf data).memo, 0)
        hn (by simp) (by simp) f v hmem ht
      rw [hdata, this]

end Refinery.Props.C14
