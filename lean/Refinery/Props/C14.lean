import Refinery.Model.SamplerSelect
import Refinery.Lemmas.SamplerSelect
/-!
# C14 — each trace is sampled by the sampler configured for its destination

Statement (properties.jsonl): a trace sent with an environment-scoped API key is sampled by the
sampler configured for its environment name, and one sent with a classic key by the sampler
configured for its dataset (prefixed with DatasetPrefix when set), falling back to `__default__`
when that name has no sampler.  The same selection decides which fields are extracted at ingestion,
so every field the selected sampler reads is available when it decides.

* `legacy_key_spec`, `spec_legacy_iff` — which byte strings are classic keys (all byte strings);
* `selection_spec`, `env_of_classic` — the destination name (all keys, names, prefixes);
* `default_fallback`, `lookup_sites_agree` — lookup with `__default__` (all rules files, names);
* `ingest_decide_agree`, `uniform_trace_agree` — the ingestion site and `makeDecision` compute the
  same selection of the same triple (all histories of requests and decisions);
* `fields_available_partial`, `fields_available_non_id`, `fields_available_no_extraction`,
  `fields_available_at_decision` — what holds of "every field the selected sampler reads is
  available"; `FullStatement` / `full_statement_refuted` — the full-strength statement fails on the
  code as it is (a sampler field that is also a trace-id / parent-id field).
-/
namespace Refinery.Props.C14
open Refinery Refinery.Model.SamplerSelect Refinery.Lemmas.SamplerSelect

/-! ## Key classification -/

def HexLower (c : Nat) : Prop := (48 ≤ c ∧ c ≤ 57) ∨ (97 ≤ c ∧ c ≤ 102)       -- [0-9a-f]
def AlnumLower (c : Nat) : Prop := (48 ≤ c ∧ c ≤ 57) ∨ (97 ≤ c ∧ c ≤ 122)     -- [0-9a-z]

/-- classic configuration key: `[0-9a-f]{32}` -/
def ClassicConfigKey (k : Str) : Prop := k.length = 32 ∧ ∀ c ∈ k, HexLower c
/-- classic ingest key: `hc[a-z]ic_[0-9a-z]{58}` -/
def ClassicIngestKey (k : Str) : Prop :=
  ∃ c body, k = [104, 99, c, 105, 99, 95] ++ body ∧ (97 ≤ c ∧ c ≤ 122) ∧ body.length = 58 ∧ ∀ x ∈ body, AlnumLower x
def Classic (k : Str) : Prop := ClassicConfigKey k ∨ ClassicIngestKey k

theorem isHexLower_iff (c : Nat) : isHexLower c = true ↔ HexLower c := by
  simp [isHexLower, isDigit, HexLower]
theorem isAlnumLower_iff (c : Nat) : isAlnumLower c = true ↔ AlnumLower c := by
  simp [isAlnumLower, isDigit, AlnumLower]

/-- **legacy_key_spec** — for every byte string `k`: the code treats `k` as a classic ("legacy") key
exactly when `k` is 32 lower-case hex digits or `hc`, one lower-case letter, `ic_` and 58 characters
of `[0-9a-z]`; everything else — environment keys, malformed keys, the empty key, near misses of
either shape, upper-case variants — is environment-scoped. -/
theorem legacy_key_spec (k : Str) : isLegacyKey k = true ↔ Classic k := by
  unfold isLegacyKey Classic ClassicConfigKey ClassicIngestKey
  by_cases h32 : k.length = 32
  · rw [if_pos h32]
    constructor
    · intro h
      left
      refine ⟨h32, ?_⟩
      intro c hc
      exact (isHexLower_iff c).mp (List.all_eq_true.mp h c hc)
    · rintro (⟨_, h⟩ | ⟨c, body, rfl, _, hb, _⟩)
      · exact List.all_eq_true.mpr fun c hc => (isHexLower_iff c).mpr (h c hc)
      · simp at h32; omega
  · rw [if_neg h32]
    by_cases h64 : k.length = 64
    · rw [if_pos h64]
      rcases k with _ | ⟨a0, _ | ⟨a1, _ | ⟨a2, _ | ⟨a3, _ | ⟨a4, _ | ⟨a5, body⟩⟩⟩⟩⟩⟩ <;> try (simp at h64)
      simp only [List.take_succ_cons, List.take_zero, List.drop_succ_cons, List.drop_zero]
      have hl32 : ¬ (a0 :: a1 :: a2 :: a3 :: a4 :: a5 :: body).length = 32 := h32
      have hcfg : ¬ ((a0 :: a1 :: a2 :: a3 :: a4 :: a5 :: body).length = 32 ∧
          ∀ c ∈ a0 :: a1 :: a2 :: a3 :: a4 :: a5 :: body, HexLower c) := fun h => hl32 h.1
      by_cases hp : a0 = 104 ∧ a1 = 99 ∧ a3 = 105 ∧ a4 = 99 ∧ a5 = 95
      · obtain ⟨rfl, rfl, rfl, rfl, rfl⟩ := hp
        by_cases hc : 97 ≤ a2 ∧ a2 ≤ 122
        · have hc' : ¬ (a2 < 97 ∨ a2 > 122) := by omega
          simp only [ne_eq, not_true_eq_false, decide_false, Bool.or_self, Bool.false_eq_true, ↓reduceIte,
            Bool.or_eq_true, decide_eq_true_eq, hc']
          constructor
          · intro h
            right
            exact ⟨a2, body, rfl, hc, h64, fun x hx => (isAlnumLower_iff x).mp (List.all_eq_true.mp h x hx)⟩
          · rintro (h | ⟨c, b, he, _, _, hall⟩)
            · exact absurd h hcfg
            · simp only [List.cons_append, List.nil_append, List.cons.injEq, true_and] at he
              obtain ⟨rfl, rfl⟩ := he
              exact List.all_eq_true.mpr fun x hx => (isAlnumLower_iff x).mpr (hall x hx)
        · have hc' : (a2 < 97 ∨ a2 > 122) := by omega
          simp only [ne_eq, not_true_eq_false, decide_false, Bool.or_self, Bool.false_eq_true, ↓reduceIte,
            Bool.or_eq_true, decide_eq_true_eq, hc', false_iff, not_or]
          refine ⟨hcfg, ?_⟩
          rintro ⟨c, b, he, hcc, _, _⟩
          simp only [List.cons_append, List.nil_append, List.cons.injEq, true_and] at he
          obtain ⟨rfl, rfl⟩ := he
          exact hc hcc
      · have hf : ([a0, a1] ≠ [104, 99] || [a3, a4, a5] ≠ [105, 99, 95]) = true := by
          simp only [ne_eq, List.cons.injEq, and_true, Bool.or_eq_true, decide_eq_true_eq]
          by_cases h1 : a0 = 104 ∧ a1 = 99
          · right; intro h2; exact hp ⟨h1.1, h1.2, h2.1, h2.2.1, h2.2.2⟩
          · left; exact h1
        split
        · simp only [Bool.false_eq_true, false_iff, not_or]
          refine ⟨hcfg, ?_⟩
          rintro ⟨c, b, he, _, _, _⟩
          simp only [List.cons_append, List.nil_append, List.cons.injEq] at he
          exact hp ⟨he.1, he.2.1, he.2.2.2.1, he.2.2.2.2.1, he.2.2.2.2.2.1⟩
        · rename_i hn
          exact absurd hf hn
    · rw [if_neg h64]
      simp only [Bool.false_eq_true, false_iff, not_or]
      refine ⟨fun h => h32 h.1, ?_⟩
      rintro ⟨c, b, rfl, _, hb, _⟩
      simp at h64; omega


/-- The pattern form used by the monitor is the same set of keys. -/
theorem spec_legacy_iff (k : Str) : specLegacyB k = true ↔ Classic k := by
  unfold specLegacyB Classic ClassicConfigKey ClassicIngestKey
  rw [Bool.or_eq_true]
  constructor
  · rintro (h | h)
    · left
      simp only [Bool.and_eq_true, beq_iff_eq] at h
      exact ⟨h.1, fun c hc => (isHexLower_iff c).mp (List.all_eq_true.mp h.2 c hc)⟩
    · right
      split at h
      · rename_i c body
        simp only [Bool.and_eq_true, decide_eq_true_eq, beq_iff_eq] at h
        exact ⟨c, body, rfl, h.1.1, h.1.2, fun x hx => (isAlnumLower_iff x).mp (List.all_eq_true.mp h.2 x hx)⟩
      · simp at h
  · rintro (⟨hl, h⟩ | ⟨c, body, rfl, hc, hb, hall⟩)
    · left
      simp only [Bool.and_eq_true, beq_iff_eq]
      exact ⟨hl, List.all_eq_true.mpr fun c hc => (isHexLower_iff c).mpr (h c hc)⟩
    · right
      simp only [List.cons_append, List.nil_append, Bool.and_eq_true, decide_eq_true_eq, beq_iff_eq]
      exact ⟨⟨hc, hb⟩, List.all_eq_true.mpr fun x hx => (isAlnumLower_iff x).mpr (hall x hx)⟩

/-! ## Selection -/

/-- **selection_spec** — a trace sent with an environment-scoped key (anything that is not one of the
two classic shapes, malformed keys included) is selected by its environment name; one sent with a
classic key by its dataset, prefixed with `DatasetPrefix.` when a prefix is set. -/
theorem selection_spec (pfx key env ds : Str) :
    (¬ Classic key → samplerKey pfx key env ds = env) ∧
    (Classic key → pfx = [] → samplerKey pfx key env ds = ds) ∧
    (Classic key → pfx ≠ [] → samplerKey pfx key env ds = pfx ++ [46] ++ ds) := by
  unfold samplerKey
  refine ⟨fun h => ?_, fun h hp => ?_, fun h hp => ?_⟩
  · have : isLegacyKey key = false := by
      cases hk : isLegacyKey key
      · rfl
      · exact absurd ((legacy_key_spec key).mp hk) h
    simp [this]
  · have := (legacy_key_spec key).mpr h
    simp [this, hp]
  · have := (legacy_key_spec key).mpr h
    simp [this, hp]

/-- The environment a request is processed with: none for classic (and absent) keys. -/
theorem env_of_classic (key env : Str) (h : Classic key) : envName key env = [] := by
  simp [envName, (legacy_key_spec key).mpr h]

/-- **environment_is_auth_name** — a request with an environment-scoped key is processed with the
environment NAME the auth lookup returns for the key (nothing else in the response, e.g. the slug,
enters the selection); classic and absent keys get no environment. -/
theorem environment_is_auth_name (path : Path) (key name : Str) (hk : key ≠ []) (hc : ¬ Classic key) (pfx ds : Str) :
    resolveEnv path key (some name) = some name ∧ samplerKey pfx key name ds = name := by
  have hl : isLegacyKey key = false := by
    cases h : isLegacyKey key
    · rfl
    · exact absurd ((legacy_key_spec key).mp h) hc
  constructor
  · simp [resolveEnv, hk, hl]
  · exact (selection_spec pfx key name ds).1 hc

/-! ## Lookup with `__default__` -/

/-- **default_fallback** — the sampler for a destination name is the one configured under that name;
a name without a sampler gets the `__default__` sampler; with a `__default__` entry (which rules
validation requires) every name gets a sampler. -/
theorem default_fallback (r : Rules) (name : Str) :
    (∀ s, AList.get r name = some s → lookupSampler r name = some s) ∧
    (AList.get r name = none → lookupSampler r name = AList.get r defaultName) ∧
    (∀ d, AList.get r defaultName = some d → ∃ s, lookupSampler r name = some s) := by
  unfold lookupSampler
  refine ⟨fun s h => by simp [h], fun h => ?_, fun d h => ?_⟩
  · simp only [h]
    cases AList.get r defaultName <;> rfl
  · cases hn : AList.get r name with
    | some s => exact ⟨s, rfl⟩
    | none => exact ⟨d, by simp [h]⟩

/-- The two lookups of the code (fields at ingestion, sampler at decision) choose the same entry. -/
theorem lookup_sites_agree (r : Rules) (name : Str) :
    lookupFields r name = match lookupSampler r name with
      | some s => samplingFields s
      | none => [] := by
  unfold lookupFields lookupSampler
  cases AList.get r name with
  | some s => rfl
  | none => cases AList.get r defaultName <;> rfl


/-! ## The two call sites -/

/-- **ingest_decide_agree** — in every state reachable by any sequence of requests and decisions, for
every buffered trace and every span of it that was handed to the collector with the trace's own
(key, environment, dataset): the selector the ingestion site computed is the selector `makeDecision`
computes, and the fields ingestion selected for extraction are the key fields of the sampler that
will decide, under whatever rules `r` are in force at both moments
(`GetSamplingKeyFieldsForDestName` and `GetSamplerConfigForDestName` agree). -/
theorem ingest_decide_agree (c : Cfg) (ops : List Op) (tid : Str) (t : TraceSt)
    (h : AList.get (run c ops).traces tid = some t) (sp : SpanSt) (hsp : sp ∈ t.spans)
    (hk : sp.key = t.key) (he : sp.env = t.env) (hd : sp.ds = t.ds) (r : Rules) :
    (∀ sel, sp.ingSel = some sel → sel = decideSel c t) ∧
    ingestFields r c.pfx sp.key sp.env sp.ds =
      match lookupSampler r (decideSel c t) with
      | some s => (keyFields (samplingFields s)).map (·.1)
      | none => some [] := by
  have hinv := inv_run c ops tid t h
  constructor
  · intro sel hsel
    have := hinv.1 sp hsp sel hsel
    rw [this, decideSel, hk, he, hd]
  · unfold ingestFields decideSel
    rw [hk, he, hd, lookup_sites_agree]
    cases lookupSampler r (samplerKey c.pfx t.key t.env t.ds) with
    | some s => rfl
    | none => simp [keyFields]

/-- A trace all of whose spans arrived with one key, one environment and one dataset — the
property's "a trace sent with a key" — is decided with exactly that triple, and every ingestion-time
selection agrees with the decision-time one. -/
theorem uniform_trace_agree (c : Cfg) (ops : List Op) (tid : Str) (t : TraceSt)
    (h : AList.get (run c ops).traces tid = some t) (k e d : Str)
    (hu : ∀ sp ∈ t.spans, sp.key = k ∧ sp.env = e ∧ sp.ds = d) :
    decideSel c t = samplerKey c.pfx k e d ∧
    ∀ sp ∈ t.spans, ∀ sel, sp.ingSel = some sel → sel = decideSel c t := by
  obtain ⟨h1, ⟨sp0, rest, hs, hk, hd⟩, h3, h4⟩ := inv_run c ops tid t h
  have h0 : sp0 ∈ t.spans := by simp [hs]
  have hkey : t.key = k := by rw [hk]; exact (hu sp0 h0).1
  have hds : t.ds = d := by rw [hd]; exact (hu sp0 h0).2.2
  have henv : t.env = e := by
    by_cases ht0 : t.env = []
    · rw [ht0, ← (hu sp0 h0).2.1]; exact (h3 ht0 sp0 h0).symm
    · obtain ⟨x, hx, hxe⟩ := h4 ht0
      rw [← hxe]; exact (hu x hx).2.1
  have hsel : decideSel c t = samplerKey c.pfx k e d := by rw [decideSel, hkey, henv, hds]
  refine ⟨hsel, ?_⟩
  intro sp hsp sel hs'
  rw [h1 sp hsp sel hs', hsel, (hu sp hsp).1, (hu sp hsp).2.1, (hu sp hsp).2.2]


/-! ## Reloads -/

theorem rules_fold (c : Cfg) (ops : List Op) (s : St) :
    curRules c (ops.foldl (fun s o => (step c s o).1) s) =
      ops.foldl (fun r o => match o with
        | .reload r' => if acceptRules c r' then r' else r
        | _ => r) (curRules c s) := by
  induction ops generalizing s with
  | nil => rfl
  | cons o t ih =>
    simp only [List.foldl_cons]
    rw [ih]
    congr 1
    cases o with
    | classify k => rfl
    | selkey k e d => rfl
    | lookup n => rfl
    | span path key env ds data =>
      simp only [step]
      cases routeSpan (cur c s) path key env ds data with
      | nosampler => rfl
      | nothing => rfl
      | panic => rfl
      | event => rfl
      | span tid sp =>
        simp only
        split
        · rfl
        · rfl
    | decide tid =>
      simp only [step]
      split
      · rfl
      · cases AList.get s.traces tid <;> rfl
    | reload r =>
      simp only [step]
      split <;> simp_all [curRules]

/-- The rules in force after any history are those of the last accepted reload (the start-up rules
if there was none). -/
theorem rules_after (c : Cfg) (ops : List Op) : curRules c (run c ops) = lastAccepted c ops :=
  rules_fold c ops {}

/-- **selection_follows_current_rules** — after any history of requests, decisions and rules reloads
(accepted or rejected), the sampler and the key fields chosen for *every* destination name — with
its own entry or falling back to `__default__` — are the selection function applied to the rules of
the last accepted reload; and a buffered trace is decided by the sampler those rules give. Nothing
of an earlier rules file survives. -/
theorem selection_follows_current_rules (c : Cfg) (ops : List Op) :
    (∀ n, (step c (run c ops) (.lookup n)).2 =
        .looked (lookupSampler (lastAccepted c ops) n) (lookupFields (lastAccepted c ops) n)) ∧
    (∀ tid t, AList.get (run c ops).traces tid = some t → AList.get (lastAccepted c ops) defaultName ≠ none →
        (step c (run c ops) (.decide tid)).2 = decideTrace { c with rules := lastAccepted c ops } t) := by
  constructor
  · intro n
    simp only [step, rules_after]
  · intro tid t h hd
    simp only [step, h, cur, rules_after, hd, if_false]

/-! ## Fields available at decision time -/

/-- **fields_available (the part that holds)** — whatever field selection `skf` ingestion extracted
with (the sampler of another destination, an older rules file, none at all on the OTLP path), after
`makeDecision`'s `MemoizeFields(keys)` every field `f` among the deciding sampler's `keys` that the
client sent (with distinct keys) reads back with the client's value — provided `f` is not a field
that ingestion *selected* and also *consumed* as the trace-id / parent-id (a string value under a
configured trace-id or parent-id name). -/
theorem fields_available_partial (tids pids skf keys : List Str) (data : List (Str × Val)) (f : Str) (v : Val)
    (hn : (data.map (·.1)).Nodup) (hf : f ∈ keys) (hv : first data f = some v)
    (hid : f ∈ skf → ∀ s, v = .str s → f ∉ tids ∧ f ∉ pids) :
    (memoize keys (extract tids pids skf data)).get f = some v := by
  have hmem : (f, v) ∈ data := AList.mem_of_get hv
  have hdata : (extract tids pids skf data).data = data := rfl
  cases hg : AList.get (extract tids pids skf data).memo f with
  | some v' =>
    -- already memoized at ingestion, with the client's value; MemoizeFields leaves it alone
    have hv' : v' = v := by
      have h1 := (extract_memo_sound tids pids skf data f v' hg).1
      have h2 := AList.get_of_mem (l := data) hn h1
      unfold first at hv
      rw [h2] at hv
      exact Option.some.inj hv
    subst hv'
    have hnt : f ∉ toFind keys (extract tids pids skf data) := by
      unfold toFind
      rw [List.mem_eraseDups, List.mem_filter]
      simp [hg]
    unfold memoize
    simp only
    split
    · simp [Pay.get, hg]
    · simp only [Pay.get]
      rw [memoFold_other _ _ _ f (Or.inl hnt), hg]
  | none =>
    have hnm : f ∉ (extract tids pids skf data).missing :=
      extract_not_missing tids pids skf data f v hmem hid hg
    have ht : f ∈ toFind keys (extract tids pids skf data) := by
      unfold toFind
      rw [List.mem_eraseDups, List.mem_filter]
      simp [hf, hnm, hg]
    unfold memoize
    simp only
    split
    · rename_i he
      rw [he] at ht
      simp at ht
    · simp only [Pay.get]
      have := memoFold_finds (toFind keys (extract tids pids skf data)) data [] ((extract tids pids skf data).memo, 0)
        hn (by simp) (by simp [seenCount]) f v hmem ht
      rw [hdata, this]


/-- **fields_available, full strength** — every field the deciding sampler reads that the client sent
is available to it with the client's value, whatever ingestion extracted. -/
def FullStatement : Prop :=
  ∀ (tids pids skf keys : List Str) (data : List (Str × Val)) (f : Str) (v : Val),
    (data.map (·.1)).Nodup → f ∈ keys → first data f = some v →
    (memoize keys (extract tids pids skf data)).get f = some v

/-- The code violates it: a sampler that reads `trace.parent_id` (a rule `trace.parent_id exists`,
say) — ingestion selects the field, consumes it as the parent id without memoizing it, and then
records it as *missing*; `MemoizeFields` and `Get` trust that record, so the sampler reads nil from a
span that carries `trace.parent_id = "p1"`. -/
theorem full_statement_refuted : ¬ FullStatement := by
  intro h
  have := h [ascii "trace.trace_id"] [ascii "trace.parent_id"] [ascii "trace.parent_id"] [ascii "trace.parent_id"]
    [(ascii "trace.trace_id", .str (ascii "t1")), (ascii "trace.parent_id", .str (ascii "p1"))]
    (ascii "trace.parent_id") (.str (ascii "p1")) (by decide) (by decide) (by decide)
  revert this
  decide

/-- When ingestion extracted nothing (the OTLP path) every field is available. -/
theorem fields_available_no_extraction (tids pids keys : List Str) (data : List (Str × Val)) (f : Str) (v : Val)
    (hn : (data.map (·.1)).Nodup) (hf : f ∈ keys) (hv : first data f = some v) :
    (memoize keys (extract tids pids [] data)).get f = some v :=
  fields_available_partial tids pids [] keys data f v hn hf hv (by intro h; simp at h)

/-- Fields that are not configured trace-id / parent-id names are always available. -/
theorem fields_available_non_id (tids pids skf keys : List Str) (data : List (Str × Val)) (f : Str) (v : Val)
    (hn : (data.map (·.1)).Nodup) (hf : f ∈ keys) (hv : first data f = some v)
    (hid : f ∉ tids ∧ f ∉ pids) :
    (memoize keys (extract tids pids skf data)).get f = some v :=
  fields_available_partial tids pids skf keys data f v hn hf hv (fun _ _ _ => hid)

/-- **fields_available at the decision** — in every reachable state, for every span of a buffered
trace and every field the deciding sampler reads on that span (all key fields on a root span, the
non-root ones otherwise): if the client sent the field (distinct keys) and it is not a configured
trace-id / parent-id name, then after `makeDecision`'s `MemoizeFields` the sampler's `Get` returns
the client's value — no matter which sampler's fields ingestion extracted for that span. -/
theorem fields_available_at_decision (c : Cfg) (ops : List Op) (tid : Str) (t : TraceSt)
    (h : AList.get (run c ops).traces tid = some t) (keys : List Str)
    (sp : SpanSt) (hsp : sp ∈ t.spans) (f : Str) (hf : f ∈ keys) (v : Val)
    (hn : (sp.pay.data.map (·.1)).Nodup) (hv : first sp.pay.data f = some v)
    (hid : f ∉ c.tids ∧ f ∉ c.pids) :
    (memoize keys sp.pay).get f = some v := by
  obtain ⟨skf, data, hp⟩ := spans_inv c (fun sp => ∃ skf data, sp.pay = extract c.tids c.pids skf data)
    (fun r path key env ds data tid sp hr => by
      obtain ⟨skf, hs⟩ := route_span_pay hr
      exact ⟨skf, data, hs⟩) ops tid t h sp hsp
  have hd : sp.pay.data = data := by rw [hp]; rfl
  rw [hd] at hn hv
  rw [hp]
  exact fields_available_non_id c.tids c.pids skf keys data f v hn hf hv hid

/-! ## Non-vacuity -/

def kClassic : Str := ascii "0123456789abcdef0123456789abcdef"
def kIngest : Str := ascii "hcaic_0123456789abcdefghijklmnopqrstuvwxyz0123456789abcdefghijkl"
def kEnvIngest : Str := ascii "hcaik_0123456789abcdefghijklmnopqrstuvwxyz0123456789abcdefghijkl"

example : isLegacyKey kClassic = true := by decide
example : isLegacyKey kIngest = true := by decide
example : isLegacyKey kEnvIngest = false := by decide
example : isLegacyKey (ascii "0123456789abcdef0123456789abcdeF") = false := by decide      -- upper-case hex
example : isLegacyKey (ascii "0123456789abcdef0123456789abcde") = false := by decide       -- 31
example : isLegacyKey (ascii "0123456789abcdef0123456789abcdef0") = false := by decide     -- 33
example : isLegacyKey (ascii "hc1ic_0123456789abcdefghijklmnopqrstuvwxyz0123456789abcdefghijkl") = false := by decide
example : isLegacyKey [] = false := by decide
example : (ascii Refinery.Gen.Samplersel.rootPrefix).all (· < 128) = true ∧ rootPrefix ≠ [] := by decide
example : samplerKey (ascii "pfx") kClassic (ascii "prod") (ascii "ds1") = ascii "pfx.ds1" := by decide
example : samplerKey (ascii "pfx") kEnvIngest (ascii "prod") (ascii "ds1") = ascii "prod" := by decide
example : samplerKey [] kIngest (ascii "prod") (ascii "ds1") = ascii "ds1" := by decide

def exRules : Rules :=
  [(defaultName, { kind := .det, rate := 2, fields := [] }),
   (ascii "prod", { kind := .dyn, rate := 5, fields := [ascii "f1", ascii "root.f2"] })]

example : lookupSampler exRules (ascii "prod") = some { kind := .dyn, rate := 5, fields := [ascii "f1", ascii "root.f2"] } := by decide
example : (lookupSampler exRules (ascii "staging")).map (·.rate) = some 2 := by decide
example : ingestFields exRules [] kEnvIngest (ascii "prod") (ascii "ds1") = some [ascii "f2", ascii "f1"] := by decide
example : keyFields [[]] = some ([], []) := by decide
-- a reload that changes only `__default__` changes the sampler of every destination without an entry
example : (step { pfx := [], tids := [], pids := [], rules := exRules }
    (run { pfx := [], tids := [], pids := [], rules := exRules }
      [.reload [(defaultName, { kind := .det, rate := 9, fields := [] })]]) (.lookup (ascii "staging"))).2
    = .looked (some { kind := .det, rate := 9, fields := [] }) [] := by decide
-- a rules file without `__default__` is rejected under validation: the old rules stay
example : lastAccepted { pfx := [], tids := [], pids := [], rules := exRules } [.reload []] = exRules := by decide
-- a field that is not an id field is read back although ingestion selected nothing of the sort
example : (memoize [ascii "f1"] (extract [ascii "trace.trace_id"] [ascii "trace.parent_id"] [ascii "zz"]
    [(ascii "trace.trace_id", .str (ascii "t1")), (ascii "f1", .int 7)])).get (ascii "f1") = some (.int 7) := by decide
-- the refutation witness, spelled out
example : (memoize [ascii "trace.parent_id"] (extract [ascii "trace.trace_id"] [ascii "trace.parent_id"] [ascii "trace.parent_id"]
    [(ascii "trace.trace_id", .str (ascii "t1")), (ascii "trace.parent_id", .str (ascii "p1"))])).get (ascii "trace.parent_id") = none := by decide

end Refinery.Props.C14
