import Refinery.Model.Rules
/-!
# C08 — the rules sampler follows the documented rule semantics

Statement (properties.jsonl): for any rules configuration and trace, the rules sampler applies the
first rule, in configuration order, whose conditions all match under the documented semantics
(trace scope: each condition matched by some span; span scope: all conditions matched by one span;
`root.` reads the root span; `Fields` uses the first field present; `has-root-span` and
`?.NUM_DESCENDANTS` are trace-level; typed and untyped comparisons as documented; a condition on a
field absent from every span does not match unless its operator is `not-exists`).  A matching drop
rule drops the trace, a rule with a downstream sampler delegates to it, a rule with SampleRate N keeps
with probability 1/N at rate N, and if no rule matches the trace is kept at rate 1.

Every theorem quantifies over all rule lists, traces (any spans, any field typing, with or without a
root span) and all external functions `E : Ext` (`%v`, strconv, regexp), downstream answers `down`
and random draws `intn`.

The clause on absent fields does **not** hold for the code: see `AbsentNeverMatches`,
`absent_never_matches_refuted`, the per-operator-class witnesses and `absent_never_matches_partial`.
-/
namespace Refinery.Props.C08
open Refinery.Model.Rules
open Refinery.Gen.Rules (rootPrefix computedPrefix numDescendants)

/-! ## extraction -/

/-- The documented lookup of one field name for one span: a `root.` name is read from the root span
(nothing if the trace has none), any other name from the span itself. -/
def lookupField (t : Trace) (s : Span) (f : String) : Option Val :=
  if hasPrefix f rootPrefix then t.root.bind fun r => r.data.lookup (dropPrefix f rootPrefix)
  else s.data.lookup f

theorem extractLoop_spec (t : Trace) (s : Span) (fs : List String) (cor : Bool) :
    ((extractLoop t s fs cor).val, (extractLoop t s fs cor).ex) =
      match fs.findSome? (lookupField t s) with
      | some v => (v, true)
      | none => (.nil, false) := by
  induction fs generalizing cor with
  | nil => simp [extractLoop]
  | cons f fs ih =>
    simp only [extractLoop, List.findSome?_cons, lookupField]
    by_cases hp : hasPrefix f rootPrefix = true
    · simp only [hp, if_true]
      cases hr : t.root with
      | none => simpa [lookupField] using ih cor
      | some r =>
        simp only [Option.bind_some]
        cases hl : r.data.lookup (dropPrefix f rootPrefix) with
        | none => simpa [lookupField] using ih cor
        | some v => simp
    · simp only [hp, Bool.false_eq_true, if_false]
      cases hl : s.data.lookup f with
      | none => simpa [lookupField] using ih false
      | some v => simp

theorem nestedResult_cor (E : Ext) (t : Trace) (sp : Span) (fs : List String) :
    (nestedResult E t sp fs).cor = false := by
  unfold nestedResult; cases nestedLoop E t sp fs <;> rfl

theorem nestedResult_absent_nil (E : Ext) (t : Trace) (sp : Span) (fs : List String)
    (h : (nestedResult E t sp fs).ex = false) : (nestedResult E t sp fs).val = .nil := by
  unfold nestedResult at h ⊢
  cases hn : nestedLoop E t sp fs with
  | none => rfl
  | some str => rw [hn] at h; cases h

/-- **nested_lookup_spec** — the value a span is tested with: *first* the flat lookup of every
field name in order (`root.` names in the root span, skipped when the trace has no root span; other
names in the span itself); *only if none of them is present* and `CheckNestedFields` is on, the
first field name, taken as a dotted path, that leads to a value nested in map-valued fields (of the
span the flat loop looked at last), as JSON text; otherwise the field does not exist. -/
theorem nested_lookup_spec (E : Ext) (t : Trace) (s : Span) (c : Cond) (h : isNumDescendants c = false) :
    ((extract E t s c).val, (extract E t s c).ex) =
      match (effFields c).findSome? (lookupField t s) with
      | some v => (v, true)
      | none =>
        if t.nested then
          match nestedLoop E t (lastSpan t s (effFields c)) (effFields c) with
          | some str => (.str str, true)
          | none => (.nil, false)
        else (.nil, false) := by
  have hl := extractLoop_spec t s (effFields c) true
  simp only [extract, h, Bool.false_eq_true, if_false]
  cases hf : (effFields c).findSome? (lookupField t s) with
  | some v =>
    simp only [hf] at hl
    have hex : (extractLoop t s (effFields c) true).ex = true := (Prod.mk.inj hl).2
    rw [if_pos hex]; exact hl
  | none =>
    simp only [hf] at hl
    have hex : (extractLoop t s (effFields c) true).ex = false := (Prod.mk.inj hl).2
    simp only [hex, Bool.false_eq_true, if_false]
    cases t.nested
    · simp
    · simp only [if_true, nestedResult]
      cases nestedLoop E t (lastSpan t s (effFields c)) (effFields c) <;> rfl

/-- **fields_first_present** — without `CheckNestedFields`, for every condition on ordinary fields,
the value a span is tested with is that of the first name in `Fields` (or the single `Field`) that is
present, each name being looked up in the root span if it carries the `root.` prefix and in the span
itself otherwise; if none is present the field does not exist for that span. -/
theorem fields_first_present (E : Ext) (t : Trace) (s : Span) (c : Cond) (h : isNumDescendants c = false)
    (hnest : t.nested = false) :
    ((extract E t s c).val, (extract E t s c).ex) =
      match (effFields c).findSome? (lookupField t s) with
      | some v => (v, true)
      | none => (.nil, false) := by
  rw [nested_lookup_spec E t s c h]
  cases (effFields c).findSome? (lookupField t s) <;> simp [hnest]

/-- With or without `CheckNestedFields`, a field that is present flat is never looked up nested. -/
theorem flat_lookup_first (E : Ext) (t : Trace) (s : Span) (c : Cond) (v : Val)
    (h : isNumDescendants c = false) (hf : (effFields c).findSome? (lookupField t s) = some v) :
    ((extract E t s c).val, (extract E t s c).ex) = (v, true) := by
  rw [nested_lookup_spec E t s c h, hf]

theorem foldl_last {α β : Type} (g : α → β) (l : List α) (a : β) :
    l.foldl (fun _ x => g x) a = match l.getLast? with
      | some x => g x
      | none => a := by
  induction l generalizing a with
  | nil => rfl
  | cons x xs ih =>
    rw [List.foldl_cons, ih, List.getLast?_cons]
    cases xs.getLast? <;> rfl

theorem spanAfterLoop_eq (t : Trace) (s : Span) (fs : List String) :
    spanAfterLoop t s fs = some (lastSpan t s fs) := by
  unfold spanAfterLoop lastSpan
  rw [foldl_last]
  cases fs.getLast? with
  | none => rfl
  | some f =>
    by_cases hp : hasPrefix f rootPrefix = true
    · cases hr : t.root <;> simp [hp]
    · simp [hp]

/-- **rules_never_panic** — on every path of `extractValueFromSpan` that the model covers (virtual
field, flat loop with `root.` names with or without a root span, nested fallback) the one pointer
the code dereferences without a check of its own, `span` after the field loop, is never nil: the
partial function `extractP` (nil dereference = `none`) always returns, and returns `extract`.  In
particular a `root.` field on a trace that reaches sampling without root span is simply absent. -/
theorem rules_never_panic (E : Ext) (t : Trace) (s : Span) (c : Cond) :
    extractP E t s c = some (extract E t s c) := by
  unfold extractP extract
  by_cases hn : isNumDescendants c = true
  · simp [hn]
  · simp only [hn, Bool.false_eq_true, if_false]
    cases (extractLoop t s (effFields c) true).ex
    · cases t.nested
      · simp
      · simp [spanAfterLoop_eq]
    · simp

/-- number of elements of the trace of one kind -/
def countKind (t : Trace) (k : Kind) : Nat := (t.spans.filter (·.kind == k)).length

theorem length_eq_counts (l : List Span) :
    l.length = (l.filter (·.kind == .span)).length + (l.filter (·.kind == .event)).length +
      (l.filter (·.kind == .link)).length := by
  induction l with
  | nil => rfl
  | cons s l ih =>
    simp only [List.length_cons, List.filter_cons]
    cases hk : s.kind <;> simp [ih] <;> omega

/-- **num_descendants_trace_level** — `?.NUM_DESCENDANTS` is the number of *all* elements of the
trace — ordinary spans, span events and links together ("the current number of child elements
contained within a trace") — whichever span is being looked at; it is not the number of ordinary
spans. -/
theorem num_descendants_trace_level (E : Ext) (t : Trace) (s : Span) (c : Cond) (h : isNumDescendants c = true) :
    extract E t s c =
      ⟨.int ((countKind t .span + countKind t .event + countKind t .link : Nat) : Int), true, true⟩ := by
  have := length_eq_counts t.spans
  simp only [countKind]
  rw [← this]
  simp [extract, h]

theorem rootPrefix_toList : rootPrefix.toList = ['r', 'o', 'o', 't', '.'] := by decide

theorem hasPrefix_root (g : String) : hasPrefix (rootPrefix ++ g) rootPrefix = true := by
  simp [hasPrefix, String.toList_append, List.isPrefixOf_iff_prefix]

theorem dropPrefix_root (g : String) : dropPrefix (rootPrefix ++ g) rootPrefix = g := by
  simp [dropPrefix, String.toList_append, String.ofList_toList]

/-- A `root.` field of a trace without root span is skipped by the flat lookup. -/
theorem root_field_skipped_without_root (t : Trace) (s : Span) (g : String) (h : t.root = none) :
    lookupField t s (rootPrefix ++ g) = none := by
  simp [lookupField, hasPrefix_root, h]

theorem root_not_computed (g : String) : hasPrefix (rootPrefix ++ g) computedPrefix = false := by
  have : computedPrefix.toList = ['?', '.'] := by decide
  simp [hasPrefix, String.toList_append, rootPrefix_toList, this, List.isPrefixOf]

theorem root_ne_empty (g : String) : ((rootPrefix ++ g) != "") = true := by
  have h : (rootPrefix ++ g).toList ≠ "".toList := by
    simp [String.toList_append, rootPrefix_toList]
  simp only [bne_iff_ne, ne_eq]
  intro h'
  exact h (by rw [h'])

/-- **root_prefix_reads_root** — a condition on `root.<g>` is tested, for *every* span, against the
root span's field `<g>`; the span being looked at plays no role; without a root span (or without the
field on it) the field does not exist. -/
theorem root_prefix_reads_root (E : Ext) (t : Trace) (s : Span) (c : Cond) (g : String)
    (hf : c.field = rootPrefix ++ g) (hfs : c.fields = []) (hnest : t.nested = false) :
    extract E t s c =
      match t.root.bind (fun r => r.data.lookup g) with
      | some v => ⟨v, true, true⟩
      | none => ⟨.nil, false, false⟩ := by
  have hn : isNumDescendants c = false := by simp [isNumDescendants, hf, root_not_computed]
  have he : effFields c = [rootPrefix ++ g] := by
    simp [effFields, hf, hfs, root_ne_empty]
  simp only [extract, hn, Bool.false_eq_true, if_false, he, extractLoop, hasPrefix_root, if_true,
    dropPrefix_root, hnest]
  cases t.root with
  | none => simp
  | some r => simp only [Option.bind_some]; cases r.data.lookup g <;> simp

/-- If the extraction reports `checkedOnlyRoot`, it found the value on the root span through
`root.` names only, so every span of the trace gives the same extraction. -/
theorem extractLoop_cor (t : Trace) (s : Span) (fs : List String) (c0 : Bool)
    (h : (extractLoop t s fs c0).cor = true) :
    c0 = true ∧ ∀ s', extractLoop t s' fs c0 = extractLoop t s fs c0 := by
  induction fs generalizing c0 with
  | nil => simp [extractLoop] at h
  | cons f fs ih =>
    simp only [extractLoop] at h ⊢
    by_cases hp : hasPrefix f rootPrefix = true
    · simp only [hp, if_true] at h ⊢
      cases hr : t.root with
      | none => simp only [hr] at h ⊢; exact ih c0 h
      | some r =>
        simp only [hr] at h ⊢
        cases hl : r.data.lookup (dropPrefix f rootPrefix) with
        | none => simp only [hl] at h ⊢; exact ih c0 h
        | some v => simp only [hl] at h ⊢; exact ⟨h, by simp⟩
    · simp only [hp, Bool.false_eq_true, if_false] at h ⊢
      cases hl : s.data.lookup f with
      | none =>
        simp only [hl] at h
        exact absurd (ih false h).1 (by simp)
      | some v => simp [hl] at h

theorem extract_cor (E : Ext) (t : Trace) (s : Span) (c : Cond) (h : (extract E t s c).cor = true) :
    ∀ s', extract E t s' c = extract E t s c := by
  intro s'
  unfold extract at h ⊢
  by_cases hn : isNumDescendants c = true
  · simp [hn]
  · simp only [hn, Bool.false_eq_true, if_false] at h ⊢
    cases hx : (extractLoop t s (effFields c) true).ex with
    | true =>
      simp only [hx, if_true] at h ⊢
      have := (extractLoop_cor t s _ true h).2 s'
      rw [this, hx]; simp
    | false =>
      simp only [hx, Bool.false_eq_true, if_false] at h
      cases hnest : t.nested <;> simp [hnest, nestedResult_cor] at h

theorem condOnSpan_cor (E : Ext) (t : Trace) (c : Cond) (s : Span) (h : (extract E t s c).cor = true) :
    ∀ s', condOnSpan E t c s' = condOnSpan E t c s := by
  intro s'
  simp [condOnSpan, extract_cor E t s c h s']

/-! ## trace scope -/

theorem traceCond_eq_any (E : Ext) (t : Trace) (c : Cond) (spans : List Span) :
    traceCond E t c spans = spans.any (condOnSpan E t c) := by
  induction spans with
  | nil => rfl
  | cons s rest ih =>
    simp only [traceCond, List.any_cons]
    by_cases hm : condOnSpan E t c s = true
    · simp [hm]
    · simp only [hm, Bool.false_eq_true, if_false, Bool.false_or]
      by_cases hc : (extract E t s c).cor = true
      · simp only [hc, if_true]
        symm
        rw [List.any_eq_false]
        intro s' _
        rw [condOnSpan_cor E t c s hc s']
        exact hm
      · simp only [hc, Bool.false_eq_true, if_false]
        exact ih

/-- what the documentation says a condition of a trace-scoped rule means -/
def traceCondSpec (E : Ext) (t : Trace) (c : Cond) : Bool :=
  if c.op = .hasRootSpan then t.root.isSome == toBool E c.val
  else t.spans.any (condOnSpan E t c)

theorem traceLoop_spec (E : Ext) (t : Trace) (cs : List Cond) (m : Nat) :
    (∀ k, traceLoop E t cs m = some k → k ≤ m + cs.length) ∧
    (traceLoop E t cs m = some (m + cs.length) ↔ cs.all (traceCondSpec E t) = true) := by
  induction cs generalizing m with
  | nil => simp [traceLoop]
  | cons c cs ih =>
    simp only [traceLoop, List.all_cons, traceCondSpec, List.length_cons]
    by_cases hop : c.op = .hasRootSpan
    · simp only [hop, if_true]
      by_cases hr : (t.root.isSome == toBool E c.val) = true
      · simp only [hr, if_true, Bool.true_and]
        have := ih (m + 1)
        constructor
        · intro k hk; have := this.1 k hk; omega
        · rw [show m + (cs.length + 1) = m + 1 + cs.length by omega]; exact this.2
      · simp [hr]
    · simp only [hop, if_false, traceCond_eq_any]
      by_cases ha : t.spans.any (condOnSpan E t c) = true
      · simp only [ha, if_true, Bool.true_and]
        have := ih (m + 1)
        constructor
        · intro k hk; have := this.1 k hk; omega
        · rw [show m + (cs.length + 1) = m + 1 + cs.length by omega]; exact this.2
      · simp only [ha, Bool.false_eq_true, if_false, Bool.false_and, iff_false]
        have := ih m
        constructor
        · intro k hk; have := this.1 k hk; omega
        · intro hk; have := this.1 _ hk; omega

/-- **trace_scope_spec** — a trace-scoped rule matches exactly when *every* condition is matched by
*some* span of the trace (`has-root-span` being a property of the trace itself).  The counter, the
`break`s on `checkedOnlyRoot` and the early `return false` of `ruleMatchesTrace` change nothing. -/
theorem trace_scope_spec (E : Ext) (t : Trace) (conds : List Cond) :
    matchTrace E t conds = conds.all (traceCondSpec E t) := by
  unfold matchTrace
  cases conds with
  | nil => simp
  | cons c cs =>
    have h := (traceLoop_spec E t (c :: cs) 0).2
    simp only [Nat.zero_add] at h
    simp only [List.isEmpty_cons, Bool.false_eq_true, if_false]
    by_cases ha : (c :: cs).all (traceCondSpec E t) = true
    · rw [ha]; simpa using h.mpr ha
    · have hn : ¬ traceLoop E t (c :: cs) 0 = some (c :: cs).length := fun hk => ha (h.mp hk)
      simp only [Bool.not_eq_true] at ha
      rw [ha]
      simpa using hn

/-- **has_root_span_trace_level** — `has-root-span` does not look at any span: it compares the
presence of a root span with the condition's (boolean-coerced) value. -/
theorem has_root_span_trace_level (E : Ext) (t : Trace) (c : Cond) (h : c.op = .hasRootSpan) :
    matchTrace E t [c] = (t.root.isSome == toBool E c.val) := by
  simp [trace_scope_spec, traceCondSpec, h]

/-! ## span scope -/

theorem spanConds_all (E : Ext) (t : Trace) (s : Span) (cs : List Cond) :
    spanConds E t s cs = .all ↔ cs.all (fun c => condOnSpan E t c s) = true := by
  induction cs with
  | nil => simp [spanConds]
  | cons c cs ih =>
    simp only [spanConds, List.all_cons]
    by_cases hm : condOnSpan E t c s = true
    · simp [hm, ih]
    · simp only [hm, Bool.false_eq_true, if_false, Bool.false_and, iff_false]
      by_cases hc : (extract E t s c).cor = true <;> simp [hc]

theorem spanConds_failedRoot (E : Ext) (t : Trace) (s : Span) (cs : List Cond)
    (h : spanConds E t s cs = .failedRoot) :
    ∃ c ∈ cs, ∀ s', condOnSpan E t c s' = false := by
  induction cs with
  | nil => simp [spanConds] at h
  | cons c cs ih =>
    simp only [spanConds] at h
    by_cases hm : condOnSpan E t c s = true
    · simp only [hm, if_true] at h
      obtain ⟨c', hc', hall⟩ := ih h
      exact ⟨c', List.mem_cons_of_mem _ hc', hall⟩
    · simp only [hm, Bool.false_eq_true, if_false] at h
      by_cases hc : (extract E t s c).cor = true
      · refine ⟨c, List.mem_cons_self, fun s' => ?_⟩
        rw [condOnSpan_cor E t c s hc s']
        simpa using hm
      · simp [hc] at h

theorem spanLoop_eq_any (E : Ext) (t : Trace) (conds : List Cond) (spans : List Span) :
    spanLoop E t conds spans = spans.any (fun s => conds.all (fun c => condOnSpan E t c s)) := by
  induction spans with
  | nil => rfl
  | cons s rest ih =>
    simp only [spanLoop, List.any_cons]
    cases hr : spanConds E t s conds with
    | all => simp [(spanConds_all E t s conds).mp hr]
    | failed =>
      have : ¬ conds.all (fun c => condOnSpan E t c s) = true := fun ha => by
        rw [(spanConds_all E t s conds).mpr ha] at hr; cases hr
      simp only [Bool.not_eq_true] at this
      simp [this, ih]
    | failedRoot =>
      obtain ⟨c, hc, hall⟩ := spanConds_failedRoot E t s conds hr
      have hs : ∀ s', conds.all (fun c => condOnSpan E t c s') = false := by
        intro s'
        rw [List.all_eq_false]
        exact ⟨c, hc, by simp [hall s']⟩
      simp only [hs s, Bool.false_or]
      symm
      rw [List.any_eq_false]
      intro s' _
      simp [hs s']

/-- **span_scope_spec** — a span-scoped rule (with conditions) matches exactly when *some* span is
matched by *all* conditions.  The early `return false` on `checkedOnlyRoot` changes nothing. -/
theorem span_scope_spec (E : Ext) (t : Trace) (conds : List Cond) :
    matchSpan E t conds =
      (conds.isEmpty || t.spans.any (fun s => conds.all (fun c => condOnSpan E t c s))) := by
  unfold matchSpan
  cases conds with
  | nil => simp
  | cons c cs => simp [spanLoop_eq_any]

/-- **has_root_span_not_in_span_scope** (rules_conditions.md: "`has-root-span` cannot be used with
`Scope: span` … the rule [will] fail evaluation and be skipped") — a span-scoped rule containing a
`has-root-span` condition never matches. -/
theorem has_root_span_not_in_span_scope (E : Ext) (t : Trace) (conds : List Cond) (c : Cond)
    (hc : c ∈ conds) (hop : c.op = .hasRootSpan) : matchSpan E t conds = false := by
  have hcell : ∀ s, condOnSpan E t c s = false := by
    intro s
    unfold condOnSpan condValue matcherOf
    have hm : matcher E c = none := by simp [matcher, hop]
    cases initErr c <;> cases (extract E t s c).ex <;> simp [hm, untyped, hop]
  have hne : conds.isEmpty = false := by cases conds <;> simp at hc ⊢
  rw [span_scope_spec, hne, Bool.false_or, List.any_eq_false]
  intro s _
  simp only [Bool.not_eq_true]
  rw [List.all_eq_false]
  exact ⟨c, hc, by simp [hcell s]⟩

/-! ## the rule loop -/

/-- **first_match** — the decision is that of the first rule, in configuration order, that matches;
later rules are never consulted; if none matches the trace is kept at rate 1. -/
theorem first_match (E : Ext) (t : Trace) (down : Nat → Option DownRes) (intn : Int → Nat)
    (rules : List Rule) :
    getSampleRate E t down intn rules =
      match rules.find? (ruleMatches E t) with
      | some r => applyRule down intn r
      | none => noMatch := by
  induction rules with
  | nil => rfl
  | cons r rs ih =>
    simp only [getSampleRate, List.find?_cons]
    by_cases h : ruleMatches E t r = true
    · simp [h]
    · simp only [Bool.not_eq_true] at h
      simp [h, ih]

/-- `first_match`, spelled with positions: rule `i` matches and no earlier rule does. -/
theorem first_match_index (E : Ext) (t : Trace) (down : Nat → Option DownRes) (intn : Int → Nat)
    (rules : List Rule) (i : Nat) (hi : i < rules.length)
    (hm : ruleMatches E t rules[i] = true)
    (hb : ∀ j (hj : j < i), ruleMatches E t (rules[j]'(Nat.lt_trans hj hi)) = false) :
    getSampleRate E t down intn rules = applyRule down intn rules[i] := by
  induction rules generalizing i with
  | nil => simp at hi
  | cons r rs ih =>
    cases i with
    | zero => simp only [List.getElem_cons_zero] at hm; simp [getSampleRate, hm]
    | succ i =>
      have h0 : ruleMatches E t r = false := by simpa using hb 0 (Nat.succ_pos i)
      simp only [getSampleRate, h0, Bool.false_eq_true, if_false, List.getElem_cons_succ]
      apply ih i (by simpa using hi) (by simpa using hm)
      intro j hj
      simpa using hb (j + 1) (Nat.succ_lt_succ hj)

/-- **no_match_keeps_at_1** — if no rule matches, the trace is kept, at rate 1, with the reason
"no rule matched" and no key. -/
theorem no_match_keeps_at_1 (E : Ext) (t : Trace) (down : Nat → Option DownRes) (intn : Int → Nat)
    (rules : List Rule) (h : ∀ r ∈ rules, ruleMatches E t r = false) :
    getSampleRate E t down intn rules = ⟨1, true, .noRuleMatched, ""⟩ := by
  rw [first_match]
  have : rules.find? (ruleMatches E t) = none := by
    rw [List.find?_eq_none]; intro r hr; simp [h r hr]
  simp [this, noMatch]

/-- **drop_rule_drops** — when the first matching rule is a drop rule (without a downstream
sampler), the trace is dropped whatever the draw. -/
theorem drop_rule_drops (E : Ext) (t : Trace) (down : Nat → Option DownRes) (intn : Int → Nat)
    (rules : List Rule) (r : Rule) (hf : rules.find? (ruleMatches E t) = some r)
    (hs : r.sampler = none) (hd : r.drop = true) :
    (getSampleRate E t down intn rules).keep = false := by
  rw [first_match, hf]
  simp [applyRule, hs, hd]

/-- **rate_rule** — when the first matching rule has `SampleRate N` (N ≥ 1, not a drop rule, no
downstream sampler) the reported rate is N and the trace is kept exactly when the draw
`rand.Intn(N)` is 0, i.e. with probability 1/N; the reason names the rule and its scope. -/
theorem rate_rule (E : Ext) (t : Trace) (down : Nat → Option DownRes) (intn : Int → Nat)
    (rules : List Rule) (r : Rule) (hf : rules.find? (ruleMatches E t) = some r)
    (hs : r.sampler = none) (hd : r.drop = false) (hpos : 0 < r.rate) (hmax : r.rate < 2 ^ 63) :
    (getSampleRate E t down intn rules).rate = r.rate.toNat ∧
    ((getSampleRate E t down intn rules).keep = true ↔ intn r.rate = 0) ∧
    (getSampleRate E t down intn rules).reason = .rule r.scope r.name ∧
    (getSampleRate E t down intn rules).key = "" := by
  rw [first_match, hf]
  have hm : r.rate % 18446744073709551616 = r.rate := Int.emod_eq_of_lt (by omega) (by omega)
  simp [applyRule, hs, hd, hpos, toUint, hm]

/-- A rule with `SampleRate ≤ 0` and no downstream sampler never keeps (and never draws). -/
theorem rate_rule_nonpositive (E : Ext) (t : Trace) (down : Nat → Option DownRes) (intn : Int → Nat)
    (rules : List Rule) (r : Rule) (hf : rules.find? (ruleMatches E t) = some r)
    (hs : r.sampler = none) (hle : r.rate ≤ 0) :
    (getSampleRate E t down intn rules).keep = false := by
  rw [first_match, hf]
  have : ¬ r.rate > 0 := by omega
  simp [applyRule, hs, this]

/-- **delegation** — when the first matching rule has a downstream sampler, rate, keep decision and
key are exactly the downstream sampler's, and the reason is the rule's followed by the downstream's. -/
theorem delegation (E : Ext) (t : Trace) (down : Nat → Option DownRes) (intn : Int → Nat)
    (rules : List Rule) (r : Rule) (id : Nat) (d : DownRes)
    (hf : rules.find? (ruleMatches E t) = some r) (hs : r.sampler = some id) (hd : down id = some d) :
    getSampleRate E t down intn rules = ⟨d.rate, d.keep, .delegated r.scope r.name d.reason, d.key⟩ := by
  rw [first_match, hf]
  simp [applyRule, hs, hd]

/-! ## typed comparisons -/

/-- **typed_compare_spec (int)** — with `Datatype: int` and a convertible `Value`, a basic comparison
holds iff the field exists, converts to an integer, and the integers compare accordingly. -/
theorem typed_compare_int (E : Ext) (c : Cond) (cv : Int) (v : Val) (ex : Bool)
    (hop : c.op = .neq ∨ c.op = .eq ∨ c.op = .gt ∨ c.op = .lt ∨ c.op = .gte ∨ c.op = .lte)
    (hi : initErr c = false) (hdt : c.dt = .int) (hcv : tryInt E c.val = some cv) :
    condValue E c v ex =
      match tryInt E v with
      | some n => ex && ordOp c.op (compare n cv)
      | none => false := by
  rcases hop with h | h | h | h | h | h <;>
    simp [condValue, matcherOf, hi, matcher, h, compareMatcher, hdt, hcv] <;> cases tryInt E v <;> rfl

/-- **typed_compare_spec (float)** -/
theorem typed_compare_float (E : Ext) (c : Cond) (cv : Int × Nat) (v : Val) (ex : Bool)
    (hop : c.op = .neq ∨ c.op = .eq ∨ c.op = .gt ∨ c.op = .lt ∨ c.op = .gte ∨ c.op = .lte)
    (hi : initErr c = false) (hdt : c.dt = .float) (hcv : tryFloat E c.val = some cv) :
    condValue E c v ex =
      match tryFloat E v with
      | some q => ex && ordOp c.op (cmpQ q cv)
      | none => false := by
  rcases hop with h | h | h | h | h | h <;>
    simp [condValue, matcherOf, hi, matcher, h, compareMatcher, hdt, hcv] <;> cases tryFloat E v <;> rfl

/-- **typed_compare_spec (bool)** — `=` / `!=` with `Datatype: bool` compare the boolean coercions
and require the field to exist. -/
theorem typed_compare_bool (E : Ext) (c : Cond) (v : Val) (ex : Bool)
    (hop : c.op = .neq ∨ c.op = .eq) (hi : initErr c = false) (hdt : c.dt = .bool) :
    condValue E c v ex = (ex && ordOp c.op (cmpBool (toBool E v) (toBool E c.val))) := by
  rcases hop with h | h <;>
    simp [condValue, matcherOf, hi, matcher, h, compareMatcher, hdt]

/-- **typed_compare_spec (string)** — with `Datatype: string` both sides are formatted with `%v`
and compared as strings; *the `exists` flag is not consulted* (see `absent_never_matches_refuted`). -/
theorem typed_compare_string (E : Ext) (c : Cond) (v : Val) (ex : Bool)
    (hop : c.op = .neq ∨ c.op = .eq ∨ c.op = .gt ∨ c.op = .lt ∨ c.op = .gte ∨ c.op = .lte)
    (hi : initErr c = false) (hdt : c.dt = .str) :
    condValue E c v ex = ordOp c.op (cmpStr (E.fmt v) (E.fmt c.val)) := by
  rcases hop with h | h | h | h | h | h <;>
    simp [condValue, matcherOf, hi, matcher, h, compareMatcher, hdt]

/-- **untyped_compare_spec** — without `Datatype` a basic comparison holds iff the field exists, the
two values are of comparable kinds (`compare`), and they compare accordingly. -/
theorem untyped_compare (E : Ext) (c : Cond) (v : Val) (ex : Bool)
    (hop : c.op = .neq ∨ c.op = .eq ∨ c.op = .gt ∨ c.op = .lt ∨ c.op = .gte ∨ c.op = .lte)
    (hdt : c.dt = .none) :
    condValue E c v ex =
      (ex && match compareVals v c.val with
        | some o => ordOp c.op o
        | none => false) := by
  have hm : matcherOf E c = none := by
    unfold matcherOf
    split
    · rfl
    · rcases hop with h | h | h | h | h | h <;> simp [matcher, h, compareMatcher, hdt]
  rcases hop with h | h | h | h | h | h <;> cases ex <;> simp [condValue, hm, untyped, h] <;>
    cases compareVals v c.val <;> rfl

/-- external functions that are never consulted by untyped numeric comparisons -/
def goExt0 : Ext where
  fmt _ := ""
  atoi _ := none
  pfloat _ := none
  pbool _ := none
  rxCompiles _ := false
  rxMatch _ _ := false

/-- numeric reading of a value: an integer, or a float as the exact fraction it denotes -/
def toQ : Val → Option (Int × Nat)
  | .int n => some (n, 1)
  | .flt n d => some (n, d)
  | _ => none

/-- `cmpQ` is the exact order of two fractions `a.1/a.2`, `b.1/b.2` (positive denominators):
nothing is truncated or rounded. -/
theorem cmpQ_exact (a b : Int × Nat) :
    (cmpQ a b = .lt ↔ a.1 * b.2 < b.1 * a.2) ∧
    (cmpQ a b = .eq ↔ a.1 * b.2 = b.1 * a.2) ∧
    (cmpQ a b = .gt ↔ a.1 * b.2 > b.1 * a.2) := by
  unfold cmpQ
  refine ⟨?_, ?_, ?_⟩
  · exact Int.compare_eq_lt
  · exact Int.compare_eq_eq
  · exact Int.compare_eq_gt

theorem untyped_numeric_exact (v w : Val) (a b : Int × Nat) (hv : toQ v = some a) (hw : toQ w = some b) :
    compareVals v w = some (cmpQ a b) := by
  cases v <;> cases w <;> simp [toQ] at hv hw <;> subst hv <;> subst hw <;> simp [compareVals, cmpQ]

/-- **untyped_compare_spec (numbers)** (rules_conditions.md: without `Datatype` "Refinery determines
the type of the incoming span value … it attempts to convert the `Value` parameter to the same
type"): when the span value and the rule value are both numbers — int64 or float64 on the span,
int or float on the rule, in any combination — a basic comparison holds iff the field exists and
the two numbers, taken exactly (`1.5` is not `1`), are in that order. -/
theorem untyped_compare_numeric (E : Ext) (c : Cond) (v : Val) (ex : Bool) (a b : Int × Nat)
    (hop : c.op = .neq ∨ c.op = .eq ∨ c.op = .gt ∨ c.op = .lt ∨ c.op = .gte ∨ c.op = .lte)
    (hdt : c.dt = .none) (hv : toQ v = some a) (hw : toQ c.val = some b) :
    condValue E c v ex = (ex && ordOp c.op (cmpQ a b)) := by
  rw [untyped_compare E c v ex hop hdt, untyped_numeric_exact v c.val a b hv hw]

-- 1.5 > 1, 1.5 ≠ 1, -0.5 < 0 (float64 span value, int rule value, no Datatype); 2 < 2.5 (int64 vs float)
example : condValue goExt0 { field := "a", op := .gt, val := .int 1 } (.flt 3 2) true = true := by decide
example : condValue goExt0 { field := "a", op := .eq, val := .int 1 } (.flt 3 2) true = false := by decide
example : condValue goExt0 { field := "a", op := .lt, val := .int 0 } (.flt (-1) 2) true = true := by decide
example : condValue goExt0 { field := "a", op := .lt, val := .flt 5 2 } (.int 2) true = true := by decide
example : condValue goExt0 { field := "a", op := .gte, val := .int 2 } (.flt 15 8) true = false := by decide

/-! ## absent fields -/

/-- no span of the trace has (any of) the condition's field(s) -/
def AbsentEverywhere (E : Ext) (t : Trace) (c : Cond) : Prop := ∀ s ∈ t.spans, (extract E t s c).ex = false

/-- **absent_never_matches, full statement** (rules_conditions.md: "When a Field is absent in all
spans within a trace, the associated rule does not apply to that trace"): a condition whose field
is absent from every span is matched by no span, unless its operator is `not-exists`. -/
def AbsentNeverMatches : Prop :=
  ∀ (E : Ext) (t : Trace) (c : Cond), c.op ≠ .notEx → AbsentEverywhere E t c →
    ∀ s ∈ t.spans, condOnSpan E t c s = false

/-- `%v`, strconv and regexp on the handful of arguments the witnesses use -/
def goExt : Ext where
  fmt
    | .str s => s
    | .nil => "<nil>"
    | .int 5 => "5"
    | _ => ""
  atoi s := if s = "5" then some 5 else none
  pfloat s := if s = "5" then some (5, 1) else none
  pbool _ := none
  rxCompiles _ := true
  rxMatch p s := p = "nil" ∧ s = "<nil>"

/-- a trace of one span `{a: "x"}`, which is also its root -/
def oneSpan : Trace := { spans := [(Span.of [("a", .str "x")])], root := some (Span.of [("a", .str "x")]) }

/-- condition on the field `zz`, which `oneSpan` does not have -/
def onZZ (op : Op) (dt : DT) (v : Val) (items : Option (List Val) := none) : Cond :=
  { field := "zz", op := op, dt := dt, val := v, items := items }

/-- **absent_never_matches is refuted** by the code's behaviour: `Field: zz, Operator:
does-not-contain, Value: "x"` matches a span that has no `zz`, because the missing value `nil` is
formatted as "<nil>", which does not contain "x". -/
theorem absent_never_matches_refuted : ¬ AbsentNeverMatches := by
  intro h
  have := h goExt oneSpan (onZZ .doesNotContain .none (.str "x")) (by decide)
    (by intro s hs; simp [oneSpan] at hs; subst hs; decide) _ (List.mem_cons_self)
  revert this
  decide

/-- One witness per operator class for which an absent field matches (each was reproduced on the
real sampler, see corpus/C08): the absent value is coerced to the string "<nil>". -/
theorem absent_matches_string_compare :
    condOnSpan goExt oneSpan (onZZ .neq .str (.str "x")) (Span.of [("a", .str "x")]) = true ∧
    condOnSpan goExt oneSpan (onZZ .eq .str (.str "<nil>")) (Span.of [("a", .str "x")]) = true ∧
    condOnSpan goExt oneSpan (onZZ .lt .str (.str "a")) (Span.of [("a", .str "x")]) = true ∧
    condOnSpan goExt oneSpan (onZZ .lte .str (.str "a")) (Span.of [("a", .str "x")]) = true ∧
    condOnSpan goExt oneSpan (onZZ .gt .str (.str "")) (Span.of [("a", .str "x")]) = true ∧
    condOnSpan goExt oneSpan (onZZ .gte .str (.str "")) (Span.of [("a", .str "x")]) = true := by decide

theorem absent_matches_string_ops :
    condOnSpan goExt oneSpan (onZZ .contains .none (.str "nil")) (Span.of [("a", .str "x")]) = true ∧
    condOnSpan goExt oneSpan (onZZ .startsWith .int (.str "<ni")) (Span.of [("a", .str "x")]) = true ∧
    condOnSpan goExt oneSpan (onZZ .doesNotContain .none (.str "x")) (Span.of [("a", .str "x")]) = true ∧
    condOnSpan goExt oneSpan (onZZ .regex .none (.str "nil")) (Span.of [("a", .str "x")]) = true := by decide

theorem absent_matches_in_ops :
    condOnSpan goExt oneSpan (onZZ .isIn .none (.str "<nil>")) (Span.of [("a", .str "x")]) = true ∧
    condOnSpan goExt oneSpan (onZZ .isIn .str (.other "l") (some [.str "a", .str "<nil>"])) (Span.of [("a", .str "x")]) = true ∧
    condOnSpan goExt oneSpan (onZZ .notIn .none (.str "x")) (Span.of [("a", .str "x")]) = true ∧
    condOnSpan goExt oneSpan (onZZ .notIn .str (.str "x")) (Span.of [("a", .str "x")]) = true ∧
    condOnSpan goExt oneSpan (onZZ .notIn .int (.int 5)) (Span.of [("a", .str "x")]) = true ∧
    condOnSpan goExt oneSpan (onZZ .notIn .float (.int 5)) (Span.of [("a", .str "x")]) = true := by decide

/-- The consequence at rule level: a trace-scoped rule `zz does-not-contain "x"` applies to a trace
in which no span has `zz`. -/
theorem absent_rule_applies :
    (getSampleRate goExt oneSpan (fun _ => none) (fun _ => 0)
      [{ name := "r", rate := 1, drop := true, scope := .trace, conds := [onZZ .doesNotContain .none (.str "x")] }]).keep = false := by
  decide

theorem extractLoop_absent_nil (t : Trace) (s : Span) (fs : List String) (c0 : Bool)
    (h : (extractLoop t s fs c0).ex = false) : (extractLoop t s fs c0).val = .nil := by
  induction fs generalizing c0 with
  | nil => rfl
  | cons f fs ih =>
    simp only [extractLoop] at h ⊢
    by_cases hp : hasPrefix f rootPrefix = true
    · simp only [hp, if_true] at h ⊢
      cases hr : t.root with
      | none => simp only [hr] at h ⊢; exact ih c0 h
      | some r =>
        simp only [hr] at h ⊢
        cases hl : r.data.lookup (dropPrefix f rootPrefix) with
        | none => simp only [hl] at h ⊢; exact ih c0 h
        | some v => simp [hl] at h
    · simp only [hp, Bool.false_eq_true, if_false] at h ⊢
      cases hl : s.data.lookup f with
      | none => simp only [hl] at h ⊢; exact ih false h
      | some v => simp [hl] at h

/-- **absent_is_nil_coercion** — what the code does with a field a span does not have: the condition
is evaluated on the value `nil` with `exists = false`; operators that ignore `exists` then see
whatever `%v` makes of `nil`. -/
theorem absent_is_nil_coercion (E : Ext) (t : Trace) (c : Cond) (s : Span)
    (h : (extract E t s c).ex = false) : condOnSpan E t c s = condValue E c .nil false := by
  have hv : (extract E t s c).val = .nil := by
    unfold extract at h ⊢
    by_cases hn : isNumDescendants c = true
    · simp [hn] at h
    · simp only [hn, Bool.false_eq_true, if_false] at h ⊢
      cases hx : (extractLoop t s (effFields c) true).ex with
      | true => simp [hx] at h
      | false =>
        simp only [hx, Bool.false_eq_true, if_false] at h ⊢
        cases hnest : t.nested with
        | false => simp
        | true =>
          simp only [hnest, if_true] at h ⊢
          exact nestedResult_absent_nil E t _ _ h
  simp [condOnSpan, h, hv]

/-- The operator classes whose matcher honours absence: `exists`, `has-root-span` (never matches a
single span), unknown operators, the six basic comparisons unless `Datatype: string`, `in` with
`Datatype: int`/`float`, and every operator of a condition whose `Init` failed. -/
def absentSafe (c : Cond) : Bool :=
  initErr c ||
  match c.op with
  | .ex | .hasRootSpan | .unknown => true
  | .neq | .eq | .gt | .lt | .gte | .lte => c.dt != .str
  | .isIn => c.dt == .int || c.dt == .float
  | _ => false

theorem untyped_absent (c : Cond) (hop : c.op ≠ .notEx) : untyped c .nil false = false := by
  simp only [untyped, Bool.false_eq_true, if_false]
  simpa using hop

theorem compareMatcher_absent (E : Ext) (c : Cond) (hdt : (c.dt != .str) = true) (f : Matcher)
    (hf : compareMatcher E c = some f) : f .nil false = false := by
  unfold compareMatcher at hf
  cases hd : c.dt with
  | str => simp [hd] at hdt
  | int =>
    simp only [hd] at hf
    cases hv : tryInt E c.val <;> simp only [hv] at hf
    · cases hf
    · cases hf; simp [tryInt]
  | float =>
    simp only [hd] at hf
    cases hv : tryFloat E c.val <;> simp only [hv] at hf
    · cases hf
    · cases hf; simp [tryFloat]
  | bool =>
    simp only [hd] at hf
    by_cases h : c.op = .neq ∨ c.op = .eq
    · simp only [h, if_true] at hf; cases hf; simp
    · simp only [h, if_false] at hf; cases hf
  | none => simp only [hd] at hf; cases hf

theorem condValue_absent_safe (E : Ext) (c : Cond) (hop : c.op ≠ .notEx) (hs : absentSafe c = true) :
    condValue E c .nil false = false := by
  have hu := untyped_absent c hop
  unfold condValue matcherOf
  by_cases hi : initErr c = true
  · simp [hi, hu]
  · have hi' : initErr c = false := by simpa using hi
    simp only [hi', Bool.false_eq_true, if_false]
    simp only [absentSafe, hi', Bool.false_or] at hs
    have hcm : (c.dt != .str) = true → (match compareMatcher E c with
        | some f => f .nil false
        | none => untyped c .nil false) = false := by
      intro hdt
      cases hm : compareMatcher E c with
      | none => simp [hu]
      | some f => simp [compareMatcher_absent E c hdt f hm]
    cases hc : c.op with
    | notEx => exact absurd hc hop
    | ex => simp [matcher, hc]
    | hasRootSpan => simp [matcher, hc, hu]
    | unknown => simp [matcher, hc, hu]
    | neq => simp only [hc] at hs; simp only [matcher, hc]; exact hcm hs
    | eq => simp only [hc] at hs; simp only [matcher, hc]; exact hcm hs
    | gt => simp only [hc] at hs; simp only [matcher, hc]; exact hcm hs
    | lt => simp only [hc] at hs; simp only [matcher, hc]; exact hcm hs
    | gte => simp only [hc] at hs; simp only [matcher, hc]; exact hcm hs
    | lte => simp only [hc] at hs; simp only [matcher, hc]; exact hcm hs
    | isIn =>
      simp only [hc] at hs
      simp only [matcher, hc, inBase]
      cases inItems c with
      | none => simp [hu]
      | some items =>
        cases hd : c.dt <;> simp [hd] at hs <;> simp [tryInt, tryFloat]
    | contains => simp [hc] at hs
    | doesNotContain => simp [hc] at hs
    | startsWith => simp [hc] at hs
    | regex => simp [hc] at hs
    | notIn => simp [hc] at hs

/-- **absent_never_matches_partial** — for the operator classes of `absentSafe` (and any operator but
`not-exists`), a span that lacks the condition's field(s) is not matched by the condition. -/
theorem absent_never_matches_partial (E : Ext) (t : Trace) (c : Cond) (s : Span)
    (hop : c.op ≠ .notEx) (hs : absentSafe c = true) (h : (extract E t s c).ex = false) :
    condOnSpan E t c s = false := by
  rw [absent_is_nil_coercion E t c s h]
  exact condValue_absent_safe E c hop hs

/-- … hence a rule containing such a condition on a field absent from every span does not apply to
the trace, in either scope. -/
theorem absent_rule_does_not_apply_partial (E : Ext) (t : Trace) (conds : List Cond) (c : Cond)
    (hc : c ∈ conds) (hop : c.op ≠ .notEx) (hr : c.op ≠ .hasRootSpan) (hs : absentSafe c = true)
    (h : AbsentEverywhere E t c) :
    matchTrace E t conds = false ∧ matchSpan E t conds = false := by
  have hcell : ∀ s ∈ t.spans, condOnSpan E t c s = false :=
    fun s hmem => absent_never_matches_partial E t c s hop hs (h s hmem)
  have hne : conds.isEmpty = false := by cases conds <;> simp at hc ⊢
  constructor
  · rw [trace_scope_spec, List.all_eq_false]
    refine ⟨c, hc, ?_⟩
    simp only [traceCondSpec, hr, if_false, Bool.not_eq_true]
    rw [List.any_eq_false]
    intro s hmem; simp [hcell s hmem]
  · rw [span_scope_spec, hne, Bool.false_or, List.any_eq_false]
    intro s hmem
    simp only [Bool.not_eq_true]
    rw [List.all_eq_false]
    exact ⟨c, hc, by simp [hcell s hmem]⟩

/-! ## non-vacuity: concrete rule lists and traces, evaluated by the kernel -/

def tr2 : Trace :=
  { spans := [(Span.of [("a", .int 5)]), (Span.of [("b", .str "x")])], root := some (Span.of [("a", .int 5)]) }

-- trace scope: two conditions matched by two different spans
example : matchTrace goExt tr2 [{ field := "a", op := .eq, val := .int 5 }, { field := "b", op := .ex }] = true := by decide
-- span scope: no single span has both
example : matchSpan goExt tr2 [{ field := "a", op := .eq, val := .int 5 }, { field := "b", op := .ex }] = false := by decide
-- root. prefix: every span sees the root's `a`
example : matchSpan goExt tr2 [{ field := "root.a", op := .eq, val := .int 5 }, { field := "b", op := .ex }] = true := by decide
-- Fields: first present wins (`b` on the second span, `a` on the first)
example : (extract goExt tr2 (Span.of [("b", .str "x")]) { fields := ["zz", "b", "root.a"], op := .ex }).val = .str "x" := by decide
example : (extract goExt tr2 (Span.of [("a", .int 5)]) { fields := ["zz", "b", "root.a"], op := .ex }) = ⟨.int 5, true, false⟩ := by decide
-- ?.NUM_DESCENDANTS
example : matchTrace goExt tr2 [{ field := "?.NUM_DESCENDANTS", op := .eq, val := .int 2 }] = true := by decide
-- first match wins; drop; rate
example : getSampleRate goExt tr2 (fun _ => none) (fun _ => 0)
    [{ name := "no", rate := 1, drop := false, scope := .trace, conds := [{ field := "zz", op := .ex }] },
     { name := "drop", rate := 1, drop := true, scope := .span, conds := [{ field := "b", op := .ex }] },
     { name := "later", rate := 1, drop := false, scope := .trace, conds := [] }]
    = ⟨1, false, .rule .span "drop", ""⟩ := by decide
example : getSampleRate goExt tr2 (fun _ => none) (fun _ => 3)
    [{ name := "r", rate := 10, drop := false, scope := .trace, conds := [] }] = ⟨10, false, .rule .trace "r", ""⟩ := by decide
example : getSampleRate goExt tr2 (fun _ => none) (fun _ => 0)
    [{ name := "r", rate := 10, drop := false, scope := .trace, conds := [] }] = ⟨10, true, .rule .trace "r", ""⟩ := by decide
example : absentSafe (onZZ .eq .int (.int 5)) = true ∧ absentSafe (onZZ .notIn .int (.int 5)) = false := by decide

/-! ### CheckNestedFields -/

def trN : Trace :=
  { spans := [(Span.of [("a", .int 1)]), (Span.of [("c", .other "M")])], root := none, nested := true,
    maps := [("M", [("status", .int 200), ("x", .other "Mx")]), ("Mx", [("y", .str "deep")])] }

def jsExt : Ext := { goExt with jsonStr := fun v => match v with | .int 200 => "200" | .str s => s | _ => "?" }

-- a dotted path into a nested map (depth 1 and depth 2), only on the span that has it
example : extract jsExt trN (Span.of [("c", .other "M")]) { field := "c.status", op := .ex } = ⟨.str "200", true, false⟩ := by decide
example : extract jsExt trN (Span.of [("c", .other "M")]) { field := "c.x.y", op := .ex } = ⟨.str "deep", true, false⟩ := by decide
example : extract jsExt trN (Span.of [("a", .int 1)]) { field := "c.x.y", op := .ex } = ⟨.nil, false, false⟩ := by decide
-- flat first: a flat field wins over a nested one that comes earlier in Fields
example : extract jsExt trN (Span.of [("c", .other "M"), ("a", .int 1)]) { fields := ["c.status", "a"], op := .ex } = ⟨.int 1, true, false⟩ := by decide
-- no root span: a `root.` field is absent (and nothing panics)
example : extractP jsExt trN (Span.of [("c", .other "M")]) { field := "root.c.status", op := .ex } = some ⟨.nil, false, false⟩ := by decide
-- with the option off the nested value is not looked for
example : extract jsExt { trN with nested := false } (Span.of [("c", .other "M")]) { field := "c.status", op := .ex } = ⟨.nil, false, false⟩ := by decide
-- the typed matcher then sees the JSON text "200"
example : matchTrace jsExt trN [{ field := "c.status", op := .eq, val := .str "200", dt := .str }] = true := by decide

-- two ordinary spans, a span event and a link: ?.NUM_DESCENDANTS is 4, not 2
example : matchTrace goExt { spans := [Span.mk [] .span, Span.mk [] .event, Span.mk [] .link, Span.mk [] .span], root := none }
    [{ field := "?.NUM_DESCENDANTS", op := .gt, val := .int 2, dt := .int }] = true := by decide

end Refinery.Props.C08
