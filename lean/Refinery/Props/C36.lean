import Refinery.Lemmas.Shutdown
/-!
# C36 — graceful shutdown drains buffered traces and stops cleanly  (partial)

Statement (properties.jsonl): on graceful shutdown Refinery stops accepting data, makes a decision
for every trace still buffered and forwards the kept ones, as documented for restarts ("all
in-flight traces will be flushed (sent upstream to Honeycomb)", README §Restarts), flushes every
pending outgoing batch, and exits without panicking or leaving background goroutines running.

What is proved here is the drain logic of the model (`Model/Shutdown.lean`), for every schedule
`ops : List Op` with `stop` / `txstop` at any point, every sampler `keep` and every configuration.
"Without panicking or leaving goroutines running" is about the Go runtime and is observed by the
harness, not proved; the one loop that is modelled (`Agent.healthCheck`, repaired in /repo by
commit 4b2120c, its own flag) is at the end: `healthcheck_exits` is about the code as it is now.

* the code as it is (`fixed = false`) does **not** satisfy the drain statement:
  `stop_decides_all_refuted`; what does hold is `stop_decides_all_partial`,
  `stop_sends_decided_partial`, `stop_accounting_partial`;
* the proposed repair (`fixed = true`) does: `stop_decides_all_fixed`;
* `stop_flushes_batches`, `enqueue_after_stop_*` hold for the code as it is.
-/
namespace Refinery.Props.C36
open Refinery Refinery.Model.Shutdown Refinery.Lemmas.Shutdown

/-! ## The property -/

/-- **stop_decides_all**, full strength: whatever has happened before, once `Stop` has been
requested no worker has anything left (queues, buffers and `tracesToSend` are empty) and every
span the collector accepted has its outcome: it was handed to the transmission iff the sampler
keeps its trace. -/
def StopDecidesAll (fixed : Bool) : Prop :=
  ∀ (c : Cfg) (keep : Nat → Bool) (ops : List Op), c.fixed = fixed →
    (run c keep (ops ++ [.stop])).buf = [] ∧ (run c keep (ops ++ [.stop])).qIn = [] ∧
    (run c keep (ops ++ [.stop])).qPeer = [] ∧ (run c keep (ops ++ [.stop])).toSend = [] ∧
    ∀ x ∈ (run c keep (ops ++ [.stop])).accepted,
      (x ∈ (run c keep (ops ++ [.stop])).handed ↔ keep x.tid = true)

/-- the statement for the code as it is -/
def FullStatement : Prop := StopDecidesAll false

/-- **stop_decides_all (repaired collector)** — with the proposed fix (every worker drains both of
its queues and decides every trace it has buffered before it exits) the full statement holds for
every history, sampler and configuration. -/
theorem stop_decides_all_fixed : StopDecidesAll true := by
  intro c keep ops hf
  have hi := run_inv c keep (ops ++ [.stop])
  have hs : (run c keep (ops ++ [.stop])).stopped = true := by
    rw [run_snoc]; exact stop_sets_stopped c keep _
  exact decided_of_clean hi hs ((hi.stopped hs).2.2.2 hf) (hi.lost hf)

/-- the witness: one span of a trace the sampler keeps arrives, then `Stop` -/
def witnessOps : List Op := [.span 1 0 false { sid := 1, tid := 1, dest := 0, root := true }, .stop]

/-- **stop_decides_all is refuted for the code as it is**: a buffered trace the sampler would keep
is still buffered and undecided after `Stop`, its span is never handed to the transmission —
contradicting "all in-flight traces will be flushed (sent upstream to Honeycomb)". -/
theorem stop_decides_all_refuted : ¬ FullStatement := by
  intro h
  have := (h {} (fun _ => true) [.span 1 0 false { sid := 1, tid := 1, dest := 0, root := true }] rfl).1
  revert this
  decide

/-- the refutation under the name BUILDING.md asks for -/
theorem full_statement_refuted : ¬ FullStatement := stop_decides_all_refuted

/-- the same history under the repaired collector: decided, forwarded, dispatched on `txstop` -/
example : (run { fixed := true } (fun _ => true) witnessOps).buf = [] ∧
    (run { fixed := true } (fun _ => true) witnessOps).handed = [{ sid := 1, tid := 1, dest := 0, root := true }] := by
  decide

/-- second witness class: a span accepted while its worker is busy is still in `incoming` when
`Stop` closes the channel and is never read — even when its trace has already been decided `keep` -/
theorem queued_span_lost_witness :
    ∃ (c : Cfg) (keep : Nat → Bool) (ops : List Op) (x : Span), c.fixed = false ∧
      x ∈ (run c keep (ops ++ [.stop])).accepted ∧ keep x.tid = true ∧
      x ∉ (run c keep (ops ++ [.stop])).handed ∧ x ∈ (run c keep (ops ++ [.stop])).lost :=
  ⟨{ nw := 2 }, fun _ => true, [.hold 0, .span 1 0 false { sid := 1, tid := 1, dest := 0, root := false }],
    { sid := 1, tid := 1, dest := 0, root := false }, rfl, by decide, rfl, by decide, by decide⟩

section partial_
variable (c : Cfg) (keep : Nat → Bool)

/-- **stop_decides_all, the part that holds for the code as it is** — if at the moment `Stop` is
requested (for the first time) no trace is buffered and no span is waiting in a worker's queue,
then afterwards every accepted span has its outcome (forwarded iff kept); in particular
everything already decided and waiting in `tracesToSend` is forwarded before `Stop` returns. -/
theorem stop_decides_all_partial (ops : List Op) (hf : c.fixed = false) (hns : ∀ o ∈ ops, o.isStop = false)
    (hb : (run c keep ops).buf = []) (hq : (run c keep ops).qIn = []) (hp : (run c keep ops).qPeer = []) :
    (run c keep (ops ++ [.stop])).buf = [] ∧ (run c keep (ops ++ [.stop])).qIn = [] ∧
    (run c keep (ops ++ [.stop])).qPeer = [] ∧ (run c keep (ops ++ [.stop])).toSend = [] ∧
    ∀ x ∈ (run c keep (ops ++ [.stop])).accepted,
      (x ∈ (run c keep (ops ++ [.stop])).handed ↔ keep x.tid = true) := by
  have hi := run_inv c keep (ops ++ [.stop])
  have hs : (run c keep (ops ++ [.stop])).stopped = true := by
    rw [run_snoc]; exact stop_sets_stopped c keep _
  obtain ⟨h0, hl0⟩ := nostop_fold c keep ops hns init rfl rfl
  have h0' : ¬ (run c keep ops).stopped = true := by
    intro h; unfold run at h; rw [h0] at h; cases h
  have hbody : run c keep (ops ++ [.stop]) = stopBody c keep (run c keep ops) := by
    rw [run_snoc]; simp only [step]; rw [if_neg h0']
  obtain ⟨cb, cl⟩ := stopBody_clean c keep (run c keep ops) (run_inv c keep ops).good hf hb hq hp
  apply decided_of_clean hi hs
  · rw [hbody]; exact cb
  · rw [hbody, cl]; exact hl0

/-- **traces already in `tracesToSend` are sent** (code as it is and repaired): whatever happened
before, after `Stop` the queue of decided traces is empty and every span of every trace that was
waiting in it has been handed to the transmission. -/
theorem stop_sends_decided_partial (ops : List Op) :
    (run c keep (ops ++ [.stop])).toSend = [] ∧
    ∀ t ∈ (run c keep ops).toSend, ∀ x ∈ t.spans, x ∈ (run c keep (ops ++ [.stop])).handed := by
  have hi := run_inv c keep (ops ++ [.stop])
  have hs : (run c keep (ops ++ [.stop])).stopped = true := by
    rw [run_snoc]; exact stop_sets_stopped c keep _
  refine ⟨(hi.stopped hs).2.2.1, ?_⟩
  intro t ht x hx
  by_cases h0 : (run c keep ops).stopped = true
  · rw [((run_inv c keep ops).stopped h0).2.2.1] at ht; cases ht
  · have hbody : run c keep (ops ++ [.stop]) = stopBody c keep (run c keep ops) := by
      rw [run_snoc]; simp only [step]; rw [if_neg h0]
    rw [hbody]
    have hm := stop_toSend_mono c keep (run c keep ops) t ht
    show x ∈ (drain c (stopBuf c keep (stopIn c keep (stopPeer c keep (run c keep ops))))).handed
    unfold drain
    exact (handAll_hands c _ _).1 x (List.mem_flatMap.mpr ⟨t, hm, hx⟩)

/-- **accounting after `Stop`, any variant**: every accepted span is either handed to the
transmission (and its trace is kept), discarded (its trace is dropped), thrown away unread from
a closed `incoming` queue, or still sitting in a buffered, undecided trace. For the repaired
collector the last two cases are empty (`stop_decides_all_fixed`). -/
theorem stop_accounting_partial (ops : List Op) :
    ∀ x ∈ (run c keep (ops ++ [.stop])).accepted,
      (x ∈ (run c keep (ops ++ [.stop])).handed ∧ keep x.tid = true) ∨
      (x ∈ (run c keep (ops ++ [.stop])).discarded ∧ keep x.tid = false) ∨
      x ∈ (run c keep (ops ++ [.stop])).lost ∨
      ∃ t ∈ (run c keep (ops ++ [.stop])).buf, x ∈ t.spans := by
  have hi := run_inv c keep (ops ++ [.stop])
  have hs : (run c keep (ops ++ [.stop])).stopped = true := by
    rw [run_snoc]; exact stop_sets_stopped c keep _
  obtain ⟨hq, hp, ht, _⟩ := hi.stopped hs
  intro x hx
  have hsw := hi.acc x hx
  unfold Somewhere at hsw
  rw [hq, hp, ht] at hsw
  rcases hsw with ⟨_, h, _⟩ | ⟨_, h, _⟩ | h | ⟨_, h, _⟩ | h | h | h
  · cases h
  · cases h
  · exact Or.inr (Or.inr (Or.inr h))
  · cases h
  · exact Or.inl ⟨h, hi.good.handed x h⟩
  · exact Or.inr (Or.inl ⟨h, hi.good.disc x h⟩)
  · exact Or.inr (Or.inr (Or.inl h))

/-- **stop_flushes_batches** — every event the transmission accepted before `Stop` is in a
dispatched batch afterwards and nothing is pending, and this stays true whatever happens later. -/
theorem stop_flushes_batches (ops ops' : List Op) :
    (run c keep (ops ++ [.txstop] ++ ops')).tx.pending = [] ∧
    ∀ e ∈ (run c keep (ops ++ [.txstop])).tx.acc,
      ∃ b ∈ (run c keep (ops ++ [.txstop] ++ ops')).tx.sent, e ∈ b.2 := by
  have hst : (run c keep (ops ++ [.txstop])).tx.stopped = true := by
    rw [run_snoc]; exact stop_stopped _
  have hst' : (run c keep (ops ++ [.txstop] ++ ops')).tx.stopped = true := by
    rw [run_append]
    exact fold_tx c keep (fun t => t.stopped = true) (fun t d e h => enqueue_stopped c t d e h)
      (fun t ns h => tick_stopped c t ns h) (fun t h => stop_keeps_stopped t h) ops' _ hst
  have hinv := run_txinv c keep (ops ++ [.txstop] ++ ops')
  have hp := hinv.stopped hst'
  refine ⟨hp, ?_⟩
  intro e he
  -- the accepted list only grows
  have hmono : e ∈ (run c keep (ops ++ [.txstop] ++ ops')).tx.acc := by
    rw [run_append]
    exact fold_tx c keep (fun t => e ∈ t.acc)
      (fun t d e' h => by
        unfold Tx.enqueue
        split
        · split <;> exact h
        · split <;> exact List.mem_append_left _ h)
      (fun t ns h => by unfold Tx.tick; split <;> exact h)
      (fun t h => by unfold Tx.stop; split <;> exact h) ops' _ he
  rcases hinv.acc e hmono with hb | ⟨p, hpm, _⟩
  · exact hb
  · rw [hp] at hpm; cases hpm

/-- **enqueue_after_stop (transmission)** — `EnqueueEvent` on a stopped `DirectTransmission` never
returns normally: the first call panics on the nil `eventBatches` map while holding
`batchMutex`, which is never released, every later call blocks on that mutex for ever; the event
is neither batched nor dispatched. -/
theorem enqueue_after_stop_tx (t : Tx) (d e : Nat) (h : t.stopped = true) :
    (t.enqueue c d e).2 = (if t.locked then EnqOut.blocked else EnqOut.panic) ∧
    (t.enqueue c d e).1.locked = true ∧ (t.enqueue c d e).1.stopped = true ∧
    (t.enqueue c d e).1.sent = t.sent ∧ (t.enqueue c d e).1.pending = t.pending ∧
    (t.enqueue c d e).1.acc = t.acc := by
  unfold Tx.enqueue
  rw [if_pos h]
  by_cases hl : t.locked = true
  · rw [if_pos hl, if_pos hl]; exact ⟨rfl, hl, h, rfl, rfl, rfl⟩
  · rw [if_neg hl, if_neg hl]; exact ⟨rfl, rfl, h, rfl, rfl, rfl⟩

/-- in terms of histories: after `txstop`, however the run continues, an `ev` is answered by a panic or blocks -/
theorem enqueue_after_stop_run (ops ops' : List Op) (sid dest : Nat) :
    (step c keep (run c keep (ops ++ [.txstop] ++ ops')) (.ev sid dest)).2 = .enq .panic ∨
    (step c keep (run c keep (ops ++ [.txstop] ++ ops')) (.ev sid dest)).2 = .enq .blocked := by
  have hst : (run c keep (ops ++ [.txstop])).tx.stopped = true := by
    rw [run_snoc]; exact stop_stopped _
  have hst' : (run c keep (ops ++ [.txstop] ++ ops')).tx.stopped = true := by
    rw [run_append]
    exact fold_tx c keep (fun t => t.stopped = true) (fun t d e h => enqueue_stopped c t d e h)
      (fun t ns h => tick_stopped c t ns h) (fun t h => stop_keeps_stopped t h) ops' _ hst
  have := (enqueue_after_stop_tx c _ dest sid hst').1
  simp only [step]
  rw [this]
  split
  · exact Or.inr rfl
  · exact Or.inl rfl

/-- **enqueue_after_stop (collector)** — `AddSpan` on a stopped collector panics (send on a closed
channel); the span is not accepted and nothing but the clock changes. -/
theorem span_after_stop (s : St) (dt w : Nat) (peer : Bool) (sp : Span) (h : s.stopped = true) :
    (step c keep s (.span dt w peer sp)).2 = .panic ∧
    (step c keep s (.span dt w peer sp)).1 = { s with now := s.now + dt } := by
  show (spanOp c keep s dt w peer sp).2 = .panic ∧ (spanOp c keep s dt w peer sp).1 = _
  unfold spanOp
  rw [if_pos h]
  exact ⟨rfl, rfl⟩

end partial_

/-! ## The stop sequence -/

/-- **stop_sequence_runs_all** — for every configuration (the stop order of its object graph is
`order`) and whatever is in flight on the listener, as long as it completes within the router's
shutdown grace period, `startstop.Stop` calls the `Stop` of every component, in order, and reports
no error: the collector is drained and both transmissions are flushed also when shutdown is
requested in the middle of a client upload.  (That no `Stop` panics — e.g. the config watcher's with
OpAMP enabled, where `Start` returns before subscribing — is observed on the real graph for every
configuration, not proved.) -/
theorem stop_sequence_runs_all (grace : Nat) (finishIn : Option Nat) (order : List Comp)
    (h : ∀ d, finishIn = some d → d ≤ grace) : stopSeq grace finishIn order = (order, false) := by
  have hok : ∀ c, compStopOk grace finishIn c = true := by
    intro c
    cases c <;> simp [compStopOk]
    cases finishIn with
    | none => rfl
    | some d => simpa using h d rfl
  induction order with
  | nil => rfl
  | cons c rest ih => simp [stopSeq, hok c, ih]

/-- with a grace period that is already over (60 ns instead of 60 s) a request in flight aborts the
sequence at the router: the collector and the transmissions are never stopped -/
theorem stop_sequence_aborts_when_grace_too_short :
    stopSeq 60 (some 300000000) stopOrder = ([.app, .incomingRouter], true) := by decide

example : (stopSeq 60000000000 (some 300000000) stopOrder).1.length = 14 := by decide

/-! ## The shutdown flush and `Retry-After` -/

/-- **stop_flush_honours_retry_after** (the code as it is: the wait before the one retry is
`Clock.Sleep`, on which `Stop` has no influence) — for every history of enqueues and clock
advances, every batch size and every rate-limited upstream that announces `Retry-After` r with
0 < r < 60 s and accepts from then on: when `Stop` returns nothing is pending, no batch is still
asleep, no batch was dropped, no retry reached the upstream before the announced instant, and every
event the transmission accepted — pending at `Stop` or in a batch already sleeping on its
`Retry-After` when `Stop` was called — has been delivered.  (That it is delivered once only is
checked on the implementation by the monitor.) -/
theorem stop_flush_honours_retry_after (c : RCfg) (hr : 0 < c.r ∧ c.r < 60) (hw : c.stopWakes = false)
    (ops : List ROp) :
    (rrun c (ops ++ [.stop])).pending = [] ∧ (rrun c (ops ++ [.stop])).sleeping = [] ∧
    (rrun c (ops ++ [.stop])).dropped = [] ∧ (rrun c (ops ++ [.stop])).early = 0 ∧
    ∀ e ∈ (rrun c (ops ++ [.stop])).acc, ∃ b ∈ (rrun c (ops ++ [.stop])).delivered, e ∈ b.2 := by
  have hi := rrun_inv c hr (ops ++ [.stop]) hw
  have hst : (rrun c (ops ++ [.stop])).stopped = true := by
    have : rrun c (ops ++ [.stop]) = (rrun c ops).stop c := by simp [rrun, List.foldl_append, rstep]
    rw [this]; exact (rstop_inv c hr _ hw (rrun_inv c hr ops hw)).2
  obtain ⟨hp, hs⟩ := hi.stopped hst
  refine ⟨hp, hs, hi.core.dropped, hi.core.early, ?_⟩
  intro e he
  rcases hi.acc e he with hb | ⟨p, hpm, _⟩ | ⟨b, hbm, _⟩
  · exact hb
  · rw [hp] at hpm; cases hpm
  · rw [hs] at hbm; cases hbm

/-- in every reachable state: no retry before the announced instant, no batch given up -/
theorem retry_waits_full_interval (c : RCfg) (hr : 0 < c.r ∧ c.r < 60) (hw : c.stopWakes = false)
    (ops : List ROp) : (rrun c ops).early = 0 ∧ (rrun c ops).dropped = [] :=
  ⟨(rrun_inv c hr ops hw).core.early, (rrun_inv c hr ops hw).core.dropped⟩

/-- **refuted for a wait that `Stop` cuts short** (`select { case <-Clock.After(d): case <-d.stop: }`):
one event pending for a rate-limited destination, `Stop`: the flush batch is refused, retried at
once, refused again and dropped. -/
theorem stop_flush_interruptible_wait_refuted :
    ¬ ∀ (c : RCfg), 0 < c.r ∧ c.r < 60 → ∀ ops : List ROp,
      (rrun c (ops ++ [.stop])).dropped = [] ∧ (rrun c (ops ++ [.stop])).early = 0 := by
  intro h
  have := h { mb := 2, r := 5, lim := [0], stopWakes := true } (by decide) [.ev 1 0]
  revert this
  decide

-- a batch already asleep on its Retry-After when Stop is called, and one pending: both delivered
example : (rrun { mb := 2, r := 5, lim := [0] } [.ev 1 0, .ev 2 0, .adv 2, .ev 3 0, .stop]).delivered =
    [(0, [1, 2]), (0, [3])] := by decide
example : (rrun { mb := 2, r := 5, lim := [0] } [.ev 1 0, .ev 2 0, .adv 2, .ev 3 0]).sleeping.length = 1 := by decide

/-! ## `Stop`'s order: no producer sends on `tracesToSend` after it has been closed -/

/-- **no_send_after_close** (the coded order: close the inputs, wait for the workers, close
`tracesToSend`, wait for the sender) — for every set of workers and every interleaving of worker
steps (passes starting at any time before the worker exits, hand-overs, exits) with `Stop`'s
phases, no worker ever sends on the closed channel: `Stop` cannot panic a worker that is between a
keep decision and the hand-over, and the trace it is handing over reaches `tracesToSend`. -/
theorem no_send_after_close (workers : List Nat) (evs : List PEv) :
    (prun codedOrder workers evs).violated = false :=
  (pinv_run workers evs).ok

/-- and `tracesToSend` is closed only once every worker has exited -/
theorem close_after_workers (workers : List Nat) (evs : List PEv)
    (h : (prun codedOrder workers evs).outClosed = true) : (prun codedOrder workers evs).live = [] :=
  (pinv_run workers evs).gone ((pinv_run workers evs).closed h)

/-- **refuted for the swapped order** (close `tracesToSend` right after the inputs, then wait for
the workers): a worker inside a pass with one kept trace, `Stop` runs its first two phases, the
worker reaches `i.tracesToSend <- trace` — send on closed channel. -/
theorem no_send_after_close_swapped_refuted :
    ¬ ∀ (workers : List Nat) (evs : List PEv), (prun swappedOrder workers evs).violated = false := by
  intro h
  have := h [0] [.pass 0 1, .stop, .stop, .work 0]
  revert this
  decide

/-- the coded order does make progress on that very interleaving: the worker hands over, exits, Stop finishes -/
example : (prun codedOrder [0] [.pass 0 1, .stop, .stop, .work 0, .work 0, .stop, .stop, .stop]).pc = 4 ∧
    (prun codedOrder [0] [.pass 0 1, .stop, .stop, .work 0, .work 0, .stop, .stop, .stop]).violated = false := by
  decide

section tickstop_
variable (c : Cfg) (keep : Nat → Bool)

/-- **Stop landing inside a decision pass, accounting** (code as it is and repaired): after a tick
during which `Stop` was requested, the collector is stopped, `tracesToSend` is empty and every
accepted span is handed over (kept), discarded (dropped), lost from a queue or still buffered —
in particular every trace decided `keep` in that very pass has been handed to the transmission. -/
theorem tickstop_accounting_partial (ops : List Op) (ns : Nat) :
    (run c keep (ops ++ [.tickstop ns])).toSend = [] ∧
    ∀ x ∈ (run c keep (ops ++ [.tickstop ns])).accepted,
      (x ∈ (run c keep (ops ++ [.tickstop ns])).handed ∧ keep x.tid = true) ∨
      (x ∈ (run c keep (ops ++ [.tickstop ns])).discarded ∧ keep x.tid = false) ∨
      x ∈ (run c keep (ops ++ [.tickstop ns])).lost ∨
      ∃ t ∈ (run c keep (ops ++ [.tickstop ns])).buf, x ∈ t.spans := by
  have hi := run_inv c keep (ops ++ [.tickstop ns])
  by_cases h0 : (run c keep ops).stopped = true
  · have hs : (run c keep (ops ++ [.tickstop ns])).stopped = true := by
      rw [run_snoc]; simp only [step]; rw [if_pos h0]; exact h0
    obtain ⟨hq, hp, ht, _⟩ := hi.stopped hs
    refine ⟨ht, ?_⟩
    intro x hx
    have hsw := hi.acc x hx
    unfold Somewhere at hsw
    rw [hq, hp, ht] at hsw
    rcases hsw with ⟨_, h, _⟩ | ⟨_, h, _⟩ | h | ⟨_, h, _⟩ | h | h | h
    · cases h
    · cases h
    · exact Or.inr (Or.inr (Or.inr h))
    · cases h
    · exact Or.inl ⟨h, hi.good.handed x h⟩
    · exact Or.inr (Or.inl ⟨h, hi.good.disc x h⟩)
    · exact Or.inr (Or.inr (Or.inl h))
  · have hs : (run c keep (ops ++ [.tickstop ns])).stopped = true := by
      rw [run_snoc]; simp only [step]; rw [if_neg h0]; rfl
    obtain ⟨hq, hp, ht, _⟩ := hi.stopped hs
    refine ⟨ht, ?_⟩
    intro x hx
    have hsw := hi.acc x hx
    unfold Somewhere at hsw
    rw [hq, hp, ht] at hsw
    rcases hsw with ⟨_, h, _⟩ | ⟨_, h, _⟩ | h | ⟨_, h, _⟩ | h | h | h
    · cases h
    · cases h
    · exact Or.inr (Or.inr (Or.inr h))
    · cases h
    · exact Or.inl ⟨h, hi.good.handed x h⟩
    · exact Or.inr (Or.inl ⟨h, hi.good.disc x h⟩)
    · exact Or.inr (Or.inr (Or.inl h))

end tickstop_

-- Stop lands while worker 0 hands over a kept trace: the trace is forwarded, worker 1 never ticks
example : (run { nw := 2, tt := 5, sd := 2, mb := 9 } (fun _ => true)
    [.span 1 0 false ⟨1, 1, 0, true⟩, .span 1 1 false ⟨2, 2, 0, true⟩, .tickstop 3]).handed = [⟨1, 1, 0, true⟩] ∧
    ((run { nw := 2, tt := 5, sd := 2, mb := 9 } (fun _ => true)
    [.span 1 0 false ⟨1, 1, 0, true⟩, .span 1 1 false ⟨2, 2, 0, true⟩, .tickstop 3]).buf.map (·.tid)) = [2] := by
  decide

/-! ## `Agent.healthCheck` after `cancel()` -/

/-- **healthcheck_exits** (the code as it is now, commit 4b2120c): whatever the loop sees, once a
cancellation is among it the goroutine has exited — `Agent.Stop` leaves no health-check goroutine. -/
theorem healthcheck_exits (evs : List HcEv) (h : HcEv.done ∈ evs) : hcRun true evs = .exited := by
  unfold hcRun
  induction evs with
  | nil => cases h
  | cons e l ih =>
    cases e with
    | done => exact hc_exited_stays true l
    | tick =>
      have : HcEv.done ∈ l := by simpa using h
      exact ih this

/-- without a cancellation the loop keeps running (ticks alone never end it) -/
theorem healthcheck_runs_until_cancel (evs : List HcEv) (h : HcEv.done ∉ evs) : hcRun true evs = .running := by
  unfold hcRun
  induction evs with
  | nil => rfl
  | cons e l ih =>
    cases e with
    | done => exact absurd (by simp) h
    | tick => exact ih (fun hm => h (by simp [hm]))

/-- **agent_goroutines_exit_after_stop** — once `Agent.Stop` has cancelled the context, each of the
agent's background loops reaches `exited` within a bounded number of its own steps (6 for
`reportUsagePeriodically`, 1 for `healthCheck`), without ever being blocked on the way: from every
state (idle, sending, waiting for a pending message, waiting for the send to complete — with or
without a tick still queued), for every outcome script of the OpAMP client (accepted, pending and
never sent, pending then sent, failing) and whichever ready `select` case the runtime picks. -/
theorem agent_goroutines_exit_after_stop (s : USt) (choices : List Bool) (h : 6 ≤ choices.length) :
    (urun choices s.stop).loc = .exited ∧ hcStep true .running .done = .exited :=
  ⟨urun_exits choices s.stop rfl (Nat.le_trans (mu_le _) h), rfl⟩

/-- while nothing cancels it the loop never exits (non-vacuity of the statement above) -/
theorem usage_loop_runs_until_stop (ch : Bool) (s s' : USt) (hc : s.cancelled = false)
    (h : ustep ch s = some s') : s'.loc ≠ .exited := by
  obtain ⟨loc, tick, cancelled, chClosed, cur, last, script, calls⟩ := s
  simp only at hc; subst hc
  cases loc <;> simp [ustep] at h
  all_goals obtain ⟨_, rfl⟩ := h
  · cases cur <;> cases last <;> simp [sendReport, USt.nextOut, USt.called] <;>
      (cases script with
        | nil => simp
        | cons o r => cases o <;> simp)
  · simp [retrySend, USt.nextOut, USt.called]
    cases script with
    | nil => simp
    | cons o r => cases o <;> simp
  · simp

/-- OLD VARIANT ONLY (the loop before commit 4b2120c, `fixed = false`; not the current code):
with the empty `ctx.Done()` case the loop never exited, whatever it saw — the recorded, now fixed,
finding `C36:agent-healthcheck-spins-after-cancel`. -/
theorem healthcheck_never_exits_before_4b2120c (evs : List HcEv) : hcRun false evs = .running := by
  unfold hcRun
  induction evs with
  | nil => rfl
  | cons e l ih => cases e <;> exact ih

/-! Non-vacuity: concrete histories, evaluated by the kernel. -/
-- a kept trace decided by a tick, forwarded by sendTraces, flushed by the transmission's Stop
example : (run { tt := 5, sd := 2, mb := 3 } (fun _ => true)
    [.span 1 0 false ⟨1, 1, 0, true⟩, .tick 3, .stop, .txstop]).tx.sent = [(0, [1])] := by decide
-- decided but not yet forwarded when Stop is requested: Stop drains tracesToSend
example : (run { tt := 5, sd := 2, mb := 3 } (fun _ => true)
    [.span 1 0 false ⟨1, 1, 0, true⟩, .tick 3, .stop]).handed = [⟨1, 1, 0, true⟩] := by decide
-- not yet due when Stop is requested: left in the buffer (code as it is)
example : ((run { tt := 5, sd := 2, mb := 3 } (fun _ => true)
    [.span 1 0 false ⟨1, 1, 0, true⟩, .tick 1, .stop]).buf.map (·.tid)) = [1] := by decide
-- enqueue after the transmission's Stop: panic, then blocked
example : ((step {} (fun _ => true) (run {} (fun _ => true) [.txstop]) (.ev 7 0)).2,
    (step {} (fun _ => true) (run {} (fun _ => true) [.txstop, .ev 7 0]) (.ev 8 0)).2) =
    (Out.enq .panic, Out.enq .blocked) := by decide
-- the seeded history: report pending, OpAMP server never answers, Stop: the loop still leaves
example : (urun [true, true, true, true, true, true]
    ((urun [true] ({ cur := true, script := [.pend false] } : USt).ticked).stop)).loc = .exited := by decide
example : (urun [true] ({ cur := true, script := [.pend false] } : USt).ticked).loc = .waitPending := by decide
-- a late span of a dropped trace is discarded, one of a kept trace goes straight to the transmission
example : (run { tt := 5, sd := 2, mb := 9 } (fun t => t == 1)
    [.span 1 0 false ⟨1, 1, 0, true⟩, .span 1 0 false ⟨2, 2, 0, true⟩, .tick 3, .span 1 0 false ⟨3, 1, 0, false⟩,
     .span 1 0 false ⟨4, 2, 0, false⟩]).handed = [⟨3, 1, 0, false⟩] := by decide

end Refinery.Props.C36
