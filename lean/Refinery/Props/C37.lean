import Refinery.Model.Proxy
/-!
# C37 — unhandled paths are proxied to Honeycomb faithfully

Statement (properties.jsonl): requests on paths Refinery does not handle itself are relayed to
the Honeycomb API with the same method, path, query, body and header values (plus
X-Forwarded-For), and the upstream status, headers and body are returned to the client unchanged.
Quantifier: all methods, paths, query strings, bodies and header sets, and all upstream responses.

"Same header value" on the request side is equality of *field values* in the sense of RFC 7230
§3.2.2: the values of all lines with one name combined with commas (`fieldValue`).  The handler
turns every request header into a single comma-joined line, which leaves that field value
unchanged.  On the response side the handler (since commit ceac3fa) relays every header line for
line, so the one header for which the combined field value is **not** the meaning of the lines,
`Set-Cookie`, is preserved too: that is the separate proposition `SetCookiePreserved`, proved below
(it was refuted for the code before the repair).  Likewise `XffAllLines` (every X-Forwarded-For
line is kept, commit 1274516) is now proved.

Two parts of the statement still do not hold for the code as it is (each reproduced on the real
code by the harness); they are kept as propositions and refuted with witnesses:

* `AlwaysRelayed`            — a path with an empty / `.` / `..` segment is answered 301 by the mux;
* `UpstreamResponseReturned` — the proxy's `http.Client` follows 301/302/303/307/308 itself.

What does hold is proved for all requests, responses and upstreams.
-/
namespace Refinery.Props.C37
open Refinery Refinery.Model.Proxy

/-! ## Header copying -/

/-- What a header copy loop leaves under each name: the joined line for names of the source, the
previous content for all other names. -/
theorem get_copyHeaders (src dst : Headers) (hn : AList.NoDupKeys src) (n : String) :
    AList.get (copyHeaders src dst) n =
      match AList.get src n with
      | some vs => some [joinVals vs]
      | none => AList.get dst n := by
  induction src generalizing dst with
  | nil => simp [copyHeaders]
  | cons kv t ih =>
    obtain ⟨k, v⟩ := kv
    simp only [AList.NoDupKeys, AList.keys, List.map_cons, List.nodup_cons] at hn
    have ih' := ih (AList.put dst k [joinVals v]) hn.2
    simp only [copyHeaders, List.foldl_cons] at ih' ⊢
    rw [ih', AList.get_cons, AList.get_put]
    by_cases h : k = n
    · subst h
      have : AList.get t k = none := (AList.get_eq_none_iff t k).mpr hn.1
      simp [this]
    · simp [h]

theorem fieldValue_joined (vs : List String) : fieldValue (some [joinVals vs]) = fieldValue (some vs) := by
  simp [fieldValue, joinVals, joinSep]

/-- What the line-for-line copy loop leaves under each name: the source's lines for names of the
source, the previous content for all other names. -/
theorem get_copyLines (src dst : Headers) (hn : AList.NoDupKeys src) (n : String) :
    AList.get (copyLines src dst) n =
      match AList.get src n with
      | some vs => some vs
      | none => AList.get dst n := by
  induction src generalizing dst with
  | nil => simp [copyLines]
  | cons kv t ih =>
    obtain ⟨k, v⟩ := kv
    simp only [AList.NoDupKeys, AList.keys, List.map_cons, List.nodup_cons] at hn
    have ih' := ih (AList.put dst k v) hn.2
    simp only [copyLines, List.foldl_cons] at ih' ⊢
    rw [ih', AList.get_cons, AList.get_put]
    by_cases h : k = n
    · subst h
      have : AList.get t k = none := (AList.get_eq_none_iff t k).mpr hn.1
      simp [this]
    · simp [h]

theorem joinSep_snoc (sep : String) (l : List String) (x : String) (h : l ≠ []) :
    joinSep sep (l ++ [x]) = joinSep sep l ++ sep ++ x := by
  induction l with
  | nil => exact absurd rfl h
  | cons v t ih =>
    cases t with
    | nil => simp [joinSep]
    | cons w t' =>
      have := ih (by simp)
      simp only [List.cons_append, joinSep] at this ⊢
      rw [this]
      simp [String.append_assoc]

theorem joinSep_comma_space_eq_empty (vs : List String) :
    joinSep ", " vs = "" ↔ vs = [] ∨ vs = [""] := by
  match vs with
  | [] => simp [joinSep]
  | [v] => simp [joinSep]
  | v :: w :: t =>
    simp only [joinSep]
    constructor
    · intro h
      have := congrArg String.toList h
      have hs : (", " : String).toList = [',', ' '] := rfl
      simp [String.toList_append, hs] at this
    · intro h; simp at h

/-- every header of the upstream request, by name -/
theorem relay_header (target : String) (r : Req) (hn : AList.NoDupKeys r.headers) (n : String) :
    AList.get (relay target r).headers n =
      if xffName = n then some [xffValue r]
      else (AList.get r.headers n).map (fun vs => [joinVals vs]) := by
  simp only [relay]
  rw [AList.get_put, get_copyHeaders _ _ hn]
  by_cases h : xffName = n
  · simp [h]
  · simp only [h, if_false]
    cases AList.get r.headers n <;> simp

/-! ## Request side -/

theorem xff_calc (o : Option (List String)) (ra : String) :
    (if joinSep ", " (o.getD []) != "" then joinSep ", " (o.getD []) ++ ", " ++ ra else ra) =
      joinSep ", " ((match o with
        | none => []
        | some vs => if vs = [""] then [] else vs) ++ [ra]) := by
  cases o with
  | none => simp [joinSep]
  | some vs =>
    simp only [Option.getD_some]
    by_cases h1 : vs = [""]
    · simp [h1, joinSep]
    · by_cases h0 : vs = []
      · simp [h0, joinSep]
      · have hne : joinSep ", " vs ≠ "" := fun e =>
          ((joinSep_comma_space_eq_empty vs).mp e).elim h0 h1
        simp only [h1, if_false, bne_iff_ne, ne_eq, hne, not_false_eq_true, if_true]
        rw [joinSep_snoc _ _ _ h0]

/-- **X-Forwarded-For, every line kept** — for every request the upstream gets one
X-Forwarded-For line: all the client's X-Forwarded-For lines in order, then the remote address,
separated by ", ". -/
theorem xff_all_lines (target : String) (r : Req) (hn : AList.NoDupKeys r.headers) :
    AList.get (relay target r).headers xffName =
      some [joinSep ", " (xffLines r.headers ++ [r.remoteAddr])] := by
  rw [relay_header target r hn xffName, if_pos rfl]
  exact congrArg (fun x => some [x]) (xff_calc (AList.get r.headers xffName) r.remoteAddr)

/-- **request_preserved** — for every request, the request handed to the upstream has the same
method, the URL `configured address ++ path ++ ?query`, the same body; for every header name other
than X-Forwarded-For the same field value (absent iff absent); and X-Forwarded-For = every line the
client sent + the remote address. -/
theorem request_preserved (target : String) (r : Req) (hn : AList.NoDupKeys r.headers) :
    (relay target r).method = r.method ∧
    (relay target r).url = target ++ urlString r ∧
    (relay target r).body = r.body ∧
    (∀ n, n ≠ xffName →
      fieldValue (AList.get (relay target r).headers n) = fieldValue (AList.get r.headers n)) ∧
    AList.get (relay target r).headers xffName =
      some [joinSep ", " (xffLines r.headers ++ [r.remoteAddr])] := by
  refine ⟨rfl, rfl, rfl, ?_, xff_all_lines target r hn⟩
  intro n hne
  rw [relay_header target r hn n, if_neg (fun h => hne h.symm)]
  cases AList.get r.headers n with
  | none => rfl
  | some vs => exact fieldValue_joined vs

/-- No header is invented: every header of the upstream request is X-Forwarded-For or a header
the client sent. -/
theorem request_no_header_added (target : String) (r : Req) (hn : AList.NoDupKeys r.headers)
    (n : String) (h : (AList.get (relay target r).headers n).isSome) :
    n = xffName ∨ (AList.get r.headers n).isSome := by
  rw [relay_header target r hn n] at h
  by_cases hx : xffName = n
  · exact Or.inl hx.symm
  · right
    simp only [hx, if_false] at h
    cases hg : AList.get r.headers n <;> simp_all

theorem splitQ_append (l₁ l₂ : List Char) (h : '?' ∉ l₁) :
    splitQ (l₁ ++ l₂) = (l₁ ++ (splitQ l₂).1, (splitQ l₂).2) := by
  induction l₁ with
  | nil => simp
  | cons c t ih =>
    have hc : c ≠ '?' := fun e => h (e ▸ List.mem_cons_self)
    have ht : '?' ∉ t := fun m => h (List.mem_cons_of_mem _ m)
    simp [splitQ, hc, ih ht]

/-- **request_preserved (path and query)** — the URL the handler builds by string concatenation
splits back, at the receiving server, into exactly the client's path and query (a bare `?` stays a
bare `?`, no `?` stays none). -/
theorem url_splits_back (r : Req) (hp : '?' ∉ r.path.toList) :
    splitTarget (urlString r) =
      (r.path, if r.forceQuery || r.rawQuery != "" then some r.rawQuery else none) := by
  unfold splitTarget urlString
  by_cases hc : (r.forceQuery || r.rawQuery != "") = true
  · simp only [hc, if_true, String.toList_append]
    rw [splitQ_append _ _ hp]
    have : ("?" : String).toList = ['?'] := rfl
    simp [this, splitQ, String.ofList_toList]
  · simp only [hc, Bool.false_eq_true, if_false, String.toList_append]
    rw [splitQ_append _ _ hp]
    have : ("" : String).toList = [] := rfl
    simp [this, splitQ, String.ofList_toList]

/-- The property's X-Forwarded-For clause at full strength: every line the client sent, then the
remote address. -/
def XffAllLines : Prop :=
  ∀ (target : String) (r : Req), AList.NoDupKeys r.headers →
    AList.get (relay target r).headers xffName =
      some [joinSep ", " (xffLines r.headers ++ [r.remoteAddr])]

/-- Holds since commit 1274516 (it was refuted before: only the first line survived). -/
theorem xff_all_lines_holds : XffAllLines := xff_all_lines

def xffWitness : Req :=
  { method := "GET", path := "/1/auth", dpath := "/1/auth", rawQuery := "", forceQuery := false,
    headers := [("X-Forwarded-For", ["203.0.113.7", "198.51.100.23"])], body := "",
    remoteAddr := "10.0.0.9:4711" }

example : AList.get (relay "http://api" xffWitness).headers xffName
    = some ["203.0.113.7, 198.51.100.23, 10.0.0.9:4711"] := by decide
example : AList.get (relay "http://api" { xffWitness with headers := [] }).headers xffName
    = some ["10.0.0.9:4711"] := by decide

/-! ## Response side -/

/-- **response_preserved** — for every response the HTTP client returns, the client of the proxy
gets the same status and body; every header the upstream sent arrives line for line (hence with
the same field value); and the only other headers are the ones the middleware had preset (they
show through only under names the upstream did not send). -/
theorem response_preserved (defaults : Headers) (rs : Resp) (hn : AList.NoDupKeys rs.headers) :
    (relayBack defaults rs).status = rs.status ∧
    (relayBack defaults rs).body = rs.body ∧
    (∀ n, n ∈ AList.keys rs.headers →
      AList.get (relayBack defaults rs).headers n = AList.get rs.headers n) ∧
    (∀ n, n ∉ AList.keys rs.headers →
      AList.get (relayBack defaults rs).headers n = AList.get defaults n) := by
  refine ⟨rfl, rfl, ?_, ?_⟩
  · intro n hmem
    simp only [relayBack]
    rw [get_copyLines _ _ hn]
    rw [AList.mem_keys_iff] at hmem
    cases hg : AList.get rs.headers n with
    | none => simp [hg] at hmem
    | some vs => rfl
  · intro n hmem
    simp only [relayBack]
    rw [get_copyLines _ _ hn, (AList.get_eq_none_iff _ _).mpr hmem]

/-- corollary in the property's vocabulary: same field value for every upstream header -/
theorem response_field_values (defaults : Headers) (rs : Resp) (hn : AList.NoDupKeys rs.headers)
    (n : String) (hmem : n ∈ AList.keys rs.headers) :
    fieldValue (AList.get (relayBack defaults rs).headers n) = fieldValue (AList.get rs.headers n) := by
  rw [(response_preserved defaults rs hn).2.2.1 n hmem]

/-- The `Set-Cookie` clause: the client gets exactly the cookies the upstream set, one per line
(the middleware presets no cookie of its own). -/
def SetCookiePreserved : Prop :=
  ∀ (defaults : Headers) (rs : Resp), AList.NoDupKeys rs.headers →
    AList.get defaults "Set-Cookie" = none →
    cookies (relayBack defaults rs).headers = cookies rs.headers

/-- Holds since commit ceac3fa (it was refuted before: the lines were joined with commas). -/
theorem set_cookie_preserved : SetCookiePreserved := by
  intro defaults rs hn hd
  simp only [cookies, relayBack]
  rw [get_copyLines _ _ hn]
  cases AList.get rs.headers "Set-Cookie" with
  | none => simp [hd]
  | some vs => rfl

def cookieWitness : Resp :=
  { status := 200, headers := [("Set-Cookie", ["a=1; Path=/", "b=2; Path=/"])], body := "{}" }

example : cookies (relayBack [("Content-Type", ["application/json"])] cookieWitness).headers
    = ["a=1; Path=/", "b=2; Path=/"] := by decide

/-! ## The whole exchange: mux, handler, HTTP client -/

/-- Every request on a path Refinery does not handle itself reaches the handler. -/
def AlwaysRelayed : Prop :=
  ∀ (follow : Bool) (defaults : Headers) (target : String) (redir : UpReq → Resp → UpReq)
    (up : UpReq → Resp) (r : Req), serve follow defaults target redir up r ≠ .muxRedirect

def uncleanWitness : Req :=
  { method := "POST", path := "/1/markers//prod", dpath := "/1/markers//prod", rawQuery := "",
    forceQuery := false, headers := [], body := "{}", remoteAddr := "10.0.0.9:4711" }

/-- Refuted: `/1/markers//prod` is answered by the mux (301), nothing is relayed. -/
theorem always_relayed_refuted : ¬ AlwaysRelayed := by
  intro h
  exact h false [] "http://api" (fun q _ => q) (fun _ => ⟨200, [], ""⟩) uncleanWitness (by decide)

/-- **paths (partial)** — a path without empty, `.` or `..` segments always reaches the handler. -/
theorem clean_paths_reach_handler_partial (follow : Bool) (defaults : Headers) (target : String)
    (redir : UpReq → Resp → UpReq) (up : UpReq → Resp) (r : Req) (hc : isCleanPath r.dpath = true) :
    serve follow defaults target redir up r ≠ .muxRedirect := by
  unfold serve
  simp only [hc, Bool.not_true, Bool.false_eq_true, if_false]
  split <;> simp

/-- The upstream's answer to the relayed request is what the client gets (status and body). -/
def UpstreamResponseReturned (follow : Bool) : Prop :=
  ∀ (defaults : Headers) (target : String) (redir : UpReq → Resp → UpReq) (up : UpReq → Resp) (r : Req),
    isCleanPath r.dpath = true →
    ∃ hops c, serve follow defaults target redir up r = .relayed (relay target r) hops c ∧
      c.status = (up (relay target r)).status ∧ c.body = (up (relay target r)).body

/-- what the exchange is when the HTTP client does not take a second hop -/
theorem serve_single_hop (follow : Bool) (defaults : Headers) (target : String)
    (redir : UpReq → Resp → UpReq) (up : UpReq → Resp) (r : Req) (hc : isCleanPath r.dpath = true)
    (hnr : (follow && isRedirect (up (relay target r)).status
              && headerGet (up (relay target r)).headers "Location" != "") = false) :
    serve follow defaults target redir up r =
      .relayed (relay target r) 1 (relayBack defaults (up (relay target r))) := by
  unfold serve
  simp only [hc, Bool.not_true, Bool.false_eq_true, if_false]
  simp only [clientDo, hnr, Bool.false_eq_true, if_false]

def redirectUp (q : UpReq) : Resp :=
  if q.url = "http://api/1/boards" then ⟨302, [("Location", ["/login"])], "moved"⟩
  else ⟨200, [], "<html>login</html>"⟩

def redirectWitness : Req :=
  { method := "GET", path := "/1/boards", dpath := "/1/boards", rawQuery := "", forceQuery := false,
    headers := [], body := "", remoteAddr := "10.0.0.9:4711" }

/-- Refuted for a redirect-following client (which is what `LnS` builds): the upstream answers
302 + Location, the client of the proxy gets the 200 of the second hop. -/
theorem upstream_response_returned_refuted : ¬ UpstreamResponseReturned true := by
  intro h
  obtain ⟨hops, c, h1, h2, _⟩ :=
    h [] "http://api" (fun q _ => { q with url := "http://api/login" }) redirectUp redirectWitness (by decide)
  have hs : serve true [] "http://api" (fun q _ => { q with url := "http://api/login" }) redirectUp redirectWitness
      = .relayed (relay "http://api" redirectWitness) 2 ⟨200, [], "<html>login</html>"⟩ := by decide
  rw [hs] at h1
  injection h1 with _ _ h1
  subst h1
  revert h2
  decide

/-- **response (partial), client that does not follow redirects** — then every upstream answer is
returned, for all upstreams. -/
theorem upstream_response_returned_without_follow : UpstreamResponseReturned false := by
  intro defaults target redir up r hc
  exact ⟨1, _, serve_single_hop false defaults target redir up r hc (by simp), rfl, rfl⟩

/-- **response (partial), the client as built** — every upstream answer other than a
301/302/303/307/308 carrying a Location is returned: one upstream request, same status, same body,
headers as in `response_preserved`. -/
theorem upstream_response_returned_partial (follow : Bool) (defaults : Headers) (target : String)
    (redir : UpReq → Resp → UpReq) (up : UpReq → Resp) (r : Req) (hc : isCleanPath r.dpath = true)
    (hnr : isRedirect (up (relay target r)).status = false
            ∨ headerGet (up (relay target r)).headers "Location" = "") :
    serve follow defaults target redir up r =
      .relayed (relay target r) 1 (relayBack defaults (up (relay target r))) := by
  apply serve_single_hop follow defaults target redir up r hc
  rcases hnr with h | h <;> simp [h]

/-- **request_body_relayed_verbatim** — whenever a request is relayed, the upstream is handed
exactly the client's body bytes and method, whatever the headers (Content-Encoding, Content-Type,
…) say about them: the body is opaque to the proxy. -/
theorem request_body_relayed_verbatim (follow : Bool) (defaults : Headers) (target : String)
    (redir : UpReq → Resp → UpReq) (up : UpReq → Resp) (r : Req) (seen : UpReq) (hops : Nat) (c : Resp)
    (h : serve follow defaults target redir up r = .relayed seen hops c) :
    seen.body = r.body ∧ seen.method = r.method := by
  unfold serve at h
  split at h
  · cases h
  · simp only at h
    cases hd : clientDo follow redir up 10 0 (relay target r) with
    | err => rw [hd] at h; cases h
    | resp rs n =>
      rw [hd] at h
      injection h with h1 _ _
      subst h1
      exact ⟨rfl, rfl⟩

/-- The statement at full strength. -/
def FullStatement (follow : Bool) : Prop :=
  AlwaysRelayed ∧ UpstreamResponseReturned follow ∧ XffAllLines ∧ SetCookiePreserved

/-- The full statement still does not hold for the code as it is, whatever the redirect policy
(unclean paths); with a client that does not follow redirects only `AlwaysRelayed` is missing. -/
theorem full_statement_refuted (follow : Bool) : ¬ FullStatement follow :=
  fun h => always_relayed_refuted h.1

/-! Non-vacuity: concrete exchanges evaluated by the kernel. -/

def sampleReq : Req :=
  { method := "PUT", path := "/1/markers/my%2Fds", dpath := "/1/markers/my/ds", rawQuery := "a=1&b=%20",
    forceQuery := false,
    headers := [("Accept", ["text/html", "*/*;q=0.1"]), ("X-Honeycomb-Team", ["k"]), ("X-Forwarded-For", ["203.0.113.7"])],
    body := "{\"m\":1}", remoteAddr := "10.0.0.9:4711" }

example : (relay "http://api" sampleReq).url = "http://api/1/markers/my%2Fds?a=1&b=%20" := by decide
example : AList.get (relay "http://api" sampleReq).headers "Accept" = some ["text/html,*/*;q=0.1"] := by decide
example : AList.get (relay "http://api" sampleReq).headers "X-Forwarded-For"
    = some ["203.0.113.7, 10.0.0.9:4711"] := by decide
example : serve true [("Content-Type", ["application/json"])] "http://api" (fun q _ => q)
      (fun _ => ⟨404, [("Vary", ["Accept", "Origin"])], "nope"⟩) sampleReq
    = .relayed (relay "http://api" sampleReq) 1
        ⟨404, [("Vary", ["Accept", "Origin"]), ("Content-Type", ["application/json"])], "nope"⟩ := by decide
example : isCleanPath "/1/markers/my/ds" = true ∧ isCleanPath "/1/markers//ds" = false
    ∧ isCleanPath "/1/../ds" = false ∧ isCleanPath "/1/a/" = true := by decide

end Refinery.Props.C37
