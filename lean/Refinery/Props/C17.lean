import Refinery.Model.Sharder
import Refinery.Lemmas.Sharder
/-!
# C17 — all nodes agree on which peer owns each trace

Statement (properties.jsonl): every node that sees the same list of peer addresses, in any order,
computes the same owning peer for any trace ID, and the owner is always one of those peers.
Consequently every span of a trace entering any node of a stably configured cluster reaches the
collector of that one owner after at most one forwarding hop, and no node forwards a span to
itself.

Everything below is for **every** hash function `h` (the code uses wyhash), every value of the
constants `partitionCount`/`peerSeed`, every peer list and every trace id.

The partition table is sorted by hash with Go's *unstable* `sort.Slice`, so the theorems are
stated for every arrangement `t` with `IsTable … t` (a rearrangement of the partition entries that
is ascending by hash), not only for the arrangement the executable model picks.  This is what
forces the tie hypothesis `TieFree`: two *different* addresses of the list must not share a
partition hash.  It cannot be dropped (`tie_hypothesis_necessary`).  Equal trace hashes, duplicate
addresses in the list, and the all-zero corner (`bestix` stays `0`) need no hypothesis.

Vocabulary (defined at the end of `Model/Sharder.lean`):
`TieFree c h l` — `∀ a b ∈ l, ∀ seeds s s' of the partition sequence, h a s = h b s' → a = b`;
`ownerOf c h l id` — the executable model's `WhichShard` for list `l`;
`Configured c h L n` — node `n` holds a rearrangement of `L` (sorted) and some admissible table;
`Stable c h L nodes` — all nodes `Configured` for `L`, `myShard` = own instance id, every address
of `L` is a node.
-/
namespace Refinery.Props.C17
open Refinery.Model.Sharder

/-! ## agreement -/

/-- **set_agree** (stronger than the property asks).  Two nodes whose lists contain the same
*set* of addresses and lead to the same number of partitions per peer (e.g. lists of the same
length, duplicates counted — `FilePeers.GetPeers` appends the node's own address to the configured
list, which duplicates it when it is configured too) compute the same owner, whatever arrangement
of equal hashes the unstable sort produced on either node. -/
theorem set_agree (c : Consts) (h : HashFn) (l₁ l₂ : List String) (t₁ t₂ : List Entry) (id : String)
    (hset : ∀ a, a ∈ l₁ ↔ a ∈ l₂)
    (hppp : partitionsPerPeer c l₁.length = partitionsPerPeer c l₂.length)
    (h₁ : IsTable c h (sortAddrs l₁) t₁) (h₂ : IsTable c h (sortAddrs l₂) t₂)
    (htie : TieFree c h l₁) :
    whichShard h (sortAddrs l₁) t₁ id = whichShard h (sortAddrs l₂) t₂ id := by
  rw [whichShard_eq_scanA, whichShard_eq_scanA, head_sortAddrs_of_set hset]
  have hK₁ := @mem_keys c h (sortAddrs l₁) t₁ h₁.1
  have hK₂ := @mem_keys c h (sortAddrs l₂) t₂ h₂.1
  rw [scanA_set_eq (h id) (t₁.map (key (sortAddrs l₁))) (t₂.map (key (sortAddrs l₂)))]
  · rw [List.pairwise_map]; exact h₁.2
  · rw [List.pairwise_map]; exact h₂.2
  · intro p
    rw [hK₁, hK₂, length_sortAddrs, length_sortAddrs, hppp]
    constructor
    · rintro ⟨a, ha, r⟩; exact ⟨a, mem_sortAddrs.mpr ((hset a).mp (mem_sortAddrs.mp ha)), r⟩
    · rintro ⟨a, ha, r⟩; exact ⟨a, mem_sortAddrs.mpr ((hset a).mpr (mem_sortAddrs.mp ha)), r⟩
  · intro p hp q hq hpq
    obtain ⟨a, ha, hp2, s, hs, hp1⟩ := hK₁.mp hp
    obtain ⟨b, hb, hq2, s', hs', hq1⟩ := hK₁.mp hq
    rw [length_sortAddrs] at hs hs'
    have : a = b := htie a (mem_sortAddrs.mp ha) b (mem_sortAddrs.mp hb) s hs s' hs'
      (by rw [← hp1, ← hq1]; exact hpq)
    rw [hp2, hq2, this]

/-- **perm_agree** — every node that sees the same list of peer addresses, in any order, computes
the same owning peer for any trace id (for every hash function without a partition-hash collision
between two different addresses of the list, and for every outcome of the unstable sort). -/
theorem perm_agree (c : Consts) (h : HashFn) (l₁ l₂ : List String) (t₁ t₂ : List Entry) (id : String)
    (hp : l₁.Perm l₂)
    (h₁ : IsTable c h (sortAddrs l₁) t₁) (h₂ : IsTable c h (sortAddrs l₂) t₂)
    (htie : TieFree c h l₁) :
    whichShard h (sortAddrs l₁) t₁ id = whichShard h (sortAddrs l₂) t₂ id :=
  set_agree c h l₁ l₂ t₁ t₂ id (fun _ => hp.mem_iff) (by rw [hp.length_eq]) h₁ h₂ htie

/-- perm_agree for the executable model: the owner does not depend on the order of the list. -/
theorem ownerOf_perm (c : Consts) (h : HashFn) (l₁ l₂ : List String) (id : String)
    (hp : l₁.Perm l₂) : ownerOf c h l₁ id = ownerOf c h l₂ id := by
  unfold ownerOf; rw [sortAddrs_eq_of_perm hp]

/-- **The tie hypothesis cannot be dropped**: with a hash function under which two different
addresses share a partition hash, two admissible outcomes of the unstable sort of the *same* list
name different owners.  (Needs a 64-bit wyhash collision between two peers' partition hashes, so
it is not reproducible on the real code; it is the reason `TieFree` appears above.) -/
theorem tie_hypothesis_necessary :
    ∃ (c : Consts) (h : HashFn) (l : List String) (t₁ t₂ : List Entry) (id : String),
      IsTable c h (sortAddrs l) t₁ ∧ IsTable c h (sortAddrs l) t₂ ∧
      whichShard h (sortAddrs l) t₁ id ≠ whichShard h (sortAddrs l) t₂ id := by
  refine ⟨⟨0, 0⟩, fun s _ => if s = "x" then 5 else 7, ["a", "b"],
    [⟨7, 0⟩, ⟨7, 1⟩], [⟨7, 1⟩, ⟨7, 0⟩], "x", ⟨?_, ?_⟩, ⟨?_, ?_⟩, ?_⟩
  · exact List.Perm.refl _
  · decide
  · exact List.Perm.swap _ _ _
  · decide
  · decide

/-- **The list length, duplicates included, matters**: same set of addresses but a different
number of partitions per peer may give different owners (here `["a","b"]` against
`["a","b","b"]`).  Nodes must see the same list, not merely the same set — the property's
premise. -/
theorem same_set_different_length_may_disagree :
    ∃ (c : Consts) (h : HashFn) (l₁ l₂ : List String) (id : String),
      (∀ a, a ∈ l₁ ↔ a ∈ l₂) ∧ ownerOf c h l₁ id ≠ ownerOf c h l₂ id := by
  refine ⟨⟨2, 0⟩,
    (fun s u => if s = "anything" then 1 else if s = "a" then 10 + u else if s = "b" then 20 + u
      else if u = 21 then 100 else if u = 10 then 50 else 1),
    ["a", "b"], ["a", "b", "b"], "x", ?_, ?_⟩
  · intro a; simp
  · decide

/-! ## the owner is one of the peers -/

/-- **owner_mem** — for a non-empty list the owner exists (no panic) and is one of the listed
addresses, for every hash function and every arrangement of the table (no tie hypothesis). -/
theorem owner_mem (c : Consts) (h : HashFn) (l : List String) (t : List Entry) (id : String)
    (hne : l ≠ []) (ht : IsTable c h (sortAddrs l) t) :
    ∃ a ∈ l, whichShard h (sortAddrs l) t id = some a := by
  unfold whichShard scan
  rcases scan_ix h id t (0, 0) with h0 | ⟨e, he, hix⟩
  · rw [h0]
    cases hs : sortAddrs l with
    | nil => exact absurd (sortAddrs_eq_nil.mp hs) hne
    | cons x u =>
      exact ⟨x, mem_sortAddrs.mp (by rw [hs]; exact List.mem_cons_self), by simp⟩
  · rw [hix]
    obtain ⟨a, ha, _⟩ := mem_entries.mp (ht.1.mem_iff.mp he)
    exact ⟨a, mem_sortAddrs.mp (List.mem_of_getElem? ha), ha⟩

/-- The model's owner of a non-empty list is a member of the list. -/
theorem ownerOf_mem (c : Consts) (h : HashFn) (l : List String) (id : String) (hne : l ≠ []) :
    ∃ a ∈ l, ownerOf c h l id = some a :=
  owner_mem c h l _ id hne (table_isTable c h _)

/-- **Empty list**: `loadPeerList` refuses it and leaves the sharder untouched … -/
theorem empty_list_refused (c : Consts) (h : HashFn) (n : Node) (he : n.src = []) :
    loadPeerList c h n = (n, false) := by
  simp [loadPeerList, he]

/-- … and a sharder that never loaded a list panics in `WhichShard` (`d.peers[0]` on an empty
slice), which the router does not recover from. -/
theorem unloaded_crashes (h : HashFn) (self id : String) :
    whichShard h ({ self := self } : Node).peers ({ self := self } : Node).hashes id = none ∧
    route h { self := self } id = .crash := by
  simp [whichShard, route]

/-! ## one hop -/

/-- every `Configured` node answers `WhichShard` with the model's owner -/
theorem configured_which (c : Consts) (h : HashFn) (L : List String) (id : String)
    (htie : TieFree c h L) (n : Node) (hn : Configured c h L n) :
    whichShard h n.peers n.hashes id = ownerOf c h L id := by
  obtain ⟨⟨l, hl, hp⟩, ht⟩ := hn
  rw [hp] at ht ⊢
  have htie' : TieFree c h l := by
    intro a ha b hb s hs s' hs'
    rw [hl.length_eq] at hs hs'
    exact htie a (hl.mem_iff.mp ha) b (hl.mem_iff.mp hb) s hs s' hs'
  exact perm_agree c h l L _ _ id hl ht (table_isTable c h _) htie'

/-- **single_hop** — in a cluster whose nodes all hold the list `L` (in any order), with owner
`o` of trace `id`: a node keeps the span locally exactly when it is the owner, and otherwise
forwards it to the owner. -/
theorem single_hop (c : Consts) (h : HashFn) (L : List String) (id o : String)
    (htie : TieFree c h L) (ho : ownerOf c h L id = some o)
    (n : Node) (hn : Configured c h L n) :
    route h n id = if o = n.my then .keep else .forward o := by
  unfold route
  rw [configured_which c h L id htie n hn, ho]

/-- single_hop, first half: the owner keeps the span. -/
theorem owner_keeps (c : Consts) (h : HashFn) (L : List String) (id o : String)
    (htie : TieFree c h L) (ho : ownerOf c h L id = some o)
    (n : Node) (hn : Configured c h L n) (hmy : n.my = o) : route h n id = .keep := by
  rw [single_hop c h L id o htie ho n hn, if_pos hmy.symm]

/-- single_hop, second half: a non-owner forwards to the owner (and to nobody else). -/
theorem non_owner_forwards_to_owner (c : Consts) (h : HashFn) (L : List String) (id o : String)
    (htie : TieFree c h L) (ho : ownerOf c h L id = some o)
    (n : Node) (hn : Configured c h L n) (hmy : n.my ≠ o) : route h n id = .forward o := by
  rw [single_hop c h L id o htie ho n hn, if_neg (fun e => hmy e.symm)]

/-- **Nobody forwards to itself** — for every node state whatsoever (any list, any table, any
hash function): a forward target is never the node's own shard. -/
theorem never_forward_to_self (h : HashFn) (n : Node) (id t : String)
    (hr : route h n id = .forward t) : t ≠ n.my := by
  unfold route at hr
  split at hr
  · cases hr
  · split at hr
    · cases hr
    · rename_i hne; cases hr; exact hne

/-- **deliver_one_hop** — every span of a trace entering any node of a stably configured cluster
reaches the collector of the one owner after at most one forwarding hop: directly if the entry
node is the owner, otherwise by exactly one forward to the owner, who keeps it. -/
theorem deliver_one_hop (c : Consts) (h : HashFn) (L : List String) (nodes : List Node)
    (id : String) (fuel : Nat) (hne : L ≠ []) (htie : TieFree c h L) (hst : Stable c h L nodes)
    (n : Node) (hn : n ∈ nodes) :
    ∃ o ∈ L, ownerOf c h L id = some o ∧
      deliver h nodes id (fuel + 2) n =
        if n.self = o then [.collect o] else [.fwd o, .collect o] := by
  obtain ⟨o, hoL, ho⟩ := ownerOf_mem c h L id hne
  refine ⟨o, hoL, ho, ?_⟩
  have hr := single_hop c h L id o htie ho n (hst.conf n hn)
  rw [hst.me n hn] at hr
  by_cases hself : n.self = o
  · rw [if_pos hself.symm] at hr
    simp [deliver, hr, hself]
  · rw [if_neg (fun e => hself e.symm)] at hr
    obtain ⟨m, hm, hms⟩ := hst.all o hoL
    have hfind : ∃ m', nodeAt nodes o = some m' := by
      cases hf : nodeAt nodes o with
      | some m' => exact ⟨m', rfl⟩
      | none =>
        unfold nodeAt at hf
        have := List.find?_eq_none.mp hf m hm
        simp [hms] at this
    obtain ⟨m', hf⟩ := hfind
    have hm'mem : m' ∈ nodes := List.mem_of_find?_eq_some hf
    have hm'self : m'.self = o := by
      have := List.find?_some hf
      simpa using this
    have hr' := owner_keeps c h L id o htie ho m' (hst.conf m' hm'mem)
      (by rw [hst.me m' hm'mem, hm'self])
    simp [deliver, hr, hf, hr', hm'self, hself]

/-! ## the executable node model only reaches `Configured` states -/

/-- `Start` on a node with a non-empty source list `l`: the node is `Configured` for `l`; it
succeeds exactly when its own instance id is in the list, and then `myShard` is that id. -/
theorem start_configured (c : Consts) (h : HashFn) (n : Node) (hne : n.src ≠ [])
    (hn : IsTable c h n.peers n.hashes) :
    Configured c h n.src (start c h n).1 ∧
    ((start c h n).2 = true ↔ n.self ∈ n.src) ∧
    ((start c h n).2 = true → (start c h n).1.my = n.self) := by
  have hp := loadPeerList_peers c h { n with started := true } hne
  have ht := loadPeerList_isTable c h { n with started := true } hn
  have hconf : Configured c h n.src (loadPeerList c h { n with started := true }).1 :=
    ⟨⟨n.src, List.Perm.refl _, hp.1⟩, ht⟩
  unfold start
  by_cases hm : n.self ∈ (loadPeerList c h { n with started := true }).1.peers
  · rw [if_pos hm]
    refine ⟨⟨hconf.peers, hconf.table⟩, ?_, fun _ => rfl⟩
    rw [hp.1, mem_sortAddrs] at hm
    simpa using hm
  · rw [if_neg hm]
    refine ⟨hconf, ?_, fun hf => by simp at hf⟩
    rw [hp.1, mem_sortAddrs] at hm
    simpa using hm

/-- A peer-list update on a started node with a non-empty list `l`: `Configured` for `l`;
`myShard` is not touched. -/
theorem update_configured (c : Consts) (h : HashFn) (n : Node) (l : List String) (hne : l ≠ [])
    (hs : n.started = true) (hn : IsTable c h n.peers n.hashes) :
    Configured c h l (update c h n l) ∧ (update c h n l).my = n.my := by
  have hp := loadPeerList_peers c h { n with src := l } hne
  have ht := loadPeerList_isTable c h { n with src := l } hn
  have hmy := (loadPeerList_fields c h { n with src := l }).2.1
  unfold update
  rw [if_pos hs]
  exact ⟨⟨⟨l, List.Perm.refl _, hp.1⟩, ht⟩, hmy⟩

/-- An update with the empty list leaves the sharder's list, table and shard untouched. -/
theorem update_empty_keeps (c : Consts) (h : HashFn) (n : Node) :
    (update c h n []).peers = n.peers ∧ (update c h n []).hashes = n.hashes ∧
    (update c h n []).my = n.my := by
  unfold update
  by_cases hs : n.started = true
  · rw [if_pos hs, empty_list_refused c h _ rfl]; exact ⟨rfl, rfl, rfl⟩
  · rw [if_neg hs]; exact ⟨rfl, rfl, rfl⟩

/-- **Every reachable node state** (any history of `Start`s and peer-list updates, including
empty and duplicate-ridden lists) keeps `d.hashes` a table of `d.peers`, and `myShard` is either
still unset or the node's own instance id. -/
theorem reachable_inv (c : Consts) (h : HashFn) (selfs : List String) (ops : List Op) :
    ∀ n ∈ run c h selfs ops, IsTable c h n.peers n.hashes ∧ (n.my = "" ∨ n.my = n.self) := by
  unfold run
  suffices H : ∀ nodes : List Node,
      (∀ n ∈ nodes, IsTable c h n.peers n.hashes ∧ (n.my = "" ∨ n.my = n.self)) →
      ∀ n ∈ ops.foldl (stepOp c h) nodes,
        IsTable c h n.peers n.hashes ∧ (n.my = "" ∨ n.my = n.self) by
    apply H
    intro n hn
    simp only [initNodes, List.mem_map] at hn
    obtain ⟨s, _, rfl⟩ := hn
    exact ⟨⟨by simp [entries, entriesFrom], by simp⟩, Or.inl rfl⟩
  induction ops with
  | nil => intro nodes hI; exact hI
  | cons o os ih =>
    intro nodes hI
    apply ih
    intro n hn
    cases o with
    | start i =>
      rcases modifyNth_mem hn with h1 | ⟨m, hm, rfl⟩
      · exact hI n h1
      · obtain ⟨hT, hmy⟩ := hI m hm
        have ht := loadPeerList_isTable c h { m with started := true } hT
        obtain ⟨hself, hmy', _, _⟩ := loadPeerList_fields c h { m with started := true }
        unfold start
        by_cases hmem : m.self ∈ (loadPeerList c h { m with started := true }).1.peers
        · rw [if_pos hmem]; exact ⟨ht, Or.inr hself.symm⟩
        · rw [if_neg hmem]; exact ⟨ht, by rw [hmy', hself]; exact hmy⟩
    | update i l =>
      rcases modifyNth_mem hn with h1 | ⟨m, hm, rfl⟩
      · exact hI n h1
      · obtain ⟨hT, hmy⟩ := hI m hm
        unfold update
        by_cases hs : m.started = true
        · rw [if_pos hs]
          have ht := loadPeerList_isTable c h { m with src := l } hT
          obtain ⟨hself, hmy', _, _⟩ := loadPeerList_fields c h { m with src := l }
          exact ⟨ht, by rw [hmy', hself]; exact hmy⟩
        · rw [if_neg hs]; exact ⟨hT, hmy⟩

/-! ## non-vacuity: concrete clusters evaluated by the kernel -/

/-- a small concrete "hash": different addresses get different partition hashes -/
def hx : HashFn := fun s u =>
  if s = "anything" then u + 1
  else if s = "n1" then 100 + u else if s = "n2" then 200 + u else if s = "n3" then 300 + u
  else if s = "t1" then (u * 7) % 13 else if s = "t2" then (u * 5) % 13 else u % 3

def cx : Consts := ⟨4, 0⟩

example : ownerOf cx hx ["n1", "n2", "n3"] "t1" = some "n1" := by decide
example : ownerOf cx hx ["n3", "n1", "n2"] "t1" = some "n1" := by decide
example : ownerOf cx hx ["n2", "n3", "n1"] "t2" = some "n2" := by decide
example : ownerOf cx hx ["n1", "n3", "n2"] "t2" = some "n2" := by decide
example : sortAddrs ["n3", "n1", "n2", "n1"] = ["n1", "n1", "n2", "n3"] := by decide
example : (table cx hx ["n1", "n2"]).length = 6 := by decide
-- a 3-node cluster fed three different orders: one forward to the owner, who keeps it
example :
    let nodes := run cx hx ["n1", "n2", "n3"]
      [.update 0 ["n1", "n2", "n3"], .update 1 ["n3", "n2", "n1"], .update 2 ["n2", "n3", "n1"],
       .start 0, .start 1, .start 2]
    nodes.map (fun n => deliver hx nodes "t1" 3 n) =
      [[.collect "n1"], [.fwd "n1", .collect "n1"], [.fwd "n1", .collect "n1"]] := by decide
-- an empty update is refused and changes nothing; a never-loaded node crashes
example :
    let nodes := run cx hx ["n1", "n2"] [.update 0 ["n2", "n1"], .start 0, .update 0 []]
    nodes.map (fun n => route hx n "t2") = [.forward "n2", .crash] := by decide

end Refinery.Props.C17
