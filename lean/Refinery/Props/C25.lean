import Refinery.Model.QueryAuth
/-!
# C25 — query endpoints require the configured token

Statement (properties.jsonl): every `/query/` endpoint answers with data only when a non-empty
`QueryAuthToken` is configured and the request carries exactly that token; otherwise it returns an
error and reveals no configuration or trace placement.

All theorems quantify over all strings (configured token, header values).  Which routes are behind
the check is established on the real router by the correspondence check (the harness walks the mux);
`no_query_route_outside_subrouter` ties the walk's static result in as well.
-/
namespace Refinery.Props.C25
open Refinery.Model.QueryAuth

/-- **query_auth_spec** — the check lets a request through to the data handler exactly when a
non-empty token is configured and the first value of the request's token header is byte-for-byte
that token; for all configured tokens and all header value lists. -/
theorem query_auth_spec (cfgTok : String) (vals : List String) :
    respond cfgTok vals = .data ↔ (cfgTok ≠ "" ∧ headerGet vals = cfgTok) := by
  unfold respond
  by_cases h : cfgTok = ""
  · simp [h]
  · by_cases h2 : headerGet vals = cfgTok
    · simp [h, h2]
    · simp [h, h2]

/-- the same, as the boolean the code computes -/
theorem respond_data_iff_answers (cfgTok : String) (vals : List String) :
    respond cfgTok vals = .data ↔ answers cfgTok (headerGet vals) = true := by
  rw [query_auth_spec]; simp [answers]

/-- no token configured: every request is refused, whatever it carries -/
theorem unconfigured_refuses_all (vals : List String) : respond "" vals ≠ .data := by
  intro h; exact ((query_auth_spec "" vals).mp h).1 rfl

/-- a request without the header, or with an empty token, is always refused -/
theorem empty_token_refused (cfgTok : String) : respond cfgTok [] ≠ .data ∧ respond cfgTok [""] ≠ .data := by
  constructor <;> intro h <;> have := (query_auth_spec cfgTok _).mp h <;> simp [headerGet] at this <;>
    exact this.1 this.2.symm

theorem string_append_right_eq_self {p s : String} (h : p ++ s = p) : s = "" := by
  have hl := congrArg String.length h
  rw [String.length_append] at hl
  have : s.length = 0 := by omega
  exact String.length_eq_zero_iff.mp this

/-- a proper prefix of the configured token is refused -/
theorem proper_prefix_refused (p s : String) (hs : s ≠ "") (rest : List String) :
    respond (p ++ s) (p :: rest) ≠ .data := by
  intro h
  have := ((query_auth_spec _ _).mp h).2
  simp [headerGet] at this
  exact hs (string_append_right_eq_self this.symm)

/-- an extension of the configured token is refused -/
theorem extension_refused (cfgTok s : String) (hs : s ≠ "") (rest : List String) :
    respond cfgTok ((cfgTok ++ s) :: rest) ≠ .data := by
  intro h
  have := ((query_auth_spec _ _).mp h).2
  simp [headerGet] at this
  exact hs this

/-- any token that differs from the configured one — a case variant, a trimmed or padded copy — is
refused: there is no normalisation -/
theorem different_token_refused (cfgTok tok : String) (hne : tok ≠ cfgTok) (rest : List String) :
    respond cfgTok (tok :: rest) ≠ .data := by
  intro h
  exact hne ((query_auth_spec _ _).mp h).2

/-- only the first header value counts: the right token as a second value does not help -/
theorem second_value_ignored (cfgTok tok : String) (hne : tok ≠ cfgTok) :
    respond cfgTok [tok, cfgTok] ≠ .data := different_token_refused cfgTok tok hne _

/-- **error_reveals_nothing** — whenever the check refuses, the response (status and body) is
`refusal (cfgTok ≠ "") (request token)`: a function of the *request's* token and of the single bit
"is a token configured"; it does not depend on the configured token's value, on the rules, or on
the sharder. -/
theorem error_reveals_nothing (cfgTok : String) (vals : List String)
    (h : respond cfgTok vals ≠ .data) :
    respond cfgTok vals = refusal (cfgTok != "") (headerGet vals) := by
  unfold respond refusal at *
  by_cases h1 : cfgTok = ""
  · simp [h1]
  · by_cases h2 : headerGet vals = cfgTok
    · simp [h1, h2] at h
    · simp [h1, h2]

/-- … in non-interference form: two different configured (non-empty) tokens, neither of which the
request carries, produce the *identical* response — an observer of refusals learns nothing about
the configured token beyond "it is not the one I sent". -/
theorem refusal_noninterference (cfg₁ cfg₂ : String) (vals : List String)
    (h1 : cfg₁ ≠ "") (h2 : cfg₂ ≠ "") (n1 : headerGet vals ≠ cfg₁) (n2 : headerGet vals ≠ cfg₂) :
    respond cfg₁ vals = respond cfg₂ vals := by
  have r1 : respond cfg₁ vals ≠ .data := fun h => n1 ((query_auth_spec _ _).mp h).2
  have r2 : respond cfg₂ vals ≠ .data := fun h => n2 ((query_auth_spec _ _).mp h).2
  have e1 : (cfg₁ != "") = true := by simpa using h1
  have e2 : (cfg₂ != "") = true := by simpa using h2
  rw [error_reveals_nothing _ _ r1, error_reveals_nothing _ _ r2, e1, e2]

/-- every response is either data (for the right token) or the refusal status from the code -/
theorem refusal_status (cfgTok : String) (vals : List String) :
    respond cfgTok vals = .data ∨
      ∃ body, respond cfgTok vals = .error Refinery.Gen.QueryAuth.errAuthNeededStatus body := by
  unfold respond
  by_cases h1 : cfgTok = ""
  · simp [h1]
  · by_cases h2 : headerGet vals = cfgTok <;> simp [h1, h2]

/-- The walk of the real mux found every `/query` leaf route inside the protected sub-router
(`facts`: number of `/query…` routes registered without an ancestor route), and found some. -/
theorem no_query_route_outside_subrouter :
    Refinery.Gen.QueryAuth.queryRoutesOutsideSubrouter = 0 ∧
      Refinery.Gen.QueryAuth.queryRouteCount = Refinery.Gen.QueryAuth.queryRoutes.length ∧
      0 < Refinery.Gen.QueryAuth.queryRouteCount := by decide

/-! ## Request method -/

/-- the `/query/` sub-router accepts exactly `GET` (`facts`, read off the walked mux): accepting a
further method is a change this obligation flags -/
theorem query_methods_from_code : Refinery.Gen.QueryAuth.queryMethods = ["GET"] := by decide

/-- **no data without the token, whatever the method**: through the router a request is answered
with data only if its method is one the sub-router accepts, a non-empty token is configured and the
first header value is exactly that token. -/
theorem no_data_without_token_any_method (method cfgTok : String) (vals : List String)
    (h : routerRespond method cfgTok vals = .handled .data) :
    method ∈ Refinery.Gen.QueryAuth.queryMethods ∧ cfgTok ≠ "" ∧ headerGet vals = cfgTok := by
  unfold routerRespond at h
  by_cases hm : method ∈ Refinery.Gen.QueryAuth.queryMethods
  · have hc : Refinery.Gen.QueryAuth.queryMethods.contains method = true := by simpa using hm
    simp only [hc, if_true, RResp.handled.injEq] at h
    exact ⟨hm, (query_auth_spec cfgTok vals).mp h⟩
  · have hc : Refinery.Gen.QueryAuth.queryMethods.contains method = false := by simpa using hm
    simp only [hc, Bool.false_eq_true, if_false] at h
    cases h

/-- every other method is not handled by the router at all (relayed upstream) -/
theorem other_methods_proxied (method cfgTok : String) (vals : List String)
    (hm : method ∉ Refinery.Gen.QueryAuth.queryMethods) :
    routerRespond method cfgTok vals = .proxied := by
  unfold routerRespond
  have hc : Refinery.Gen.QueryAuth.queryMethods.contains method = false := by simpa using hm
  simp only [hc, Bool.false_eq_true, if_false]

example : routerRespond "OPTIONS" "tok" ["tok"] = .proxied := by decide
example : routerRespond "GET" "tok" ["tok"] = .handled .data := by decide

/-! ## Reloads -/

/-- the token in force after a history is the last reloaded one (the initial one if there was no reload) -/
theorem tokenAfter_append_reload (t0 : String) (ops : List Op) (tok : String) :
    tokenAfter t0 (ops ++ [.reload tok]) = tok := by
  simp [tokenAfter, List.foldl_append, step]

theorem tokenAfter_append_request (t0 : String) (ops : List Op) (vals : List String) :
    tokenAfter t0 (ops ++ [.request vals]) = tokenAfter t0 ops := by
  simp [tokenAfter, List.foldl_append, step]

theorem run_append (t0 : String) (ops more : List Op) :
    run t0 (ops ++ more) = run t0 ops ++ run (tokenAfter t0 ops) more := by
  induction ops generalizing t0 with
  | nil => simp [run, tokenAfter]
  | cons o os ih =>
    cases o with
    | reload tok => simp [run, step, tokenAfter, ih]
    | request vals => simp [run, step, tokenAfter, ih]

/-- **request_uses_token_in_force** — after any history of reloads and requests, a request is
answered against the token configured at that moment: data iff that token is non-empty and the
request's first header value equals it byte for byte. -/
theorem request_uses_token_in_force (t0 : String) (ops : List Op) (vals : List String) :
    run t0 (ops ++ [.request vals]) = run t0 ops ++ [respond (tokenAfter t0 ops) vals] := by
  rw [run_append]; simp [run, step]

/-- a rotated-out token stops working with the reload that replaces it … -/
theorem stale_token_refused (t0 old new : String) (ops : List Op) (hne : old ≠ new) (rest : List String) :
    respond (tokenAfter t0 (ops ++ [.reload new])) (old :: rest) ≠ .data := by
  rw [tokenAfter_append_reload]; exact different_token_refused new old hne rest

/-- … the new token works from then on … -/
theorem new_token_accepted (t0 new : String) (ops : List Op) (hn : new ≠ "") (rest : List String) :
    respond (tokenAfter t0 (ops ++ [.reload new])) (new :: rest) = .data := by
  rw [tokenAfter_append_reload]; exact (query_auth_spec new _).mpr ⟨hn, rfl⟩

/-- … and clearing the token closes the endpoints for every request. -/
theorem cleared_token_refuses_all (t0 : String) (ops : List Op) (vals : List String) :
    respond (tokenAfter t0 (ops ++ [.reload ""])) vals ≠ .data := by
  rw [tokenAfter_append_reload]; exact unconfigured_refuses_all vals

/-! ## Reload in the middle of a request -/

/-- **no_data_without_a_configured_matching_token_under_reload** — wherever a concurrent reload
(old ↦ new) lands relative to the request's read of the token, data is returned only if the request
carries a non-empty token that equals the old or the new configured token.  In particular a request
without a token never gets data, not even while the token is being removed. -/
theorem no_data_without_a_configured_matching_token_under_reload (split : Nat) (old new : String)
    (vals : List String) (h : respondUnderReload split old new vals = .data) :
    headerGet vals ≠ "" ∧ (headerGet vals = old ∨ headerGet vals = new) := by
  unfold respondUnderReload at h
  by_cases hs : split = 0
  · simp only [hs, if_true] at h
    obtain ⟨h1, h2⟩ := (query_auth_spec new vals).mp h
    exact ⟨by rw [h2]; exact h1, Or.inr h2⟩
  · simp only [hs, if_false] at h
    obtain ⟨h1, h2⟩ := (query_auth_spec old vals).mp h
    exact ⟨by rw [h2]; exact h1, Or.inl h2⟩

/-- the single read is what this rests on: a checker reading the token once for the guard and once
more for the comparison hands out data to a token-less request when the token is removed in between -/
theorem two_reads_would_leak : respondTwoReads "old" "" [] = .data ∧ respondTwoReads "old" "" [""] = .data := by
  decide

example : respondUnderReload 1 "old" "" [] ≠ .data := by decide
example : respondUnderReload 0 "old" "" [] ≠ .data := by decide
example : respondUnderReload 1 "old" "new" ["old"] = .data := by decide
example : respondUnderReload 0 "old" "new" ["new"] = .data := by decide

/-! Non-vacuity -/
example : run "old" [.request ["old"], .reload "new", .request ["old"], .request ["new"], .reload "",
    .request ["new"], .request [""]] =
  [.data, respond "new" ["old"], .data, respond "" ["new"], respond "" [""]] := by
  simp [run, step]
  constructor <;> decide
example : respond "new" ["old"] ≠ .data := by decide
example : respond "s3cret" ["s3cret"] = .data := by decide
example : respond "s3cret" ["s3cret", "junk"] = .data := by decide
example : respond "s3cret" ["s3cre"] ≠ .data := by decide
example : respond "s3cret" ["S3CRET"] ≠ .data := by decide
example : respond "s3cret" ["s3cret "] ≠ .data := by decide
example : respond "" [""] ≠ .data := by decide
example : respond "abc" ["x"] = respond "zzz" ["x"] := by decide

end Refinery.Props.C25
