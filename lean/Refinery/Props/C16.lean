import Refinery.Model.StressRoute
/-!
# C16 — stress-relief decisions are deterministic, remembered and delivered intact

Statement (properties.jsonl): while stress relief is active, a trace first seen during that time is
kept or dropped by the deterministic stress-relief rule without being buffered, and that decision
is remembered so its later spans follow it even after relief ends.  Each kept span is forwarded to
Honeycomb exactly once, marked `meta.stressed`, with its fields, API key, dataset and destination
host otherwise unaffected by the probe Refinery may send to the trace's owning peer, and no node
ever forwards a probe to Honeycomb.

Model: `Refinery.Model.StressRoute` (one node: router + collector + both transmissions over an
object store; `fixed = false` is the code as it is, `fixed = true` the router whose probe is a copy).

* `stress_deterministic`, `stress_same_on_every_node`, `hashRule_keep_iff` — for every node state;
* `stress_records`, `stress_remembered` — for every later history;
* `stress_not_buffered` — for every node state;
* `FullStatement` (delivery): **refuted for the code as it is** (`stress_delivery_refuted`, witness: a
  stressed non-owning node; `stress_delivery_refuted_owner`: even the owning node sends the probe
  marker to Honeycomb), proved for it on the owning node without the probe-marker claims
  (`stress_delivery_partial`), and proved in full for the repaired router (`stress_delivery`).

The stress hash is a parameter (each span operation carries the hash of its trace id); the
Honeycomb endpoints are the host codes `< 10`, peer addresses the codes `≥ 10` (`ValidOp`).
-/
set_option linter.unusedSimpArgs false

namespace Refinery.Props.C16
open Refinery Refinery.Model.StressRoute

/-- Did the operation hand the event it was about (the arriving span / the span the worker took
from its queue) to the upstream transmission? -/
def sentUp : Out → Bool
  | .span o enqs => enqs.any (fun q => q.tx == Tx.up && q.obj == o)
  | .work (some (o, _)) enqs => enqs.any (fun q => q.tx == Tx.up && q.obj == o)
  | _ => false

/-! ## The decision record -/

theorem recordOf_keep (d : Dec) : (recordOf d).keep = d.keep := by
  unfold recordOf; split <;> simp_all

theorem immediate_of_none {c : Cfg} {sent : AList Nat Dec} {tid h : Nat}
    (hn : AList.get sent tid = none) :
    immediate c sent tid h =
      (recordOf (hashRule c h), AList.put sent tid (recordOf (hashRule c h))) := by
  simp [immediate, hn]

theorem immediate_of_some {c : Cfg} {sent : AList Nat Dec} {tid h : Nat} {d : Dec}
    (hs : AList.get sent tid = some d) : immediate c sent tid h = (d, sent) := by
  simp [immediate, hs]

theorem immediate_get_mono (c : Cfg) (sent : AList Nat Dec) (tid h t : Nat) (d : Dec)
    (hs : AList.get sent t = some d) : AList.get (immediate c sent tid h).2 t = some d := by
  unfold immediate
  split
  · exact hs
  · rename_i hn
    simp only []
    rw [AList.get_put]
    by_cases htt : tid = t
    · subst htt; rw [hs] at hn; cases hn
    · simp [htt, hs]

/-! ## stress_deterministic -/

theorem sentUp_keptStep (fixed : Bool) (s : St) (owner : Option Nat) (e0 e1 : Ev) (sent' : AList Nat Dec) :
    sentUp (keptStep fixed s owner e0 e1 sent').2 = true := by
  cases fixed <;> cases owner <;> simp [keptStep, sentUp]

theorem sent_keptStep (fixed : Bool) (s : St) (owner : Option Nat) (e0 e1 : Ev) (sent' : AList Nat Dec) :
    (keptStep fixed s owner e0 e1 sent').1.sent = sent' := by
  cases fixed <;> cases owner <;> simp [keptStep]

/-- **stress_deterministic** — while stress relief is active, a span of a trace the node has no
decision for is kept exactly when the deterministic rule says so
(`SamplingRate ≤ 1 ∨ hash(trace id) ≤ MaxUint64 / SamplingRate`), and that decision is what is
recorded; nothing else in the node's state (ownership, listener, queues, other traces) enters. -/
theorem stress_deterministic (fixed : Bool) (c : Cfg) (s : St) (via : Via) (owner : Option Nat)
    (e : Ev) (h : Nat) (hst : s.stressed = true) (hp : e.c.probe ≠ some true) (ht : e.c.tid ≠ 0)
    (hnew : AList.get s.sent e.c.tid = none) :
    sentUp (spanStep fixed c s via owner e h).2 = (hashRule c h).keep ∧
    AList.get (spanStep fixed c s via owner e h).1.sent e.c.tid = some (recordOf (hashRule c h)) := by
  unfold spanStep
  simp only [hp, ht, hst, if_false, if_true, immediate_of_none hnew, recordOf_keep]
  cases hk : (hashRule c h).keep
  · simp [sentUp, AList.get_put]
  · simp [sentUp_keptStep, sent_keptStep, AList.get_put]

/-- the rule, spelled out -/
theorem hashRule_keep_iff (c : Cfg) (h : Nat) :
    (hashRule c h).keep = true ↔ effRate c ≤ 1 ∨ h ≤ maxU64 / effRate c := by
  unfold hashRule bound
  by_cases hr : effRate c ≤ 1 <;> simp [hr]

/-- **stress_deterministic (same on every node)** — two nodes in arbitrary states, both stressed
and both without a decision for the trace, decide a span of that trace identically, whoever owns
the trace and whichever listener the span arrives on. -/
theorem stress_same_on_every_node (f₁ f₂ : Bool) (c : Cfg) (s₁ s₂ : St) (v₁ v₂ : Via)
    (w₁ w₂ : Option Nat) (e₁ e₂ : Ev) (h : Nat) (htid : e₁.c.tid = e₂.c.tid)
    (hs₁ : s₁.stressed = true) (hs₂ : s₂.stressed = true)
    (hp₁ : e₁.c.probe ≠ some true) (hp₂ : e₂.c.probe ≠ some true) (ht : e₁.c.tid ≠ 0)
    (hn₁ : AList.get s₁.sent e₁.c.tid = none) (hn₂ : AList.get s₂.sent e₂.c.tid = none) :
    sentUp (spanStep f₁ c s₁ v₁ w₁ e₁ h).2 = sentUp (spanStep f₂ c s₂ v₂ w₂ e₂ h).2 := by
  rw [(stress_deterministic f₁ c s₁ v₁ w₁ e₁ h hs₁ hp₁ ht hn₁).1,
      (stress_deterministic f₂ c s₂ v₂ w₂ e₂ h hs₂ hp₂ (htid ▸ ht) hn₂).1]

/-! ## stress_not_buffered -/

theorem buffers_keptStep (fixed : Bool) (s : St) (owner : Option Nat) (e0 e1 : Ev) (sent' : AList Nat Dec) :
    (keptStep fixed s owner e0 e1 sent').1.qIn = s.qIn ∧
    (keptStep fixed s owner e0 e1 sent').1.qPeer = s.qPeer ∧
    (keptStep fixed s owner e0 e1 sent').1.live = s.live := by
  cases fixed <;> cases owner <;> simp [keptStep]

/-- **stress_not_buffered** — while stress relief is active no arriving event is put on a collector
queue or into the trace buffer: it is dropped, or sent (and possibly probed) at once. -/
theorem stress_not_buffered (fixed : Bool) (c : Cfg) (s : St) (via : Via) (owner : Option Nat)
    (e : Ev) (h : Nat) (hst : s.stressed = true) :
    (spanStep fixed c s via owner e h).1.qIn = s.qIn ∧
    (spanStep fixed c s via owner e h).1.qPeer = s.qPeer ∧
    (spanStep fixed c s via owner e h).1.live = s.live := by
  unfold spanStep
  simp only [hst, if_true]
  split
  · simp
  · split
    · simp
    · split
      · simp
      · exact buffers_keptStep ..

/-! ## stress_remembered -/

/-- The node holds decision `d` for the trace and the trace is not in the trace buffer (which is
the situation right after a trace first seen under stress has been decided, see
`stress_records`). -/
def Remembered (s : St) (tid : Nat) (d : Dec) : Prop :=
  AList.get s.sent tid = some d ∧ AList.get s.live tid = none

theorem spanStep_live (fixed : Bool) (c : Cfg) (s : St) (via : Via) (owner : Option Nat) (e : Ev) (h : Nat) :
    (spanStep fixed c s via owner e h).1.live = s.live := by
  unfold spanStep
  simp only []
  split
  · rfl
  · split
    · rfl
    · split
      · split
        · rfl
        · exact (buffers_keptStep ..).2.2
      · split
        · rfl
        · split <;> rfl

theorem spanStep_sent_mono (fixed : Bool) (c : Cfg) (s : St) (via : Via) (owner : Option Nat) (e : Ev)
    (h t : Nat) (d : Dec) (hs : AList.get s.sent t = some d) :
    AList.get (spanStep fixed c s via owner e h).1.sent t = some d := by
  unfold spanStep
  simp only []
  split
  · exact hs
  · split
    · exact hs
    · split
      · split
        · exact immediate_get_mono _ _ _ _ _ _ hs
        · rw [sent_keptStep]; exact immediate_get_mono _ _ _ _ _ _ hs
      · split
        · exact hs
        · split <;> exact hs

theorem processSpan_remembered (s : St) (o : Nat) (via : Via) (tid : Nat) (d : Dec)
    (h : Remembered s tid d) : Remembered (processSpan s o via).1 tid d := by
  obtain ⟨h1, h2⟩ := h
  unfold processSpan
  simp only []
  split
  · rename_i l hl
    refine ⟨h1, ?_⟩
    simp only []
    rw [AList.get_put]
    by_cases ht : (s.store o).c.tid = tid
    · rw [ht, h2] at hl; cases hl
    · simp [ht, h2]
  · split
    · split
      · exact ⟨h1, h2⟩
      · exact ⟨h1, h2⟩
    · rename_i hn
      refine ⟨h1, ?_⟩
      simp only []
      rw [AList.get_put]
      by_cases ht : (s.store o).c.tid = tid
      · rw [ht, h1] at hn; cases hn
      · simp [ht, h2]

theorem remembered_step (fixed : Bool) (s : St) (op : Op) (tid : Nat) (d : Dec)
    (h : Remembered s tid d) : Remembered (step fixed s op).1 tid d := by
  cases op with
  | stress on => exact h
  | span via owner e hh =>
    exact ⟨spanStep_sent_mono _ _ _ _ _ _ _ _ _ h.1, by rw [step, spanStep_live]; exact h.2⟩
  | work =>
    simp only [step, workStep]
    split
    · exact processSpan_remembered _ _ _ _ _ h
    · split
      · exact processSpan_remembered _ _ _ _ _ h
      · exact h
  | flush tx => cases tx <;> exact h
  | reload n => exact h
  | decide t k r =>
    simp only [step, decideStep]
    split
    · exact h
    · rename_i hc
      refine ⟨?_, h.2⟩
      simp only []
      rw [AList.get_put]
      by_cases htt : t = tid
      · subst htt; simp [h.1] at hc
      · simp [htt, h.1]

theorem remembered_run (fixed : Bool) (ops : List Op) (s : St) (tid : Nat) (d : Dec)
    (h : Remembered s tid d) : Remembered (runFrom fixed s ops) tid d := by
  induction ops generalizing s with
  | nil => exact h
  | cons op ops ih => exact ih _ (remembered_step fixed s op tid d h)

/-- A trace first seen while stress relief is active (no decision yet, not buffered) has its
decision — the deterministic rule's — remembered from then on. -/
theorem stress_records (fixed : Bool) (c : Cfg) (s : St) (via : Via) (owner : Option Nat)
    (e : Ev) (h : Nat) (hst : s.stressed = true) (hp : e.c.probe ≠ some true) (ht : e.c.tid ≠ 0)
    (hnew : AList.get s.sent e.c.tid = none) (hlive : AList.get s.live e.c.tid = none) :
    Remembered (spanStep fixed c s via owner e h).1 e.c.tid (recordOf (hashRule c h)) :=
  ⟨(stress_deterministic fixed c s via owner e h hst hp ht hnew).2, by rw [spanStep_live]; exact hlive⟩

theorem rate_keptStep (fixed : Bool) (s : St) (owner : Option Nat) (e0 e1 : Ev) (sent' : AList Nat Dec) :
    ((keptStep fixed s owner e0 e1 sent').1.store s.next).rate = e1.rate := by
  cases fixed <;> cases owner <;> simp [keptStep, upd]

/-- **stress_remembered** — once a trace has a recorded decision `d` and is not buffered (it was
decided under stress, `stress_records`, or by the normal sampler before), then after *any* further
history (relief ending and starting again, the stress sampling rate being reloaded, other traffic,
worker progress, dispatches) and *whatever the sampling rate `c'` in force then*:
(a) a span of the trace arriving while stressed is kept iff the recorded decision says keep, and
    is sent with its own sample rate times the **recorded** rate;
(b) a late span of the trace that went through the collector's queue (relief has ended) is sent
    upstream iff the recorded decision says keep, with its own sample rate times the recorded rate,
    and is never put into the trace buffer. -/
theorem stress_remembered (fixed : Bool) (s : St) (tid : Nat) (d : Dec)
    (hrec : Remembered s tid d) (ops : List Op) :
    (∀ c' via owner e h, e.c.tid = tid → tid ≠ 0 → e.c.probe ≠ some true →
        (runFrom fixed s ops).stressed = true →
        sentUp (spanStep fixed c' (runFrom fixed s ops) via owner e h).2 = d.keep ∧
        (d.keep = true →
          ((spanStep fixed c' (runFrom fixed s ops) via owner e h).1.store (runFrom fixed s ops).next).rate
            = mergeRate e.rate d.rate)) ∧
    (∀ o via, ((runFrom fixed s ops).store o).c.tid = tid →
        sentUp (processSpan (runFrom fixed s ops) o via).2 = d.keep ∧
        (d.keep = true → ((processSpan (runFrom fixed s ops) o via).1.store o).rate
            = mergeRate ((runFrom fixed s ops).store o).rate d.rate) ∧
        (processSpan (runFrom fixed s ops) o via).1.live = (runFrom fixed s ops).live) := by
  have hr := remembered_run fixed ops s tid d hrec
  generalize runFrom fixed s ops = s' at hr
  obtain ⟨h1, h2⟩ := hr
  constructor
  · intro c' via owner e h het ht hp hst
    subst het
    unfold spanStep
    simp only [hp, ht, hst, if_false, if_true, immediate_of_some h1]
    cases hk : d.keep
    · simp [sentUp]
    · simp [sentUp_keptStep, rate_keptStep]
  · intro o via het
    unfold processSpan
    simp only [het, h1, h2]
    cases hk : d.keep <;> simp [sentUp, upd]

/-! ## stress_delivery: definitions -/

/-- number of slots object `x` occupies in the batches of a transmission -/
def occ (b : Batches) (x : Nat) : Nat := (b.map (fun kl => kl.2.count x)).sum

/-- number of events with span id `x` received so far by Honeycomb endpoints (codes < 10) -/
def honeyCount (w : List Req) (x : Nat) : Nat :=
  (w.map (fun r => if r.dest < 10 then r.evs.countP (fun ev => ev.c.sid == x) else 0)).sum

def AllB (P : BKey → Nat → Prop) (b : Batches) : Prop := ∀ kl ∈ b, ∀ x ∈ kl.2, P kl.1 x

theorem AllB.mono {P Q : BKey → Nat → Prop} {b : Batches} (h : AllB P b)
    (hpq : ∀ k x, P k x → Q k x) : AllB Q b :=
  fun kl hkl x hx => hpq _ _ (h kl hkl x hx)

theorem allB_nil (P : BKey → Nat → Prop) : AllB P [] := by
  intro kl hkl; cases hkl

theorem allB_enq {P : BKey → Nat → Prop} {b : Batches} {k : BKey} {o : Nat}
    (hb : AllB P b) (h : P k o) : AllB P (enq b k o) := by
  induction b with
  | nil =>
    intro kl hkl x hx
    simp only [enq, List.mem_singleton] at hkl
    subst hkl
    simp only [List.mem_singleton] at hx
    subst hx
    exact h
  | cons kl r ih =>
    obtain ⟨k', l⟩ := kl
    have hr : AllB P r := fun kl hkl => hb kl (List.mem_cons_of_mem _ hkl)
    have hh : ∀ x ∈ l, P k' x := fun x hx => hb (k', l) (List.mem_cons_self ..) x hx
    unfold enq
    split
    · rename_i hk
      subst hk
      intro kl hkl x hx
      rcases List.mem_cons.mp hkl with e | e
      · subst e
        rcases List.mem_append.mp hx with hx | hx
        · exact hh x hx
        · simp only [List.mem_singleton] at hx
          subst hx
          exact h
      · exact hr kl e x hx
    · intro kl hkl x hx
      rcases List.mem_cons.mp hkl with e | e
      · subst e
        exact hh x hx
      · exact ih hr kl e x hx

theorem occ_nil (x : Nat) : occ [] x = 0 := rfl

theorem occ_enq (b : Batches) (k : BKey) (o x : Nat) :
    occ (enq b k o) x = occ b x + (if o = x then 1 else 0) := by
  induction b with
  | nil => simp [enq, occ, List.count_cons]
  | cons kl r ih =>
    obtain ⟨k', l⟩ := kl
    unfold enq
    split
    · simp only [occ, List.map_cons, List.sum_cons, List.count_append, List.count_cons, List.count_nil]
      by_cases hox : o = x <;> simp [hox] <;> omega
    · simp only [occ, List.map_cons, List.sum_cons] at ih ⊢
      rw [ih]; omega

theorem occ_zero_of_allB {b : Batches} {x : Nat} (h : AllB (fun _ y => y ≠ x) b) : occ b x = 0 := by
  induction b with
  | nil => rfl
  | cons kl r ih =>
    have hr : AllB (fun _ y => y ≠ x) r := fun kl hkl => h kl (List.mem_cons_of_mem _ hkl)
    have hh : ∀ y ∈ kl.2, y ≠ x := fun y hy => h kl (List.mem_cons_self ..) y hy
    have hc : kl.2.count x = 0 := List.count_eq_zero.mpr (fun hx => hh x hx rfl)
    simp only [occ, List.map_cons, List.sum_cons] at ih ⊢
    rw [ih hr, hc]

theorem honeyCount_append (w₁ w₂ : List Req) (x : Nat) :
    honeyCount (w₁ ++ w₂) x = honeyCount w₁ x + honeyCount w₂ x := by
  simp [honeyCount, List.sum_append]

theorem honeyCount_zero_of_sid {w : List Req} {x : Nat}
    (h : ∀ r ∈ w, ∀ ev ∈ r.evs, ev.c.sid ≠ x) : honeyCount w x = 0 := by
  induction w with
  | nil => rfl
  | cons r w ih =>
    have hc : r.evs.countP (fun ev => ev.c.sid == x) = 0 := by
      rw [List.countP_eq_zero]
      intro ev hev
      simpa using h r (List.mem_cons_self ..) ev hev
    simp only [honeyCount, List.map_cons, List.sum_cons] at ih ⊢
    rw [ih (fun r hr => h r (List.mem_cons_of_mem _ hr)), hc]
    simp

theorem countP_map_sid (store : Nat → Ev) (l : List Nat) (x : Nat)
    (h : ∀ y ∈ l, (store y).c.sid = y) :
    (l.map store).countP (fun ev => ev.c.sid == x) = l.count x := by
  induction l with
  | nil => rfl
  | cons y l ih =>
    have hy := h y (List.mem_cons_self ..)
    have hl := ih (fun z hz => h z (List.mem_cons_of_mem _ hz))
    simp only [List.map_cons, List.countP_cons, List.count_cons, hl, hy]

/-- a dispatch of upstream batches whose objects are originals addressed to Honeycomb delivers
every slot exactly once -/
theorem honeyCount_sendAll_up (store : Nat → Ev) (b : Batches) (x : Nat)
    (h : AllB (fun _ o => (store o).c.sid = o ∧ (store o).c.host < 10) b) :
    honeyCount (sendAll store .up b) x = occ b x := by
  induction b with
  | nil => rfl
  | cons kl r ih =>
    have hr : AllB (fun _ o => (store o).c.sid = o ∧ (store o).c.host < 10) r :=
      fun kl hkl => h kl (List.mem_cons_of_mem _ hkl)
    have hh := h kl (List.mem_cons_self ..)
    have ih' := ih hr
    simp only [sendAll, List.flatMap_cons, occ, List.map_cons, List.sum_cons] at ih' ⊢
    rw [honeyCount_append, ih']
    congr 1
    cases hl : kl.2 with
    | nil => simp [sendBatch, honeyCount]
    | cons o l =>
      rw [hl] at hh
      have ho := (hh o (List.mem_cons_self ..)).2
      simp only [sendBatch, honeyCount, List.map_cons, List.map_nil, List.sum_cons, List.sum_nil, ho, if_true,
        Nat.add_zero]
      rw [← List.map_cons, countP_map_sid store (o :: l) x (fun y hy => (hh y hy).1)]

theorem honeyCount_sendAll_peer (store : Nat → Ev) (tx : Tx) (b : Batches) (x : Nat)
    (h : AllB (fun _ o => 10 ≤ (store o).c.host) b) : honeyCount (sendAll store tx b) x = 0 := by
  induction b with
  | nil => rfl
  | cons kl r ih =>
    have hr : AllB (fun _ o => 10 ≤ (store o).c.host) r := fun kl hkl => h kl (List.mem_cons_of_mem _ hkl)
    have hh := h kl (List.mem_cons_self ..)
    have ih' := ih hr
    simp only [sendAll, List.flatMap_cons] at ih' ⊢
    rw [honeyCount_append, ih']
    cases hl : kl.2 with
    | nil => simp [sendBatch, honeyCount]
    | cons o l =>
      rw [hl] at hh
      have ho := hh o (List.mem_cons_self ..)
      have : ¬ (store o).c.host < 10 := by omega
      simp [sendBatch, honeyCount, this]

/-! ## stress_delivery: the invariant -/

/-- An object waiting in an upstream batch is an original (its span id is its own id), still reads
the destination, key and dataset it was filed under, that destination is a Honeycomb endpoint, and
(`strict`) it does not carry the probe marker. -/
def UpOK (strict : Bool) (s : St) (k : BKey) (o : Nat) : Prop :=
  o < s.next ∧ (s.store o).c.sid = o ∧ keyOf (s.store o) = k ∧ k.host < 10 ∧
    (strict = true → (s.store o).c.probe ≠ some true)

def PeerOK (s : St) (_ : BKey) (o : Nat) : Prop :=
  o < s.next ∧ 10 ≤ (s.store o).c.host ∧ (s.store o).c.sid < s.next

def QOK (s : St) (o : Nat) : Prop :=
  o < s.next ∧ (s.store o).c.sid = o ∧ (s.store o).c.host < 10 ∧ (s.store o).c.stressed = false ∧
    (s.store o).c.probe ≠ some true

/-- the object still is the span that arrived, marked `meta.stressed` -/
def KeptCore (strict : Bool) (cur a : Core) : Prop :=
  cur.sid = a.sid ∧ cur.tid = a.tid ∧ cur.host = a.host ∧ cur.key = a.key ∧ cur.ds = a.ds ∧
    cur.fields = a.fields ∧ cur.stressed = true ∧ (strict = true → cur.probe = a.probe)

def KeptOK (strict : Bool) (s : St) (ka : Nat × Ev) : Prop :=
  ka.1 < s.next ∧ ka.2.c.sid = ka.1 ∧ ka.2.c.host < 10 ∧ ka.2.c.probe ≠ some true ∧
    KeptCore strict (s.store ka.1).c ka.2.c

/-- what Honeycomb got for the span that arrived as `a`: the right endpoint, key and dataset, the
span's trace id and fields, the `meta.stressed` mark -/
def Intact (r : Req) (ev a : Ev) : Prop :=
  r.dest = a.c.host ∧ r.key = a.c.key ∧ r.ds = a.c.ds ∧ ev.c.tid = a.c.tid ∧
    ev.c.fields = a.c.fields ∧ ev.c.stressed = true

def WireOK (strict : Bool) (kept : List (Nat × Ev)) (r : Req) : Prop :=
  r.dest < 10 → ∀ ev ∈ r.evs, (strict = true → ev.c.probe ≠ some true) ∧
    ∀ ka ∈ kept, ev.c.sid = ka.1 → Intact r ev ka.2 ∧ (strict = true → ev.c.probe = ka.2.c.probe)

structure Inv (strict : Bool) (s : St) : Prop where
  up : AllB (UpOK strict s) s.up
  peer : AllB (PeerOK s) s.peer
  qi : ∀ o ∈ s.qIn, QOK s o
  qp : ∀ o ∈ s.qPeer, QOK s o
  kept : ∀ ka ∈ s.kept, KeptOK strict s ka
  once : ∀ ka ∈ s.kept, occ s.up ka.1 + honeyCount s.wire ka.1 = 1
  wsid : ∀ r ∈ s.wire, ∀ ev ∈ r.evs, ev.c.sid < s.next
  wire : ∀ r ∈ s.wire, WireOK strict s.kept r

theorem inv_init (strict : Bool) (c : Cfg) : Inv strict (init c) := by
  refine ⟨allB_nil _, allB_nil _, ?_, ?_, ?_, ?_, ?_, ?_⟩ <;> intro x hx <;> cases hx

theorem keyOf_congr {a b : Ev} (h : a.c = b.c) : keyOf a = keyOf b := by simp [keyOf, h]

/-- `s'` has at least the objects of `s`, with the same fixed parts -/
@[reducible] def Frame (s s' : St) : Prop := s.next ≤ s'.next ∧ ∀ i, i < s.next → (s'.store i).c = (s.store i).c

theorem upOK_frame {strict : Bool} {s s' : St} (hf : Frame s s') {k : BKey} {o : Nat}
    (h : UpOK strict s k o) : UpOK strict s' k o := by
  obtain ⟨h1, h2, h3, h4, h5⟩ := h
  have hc := hf.2 o h1
  exact ⟨Nat.lt_of_lt_of_le h1 hf.1, by rw [hc]; exact h2, by rw [keyOf_congr hc]; exact h3, h4,
    by rw [hc]; exact h5⟩

theorem peerOK_frame {s s' : St} (hf : Frame s s') {k : BKey} {o : Nat}
    (h : PeerOK s k o) : PeerOK s' k o := by
  obtain ⟨h1, h2, h3⟩ := h
  have hc := hf.2 o h1
  exact ⟨Nat.lt_of_lt_of_le h1 hf.1, by rw [hc]; exact h2, by rw [hc]; exact Nat.lt_of_lt_of_le h3 hf.1⟩

theorem qOK_frame {s s' : St} (hf : Frame s s') {o : Nat} (h : QOK s o) : QOK s' o := by
  obtain ⟨h1, h2, h3, h4, h5⟩ := h
  have hc := hf.2 o h1
  exact ⟨Nat.lt_of_lt_of_le h1 hf.1, by rw [hc]; exact h2, by rw [hc]; exact h3, by rw [hc]; exact h4,
    by rw [hc]; exact h5⟩

theorem keptOK_frame {strict : Bool} {s s' : St} (hf : Frame s s') {ka : Nat × Ev}
    (h : KeptOK strict s ka) : KeptOK strict s' ka := by
  obtain ⟨h1, h2, h3, h4, h5⟩ := h
  have hc := hf.2 ka.1 h1
  exact ⟨Nat.lt_of_lt_of_le h1 hf.1, h2, h3, h4, by rw [hc]; exact h5⟩

theorem frame_upd_next (s : St) (e : Ev) (n : Nat) (hn : s.next ≤ n) (st : Nat → Ev)
    (hst : ∀ i, i < s.next → (st i).c = (s.store i).c) :
    ∀ i, i < s.next → (upd st n e i).c = (s.store i).c := by
  intro i hi
  have : i ≠ n := by omega
  simp [upd, this, hst i hi]

/-- fresh objects are in no upstream batch -/
theorem occ_fresh {strict : Bool} {s : St} (h : AllB (UpOK strict s) s.up) {x : Nat}
    (hx : s.next ≤ x) : occ s.up x = 0 :=
  occ_zero_of_allB (h.mono (fun _ y hy => by have := hy.1; omega))

theorem honey_fresh {s : St} (h : ∀ r ∈ s.wire, ∀ ev ∈ r.evs, ev.c.sid < s.next) {x : Nat}
    (hx : s.next ≤ x) : honeyCount s.wire x = 0 :=
  honeyCount_zero_of_sid (fun r hr ev hev => by have := h r hr ev hev; omega)

/-- the bookkeeping for a new kept span `(o, a)` queued upstream, `o` fresh -/
theorem once_kept {strict : Bool} {s : St} (hI : Inv strict s) (k : BKey) (a : Ev) :
    ∀ ka ∈ s.kept ++ [(s.next, a)], occ (enq s.up k s.next) ka.1 + honeyCount s.wire ka.1 = 1 := by
  intro ka hka
  rw [occ_enq]
  rcases List.mem_append.mp hka with h | h
  · have h1 := (hI.kept ka h).1
    have : s.next ≠ ka.1 := by omega
    simp only [this, if_false, Nat.add_zero]
    exact hI.once ka h
  · simp only [List.mem_singleton] at h
    subst h
    simp only [if_true]
    rw [occ_fresh hI.up (Nat.le_refl _), honey_fresh hI.wsid (Nat.le_refl _)]

theorem wire_kept {strict : Bool} {s : St} (hI : Inv strict s) (a : Ev) :
    ∀ r ∈ s.wire, WireOK strict (s.kept ++ [(s.next, a)]) r := by
  intro r hr hd ev hev
  obtain ⟨h1, h2⟩ := hI.wire r hr hd ev hev
  refine ⟨h1, ?_⟩
  intro ka hka hs
  rcases List.mem_append.mp hka with h | h
  · exact h2 ka h hs
  · simp only [List.mem_singleton] at h
    subst h
    have := hI.wsid r hr ev hev
    simp only at hs
    omega

/-! ## stress_delivery: every step keeps the invariant -/

/-- inputs the property speaks about: events arrive addressed to a Honeycomb endpoint (code < 10),
peers have addresses that are not Honeycomb endpoints (code ≥ 10) -/
def ValidOp : Op → Prop
  | .span _ owner e _ => e.c.host < 10 ∧ ∀ a, owner = some a → 10 ≤ a
  | _ => True

/-- every span of the operation is owned by this node (no peer to probe) -/
def OwnedOp : Op → Prop
  | .span _ owner _ _ => owner = none
  | _ => True

theorem inv_same_kept {strict : Bool} {s s' : St} (hI : Inv strict s) (hf : Frame s s')
    (hup : AllB (UpOK strict s') s'.up) (hpeer : AllB (PeerOK s') s'.peer)
    (hqi : ∀ o ∈ s'.qIn, QOK s' o) (hqp : ∀ o ∈ s'.qPeer, QOK s' o)
    (hkept : s'.kept = s.kept) (hwire : s'.wire = s.wire)
    (hocc : ∀ ka ∈ s.kept, occ s'.up ka.1 = occ s.up ka.1) : Inv strict s' :=
  ⟨hup, hpeer, hqi, hqp,
   by rw [hkept]; exact fun ka h => keptOK_frame hf (hI.kept ka h),
   by rw [hkept, hwire]; intro ka h; rw [hocc ka h]; exact hI.once ka h,
   by rw [hwire]; exact fun r hr ev hev => Nat.lt_of_lt_of_le (hI.wsid r hr ev hev) hf.1,
   by rw [hwire, hkept]; exact hI.wire⟩

theorem inv_new_kept {strict : Bool} {s s' : St} (hI : Inv strict s) (hf : Frame s s') (e0 : Ev) (k : BKey)
    (hup : s'.up = enq s.up k s.next) (hupok : UpOK strict s' k s.next)
    (hpeer : AllB (PeerOK s') s'.peer)
    (hqi : s'.qIn = s.qIn) (hqp : s'.qPeer = s.qPeer)
    (hkept : s'.kept = s.kept ++ [(s.next, e0)]) (hkok : KeptOK strict s' (s.next, e0))
    (hwire : s'.wire = s.wire) : Inv strict s' := by
  refine ⟨?_, hpeer, ?_, ?_, ?_, ?_, ?_, ?_⟩
  · rw [hup]; exact allB_enq (hI.up.mono (fun _ _ h => upOK_frame hf h)) hupok
  · rw [hqi]; exact fun o ho => qOK_frame hf (hI.qi o ho)
  · rw [hqp]; exact fun o ho => qOK_frame hf (hI.qp o ho)
  · rw [hkept]
    intro ka hka
    rcases List.mem_append.mp hka with h | h
    · exact keptOK_frame hf (hI.kept ka h)
    · simp only [List.mem_singleton] at h; subst h; exact hkok
  · rw [hkept, hup, hwire]; exact once_kept hI k e0
  · rw [hwire]; exact fun r hr ev hev => Nat.lt_of_lt_of_le (hI.wsid r hr ev hev) hf.1
  · rw [hwire, hkept]; exact wire_kept hI e0

theorem frame_succ (s : St) (e : Ev) :
    Frame s { s with next := s.next + 1, store := upd s.store s.next e } :=
  ⟨Nat.le_succ _, frame_upd_next s e s.next (Nat.le_refl _) s.store (fun _ _ => rfl)⟩

theorem upd_same (f : Nat → Ev) (o : Nat) (e : Ev) : upd f o e o = e := by simp [upd]

theorem inv_keptStep {strict : Bool} (fixed : Bool) {s : St} (hI : Inv strict s) (owner : Option Nat)
    (e0 : Ev) (r : Nat) (sent' : AList Nat Dec)
    (hsid : e0.c.sid = s.next) (hhost : e0.c.host < 10) (hp : e0.c.probe ≠ some true)
    (hown : ∀ a, owner = some a → 10 ≤ a)
    (hmode : fixed = true ∨ (strict = false ∧ owner = none)) :
    Inv strict (keptStep fixed s owner e0 { e0 with c := { e0.c with stressed := true }, rate := r } sent').1 := by
  cases fixed with
  | false =>
    rcases hmode with h | ⟨hs, ho⟩
    · cases h
    · subst hs; subst ho
      simp only [keptStep]
      refine inv_new_kept hI (frame_succ s _) e0 _ rfl ?_ ?_ rfl rfl rfl ?_ rfl
      · refine ⟨Nat.lt_succ_self _, ?_, ?_, hhost, fun h => by cases h⟩
        · simp [upd_same, hsid]
        · simp [upd_same, keyOf]
      · exact hI.peer.mono (fun _ _ h => peerOK_frame (frame_succ s _) h)
      · refine ⟨Nat.lt_succ_self _, hsid, hhost, hp, ?_⟩
        simp [upd_same, KeptCore]
  | true =>
    cases owner with
    | none =>
      simp only [keptStep]
      refine inv_new_kept hI (frame_succ s _) e0 _ rfl ?_ ?_ rfl rfl rfl ?_ rfl
      · refine ⟨Nat.lt_succ_self _, ?_, ?_, hhost, fun _ => ?_⟩
        · simp [upd_same, hsid]
        · simp [upd_same]
        · simp [upd_same, hp]
      · exact hI.peer.mono (fun _ _ h => peerOK_frame (frame_succ s _) h)
      · refine ⟨Nat.lt_succ_self _, hsid, hhost, hp, ?_⟩
        simp [upd_same, KeptCore]
    | some a =>
      have ha := hown a rfl
      simp only [keptStep]
      have hne : s.next ≠ s.next + 1 := by omega
      have hst : ∀ (e p : Ev) i, i < s.next → (upd (upd s.store s.next e) (s.next + 1) p i).c = (s.store i).c :=
        fun e p => frame_upd_next s _ (s.next + 1) (by omega) _
          (frame_upd_next s _ s.next (Nat.le_refl _) s.store (fun _ _ => rfl))
      refine inv_new_kept hI ⟨by simp, hst _ _⟩ e0 _ rfl ?_ ?_ rfl rfl rfl ?_ rfl
      · refine ⟨by simp, ?_, ?_, hhost, fun _ => ?_⟩
        · simp [upd, hne, hsid]
        · simp [upd, hne]
        · simp [upd, hne, hp]
      · refine allB_enq (hI.peer.mono (fun _ _ h => peerOK_frame ⟨by simp, hst _ _⟩ h)) ⟨by simp, ?_, ?_⟩
        · simp [upd, ha]
        · simp [upd, hsid]
      · refine ⟨by simp, hsid, hhost, hp, ?_⟩
        simp [upd, hne, KeptCore]

theorem occ_enq_other {s : St} (k : BKey) (o : Nat)
    (ho : ∀ ka ∈ s.kept, o ≠ ka.1) : ∀ ka ∈ s.kept, occ (enq s.up k o) ka.1 = occ s.up ka.1 := by
  intro ka hka
  rw [occ_enq]
  simp [ho ka hka]

theorem fresh_ne_kept {strict : Bool} {s : St} (hI : Inv strict s) : ∀ ka ∈ s.kept, s.next ≠ ka.1 := by
  intro ka hka
  have := (hI.kept ka hka).1
  omega

theorem qOK_new {s' : St} {o : Nat} {e : Ev} (hn : o < s'.next) (hst : s'.store o = e)
    (h1 : e.c.sid = o) (h2 : e.c.host < 10) (h3 : e.c.stressed = false) (h4 : e.c.probe ≠ some true) :
    QOK s' o := by
  subst hst; exact ⟨hn, h1, h2, h3, h4⟩

theorem inv_spanStep {strict : Bool} (fixed : Bool) (c : Cfg) {s : St} (hI : Inv strict s)
    (via : Via) (owner : Option Nat) (e : Ev) (h : Nat)
    (hv : ValidOp (.span via owner e h))
    (hmode : fixed = true ∨ (strict = false ∧ owner = none)) :
    Inv strict (spanStep fixed c s via owner e h).1 := by
  obtain ⟨hhost, hown⟩ := hv
  unfold spanStep
  simp only []
  split
  · -- a probe: dropped
    exact inv_same_kept hI (frame_succ s _)
      (hI.up.mono (fun _ _ h => upOK_frame (frame_succ s _) h))
      (hI.peer.mono (fun _ _ h => peerOK_frame (frame_succ s _) h))
      (fun o ho => qOK_frame (frame_succ s _) (hI.qi o ho))
      (fun o ho => qOK_frame (frame_succ s _) (hI.qp o ho)) rfl rfl (fun _ _ => rfl)
  · rename_i hp
    split
    · -- no trace id: upstream
      refine inv_same_kept hI (frame_succ s _)
        (allB_enq (hI.up.mono (fun _ _ h => upOK_frame (frame_succ s _) h)) ?_)
        (hI.peer.mono (fun _ _ h => peerOK_frame (frame_succ s _) h))
        (fun o ho => qOK_frame (frame_succ s _) (hI.qi o ho))
        (fun o ho => qOK_frame (frame_succ s _) (hI.qp o ho)) rfl rfl
        (occ_enq_other _ _ (fresh_ne_kept hI))
      refine ⟨Nat.lt_succ_self _, ?_, ?_, hhost, fun _ => ?_⟩
      · simp [upd_same]
      · simp [upd_same]
      · simp [upd_same, hp]
    · split
      · split
        · -- stress relief drops the span
          exact inv_same_kept hI (frame_succ s _)
            (hI.up.mono (fun _ _ h => upOK_frame (frame_succ s _) h))
            (hI.peer.mono (fun _ _ h => peerOK_frame (frame_succ s _) h))
            (fun o ho => qOK_frame (frame_succ s _) (hI.qi o ho))
            (fun o ho => qOK_frame (frame_succ s _) (hI.qp o ho)) rfl rfl (fun _ _ => rfl)
        · -- stress relief keeps the span
          exact inv_keptStep fixed hI owner _ _ _ rfl hhost hp hown hmode
      · split
        · -- forwarded to the owner
          rename_i a
          have ha := hown a rfl
          refine inv_same_kept hI (frame_succ s _)
            (hI.up.mono (fun _ _ h => upOK_frame (frame_succ s _) h))
            (allB_enq (hI.peer.mono (fun _ _ h => peerOK_frame (frame_succ s _) h)) ?_)
            (fun o ho => qOK_frame (frame_succ s _) (hI.qi o ho))
            (fun o ho => qOK_frame (frame_succ s _) (hI.qp o ho)) rfl rfl (fun _ _ => rfl)
          exact ⟨Nat.lt_succ_self _, by simp [upd_same, ha], by simp [upd_same]⟩
        · -- collected locally
          split
          · refine inv_same_kept hI (frame_succ s _)
              (hI.up.mono (fun _ _ h => upOK_frame (frame_succ s _) h))
              (hI.peer.mono (fun _ _ h => peerOK_frame (frame_succ s _) h))
              ?_ (fun o ho => qOK_frame (frame_succ s _) (hI.qp o ho)) rfl rfl (fun _ _ => rfl)
            intro o ho
            rcases List.mem_append.mp ho with ho | ho
            · exact qOK_frame (frame_succ s _) (hI.qi o ho)
            · simp only [List.mem_singleton] at ho; subst ho; exact qOK_new (Nat.lt_succ_self _) (upd_same ..) rfl hhost rfl hp
          · refine inv_same_kept hI (frame_succ s _)
              (hI.up.mono (fun _ _ h => upOK_frame (frame_succ s _) h))
              (hI.peer.mono (fun _ _ h => peerOK_frame (frame_succ s _) h))
              (fun o ho => qOK_frame (frame_succ s _) (hI.qi o ho)) ?_ rfl rfl (fun _ _ => rfl)
            intro o ho
            rcases List.mem_append.mp ho with ho | ho
            · exact qOK_frame (frame_succ s _) (hI.qp o ho)
            · simp only [List.mem_singleton] at ho; subst ho; exact qOK_new (Nat.lt_succ_self _) (upd_same ..) rfl hhost rfl hp

theorem frame_of {s s' : St} (hn : s.next ≤ s'.next)
    (hst : ∀ i, i < s.next → (s'.store i).c = (s.store i).c) : Frame s s' := ⟨hn, hst⟩

theorem upd_rate_c (st : Nat → Ev) (o r : Nat) :
    ∀ i, (upd st o { st o with rate := r } i).c = (st i).c := by
  intro i
  unfold upd
  split
  · rename_i h; subst h; rfl
  · rfl

theorem inv_late {strict : Bool} {s s' : St} (hI : Inv strict s) (o r : Nat) (hq : QOK s o)
    (h1 : s'.next = s.next) (h2 : s'.store = upd s.store o { s.store o with rate := r })
    (h3 : s'.up = enq s.up (keyOf (s.store o)) o) (h4 : s'.peer = s.peer)
    (h5 : s'.qIn = s.qIn) (h6 : s'.qPeer = s.qPeer) (h7 : s'.kept = s.kept) (h8 : s'.wire = s.wire) :
    Inv strict s' := by
  have hf : Frame s s' :=
    ⟨by rw [h1]; exact Nat.le_refl _, fun i _ => by rw [h2]; exact upd_rate_c s.store o r i⟩
  obtain ⟨q1, q2, q3, q4, q5⟩ := hq
  refine inv_same_kept hI hf ?_ ?_ ?_ ?_ h7 h8 ?_
  · rw [h3]
    refine allB_enq (hI.up.mono (fun _ _ h => upOK_frame hf h))
      ⟨by rw [h1]; exact q1, ?_, ?_, q3, fun _ => ?_⟩
    · rw [h2]; simp [upd_same, q2]
    · rw [h2]; simp [upd_same, keyOf]
    · rw [h2]; simp [upd_same, q5]
  · rw [h4]; exact hI.peer.mono (fun _ _ h => peerOK_frame hf h)
  · rw [h5]; exact fun x hx => qOK_frame hf (hI.qi x hx)
  · rw [h6]; exact fun x hx => qOK_frame hf (hI.qp x hx)
  · rw [h3]
    refine occ_enq_other _ _ (fun ka hka heq => ?_)
    have hk := (hI.kept ka hka).2.2.2.2.2.2.2.2.2.2.1
    rw [← heq, q4] at hk
    cases hk

theorem inv_processSpan {strict : Bool} {s : St} (hI : Inv strict s) (o : Nat) (via : Via)
    (hq : QOK s o) : Inv strict (processSpan s o via).1 := by
  unfold processSpan
  simp only []
  split
  · exact ⟨hI.up, hI.peer, hI.qi, hI.qp, hI.kept, hI.once, hI.wsid, hI.wire⟩
  · split
    · rename_i d _
      split
      · -- a late span of a kept trace: sample rate merged, sent upstream
        apply inv_late hI o (mergeRate (s.store o).rate d.rate) hq <;> rfl
      · exact hI
    · exact ⟨hI.up, hI.peer, hI.qi, hI.qp, hI.kept, hI.once, hI.wsid, hI.wire⟩

theorem inv_workStep {strict : Bool} {s : St} (hI : Inv strict s) : Inv strict (workStep s).1 := by
  unfold workStep
  split
  · rename_i o r hqp
    have hI' : Inv strict { s with qPeer := r } :=
      ⟨hI.up, hI.peer, hI.qi, fun x hx => hI.qp x (by rw [hqp]; exact List.mem_cons_of_mem _ hx),
        hI.kept, hI.once, hI.wsid, hI.wire⟩
    exact inv_processSpan hI' o .peer (hI.qp o (by rw [hqp]; exact List.mem_cons_self ..))
  · split
    · rename_i o r hqi
      have hI' : Inv strict { s with qIn := r } :=
        ⟨hI.up, hI.peer, fun x hx => hI.qi x (by rw [hqi]; exact List.mem_cons_of_mem _ hx), hI.qp,
          hI.kept, hI.once, hI.wsid, hI.wire⟩
      exact inv_processSpan hI' o .incoming (hI.qi o (by rw [hqi]; exact List.mem_cons_self ..))
    · exact hI

theorem mem_sendAll {store : Nat → Ev} {tx : Tx} {b : Batches} {r : Req} (h : r ∈ sendAll store tx b) :
    ∃ kl ∈ b, ∃ o l, kl.2 = o :: l ∧
      r = ⟨tx, (store o).c.host, (store o).c.key, (store o).c.ds, kl.2.map store⟩ := by
  simp only [sendAll, List.mem_flatMap] at h
  obtain ⟨kl, hkl, hr⟩ := h
  refine ⟨kl, hkl, ?_⟩
  cases hl : kl.2 with
  | nil => rw [hl] at hr; simp [sendBatch] at hr
  | cons o l =>
    rw [hl] at hr
    simp only [sendBatch, List.mem_singleton] at hr
    exact ⟨o, l, rfl, hr⟩

theorem upOK_host {strict : Bool} {s : St} {k : BKey} {o : Nat} (h : UpOK strict s k o) :
    (s.store o).c.host = k.host ∧ (s.store o).c.key = k.key ∧ (s.store o).c.ds = k.ds := by
  have hk := h.2.2.1
  rw [← hk]
  exact ⟨rfl, rfl, rfl⟩

theorem inv_flushUp {strict : Bool} {s : St} (hI : Inv strict s) : Inv strict (flushStep s .up).1 := by
  simp only [flushStep]
  have hu : AllB (fun _ o => (s.store o).c.sid = o ∧ (s.store o).c.host < 10) s.up :=
    hI.up.mono (fun k o h => ⟨h.2.1, by rw [(upOK_host h).1]; exact h.2.2.2.1⟩)
  refine ⟨allB_nil _, hI.peer, hI.qi, hI.qp, hI.kept, ?_, ?_, ?_⟩
  · intro ka hka
    show occ [] ka.1 + honeyCount (s.wire ++ sendAll s.store .up s.up) ka.1 = 1
    rw [honeyCount_append, honeyCount_sendAll_up _ _ _ hu, occ_nil]
    have := hI.once ka hka
    omega
  · intro r hr ev hev
    rcases List.mem_append.mp hr with h | h
    · exact hI.wsid r h ev hev
    · obtain ⟨kl, hkl, o, l, _, rfl⟩ := mem_sendAll h
      simp only [List.mem_map] at hev
      obtain ⟨y, hy, rfl⟩ := hev
      have := hI.up kl hkl y hy
      rw [this.2.1]; exact this.1
  · intro r hr
    rcases List.mem_append.mp hr with h | h
    · exact hI.wire r h
    · obtain ⟨kl, hkl, o, l, hl, rfl⟩ := mem_sendAll h
      intro _ ev hev
      simp only [List.mem_map] at hev
      obtain ⟨y, hy, rfl⟩ := hev
      have hy' := hI.up kl hkl y hy
      have ho' := hI.up kl hkl o (by rw [hl]; exact List.mem_cons_self ..)
      refine ⟨hy'.2.2.2.2, ?_⟩
      intro ka hka hs
      have hyk : y = ka.1 := hy'.2.1.symm.trans hs
      subst hyk
      obtain ⟨_, _, _, _, c1, c2, c3, c4, c5, c6, c7, c8⟩ := hI.kept ka hka
      obtain ⟨a1, a2, a3⟩ := upOK_host ho'
      obtain ⟨b1, b2, b3⟩ := upOK_host hy'
      exact ⟨⟨by simp only [a1, ← b1, c3], by simp only [a2, ← b2, c4], by simp only [a3, ← b3, c5], c2, c6, c7⟩, c8⟩

theorem inv_flushPeer {strict : Bool} {s : St} (hI : Inv strict s) : Inv strict (flushStep s .peer).1 := by
  simp only [flushStep]
  have hu : AllB (fun _ o => 10 ≤ (s.store o).c.host) s.peer := hI.peer.mono (fun _ _ h => h.2.1)
  refine ⟨hI.up, allB_nil _, hI.qi, hI.qp, hI.kept, ?_, ?_, ?_⟩
  · intro ka hka
    show occ s.up ka.1 + honeyCount (s.wire ++ sendAll s.store .peer s.peer) ka.1 = 1
    rw [honeyCount_append, honeyCount_sendAll_peer _ _ _ _ hu]
    exact hI.once ka hka
  · intro r hr ev hev
    rcases List.mem_append.mp hr with h | h
    · exact hI.wsid r h ev hev
    · obtain ⟨kl, hkl, o, l, _, rfl⟩ := mem_sendAll h
      simp only [List.mem_map] at hev
      obtain ⟨y, hy, rfl⟩ := hev
      exact (hI.peer kl hkl y hy).2.2
  · intro r hr
    rcases List.mem_append.mp hr with h | h
    · exact hI.wire r h
    · obtain ⟨kl, hkl, o, l, hl, rfl⟩ := mem_sendAll h
      intro hd
      have ho' := hI.peer kl hkl o (by rw [hl]; exact List.mem_cons_self ..)
      have := ho'.2.1
      simp only at hd
      omega

/-- Which model the invariant is claimed for: the repaired router, or the router as it is but
only on the owning node and without the claim about the probe marker. -/
def Mode (fixed strict : Bool) (op : Op) : Prop := fixed = true ∨ (strict = false ∧ OwnedOp op)

theorem inv_step {strict : Bool} (fixed : Bool) {s : St} (hI : Inv strict s) (op : Op)
    (hv : ValidOp op) (hm : Mode fixed strict op) : Inv strict (step fixed s op).1 := by
  cases op with
  | stress on => exact ⟨hI.up, hI.peer, hI.qi, hI.qp, hI.kept, hI.once, hI.wsid, hI.wire⟩
  | span via owner e h => exact inv_spanStep fixed s.cfg hI via owner e h hv hm
  | work => exact inv_workStep hI
  | flush tx =>
    cases tx
    · exact inv_flushUp hI
    · exact inv_flushPeer hI
  | reload n => exact ⟨hI.up, hI.peer, hI.qi, hI.qp, hI.kept, hI.once, hI.wsid, hI.wire⟩
  | decide t k r =>
    simp only [step, decideStep]
    split
    · exact hI
    · exact ⟨hI.up, hI.peer, hI.qi, hI.qp, hI.kept, hI.once, hI.wsid, hI.wire⟩

theorem inv_runFrom {strict : Bool} (fixed : Bool) (ops : List Op) (s : St) (hI : Inv strict s)
    (hv : ∀ op ∈ ops, ValidOp op) (hm : ∀ op ∈ ops, Mode fixed strict op) :
    Inv strict (runFrom fixed s ops) := by
  induction ops generalizing s with
  | nil => exact hI
  | cons op ops ih =>
    exact ih _ (inv_step fixed hI op (hv op (List.mem_cons_self ..)) (hm op (List.mem_cons_self ..)))
      (fun o ho => hv o (List.mem_cons_of_mem _ ho)) (fun o ho => hm o (List.mem_cons_of_mem _ ho))

/-! ## stress_delivery: statement, proof for the repaired router, refutation for the router as it is -/

/-- What Honeycomb has received, judged against the spans stress relief kept (`s.kept`: object id
and the event as it arrived):
1. every kept span has reached a Honeycomb endpoint exactly once;
2. what arrived there for it went to the span's own endpoint with its API key and dataset, carries
   its trace id and fields and the `meta.stressed` mark, and (`strict`) its probe field is the one
   it arrived with;
3. (`strict`) nothing a Honeycomb endpoint received carries `meta.refinery.probe = true`. -/
def Delivered (strict : Bool) (s : St) : Prop :=
  (∀ ka ∈ s.kept, honeyCount s.wire ka.1 = 1) ∧
  (∀ r ∈ s.wire, r.dest < 10 → ∀ ev ∈ r.evs, ∀ ka ∈ s.kept, ev.c.sid = ka.1 →
      Intact r ev ka.2 ∧ (strict = true → ev.c.probe = ka.2.c.probe)) ∧
  (strict = true → ∀ r ∈ s.wire, r.dest < 10 → ∀ ev ∈ r.evs, ev.c.probe ≠ some true)

instance (r : Req) (ev a : Ev) : Decidable (Intact r ev a) := by unfold Intact; infer_instance

instance (strict : Bool) (s : St) : Decidable (Delivered strict s) :=
  have d1 : Decidable (∀ ka ∈ s.kept, honeyCount s.wire ka.1 = 1) := inferInstance
  have d2 : Decidable (∀ r ∈ s.wire, r.dest < 10 → ∀ ev ∈ r.evs, ∀ ka ∈ s.kept, ev.c.sid = ka.1 →
      Intact r ev ka.2 ∧ (strict = true → ev.c.probe = ka.2.c.probe)) := inferInstance
  have d3 : Decidable (strict = true → ∀ r ∈ s.wire, r.dest < 10 → ∀ ev ∈ r.evs, ev.c.probe ≠ some true) :=
    inferInstance
  by unfold Delivered; exact instDecidableAnd

def ValidOps (ops : List Op) : Prop := ∀ op ∈ ops, ValidOp op

/-- the final dispatch of both transmissions ("eventually every batch is sent") -/
def drain : List Op := [.flush .up, .flush .peer]

/-- **stress_delivery, full statement** — for every configuration and every history of span
arrivals (owning and non-owning node, either listener, any trace/fields/key/dataset/endpoint,
probes received), relief starting and ending, worker progress and batch dispatches, once the
pending batches have been dispatched: each span kept by stress relief has reached its Honeycomb
endpoint exactly once, marked `meta.stressed`, with fields, API key, dataset and destination
unaffected by the probe, and no Honeycomb endpoint has received anything marked as probe. -/
def FullStatement (fixed : Bool) : Prop :=
  ∀ (c : Cfg) (ops : List Op), ValidOps ops → Delivered true (run fixed c (ops ++ drain))

theorem delivered_of_inv {strict : Bool} {s : St} (hI : Inv strict s) (hup : s.up = []) :
    Delivered strict s := by
  refine ⟨?_, ?_, ?_⟩
  · intro ka hka
    have := hI.once ka hka
    rw [hup, occ_nil] at this
    omega
  · intro r hr hd ev hev ka hka hs
    exact (hI.wire r hr hd ev hev).2 ka hka hs
  · intro hs r hr hd ev hev
    exact (hI.wire r hr hd ev hev).1 hs

theorem run_append (fixed : Bool) (c : Cfg) (ops₁ ops₂ : List Op) :
    run fixed c (ops₁ ++ ops₂) = runFrom fixed (run fixed c ops₁) ops₂ := by
  simp [run, runFrom, List.foldl_append]

theorem up_after_drain (fixed : Bool) (s : St) : (runFrom fixed s drain).up = [] := by
  simp [runFrom, drain, step, flushStep]

theorem validOp_drain : ∀ op ∈ drain, ValidOp op := by
  intro op hop
  simp only [drain, List.mem_cons, List.mem_nil_iff, or_false] at hop
  rcases hop with h | h <;> subst h <;> trivial

theorem ownedOp_drain : ∀ op ∈ drain, OwnedOp op := by
  intro op hop
  simp only [drain, List.mem_cons, List.mem_nil_iff, or_false] at hop
  rcases hop with h | h <;> subst h <;> trivial

/-- **stress_delivery** — the full statement holds for the router whose probe is a *copy* of the
kept span (`fixed = true`, the proposed repair). -/
theorem stress_delivery : FullStatement true := by
  intro c ops hv
  rw [run_append]
  refine delivered_of_inv ?_ (up_after_drain _ _)
  refine inv_runFrom true drain _ (inv_runFrom true ops (init c) (inv_init true c) hv ?_) validOp_drain ?_
  · exact fun _ _ => Or.inl rfl
  · exact fun _ _ => Or.inl rfl

/-- **stress_delivery, owning node (partial)** — for the router as it is (`fixed = false`, the probe
marker is written onto the event already queued upstream), *if this node owns every trace it
sees*: each kept span still reaches its Honeycomb endpoint exactly once with fields, key, dataset,
destination and `meta.stressed` intact.  Missing from the full statement: the claims about the
probe marker (refuted by `stress_delivery_refuted_owner`) and every non-owning node (refuted by
`stress_delivery_refuted`). -/
theorem stress_delivery_partial (c : Cfg) (ops : List Op) (hv : ValidOps ops)
    (hown : ∀ op ∈ ops, OwnedOp op) : Delivered false (run false c (ops ++ drain)) := by
  rw [run_append]
  refine delivered_of_inv ?_ (up_after_drain _ _)
  refine inv_runFrom false drain _ (inv_runFrom false ops (init c) (inv_init false c) hv ?_) validOp_drain ?_
  · exact fun op hop => Or.inr ⟨rfl, hown op hop⟩
  · exact fun op hop => Or.inr ⟨rfl, ownedOp_drain op hop⟩

/-- the span used by the witnesses: trace 1, endpoint 0, key 0, dataset 0, one field -/
def wSpan : Ev := ⟨⟨0, 1, 0, 0, 0, false, none, [(1, 5)]⟩, 1⟩

/-- witness: stressed, everything kept (sampling rate 1), one span of a trace owned by peer 10 -/
def witness : List Op := [.stress true, .span .incoming (some 10) wSpan 0]

/-- witness on the owning node -/
def witnessOwner : List Op := [.stress true, .span .incoming none wSpan 0]

theorem validOps_witness : ValidOps witness := by
  intro op hop
  simp only [witness, List.mem_cons, List.mem_nil_iff, or_false] at hop
  rcases hop with h | h <;> subst h
  · trivial
  · exact ⟨by decide, fun a ha => by cases ha; decide⟩

theorem validOps_witnessOwner : ValidOps witnessOwner := by
  intro op hop
  simp only [witnessOwner, List.mem_cons, List.mem_nil_iff, or_false] at hop
  rcases hop with h | h <;> subst h
  · trivial
  · exact ⟨by decide, fun a ha => by cases ha⟩

/-- **stress_delivery refuted for the router as it is** — witness: a stressed node that does not own
the trace keeps a span; the event queued upstream is then re-addressed to the peer, so the upstream
batch is posted to the peer and the span never reaches Honeycomb. -/
theorem stress_delivery_refuted : ¬ FullStatement false := by
  intro h
  have h1 := (h ⟨1⟩ witness validOps_witness).1
  revert h1
  decide

/-- **… and on the owning node too** — restricted to nodes that own every trace the full statement
is still false for the router as it is: the kept span reaches Honeycomb carrying
`meta.refinery.probe = true`. -/
theorem stress_delivery_refuted_owner :
    ¬ ∀ (c : Cfg) (ops : List Op), ValidOps ops → (∀ op ∈ ops, OwnedOp op) →
        Delivered true (run false c (ops ++ drain)) := by
  intro h
  have h1 := (h ⟨1⟩ witnessOwner validOps_witnessOwner (by
    intro op hop
    simp only [witnessOwner, List.mem_cons, List.mem_nil_iff, or_false] at hop
    rcases hop with h | h <;> subst h <;> trivial)).2.2 rfl
  revert h1
  decide

/-! Non-vacuity: concrete histories, evaluated by the kernel. -/

-- the witness on the router as it is: the upstream transmission posts the kept span to peer 10
example : ((run false ⟨1⟩ (witness ++ drain)).wire.map (fun r => (r.tx, r.dest))) =
    [(Tx.up, 10), (Tx.peer, 10)] := by decide
-- … the repaired router: Honeycomb endpoint 0 gets the span, peer 10 gets the probe
example : ((run true ⟨1⟩ (witness ++ drain)).wire.map (fun r => (r.tx, r.dest, r.evs.map (·.c.probe)))) =
    [(Tx.up, 0, [none]), (Tx.peer, 10, [some true])] := by decide
example : Delivered true (run true ⟨1⟩ (witness ++ drain)) := by decide
example : (run true ⟨1⟩ (witness ++ drain)).kept.length = 1 := by decide
-- the deterministic rule drops and keeps: rate 2, hashes above / below MaxUint64 / 2
example : sentUp (spanStep false ⟨2⟩ { init ⟨2⟩ with stressed := true } .incoming none wSpan maxU64).2 = false := by decide
example : sentUp (spanStep false ⟨2⟩ { init ⟨2⟩ with stressed := true } .incoming none wSpan 5).2 = true := by decide
-- remembered after relief ends: a late span of the kept trace goes through the worker and is sent
example : (run false ⟨2⟩ [.stress true, .span .incoming none wSpan 5, .stress false,
    .span .incoming none wSpan 5, .work]).up.map (·.2) = [[0, 1]] := by decide
example : (run false ⟨2⟩ [.stress true, .span .incoming none wSpan maxU64, .stress false,
    .span .incoming none wSpan maxU64, .work]).up = [] := by decide

-- the remembered rate is used: kept at 1-in-2, rate reloaded to 7 while stressed, the trace's next
-- span still goes out with 2; a trace the normal sampler kept at 10 gets 10 under stress (rate 3)
example : ((run true ⟨2⟩ [.stress true, .span .incoming none wSpan 5, .reload 7,
    .span .incoming none wSpan 5]).store 1).rate = 2 := by decide
example : ((run true ⟨3⟩ [.decide 1 true 10, .stress true, .span .incoming none wSpan 5]).store 0).rate = 10 := by
  decide

end Refinery.Props.C16
