import Refinery.Model.BatchHandler
/-!
# C23 — responses reflect what happened to the data

Statement (properties.jsonl): when Refinery answers a request with an error status for the request
as a whole, it has forwarded or buffered none of its events, and it never answers success for a
request whose events it discarded before trying to process them.  Each batch response lists 202
exactly for accepted events, 429 exactly for events refused because the collector queue was full
and 400 for invalid events, and each request receives exactly one status.

All theorems quantify over every request shape `r : Req` (endpoint, route, every combination of the
fault points, every list of events of every kind).  `handle false` is the code as it is,
`handle true` the repaired control flow.

Three of the four statements are **false of the code as it is**; for each the full statement is a
`def`, its negation is proved with a witness, the part that holds is proved as `…_partial` under
the exact hypothesis (the request does not reach the defect site), and the full statement is proved
for the repaired control flow (`…_fixed`).
-/
namespace Refinery.Props.C23
open Refinery.Model.BatchHandler Refinery.Gen.Responses

/-- the status constants (values computed by the compiled code), for `simp` -/
theorem consts : (stAuthInvalid = 401 ∧ stPostBody = 500 ∧ stReqToEvent = 400 ∧ stBatchToEvent = 400) ∧
    (stBadRequest = 400 ∧ stAccepted = 202 ∧ stTooManyRequests = 429 ∧ stOK = 200) ∧
    (stInternal = 500 ∧ stUnauthorized = 401 ∧ stOtlpParseBody = 400 ∧ stOtlpContentType = 415) ∧
    (grpcOK = 0 ∧ grpcUnknown = 2 ∧ grpcInternal = 13 ∧ grpcUnauthenticated = 16) := by decide

attribute [local simp] stAuthInvalid stPostBody stReqToEvent stBatchToEvent stBadRequest stAccepted
  stTooManyRequests stOK stInternal stUnauthorized stOtlpParseBody stOtlpContentType
  grpcOK grpcUnknown grpcInternal grpcUnauthenticated

/-! ## the event loop -/

theorem loop_sts_length (l : Listener) (chk : Bool) (items : List Item) (k : Nat) :
    (loop l chk k items).sts.length = items.length := by
  induction items generalizing k with
  | nil => simp [loop]
  | cons it rest ih => simp [loop, ih]

theorem loop_sent_ge (l : Listener) (chk : Bool) (items : List Item) (k : Nat) :
    ∀ p ∈ (loop l chk k items).eff.sent, k ≤ p.1 := by
  induction items generalizing k with
  | nil => simp [loop]
  | cons it rest ih =>
    intro p hp
    simp only [loop, List.mem_append] at hp
    rcases hp with hp | hp
    · cases hs : (itemRes l chk it).sink <;> simp [hs] at hp
      subst hp; exact Nat.le_refl _
    · have := ih (k + 1) p hp; omega

theorem loop_refused_ge (l : Listener) (chk : Bool) (items : List Item) (k : Nat) :
    ∀ i ∈ (loop l chk k items).eff.refused, k ≤ i := by
  induction items generalizing k with
  | nil => simp [loop]
  | cons it rest ih =>
    intro i hi
    simp only [loop, List.mem_append] at hi
    rcases hi with hi | hi
    · cases hs : (itemRes l chk it).refused <;> simp [hs] at hi
      subst hi; exact Nat.le_refl _
    · have := ih (k + 1) i hi; omega

theorem loop_attempts_ge (l : Listener) (chk : Bool) (items : List Item) (k : Nat) :
    ∀ i ∈ (loop l chk k items).eff.attempts, k ≤ i := by
  induction items generalizing k with
  | nil => simp [loop]
  | cons it rest ih =>
    intro i hi
    simp only [loop, List.mem_append] at hi
    rcases hi with hi | hi
    · cases hs : (itemRes l chk it).attempted <;> simp [hs] at hi
      subst hi; exact Nat.le_refl _
    · have := ih (k + 1) i hi; omega

/-- The loop, event by event: the `j`-th event's status, sink, refusal and attempt are exactly
those of its own iteration. -/
theorem loop_spec (l : Listener) (chk : Bool) (items : List Item) :
    ∀ (k j : Nat) (it : Item), items[j]? = some it →
      (loop l chk k items).sts[j]? = some (itemRes l chk it).status ∧
      (∀ s, (k + j, s) ∈ (loop l chk k items).eff.sent ↔ (itemRes l chk it).sink = some s) ∧
      (k + j ∈ (loop l chk k items).eff.refused ↔ (itemRes l chk it).refused = true) ∧
      (k + j ∈ (loop l chk k items).eff.attempts ↔ (itemRes l chk it).attempted = true) := by
  induction items with
  | nil => intro k j it h; simp at h
  | cons it0 rest ih =>
    intro k j it h
    cases j with
    | zero =>
      simp only [List.getElem?_cons_zero, Option.some.injEq] at h
      subst h
      have h1 := loop_sent_ge l chk rest (k + 1)
      have h2 := loop_refused_ge l chk rest (k + 1)
      have h3 := loop_attempts_ge l chk rest (k + 1)
      refine ⟨by simp [loop], ?_, ?_, ?_⟩
      · intro s
        simp only [loop, Nat.add_zero, List.mem_append]
        constructor
        · rintro (hm | hm)
          · cases hs : (itemRes l chk it0).sink <;> simp [hs] at hm
            simp [hm]
          · have := h1 _ hm; simp at this; omega
        · intro hs; left; simp [hs]
      · simp only [loop, Nat.add_zero, List.mem_append]
        constructor
        · rintro (hm | hm)
          · cases hs : (itemRes l chk it0).refused <;> simp [hs] at hm
            rfl
          · have := h2 _ hm; omega
        · intro hs; left; simp [hs]
      · simp only [loop, Nat.add_zero, List.mem_append]
        constructor
        · rintro (hm | hm)
          · cases hs : (itemRes l chk it0).attempted <;> simp [hs] at hm
            rfl
          · have := h3 _ hm; omega
        · intro hs; left; simp [hs]
    | succ j' =>
      simp only [List.getElem?_cons_succ] at h
      obtain ⟨a, b, c, d⟩ := ih (k + 1) j' it h
      have e : k + (j' + 1) = k + 1 + j' := by omega
      refine ⟨by simpa [loop] using a, ?_, ?_, ?_⟩
      · intro s
        rw [e, ← b s]
        simp only [loop, List.mem_append]
        constructor
        · rintro (hm | hm)
          · cases hs : (itemRes l chk it0).sink <;> simp [hs] at hm
            omega
          · exact hm
        · intro hm; right; exact hm
      · rw [e, ← c]
        simp only [loop, List.mem_append]
        constructor
        · rintro (hm | hm)
          · cases hs : (itemRes l chk it0).refused <;> simp [hs] at hm
            omega
          · exact hm
        · intro hm; right; exact hm
      · rw [e, ← d]
        simp only [loop, List.mem_append]
        constructor
        · rintro (hm | hm)
          · cases hs : (itemRes l chk it0).attempted <;> simp [hs] at hm
            omega
          · exact hm
        · intro hm; right; exact hm

/-- without the emptiness test (the OTLP loops) every event is handed to `processEvent` -/
theorem itemRes_attempted (l : Listener) (it : Item) : (itemRes l false it).attempted = true := by
  cases it <;> simp [itemRes, processEvent]

/-! ## error_status_no_effects -/

/-- **error_status_no_effects** (full statement): an error status for the request as a whole ⇒
none of its events was forwarded or buffered. -/
def ErrorStatusNoEffects (fixed : Bool) : Prop :=
  ∀ (l : Listener) (r : Req), (handle fixed l r).isError = true → (handle fixed l r).eff.sent = []

/-- Refuted on the code as it is: `POST /1/batch/<undecodable dataset>` with one ordinary event is
answered 400 and the event is sent upstream all the same. -/
theorem error_status_no_effects_refuted : ¬ ErrorStatusNoEffects false := by
  intro h
  have := h .peer (.batch false { datasetBad := true } [.nonTrace])
  revert this; decide

/-- the same defect through the second missing `return` (environment lookup) -/
theorem error_status_no_effects_refuted_env : ¬ ErrorStatusNoEffects false := by
  intro h
  have := h .incoming (.batch true { envFails := true } [.localOk])
  revert this; decide

/-- What holds of the code as it is: every request that does not reach one of `batch`'s two
missing `return`s. -/
theorem error_status_no_effects_partial (l : Listener) (r : Req) (hd : hitsBatchDefect r = false)
    (he : (handle false l r).isError = true) : (handle false l r).eff.sent = [] := by
  cases r with
  | event viaMux f it =>
    simp only [handle, handleEvent] at he ⊢
    repeat' split
    all_goals first | rfl | skip
    all_goals simp_all [Out.isError]
  | batch viaMux f items =>
    simp only [handle, handleBatch, hitsBatchDefect] at he hd ⊢
    rcases f with ⟨kb, rf, db, ef, pf, cb⟩
    cases viaMux <;> cases kb <;> cases rf <;> cases db <;> cases ef <;> cases pf <;>
      simp_all [Out.isError, Act.isError]
  | otlpHttp logs f items =>
    simp only [handle, handleOtlpHttp, processOTLP] at he ⊢
    rcases f with ⟨kb, rf, db, ef, pf, cb⟩
    cases kb <;> cases rf <;> cases ef <;> cases pf <;> cases cb <;>
      simp_all [Out.isError, Act.isError]
  | otlpGrpc logs f items =>
    simp only [handle, handleOtlpGrpc, processOTLP] at he ⊢
    rcases f with ⟨kb, rf, db, ef, pf, cb⟩
    cases logs <;> cases kb <;> cases rf <;> cases ef <;> cases pf <;>
      simp_all [Out.isError, Act.isError]

/-- Proved for the repaired control flow, for every request. -/
theorem error_status_no_effects_fixed : ErrorStatusNoEffects true := by
  intro l r he
  cases r with
  | event viaMux f it =>
    simp only [handle, handleEvent] at he ⊢
    repeat' split
    all_goals first | rfl | skip
    all_goals simp_all [Out.isError]
  | batch viaMux f items =>
    simp only [handle, handleBatch] at he ⊢
    rcases f with ⟨kb, rf, db, ef, pf, cb⟩
    cases viaMux <;> cases kb <;> cases rf <;> cases db <;> cases ef <;> cases pf <;>
      simp_all [Out.isError, Act.isError]
  | otlpHttp logs f items =>
    simp only [handle, handleOtlpHttp, processOTLP] at he ⊢
    rcases f with ⟨kb, rf, db, ef, pf, cb⟩
    cases kb <;> cases rf <;> cases ef <;> cases pf <;> cases cb <;>
      simp_all [Out.isError, Act.isError]
  | otlpGrpc logs f items =>
    simp only [handle, handleOtlpGrpc, processOTLP] at he ⊢
    rcases f with ⟨kb, rf, db, ef, pf, cb⟩
    cases logs <;> cases kb <;> cases rf <;> cases ef <;> cases pf <;>
      simp_all [Out.isError, Act.isError]

/-! ## one_status -/

/-- **one_status** (full statement): each request receives exactly one answer. -/
def OneStatus (fixed : Bool) : Prop := ∀ (l : Listener) (r : Req), (handle fixed l r).answers = 1

/-- Refuted on the code as it is: the bad-dataset batch gets the error document *and* the status
list. -/
theorem one_status_refuted : ¬ OneStatus false := by
  intro h
  have := h .peer (.batch false { datasetBad := true } [.nonTrace])
  revert this; decide

theorem answers_event (l : Listener) (viaMux : Bool) (f : Faults) (it : Item) :
    (handleEvent l viaMux f it).answers = 1 := by
  simp only [handleEvent]
  repeat' split
  all_goals simp [Out.answers]

theorem answers_otlpHttp (fixed : Bool) (l : Listener) (logs : Bool) (f : Faults) (items : List Item) :
    (handleOtlpHttp fixed l logs f items).answers = 1 := by
  simp only [handleOtlpHttp, processOTLP]
  repeat' split
  all_goals simp [Out.answers]

theorem answers_otlpGrpc (fixed : Bool) (l : Listener) (logs : Bool) (f : Faults) (items : List Item) :
    (handleOtlpGrpc fixed l logs f items).answers = 1 := by
  simp only [handleOtlpGrpc, processOTLP]
  repeat' split
  all_goals simp [Out.answers]

/-- What holds of the code as it is: exactly one answer for every request that does not reach one
of `batch`'s missing `return`s … -/
theorem one_status_partial (l : Listener) (r : Req) (hd : hitsBatchDefect r = false) :
    (handle false l r).answers = 1 := by
  cases r with
  | event viaMux f it => exact answers_event l viaMux f it
  | batch viaMux f items =>
    simp only [handle, handleBatch, hitsBatchDefect] at hd ⊢
    rcases f with ⟨kb, rf, db, ef, pf, cb⟩
    cases viaMux <;> cases kb <;> cases rf <;> cases db <;> cases ef <;> cases pf <;>
      simp_all [Out.answers]
  | otlpHttp logs f items => exact answers_otlpHttp false l logs f items
  | otlpGrpc logs f items => exact answers_otlpGrpc false l logs f items

/-- … and the hypothesis is exact: every request that does reach one gets at least two. -/
theorem one_status_defect_exact (l : Listener) (r : Req) (hd : hitsBatchDefect r = true) :
    2 ≤ (handle false l r).answers := by
  cases r with
  | batch viaMux f items =>
    simp only [handle, handleBatch, hitsBatchDefect] at hd ⊢
    rcases f with ⟨kb, rf, db, ef, pf, cb⟩
    cases viaMux <;> cases kb <;> cases rf <;> cases db <;> cases ef <;> cases pf <;>
      simp_all [Out.answers]
  | event viaMux f it => simp [hitsBatchDefect] at hd
  | otlpHttp logs f items => simp [hitsBatchDefect] at hd
  | otlpGrpc logs f items => simp [hitsBatchDefect] at hd

/-- Proved for the repaired control flow, for every request. -/
theorem one_status_fixed : OneStatus true := by
  intro l r
  cases r with
  | event viaMux f it => exact answers_event l viaMux f it
  | batch viaMux f items =>
    simp only [handle, handleBatch]
    rcases f with ⟨kb, rf, db, ef, pf, cb⟩
    cases viaMux <;> cases kb <;> cases rf <;> cases db <;> cases ef <;> cases pf <;>
      simp_all [Out.answers]
  | otlpHttp logs f items => exact answers_otlpHttp true l logs f items
  | otlpGrpc logs f items => exact answers_otlpGrpc true l logs f items

/-! ## no_success_after_discard -/

/-- event `i` is answered individually in a status list -/
def Reported (o : Out) (i : Nat) : Prop := ∃ sts, Act.list sts ∈ o.acts ∧ i < sts.length

/-- **no_success_after_discard** (full statement): if the request is answered success, every one of
its events was handed to `processEvent` or is answered individually in the status list. -/
def NoSuccessAfterDiscard (fixed : Bool) : Prop :=
  ∀ (l : Listener) (r : Req), (handle fixed l r).isError = false →
    ∀ i, i < r.items.length → i ∈ (handle fixed l r).eff.attempts ∨ Reported (handle fixed l r) i

/-- Refuted on the code as it is: an OTLP/HTTP trace export whose key's environment cannot be
looked up is answered 200 although its span was never looked at. -/
theorem no_success_after_discard_refuted : ¬ NoSuccessAfterDiscard false := by
  intro h
  have := h .incoming (.otlpHttp false { envFails := true } [.localOk]) (by decide) 0 (by decide)
  rcases this with h1 | ⟨sts, h2, _⟩
  · revert h1; decide
  · revert h2; simp [handle, handleOtlpHttp, processOTLP]

/-- the same on the other three OTLP entry points: HTTP logs, gRPC traces, gRPC logs -/
theorem no_success_after_discard_refuted_all (l : Listener) (r : Req)
    (hr : r = .otlpHttp true { envFails := true } [.nonTrace] ∨
          r = .otlpGrpc false { envFails := true } [.peer] ∨
          r = .otlpGrpc true { envFails := true } [.localOk]) :
    (handle false l r).isError = false ∧ (handle false l r).eff.attempts = [] ∧
      ¬ Reported (handle false l r) 0 := by
  rcases hr with rfl | rfl | rfl <;> cases l <;>
    refine ⟨by decide, by decide, ?_⟩ <;>
    rintro ⟨sts, h2, _⟩ <;>
    simp [handle, handleOtlpHttp, handleOtlpGrpc, processOTLP] at h2

theorem attempts_loop_false (l : Listener) (items : List Item) (i : Nat) (hi : i < items.length) :
    i ∈ (loop l false 0 items).eff.attempts := by
  have hg : items[i]? = some items[i] := List.getElem?_eq_getElem hi
  have := (loop_spec l false items 0 i _ hg).2.2.2
  rw [Nat.zero_add] at this
  exact this.mpr (itemRes_attempted l _)

theorem nsad_event (l : Listener) (viaMux : Bool) (f : Faults) (it : Item)
    (hs : (handleEvent l viaMux f it).isError = false) :
    0 ∈ (handleEvent l viaMux f it).eff.attempts := by
  simp only [handleEvent] at hs ⊢
  repeat' split
  all_goals simp_all [Out.isError, Act.isError]

theorem nsad_batch (fixed : Bool) (l : Listener) (viaMux : Bool) (f : Faults) (items : List Item)
    (hs : (handleBatch fixed l viaMux f items).isError = false) (i : Nat) (hi : i < items.length) :
    Reported (handleBatch fixed l viaMux f items) i := by
  have hl := loop_sts_length l true items 0
  simp only [handleBatch] at hs ⊢
  rcases f with ⟨kb, rf, db, ef, pf, cb⟩
  cases fixed <;> cases viaMux <;> cases kb <;> cases rf <;> cases db <;> cases ef <;> cases pf <;>
    simp_all [Out.isError, Act.isError, Reported]

/-- What holds of the code as it is: every request that does not reach the `return nil` of
`processOTLPRequest*`. -/
theorem no_success_after_discard_partial (l : Listener) (r : Req) (hd : hitsOtlpDefect r = false)
    (hs : (handle false l r).isError = false) (i : Nat) (hi : i < r.items.length) :
    i ∈ (handle false l r).eff.attempts ∨ Reported (handle false l r) i := by
  cases r with
  | event viaMux f it =>
    simp only [Req.items, List.length_singleton, Nat.lt_one_iff] at hi
    subst hi
    exact Or.inl (nsad_event l viaMux f it hs)
  | batch viaMux f items => exact Or.inr (nsad_batch false l viaMux f items hs i hi)
  | otlpHttp logs f items =>
    left
    have ha := attempts_loop_false l items i hi
    simp only [handle, handleOtlpHttp, processOTLP, hitsOtlpDefect] at hs hd ⊢
    rcases f with ⟨kb, rf, db, ef, pf, cb⟩
    cases logs <;> cases kb <;> cases rf <;> cases ef <;> cases pf <;> cases cb <;>
      simp_all [Out.isError, Act.isError]
  | otlpGrpc logs f items =>
    left
    have ha := attempts_loop_false l items i hi
    simp only [handle, handleOtlpGrpc, processOTLP, hitsOtlpDefect] at hs hd ⊢
    rcases f with ⟨kb, rf, db, ef, pf, cb⟩
    cases logs <;> cases kb <;> cases rf <;> cases ef <;> cases pf <;>
      simp_all [Out.isError, Act.isError]

/-- Proved for the repaired control flow, for every request. -/
theorem no_success_after_discard_fixed : NoSuccessAfterDiscard true := by
  intro l r hs i hi
  cases r with
  | event viaMux f it =>
    simp only [Req.items, List.length_singleton, Nat.lt_one_iff] at hi
    subst hi
    exact Or.inl (nsad_event l viaMux f it hs)
  | batch viaMux f items => exact Or.inr (nsad_batch true l viaMux f items hs i hi)
  | otlpHttp logs f items =>
    left
    have ha := attempts_loop_false l items i hi
    simp only [handle, handleOtlpHttp, processOTLP] at hs ⊢
    rcases f with ⟨kb, rf, db, ef, pf, cb⟩
    cases logs <;> cases kb <;> cases rf <;> cases ef <;> cases pf <;> cases cb <;>
      simp_all [Out.isError, Act.isError]
  | otlpGrpc logs f items =>
    left
    have ha := attempts_loop_false l items i hi
    simp only [handle, handleOtlpGrpc, processOTLP] at hs ⊢
    rcases f with ⟨kb, rf, db, ef, pf, cb⟩
    cases logs <;> cases kb <;> cases rf <;> cases ef <;> cases pf <;>
      simp_all [Out.isError, Act.isError]

/-! ## batch_status_list -/

/-- a status list written by `batch` is the loop's list, and the effects are the loop's effects -/
theorem batch_list_is_loop (fixed : Bool) (l : Listener) (viaMux : Bool) (f : Faults) (items : List Item) (sts : List Int)
    (h : Act.list sts ∈ (handleBatch fixed l viaMux f items).acts) :
    sts = (loop l true 0 items).sts ∧ (handleBatch fixed l viaMux f items).eff = (loop l true 0 items).eff := by
  simp only [handleBatch] at h ⊢
  rcases f with ⟨kb, rf, db, ef, pf, cb⟩
  cases fixed <;> cases viaMux <;> cases kb <;> cases rf <;> cases db <;> cases ef <;> cases pf <;>
    simp_all

/-- **batch_status_list** — whenever `batch` writes a status list (in the code as it is and in the
repaired one), the list has one entry per event of the request, in order, and for every event:
the entry is one of 202 / 429 / 400; it is 202 exactly when the event was accepted (handed to the
upstream transmission, the peer transmission or the collector — or is a probe, which Refinery
swallows by design); 429 exactly when the collector refused it because its queue was full, which is
exactly the events for which the collector is full; 400 exactly when the event is invalid (empty
data); and the event went to a sink exactly when it is non-empty and `processEvent` sends it
there. -/
theorem batch_status_list (fixed : Bool) (l : Listener) (viaMux : Bool) (f : Faults) (items : List Item) (sts : List Int)
    (h : Act.list sts ∈ (handle fixed l (.batch viaMux f items)).acts) :
    sts.length = items.length ∧
    ∀ (i : Nat) (it : Item), items[i]? = some it →
      let o := handle fixed l (.batch viaMux f items)
      (sts[i]? = some stAccepted ∨ sts[i]? = some stTooManyRequests ∨ sts[i]? = some stBadRequest) ∧
      (sts[i]? = some stAccepted ↔ ((∃ s, (i, s) ∈ o.eff.sent) ∨ it = .probe)) ∧
      (sts[i]? = some stTooManyRequests ↔ i ∈ o.eff.refused) ∧
      (i ∈ o.eff.refused ↔ it = .localFull) ∧
      (sts[i]? = some stBadRequest ↔ it = .emptyData) ∧
      (∀ s, (i, s) ∈ o.eff.sent ↔ (it ≠ .emptyData ∧ processEvent l it = .sent s)) := by
  simp only [handle] at h ⊢
  obtain ⟨e1, e2⟩ := batch_list_is_loop fixed l viaMux f items sts h
  refine ⟨by rw [e1]; exact loop_sts_length l true items 0, ?_⟩
  intro i it hit
  obtain ⟨a, b, c, _⟩ := loop_spec l true items 0 i it hit
  simp only [Nat.zero_add] at b c
  simp only [e2, e1, a, b, c]
  cases it <;> simp [itemRes, processEvent]

/-- On the fault-free path the status list is the whole response (code as it is and repaired). -/
theorem batch_fault_free (fixed : Bool) (l : Listener) (viaMux : Bool) (items : List Item) :
    (handle fixed l (.batch viaMux {} items)).acts = [.list (loop l true 0 items).sts] := by
  cases fixed <;> cases viaMux <;> simp [handle, handleBatch]

/-- A full queue on the single-event endpoint is answered with an error status and nothing was
buffered (both variants). -/
theorem event_queue_full (fixed : Bool) (l : Listener) (viaMux : Bool) :
    (handle fixed l (.event viaMux {} .localFull)).isError = true ∧
      (handle fixed l (.event viaMux {} .localFull)).eff.sent = [] := by
  cases fixed <;> cases l <;> cases viaMux <;> decide

/-! ## the listener kind -/

/-- The router kind (client-facing or peer listener) does not influence the answer: same response
acts, same statuses, same refusals, same attempts — in particular a span refused because the
peer queue is full is listed 429 exactly like one refused by the incoming queue
(`batch_status_list` holds for both `l`). -/
theorem listener_irrelevant_to_response (fixed : Bool) (l l' : Listener) (r : Req) :
    (handle fixed l r).acts = (handle fixed l' r).acts := by
  have hl : ∀ (chk : Bool) (items : List Item) (k : Nat),
      (loop l chk k items).sts = (loop l' chk k items).sts := by
    intro chk items
    induction items with
    | nil => intro k; simp [loop]
    | cons it rest ih =>
      intro k
      simp only [loop, ih (k + 1)]
      cases l <;> cases l' <;> cases it <;> cases chk <;> simp [itemRes, processEvent]
  cases r with
  | event viaMux f it =>
    simp only [handle, handleEvent]
    cases l <;> cases l' <;> cases it <;> simp only [processEvent] <;> (repeat' split) <;> simp_all
  | batch viaMux f items =>
    simp only [handle, handleBatch, hl true items 0]
    repeat' split
    all_goals simp_all
  | otlpHttp logs f items =>
    simp only [handle, handleOtlpHttp, processOTLP]
    repeat' split
    all_goals simp_all
  | otlpGrpc logs f items =>
    simp only [handle, handleOtlpGrpc, processOTLP]
    repeat' split
    all_goals simp_all

/-- It only selects the collector queue: every span the collector accepted went into the queue of
the listener the request arrived on. -/
theorem collector_queue_is_listeners (l : Listener) (chk : Bool) (items : List Item) (k i : Nat) (q : Queue)
    (h : (i, Sink.collector q) ∈ (loop l chk k items).eff.sent) : q = collectorQueue l := by
  induction items generalizing k with
  | nil => simp [loop] at h
  | cons it rest ih =>
    simp only [loop, List.mem_append] at h
    rcases h with h | h
    · cases it <;> cases chk <;> simp [itemRes, processEvent] at h <;> exact h.2
    · exact ih (k + 1) h

/-! ## Non-vacuity: concrete requests, evaluated by the kernel -/

example : (handle true .peer (.batch true {} [.localFull, .localOk])).acts = [.list [429, 202]] := by decide
example : (handle true .peer (.batch true {} [.localFull, .localOk])).eff.sent = [(1, .collector .addSpanFromPeer)] := by
  decide
-- the defect as observed on the real handler: 400, error document, then the status list; one event
-- upstream, one span in the collector
example : handle false .incoming (.batch false { datasetBad := true } [.nonTrace, .localOk]) =
    ⟨[.err 400, .list [202, 202]], { sent := [(0, .upstream), (1, .collector .addSpan)], attempts := [0, 1] }⟩ := by
  decide
example : handle true .incoming (.batch false { datasetBad := true } [.nonTrace, .localOk]) = ⟨[.err 400], {}⟩ := by
  decide
example : handle false .peer (.batch true { envFails := true, parseFails := true } []) =
    ⟨[.err 400, .err 400], {}⟩ := by decide
example : handle false .peer (.batch true {} [.emptyData, .noData, .nonTrace, .peer, .localOk, .localFull, .probe]) =
    ⟨[.list [400, 202, 202, 202, 202, 429, 202]],
     { sent := [(1, .upstream), (2, .upstream), (3, .peer), (4, .collector .addSpanFromPeer)], refused := [5],
       attempts := [1, 2, 3, 4, 5, 6] }⟩ := by decide
example : handle false .incoming (.otlpHttp false { envFails := true } [.peer, .localOk]) = ⟨[.otlpOk], {}⟩ := by decide
example : handle true .incoming (.otlpHttp false { envFails := true } [.peer, .localOk]) = ⟨[.otlpFail 500], {}⟩ := by decide
example : handle false .incoming (.otlpGrpc true {} [.nonTrace, .localFull]) =
    ⟨[.grpc 0], { sent := [(0, .upstream)], refused := [1], attempts := [0, 1] }⟩ := by decide
example : handle false .peer (.event true {} .peer) = ⟨[], { sent := [(0, .peer)], attempts := [0] }⟩ := by decide
example : hitsBatchDefect (.batch true { keyBlank := true, datasetBad := true } []) = false := by decide

end Refinery.Props.C23
