import Refinery.Model.Router
/-!
# C19 — every received event takes exactly one route

Statement (properties.jsonl): each well-formed event a node receives is handled exactly once by
exactly one path: events without a trace ID go straight to Honeycomb unsampled; spans whose trace
this node owns go to its collector; spans owned by another node are forwarded to that node with
API key, dataset, sample rate, timestamp and fields unchanged; and probe events are discarded.

All theorems quantify over every event (any payload encoding and field list, so any way of
carrying or not carrying a trace id / probe flag), both router kinds, every sharder
(`owner : String → String`, `self`), every stress state/decision and every queue state.
-/
namespace Refinery.Props.C19
open Refinery.Model.Router
open Refinery.Gen.Router

/-- a well-formed, non-probe event that carries a trace id -/
def Span (ev : Event) (c : Ctx) : Prop :=
  ev.enc ≠ .bad ∧ (metaOf ev c.nm).probe ≠ some true ∧ (metaOf ev c.nm).tid ≠ ""

instance (ev : Event) (c : Ctx) : Decidable (Span ev c) := by unfold Span; infer_instance

/-- the collector does not take the span out of the normal path: not stressed, or stressed but
`ProcessSpanImmediately` answered "not processed" -/
def Normal (c : Ctx) : Prop := c.stress = .off ∨ c.stress = .skip

/-- The exact condition of every outcome, written independently of `route`. -/
def Cond (ev : Event) (c : Ctx) : Outcome → Prop
  | .parseError => ev.enc = .bad
  | .discardProbe => ev.enc ≠ .bad ∧ (metaOf ev c.nm).probe = some true
  | .upstreamUnsampled =>
      ev.enc ≠ .bad ∧ (metaOf ev c.nm).probe ≠ some true ∧ (metaOf ev c.nm).tid = ""
  | .stressDrop => Span ev c ∧ c.stress = .drop
  | .stressKeep none => Span ev c ∧ c.stress = .keep ∧ c.owner (metaOf ev c.nm).tid = c.self
  | .stressKeep (some a) =>
      Span ev c ∧ c.stress = .keep ∧ c.owner (metaOf ev c.nm).tid ≠ c.self ∧
        a = c.owner (metaOf ev c.nm).tid
  | .peerForward a =>
      Span ev c ∧ Normal c ∧ c.owner (metaOf ev c.nm).tid ≠ c.self ∧ a = c.owner (metaOf ev c.nm).tid
  | .collectorIncoming =>
      Span ev c ∧ Normal c ∧ c.owner (metaOf ev c.nm).tid = c.self ∧ c.kind = .incoming ∧ c.inFull = false
  | .collectorPeer =>
      Span ev c ∧ Normal c ∧ c.owner (metaOf ev c.nm).tid = c.self ∧ c.kind = .peer ∧ c.peerFull = false
  | .queueFull =>
      Span ev c ∧ Normal c ∧ c.owner (metaOf ev c.nm).tid = c.self ∧
        ((c.kind = .incoming ∧ c.inFull = true) ∨ (c.kind = .peer ∧ c.peerFull = true))

theorem route_sound (ev : Event) (c : Ctx) : Cond ev c (route ev c) := by
  unfold route
  by_cases h1 : ev.enc = .bad
  · simp [h1, Cond]
  · by_cases h2 : (metaOf ev c.nm).probe = some true
    · simp [h1, h2, Cond]
    · by_cases h3 : (metaOf ev c.nm).tid = ""
      · simp [h1, h2, h3, Cond]
      · have hsp : Span ev c := ⟨h1, h2, h3⟩
        rw [if_neg h1, if_neg h2, if_neg h3]
        by_cases h4 : c.owner (metaOf ev c.nm).tid = c.self
        · cases hs : c.stress <;> cases hk : c.kind <;> cases hf : c.inFull <;>
            cases hp : c.peerFull <;> simp [h4, Cond, hsp, Normal, hs, hk, hf, hp]
        · cases hs : c.stress <;> simp [h4, Cond, hsp, Normal, hs]

theorem cond_route {ev : Event} {c : Ctx} {o : Outcome} (h : Cond ev c o) : route ev c = o := by
  cases o with
  | parseError => simp only [Cond] at h; simp [route, h]
  | discardProbe => obtain ⟨h1, h2⟩ := h; simp [route, h1, h2]
  | upstreamUnsampled => obtain ⟨h1, h2, h3⟩ := h; simp [route, h1, h2, h3]
  | stressDrop => obtain ⟨⟨h1, h2, h3⟩, h4⟩ := h; simp [route, h1, h2, h3, h4]
  | stressKeep p =>
    cases p with
    | none => obtain ⟨⟨h1, h2, h3⟩, h4, h5⟩ := h; simp [route, h1, h2, h3, h4, h5]
    | some a =>
      obtain ⟨⟨h1, h2, h3⟩, h4, h5, h6⟩ := h
      subst h6
      simp [route, h1, h2, h3, h4, h5]
  | peerForward a =>
    obtain ⟨⟨h1, h2, h3⟩, h4, h5, h6⟩ := h
    subst h6
    rcases h4 with h4 | h4 <;> simp [route, h1, h2, h3, h4, h5]
  | collectorIncoming =>
    obtain ⟨⟨h1, h2, h3⟩, h4, h5, h6, h7⟩ := h
    rcases h4 with h4 | h4 <;> simp [route, h1, h2, h3, h4, h5, h6, h7]
  | collectorPeer =>
    obtain ⟨⟨h1, h2, h3⟩, h4, h5, h6, h7⟩ := h
    rcases h4 with h4 | h4 <;> simp [route, h1, h2, h3, h4, h5, h6, h7]
  | queueFull =>
    obtain ⟨⟨h1, h2, h3⟩, h4, h5, h6⟩ := h
    rcases h4 with h4 | h4 <;> rcases h6 with ⟨h6, h7⟩ | ⟨h6, h7⟩ <;>
      simp [route, h1, h2, h3, h4, h5, h6, h7]

/-- **route_conditions** — the router takes an outcome exactly under that outcome's condition:
unparsable payload ⇒ error; else probe flag ⇒ discard; else no trace id ⇒ upstream; else
stressed ∧ processed ∧ dropped ⇒ nothing; stressed ∧ kept ⇒ sent by the collector (+ probe to the
owner when that is another node); else owner ≠ self ⇒ peer transmission to the owner's address;
else the collector queue of this listener — accepted, or a full queue reported as an error. -/
theorem route_conditions (ev : Event) (c : Ctx) (o : Outcome) : route ev c = o ↔ Cond ev c o :=
  ⟨fun h => h ▸ route_sound ev c, cond_route⟩

/-- **route_total_exclusive** — for every event and context exactly one outcome's condition
holds: the cases are exhaustive (completeness) and pairwise exclusive. -/
theorem route_total_exclusive (ev : Event) (c : Ctx) : ∃ o, Cond ev c o ∧ ∀ o', Cond ev c o' → o' = o :=
  ⟨route ev c, route_sound ev c, fun _ h => (cond_route h).symm⟩

/-- the event object handed to the first sink is the received event: host, key, dataset,
environment, sample rate, timestamp and the client's (non-reserved) fields as received -/
theorem obj0_is_input (ev : Event) (nm : Names) :
    (obj0 ev nm).host = ev.host ∧ (obj0 ev nm).key = ev.key ∧ (obj0 ev nm).ds = ev.ds ∧
    (obj0 ev nm).env = ev.env ∧ (obj0 ev nm).rate = ev.rate ∧ (obj0 ev nm).ts = ev.ts ∧
    (obj0 ev nm).fields = clientFields ev ∧ (obj0 ev nm).md = metaOf ev nm :=
  ⟨rfl, rfl, rfl, rfl, rfl, rfl, rfl, rfl⟩

/-- **probe_discarded** — a well-formed event whose probe flag is set reaches no sink and is not
an error, on either listener, whatever its trace id, owner, stress or queue state. -/
theorem probe_discarded (ev : Event) (c : Ctx) (hw : ev.enc ≠ .bad)
    (hp : (metaOf ev c.nm).probe = some true) :
    route ev c = .discardProbe ∧ (process ev c).calls = [] ∧ (process ev c).err = .none ∧
      immCalls ev c = 0 := by
  have hr : route ev c = .discardProbe := cond_route ⟨hw, hp⟩
  simp [process, hr, effects, immCalls, hw, hp]

/-- **no trace id ⇒ upstream, unsampled, unchanged** — exactly one call, to the upstream
transmission, carrying the event as received (nothing rewritten, the collector and the
stress-relief sampler are never consulted). -/
theorem no_trace_id_upstream (ev : Event) (c : Ctx) (hw : ev.enc ≠ .bad)
    (hp : (metaOf ev c.nm).probe ≠ some true) (ht : (metaOf ev c.nm).tid = "") :
    (process ev c).calls = [⟨.up, true, obj0 ev c.nm⟩] ∧ (process ev c).err = .none ∧
      (process ev c).final = obj0 ev c.nm ∧ immCalls ev c = 0 := by
  have hr : route ev c = .upstreamUnsampled := cond_route ⟨hw, hp, ht⟩
  simp [process, hr, effects, immCalls, hw, hp, ht]

/-- **owned span ⇒ collector** — a span on the normal path whose owner is this node goes to
`AddSpan` on the incoming listener and `AddSpanFromPeer` on the peer listener, unchanged; when that
queue is full the same single call is refused and the error is returned to the caller. -/
theorem owned_span_to_collector (ev : Event) (c : Ctx) (hs : Span ev c) (hn : Normal c)
    (ho : c.owner (metaOf ev c.nm).tid = c.self) :
    ∃ acc, (process ev c).calls = [⟨collSink c.kind, acc, obj0 ev c.nm⟩] ∧
      (process ev c).final = obj0 ev c.nm ∧
      (acc = true ↔ (process ev c).err = .none) ∧
      (acc = false ↔ (process ev c).err = .wouldBlock) ∧
      (acc = false ↔ (c.kind = .incoming ∧ c.inFull = true) ∨ (c.kind = .peer ∧ c.peerFull = true)) := by
  cases hk : c.kind <;> cases hf : c.inFull <;> cases hp : c.peerFull
  all_goals first
    | (have hr : route ev c = .collectorIncoming := cond_route ⟨hs, hn, ho, hk, hf⟩
       exact ⟨true, by simp [process, hr, effects, collSink]⟩)
    | (have hr : route ev c = .collectorPeer := cond_route ⟨hs, hn, ho, hk, hp⟩
       exact ⟨true, by simp [process, hr, effects, collSink]⟩)
    | (have hr : route ev c = .queueFull := cond_route ⟨hs, hn, ho, Or.inl ⟨hk, hf⟩⟩
       exact ⟨false, by simp [process, hr, effects, hk, collSink]⟩)
    | (have hr : route ev c = .queueFull := cond_route ⟨hs, hn, ho, Or.inr ⟨hk, hp⟩⟩
       exact ⟨false, by simp [process, hr, effects, hk, collSink]⟩)

/-- **remote span ⇒ forwarded to the owner** — a span on the normal path whose owner is another
node produces exactly one call, to the peer transmission, on either listener (the peer listener
forwards once more: there is no hop limit in the code). -/
theorem remote_span_forwarded (ev : Event) (c : Ctx) (hs : Span ev c) (hn : Normal c)
    (ho : c.owner (metaOf ev c.nm).tid ≠ c.self) :
    (process ev c).calls = [⟨.peer, true, (obj0 ev c.nm).toHost (c.owner (metaOf ev c.nm).tid)⟩] ∧
      (process ev c).err = .none := by
  have hr : route ev c = .peerForward (c.owner (metaOf ev c.nm).tid) := cond_route ⟨hs, hn, ho, rfl⟩
  simp [process, hr, effects]

/-- **forward_preserves** — whatever reaches the peer transmission (a forwarded span, or the
stress probe) is addressed to the trace's owner, which is not this node, and carries the
received API key, dataset, environment, sample rate, timestamp, client fields and trace id.
A forwarded span differs from the received event in the host only; the stress probe is the
received event with the host, `meta.stressed` and the probe flag set — and nothing else. -/
theorem forward_preserves (ev : Event) (c : Ctx) (call : Call)
    (hin : call ∈ (process ev c).calls) (hs : call.sink = .peer) :
    call.obj.host = c.owner (metaOf ev c.nm).tid ∧ call.obj.host ≠ c.self ∧
    call.obj.key = ev.key ∧ call.obj.ds = ev.ds ∧ call.obj.env = ev.env ∧
    call.obj.rate = ev.rate ∧ call.obj.ts = ev.ts ∧ call.obj.fields = clientFields ev ∧
    call.obj.md.tid = (metaOf ev c.nm).tid ∧ call.obj.md.root = (metaOf ev c.nm).root ∧
    call.accepted = true ∧
    (c.stress ≠ .keep → call.obj = (obj0 ev c.nm).toHost (c.owner (metaOf ev c.nm).tid)) ∧
    (c.stress = .keep →
      call.obj = ((obj0 ev c.nm).stressed.asProbe).toHost (c.owner (metaOf ev c.nm).tid)) := by
  have hc := route_sound ev c
  unfold process at hin
  generalize route ev c = o at hin hc
  cases o with
  | peerForward a =>
    simp only [effects, List.mem_singleton] at hin
    obtain ⟨_, hn, hne, ha⟩ := hc
    subst hin; subst ha
    refine ⟨rfl, hne, rfl, rfl, rfl, rfl, rfl, rfl, rfl, rfl, rfl, fun _ => rfl, fun hk => ?_⟩
    rcases hn with hn | hn <;> simp [hn] at hk
  | stressKeep p =>
    cases p with
    | none =>
      simp only [effects, List.mem_singleton] at hin
      subst hin; simp at hs
    | some a =>
      simp only [effects, List.mem_cons, List.mem_nil_iff, or_false] at hin
      obtain ⟨_, hk, hne, ha⟩ := hc
      rcases hin with hin | hin
      · subst hin; simp at hs
      · subst hin; subst ha
        exact ⟨rfl, hne, rfl, rfl, rfl, rfl, rfl, rfl, rfl, rfl, rfl, fun h => absurd hk h, fun _ => rfl⟩
  | queueFull =>
    simp only [effects, List.mem_singleton] at hin
    subst hin
    cases hk : c.kind <;> simp [collSink, hk] at hs
  | parseError => simp [effects] at hin
  | discardProbe => simp [effects] at hin
  | stressDrop => simp [effects] at hin
  | upstreamUnsampled => simp only [effects, List.mem_singleton] at hin; subst hin; simp at hs
  | collectorIncoming => simp only [effects, List.mem_singleton] at hin; subst hin; simp at hs
  | collectorPeer => simp only [effects, List.mem_singleton] at hin; subst hin; simp at hs

/-- **enqueue_count_one** — at most one `Enqueue*`/`AddSpan*` call is made by the router per
event; the only second call there can ever be is the collector's own upstream send of a span kept
by stress relief (`upColl`, the subject of C16), and then the router's call is the probe. -/
theorem enqueue_count_one (ev : Event) (c : Ctx) :
    ((process ev c).calls.filter (fun k => k.sink != Sink.upColl)).length ≤ 1 ∧
    (process ev c).calls.length ≤ 2 ∧
    ((process ev c).calls.length = 2 → ∃ a, route ev c = .stressKeep (some a)) ∧
    ((process ev c).calls.filter (fun k => k.sink == Sink.upColl)).length =
      (if c.stress = .keep ∧ Span ev c then 1 else 0) := by
  have hc := route_sound ev c
  unfold process
  generalize route ev c = o at hc
  cases o with
  | stressKeep p =>
    cases p with
    | none => obtain ⟨hsp, hk, _⟩ := hc; simp [effects, hk, hsp]
    | some a => obtain ⟨hsp, hk, _⟩ := hc; simp [effects, hk, hsp]
  | parseError =>
    simp only [Cond] at hc
    simp [effects, Span, hc]
  | discardProbe => obtain ⟨_, h2⟩ := hc; simp [effects, Span, h2]
  | upstreamUnsampled => obtain ⟨_, _, h3⟩ := hc; simp [effects, Span, h3]
  | stressDrop => obtain ⟨_, h2⟩ := hc; simp [effects, h2]
  | peerForward a => obtain ⟨_, h2, _⟩ := hc; rcases h2 with h2 | h2 <;> simp [effects, h2]
  | collectorIncoming => obtain ⟨_, h2, _⟩ := hc; rcases h2 with h2 | h2 <;> simp [effects, h2]
  | collectorPeer => obtain ⟨_, h2, _⟩ := hc; rcases h2 with h2 | h2 <;> simp [effects, h2]
  | queueFull =>
    obtain ⟨_, h2, _⟩ := hc
    rcases h2 with h2 | h2 <;> cases hk : c.kind <;> simp [effects, h2, collSink]

/-- **full queue is an error, not a silent drop** — `processEvent` returns `ErrWouldBlock` exactly
when the span was offered to the collector queue of this listener and refused; every other
well-formed event either reaches a sink that accepts it, or is discarded by rule (probe, stress
drop).  No error is ever returned for an event that a sink accepted. -/
theorem full_queue_is_error (ev : Event) (c : Ctx) :
    ((process ev c).err = .wouldBlock ↔ route ev c = .queueFull) ∧
    ((process ev c).err = .invalid ↔ ev.enc = .bad) ∧
    ((∃ k ∈ (process ev c).calls, k.accepted = true) ∨ route ev c = .discardProbe ∨
      route ev c = .stressDrop ∨ (process ev c).err ≠ .none) ∧
    ((process ev c).err ≠ .none → ∀ k ∈ (process ev c).calls, k.accepted = false) := by
  have hc := route_sound ev c
  unfold process
  generalize route ev c = o at hc
  cases o with
  | stressKeep p => cases p <;> (obtain ⟨⟨h1, _, _⟩, _⟩ := hc; simp [effects, h1])
  | parseError => simp only [Cond] at hc; simp [effects, hc]
  | discardProbe => obtain ⟨h1, _⟩ := hc; simp [effects, h1]
  | upstreamUnsampled => obtain ⟨h1, _⟩ := hc; simp [effects, h1]
  | stressDrop => obtain ⟨⟨h1, _, _⟩, _⟩ := hc; simp [effects, h1]
  | peerForward a => obtain ⟨⟨h1, _, _⟩, _⟩ := hc; simp [effects, h1]
  | collectorIncoming => obtain ⟨⟨h1, _, _⟩, _⟩ := hc; simp [effects, h1]
  | collectorPeer => obtain ⟨⟨h1, _, _⟩, _⟩ := hc; simp [effects, h1]
  | queueFull => obtain ⟨⟨h1, _, _⟩, _⟩ := hc; simp [effects, h1]

/-- **the peer listener routes like the incoming listener** — the listener kind only selects the
collector queue: every outcome other than the three collector outcomes (so: what happens to
events without trace ids, to probes, to remote spans and under stress) is the same on both. -/
theorem listener_kind_only_selects_queue (ev : Event) (c : Ctx) (k : Kind)
    (h1 : route ev c ≠ .collectorIncoming) (h2 : route ev c ≠ .collectorPeer)
    (h3 : route ev c ≠ .queueFull) : route ev { c with kind := k } = route ev c := by
  have hc := route_sound ev c
  generalize route ev c = o at *
  cases o with
  | collectorIncoming => exact absurd rfl h1
  | collectorPeer => exact absurd rfl h2
  | queueFull => exact absurd rfl h3
  | stressKeep p => cases p <;> exact cond_route (c := { c with kind := k }) hc
  | parseError => exact cond_route (c := { c with kind := k }) hc
  | discardProbe => exact cond_route (c := { c with kind := k }) hc
  | upstreamUnsampled => exact cond_route (c := { c with kind := k }) hc
  | stressDrop => exact cond_route (c := { c with kind := k }) hc
  | peerForward a => exact cond_route (c := { c with kind := k }) hc

/-- The stress-relief sampler is consulted exactly for spans received while stressed, never for
probes or events without a trace id. -/
theorem stress_consulted_for_spans_only (ev : Event) (c : Ctx) :
    immCalls ev c = (if Span ev c ∧ c.stress ≠ .off then 1 else 0) := by
  unfold immCalls Span
  by_cases h1 : ev.enc = .bad <;> by_cases h2 : (metaOf ev c.nm).probe = some true <;>
    by_cases h3 : (metaOf ev c.nm).tid = "" <;> by_cases h4 : c.stress = .off <;> simp [h1, h2, h3, h4]

/-- **the stress probe leaves the kept span alone** — when a span is kept by stress relief, the
event object the collector queued upstream is, when `processEvent` returns, exactly what the
collector queued (the received event marked `meta.stressed`): still addressed to the received
host, not flagged as a probe, whether or not a probe was sent to the owner; the probe is a
separate object. -/
theorem stress_probe_leaves_upstream_object_unchanged (ev : Event) (c : Ctx) (p : Option String)
    (h : route ev c = .stressKeep p) :
    (∃ k ∈ (process ev c).calls, k.sink = .upColl ∧ k.obj = (process ev c).final) ∧
    (process ev c).final = (obj0 ev c.nm).stressed ∧
    (process ev c).final.host = ev.host ∧
    (process ev c).final.md.probe = (metaOf ev c.nm).probe ∧
    (process ev c).final.md.probe ≠ some true := by
  have hc := (route_conditions ev c _).mp h
  cases p with
  | none =>
    obtain ⟨⟨_, h2, _⟩, _⟩ := hc
    simp [process, h, effects, Obj.stressed, obj0, h2]
  | some a =>
    obtain ⟨⟨_, h2, _⟩, _⟩ := hc
    simp [process, h, effects, Obj.stressed, obj0, h2]

/-- on every other path the received event object ends as what the (single) sink was handed -/
theorem final_is_what_the_sink_got (ev : Event) (c : Ctx) (hk : ∀ p, route ev c ≠ .stressKeep p)
    (k : Call) (hin : k ∈ (process ev c).calls) : k.obj = (process ev c).final := by
  unfold process at *
  generalize route ev c = o at *
  cases o with
  | stressKeep p => exact absurd rfl (hk p)
  | parseError => simp [effects] at hin
  | discardProbe => simp [effects] at hin
  | stressDrop => simp [effects] at hin
  | upstreamUnsampled => simp only [effects, List.mem_singleton] at hin; subst hin; rfl
  | peerForward a => simp only [effects, List.mem_singleton] at hin; subst hin; rfl
  | collectorIncoming => simp only [effects, List.mem_singleton] at hin; subst hin; rfl
  | collectorPeer => simp only [effects, List.mem_singleton] at hin; subst hin; rfl
  | queueFull => simp only [effects, List.mem_singleton] at hin; subst hin; rfl

/-! ## What "probe flag" and "trace id" mean for the received fields -/

theorem setMeta_probe {m m' : Meta} {k : String} {v : Val} (hk : k ≠ metaProbe)
    (h : setMeta m k v = some m') : m'.probe = m.probe := by
  unfold setMeta at h
  by_cases h1 : k = metaTraceID
  · rw [if_pos h1] at h
    cases v <;> simp at h
    subst h; split <;> rfl
  · rw [if_neg h1, if_neg hk] at h
    by_cases h3 : k = metaRoot
    · rw [if_pos h3] at h
      cases v <;> simp at h
      subst h; rfl
    · rw [if_neg h3] at h
      by_cases h4 : k = metaStressed
      · rw [if_pos h4] at h
        cases v <;> simp at h
        subst h; rfl
      · rw [if_neg h4] at h; simp at h

theorem setMeta_tid {m m' : Meta} {k : String} {v : Val} (hk : k ≠ metaTraceID)
    (h : setMeta m k v = some m') : m'.tid = m.tid := by
  unfold setMeta at h
  rw [if_neg hk] at h
  by_cases h2 : k = metaProbe
  · rw [if_pos h2] at h
    cases v <;> simp at h
    subst h; rfl
  · rw [if_neg h2] at h
    by_cases h3 : k = metaRoot
    · rw [if_pos h3] at h
      cases v <;> simp at h
      subst h; rfl
    · rw [if_neg h3] at h
      by_cases h4 : k = metaStressed
      · rw [if_pos h4] at h
        cases v <;> simp at h
        subst h; rfl
      · rw [if_neg h4] at h; simp at h

theorem step_probe (nm : Names) (st : Scan) (m : Meta) (kv : String × Val) (hk : kv.1 ≠ metaProbe) :
    (stepMsgp nm st kv).m.probe = st.m.probe ∧ (stepMap nm m kv).probe = m.probe := by
  constructor
  · unfold stepMsgp
    cases hs : setMeta st.m kv.1 kv.2 with
    | some m' => exact setMeta_probe hk hs
    | none =>
      cases hv : kv.2 <;> simp only []
      split
      · split <;> rfl
      · split
        · split <;> rfl
        · rfl
  · unfold stepMap
    split
    · cases hs : setMeta m kv.1 kv.2 with
      | some m' => exact setMeta_probe hk hs
      | none => rfl
    · split
      · cases hv : kv.2 <;> simp only []
        split <;> rfl
      · rfl

theorem step_tid_msgp (nm : Names) (st : Scan) (kv : String × Val) (hk : kv.1 ≠ metaTraceID)
    (hn : kv.1 ∉ nm.trace) :
    (stepMsgp nm st kv).m.tid = st.m.tid ∧ (stepMsgp nm st kv).cand = st.cand := by
  unfold stepMsgp
  cases hs : setMeta st.m kv.1 kv.2 with
  | some m' => exact ⟨setMeta_tid hk hs, rfl⟩
  | none =>
    cases hv : kv.2 with
    | str s =>
      simp only [hn, false_and, if_false]
      split
      · split <;> exact ⟨rfl, rfl⟩
      · exact ⟨rfl, rfl⟩
    | _ => exact ⟨rfl, rfl⟩

theorem step_tid_map (nm : Names) (m : Meta) (kv : String × Val) (hk : kv.1 ≠ metaTraceID) :
    (stepMap nm m kv).tid = m.tid := by
  unfold stepMap
  split
  · cases hs : setMeta m kv.1 kv.2 with
    | some m' => exact setMeta_tid hk hs
    | none => rfl
  · split
    · cases hv : kv.2 <;> simp only []
      split <;> rfl
    · rfl

theorem firstConfigured_none (fs : Fields) (names : List String)
    (h : ∀ kv ∈ fs, kv.1 ∉ names) : firstConfigured fs names = "" := by
  induction names with
  | nil => rfl
  | cons n t ih =>
    have hl : lookupStr fs n = "" := by
      unfold lookupStr
      have : fs.find? (fun kv => kv.1 == n) = none := by
        rw [List.find?_eq_none]
        intro kv hkv
        have := h kv hkv
        simp only [List.mem_cons, not_or] at this
        simpa using this.1
      rw [this]
    unfold firstConfigured
    rw [hl]
    simp only [ne_eq, not_true_eq_false, if_false]
    exact ih (fun kv hkv hm => h kv hkv (List.mem_cons_of_mem _ hm))

theorem foldl_inv {α β : Type} (f : β → α → β) (P : β → Prop) (l : List α) (b : β)
    (hb : P b) (hstep : ∀ b a, a ∈ l → P b → P (f b a)) : P (l.foldl f b) := by
  induction l generalizing b with
  | nil => exact hb
  | cons x t ih =>
    exact ih (f b x) (hstep b x (List.mem_cons_self ..) hb)
      (fun b a ha hp => hstep b a (List.mem_cons_of_mem _ ha) hp)

/-- An event none of whose fields is named `meta.refinery.probe` is never taken for a probe
(so it is never discarded by the probe rule), under either payload encoding. -/
theorem not_probe_without_probe_field (enc : Enc) (nm : Names) (fs : Fields)
    (h : ∀ kv ∈ fs, kv.1 ≠ metaProbe) : (extract enc nm fs).probe = none := by
  have hmap : (fs.foldl (stepMap nm) meta0).probe = none :=
    foldl_inv _ (fun m => m.probe = none) fs meta0 rfl
      (fun m kv hkv hm => ((step_probe nm ⟨m, "", 0⟩ m kv (h kv hkv)).2).trans hm)
  have hmsgp : (fs.foldl (stepMsgp nm) { m := meta0, cand := "", idx := nm.trace.length }).m.probe = none :=
    foldl_inv _ (fun st => st.m.probe = none) fs _ rfl
      (fun st kv hkv hm => ((step_probe nm st st.m kv (h kv hkv)).1).trans hm)
  unfold extract
  cases enc <;> simp only [] <;> split <;> first | exact hmap | exact hmsgp

/-- An event with no field named `meta.trace_id` or one of the configured trace-id field names
has no trace id (so a well-formed non-probe one goes upstream unsampled). -/
theorem no_trace_id_without_carrier (enc : Enc) (nm : Names) (fs : Fields)
    (h : ∀ kv ∈ fs, kv.1 ≠ metaTraceID ∧ kv.1 ∉ nm.trace) : (extract enc nm fs).tid = "" := by
  have hmap : (fs.foldl (stepMap nm) meta0).tid = "" :=
    foldl_inv _ (fun m => m.tid = "") fs meta0 rfl
      (fun m kv hkv hm => (step_tid_map nm m kv (h kv hkv).1).trans hm)
  have hmsgp : (fs.foldl (stepMsgp nm) { m := meta0, cand := "", idx := nm.trace.length }).m.tid = "" ∧
      (fs.foldl (stepMsgp nm) { m := meta0, cand := "", idx := nm.trace.length }).cand = "" :=
    foldl_inv _ (fun st => st.m.tid = "" ∧ st.cand = "") fs _ ⟨rfl, rfl⟩
      (fun st kv hkv hm =>
        have hs := step_tid_msgp nm st kv (h kv hkv).1 (h kv hkv).2
        ⟨hs.1.trans hm.1, hs.2.trans hm.2⟩)
  have hfc := firstConfigured_none fs nm.trace (fun kv hkv => (h kv hkv).2)
  unfold extract
  cases enc <;> simp only []
  · rw [if_pos hmap]; exact hfc
  · rw [if_pos hmsgp.1]; exact hmsgp.2
  · rw [if_pos hmsgp.1]; exact hmsgp.2

/-- A non-empty `meta.trace_id` is the trace id, whatever else the event carries and wherever it
stands (last one wins when repeated); stated for the event's last such field. -/
theorem meta_trace_id_wins (nm : Names) (fs₁ fs₂ : Fields) (s : String) (hs : s ≠ "")
    (h₂ : ∀ kv ∈ fs₂, kv.1 ≠ metaTraceID) :
    (extract .msgp nm (fs₁ ++ (metaTraceID, .str s) :: fs₂)).tid = s := by
  unfold extract
  simp only [List.foldl_append, List.foldl_cons]
  generalize fs₁.foldl (stepMsgp nm) { m := meta0, cand := "", idx := nm.trace.length } = st0
  have h1 : (stepMsgp nm st0 (metaTraceID, .str s)).m.tid = s := by
    simp [stepMsgp, setMeta, hs]
  generalize stepMsgp nm st0 (metaTraceID, .str s) = st1 at h1
  have hinv : (fs₂.foldl (stepMsgp nm) st1).m.tid = s :=
    foldl_inv _ (fun st => st.m.tid = s) fs₂ st1 h1 (fun st kv hkv hm => by
      have hk := h₂ kv hkv
      unfold stepMsgp
      cases hsm : setMeta st.m kv.1 kv.2 with
      | some m' => exact (setMeta_tid hk hsm).trans hm
      | none =>
        cases hv : kv.2 <;> simp only [] <;> try exact hm
        split
        · split <;> exact hm
        · split
          · split <;> exact hm
          · exact hm)
  rw [if_neg (by rw [hinv]; exact hs)]
  exact hinv

/-! ## The dataset name survives a listener hop -/

theorem hex_roundtrip : ∀ n, n < 16 → isHex (hexDigit n) = true ∧ unhex (hexDigit n) = n := by decide

theorem percent_is_escaped {c : Nat} (h : shouldEscape c = false) : c ≠ 37 := by
  intro hc; subst hc; revert h; decide

theorem pathUnescape_cons_ne {c : Nat} (t : List Nat) (h : c ≠ 37) :
    pathUnescape (c :: t) = (pathUnescape t).map (fun r => c :: r) := by
  rw [pathUnescape.eq_def]
  simp [h]

/-- **dataset_roundtrip** — for every dataset name (any byte string), un-escaping the path
segment the sender writes gives back exactly that name: a forwarded event arrives under the same
dataset. -/
theorem dataset_roundtrip (ds : List Nat) (hb : ∀ b ∈ ds, b < 256) :
    pathUnescape (pathEscape ds) = some ds := by
  induction ds with
  | nil => rfl
  | cons c t ih =>
    have iht := ih (fun b hb' => hb b (List.mem_cons_of_mem _ hb'))
    have hc : c < 256 := hb c (List.mem_cons_self ..)
    unfold pathEscape
    by_cases he : shouldEscape c = true
    · have h1 := hex_roundtrip (c / 16) (by omega)
      have h2 := hex_roundtrip (c % 16) (Nat.mod_lt _ (by omega))
      rw [if_pos he]
      simp only [pathUnescape, if_true, h1.1, h2.1, Bool.and_self, iht, h1.2, h2.2, Option.map_some]
      congr 2
      omega
    · have he' : shouldEscape c = false := by simpa using he
      rw [if_neg he]
      rw [pathUnescape_cons_ne _ (percent_is_escaped he'), iht, Option.map_some]

/-- the receiving handler (which refuses an empty name) therefore reads every non-empty dataset
name back unchanged -/
theorem dataset_roundtrip_hop (ds : List Nat) (hb : ∀ b ∈ ds, b < 256) (hne : ds ≠ []) :
    datasetOf (pathEscape ds) = some ds := by
  unfold datasetOf
  have : pathEscape ds ≠ [] := by
    cases ds with
    | nil => exact absurd rfl hne
    | cons c t => unfold pathEscape; split <;> simp
  rw [if_neg this]
  exact dataset_roundtrip ds hb

/-- Full statement for the hop as a whole (sender URL, request line, mux, handler): every
non-empty dataset name arrives unchanged. -/
def HopFullStatement : Prop :=
  ∀ ds : List Nat, (∀ b ∈ ds, b < 256) → ds ≠ [] → hop ds = some ds

/-- Refuted by the dataset `/a` (e.g. an OTLP `service.name`): the peer is sent
`POST /1/batch/%2Fa`, its root mux router cleans the *decoded* path `/1/batch//a` and answers with
a redirect; no handler receives the span. -/
theorem hop_full_statement_refuted : ¬ HopFullStatement := by
  intro h
  have := h [47, 97] (by decide) (by decide)
  revert this
  decide

/-- **dataset hop (partial)** — every non-empty dataset name whose path is clean (no leading
slash, no `//`, no `.`/`..` segment) arrives unchanged. -/
theorem dataset_hop_partial (ds : List Nat) (hb : ∀ b ∈ ds, b < 256) (hne : ds ≠ [])
    (hc : unclean ds = false) : hop ds = some ds := by
  unfold hop
  rw [hc]
  exact dataset_roundtrip_hop ds hb hne

/-- **unescape_plus_literal** — `+` in a path segment is a literal plus sign: un-escaping copies
it (it is never turned into a space), wherever it stands. -/
theorem unescape_plus_literal (s : List Nat) :
    pathUnescape (43 :: s) = (pathUnescape s).map (fun r => 43 :: r) :=
  pathUnescape_cons_ne s (by decide)

/-- a segment without `%` is its own dataset name -/
theorem unescape_no_percent (s : List Nat) (h : ∀ b ∈ s, b ≠ 37) : pathUnescape s = some s := by
  induction s with
  | nil => rfl
  | cons c t ih =>
    have hc : c ≠ 37 := h c (List.mem_cons_self ..)
    rw [pathUnescape_cons_ne _ hc, ih (fun b hb => h b (List.mem_cons_of_mem _ hb)), Option.map_some]

/-- the sender leaves `+` as it is (so the receiver must not read it as a space) -/
theorem escape_keeps_plus (s : List Nat) : pathEscape (43 :: s) = 43 :: pathEscape s := by
  simp [pathEscape, shouldEscape, isAlnum]

-- "team+env", "a b", "%2B", "é": escaped, then read back
example : pathEscape [116, 43, 101] = [116, 43, 101] := by decide
example : pathEscape [97, 32, 98] = [97, 37, 50, 48, 98] := by decide
example : pathUnescape (pathEscape [37, 50, 66]) = some [37, 50, 66] := by decide
example : pathEscape [195, 169, 47] = [37, 67, 51, 37, 65, 57, 37, 50, 70] := by decide
example : pathUnescape [97, 37, 50] = none := by decide
example : pathUnescape [37, 101, 57] = some [233] := by decide
example : unclean [97, 47] = false ∧ unclean [47] = true ∧ unclean [97, 47, 47, 98] = true ∧
    unclean [46, 46] = true ∧ unclean [97, 47, 46] = true ∧ unclean [46, 46, 46] = false := by decide
example : hop [116, 43, 101, 47, 98] = some [116, 43, 101, 47, 98] := by decide

/-! ## Non-vacuity: concrete events, evaluated by the kernel -/

def nm0 : Names := { trace := ["trace.trace_id", "traceId"], parent := ["trace.parent_id"] }

def ctx0 (k : Kind) (s : Stress) (inFull peerFull : Bool) : Ctx :=
  { kind := k, nm := nm0, self := "A", owner := fun t => if t = "t1" then "B" else "A",
    stress := s, inFull := inFull, peerFull := peerFull }

def evOf (enc : Enc) (fs : Fields) : Event :=
  { host := "H", key := "K", ds := "D", env := "E", rate := 7, ts := "1.5", enc := enc, fields := fs }

example : route (evOf .msgp [("name", .str "x")]) (ctx0 .peer .keep true true) = .upstreamUnsampled := by decide
example : route (evOf .map [("trace.trace_id", .str "t0"), ("meta.refinery.probe", .bool true)])
    (ctx0 .incoming .off false false) = .discardProbe := by decide
example : route (evOf .map [("trace.trace_id", .str "t0"), ("meta.refinery.probe", .str "true")])
    (ctx0 .incoming .off false false) = .collectorIncoming := by decide
example : route (evOf .msgp [("traceId", .str "t1"), ("name", .int 3)]) (ctx0 .peer .skip false false)
    = .peerForward "B" := by decide
example : route (evOf .msgp [("trace.trace_id", .str "t0")]) (ctx0 .peer .off true false) = .collectorPeer := by decide
example : route (evOf .msgp [("trace.trace_id", .str "t0")]) (ctx0 .peer .off false true) = .queueFull := by decide
example : route (evOf .msgp [("trace.trace_id", .str "t1")]) (ctx0 .incoming .keep false false)
    = .stressKeep (some "B") := by decide
example : route (evOf .msgp [("trace.trace_id", .int 5)]) (ctx0 .incoming .drop false false)
    = .upstreamUnsampled := by decide
example : route (evOf .msgp [("traceId", .str "t0"), ("meta.trace_id", .str "")]) (ctx0 .incoming .drop false false)
    = .stressDrop := by decide
-- the lowest configured index wins, not the wire order (nm0: trace.trace_id before traceId)
example : route (evOf .msgp [("traceId", .str "t1"), ("trace.trace_id", .str "t0")]) (ctx0 .incoming .off false false)
    = .collectorIncoming := by decide
example : route (evOf .map [("traceId", .str "t1"), ("trace.trace_id", .str "")]) (ctx0 .incoming .off false false)
    = .peerForward "B" := by decide
example : (process (evOf .msgp [("traceId", .str "t1"), ("meta.trace_id", .int 2), ("name", .int 3)])
    (ctx0 .incoming .off false false)).calls
    = [⟨.peer, true, ⟨"B", "K", "D", "E", 7, "1.5", ⟨"t1", none, some true, none⟩,
        [("traceId", .str "t1"), ("name", .int 3)]⟩⟩] := by decide
example : ((process (evOf .map [("trace.parent_id", .str "p"), ("trace.trace_id", .str "t1")])
    (ctx0 .peer .keep false false)).calls.map fun k => (k.sink, k.obj.host, k.obj.md.probe))
    = [(.upColl, "H", none), (.peer, "B", some true)] := by decide

end Refinery.Props.C19
