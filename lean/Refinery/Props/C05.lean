import Refinery.Lemmas.CollectorFacts
/-!
# C05 — Dry run forwards every span with the would-be decision

Statement (properties.jsonl): with DryRun enabled, every span handled by the collector, including
spans of traces that would be dropped and late spans, is forwarded to Honeycomb with the client's
sample rate (absent and zero being equivalent) and with `meta.refinery.dryrun.kept` equal to the
decision the sampler made.  The only spans not forwarded are those dropped by stress relief, which
is documented to ignore dry run.

The theorems quantify over every history (every decision path: tick — root, expiry, span limit —,
ejection, late span of a kept trace, late span of a dropped trace; reloads that swap the sampler),
every sampler, worker assignment and kept-record capacity.  `f.dry` is the value of
`Config.GetIsDryRun()` when span `f` was handed to the transmission, so `dryrun_rate` and
`dryrun_marker` speak about every span forwarded under dry run even when DryRun is toggled by
reloads; `dryrun_all_forwarded` is about DryRun being on throughout.  The stress-relief path
(`ProcessSpanImmediately`, taken by every span while the node is stressed) is part of the model: it
ignores dry run — spans it drops are the property's one exception (`s.stressDropped`), spans it keeps
are forwarded with the client's rate but *without* the marker (`stress_forward_unmarked`; no sampler
decision exists for them).
-/
namespace Refinery.Props.C05
open Refinery.Model.Collector Refinery.Lemmas.Collector

/-- **dryrun_all_forwarded** — DryRun on throughout: every accepted span whose trace has left the
buffer and `tracesToSend` has been forwarded exactly once — whatever the sampler decided, on every
decision path, late spans included, remembered or not — **or** was dropped by stress relief
(exactly one of the two): the only spans not forwarded are those dropped by stress relief. -/
theorem dryrun_all_forwarded (P : Params) (dry : Bool) (ops : List Op) (t : Nat)
    (halways : (run P dry ops).everWet = false)
    (hq : Quiescent (run P dry ops) t) :
    ∀ sp ∈ (run P dry ops).accepted, sp.trace = t →
      timesForwarded (run P dry ops) sp.id + (ids (run P dry ops).stressDropped).count sp.id = 1 := by
  intro sp hsp ht
  have h := inv_run P dry ops
  have hc := h.cons sp.id
  rw [if_pos (id_lt h hsp)] at hc
  have hbuf : (ids (run P dry ops).buf).count sp.id = 0 := by
    rw [List.count_eq_zero]
    intro hm
    obtain ⟨sp', hsp', hid⟩ := mem_ids hm
    have : sp' = sp := uniq_id h (h.bufAcc sp' hsp') hsp hid
    subst this
    exact hq.1 sp' hsp' ht
  have hsend : (sendIds (run P dry ops).toSend).count sp.id = 0 := by
    rw [List.count_eq_zero]
    intro hm
    obtain ⟨sd, hsd, sp', hsp', hid⟩ := mem_sendIds hm
    obtain ⟨ha, htr⟩ := h.sendAcc sd hsd sp' hsp'
    have : sp' = sp := uniq_id h ha hsp hid
    subst this
    exact hq.2 sd hsd (htr.symm.trans ht)
  have hdisc : (ids (run P dry ops).discarded).count sp.id = 0 := by
    rw [(h.allDry halways).2.1]; simp
  unfold timesForwarded
  omega

/-- the stress exception is exactly that: a span counted in `stressDropped` was refused by the stress
path because a "drop" decision exists for its trace (the stress decision itself, or an earlier
recorded drop) — or the dropped-trace filter gave a false positive. -/
theorem stress_dropped_decided (P : Params) (dry : Bool) (ops : List Op) :
    ∀ sp ∈ (run P dry ops).stressDropped,
      (∃ d ∈ (run P dry ops).decisions, d.trace = sp.trace ∧ d.keep = false) ∨ sp.trace ∈ (run P dry ops).falsePos :=
  (inv_run P dry ops).sdropDec

/-- DryRun on throughout and stress relief never on: every span is forwarded, exactly once. -/
theorem dryrun_all_forwarded_nostress (P : Params) (dry : Bool) (ops : List Op) (t : Nat)
    (halways : (run P dry ops).everWet = false) (hns : (run P dry ops).everStressed = false)
    (hq : Quiescent (run P dry ops) t) :
    ∀ sp ∈ (run P dry ops).accepted, sp.trace = t → timesForwarded (run P dry ops) sp.id = 1 := by
  intro sp hsp ht
  have := dryrun_all_forwarded P dry ops t halways hq sp hsp ht
  rw [((inv_run P dry ops).noStress hns).2.1] at this
  simpa using this

/-- `dryrun_all_forwarded` with the hypothesis as a predicate of the op list: the collector starts
with DryRun on and no reload turns it off. -/
theorem dryrun_all_forwarded_ops (P : Params) (ops : List Op) (t : Nat)
    (hno : NoWetReload ops) (hns : NoStressOn ops) (hq : Quiescent (run P true ops) t) :
    ∀ sp ∈ (run P true ops).accepted, sp.trace = t → timesForwarded (run P true ops) sp.id = 1 :=
  dryrun_all_forwarded_nostress P true ops t (everWet_run P ops hno) (everStressed_run P true ops hns) hq

/-- DryRun on throughout: no decision and no late-span lookup ever discards a span. -/
theorem dryrun_nothing_dropped (P : Params) (dry : Bool) (ops : List Op)
    (halways : (run P dry ops).everWet = false) : (run P dry ops).discarded = [] :=
  ((inv_run P dry ops).allDry halways).2.1

/-- **dryrun_rate** — a span forwarded under dry run carries the client's sample rate, absent/zero
and 1 being the same rate: Refinery's own rate is not multiplied in.  (`f.client` is the rate the
accepted span arrived with, by `client_is_accepted`.) -/
theorem dryrun_rate (P : Params) (dry : Bool) (ops : List Op) :
    ∀ f ∈ (run P dry ops).out, f.dry = true → clientOr1 f.rate = clientOr1 f.client := by
  intro f hf hd
  exact (inv_run P dry ops).outRate f hf hd

theorem client_is_accepted (P : Params) (dry : Bool) (ops : List Op) :
    ∀ f ∈ (run P dry ops).out, ∃ sp ∈ (run P dry ops).accepted, sp.id = f.sid ∧ sp.client = f.client := by
  intro f hf
  obtain ⟨sp, hsp, h1, _, h3⟩ := (inv_run P dry ops).outAcc f hf
  exact ⟨sp, hsp, h1, h3⟩

/-- **dryrun_marker** — a span forwarded under dry run carries `meta.refinery.dryrun.kept = k` where
`k` is a decision the sampler made for its trace; the one exception the code allows is a false
positive of the dropped-trace filter (the span is then marked `false` although no decision exists). -/
theorem dryrun_marker (P : Params) (dry : Bool) (ops : List Op) :
    ∀ f ∈ (run P dry ops).out, f.dry = true → f.stress = false →
      ∃ k, f.marker = some k ∧
        ((∃ d ∈ (run P dry ops).decisions, d.trace = f.trace ∧ d.keep = k) ∨
         (k = false ∧ f.trace ∈ (run P dry ops).falsePos)) := by
  intro f hf hd hst
  exact (inv_run P dry ops).outDry f hf hd hst

/-- **dryrun_marker**, remembered trace: the marker equals *the* decision of the trace. -/
theorem dryrun_marker_unique (P : Params) (dry : Bool) (ops : List Op) (t : Nat)
    (hrem : Remembered (run P dry ops) t) (hsc : StressConstant (run P dry ops) t) :
    ∀ f ∈ (run P dry ops).out, f.trace = t → f.dry = true → f.stress = false →
      ∀ d ∈ (run P dry ops).decisions, d.trace = t → f.marker = some d.keep := by
  intro f hf ht hd hst d hdm hdt
  have h := inv_run P dry ops
  obtain ⟨k, hk, hor⟩ := h.outDry f hf hd hst
  rcases hor with ⟨d', hd', hdt', hdk'⟩ | ⟨_, hfp⟩
  · have := decision_unique h hrem.1 hsc hdm hdt hd' (hdt'.trans ht)
    subst this
    rw [hk, hdk']
  · exact absurd (ht ▸ hfp) hrem.2

/-- a span forwarded by the stress path carries no dry-run marker (`ProcessSpanImmediately` ignores
dry run) and belongs to a trace with a recorded "keep" -/
theorem stress_forward_unmarked (P : Params) (dry : Bool) (ops : List Op) :
    ∀ f ∈ (run P dry ops).out, f.stress = true →
      f.marker = none ∧ ∃ d ∈ (run P dry ops).decisions, d.trace = f.trace ∧ d.keep = true :=
  (inv_run P dry ops).outStress

/-- the marker is only ever set under dry run -/
theorem marker_only_in_dryrun (P : Params) (dry : Bool) (ops : List Op) :
    ∀ f ∈ (run P dry ops).out, f.dry = false → f.marker = none :=
  fun f hf hd => ((inv_run P dry ops).outWet f hf hd).1

/-! ## Non-vacuity -/

/-- even traces kept at rate 7, odd traces dropped -/
def exP : Params := { decide := fun _ t => { keep := t % 2 == 0, rate := 7 }, owner := fun t => t % 3, cap := 2 }

/-- a kept and a dropped trace, each with an on-time and a late span, client rates 0, 1, 4 -/
def exOps : List Op :=
  [.span 0 true 0 false, .span 1 false 4 false, .decide 0, .decide 1, .span 1 true 0 true, .drain, .drain,
   .span 0 false 4 false]

example : (run exP true exOps).everWet = false ∧ Quiescent (run exP true exOps) 0 ∧ Quiescent (run exP true exOps) 1 := by
  decide
example : (run exP true exOps).out.map (fun f => (f.sid, f.rate, f.marker)) =
    [(2, 0, some false), (0, 1, some true), (1, 4, some false), (3, 4, some true)] := by decide
/-- stress relief under dry run: trace 5 is dropped by stress relief (the exception), trace 4 kept
and forwarded unmarked with the client's rate; afterwards a normal late span of trace 4 is marked -/
def exStressP : Params := { exP with stressDecide := fun t => { keep := t % 2 == 0, rate := 9 } }
def exStressOps : List Op :=
  [.stress true, .span 5 true 2 false, .span 4 true 3 false, .stress false, .span 4 false 0 false]
example : (run exStressP true exStressOps).stressDropped.map (·.id) = [0] ∧
    (run exStressP true exStressOps).out.map (fun f => (f.sid, f.rate, f.marker, f.stress)) =
      [(1, 3, none, true), (2, 1, some true, false)] ∧ (run exStressP true exStressOps).everWet = false := by decide

/-- the same history with DryRun off: the dropped trace is gone and rates are multiplied -/
example : (run exP false exOps).out.map (fun f => (f.sid, f.rate, f.marker)) = [(0, 7, none), (3, 28, none)] := by decide

end Refinery.Props.C05
