import Refinery.Model.StressRelief
import Refinery.Lemmas.StressRelief
import Refinery.Gen.Stress
/-!
# C15 — stress relief switches with hysteresis on a bounded stress level

Statement (properties.jsonl): the stress level Refinery acts on is the larger of the node's own
level and the root-mean-square of the recent nonzero levels reported by peers, and lies in [0,100]
whenever peer reports do.  In monitor mode relief switches on when that level reaches
ActivationLevel and switches off only when the level is below DeactivationLevel and at least
MinimumActivationDuration has passed since it was last at or above it; in never and always modes
relief is permanently off and on.

All theorems quantify over an arbitrary history `ops : List Op` — own-level readings (the `loc`
argument of `recalc`), peer reports, malformed messages, clock advances of any size, reloads of
mode / thresholds / minimum duration at any point, recalculations — and speak about **every**
recalculation `e` of the history (`trace … = post ++ e :: pre`, `pre` = the earlier ones).

The clause "switches on when the level reaches ActivationLevel" is **false** for the code when
`ActivationLevel < DeactivationLevel`, a configuration the documentation forbids and validation
accepts: `full_statement_refuted`; it holds under `DeactivationLevel ≤ ActivationLevel`:
`on_when_reaches_partial`; and it holds at full strength for the repaired variant of the model
(`fx = true`: `UpdateFromConfig` clamps the deactivation level to the activation level):
`on_when_reaches`.  All other theorems hold for both variants (`fx` arbitrary).
-/
namespace Refinery.Props.C15
open Refinery Refinery.Model.StressRelief Refinery.Lemmas.StressRelief

/-- `peer.PeerEntryTimeout`, regenerated from the code on every run -/
abbrev T : Int := Refinery.Gen.Stress.peerEntryTimeoutNs

theorem timeout_nonneg : 0 ≤ T := by decide

/-- the shipped defaults (struct tags of `StressReliefConfig`) are in the order the proofs need -/
theorem defaults_ordered :
    Refinery.Gen.Stress.defaultDeactivationLevel ≤ Refinery.Gen.Stress.defaultActivationLevel := by decide

/-! ## The root mean square (integer square root: `Lemmas.StressRelief.isqrt_spec`) -/

/-- **rms_floor** — the modelled cluster level `r` is the floor of the real root mean square of the
non-zero levels: `r² ≤ (Σ l²)/n < (r+1)²`, stated without division. -/
theorem rms_floor (ls : List Nat) (h : (ls.filter (· ≠ 0)).length ≠ 0) :
    rms ls * rms ls * (ls.filter (· ≠ 0)).length ≤ ((ls.filter (· ≠ 0)).map (fun l => l * l)).sum ∧
    ((ls.filter (· ≠ 0)).map (fun l => l * l)).sum <
      (rms ls + 1) * (rms ls + 1) * (ls.filter (· ≠ 0)).length := by
  have hpos : 0 < (ls.filter (· ≠ 0)).length := Nat.pos_of_ne_zero h
  unfold rms
  simp only [if_neg h]
  generalize ((ls.filter (· ≠ 0)).map (fun l => l * l)).sum = S
  generalize (ls.filter (· ≠ 0)).length = n at hpos
  have sp := isqrt_spec (S / n)
  exact ⟨(Nat.le_div_iff_mul_le hpos).mp sp.1, (Nat.div_lt_iff_lt_mul hpos).mp sp.2⟩

/-- with no non-zero level the cluster level is 0 -/
theorem rms_none (ls : List Nat) (h : (ls.filter (· ≠ 0)).length = 0) : rms ls = 0 := by
  have : ls.filter (· ≠ 0) = [] := List.eq_nil_of_length_eq_zero h
  simp only [rms, this]
  rfl

/-! ## Level: formula and bound -/

/-- **level_formula** — after any history, a recalculation with own level `loc` acts on
`max(loc, RMS)`, where RMS is the (floored, `rms_floor`) root mean square of the non-zero levels
among the most recent report of every node — this node's own `loc` included — that are at most
`PeerEntryTimeout` old; a report exactly `PeerEntryTimeout` old still counts. -/
theorem level_formula (ops : List Op) (fx : Bool) (loc : Nat) :
    ((recalc (run T ops fx) loc).2).cluster = rms ((Spec.run ops).recent T loc) ∧
    ((recalc (run T ops fx) loc).2).level = max (rms ((Spec.run ops).recent T loc)) loc ∧
    ((recalc (run T ops fx) loc).1).level = ((recalc (run T ops fx) loc).2).level := by
  obtain ⟨h1, h2, h3, h4⟩ := invS_run timeout_nonneg ops fx
  have hc : ((recalc (run T ops fx) loc).2).cluster = rms ((Spec.run ops).recent T loc) := by
    simp only [recalc, Spec.recent]
    rw [h4, h1, h2, ← keep_put _ _ _ _ (by simp [fresh]; have := timeout_nonneg; omega),
      keep_keep_fresh _ _ _ h3]
  refine ⟨hc, ?_, rfl⟩
  rw [← hc]; rfl

/-- what the history-indexed view holds for an id: the most recent report (`peer` message, or
this node's own level at a recalculation), with the instant it arrived -/
theorem spec_last_step (sp : Spec) (o : Op) (k : Nat) :
    AList.get (sp.step o).last k =
      match o with
      | .peer id l => if id = k then some (l, sp.now) else AList.get sp.last k
      | .recalc loc => if hostId = k then some (loc, sp.now) else AList.get sp.last k
      | _ => AList.get sp.last k := by
  cases o <;> simp [Spec.step, AList.get_put]

def OpBounded (B : Nat) : Op → Prop
  | .peer _ l => l ≤ B
  | .recalc loc => loc ≤ B
  | _ => True

/-- **level_bounded** — if every peer report and every own level of the history is at most `B`
(the property's `B = 100`), every recalculation acts on a level of at most `B`, and so is the
cluster level. -/
theorem level_bounded (B : Nat) (ops : List Op) (fx : Bool) (hops : ∀ o ∈ ops, OpBounded B o) :
    AllEv (fun e _ => e.level ≤ B ∧ e.cluster ≤ B) (trace T ops fx) := by
  refine (events_all T fx (fun s _ => ∀ x ∈ s.reports, x.2.1 ≤ B) (OpBounded B) _ ?_ ?_ ?_ ops hops).2
  · intro x hx; simp [init] at hx
  · intro s evs o ho hi
    cases o with
    | adv d => simpa [stepE, step] using hi
    | junk => simpa [stepE, step] using hi
    | reload c => simpa [stepE, step] using hi
    | peer id l =>
      simp only [stepE, step]
      intro x hx
      obtain ⟨k, v⟩ := x
      rcases mem_put hx with h | h
      · subst h; exact ho
      · exact hi _ h
    | recalc loc =>
      simp only [stepE, step, recalc]
      intro x hx
      obtain ⟨k, v⟩ := x
      have hx' := (List.mem_filter.mp hx).1
      rcases mem_put hx' with h | h
      · subst h; exact ho
      · exact hi _ h
  · intro s evs o e ho hi he
    obtain ⟨loc, rfl, rfl⟩ := step_ev he
    have hb : ∀ x ∈ levelsOf (AList.keep (AList.put s.reports hostId (loc, s.now)) (fresh s.timeout s.now)), x ≤ B := by
      intro x hx
      simp only [levelsOf, List.mem_map] at hx
      obtain ⟨⟨k, v⟩, hm, rfl⟩ := hx
      have hx' := (List.mem_filter.mp hm).1
      rcases mem_put hx' with h | h
      · subst h; exact ho
      · exact hi _ h
    have hr := rms_le B _ hb
    have hl : loc ≤ B := ho
    simp only [recalc]
    exact ⟨Nat.max_le.mpr ⟨hr, hl⟩, hr⟩

/-- the bound on reports is needed: one report of 250 and the level acted on is 250 -/
theorem level_bounded_needs_reports :
    ((recalc (run T [.peer 1 250]) 0).2).level = 250 := by decide

/-! ## Modes -/

/-- **never_always** — every recalculation made in `never` mode leaves relief off and every
recalculation made in `always` mode leaves it on, whatever the levels, thresholds and history. -/
theorem never_always (ops : List Op) (fx : Bool) :
    AllEv (fun e _ => (e.cfg.mode = .never → e.after = false) ∧ (e.cfg.mode = .always → e.after = true))
      (trace T ops fx) := by
  refine (events_all T fx (fun _ _ => True) (fun _ => True) _ trivial (fun _ _ _ _ _ => trivial) ?_ ops
    (fun _ _ => trivial)).2
  intro s evs o e _ _ he
  obtain ⟨loc, rfl, rfl⟩ := step_ev he
  exact ⟨fun h => machine_never _ _ _ _ _ h, fun h => machine_always _ _ _ _ _ h⟩

/-- Relief changes only inside recalculations: the state a recalculation starts from is the one
the previous recalculation left (off before the first), whatever happened in between
(reloads, reports, clock). -/
theorem before_eq_prev_after (ops : List Op) (fx : Bool) :
    AllEv (fun e pre => e.before = match pre with | [] => false | p :: _ => p.after) (trace T ops fx) := by
  refine (events_all T fx (fun s evs => s.stressed = match evs with | [] => false | p :: _ => p.after)
    (fun _ => True) _ rfl ?_ ?_ ops (fun _ _ => trivial)).2
  · intro s evs o _ hi
    cases o <;> simp [stepE, step, recalc] <;> exact hi
  · intro s evs o e _ hi he
    obtain ⟨loc, rfl, rfl⟩ := step_ev he
    exact hi

/-- The full-strength activation clause of the property: in monitor mode, a recalculation whose
level has reached the activation level leaves relief on — for **all** configurations.
`fx = false`: the code as it is; `fx = true`: `UpdateFromConfig` repaired (`clampCfg`). -/
def FullStatementOf (fx : Bool) : Prop :=
  ∀ (ops : List Op) (post : List Ev) (e : Ev) (pre : List Ev), trace T ops fx = post ++ e :: pre →
    e.cfg.mode = .monitor → e.cfg.act ≤ e.level → e.after = true

def FullStatement : Prop := FullStatementOf false

/-- Refuted by the code as it is: with `ActivationLevel = 50 < DeactivationLevel = 80` (accepted by
configuration validation) a level of 60 switches relief on and off again inside the same `Recalc`
(`stayOnUntil` is still the zero time), so `Stressed()` stays false. -/
theorem full_statement_refuted : ¬ FullStatement := by
  intro h
  have := h [.reload { mode := .monitor, act := 50, deact := 80, minDur := 10000000000 }, .recalc 60] []
    { cfg := { mode := .monitor, act := 50, deact := 80, minDur := 10000000000 }, now := 0, loc := 60,
      cluster := 60, level := 60, before := false, after := false } [] (by decide) rfl (by decide)
  simp at this

/-- **on_when_reaches (full statement, repaired variant)** — once `UpdateFromConfig` replaces a
deactivation level above the activation level by the activation level, every monitor-mode
recalculation whose level is at or above the configured activation level leaves relief on, for
all configurations and histories (the clamp leaves mode, activation level and minimum duration
untouched: `Lemmas.StressRelief.clampCfg_act`). -/
theorem on_when_reaches : FullStatementOf true := by
  intro ops
  refine (events_all T true InvF (fun _ => True)
    (fun e _ => e.cfg.mode = .monitor → e.cfg.act ≤ e.level → e.after = true)
    ⟨rfl, Nat.le_refl _⟩ (fun s evs o _ hi => invF_step s evs o hi) ?_ ops (fun _ _ => trivial)).2
  intro s evs o e _ hi he
  obtain ⟨loc, rfl, rfl⟩ := step_ev he
  intro hm hl
  exact machine_on _ _ _ _ _ hm hi.2 hl

/-- the same witness history on the repaired variant: relief comes on -/
example : (trace T [.reload { mode := .monitor, act := 50, deact := 80, minDur := 10000000000 }, .recalc 60] true).map
    (fun e => (e.after, e.cfg.deact)) = [(true, 50)] := by decide

/-- **on_when_reaches (partial)** — in monitor mode, with `DeactivationLevel ≤ ActivationLevel` in
force at that recalculation, every recalculation whose level is at or above the activation level
leaves relief on — whatever the history (holds pending or not, reloads mid-episode). -/
theorem on_when_reaches_partial (ops : List Op) (fx : Bool) :
    AllEv (fun e _ => e.cfg.mode = .monitor → e.cfg.deact ≤ e.cfg.act → e.cfg.act ≤ e.level →
      e.after = true) (trace T ops fx) := by
  refine (events_all T fx (fun _ _ => True) (fun _ => True) _ trivial (fun _ _ _ _ _ => trivial) ?_ ops
    (fun _ _ => trivial)).2
  intro s evs o e _ _ he
  obtain ⟨loc, rfl, rfl⟩ := step_ev he
  intro hm hord hl
  exact machine_on _ _ _ _ _ hm hord hl

/-! ## Hysteresis -/

/-- **off_only_if** — every monitor-mode recalculation that takes relief from on to off has a
level below the deactivation level, and strictly more than the minimum activation duration has
passed since the last earlier monitor-mode recalculation that left relief on with the level at
or above the deactivation level (threshold and duration as in force at that earlier
recalculation).  No hypothesis on thresholds, modes or reloads. -/
theorem off_only_if (ops : List Op) (fx : Bool) :
    AllEv (fun e pre => e.cfg.mode = .monitor → e.before = true → e.after = false →
      e.level < e.cfg.deact ∧ holdOver e.now (lastWhere aboveOn pre) = true) (trace T ops fx) := by
  refine (events_all T fx InvH (fun _ => True) _ rfl (fun s evs o _ hi => invH_step s evs o hi) ?_ ops
    (fun _ _ => trivial)).2
  intro s evs o e _ hi he
  obtain ⟨loc, rfl, rfl⟩ := step_ev he
  intro hm hb ha
  simp only [recalc] at hm hb ha ⊢
  rw [hb] at ha
  have := (machine_off_iff _ _ _ _ hm).mp ha
  rw [hi, after_hold] at this
  exact this

/-- **stays_on** — in monitor mode relief that is on stays on through every recalculation whose
level is at or above the deactivation level, or that comes no later than the minimum duration
after the last recalculation that left relief on at or above it. -/
theorem stays_on (ops : List Op) (fx : Bool) :
    AllEv (fun e pre => e.cfg.mode = .monitor → e.before = true →
      (e.cfg.deact ≤ e.level ∨ holdOver e.now (lastWhere aboveOn pre) = false) → e.after = true)
      (trace T ops fx) := by
  intro post e pre h hm hb hc
  have := off_only_if ops fx post e pre h hm hb
  cases ha : e.after with
  | true => rfl
  | false =>
    have := this ha
    rcases hc with hc | hc
    · omega
    · rw [this.2] at hc; cases hc

/-- **off_when_due** (converse of `off_only_if`) — in monitor mode relief that is on goes off at
the first recalculation whose level is below the deactivation level once the hold is over. -/
theorem off_when_due (ops : List Op) (fx : Bool) :
    AllEv (fun e pre => e.cfg.mode = .monitor → e.before = true → e.level < e.cfg.deact →
      holdOver e.now (lastWhere aboveOn pre) = true → e.after = false) (trace T ops fx) := by
  refine (events_all T fx InvH (fun _ => True) _ rfl (fun s evs o _ hi => invH_step s evs o hi) ?_ ops
    (fun _ _ => trivial)).2
  intro s evs o e _ hi he
  obtain ⟨loc, rfl, rfl⟩ := step_ev he
  intro hm hb hl hh
  simp only [recalc] at hm hb hl hh ⊢
  rw [hb]
  apply (machine_off_iff _ _ _ _ hm).mpr
  rw [hi, after_hold]
  exact ⟨hl, hh⟩

/-- **off_only_if_any_level** — the same with "last at or above" read without reference to the
relief state or mode: *any* earlier recalculation whose level was at or above the deactivation
level then in force.  This needs, of every recalculation up to the one in question, that the
mode was not `always` and that `DeactivationLevel ≤ ActivationLevel` in monitor mode
(`…_needs_no_always`, `…_needs_order` show both are necessary). -/
theorem off_only_if_any_level (ops : List Op) (fx : Bool) :
    AllEv (fun e pre => (∀ e' ∈ e :: pre, Ordered e') → e.cfg.mode = .monitor → e.before = true →
      e.after = false →
      e.level < e.cfg.deact ∧ holdOver e.now (lastWhere aboveAny pre) = true) (trace T ops fx) := by
  refine (events_all T fx InvA (fun _ => True) _ ⟨rfl, fun _ _ => rfl⟩
    (fun s evs o _ hi => invA_step s evs o hi) ?_ ops (fun _ _ => trivial)).2
  intro s evs o e _ hi he
  obtain ⟨loc, rfl, rfl⟩ := step_ev he
  intro hall hm hb ha
  have hpre : ∀ e ∈ evs, Ordered e := fun e he => hall e (List.mem_cons_of_mem _ he)
  simp only [recalc] at hm hb ha ⊢
  rw [hi.2 hpre hb]
  rw [hb] at ha
  have := (machine_off_iff _ _ _ _ hm).mp ha
  rw [hi.1, after_hold] at this
  exact this

def cfgM (a d : Nat) : Cfg := { mode := .monitor, act := a, deact := d, minDur := 10000000000 }

/-- `always` mode switches relief on without starting a hold: a level of 90 seen in `always` mode,
then `monitor` mode one second later with level 10 — relief goes off 1 s after the level was at 90. -/
theorem off_only_if_any_level_needs_no_always :
    ∃ ops e pre, trace T ops = e :: pre ∧ (∀ e' ∈ e :: pre, e'.cfg.mode = .monitor → e'.cfg.deact ≤ e'.cfg.act) ∧
      e.cfg.mode = .monitor ∧ e.before = true ∧ e.after = false ∧
      holdOver e.now (lastWhere aboveAny pre) = false :=
  ⟨[.reload { cfgM 90 75 with mode := .always }, .recalc 90, .reload (cfgM 90 75), .adv 1000000000, .recalc 10],
   { cfg := cfgM 90 75, now := 1000000000, loc := 10, cluster := 10, level := 10, before := true, after := false },
   [{ cfg := { cfgM 90 75 with mode := .always }, now := 0, loc := 90, cluster := 90, level := 90, before := false, after := true }],
   by decide, by decide, rfl, rfl, rfl, by decide⟩

/-- with `ActivationLevel < DeactivationLevel` (and no `always` mode anywhere) relief can come on
below the deactivation level under a stale hold and go off less than the minimum duration after
the level was last at or above the deactivation level -/
theorem off_only_if_any_level_needs_order :
    ∃ ops e pre, trace T ops = e :: pre ∧ (∀ e' ∈ e :: pre, e'.cfg.mode ≠ .always) ∧
      e.cfg.mode = .monitor ∧ e.before = true ∧ e.after = false ∧
      holdOver e.now (lastWhere aboveAny pre) = false :=
  ⟨[.reload (cfgM 50 80), .recalc 90, .adv 1000000000, .reload { cfgM 50 80 with mode := .never }, .recalc 90,
    .reload (cfgM 50 80), .adv 1000000000, .recalc 60, .adv 8000000001, .recalc 60],
   { cfg := cfgM 50 80, now := 10000000001, loc := 60, cluster := 60, level := 60, before := true, after := false },
   [{ cfg := cfgM 50 80, now := 2000000000, loc := 60, cluster := 60, level := 60, before := false, after := true },
    { cfg := { cfgM 50 80 with mode := .never }, now := 1000000000, loc := 90, cluster := 90, level := 90, before := true, after := false },
    { cfg := cfgM 50 80, now := 0, loc := 90, cluster := 90, level := 90, before := false, after := true }],
   by decide, by decide, rfl, rfl, rfl, by decide⟩

/-! ## Non-vacuity: concrete histories evaluated by the kernel -/

-- three live reports 90 (own), 30, and a zero that is skipped: ⌊√((8100+900)/2)⌋ = 67
example : ((recalc (run T [.peer 1 30, .peer 2 0]) 90).2).cluster = 67 := by decide
-- a report exactly PeerEntryTimeout old still counts, one nanosecond later it is gone
example : ((recalc (run T [.peer 1 30, .adv 10000000000]) 90).2).cluster = 67 := by decide
example : ((recalc (run T [.peer 1 30, .adv 10000000001]) 90).2).cluster = 90 := by decide
example : ((recalc (run T [.peer 1 30, .adv 10000000001]) 90).1).reports = [(0, (90, 10000000001))] := by decide
-- hysteresis: on at 90, still on at 60 < 75 within the hold, on at exactly +10 s, off 1 ns later
example : (trace T [.reload (cfgM 90 75), .recalc 90, .adv 10000000000, .recalc 60]).map (·.after) = [true, true] := by decide
example : (trace T [.reload (cfgM 90 75), .recalc 90, .adv 10000000001, .recalc 60]).map (·.after) = [false, true] := by decide
-- a level between the thresholds neither switches on nor off
example : (trace T [.reload (cfgM 90 75), .recalc 80, .recalc 95, .recalc 80]).map (·.after) = [true, true, false] := by decide

end Refinery.Props.C15
