import Refinery.Model.Usage
/-!
# C34 — usage reports neither lose nor double-count usage

Statement (properties.jsonl): the usage reports Refinery sends to its OpAMP server never contain
negative usage, and across any sequence of counter growth, report attempts and send failures, the
usage carried by successfully sent reports adds up to the growth of the underlying counters minus
only what is still waiting to be sent.

All theorems quantify over an arbitrary history `ops : List Op` of `Add` calls, `NewReport`
calls, `completeSend` calls and send failures, in any interleaving (so every sequence of the
agent's send outcomes — success, pending-then-success, failure, pending-then-failure — with
`Add`s before, between and during the attempts is covered).  `run false` is the code as it is,
`run true` the tracker with the proposed repair (merge instead of overwrite).
-/
namespace Refinery.Props.C34
open Refinery.Model.Usage

/-! ## Additive measures -/

theorem wsum_append (f : Contrib → Int) (a b : Bag) : wsum f (a ++ b) = wsum f a + wsum f b := by
  induction a with
  | nil => simp [wsum]
  | cons c t ih => simp only [List.cons_append, wsum, ih]; omega

theorem wsum_nil (f : Contrib → Int) : wsum f [] = 0 := rfl

theorem wsum_flatMap_snoc (f : Contrib → Int) (ds : List Report) (r : Report) :
    wsum f ((ds ++ [r]).flatMap Report.all) = wsum f (ds.flatMap Report.all) + wsum f r.all := by
  simp [List.flatMap_append, wsum_append]

theorem tot_append (s : Nat) (a b : Bag) : tot s (a ++ b) = tot s a + tot s b := wsum_append _ a b

theorem cnt_nonneg (i : Nat) (b : Bag) : 0 ≤ cnt i b := by
  induction b with
  | nil => simp [cnt, wsum]
  | cons c t ih => simp only [cnt, wsum] at ih ⊢; split <;> omega

theorem cnt_pos_of_mem {c : Contrib} {b : Bag} (h : c ∈ b) : 1 ≤ cnt c.id b := by
  induction b with
  | nil => simp at h
  | cons x t ih =>
    have hn := cnt_nonneg c.id t
    simp only [cnt, wsum] at ih hn ⊢
    rcases List.mem_cons.mp h with h | h
    · subst h; simp; omega
    · have := ih h; split <;> omega

theorem nodup_of_cnt_le_one (b : Bag) (h : ∀ i, cnt i b ≤ 1) : (b.map (·.id)).Nodup := by
  induction b with
  | nil => simp
  | cons c t ih =>
    simp only [List.map_cons, List.nodup_cons, List.mem_map, not_exists, not_and]
    refine ⟨?_, ih ?_⟩
    · intro x hx hid
      have h1 := cnt_pos_of_mem hx
      have h2 := h c.id
      simp only [cnt, wsum] at h1 h2
      rw [hid] at h1
      simp at h2
      omega
    · intro i
      have h2 := h i
      simp only [cnt, wsum] at h2 ⊢
      split at h2 <;> omega

/-! ## One step: where the contributions go -/

/-- The send loop's held report consists exactly of what is in `lastDataPoints` plus what only the
report carries; with nothing held, nothing is carried by a report only. -/
def Held (st : St) : Prop :=
  (∀ r, st.held = some r → ∀ f, wsum f r.all = wsum f st.last + wsum f st.limbo) ∧
  (st.held = none → st.limbo = [])

/-- the contribution an operation creates -/
def created (st : St) : Op → Bag
  | .add s v => if v = 0 then [] else [⟨s, st.next, (v : Int) - (st.lastUsage s : Int)⟩]
  | _ => []

theorem held_step (fixed : Bool) {st : St} (h : Held st) (op : Op) : Held (step fixed st op).1 := by
  obtain ⟨h1, h2⟩ := h
  cases op with
  | add s v =>
    simp only [step, addReading]
    split
    · exact ⟨h1, h2⟩
    · exact ⟨h1, h2⟩
  | report =>
    simp only [step, newReport]
    split
    · exact ⟨h1, h2⟩
    · split
      · exact ⟨h1, h2⟩
      · refine ⟨?_, by simp⟩
        intro r hr f
        simp only [Option.some.injEq] at hr
        subst hr
        cases fixed <;> simp [Report.all, wsum_append, wsum_nil] <;> omega
  | sent =>
    simp only [step, completeSend]
    split
    · exact ⟨by simp, by simp⟩
    · rename_i hn
      exact ⟨by simp [hn], fun _ => h2 hn⟩
  | fail => exact ⟨by simp [step, giveUp], by simp [step, giveUp]⟩

/-- No operation destroys or duplicates a contribution: whatever additive measure is taken of
everything the model knows about changes only by what the operation created. -/
theorem wsum_step (fixed : Bool) (f : Contrib → Int) {st : St} (h : Held st) (op : Op) :
    wsum f (step fixed st op).1.everything = wsum f st.everything + wsum f (created st op) := by
  cases op with
  | add s v =>
    simp only [step, addReading, created]
    split
    · simp [wsum_nil]
    · simp only [St.everything, wsum_append, wsum]; omega
  | report =>
    simp only [step, newReport, created, wsum_nil]
    split
    · simp
    · split
      · simp
      · cases fixed <;> simp only [St.everything, wsum_append, wsum_nil, if_true, if_false, Bool.false_eq_true] <;> omega
  | sent =>
    simp only [step, completeSend, created, wsum_nil]
    split
    · rename_i r hr
      have := h.1 r hr f
      simp only [St.everything, wsum_append, wsum_nil, wsum_flatMap_snoc]; omega
    · simp only [St.everything, wsum_append, wsum_nil]; omega
  | fail =>
    simp only [step, giveUp, created, wsum_nil, St.everything, wsum_append]; omega

theorem next_step (fixed : Bool) (st : St) (op : Op) :
    (step fixed st op).1.next = st.next + (created st op).length := by
  cases op with
  | add s v => simp only [step, addReading, created]; split <;> simp
  | report =>
    simp only [step, newReport, created]
    split
    · simp
    · split <;> simp
  | sent => simp only [step, completeSend, created]; split <;> simp
  | fail => simp [step, giveUp, created]

theorem lastUsage_step (fixed : Bool) (st : St) (op : Op) :
    (step fixed st op).1.lastUsage = readStep st.lastUsage op := by
  cases op with
  | add s v => simp only [step, addReading, readStep]; split <;> simp
  | report =>
    simp only [step, newReport, readStep]
    split
    · simp
    · split <;> simp
  | sent => simp only [step, completeSend, readStep]; split <;> simp
  | fail => simp [step, giveUp, readStep]

/-! ## The invariant of every reachable state -/

structure Inv (st : St) : Prop where
  held : Held st
  /-- per signal, the contributions add up to the last reading -/
  acc : ∀ s, tot s st.everything = (st.lastUsage s : Int)
  /-- every contribution exists once -/
  uniq : ∀ i, cnt i st.everything ≤ 1
  unused : ∀ i, st.next ≤ i → cnt i st.everything = 0

theorem inv_init : Inv {} := by
  refine ⟨⟨by simp, by simp⟩, ?_, ?_, ?_⟩ <;> intros <;> simp [St.everything, tot, cnt, wsum]

theorem inv_step (fixed : Bool) {st : St} (h : Inv st) (op : Op) : Inv (step fixed st op).1 := by
  refine ⟨held_step fixed h.held op, ?_, ?_, ?_⟩
  · intro s
    have h1 := wsum_step fixed (fun c => if c.sig = s then c.amt else 0) h.held op
    have h2 := h.acc s
    simp only [tot] at h2 ⊢
    rw [h1, h2, lastUsage_step]
    cases op with
    | add s' v =>
      simp only [created, readStep]
      split
      · simp [wsum_nil]
      · simp only [wsum]
        by_cases hs : s = s'
        · subst hs; simp; omega
        · have hs' : ¬ s' = s := fun e => hs e.symm
          simp [hs, hs']
    | report => simp [created, readStep, wsum_nil]
    | sent => simp [created, readStep, wsum_nil]
    | fail => simp [created, readStep, wsum_nil]
  · intro i
    have h1 := wsum_step fixed (fun c => if c.id = i then 1 else 0) h.held op
    have h2 := h.uniq i
    have h3 := h.unused i
    simp only [cnt] at h2 h3 ⊢
    rw [h1]
    cases op with
    | add s' v =>
      simp only [created]
      split
      · simp [wsum_nil]; exact h2
      · simp only [wsum]
        by_cases hi : st.next = i
        · have := h3 (by omega); simp [hi] at this ⊢; omega
        · simp [hi]; exact h2
    | report => simp [created, wsum_nil]; exact h2
    | sent => simp [created, wsum_nil]; exact h2
    | fail => simp [created, wsum_nil]; exact h2
  · intro i hi
    have h1 := wsum_step fixed (fun c => if c.id = i then 1 else 0) h.held op
    have hn := next_step fixed st op
    have h3 := h.unused i
    simp only [cnt] at h3 ⊢
    rw [h1]
    rw [hn] at hi
    cases op with
    | add s' v =>
      simp only [created] at hi ⊢
      split
      · simp [wsum_nil]; exact h3 (by omega)
      · rename_i hv
        simp only [hv, if_false, List.length_singleton] at hi
        have hne : ¬ st.next = i := by omega
        simp [wsum, hne]; exact h3 (by omega)
    | report => simp [created, wsum_nil]; exact h3 (by simpa [created] using hi)
    | sent => simp [created, wsum_nil]; exact h3 (by simpa [created] using hi)
    | fail => simp [created, wsum_nil]; exact h3 (by simpa [created] using hi)

theorem inv_runFrom (fixed : Bool) (ops : List Op) : ∀ st, Inv st → Inv (runFrom fixed st ops) := by
  induction ops with
  | nil => intro st h; exact h
  | cons o os ih => intro st h; exact ih _ (inv_step fixed h o)

theorem inv_run (fixed : Bool) (ops : List Op) : Inv (run fixed ops) :=
  inv_runFrom fixed ops _ inv_init

theorem lastUsage_runFrom (fixed : Bool) (ops : List Op) :
    ∀ st, (runFrom fixed st ops).lastUsage = ops.foldl readStep st.lastUsage := by
  induction ops with
  | nil => intro st; rfl
  | cons o os ih =>
    intro st
    simp only [runFrom, List.foldl_cons] at ih ⊢
    rw [ih, lastUsage_step]

theorem lastUsage_run (fixed : Bool) (ops : List Op) : (run fixed ops).lastUsage = lastReading ops :=
  lastUsage_runFrom fixed ops _

/-! ## Conservation -/

/-- **accounting** — for every history (code as is, or repaired): per signal, the usage carried by
successfully sent reports, plus what is still waiting to be sent, plus what was dropped, is exactly
the growth of the counter.  Nothing else can happen to usage. -/
theorem accounting (fixed : Bool) (ops : List Op) (s : Nat) :
    (run fixed ops).sentTotal s + (run fixed ops).waiting s + (run fixed ops).lostTotal s
      = (lastReading ops s : Int) := by
  have h := (inv_run fixed ops).acc s
  rw [lastUsage_run] at h
  simp only [St.everything, tot_append] at h
  simp only [St.sentTotal, St.waiting, St.lostTotal]
  omega

/-- The property at full strength, for the code as it is: in every history of the agent (no
`completeSend` without a report being held), per signal, what successfully sent reports carried
equals the growth of the counter minus only what is still waiting to be sent. -/
def FullStatement : Prop :=
  ∀ (ops : List Op) (s : Nat), (run false ops).spurious = false →
    (run false ops).sentTotal s = (lastReading ops s : Int) - (run false ops).waiting s

/-- the history of DESIGN §5/C34: the reading grows 10, 20, 30; the first two reports fail, the
third is sent -/
def witness : List Op :=
  [.add 0 10, .report, .fail, .add 0 20, .report, .fail, .add 0 30, .report, .sent]

/-- **conservation is refuted on the code as it is**: after `witness` the counter has grown by 30,
nothing is waiting, and the only report that was sent carried 10 + 10. -/
theorem conservation_refuted : ¬ FullStatement := by
  intro h
  have := h witness 0 (by decide)
  revert this
  decide

/-- even shorter: one reading, two failed attempts, and the usage is gone for good. -/
theorem conservation_refuted_min :
    (run false [.add 0 10, .report, .fail, .report, .fail]).sentTotal 0 = 0 ∧
    (run false [.add 0 10, .report, .fail, .report, .fail]).waiting 0 = 0 ∧
    (step false (run false [.add 0 10, .report, .fail, .report, .fail]) .report).2 = .noData := by
  decide

theorem spurious_step (fixed : Bool) {st : St} (h : st.spurious = true) (op : Op) :
    (step fixed st op).1.spurious = true := by
  cases op with
  | add s v => simp only [step, addReading]; split <;> simp [h]
  | report =>
    simp only [step, newReport]
    split
    · simp [h]
    · split <;> simp [h]
  | sent => simp only [step, completeSend]; split <;> simp [h]
  | fail => simp [step, giveUp, h]

/-- what `noTwoFails d o` guarantees about the state -/
def K (d o : Bool) (st : St) : Prop :=
  st.lost = [] ∧ ((d = false ∨ o = false) → st.limbo = []) ∧ ((d = false ∧ o = false) → st.last = [])

theorem partial_aux (ops : List Op) : ∀ (d o : Bool) (st : St),
    (K d o st ∨ st.spurious = true) → noTwoFails d o ops = true →
    (runFrom false st ops).lost = [] ∨ (runFrom false st ops).spurious = true := by
  induction ops with
  | nil =>
    intro d o st h _
    rcases h with h | h
    · exact Or.inl h.1
    · exact Or.inr h
  | cons op r ih =>
    intro d o st h hn
    simp only [runFrom, List.foldl_cons]
    rcases h with h | h
    case inr =>
      -- already outside the agent's behaviour: stays so
      have hs := spurious_step false h op
      clear hn ih
      suffices ∀ st', st'.spurious = true → (runFrom false st' r).spurious = true from
        Or.inr (this _ hs)
      induction r with
      | nil => intro st' h'; exact h'
      | cons o' r' ih' =>
        intro st' h'
        simp only [runFrom, List.foldl_cons]
        exact ih' _ (spurious_step false h' o')
    case inl =>
      obtain ⟨k1, k2, k3⟩ := h
      cases op with
      | add s v =>
        simp only [noTwoFails] at hn
        refine ih d o _ (Or.inl ?_) hn
        simp only [step, addReading]
        split
        · exact ⟨k1, k2, k3⟩
        · exact ⟨k1, k2, k3⟩
      | report =>
        simp only [noTwoFails] at hn
        cases o with
        | true =>
          cases d with
          | true => simp at hn
          | false =>
            simp only [if_true, Bool.false_eq_true, if_false] at hn
            refine ih true true _ (Or.inl ?_) hn
            have hl := k2 (Or.inl rfl)
            simp only [step, newReport]
            split
            · exact ⟨k1, by simp, by simp⟩
            · split
              · exact ⟨k1, by simp, by simp⟩
              · exact ⟨by simp [k1, hl], by simp, by simp⟩
        | false =>
          simp only [Bool.false_eq_true, if_false] at hn
          refine ih d true _ (Or.inl ?_) hn
          have hl := k2 (Or.inr rfl)
          simp only [step, newReport]
          split
          · exact ⟨k1, fun _ => hl, by simp⟩
          · split
            · exact ⟨k1, fun _ => hl, by simp⟩
            · refine ⟨by simp [k1, hl], ?_, by simp⟩
              intro hd
              rcases hd with hd | hd
              · simpa using k3 ⟨hd, rfl⟩
              · simp at hd
      | fail =>
        simp only [noTwoFails] at hn
        cases d with
        | true => simp at hn
        | false =>
          simp only [Bool.false_eq_true, if_false] at hn
          refine ih true false _ (Or.inl ?_) hn
          have hl := k2 (Or.inl rfl)
          exact ⟨by simp [step, giveUp, k1, hl], by simp [step, giveUp], by simp⟩
      | sent =>
        simp only [noTwoFails] at hn
        refine ih false false _ ?_ hn
        simp only [step, completeSend]
        split
        · exact Or.inl ⟨k1, by simp, by simp⟩
        · exact Or.inr rfl

/-- **conservation (partial)** — on the code as it is, the property holds for every history of the
agent in which no report attempt fails while it is carrying the usage of an earlier failed attempt
(between two failures there is a successful send). -/
theorem conservation_partial (ops : List Op) (s : Nat)
    (hagent : (run false ops).spurious = false) (hfail : noTwoFails false false ops = true) :
    (run false ops).sentTotal s = (lastReading ops s : Int) - (run false ops).waiting s := by
  have hl : (run false ops).lost = [] := by
    rcases partial_aux ops false false {} (Or.inl ⟨rfl, fun _ => rfl, fun _ => rfl⟩) hfail with h | h
    · exact h
    · simp [run] at hagent; simp [hagent] at h
  have h := accounting false ops s
  simp only [St.lostTotal, hl, tot, wsum_nil] at h
  omega

/-! ### The repaired tracker (merge the current data points into the unsent ones) -/

theorem fixed_aux (ops : List Op) : ∀ st : St,
    (st.limbo = [] ∧ (st.lost = [] ∨ st.spurious = true)) →
    (runFrom true st ops).limbo = [] ∧ ((runFrom true st ops).lost = [] ∨ (runFrom true st ops).spurious = true) := by
  induction ops with
  | nil => intro st h; exact h
  | cons op r ih =>
    intro st h
    simp only [runFrom, List.foldl_cons]
    apply ih
    obtain ⟨h1, h2⟩ := h
    cases op with
    | add s v => simp only [step, addReading]; split <;> exact ⟨h1, h2⟩
    | report =>
      simp only [step, newReport]
      split
      · exact ⟨h1, h2⟩
      · split
        · exact ⟨h1, h2⟩
        · exact ⟨by simp, by simpa [h1] using h2⟩
    | sent =>
      simp only [step, completeSend]
      split
      · exact ⟨by simp, by simpa using h2⟩
      · exact ⟨by simpa using h1, Or.inr rfl⟩
    | fail => exact ⟨by simp [step, giveUp], by simpa [step, giveUp, h1] using h2⟩

/-- **conservation holds for the repaired tracker**, for every history of the agent: with
`lastDataPoints` merged instead of overwritten, sent = growth − waiting whatever the sequence of
send failures. -/
theorem conservation_fixed (ops : List Op) (s : Nat) (hagent : (run true ops).spurious = false) :
    (run true ops).sentTotal s = (lastReading ops s : Int) - (run true ops).waiting s := by
  have hl : (run true ops).lost = [] := by
    rcases (fixed_aux ops {} ⟨rfl, Or.inl rfl⟩).2 with h | h
    · exact h
    · simp [run] at hagent; simp [hagent] at h
  have h := accounting true ops s
  simp only [St.lostTotal, hl, tot, wsum_nil] at h
  omega

/-! ## No double counting -/

/-- **no_double_count** — in every history, every contribution (the delta of one `Add` call) is
carried by at most one data point of at most one successfully sent report: the identities of all
contributions in all delivered reports are pairwise different. -/
theorem no_double_count (fixed : Bool) (ops : List Op) :
    (((run fixed ops).delivered.flatMap Report.all).map (·.id)).Nodup := by
  apply nodup_of_cnt_le_one
  intro i
  have h := (inv_run fixed ops).uniq i
  simp only [St.everything, cnt, wsum_append] at h
  have h1 := cnt_nonneg i (run fixed ops).cur
  have h2 := cnt_nonneg i (run fixed ops).last
  have h3 := cnt_nonneg i (run fixed ops).limbo
  have h4 := cnt_nonneg i (run fixed ops).lost
  simp only [cnt] at h1 h2 h3 h4 ⊢
  omega

/-- … and a contribution that was delivered is no longer waiting anywhere in the tracker (it
cannot be put into a later report). -/
theorem delivered_not_waiting (fixed : Bool) (ops : List Op) (c : Contrib)
    (hc : c ∈ (run fixed ops).delivered.flatMap Report.all) :
    ∀ c' ∈ (run fixed ops).cur ++ (run fixed ops).last ++ (run fixed ops).limbo, c'.id ≠ c.id := by
  intro c' hc' hid
  have h := (inv_run fixed ops).uniq c.id
  simp only [St.everything, cnt, wsum_append] at h
  have h0 := cnt_pos_of_mem hc
  have h5 := cnt_pos_of_mem hc'
  rw [hid] at h5
  have h4 := cnt_nonneg c.id (run fixed ops).lost
  simp only [cnt, wsum_append] at h0 h4 h5
  omega

/-! ## Never negative -/

def ReportOk (r : Report) : Prop := ∀ s v, v ∈ r.points s → 0 ≤ v

theorem nonneg_of_not_negIn {b : Bag} (h : negIn b = false) {s : Nat} (hs : has s b = true) :
    0 ≤ tot s b := by
  simp only [has, List.any_eq_true, beq_iff_eq] at hs
  obtain ⟨c, hc, hcs⟩ := hs
  simp only [negIn, List.any_eq_false, decide_eq_true_eq] at h
  have := h c hc
  rw [hcs] at this
  omega

theorem reportOk_of_guard {a b : Bag} (ha : negIn a = false) (hb : negIn b = false) :
    ReportOk ⟨a, b⟩ := by
  intro s v hv
  simp only [Report.points, dataPoint, List.mem_append] at hv
  rcases hv with hv | hv
  · split at hv
    · rename_i hh; simp at hv; subst hv; exact nonneg_of_not_negIn ha hh
    · simp at hv
  · split at hv
    · rename_i hh; simp at hv; subst hv; exact nonneg_of_not_negIn hb hh
    · simp at hv

theorem produced_ok (fixed : Bool) (st : St) (r : Report)
    (h : (step fixed st .report).2 = .report r) : ReportOk r := by
  simp only [step, newReport] at h
  split at h
  · simp at h
  · split at h
    · simp at h
    · rename_i hneg
      simp only [Out.report.injEq] at h
      subst h
      simp only [Bool.or_eq_true, not_or, Bool.not_eq_true] at hneg
      exact reportOk_of_guard hneg.1 hneg.2

theorem ok_runFrom (fixed : Bool) (ops : List Op) : ∀ st : St,
    ((∀ r ∈ st.delivered, ReportOk r) ∧ (∀ r, st.held = some r → ReportOk r)) →
    ((∀ r ∈ (runFrom fixed st ops).delivered, ReportOk r) ∧
      (∀ r, (runFrom fixed st ops).held = some r → ReportOk r)) := by
  induction ops with
  | nil => intro st h; exact h
  | cons op os ih =>
    intro st h
    simp only [runFrom, List.foldl_cons]
    apply ih
    obtain ⟨h1, h2⟩ := h
    cases op with
    | add s v => simp only [step, addReading]; split <;> exact ⟨h1, h2⟩
    | report =>
      have hp := produced_ok fixed st
      simp only [step, newReport] at hp ⊢
      split
      · exact ⟨h1, h2⟩
      · split
        · exact ⟨h1, h2⟩
        · rename_i hA hB
          simp only [hA, hB, if_false, Bool.false_eq_true] at hp
          refine ⟨h1, ?_⟩
          intro r hr
          simp only [Option.some.injEq] at hr
          exact hp r (by rw [hr])
    | sent =>
      simp only [step, completeSend]
      split
      · rename_i r hr
        refine ⟨?_, by simp⟩
        intro r' hr'
        simp only [List.mem_append, List.mem_singleton] at hr'
        rcases hr' with hr' | hr'
        · exact h1 r' hr'
        · subst hr'; exact h2 _ hr
      · exact ⟨h1, by simpa using h2⟩
    | fail => exact ⟨h1, by simp [step, giveUp]⟩

/-- **never_negative (reports)** — in every history, every data point of every report that was
produced — in particular of every successfully sent report — is non-negative (`NewReport` refuses
to build a report otherwise). -/
theorem never_negative (fixed : Bool) (ops : List Op) :
    (∀ r ∈ (run fixed ops).delivered, ∀ s v, v ∈ r.points s → 0 ≤ v) ∧
    (∀ r, (step fixed (run fixed ops) .report).2 = .report r → ∀ s v, v ∈ r.points s → 0 ≤ v) :=
  ⟨(ok_runFrom fixed ops {} ⟨by simp, by simp⟩).1, fun r h => produced_ok fixed _ r h⟩

def NonnegBag (b : Bag) : Prop := ∀ c ∈ b, 0 ≤ c.amt

theorem tot_nonneg {b : Bag} (h : NonnegBag b) (s : Nat) : 0 ≤ tot s b := by
  induction b with
  | nil => simp [tot, wsum]
  | cons c t ih =>
    have h1 := h c (by simp)
    have h2 := ih (fun x hx => h x (by simp [hx]))
    simp only [tot, wsum] at h2 ⊢
    split <;> omega

theorem not_negIn_of_nonneg {b : Bag} (h : NonnegBag b) : negIn b = false := by
  simp only [negIn, List.any_eq_false, decide_eq_true_eq]
  intro c _
  have := tot_nonneg h c.sig
  omega

theorem nonnegBag_append {a b : Bag} (ha : NonnegBag a) (hb : NonnegBag b) : NonnegBag (a ++ b) := by
  intro c hc
  rcases List.mem_append.mp hc with h | h
  · exact ha c h
  · exact hb c h

def AllNonneg (st : St) : Prop :=
  NonnegBag st.cur ∧ NonnegBag st.last ∧ NonnegBag st.limbo ∧ NonnegBag st.lost

theorem nonneg_runFrom (fixed : Bool) (ops : List Op) : ∀ st : St,
    AllNonneg st → MonotoneFrom st.lastUsage ops → AllNonneg (runFrom fixed st ops) := by
  induction ops with
  | nil => intro st h _; exact h
  | cons op os ih =>
    intro st h hm
    simp only [runFrom, List.foldl_cons]
    obtain ⟨hm1, hm2⟩ := hm
    refine ih _ ?_ (by rw [lastUsage_step]; exact hm2)
    obtain ⟨h1, h2, h3, h4⟩ := h
    have hnil : NonnegBag [] := by intro c hc; simp at hc
    cases op with
    | add s v =>
      simp only [step, addReading]
      split
      · exact ⟨h1, h2, h3, h4⟩
      · rename_i hv
        refine ⟨nonnegBag_append h1 ?_, h2, h3, h4⟩
        intro c hc
        simp only [List.mem_singleton] at hc
        subst hc
        simp only at hm1 ⊢
        omega
    | report =>
      simp only [step, newReport]
      split
      · exact ⟨h1, h2, h3, h4⟩
      · split
        · exact ⟨h1, h2, h3, h4⟩
        · cases fixed
          · exact ⟨hnil, h1, h2, nonnegBag_append h4 h3⟩
          · exact ⟨hnil, nonnegBag_append h2 h1, hnil, nonnegBag_append h4 h3⟩
    | sent =>
      simp only [step, completeSend]
      split
      · exact ⟨h1, hnil, hnil, h4⟩
      · exact ⟨h1, hnil, h3, nonnegBag_append h4 h2⟩
    | fail => exact ⟨h1, h2, hnil, nonnegBag_append h4 h3⟩

/-- **never_negative (tracker)** — if the counters never restart (every non-zero reading of a
signal is at least the previous one), then in every history every data point the tracker holds is
non-negative, so `NewReport` never refuses with "invalid negative value". -/
theorem never_negative_monotone (fixed : Bool) (ops : List Op) (hm : Monotone ops) :
    (∀ s, 0 ≤ tot s (run fixed ops).cur ∧ 0 ≤ tot s (run fixed ops).last) ∧
    (step fixed (run fixed ops) .report).2 ≠ .negative := by
  have h : AllNonneg (run fixed ops) := nonneg_runFrom fixed ops {} ⟨by intro c hc; simp at hc,
    by intro c hc; simp at hc, by intro c hc; simp at hc, by intro c hc; simp at hc⟩ hm
  refine ⟨fun s => ⟨tot_nonneg h.1 s, tot_nonneg h.2.1 s⟩, ?_⟩
  have e1 := not_negIn_of_nonneg h.1
  have e2 := not_negIn_of_nonneg h.2.1
  simp only [step, newReport, e1, e2]
  split <;> simp

/-- The hypothesis is needed: after a counter restart (reading 4 after 10) the tracker holds a
negative data point and refuses to report — and keeps refusing while the counter stays below its
old value. -/
theorem restart_stalls_reporting :
    (step false (run false [.add 0 10, .report, .sent, .add 0 4]) .report).2 = .negative ∧
    (step false (run false [.add 0 10, .report, .sent, .add 0 4, .add 1 7, .add 0 9]) .report).2 = .negative := by
  decide

/-- **never over-reported** — with counters that never restart, what successfully sent reports
carried plus what is waiting never exceeds the growth of the counter. -/
theorem sent_le_growth (fixed : Bool) (ops : List Op) (hm : Monotone ops) (s : Nat) :
    (run fixed ops).sentTotal s + (run fixed ops).waiting s ≤ (lastReading ops s : Int) := by
  have h : AllNonneg (run fixed ops) := nonneg_runFrom fixed ops {} ⟨by intro c hc; simp at hc,
    by intro c hc; simp at hc, by intro c hc; simp at hc, by intro c hc; simp at hc⟩ hm
  have ha := accounting fixed ops s
  have hl := tot_nonneg h.2.2.2 s
  simp only [St.lostTotal] at ha
  omega

/-! ## The agent's loop only performs well-formed histories

An agent-level history (`Add`s and whole `sendUsageReport` iterations with any outcome, with `Add`s
during the send) is a history of tracker calls in which `completeSend` is only ever called for a
held report — so every theorem above applies to everything the agent can do. -/

theorem arunFrom_eq (fixed : Bool) (as : List AOp) :
    ∀ st, arunFrom fixed st as = runFrom fixed st (aops fixed st as) := by
  induction as with
  | nil => intro st; rfl
  | cons a r ih =>
    intro st
    have h := ih (astep fixed st a)
    simp only [arunFrom, runFrom, List.foldl_cons, aops, List.foldl_append, astep] at h ⊢
    exact h

theorem report_ok {fixed : Bool} {st : St} {r : Report} (h : (step fixed st .report).2 = .report r) :
    (step fixed st .report).1.held = some r ∧ (step fixed st .report).1.spurious = st.spurious := by
  simp only [step, newReport] at h ⊢
  split
  · rename_i h1; simp [h1] at h
  · split
    · rename_i h1 h2; simp [h1, h2] at h
    · rename_i h1 h2
      simp only [h1, h2, if_false, Bool.false_eq_true, Out.report.injEq] at h
      simp [h]

theorem report_err {fixed : Bool} {st : St} (h : ∀ r, (step fixed st .report).2 ≠ .report r) :
    (step fixed st .report).1 = st := by
  simp only [step, newReport] at h ⊢
  split
  · rfl
  · split
    · rfl
    · rename_i h1 h2
      simp only [h1, h2, if_false, Bool.false_eq_true] at h
      exact absurd rfl (h _)

theorem adds_keep (fixed : Bool) (mids : List (Nat × Nat)) : ∀ st : St,
    (runFrom fixed st (mids.map fun m => Op.add m.1 m.2)).held = st.held ∧
    (runFrom fixed st (mids.map fun m => Op.add m.1 m.2)).spurious = st.spurious := by
  induction mids with
  | nil => intro st; exact ⟨rfl, rfl⟩
  | cons m r ih =>
    intro st
    simp only [List.map_cons, runFrom, List.foldl_cons]
    have h := ih (step fixed st (.add m.1 m.2)).1
    simp only [runFrom] at h
    rw [h.1, h.2]
    simp only [step, addReading]
    split <;> exact ⟨rfl, rfl⟩

/-- between two operations of the agent no report is held and no spurious `completeSend` happened -/
def Idle (st : St) : Prop := st.spurious = false ∧ st.held = none

theorem astep_idle (fixed : Bool) {st : St} (h : Idle st) (a : AOp) : Idle (astep fixed st a) := by
  obtain ⟨h1, h2⟩ := h
  cases a with
  | add s v =>
    simp only [astep, AOp.expand, runFrom, List.foldl_cons, List.foldl_nil, step, addReading]
    split <;> exact ⟨h1, h2⟩
  | tick deliver mids =>
    simp only [astep, AOp.expand]
    split
    · rename_i r hr
      obtain ⟨k1, k2⟩ := report_ok hr
      obtain ⟨a1, a2⟩ := adds_keep fixed mids (step fixed st .report).1
      rw [k1] at a1
      rw [k2] at a2
      have e : runFrom fixed st (Op.report :: List.map (fun m => Op.add m.1 m.2) mids ++
            [if deliver = true then Op.sent else Op.fail])
          = (step fixed (runFrom fixed (step fixed st .report).1 (mids.map fun m => Op.add m.1 m.2))
              (if deliver = true then Op.sent else Op.fail)).1 := by
        simp [runFrom, List.foldl_append]
      rw [e]
      generalize runFrom fixed (step fixed st .report).1 (mids.map fun m => Op.add m.1 m.2) = st2 at a1 a2 ⊢
      cases deliver
      · exact ⟨by simp [step, giveUp, a2, h1], by simp [step, giveUp]⟩
      · exact ⟨by simp [step, completeSend, a1, a2, h1], by simp [step, completeSend, a1]⟩
    · rename_i hne
      have : (step fixed st .report).1 = st := report_err (fun r hr => hne r hr)
      simp only [runFrom, List.foldl_cons, List.foldl_nil, this]
      exact ⟨h1, h2⟩

theorem arunFrom_idle (fixed : Bool) (as : List AOp) : ∀ st, Idle st → Idle (arunFrom fixed st as) := by
  induction as with
  | nil => intro st h; exact h
  | cons a r ih => intro st h; exact ih _ (astep_idle fixed h a)

/-- **agent histories are well-formed** — whatever the sequence of readings and send outcomes, the
agent's loop performs a history of tracker calls without a spurious `completeSend`. -/
theorem agent_history_wellformed (fixed : Bool) (as : List AOp) :
    arun fixed as = run fixed (aops fixed {} as) ∧ (run fixed (aops fixed {} as)).spurious = false := by
  have e := arunFrom_eq fixed as {}
  refine ⟨e, ?_⟩
  have := (arunFrom_idle fixed as {} ⟨rfl, rfl⟩).1
  rw [e] at this
  exact this

/-- **conservation for the repaired agent** — all sequences of readings and send outcomes. -/
theorem agent_conservation_fixed (as : List AOp) (s : Nat) :
    (arun true as).sentTotal s
      = (lastReading (aops true {} as) s : Int) - (arun true as).waiting s := by
  obtain ⟨e, hs⟩ := agent_history_wellformed true as
  rw [e]
  exact conservation_fixed _ s hs

/-- the refuting history as the agent performs it: three loop iterations — fail, fail, success. -/
theorem agent_conservation_refuted :
    (arun false [.add 0 10, .tick false [], .add 0 20, .tick false [], .add 0 30, .tick true []]).sentTotal 0 = 20 ∧
    (arun false [.add 0 10, .tick false [], .add 0 20, .tick false [], .add 0 30, .tick true []]).waiting 0 = 0 ∧
    aops false {} [.add 0 10, .tick false [], .add 0 20, .tick false [], .add 0 30, .tick true []] = witness := by
  decide

/-- **completeSend only after an accepted send** — whatever the client answers (accepted, pending
with the channel closed later or never, error; pending twice, pending then error, …), the loop
makes at most two calls, and it calls `completeSend` only if the client accepted the report;
conversely an accepted report is completed unless the agent is shut down while waiting. -/
theorem loop_completes_iff_accepted (script : List Resp) :
    ((loopRes script).fin = .completed → (loopRes script).accepted = true) ∧
    ((loopRes script).accepted = true → (loopRes script).fin = .completed ∨ (loopRes script).fin = .cancelled) ∧
    (loopRes script).sends ≤ 2 := by
  cases script with
  | nil => simp [loopRes]
  | cons a t =>
    cases a <;> simp [loopRes]
    cases t with
    | nil => simp [retryRes]
    | cons b u => cases b <;> simp [retryRes]

example : (loopRes [.pend, .pend, .acc]).fin = .stillPending ∧ (loopRes [.pend, .pend, .acc]).sends = 2 := by decide
example : (loopRes [.pend, .acc]).fin = .completed := by decide
-- pending twice on the repaired tracker: nothing is cleared, the next accepted report carries all
example : (arun true [.add 0 10, AOp.ofScript [.pend, .pend] [], .add 0 25, AOp.ofScript [.acc] []]).sentTotal 0 = 25 := by
  decide

/-! ## The reporting loop: reports do not overlap -/

theorem runFrom_append (fixed : Bool) (st : St) (a b : List Op) :
    runFrom fixed st (a ++ b) = runFrom fixed (runFrom fixed st a) b := by
  simp [runFrom, List.foldl_append]

theorem startIter_trace (fixed : Bool) (l : LSt) :
    (startIter fixed l).l.st = runFrom fixed l.st (startIter fixed l).trace := by
  unfold startIter
  split
  · rename_i st1 r h
    have e : st1 = (step fixed l.st .report).1 := by rw [h]
    split
    · split <;> simp [runFrom, e]
    · simp [runFrom, e]
  · rename_i st1 o hne h
    have e : st1 = (step fixed l.st .report).1 := by rw [h]
    simp [runFrom, e]

theorem drain_trace (fixed : Bool) (l : LSt) :
    (drain fixed l).l.st = runFrom fixed l.st (drain fixed l).trace := by
  unfold drain
  split
  · exact startIter_trace fixed _
  · simp [runFrom]

theorem andThen_trace (fixed : Bool) (st0 : St) (a : LRes) (f : LSt → LRes)
    (ha : a.l.st = runFrom fixed st0 a.trace) (hf : ∀ l, (f l).l.st = runFrom fixed l.st (f l).trace) :
    (a.andThen f).l.st = runFrom fixed st0 (a.andThen f).trace := by
  simp only [LRes.andThen, runFrom_append, ← ha]
  exact hf _

/-- every loop-level operation is the sequence of tracker calls recorded in its trace -/
theorem lstep_trace (fixed : Bool) (l : LSt) (op : LOp) :
    (lstep fixed l op).l.st = runFrom fixed l.st (lstep fixed l op).trace := by
  cases op with
  | add s v => simp [lstep, runFrom]
  | tick a =>
    simp only [lstep]
    split
    · exact startIter_trace fixed _
    · simp [runFrom]
  | other => simp only [lstep]; split <;> simp [runFrom]
  | confirm a =>
    simp only [lstep]
    split
    · simp [runFrom]
    · split
      · simp [runFrom]
      · exact andThen_trace fixed _ _ _ (by simp [runFrom]) (drain_trace fixed)
      · split
        · simp [runFrom]
        · exact andThen_trace fixed _ _ _ (by simp [runFrom]) (drain_trace fixed)

theorem lrunFrom_trace (fixed : Bool) (ops : List LOp) :
    ∀ l, (lrunFrom fixed l ops).st = runFrom fixed l.st (ltrace fixed l ops) := by
  induction ops with
  | nil => intro l; rfl
  | cons o r ih =>
    intro l
    have h := ih (lstep fixed l o).l
    simp only [lrunFrom, List.foldl_cons, ltrace, runFrom_append] at h ⊢
    rw [h, lstep_trace]

/-- what the loop's control state says about the tracker: at the select no report is held; while
the loop is inside `sendUsageReport` exactly the report it built is held (and, once accepted, that
report is what occupies the client's slot). -/
def LInv (l : LSt) : Prop :=
  l.st.spurious = false ∧
  match l.phase with
  | .idle => l.st.held = none
  | .waitOwn r => l.st.held = some r
  | .waitOther r => l.st.held = some r

theorem startIter_inv (fixed : Bool) {l : LSt} (hs : l.st.spurious = false) (hh : l.st.held = none)
    (hp : l.phase = .idle) : LInv (startIter fixed l).l := by
  unfold startIter
  split
  · rename_i st1 r h
    have hr : (step fixed l.st .report).2 = .report r := by rw [h]
    have e : st1 = (step fixed l.st .report).1 := by rw [h]
    obtain ⟨k1, k2⟩ := report_ok hr
    rw [← e] at k1 k2
    split
    · split
      · exact ⟨by simp [k2, hs], by simp [k1]⟩
      · exact ⟨by simp [step, giveUp, k2, hs], by simp [hp, step, giveUp]⟩
    · exact ⟨by simp [k2, hs], by simp [k1]⟩
  · rename_i st1 o hne h
    have e : (step fixed l.st .report).1 = l.st := by
      apply report_err
      intro r hr
      rw [h] at hr
      exact hne r hr
    have e1 : st1 = l.st := by rw [← e, h]
    exact ⟨by simp [e1, hs], by simp [hp, e1, hh]⟩

theorem drain_inv (fixed : Bool) {l : LSt} (hs : l.st.spurious = false) (hh : l.st.held = none)
    (hp : l.phase = .idle) : LInv (drain fixed l).l := by
  unfold drain
  split
  · exact startIter_inv fixed (by simpa using hs) (by simpa using hh) (by simpa using hp)
  · exact ⟨hs, by simp [hp, hh]⟩

theorem lstep_inv (fixed : Bool) {l : LSt} (h : LInv l) (op : LOp) : LInv (lstep fixed l op).l := by
  obtain ⟨hs, hph⟩ := h
  cases op with
  | add s v =>
    have hk : (step fixed l.st (.add s v)).1.held = l.st.held ∧
        (step fixed l.st (.add s v)).1.spurious = l.st.spurious := by
      simp only [step, addReading]; split <;> exact ⟨rfl, rfl⟩
    refine ⟨by simp [lstep, hk.2, hs], ?_⟩
    simp only [lstep]
    cases hp : l.phase <;> simp only [hp] at hph ⊢ <;> rw [hk.1] <;> exact hph
  | tick a =>
    simp only [lstep]
    cases hp : l.phase with
    | idle =>
      simp only [hp] at hph ⊢
      exact startIter_inv fixed (by simpa using hs) (by simpa using hph) (by simp)
    | waitOwn r => simp only [hp] at hph ⊢; exact ⟨hs, by simp [hph]⟩
    | waitOther r => simp only [hp] at hph ⊢; exact ⟨hs, by simp [hph]⟩
  | other =>
    simp only [lstep]
    split
    · exact ⟨hs, by simpa using hph⟩
    · exact ⟨hs, hph⟩
  | confirm a =>
    simp only [lstep]
    split
    · exact ⟨hs, by simpa using hph⟩
    · cases hp : l.phase with
      | idle => simp only [hp] at hph ⊢; exact ⟨hs, by simp [hph]⟩
      | waitOwn r =>
        simp only [hp] at hph ⊢
        simp only [LRes.andThen]
        apply drain_inv fixed
        · simp [step, completeSend, hph, hs]
        · simp [step, completeSend, hph]
        · rfl
      | waitOther r =>
        simp only [hp] at hph ⊢
        split
        · exact ⟨hs, by simp [hph]⟩
        · simp only [LRes.andThen]
          apply drain_inv fixed
          · simp [step, giveUp, hs]
          · simp [step, giveUp]
          · rfl

theorem lrunFrom_inv (fixed : Bool) (ops : List LOp) : ∀ l, LInv l → LInv (lrunFrom fixed l ops) := by
  induction ops with
  | nil => intro l h; exact h
  | cons o r ih => intro l h; exact ih _ (lstep_inv fixed h o)

/-- **loop_reports_do_not_overlap** — the reporting loop is sequential: in every history of ticks
(remembered or dropped while the loop is busy), confirmations that come any number of ticks late,
foreign messages occupying the client's slot, send errors and concurrent `Add`s, the loop is back at
its select only with no report held, it builds a report only there, and `completeSend` is never
called for anything but the one report it holds.  (`NewReport` is called by `startIter` only, and
`startIter` is reached only from phase `idle`.) -/
theorem loop_reports_do_not_overlap (fixed : Bool) (ops : List LOp) :
    ((lrun fixed ops).phase = .idle → (lrun fixed ops).st.held = none) ∧
    (∀ r, ((lrun fixed ops).phase = .waitOwn r ∨ (lrun fixed ops).phase = .waitOther r) →
        (lrun fixed ops).st.held = some r) ∧
    (lrun fixed ops).st.spurious = false := by
  have h := lrunFrom_inv fixed ops {} ⟨rfl, rfl⟩
  obtain ⟨h1, h2⟩ := h
  refine ⟨?_, ?_, h1⟩
  · intro hp; simp only [lrun] at hp ⊢; rw [hp] at h2; exact h2
  · intro r hp
    simp only [lrun] at hp ⊢
    rcases hp with hp | hp <;> (rw [hp] at h2; exact h2)

/-- **conservation for the loop** (repaired tracker): whatever the ticks, delays and answers, what
the client accepted and confirmed plus what is waiting is the counters' growth. -/
theorem loop_conservation (ops : List LOp) (s : Nat) :
    (lrun true ops).st.sentTotal s
      = (lastReading (ltrace true {} ops) s : Int) - (lrun true ops).st.waiting s := by
  have e : (lrun true ops).st = run true (ltrace true {} ops) := lrunFrom_trace true ops {}
  have hs := (loop_reports_do_not_overlap true ops).2.2
  rw [e] at hs ⊢
  exact conservation_fixed _ s hs

-- a confirmation that comes two ticks late: the second tick is dropped, the remembered one starts
-- the next report right after completeSend; nothing is counted twice
example : (lrun true [.add 0 100, .tick true, .add 0 250, .tick true, .add 0 300, .tick true,
    .confirm true, .confirm true]).st.sentTotal 0 = 300 := by decide
example : ltrace true {} [.add 0 100, .tick true, .add 0 250, .tick true, .confirm true, .confirm true]
    = [.add 0 100, .report, .add 0 250, .sent, .report, .sent] := by decide

/-! ## Non-vacuity: concrete histories evaluated by the kernel -/

-- the witness is a history of the agent, satisfies Monotone, and loses 10 of 30
example : (run false witness).spurious = false := by decide
example : (run false witness).sentTotal 0 = 20 ∧ (run false witness).waiting 0 = 0 ∧
    (run false witness).lostTotal 0 = 10 ∧ lastReading witness 0 = 30 := by decide
example : noTwoFails false false witness = false := by decide
-- the same history on the repaired tracker: everything arrives
example : (run true witness).sentTotal 0 = 30 ∧ (run true witness).waiting 0 = 0 := by decide
-- a history with one failure between successes satisfies the partial theorem's hypotheses
example : noTwoFails false false
    [.add 0 10, .report, .fail, .add 0 20, .add 1 5, .report, .add 1 9, .sent, .report, .fail] = true := by decide
example : (run false [.add 0 10, .report, .fail, .add 0 20, .add 1 5, .report, .add 1 9, .sent]).sentTotal 0 = 20 := by
  decide
-- the third report of the witness contains two data points of 10 for the signal
example : (match (step false (run false (witness.take 7)) .report).2 with
    | .report r => r.points 0 | _ => []) = [10, 10] := by decide

end Refinery.Props.C34
