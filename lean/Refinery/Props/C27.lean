import Refinery.Model.Reload
import Refinery.Lemmas.Reload
import Refinery.Lemmas.ReloadSolo
/-!
# C27 — config reloads apply exactly the acceptable changes

Statement (properties.jsonl): a reload applies new configuration or rules exactly when their
content changed and startup would accept them (warnings allowed); anything startup would reject is
never applied and the running configuration stays as it was.  Each applied change notifies every
registered listener exactly once, and overlapping reload triggers neither apply a change twice nor
lose one.

The model (`Model/Reload.lean`) takes the *shape* of `Reload` as parameters: `aw` (does `Reload`
tolerate the warnings-only error of `newFileConfig`, as `NewConfig` does) and `Lock`
(`cas` = `Lock.asCoded`: `f.mux` taken before the hash comparison and held through the assignment, the
code as it is since commit 8a38f8f; `unlocked`: the shape before that commit; `serial`: the whole
`Reload` under one mutex).  The code as it is: `aw = false`, `Lock.asCoded`.

Where the current code stands:
* `reload_iff` — **refuted** (`reload_iff_refuted`: a warnings-only config is never reloaded);
  `reload_iff_partial` holds.
* `concurrent_once` — **refuted** (`concurrent_once_refuted`): reading the files and `newFileConfig`
  happen before the lock, so a stale snapshot is still assigned after a newer one
  (`concurrent_lost_update_witness`: stale config left running; `concurrent_stale_reapply_witness`: a
  content written once is assigned and notified twice).  **Gone** with commit 8a38f8f: two triggers
  that read the *same* file both assigning it (`concurrent_no_repeat_partial` for every schedule;
  `concurrent_double_apply_before_8a38f8f` records the old behaviour).
* `notify_once`, `reject_keeps_old` — hold, sequentially and on every schedule.
* repaired shape (`aw = true`, `Lock.serial`): everything is proved (`…_fixed`).
-/
namespace Refinery.Props.C27
open Refinery.Model.Reload Refinery.Lemmas.Reload

/-! ## One trigger at a time -/

/-- this `Reload` call applied a change -/
def Applies (s : Seq.St) : Prop := (Seq.reload s).1.napplied = s.napplied + 1

instance (s : Seq.St) : Decidable (Applies s) := by unfold Applies; exact inferInstance

/-- **reload_iff**, full strength, for a `Reload` of shape `aw`: from every state, a reload applies
the files' content exactly when it differs from the running configuration and startup would accept
it (warnings allowed). -/
def ReloadIff (aw : Bool) : Prop :=
  ∀ s : Seq.St, s.aw = aw → (Applies s ↔ (s.file ≠ s.applied ∧ startupAccepts s.file = true))

theorem reload_apply (s : Seq.St) (h1 : reloadable s.aw s.file = true) (h2 : s.file ≠ s.applied) :
    (Seq.reload s).1 =
      { s with applied := s.file, counts := s.counts.map (· + 1), napplied := s.napplied + 1 } := by
  unfold Seq.reload; rw [if_pos h1, if_neg h2]

theorem reload_same (s : Seq.St) (h : ¬ (reloadable s.aw s.file = true ∧ s.file ≠ s.applied)) :
    (Seq.reload s).1 = s := by
  unfold Seq.reload
  by_cases h1 : reloadable s.aw s.file = true
  · rw [if_pos h1]
    by_cases h2 : s.file = s.applied
    · rw [if_pos h2]
    · exact absurd ⟨h1, h2⟩ h
  · rw [if_neg h1]

theorem applies_iff (s : Seq.St) :
    Applies s ↔ (s.file ≠ s.applied ∧ reloadable s.aw s.file = true) := by
  unfold Applies
  by_cases h : reloadable s.aw s.file = true ∧ s.file ≠ s.applied
  · rw [reload_apply s h.1 h.2]; simp [h.1, h.2]
  · rw [reload_same s h]
    constructor
    · intro h'; omega
    · intro h'; exact absurd ⟨h'.2, h'.1⟩ h

/-- the witness: running `SendDelay 1`, the file now says `SendDelay 2` and carries a deprecated
setting.  Startup accepts it (with a warning), the content changed — `Reload` does not apply it. -/
def warnWitness : Seq.St :=
  { aw := false, cfile := .warn 2 0, rfile := .ok 1 0, started := true,
    applied := (.ok 1 0, .ok 1 0), counts := [0], regAt := [0] }

/-- **reload_iff is refuted for the code as it is**: a warnings-only configuration that startup
accepts is never reloaded. -/
theorem reload_iff_refuted : ¬ ReloadIff false := by
  intro h
  have := h warnWitness rfl
  revert this
  decide

/-- what `Reload` does with such a file, as coded: returns the warning as an error, state untouched -/
theorem warning_only_not_reloaded (s : Seq.St) (haw : s.aw = false) (hw : build s.cfile s.rfile = .warnc) :
    Seq.reload s = (s, .warn) := by
  unfold Seq.reload reloadable Seq.St.file
  simp [hw, haw, Seq.buildErr]

/-- **reload_iff_partial**: as coded, the equivalence holds whenever the files carry no warning. -/
theorem reload_iff_partial (s : Seq.St) (hw : build s.cfile s.rfile ≠ .warnc) :
    Applies s ↔ (s.file ≠ s.applied ∧ startupAccepts s.file = true) := by
  rw [applies_iff]
  have : reloadable s.aw s.file = startupAccepts s.file := by
    unfold reloadable startupAccepts Seq.St.file
    cases hb : build s.cfile s.rfile <;> simp_all
  rw [this]

/-- **reload_iff_fixed**: for a `Reload` that tolerates the warnings-only error the full statement holds. -/
theorem reload_iff_fixed : ReloadIff true := by
  intro s haw
  rw [applies_iff, haw]
  have : reloadable true s.file = startupAccepts s.file := by
    unfold reloadable startupAccepts
    cases hb : build s.file.1 s.file.2 <;> simp_all
  rw [this]

/-- when a reload applies, the running configuration becomes the files' content and the getters
show its values; otherwise the state is untouched (either shape). -/
theorem applied_is_file (s : Seq.St) :
    (Applies s → (Seq.reload s).1.applied = s.file) ∧ (¬ Applies s → (Seq.reload s).1 = s) := by
  rw [applies_iff]
  by_cases h : reloadable s.aw s.file = true ∧ s.file ≠ s.applied
  · rw [reload_apply s h.1 h.2]
    exact ⟨fun _ => rfl, fun h' => absurd ⟨h.2, h.1⟩ h'⟩
  · rw [reload_same s h]
    exact ⟨fun h' => absurd ⟨h'.2, h'.1⟩ h, fun _ => rfl⟩

/-- **reject_keeps_old** (either shape): content that startup would reject — unreadable path,
syntax error, validation error in config or rules — is never applied; `Reload` returns the error and
the running configuration, the callback counts and every getter value stay as they were. -/
theorem reject_keeps_old (s : Seq.St) (hrej : startupAccepts s.file = false) :
    Seq.reload s = (s, .fail) := by
  have hb : build s.cfile s.rfile = .fail := by
    unfold startupAccepts Seq.St.file at hrej; simpa using hrej
  unfold Seq.reload reloadable Seq.St.file
  simp [hb, Seq.buildErr]

/-- …and over whole histories: once started, the running configuration is always one that startup
accepts (any sequence of file rewrites, registrations and triggers; either shape). -/
theorem applied_always_acceptable (aw : Bool) (ops : List Seq.Op) :
    let s := Seq.run { aw := aw } ops
    s.started = true → startupAccepts s.applied = true := by
  suffices ∀ s : Seq.St, (s.started = true → startupAccepts s.applied = true) →
      ((Seq.run s ops).started = true → startupAccepts (Seq.run s ops).applied = true) from
    this _ (by simp)
  unfold Seq.run
  induction ops with
  | nil => intro s h; exact h
  | cons o os ih =>
    intro s h
    apply ih
    cases o with
    | wc c => exact h
    | wr c => exact h
    | reg => simp only [Seq.step]; split <;> exact h
    | nop => exact h
    | start l =>
      simp only [Seq.step]
      split
      · exact h
      · split
        · exact h
        · rename_i hb; intro _; simp [startupAccepts, Seq.St.file]; exact hb
    | reload =>
      simp only [Seq.step]
      split
      · by_cases h' : reloadable s.aw s.file = true ∧ s.file ≠ s.applied
        · rw [reload_apply s h'.1 h'.2]; intro _; exact reloadable_accepts h'.1
        · rw [reload_same s h']; exact h
      · exact h

/-- **notify_once**, one call: a reload that applies a change calls every registered listener exactly
once; one that does not apply calls none. -/
theorem notify_once_step (s : Seq.St) :
    (Seq.reload s).1.counts = if Applies s then s.counts.map (· + 1) else s.counts := by
  have hiff := applies_iff s
  by_cases h : reloadable s.aw s.file = true ∧ s.file ≠ s.applied
  · rw [if_pos (hiff.mpr ⟨h.2, h.1⟩), reload_apply s h.1 h.2]
  · rw [if_neg (fun h' => h ⟨(hiff.mp h').2, (hiff.mp h').1⟩), reload_same s h]

/-- every listener has been called exactly as many times as changes were applied since it registered -/
def CountsExact (s : Seq.St) : Prop :=
  s.counts.length = s.regAt.length ∧
  ∀ (i c r : Nat), s.counts[i]? = some c → s.regAt[i]? = some r → c + r = s.napplied

/-- **notify_once** over histories (either shape): after any sequence of file rewrites, startup,
registrations and reload triggers, each listener's callback count equals the number of changes
applied since its registration. -/
theorem notify_once (aw : Bool) (ops : List Seq.Op) : CountsExact (Seq.run { aw := aw } ops) := by
  suffices ∀ s : Seq.St, CountsExact s → CountsExact (Seq.run s ops) from
    this _ ⟨rfl, by simp⟩
  unfold Seq.run
  induction ops with
  | nil => intro s h; exact h
  | cons o os ih =>
    intro s h
    apply ih
    obtain ⟨hl, hc⟩ := h
    cases o with
    | wc c => exact ⟨hl, hc⟩
    | wr c => exact ⟨hl, hc⟩
    | nop => exact ⟨hl, hc⟩
    | start l =>
      simp only [Seq.step]
      split
      · exact ⟨hl, hc⟩
      · split
        · exact ⟨hl, hc⟩
        · refine ⟨by simp, ?_⟩
          intro i c r h1 h2
          simp only [List.getElem?_replicate] at h1 h2
          split at h1 <;> simp_all
    | reg =>
      simp only [Seq.step]
      split
      · refine ⟨by simp [hl], ?_⟩
        intro i c r h1 h2
        simp only [List.getElem?_append] at h1 h2
        by_cases hi : i < s.counts.length
        · have hi' : i < s.regAt.length := by omega
          simp only [hi, hi', if_true] at h1 h2
          exact hc i c r h1 h2
        · have hi' : ¬ i < s.regAt.length := by omega
          simp only [hi, hi', if_false] at h1 h2
          rw [hl] at h1
          have hz : i - s.regAt.length = 0 := by
            by_cases hz : i - s.regAt.length = 0
            · exact hz
            · rw [List.getElem?_eq_none (by simp; omega)] at h1; cases h1
          rw [hz] at h1 h2
          simp at h1 h2
          show c + r = s.napplied
          omega
      · exact ⟨hl, hc⟩
    | reload =>
      simp only [Seq.step]
      split
      · by_cases h' : reloadable s.aw s.file = true ∧ s.file ≠ s.applied
        · rw [reload_apply s h'.1 h'.2]
          refine ⟨by simp [hl], ?_⟩
          intro i c r h3 h4
          simp only [List.getElem?_map] at h3
          cases hci : s.counts[i]? with
          | none => simp [hci] at h3
          | some c0 =>
            simp [hci] at h3
            have := hc i c0 r hci h4
            simp only at h4 ⊢
            omega
        · rw [reload_same s h']; exact ⟨hl, hc⟩
      · exact ⟨hl, hc⟩

/-- **watcher_applies_after_rejected** (either shape).  The watcher is a loop that calls `Reload` at
every tick of its timer, whatever the previous call returned (`ConfigWatcher.monitor`: the error is
logged, the loop goes on) — a tick is a `.reload` of the history.  For any history of file contents,
registrations and earlier ticks — in particular any number of rejected reloads before — a tick at
which `Reload` goes on with the content on disk leaves that content running, and it notifies every
listener exactly once if the content differs from what was running and not at all otherwise. -/
theorem watcher_applies_after_rejected (aw : Bool) (ops : List Seq.Op)
    (hs : (Seq.run { aw := aw } ops).started = true)
    (hr : reloadable aw (Seq.run { aw := aw } ops).file = true) :
    (Seq.run { aw := aw } (ops ++ [.reload])).applied = (Seq.run { aw := aw } ops).file ∧
    (Seq.run { aw := aw } (ops ++ [.reload])).counts =
      if (Seq.run { aw := aw } ops).file ≠ (Seq.run { aw := aw } ops).applied
      then (Seq.run { aw := aw } ops).counts.map (· + 1) else (Seq.run { aw := aw } ops).counts := by
  have haw : ∀ (s : Seq.St) (o : Seq.Op), (Seq.step s o).1.aw = s.aw := by
    intro s o
    cases o <;> simp only [Seq.step] <;> (try split) <;> (try split) <;> try rfl
    unfold Seq.reload; split <;> (try split) <;> rfl
  have hawrun : ∀ (l : List Seq.Op) (s : Seq.St), (Seq.run s l).aw = s.aw := by
    intro l
    induction l with
    | nil => intro s; rfl
    | cons o os ih => intro s; simp only [Seq.run, List.foldl_cons]; exact (ih _).trans (haw s o)
  generalize hS : Seq.run { aw := aw } ops = S at hs hr ⊢
  have hSaw : S.aw = aw := by rw [← hS]; exact hawrun ops _
  have hrun : Seq.run { aw := aw } (ops ++ [.reload]) = (Seq.step S .reload).1 := by
    rw [← hS]; simp [Seq.run, List.foldl_append]
  rw [hrun]
  simp only [Seq.step, hs, if_true]
  by_cases hc : S.file = S.applied
  · rw [reload_same S (fun h => h.2 hc)]
    exact ⟨hc.symm, by simp [hc]⟩
  · rw [reload_apply S (by rw [hSaw]; exact hr) hc]
    exact ⟨rfl, by simp [hc]⟩

theorem run_append (s : Seq.St) (a b : List Seq.Op) : Seq.run s (a ++ b) = Seq.run (Seq.run s a) b := by
  simp [Seq.run, List.foldl_append]

/-- **reload_during_notification_not_lost** (either shape).  A trigger that arrives while a listener
is being notified of the previous reload (callbacks run after the state swap, outside `f.mux`) is a
reload *after* that one: for any history, `write A; reload; write B; reload` — whatever the first
reload did with A — ends, if `Reload` goes on with B, with B running.  It is not dropped and not
merged into the reload in flight, which read the older content. -/
theorem reload_during_notification_not_lost (aw : Bool) (ops : List Seq.Op) (a b : Content)
    (hs : (Seq.run { aw := aw } ops).started = true)
    (hr : reloadable aw (b, (Seq.run { aw := aw } ops).rfile) = true) :
    (Seq.run { aw := aw } (ops ++ [.wc a, .reload, .wc b, .reload])).applied =
      (b, (Seq.run { aw := aw } ops).rfile) := by
  have hsplit : ops ++ [Seq.Op.wc a, .reload, .wc b, .reload] = (ops ++ [.wc a, .reload, .wc b]) ++ [.reload] := by simp
  generalize hS : Seq.run { aw := aw } ops = S at hs hr
  -- the state before the last reload: started, files (b, S.rfile)
  have keeps : ∀ s : Seq.St, (Seq.step s .reload).1.started = s.started ∧ (Seq.step s .reload).1.rfile = s.rfile := by
    intro s
    simp only [Seq.step]
    split
    · by_cases hc : reloadable s.aw s.file = true ∧ s.file ≠ s.applied
      · rw [reload_apply s hc.1 hc.2]; exact ⟨rfl, rfl⟩
      · rw [reload_same s hc]; exact ⟨rfl, rfl⟩
    · exact ⟨rfl, rfl⟩
  have hmid : (Seq.run { aw := aw } (ops ++ [.wc a, .reload, .wc b])).started = true ∧
      (Seq.run { aw := aw } (ops ++ [.wc a, .reload, .wc b])).file = (b, S.rfile) := by
    rw [run_append, hS]
    have e : Seq.run S [.wc a, .reload, .wc b] =
        (Seq.step (Seq.step (Seq.step S (.wc a)).1 .reload).1 (.wc b)).1 := rfl
    rw [e]
    obtain ⟨k1, k2⟩ := keeps (Seq.step S (.wc a)).1
    have w1 : (Seq.step S (.wc a)).1.started = S.started ∧ (Seq.step S (.wc a)).1.rfile = S.rfile := ⟨rfl, rfl⟩
    generalize (Seq.step (Seq.step S (.wc a)).1 .reload).1 = X2 at k1 k2 ⊢
    have w3 : (Seq.step X2 (.wc b)).1.started = X2.started ∧ (Seq.step X2 (.wc b)).1.file = (b, X2.rfile) := ⟨rfl, rfl⟩
    exact ⟨by rw [w3.1, k1, w1.1, hs], by rw [w3.2, k2, w1.2]⟩
  rw [hsplit]
  have := watcher_applies_after_rejected aw (ops ++ [.wc a, .reload, .wc b]) hmid.1 (by rw [hmid.2]; exact hr)
  rw [this.1, hmid.2]

/-- a trigger inside the notification of the reload that applied content 2 finds content 3: it runs, 3 wins,
the listener is told twice -/
example : (Seq.run {} [.wc (.ok 1 0), .wr (.ok 1 0), .start 1, .wc (.ok 2 0), .reload, .wc (.ok 3 0), .reload]).applied
    = (.ok 3 0, .ok 1 0) ∧
  (Seq.run {} [.wc (.ok 1 0), .wr (.ok 1 0), .start 1, .wc (.ok 2 0), .reload, .wc (.ok 3 0), .reload]).counts = [2] := by decide

/-- rejected, rejected, then acceptable: the third tick applies it and notifies once -/
example : (Seq.run {} [.wc (.ok 1 0), .wr (.ok 1 0), .start 1, .wc (.bad 0 1), .reload, .wc .gone, .reload,
    .wc (.ok 3 0), .reload]).applied = (.ok 3 0, .ok 1 0) ∧
  (Seq.run {} [.wc (.ok 1 0), .wr (.ok 1 0), .start 1, .wc (.bad 0 1), .reload, .wc .gone, .reload,
    .wc (.ok 3 0), .reload]).counts = [1] := by decide

/-! Non-vacuity (kernel-evaluated): a changed valid file is applied and notified once, an unchanged
one is not re-notified, a rejected one changes nothing, a rules-only change is applied. -/
example : (Seq.run {} [.wc (.ok 1 0), .wr (.ok 1 0), .start 2, .wc (.ok 2 0), .reload, .reload]).counts = [1, 1] := by decide
example : (Seq.run {} [.wc (.ok 1 0), .wr (.ok 1 0), .start 1, .wc (.bad 0 1), .reload]).applied = (.ok 1 0, .ok 1 0) := by decide
example : (Seq.run {} [.wc (.ok 1 0), .wr (.ok 1 0), .start 1, .wr (.ok 5 0), .reload, .reg, .wc (.ok 1 1), .reload]).counts = [2, 1] := by decide
example : (Seq.run {} [.wc (.warn 1 0), .wr (.ok 1 0), .start 1, .wc (.warn 2 0), .reload]).applied = (.warn 1 0, .ok 1 0) := by decide
example : (Seq.run { aw := true } [.wc (.warn 1 0), .wr (.ok 1 0), .start 1, .wc (.warn 2 0), .reload]).applied = (.warn 2 0, .ok 1 0) := by decide

/-! ## Overlapping triggers: every schedule of any number of triggers and file writes -/

/-- no change is applied twice and no stale content is applied over a newer one: the file versions
of successive assignments strictly increase (`apvers` lists them most recent first) -/
def NoDoubleApply (s : CSt) : Prop := s.apvers.Pairwise (· > ·)

instance (s : CSt) : Decidable (NoDoubleApply s) := by unfold NoDoubleApply; exact inferInstance

/-- each assignment is notified to each listener at most once, never without an assignment, and —
once every trigger has returned — exactly once; a trigger assigns at most once -/
def NotifyOnce (s : CSt) : Prop :=
  s.aplog.Nodup ∧ ∀ l, l < s.L →
    (s.notes l).Nodup ∧ (∀ x, x ∈ s.notes l → x ∈ s.aplog) ∧ (Quiescent s → ∀ x, x ∈ s.aplog → x ∈ s.notes l)

/-- no change is lost: when every trigger has returned and one of them read the files after the last
write, the running configuration is the content on disk (if `Reload` goes on with that content) -/
def NoLost (aw : Bool) (s : CSt) : Prop :=
  Quiescent s → (∃ t, t < s.n ∧ (s.thr t).pc = .done ∧ (s.thr t).sv = s.ver) →
    reloadable aw s.file = true → s.applied = s.file

/-- **concurrent_once**, full strength, for a `Reload` of shape (`aw`, `lk`): for any number of
triggers and listeners, any startup-acceptable initial content and *any* schedule of trigger steps and
file rewrites. -/
def ConcurrentOnce (aw : Bool) (lk : Lock) : Prop :=
  ∀ (n L : Nat) (f : Key) (sched : List Ev), startupAccepts f = true →
    NoDoubleApply (crun aw lk (cinit n L f) sched) ∧
    NotifyOnce (crun aw lk (cinit n L f) sched) ∧
    NoLost aw (crun aw lk (cinit n L f) sched)

def f0 : Key := (.ok 1 0, .ok 1 0)

/-- two triggers (timer tick + pubsub message) overlap after one rewrite: both read the new file, both
compare against the old hash before either assigns, both assign, both call the listener -/
def doubleApplySchedule : List Ev :=
  [.wc (.ok 2 0), .step 0, .step 1, .step 0, .step 1, .step 0, .step 1, .step 0, .step 1, .step 0, .step 1]

/-- trigger 0 reads content B and is delayed; the file is rewritten to C; trigger 1 reads, applies
C and returns; trigger 0 then compares B against C, "changed", and assigns the stale B -/
def lostUpdateSchedule : List Ev :=
  [.wc (.ok 2 0), .step 0, .step 0, .wc (.ok 3 0), .step 1, .step 1, .step 1, .step 1, .step 0, .step 0]

/-- three triggers: 0 and 2 read content B; the file is rewritten to C; 1 reads C.  Then 0 assigns B,
1 assigns C, and 2 — holding the stale B — finds it different from C and assigns B a second time -/
def staleReapplySchedule : List Ev :=
  [.wc (.ok 2 0), .step 0, .step 0, .step 2, .step 2, .wc (.ok 3 0), .step 1, .step 1,
   .step 0, .step 0, .step 1, .step 1, .step 2, .step 2]

/-- **Before commit 8a38f8f** (hashes compared outside the lock) the double-apply schedule assigned
file version 1 twice and notified the listener twice.  Kept as a record of what that commit removed. -/
theorem concurrent_double_apply_before_8a38f8f :
    (crun false .unlocked (cinit 2 1 f0) doubleApplySchedule).apvers = [1, 1] ∧
    (crun false .unlocked (cinit 2 1 f0) doubleApplySchedule).notes 0 = [1, 0] ∧
    Quiescent (crun false .unlocked (cinit 2 1 f0) doubleApplySchedule) := by decide

/-- **Gone on the current code**: with compare-and-assign in one critical section, on every schedule
no two successive assignments carry the same file version — triggers that read the same files never
both apply them (`_partial`: this is the part of "never apply a change twice" the current code has). -/
theorem concurrent_no_repeat_partial (aw : Bool) (n L : Nat) (f : Key) (sched : List Ev) :
    NoAdjDup (crun aw .asCoded (cinit n L f) sched).apvers :=
  (cinv_crun aw _ sched (cinv_init n L f)).nad

/-- on the current code the old double-apply schedule applies once and notifies once -/
example : (crun false .asCoded (cinit 2 1 f0) doubleApplySchedule).apvers = [1] ∧
    (crun false .asCoded (cinit 2 1 f0) doubleApplySchedule).notes 0 = [0] := by decide

/-- **Still there on the current code**: the lost-update schedule ends — all triggers returned,
trigger 1 read the current file — with the stale content running. -/
theorem concurrent_lost_update_witness :
    (crun false .asCoded (cinit 2 0 f0) lostUpdateSchedule).applied = (.ok 2 0, .ok 1 0) ∧
    (crun false .asCoded (cinit 2 0 f0) lostUpdateSchedule).file = (.ok 3 0, .ok 1 0) ∧
    ¬ NoLost false (crun false .asCoded (cinit 2 0 f0) lostUpdateSchedule) := by
  refine ⟨by decide, by decide, ?_⟩
  intro h
  have := h (by decide) ⟨1, by decide, by decide, by decide⟩ (by decide)
  revert this
  decide

/-- **Still there on the current code**: a content written once (file version 1) is assigned twice —
versions 1, 2, 1 — and the listener is notified for it twice (by triggers 0 and 2); the run ends with
the stale content although trigger 1 read the current file.  This is what the stress operation
observes on the real code as `C27:concurrent-double-apply`. -/
theorem concurrent_stale_reapply_witness :
    (crun false .asCoded (cinit 3 1 f0) staleReapplySchedule).apvers = [1, 2, 1] ∧
    (crun false .asCoded (cinit 3 1 f0) staleReapplySchedule).notes 0 = [2, 1, 0] ∧
    Quiescent (crun false .asCoded (cinit 3 1 f0) staleReapplySchedule) ∧
    (crun false .asCoded (cinit 3 1 f0) staleReapplySchedule).applied ≠
      (crun false .asCoded (cinit 3 1 f0) staleReapplySchedule).file := by decide

/-- **concurrent_once is refuted for the code as it is**: compare-and-assign under `f.mux` is not
enough while the files are read before the lock (versions are applied out of order). -/
theorem concurrent_once_refuted : ¬ ConcurrentOnce false .asCoded := by
  intro h
  have := (h 2 0 f0 lostUpdateSchedule (by decide)).1
  revert this
  decide

/-- **notify_once under concurrency (`_partial`: holds for the code as it is, and for every shape)**:
on every schedule each assignment is notified to every listener at most once and only if it
happened, and exactly once by the time all triggers have returned.  (A double notification is
therefore always a double assignment.) -/
theorem concurrent_notify_once_partial (aw : Bool) (lk : Lock) (n L : Nat) (f : Key) (sched : List Ev) :
    NotifyOnce (crun aw lk (cinit n L f) sched) := by
  have h := ninv_crun aw lk _ sched (ninv_init n L f)
  refine ⟨h.apnd, fun l hl => ⟨h.nd l, h.sub l, ?_⟩⟩
  intro hq x hx
  by_cases hxn : (crun aw lk (cinit n L f) sched).n ≤ x
  · exact absurd hx (h.pre x (Or.inl (h.out x hxn)))
  · rcases hq x (by omega) with hp | hp
    · exact absurd hx (h.pre x (Or.inl hp))
    · exact h.fin x hp hx l hl

/-- **reject_keeps_old under concurrency (`_partial`: every shape)**: on every schedule the running
configuration is one that startup accepts. -/
theorem concurrent_reject_keeps_old_partial (aw : Bool) (lk : Lock) (n L : Nat) (f : Key) (sched : List Ev)
    (hf : startupAccepts f = true) : startupAccepts (crun aw lk (cinit n L f) sched).applied = true :=
  (ainv_crun aw lk _ sched (ainv_init aw n L f hf)).app

/-- **concurrent_once_fixed**: with the whole `Reload` under one mutex the full statement holds for
any number of overlapping triggers and every schedule (for either `aw`). -/
theorem concurrent_once_fixed (aw : Bool) : ConcurrentOnce aw .serial := by
  intro n L f sched _
  have h := sinv_crun aw _ sched (sinv_init aw n L f)
  refine ⟨h.sorted, concurrent_notify_once_partial aw .serial n L f sched, ?_⟩
  intro _ ⟨t, _, hd, hv⟩ hr
  exact h.q t hd hv hr

/-- **A trigger that runs alone is the sequential `Reload`** (every shape): from a state where
trigger `t` has not fired and the reload mutex is free, letting `t` run to completion with nothing
interleaved changes the sequential view of the state (files, running configuration, per-listener
callback counts, number of applied changes) exactly as `Seq.reload` does.  This ties the
overlapping-trigger machine to the sequential machine that is replayed against the real code. -/
theorem solo_trigger_is_reload (aw : Bool) (lk : Lock) (s : CSt) (t : Nat) (ht : t < s.n)
    (hidle : (s.thr t).pc = .idle) (hfree : s.holder = none) :
    seqView aw (solo aw lk s t (s.L + 4)) = (Seq.reload (seqView aw s)).1 :=
  seqView_solo aw lk s t ht hidle hfree

/-- in the repaired shape the double-apply schedule applies once and notifies once -/
example : (crun true .serial (cinit 2 1 f0) doubleApplySchedule).apvers = [1] ∧
    (crun true .serial (cinit 2 1 f0) doubleApplySchedule).notes 0 = [0] := by decide

end Refinery.Props.C27
