import Refinery.Model.Locks
import Refinery.Model.LocksTable
import Refinery.Lemmas.Locks
import Refinery.Gen.Access
/-!
# C35 — concurrent components never race on shared state  (partial)

Statement (properties.jsonl): Refinery's concurrent components never read and write shared memory
without synchronization, under any interleaving.

What is proved here, and how it is tied to the code:

1. `discipline_sound` / `no_race` — in the abstract execution model of `Refinery.Locks` (threads,
   mutexes with shared/exclusive mode, plain and atomic accesses, spawn, join; happens-before as in
   the Go memory model), for **every** well-formed trace: if every access complies with the
   discipline of its location, any two conflicting accesses are ordered by happens-before.
2. `table_sound` / `no_race_of_facts` — the lexical compliance test `factComplies` implies
   compliance in the model for every dynamic access that is an instance (`Instance`) of the fact;
   `Instance` is exactly what the extractor and the role table are *assumed* to deliver.
3. `facts_comply`, `fields_covered`, `unresolved_reviewed` — decided over the access facts
   regenerated from the Go sources on every run (`Refinery.Gen.Access`) against the hand-written
   table (`Refinery.Locks.Table`).
4. The full statement (all facts comply) holds exactly when all race fixes have landed
   (`full_statement_status`, flags `Table.fixN`); until then it is **refuted**
   (`full_statement_refuted`): the accesses listed in `Table.knownViolations` break their field's
   discipline; each is reproduced on the real code by the race-detector harness.
-/
namespace Refinery.Props.C35
open Refinery.Locks

/-- **No data race under a discipline.** In every well-formed trace in which every access complies
with the discipline of its location, two conflicting accesses (same location, different threads,
at least one write, not both atomic) are ordered by happens-before. -/
theorem discipline_sound (tr : Trace) (D : Nat → Discipline) (wf : WF tr) (hc : AllComply tr D) :
    ∀ i j, i < j → Conflict tr i j → HB tr i j := by
  intro i j hij ⟨a, ha, b, hb, haacc, hbacc, hobj, hne, hw, hat⟩
  have hCa := hc i (lt_of_some ha) a ha haacc
  have hCb := hc j (lt_of_some hb) b hb hbacc
  rcases hCa with hpa | hqa | hda
  · -- `a` is an initialisation access
    exact hb_of_preSpawn wf ha haacc hpa j hij b hb
  · -- `a` is a tear-down access: `b`'s thread was joined before `i`, it cannot run at `j`
    exfalso
    obtain ⟨s, hsi, jn, hjn, _, hop, harg⟩ := hqa j (lt_of_some hb) b hb (fun h => hne h.symm)
    exact absurd harg.symm
      (wf.joined s (lt_of_some hjn) jn hjn hop j (lt_of_some hb) (Nat.lt_trans hsi hij) b hb)
  · rcases hCb with hpb | hqb | hdb
    · -- `b` an initialisation access: then no other thread exists before `j`
      exfalso
      have h0 : a.tid = 0 := tid_zero_of_preSpawn wf hij ha hpb
      exact hne (h0.trans hpb.1.symm)
    · exact (hb_of_postJoin wf ha hb hne haacc hqb).2
    · -- both comply with the discipline of the common location
      rw [← hobj] at hdb
      cases hD : D a.obj with
      | lock m =>
        rw [hD] at hda hdb
        simp only [compliesD] at hda hdb
        rcases hda with hax | ⟨har, has⟩
        · rcases hdb with hbx | ⟨_, hbs⟩
          · exact hb_of_locks wf hij ha hb hne haacc hax hbx (Or.inl rfl)
          · exact hb_of_locks wf hij ha hb hne haacc hax hbs (Or.inl rfl)
        · rcases hdb with hbx | ⟨hbr, _⟩
          · exact hb_of_locks wf hij ha hb hne haacc has hbx (Or.inr rfl)
          · rcases hw with h | h
            · exact absurd har h
            · exact absurd hbr h
      | confined t =>
        rw [hD] at hda hdb
        simp only [compliesD] at hda hdb
        exact absurd (hda.trans hdb.symm) hne
      | atomic =>
        rw [hD] at hda hdb
        simp only [compliesD] at hda hdb
        exact absurd ⟨hda, hdb⟩ hat
      | initOnly =>
        rw [hD] at hda hdb
        simp only [compliesD] at hda hdb
        rcases hw with h | h
        · exact absurd hda h
        · exact absurd hdb h
      | ownedLock t m =>
        rw [hD] at hda hdb
        simp only [compliesD] at hda hdb
        rcases hda with ⟨hat', hax⟩ | ⟨har, hra⟩
        · rcases hdb with ⟨hbt, _⟩ | ⟨_, hrb⟩
          · exact absurd (hat'.trans hbt.symm) hne
          · rcases hrb with hbt | hbs | hbx
            · exact absurd (hat'.trans hbt.symm) hne
            · exact hb_of_locks wf hij ha hb hne haacc hax hbs (Or.inl rfl)
            · exact hb_of_locks wf hij ha hb hne haacc hax hbx (Or.inl rfl)
        · rcases hdb with ⟨hbt, hbx⟩ | ⟨hbr, _⟩
          · rcases hra with hat' | has | hax
            · exact absurd (hat'.trans hbt.symm) hne
            · exact hb_of_locks wf hij ha hb hne haacc has hbx (Or.inr rfl)
            · exact hb_of_locks wf hij ha hb hne haacc hax hbx (Or.inl rfl)
          · rcases hw with h | h
            · exact absurd har h
            · exact absurd hbr h

/-- Corollary in the property's words: a well-formed, compliant trace has no data race. -/
theorem no_race (tr : Trace) (D : Nat → Discipline) (wf : WF tr) (hc : AllComply tr D) :
    ∀ i j, ¬ Race tr i j := by
  intro i j ⟨hij, hcf, hn⟩
  exact hn (discipline_sound tr D wf hc i j hij hcf)

/-- Happens-before only relates an earlier position to a later one (so "unordered" in `Race`
needs no second disjunct). -/
theorem hb_forward (tr : Trace) (i j : Nat) (h : HB tr i j) : i < j := h.lt

/-- **The lexical test is sound for the model.** If a dynamic access `e` at position `i` is an
instance of the lexical fact `f` (same location and kind; the lexically held mutexes are really
held; the function's role is played by the thread the role table says) and `f` passes
`factComplies` for the discipline `d`, then `e` complies with `d` interpreted over threads. -/
theorem table_sound (tr : Trace) (thr : Nat → Nat) (D : Nat → Discipline) (role : Role)
    (d : LDisc) (f : Fact) (i : Nat) (e : Event) (inst : Instance tr thr role f i e)
    (hD : D e.obj = d.interp thr) (hf : factComplies role d f = true) : Complies tr D i e := by
  have hk : ∀ k, f.kind = k → e.op = opOfKind k := fun k h => h ▸ inst.kind
  simp only [factComplies, Bool.or_eq_true] at hf
  rcases hf with (hfresh | hbasic) | hrole
  · exact Or.inl (inst.isFresh hfresh)
  · -- decided without the role
    refine Or.inr (Or.inr ?_)
    rw [hD]
    cases d with
    | lock m =>
      simp only [factBasic, LDisc.interp, compliesD, Bool.or_eq_true, Bool.and_eq_true, beq_iff_eq] at hbasic ⊢
      rcases hbasic with h | ⟨h1, h2⟩
      · exact Or.inl (inst.held m .ex h)
      · exact Or.inr ⟨hk _ h1, inst.held m .sh h2⟩
    | confined r => simp [factBasic] at hbasic
    | atomic =>
      simp only [factBasic, LDisc.interp, compliesD, beq_iff_eq] at hbasic ⊢
      exact hk _ hbasic
    | initOnly =>
      simp only [factBasic, LDisc.interp, compliesD, beq_iff_eq] at hbasic ⊢
      exact hk _ hbasic
    | ownedLock r m =>
      simp only [factBasic, LDisc.interp, compliesD, Bool.or_eq_true, Bool.and_eq_true, beq_iff_eq] at hbasic ⊢
      obtain ⟨h1, h2⟩ := hbasic
      rcases h2 with h2 | h2
      · exact Or.inr ⟨hk _ h1, Or.inr (Or.inl (inst.held m .sh h2))⟩
      · exact Or.inr ⟨hk _ h1, Or.inr (Or.inr (inst.held m .ex h2))⟩
  · -- decided by the role of the enclosing function
    cases role with
    | init => exact Or.inl (inst.isInit rfl)
    | teardown => exact Or.inr (Or.inl (inst.isTeardown rfl))
    | any => simp [factByRole] at hrole
    | named q =>
      have htid := inst.isRole q rfl
      refine Or.inr (Or.inr ?_)
      rw [hD]
      cases d with
      | lock m => simp [factByRole] at hrole
      | atomic => simp [factByRole] at hrole
      | initOnly => simp [factByRole] at hrole
      | confined r =>
        simp only [factByRole, LDisc.interp, compliesD, beq_iff_eq] at hrole ⊢
        rw [htid, hrole]
      | ownedLock r m =>
        simp only [factByRole, LDisc.interp, compliesD, Bool.or_eq_true, Bool.and_eq_true, beq_iff_eq] at hrole ⊢
        obtain ⟨h, h2⟩ := hrole
        rcases h2 with hx | hr
        · exact Or.inl ⟨by rw [htid, h], inst.held m .ex hx⟩
        · exact Or.inr ⟨hk _ hr, Or.inl (by rw [htid, h])⟩

/-- **From facts to race freedom.** If every access of a well-formed trace is an instance of some
lexical fact that passes the table (`factOK`), the trace has no data race. The hypotheses `hinst`
(every dynamic access is covered by an extracted fact, with the role table telling the truth) is
the trusted part of C35. -/
theorem no_race_of_facts (tr : Trace) (thr : Nat → Nat) (disc : List (Nat × LDisc))
    (roles : List (Nat × Role)) (D : Nat → Discipline) (wf : WF tr)
    (hD : ∀ x d, lookup disc x = some d → D x = d.interp thr)
    (hinst : ∀ i, i < tr.length → ∀ e, tr[i]? = some e → e.isAccess →
      ∃ f, factOK disc roles f = true ∧ Instance tr thr (roleOf roles f.fn) f i e) :
    ∀ i j, ¬ Race tr i j := by
  apply no_race tr D wf
  intro i hi e he hacc
  obtain ⟨f, hok, inst⟩ := hinst i hi e he hacc
  unfold factOK at hok
  cases hl : lookup disc f.loc with
  | none => simp [hl] at hok
  | some d =>
    simp only [hl] at hok
    exact table_sound tr thr D _ d f i e inst (by rw [inst.loc]; exact hD _ _ hl) hok

/-! ## Non-vacuity: concrete traces -/

/-- main writes `x` (location 7), spawns two threads; one writes `x` holding mutex `m` (9)
exclusively, the other reads it holding `m` shared; main joins both and writes `x` again. -/
def okTrace : Trace := [
  ⟨0, .write, 7, 0⟩, ⟨0, .spawn, 0, 1⟩, ⟨0, .spawn, 0, 2⟩,
  ⟨1, .acqEx, 9, 0⟩, ⟨1, .write, 7, 0⟩, ⟨1, .relEx, 9, 0⟩,
  ⟨2, .acqSh, 9, 0⟩, ⟨2, .read, 7, 0⟩, ⟨2, .relSh, 9, 0⟩,
  ⟨0, .join, 0, 1⟩, ⟨0, .join, 0, 2⟩, ⟨0, .write, 7, 0⟩]

def lockX : Nat → Discipline := fun _ => .lock 9

theorem okTrace_wf : WF okTrace := wf_of_dec (by decide +kernel) (by decide +kernel) (by decide +kernel) (by decide +kernel)

/-- The hypotheses of `discipline_sound` are satisfiable by a trace with conflicting accesses in
all three regimes (initialisation write, locked write vs. read-locked read, tear-down write), and
the conclusion orders each conflicting pair. -/
theorem okTrace_ordered :
    AllComply okTrace lockX ∧ Conflict okTrace 0 4 ∧ Conflict okTrace 4 7 ∧ Conflict okTrace 7 11 ∧
    HB okTrace 0 4 ∧ HB okTrace 4 7 ∧ HB okTrace 7 11 := by
  have hc : AllComply okTrace lockX := by decide +kernel
  have c1 : Conflict okTrace 0 4 := by decide +kernel
  have c2 : Conflict okTrace 4 7 := by decide +kernel
  have c3 : Conflict okTrace 7 11 := by decide +kernel
  exact ⟨hc, c1, c2, c3,
    discipline_sound _ _ okTrace_wf hc 0 4 (by decide +kernel) c1,
    discipline_sound _ _ okTrace_wf hc 4 7 (by decide +kernel) c2,
    discipline_sound _ _ okTrace_wf hc 7 11 (by decide +kernel) c3⟩

/-- The same program with the reader's `RLock`/`RUnlock` dropped. -/
def racyTrace : Trace := [
  ⟨0, .spawn, 0, 1⟩, ⟨0, .spawn, 0, 2⟩,
  ⟨1, .acqEx, 9, 0⟩, ⟨1, .write, 7, 0⟩, ⟨2, .read, 7, 0⟩, ⟨1, .relEx, 9, 0⟩]

/-- **Dropping one lock admits a race.** The trace is well formed, every access but the unlocked
read complies with `lock m`, and the write at 3 and the read at 4 are a data race. -/
theorem dropped_lock_races :
    WF racyTrace ∧ Complies racyTrace lockX 3 ⟨1, .write, 7, 0⟩ ∧
    ¬ Complies racyTrace lockX 4 ⟨2, .read, 7, 0⟩ ∧ Race racyTrace 3 4 := by
  refine ⟨wf_of_dec (by decide +kernel) (by decide +kernel) (by decide +kernel) (by decide +kernel), by decide +kernel, by decide +kernel,
    by decide +kernel, by decide +kernel, ?_⟩
  intro h
  cases h with
  | base e => exact absurd e (by decide +kernel)
  | step e h' =>
    have h1 := e.lt
    have h2 := h'.lt
    omega

/-- An atomic location accessed once non-atomically is a race as well (the "atomic changed to a
plain access" mutation). -/
def mixedTrace : Trace := [⟨0, .spawn, 0, 1⟩, ⟨0, .atomic, 5, 0⟩, ⟨1, .write, 5, 0⟩]

theorem mixed_atomic_races : WF mixedTrace ∧ Race mixedTrace 1 2 := by
  refine ⟨wf_of_dec (by decide +kernel) (by decide +kernel) (by decide +kernel) (by decide +kernel), by decide +kernel, by decide +kernel, ?_⟩
  intro h
  cases h with
  | base e => exact absurd e (by decide +kernel)
  | step e h' =>
    have h1 := e.lt
    have h2 := h'.lt
    omega

/-! ## The tie to the current sources (regenerated facts × hand-written table) -/
open Refinery.Locks.Table Refinery.Gen.Access

/-- The full-strength static statement: every lexical access fact of the anchored structs complies
with its field's discipline. -/
def FullStatement : Prop := allFactsComply disciplines roles [] accessFacts = true

/-- **State of the full statement.** It holds exactly when every race fix has landed
(`Table.allFixed`); as long as one of the listed violations is still in the tree it is false. -/
theorem full_statement_status : allFactsComply disciplines roles [] accessFacts = allFixed := by
  decide +kernel

/-- While a fix is outstanding the full statement is refuted: the accesses in `knownViolations`
break their field's discipline (each is a data race reproduced by the race-detector harness). -/
theorem full_statement_refuted (h : allFixed = false) : ¬ FullStatement := by
  unfold FullStatement
  rw [full_statement_status, h]
  decide

/-- **`facts_comply`** — apart from the listed known violations, every access to a field of the
tracked structs, in every function of the analysed packages, complies with the discipline of that
field (holds the right mutex in the right mode / runs in the owning role / is atomic / is a read
of an init-only field).  A removed `Lock()`, a new unsynchronised access or a plain access to an
atomic field makes this false. -/
theorem facts_comply : allFactsComply disciplines roles knownViolations accessFacts = true := by
  decide +kernel

/-- What `facts_comply` says, fact by fact (the checker caches the discipline of the previous
fact's location; this does not change its meaning). -/
theorem facts_comply_meaning (disc : List (Nat × LDisc)) (rl : List (Nat × Role))
    (known : List (Nat × Nat × AKind)) (fs : List Fact) :
    allFactsComply disc rl known fs = true ↔
      ∀ f, f ∈ fs → factOK disc rl f = true ∨ isKnown known f = true := by
  unfold allFactsComply
  rw [checkFrom_iff disc rl known fs none (by intro l d h; cases h)]
  simp only [Bool.or_eq_true]

/-- Every declared field of the tracked structs has a discipline (a new field must be classified). -/
theorem fields_covered :
    declaredFields.all (fun l => (lookup disciplines l).isSome) = true := by
  decide +kernel

/-- Every selector the stub type checker could not resolve and whose name coincides with a tracked
field has been reviewed by hand. -/
theorem unresolved_reviewed :
    unresolvedSelectors.all (fun u => reviewedUnresolved.contains u) = true := by
  decide +kernel

/-- The facts are not vacuous: they contain locked writes, shared-locked reads, atomic accesses
and confined accesses that the table accepts. -/
theorem facts_nonvacuous :
    accessFacts.length ≥ 500 ∧
    accessFacts.contains ⟨L.«StressRelief.stressLevels», F.«StressRelief.onStressLevelUpdate», .write,
      [(L.«StressRelief.lock», .ex)], false⟩ = true ∧
    accessFacts.contains ⟨L.«StressRelief.stressed», F.«StressRelief.Stressed», .read,
      [(L.«StressRelief.lock», .sh)], false⟩ = true ∧
    accessFacts.contains ⟨L.«CollectorWorker.lastCacheSize», F.«CollectorWorker.collect», .atomic, [], false⟩ = true ∧
    accessFacts.contains ⟨L.«CollectorWorker.localSpanProcessed», F.«CollectorWorker.getLastSpanProcessed»,
      .write, [], false⟩ = true ∧
    factOK disciplines roles ⟨L.«StressRelief.stressLevels», F.«StressRelief.onStressLevelUpdate», .write, [], false⟩ = false ∧
    factOK disciplines roles ⟨L.«CollectorWorker.localSpanProcessed», F.«CollectorWorker.addSpan», .write, [], false⟩ = false ∧
    factOK disciplines roles ⟨L.«CollectorWorker.lastCacheSize», F.«CollectorWorker.collect», .write, [], false⟩ = false := by
  decide +kernel

end Refinery.Props.C35
