import Refinery.Model.Deterministic
/-!
# C10 — deterministic sampling is a pure, nested function of the trace ID

Statement (properties.jsonl): the deterministic sampler and stress-relief sampling keep a trace
exactly when a fixed hash of its trace ID falls under a threshold set by the rate, so every node
and every run decides the same for the same trace ID and rate, and a rate of 1 or less keeps
everything.  Decisions are nested (a trace kept at rate N is kept at every rate M ≤ N) and over
random trace IDs the kept fraction is 1/N within statistical tolerance.
Quantifier: all trace IDs and all rates (deterministic sampler 1..2^31, stress relief 1..2^64-1).

The hash is a parameter: every theorem quantifies over *all* hash values `h` (and, where trace
IDs appear, over all hash functions `hash : String → Nat`).  Since the C28 repair of `Start`
(`if rate > 1 { upperBound = uint32(MaxUint32 / uint64(rate)) }`) the theorems about the
deterministic sampler hold for EVERY `int` rate: no configured value panics, every rate ≤ 1 keeps
everything, and threshold, nesting and fraction bound hold for all rates ≥ 1 (beyond the
property's `1..2^31`; for rates ≥ 2^32 only the hash value 0 is kept).
-/
namespace Refinery.Props.C10
open Refinery.Model.Deterministic

/-! ## Threshold arithmetic, for any width (`U` = largest hash value) -/

theorem count_le (m b : Nat) :
    ((List.range m).filter (fun h => decide (h ≤ b))).length = min m (b + 1) := by
  induction m with
  | zero => simp
  | succ m ih =>
    rw [List.range_succ, List.filter_append, List.length_append, ih]
    by_cases hm : m ≤ b
    · simp [hm]; omega
    · simp [hm]; omega

/-- Of the `U+1` hash values `0..U` exactly `⌊U/n⌋ + 1` are at or under the threshold `⌊U/n⌋`. -/
theorem kept_count_threshold (U n : Nat) :
    keptCount (fun h => decide (h ≤ U / n)) (U + 1) = U / n + 1 := by
  unfold keptCount
  rw [count_le]
  have := Nat.div_le_self U n
  omega

/-- `⌊U/n⌋ + 1 = ⌈(U+1)/n⌉`, written without division: `U+1 ≤ n·K < U+1+n`. -/
theorem ceil_bounds (U n : Nat) (hn : 0 < n) :
    U + 1 ≤ n * (U / n + 1) ∧ n * (U / n + 1) < U + 1 + n := by
  have h1 := Nat.div_add_mod U n
  have h2 := Nat.mod_lt U hn
  rw [Nat.mul_succ]
  omega

theorem keptCount_congr (p q : Nat → Bool) (T : Nat) (hpq : ∀ h, h < T → p h = q h) :
    keptCount p T = keptCount q T := by
  unfold keptCount
  congr 1
  apply List.filter_congr
  intro h hh
  exact hpq h (List.mem_range.mp hh)

theorem det_start_eq (rate : Int) :
    Det.start rate = .ok { sampleRate := rate,
                           upperBound := if rate > 1 then maxU32 / rate.toNat else 0 } := by
  unfold Det.start udiv toU32
  by_cases h : rate > 1
  · have h0 : rate.toNat ≠ 0 := by omega
    have hlt : maxU32 / rate.toNat < 4294967296 := by
      have := Nat.div_le_self maxU32 rate.toNat
      unfold maxU32 at this ⊢; omega
    simp [h, h0, Nat.mod_eq_of_lt hlt]
  · simp [h]

theorem stress_update_eq (rate : Nat) :
    Stress.update rate = .ok { sampleRate := if rate = 0 then 1 else rate,
                               upperBound := maxU64 / (if rate = 0 then 1 else rate) } := by
  unfold Stress.update udiv
  by_cases h : rate = 0 <;> simp [h]

/-! ## Deterministic sampler -/

/-- `Start` never panics, whatever `int` is configured (0, negatives and multiples of 2^32
included): the division only happens for `rate > 1`, in 64 bits. -/
theorem det_never_panics (rate : Int) (h : Nat) : ∃ d, detSample rate h = .ok d := by
  unfold detSample
  rw [det_start_eq]
  exact ⟨_, rfl⟩

/-- **pure** — the decision is a function of the hash value of the trace ID and of the rate only:
whatever the hash function, two trace IDs with the same hash value get the same answer (same
keep flag, same reported rate, same reason) at the same rate, on every node and in every run. -/
theorem det_pure (hash : String → Nat) (rate : Int) (id₁ id₂ : String)
    (h : hash id₁ = hash id₂) : detSample rate (hash id₁) = detSample rate (hash id₂) := by
  rw [h]

/-- **agreement** — two independently constructed sampler instances configured with the same rate
answer identically for every hash value. -/
theorem det_agreement (rate : Int) (d₁ d₂ : Det) (h₁ : Det.start rate = .ok d₁)
    (h₂ : Det.start rate = .ok d₂) (h : Nat) : d₁.get h = d₂.get h := by
  rw [h₁] at h₂
  cases h₂
  rfl

/-- **rate_le_one_keeps_all** (full statement, every `int` ≤ 1: 1, 0 and all negatives) — every
trace is kept and rate 1 is reported. -/
theorem det_rate_le_one_keeps_all (rate : Int) (h : Nat) (hle : rate ≤ 1) :
    detSample rate h = .ok { rate := 1, keep := true, reason := .detAlways } := by
  unfold detSample
  rw [det_start_eq]
  simp [Det.get, hle]

/-- **threshold** — for every rate `≥ 2` the trace is kept exactly when `hash · rate ≤ MaxUint32`
(equivalently `hash ≤ ⌊MaxUint32 / rate⌋`), and the configured rate is reported. -/
theorem det_keep_iff (rate : Int) (h : Nat) (h1 : 2 ≤ rate) :
    detSample rate h = .ok { rate := rate.toNat, keep := decide (h * rate.toNat ≤ maxU32),
                             reason := .detChance } := by
  unfold detSample
  rw [det_start_eq]
  have hgt : ¬ rate ≤ 1 := by omega
  have hgt' : rate > 1 := by omega
  have hpos : 0 < rate.toNat := by omega
  simp only [Det.get, hgt, hgt', if_false, if_true]
  congr 2
  exact decide_eq_decide.mpr (Nat.le_div_iff_mul_le hpos)

/-- keep flag for every rate `≥ 1` and a 32-bit hash value: under the threshold `⌊MaxUint32/rate⌋`
(at rate 1 the threshold is `MaxUint32` itself, so the early return and the comparison agree). -/
theorem detKeeps_eq (rate : Int) (h : Nat) (h1 : 1 ≤ rate) (hh : h ≤ maxU32) :
    detKeeps rate h = decide (h ≤ maxU32 / rate.toNat) := by
  unfold detKeeps
  by_cases hr : rate ≤ 1
  · have : rate = 1 := by omega
    subst this
    rw [det_rate_le_one_keeps_all 1 h (by decide)]
    simp [hh]
  · rw [det_keep_iff rate h (by omega)]
    simp only
    exact decide_eq_decide.mpr (Nat.le_div_iff_mul_le (by omega)).symm

/-- **nested** (full statement, every pair of `int` rates) — for `M ≤ N` and every hash value: a
trace kept at rate `N` is kept at rate `M` (because `⌊U/N⌋ ≤ ⌊U/M⌋`; rates ≤ 1 keep everything). -/
theorem det_nested (M N : Int) (h : Nat) (hMN : M ≤ N) (hk : detKeeps N h = true) :
    detKeeps M h = true := by
  by_cases hM1 : M ≤ 1
  · unfold detKeeps
    rw [det_rate_le_one_keeps_all M h hM1]
  · unfold detKeeps at hk ⊢
    rw [det_keep_iff N h (by omega)] at hk
    rw [det_keep_iff M h (by omega)]
    simp only [decide_eq_true_eq] at hk ⊢
    have : h * M.toNat ≤ h * N.toNat := Nat.mul_le_mul_left h (by omega)
    omega

/-- **fraction_bound** — for every rate `N ≥ 1`, of the `2^32` possible hash values exactly
`K = ⌊MaxUint32/N⌋ + 1 = ⌈2^32/N⌉` are kept: `2^32 ≤ N·K < 2^32 + N`, i.e. the kept fraction of hash
values is in `[1/N, 1/N + 2^-32)` — within one hash value of `2^32/N` (for `N ≥ 2^32`: exactly one,
the hash value 0). -/
theorem det_fraction_bound (N : Int) (h1 : 1 ≤ N) :
    keptCount (detKeeps N) 4294967296 = maxU32 / N.toNat + 1 ∧
    4294967296 ≤ N.toNat * keptCount (detKeeps N) 4294967296 ∧
    N.toNat * keptCount (detKeeps N) 4294967296 < 4294967296 + N.toNat := by
  have hc : keptCount (detKeeps N) 4294967296 = maxU32 / N.toNat + 1 := by
    have ht : (4294967296 : Nat) = maxU32 + 1 := by decide
    rw [ht, ← kept_count_threshold maxU32 N.toNat]
    apply keptCount_congr
    intro h hh
    exact detKeeps_eq N h h1 (by omega)
  have hb := ceil_bounds maxU32 N.toNat (by omega)
  rw [hc]
  exact ⟨rfl, hb.1, hb.2⟩

/-! ## Stress relief (64-bit) -/

/-- `UpdateFromConfig` never divides by zero: rate 0 is replaced by 1 first. -/
theorem stress_never_panics (rate h : Nat) : ∃ d, stressSample rate h = .ok d := by
  unfold stressSample
  rw [stress_update_eq]
  exact ⟨_, rfl⟩

/-- **pure** (stress relief). -/
theorem stress_pure (hash : String → Nat) (rate : Nat) (id₁ id₂ : String)
    (h : hash id₁ = hash id₂) : stressSample rate (hash id₁) = stressSample rate (hash id₂) := by
  rw [h]

/-- **agreement** (stress relief) — two `StressRelief` instances configured with the same rate
answer identically for every hash value. -/
theorem stress_agreement (rate : Nat) (s₁ s₂ : Stress) (h₁ : Stress.update rate = .ok s₁)
    (h₂ : Stress.update rate = .ok s₂) (h : Nat) : s₁.get h = s₂.get h := by
  rw [h₁] at h₂
  cases h₂
  rfl

/-- **rate_le_one_keeps_all** (stress relief) — rates 0 and 1 keep every trace at rate 1. -/
theorem stress_rate_le_one_keeps_all (rate h : Nat) (hle : rate ≤ 1) :
    stressSample rate h = .ok { rate := 1, keep := true, reason := .stressAlways } := by
  unfold stressSample
  rw [stress_update_eq]
  by_cases h0 : rate = 0
  · simp [h0, Stress.get]
  · have : rate = 1 := by omega
    simp [this, Stress.get]

/-- **threshold** (stress relief) — for every rate `≥ 2` the trace is kept exactly when
`hash · rate ≤ MaxUint64`, and the configured rate is reported. -/
theorem stress_keep_iff (rate h : Nat) (h1 : 2 ≤ rate) :
    stressSample rate h = .ok { rate := rate, keep := decide (h * rate ≤ maxU64),
                                reason := .stressDet } := by
  unfold stressSample
  rw [stress_update_eq]
  have h0 : rate ≠ 0 := by omega
  have hgt : ¬ rate ≤ 1 := by omega
  simp only [h0, if_false, Stress.get, hgt]
  congr 2
  exact decide_eq_decide.mpr (Nat.le_div_iff_mul_le (by omega))

theorem stressKeeps_eq (rate h : Nat) (h1 : 1 ≤ rate) (hh : h ≤ maxU64) :
    stressKeeps rate h = decide (h ≤ maxU64 / rate) := by
  unfold stressKeeps
  by_cases hr : rate ≤ 1
  · have : rate = 1 := by omega
    subst this
    rw [stress_rate_le_one_keeps_all 1 h (by decide)]
    simp [hh]
  · rw [stress_keep_iff rate h (by omega)]
    simp only
    exact decide_eq_decide.mpr (Nat.le_div_iff_mul_le (by omega)).symm

/-- **nested** (stress relief) — for all rates `M ≤ N` (0 included, it means 1) and every hash
value: kept at `N` implies kept at `M`. -/
theorem stress_nested (M N h : Nat) (hMN : M ≤ N) (hk : stressKeeps N h = true) :
    stressKeeps M h = true := by
  by_cases hM1 : M ≤ 1
  · unfold stressKeeps
    rw [stress_rate_le_one_keeps_all M h hM1]
  · unfold stressKeeps at hk ⊢
    rw [stress_keep_iff N h (by omega)] at hk
    rw [stress_keep_iff M h (by omega)]
    simp only [decide_eq_true_eq] at hk ⊢
    have : h * M ≤ h * N := Nat.mul_le_mul_left h hMN
    omega

/-- **fraction_bound** (stress relief) — for every rate `N ≥ 1`, of the `2^64` hash values exactly
`K = ⌊MaxUint64/N⌋ + 1 = ⌈2^64/N⌉` are kept: `2^64 ≤ N·K < 2^64 + N`. -/
theorem stress_fraction_bound (N : Nat) (h1 : 1 ≤ N) :
    keptCount (stressKeeps N) 18446744073709551616 = maxU64 / N + 1 ∧
    18446744073709551616 ≤ N * keptCount (stressKeeps N) 18446744073709551616 ∧
    N * keptCount (stressKeeps N) 18446744073709551616 < 18446744073709551616 + N := by
  have hc : keptCount (stressKeeps N) 18446744073709551616 = maxU64 / N + 1 := by
    have ht : (18446744073709551616 : Nat) = maxU64 + 1 := by decide
    rw [ht, ← kept_count_threshold maxU64 N]
    apply keptCount_congr
    intro h hh
    exact stressKeeps_eq N h h1 (by omega)
  have hb := ceil_bounds maxU64 N h1
  rw [hc]
  exact ⟨rfl, hb.1, hb.2⟩

/-- what `UpdateFromConfig` leaves in `(sampleRate, upperBound)` for a configured rate -/
def updS (rate : Nat) : Stress :=
  { sampleRate := (if rate = 0 then 1 else rate), upperBound := maxU64 / (if rate = 0 then 1 else rate) }

theorem stress_update_updS (rate : Nat) : Stress.update rate = .ok (updS rate) := stress_update_eq rate

theorem run_cons (r : Relief) (o : ROp) (os : List ROp) :
    Relief.run (.ok r) (o :: os) = Relief.run (r.step o) os := rfl

theorem lastRate_reload (a : Nat) (m : Mode) (rate : Nat) (os : List ROp) :
    lastRate a (.reload m rate :: os) = lastRate rate os := rfl

theorem lastRate_recalc (a : Nat) (os : List ROp) : lastRate a (.recalc :: os) = lastRate a os := rfl

/-- Invariant of the long-lived instance: its `(sampleRate, upperBound)` are those a fresh instance
gets for the most recently configured rate, whatever happened before. -/
theorem relief_run_inv (ops : List ROp) (r : Relief) (a : Nat) (hr : Stress.update a = .ok r.s) :
    ∃ r', Relief.run (.ok r) ops = .ok r' ∧ Stress.update (lastRate a ops) = .ok r'.s := by
  induction ops generalizing r a with
  | nil => exact ⟨r, rfl, hr⟩
  | cons o os ih =>
    cases o with
    | reload m rate =>
      have hu := stress_update_updS rate
      have hstep : Relief.step r (.reload m rate) = .ok { r with mode := m, s := updS rate } := by
        simp only [Relief.step, hu]
      obtain ⟨r', h1, h2⟩ := ih { r with mode := m, s := updS rate } rate hu
      refine ⟨r', ?_, ?_⟩
      · rw [run_cons, hstep]; exact h1
      · rw [lastRate_reload]; exact h2
    | recalc =>
      obtain ⟨r', h1, h2⟩ := ih { r with stressed := (match r.mode with | .always => true | _ => false) } a hr
      refine ⟨r', ?_, ?_⟩
      · rw [run_cons]; exact h1
      · rw [lastRate_recalc]; exact h2

/-- **history independence** (stress relief) — after ANY history of configuration reloads (any
modes, any rates) and stressed/unstressed state changes, one long-lived `StressRelief` never
panics and answers every hash value exactly as a freshly constructed instance configured with the
most recently configured rate: the decision depends on the last configured rate only. -/
theorem stress_history_independent (m₀ : Mode) (rate₀ : Nat) (ops : List ROp) (h : Nat) :
    ∃ r, Relief.run (Relief.init m₀ rate₀) ops = .ok r ∧
      .ok (r.s.get h) = stressSample (lastRate rate₀ ops) h := by
  have hu := stress_update_updS rate₀
  have hinit : Relief.init m₀ rate₀ = .ok { mode := m₀, stressed := false, s := updS rate₀ } := by
    simp only [Relief.init, Relief.step, hu]
  obtain ⟨r', h1, h2⟩ := relief_run_inv ops { mode := m₀, stressed := false, s := updS rate₀ } rate₀ hu
  refine ⟨r', by rw [hinit]; exact h1, ?_⟩
  unfold stressSample
  rw [h2]

/-! ## Non-vacuity: concrete values evaluated by the kernel -/
example : (match Relief.run (Relief.init .always 10) [.recalc, .reload .always 2, .recalc] with
    | .ok r => r.s.get 9223372036854775807 | _ => ⟨0, false, .stressDet⟩) =
    { rate := 2, keep := true, reason := .stressDet } := by decide
example : detSample 10 429496729 = .ok { rate := 10, keep := true, reason := .detChance } := by decide
example : detSample 10 429496730 = .ok { rate := 10, keep := false, reason := .detChance } := by decide
example : detSample 2147483648 1 = .ok { rate := 2147483648, keep := true, reason := .detChance } := by decide
example : detSample 2147483648 2 = .ok { rate := 2147483648, keep := false, reason := .detChance } := by decide
example : detSample 4294967295 1 = .ok { rate := 4294967295, keep := true, reason := .detChance } := by decide
example : detSample (-1) 4294967295 = .ok { rate := 1, keep := true, reason := .detAlways } := by decide
example : detSample 0 7 = .ok { rate := 1, keep := true, reason := .detAlways } := by decide
example : detSample (-4294967296) 7 = .ok { rate := 1, keep := true, reason := .detAlways } := by decide
example : detSample 4294967296 0 = .ok { rate := 4294967296, keep := true, reason := .detChance } := by decide
example : detSample 4294967296 1 = .ok { rate := 4294967296, keep := false, reason := .detChance } := by decide
example : detSample 4294967298 2147483647 = .ok { rate := 4294967298, keep := false, reason := .detChance } := by decide
example : keptCount (detKeeps 3) 16 = 16 := by decide   -- all 16 smallest hash values are under U/3
example : stressSample 0 18446744073709551615 = .ok { rate := 1, keep := true, reason := .stressAlways } := by decide
example : stressSample 100 184467440737095516 = .ok { rate := 100, keep := true, reason := .stressDet } := by decide
example : stressSample 100 184467440737095517 = .ok { rate := 100, keep := false, reason := .stressDet } := by decide
example : stressSample 18446744073709551615 1 = .ok { rate := 18446744073709551615, keep := true, reason := .stressDet } := by decide
example : stressSample 18446744073709551615 2 = .ok { rate := 18446744073709551615, keep := false, reason := .stressDet } := by decide

end Refinery.Props.C10
