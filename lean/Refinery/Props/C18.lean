import Refinery.Basic.Sort
import Refinery.Model.Peers
import Refinery.Lemmas.Peers
import Refinery.Gen.Peers
/-!
# C18 — Redis peer membership converges to the live, publishing nodes

Statement (properties.jsonl): with Redis-based peer management, once membership stops changing
every running node's peer list converges to exactly the nodes that are alive and publishing,
within the peer entry timeout plus one refresh interval, even if registration and unregistration
messages are processed out of order.  Membership messages round-trip exactly, so addresses and
instance IDs are never corrupted.

What is proved, about the model in `Model/Peers.lean` (which transcribes `pubsub_redis.go` and
`mapttl.go`):

* codec — `unmarshal` splits at the **last** comma (repaired in /repo commit 7f6234c; before, it
  split at the first one and an address with a comma was mis-read).  The round trip holds exactly
  when the *id* contains no comma, for every address (`codec_roundtrip`, `codec_roundtrip_iff`);
  ids are not user input: the only producer is `cmd/refinery/main.go`
  (`instanceID := fmt.Sprintf("%08.8x", …)`, eight hex digits).  Every accepted message is a
  well-formed marshalling (`codec_accepts_only_marshalled`).
* membership — for **every** event list a node can experience (any interleaving and reordering of
  deliveries and `GetPeers` calls, monotone clock, each delivery at most `d` late):
  `presence_by_history`, `stale_expires`, `live_persists`, `self_persists`, `converges`
  (+ `converges_list` for the literal `GetPeers` result, `callback_view_converges` for what a
  registered change callback — the sharder's reload — saw last; `converges_after_publish_failures`
  with `publish_failure_does_not_change_period` for transient publish failures), for **any address** of the live nodes
  (`live_persists_any_address`), ids comma-free.  The constants are those of the code
  (`Gen/Peers.lean`), the side condition `refresh + jitter + d < TTL` is discharged on them.
-/
namespace Refinery.Props.C18
open Refinery Refinery.Model.Peers

/-! ## 1. codec -/

/-- `http://a,b:8081` — the address that the code before commit 7f6234c mis-read -/
def witnessAddr : Bytes := [104, 116, 116, 112, 58, 47, 47, 97, 44, 98, 58, 56, 48, 56, 49]
/-- `id1` -/
def witnessId : Bytes := [105, 100, 49]

/-- **codec_roundtrip** — membership messages round-trip exactly: a command decodes to itself —
action, address and id — for **every** address string (commas and the empty string included),
provided the id contains no comma.  Ids are produced only by `cmd/refinery/main.go`
(`fmt.Sprintf("%08.8x", …)`: eight hex digits), so the proviso always holds in a running cluster. -/
theorem codec_roundtrip (c : Cmd) (h : comma ∉ c.id) : unmarshal (marshal c) = some c :=
  unmarshal_marshal_of_no_comma c h

/-- …and that hypothesis is exactly what is needed. -/
theorem codec_roundtrip_iff (c : Cmd) : unmarshal (marshal c) = some c ↔ comma ∉ c.id :=
  ⟨fun h => (unmarshal_sound h).2, codec_roundtrip c⟩

/-- What a comma in an *id* would do (no producer of such ids exists): the id is cut at its last
comma and what precedes it is appended to the address. -/
theorem codec_id_comma_misread (act : Action) (addr pre post : Bytes) (h : comma ∉ post) :
    unmarshal (marshal ⟨act, pre ++ comma :: post, addr⟩) = some ⟨act, post, addr ++ comma :: pre⟩ := by
  rw [marshal_comma_ambiguous]
  exact unmarshal_marshal_of_no_comma _ h

/-- regression witness of the repaired defect: `http://a,b:8081` / `id1` now round-trips -/
example : unmarshal (marshal ⟨.register, witnessId, witnessAddr⟩) = some ⟨.register, witnessId, witnessAddr⟩ := by
  decide

/-- Every message the decoder accepts is byte for byte the marshalling of the command it returns
(so nothing but `R…`/`U…` with a separator is accepted, and decoding loses nothing). -/
theorem codec_accepts_only_marshalled (m : Bytes) (c : Cmd) (h : unmarshal m = some c) : marshal c = m :=
  (unmarshal_sound h).1

/-- the action bytes of the model are the code's `Register` / `Unregister` constants -/
theorem action_bytes_from_code :
    (Action.register.byte.toNat : Int) = Gen.Peers.registerByte ∧
    (Action.unregister.byte.toNat : Int) = Gen.Peers.unregisterByte := by decide

example : unmarshal (marshal ⟨.unregister, [], []⟩) = some ⟨.unregister, [], []⟩ := by decide
example : unmarshal [82] = none := by decide                      -- "R"
example : unmarshal [82, 97, 98] = none := by decide              -- "Rab": old format, ignored
example : unmarshal [44, 97] = none := by decide                  -- ",a"

/-! ## 2. one node, any history -/

/-- **presence_by_history** — out-of-order handling is harmless in exactly this sense: at every
instant, after any sequence of handled messages and `GetPeers` calls, an id is listed iff the
most recently *handled* command for it was a register, handled at most `ttl` ago (with that
register's address). -/
theorem presence_by_history (ttl d : Int) (self : Node) (startT : Int) (evs : List Ev) (t : Int)
    (hT : Timed d startT evs t) (k : Bytes) :
    lookup (stateAt ttl self startT evs t) k = present ttl (hist self startT evs) t k :=
  presence_char hT k

/-- `GetPeers`' listing is the lookup: the listed ids are those `Get` finds … -/
theorem mem_sortedKeys (s : St) (hn : AList.NoDupKeys s.items) (k : Bytes) :
    k ∈ sortedKeys s ↔ (lookup s k).isSome = true := by
  unfold sortedKeys lookup
  rw [mem_ksort, AList.mem_keys_iff]
  simp only [cleanup]
  rw [AList.get_keep _ hn]
  cases hg : AList.get s.items k with
  | none => simp
  | some ve =>
    obtain ⟨v, e⟩ := ve
    by_cases hx : expired s.now e = true <;> simp [Option.filter, hx]

/-- … and the listed addresses are their looked-up values, in id order. -/
theorem sortedValues_eq (s : St) (hn : AList.NoDupKeys s.items) :
    sortedValues s = (sortedKeys s).filterMap (fun k => lookup s k) := by
  unfold sortedValues
  apply filterMap_congr'
  intro k hk
  have hk' := (mem_sortedKeys _ hn k).mp hk
  unfold lookup at hk' ⊢
  simp only [cleanup]
  rw [AList.get_keep _ hn]
  cases hg : AList.get s.items k with
  | none => simp [hg] at hk'
  | some ve =>
    obtain ⟨v, e⟩ := ve
    simp only [hg] at hk'
    by_cases hx : expired s.now e = true <;> simp_all [Option.filter]

/-- **stale_expires** — if no register for id `k` was published after `T0` (the node stopped or
crashed at `T0`; `self` is not `k` unless it started by then), then after `T0 + d + ttl` the
entry is gone from this node's list — for every delivery schedule with delays `≤ d`, whatever
the order in which the node's last registers and its unregister were handled. -/
theorem stale_expires (ttl d : Int) (self : Node) (startT : Int) (evs : List Ev) (t T0 : Int) (k : Bytes)
    (hT : Timed d startT evs t)
    (hsilent : ∀ s a m addr, Ev.recv s a m ∈ evs → unmarshal m = some ⟨.register, k, addr⟩ → s ≤ T0)
    (hself : self.id = k → startT ≤ T0) (hd : 0 ≤ d)
    (ht : T0 + d + ttl < t) :
    lookup (stateAt ttl self startT evs t) k = none := by
  rw [presence_char hT k]
  unfold present
  cases hh : hist self startT evs k with
  | none => rfl
  | some ap =>
    obtain ⟨a, p⟩ := ap
    simp only
    rw [if_neg]
    rcases hist_origin evs _ k a p hh with h0 | ⟨sent, m, hm, hu⟩
    · simp only [histStart] at h0
      by_cases hk : self.id = k
      · simp only [hk, if_true, Option.some.injEq, Prod.mk.injEq] at h0
        have := hself hk
        omega
      · simp [hk] at h0
    · have h1 := hsilent sent p m a hm hu
      have h2 := timed_recv_delay evs startT t hT sent p m hm
      omega

/-- receiver-local form of `live_persists`: an id that is only ever (re-)registered at address `a`
and whose most recent handled register (or the node's own `Start`) is at most `ttl` old is listed
with address `a`. -/
theorem live_persists_local (ttl d : Int) (self : Node) (startT : Int) (evs : List Ev) (t : Int) (k a : Bytes)
    (hT : Timed d startT evs t) (hO : OnlyReg k a evs)
    (hrecent : (∃ sent p m, Ev.recv sent p m ∈ evs ∧ unmarshal m = some ⟨.register, k, a⟩ ∧ t ≤ p + ttl) ∨
               (self.id = k ∧ self.addr = a ∧ t ≤ startT + ttl)) :
    lookup (stateAt ttl self startT evs t) k = some a := by
  rw [presence_char hT k]
  unfold present
  rcases hrecent with ⟨sent, p, m, hm, hu, hp⟩ | ⟨hk, ha, hp⟩
  · obtain ⟨p', hp', hh⟩ := hist_of_recv (d := d) evs (histStart self startT) k a sent p m startT t hm hu hT hO
    unfold hist
    rw [hh]
    simp only
    rw [if_pos (by omega)]
  · have h0 : histStart self startT k = some (a, startT) := by simp [histStart, hk, ha]
    obtain ⟨p', hp', hh⟩ := hist_keeps (d := d) evs (histStart self startT) k a startT startT t h0 (Int.le_refl _) hT hO
    unfold hist
    rw [hh]
    simp only
    rw [if_pos (by omega)]

/-! ## 3. the node in the network -/

theorem unmarshal_regMsg (n : Node) (h : comma ∉ n.id) :
    unmarshal (regMsg n) = some ⟨.register, n.id, n.addr⟩ :=
  unmarshal_marshal_of_no_comma ⟨.register, n.id, n.addr⟩ h

theorem onlyReg_of_onlyOwn {P : Pubs} {d startT : Int} {evs : List Ev} {t : Int} {n : Node}
    (hF : Fair P d startT evs t) (hown : OnlyOwn P n) : OnlyReg n.id n.addr evs :=
  fun s a m c hm hu hid => hown s m c (hF.1 s a m hm) hu hid

/-- **live_persists** — a node `n` (any address; id without a comma, as all generated ids are)
that re-registers at least every `G` from `S` on (and whose id
nobody else uses) is listed, with its address, by every node that has been subscribed since
`startT`, at every instant after `max S startT + G + d` — because `G + d < ttl`, the entry is
always refreshed before it expires, in whatever order the refreshes arrive. -/
theorem live_persists (ttl d G : Int) (P : Pubs) (self : Node) (startT : Int) (evs : List Ev) (t S : Int) (n : Node)
    (hT : Timed d startT evs t) (hF : Fair P d startT evs t)
    (hpub : PublishesEvery P n S G) (hown : OnlyOwn P n) (hcf : comma ∉ n.id)
    (hside : G + d < ttl)
    (ht1 : S + G + d < t) (ht2 : startT + G + d < t) :
    lookup (stateAt ttl self startT evs t) n.id = some n.addr := by
  obtain ⟨s, hs1, hs2, hP⟩ := hpub (t - d - 1 - G) (by omega)
  obtain ⟨a, hm⟩ := hF.2 s (regMsg n) hP (by omega) (by omega)
  have hdel := timed_recv_delay evs startT t hT s a (regMsg n) hm
  apply live_persists_local ttl d self startT evs t n.id n.addr hT (onlyReg_of_onlyOwn hF hown)
  exact Or.inl ⟨s, a, regMsg n, hm, unmarshal_regMsg n hcf, by omega⟩

/-- **self_persists** — a running, publishing node never drops out of its own list: `Start`
writes the entry and the node's own registers, which come back over the topic within `G + d < ttl`,
keep it alive. -/
theorem self_persists (ttl d G : Int) (P : Pubs) (self : Node) (startT : Int) (evs : List Ev) (t : Int)
    (hT : Timed d startT evs t) (hF : Fair P d startT evs t)
    (hpub : PublishesEvery P self startT G) (hown : OnlyOwn P self) (hcf : comma ∉ self.id)
    (hside : G + d < ttl) :
    lookup (stateAt ttl self startT evs t) self.id = some self.addr := by
  by_cases h : t ≤ startT + ttl
  · exact live_persists_local ttl d self startT evs t self.id self.addr hT (onlyReg_of_onlyOwn hF hown)
      (Or.inr ⟨rfl, rfl, h⟩)
  · exact live_persists ttl d G P self startT evs t startT self hT hF hpub hown hcf hside (by omega) (by omega)

/-- `stale_expires` against the global record of publications -/
theorem stale_expires_net (ttl d : Int) (P : Pubs) (self : Node) (startT : Int) (evs : List Ev) (t T0 : Int) (k : Bytes)
    (hT : Timed d startT evs t) (hF : Fair P d startT evs t)
    (hsilent : Silent P k T0) (hself : self.id = k → startT ≤ T0) (hd : 0 ≤ d)
    (ht : T0 + d + ttl < t) :
    lookup (stateAt ttl self startT evs t) k = none :=
  stale_expires ttl d self startT evs t T0 k hT
    (fun s a m addr hm hu => hsilent s m addr (hF.1 s a m hm) hu) hself hd ht

/-- the address the live set gives to an id -/
def liveAddr (live : List Node) (k : Bytes) : Option Bytes :=
  (live.find? (fun n => n.id = k)).map (·.addr)

/-- **converges** — membership stops changing at `T0`: from then on the nodes in `live` (any
addresses; ids comma-free) each re-register at least every `G` and nobody else publishes a register.  Then at
every instant after `T0 + d + ttl`, for every delivery schedule with delays `≤ d` and any
reordering, a node that was up by `T0` lists exactly the live nodes: each live id with its
address, and no other id. -/
theorem converges (ttl d G : Int) (P : Pubs) (live : List Node) (self : Node) (startT : Int)
    (evs : List Ev) (t T0 : Int)
    (hT : Timed d startT evs t) (hF : Fair P d startT evs t) (hstart : startT ≤ T0)
    (hlive : ∀ n ∈ live, comma ∉ n.id ∧ PublishesEvery P n T0 G ∧ OnlyOwn P n)
    (hdead : ∀ k, (∀ n ∈ live, n.id ≠ k) → Silent P k T0)
    (hside : G + d < ttl) (hd : 0 ≤ d)
    (ht : T0 + d + ttl < t) (k : Bytes) :
    lookup (stateAt ttl self startT evs t) k = liveAddr live k := by
  unfold liveAddr
  cases hf : live.find? (fun n => n.id = k) with
  | some n =>
    have hn : n ∈ live := List.mem_of_find?_eq_some hf
    have hk : n.id = k := by simpa using List.find?_some hf
    obtain ⟨hcf, hpub, hown⟩ := hlive n hn
    simp only [Option.map_some]
    rw [← hk]
    exact live_persists ttl d G P self startT evs t T0 n hT hF hpub hown hcf hside (by omega) (by omega)
  | none =>
    simp only [Option.map_none]
    have hne : ∀ n ∈ live, n.id ≠ k := by
      intro n hn
      have := List.find?_eq_none.mp hf n hn
      simpa using this
    exact stale_expires_net ttl d P self startT evs t T0 k hT hF (hdead k hne) (fun _ => hstart) hd ht

/-- the listed ids, in order, are the live ids in order -/
theorem converges_keys (ttl d G : Int) (P : Pubs) (live : List Node) (self : Node) (startT : Int)
    (evs : List Ev) (t T0 : Int)
    (hT : Timed d startT evs t) (hF : Fair P d startT evs t) (hstart : startT ≤ T0)
    (hlive : ∀ n ∈ live, comma ∉ n.id ∧ PublishesEvery P n T0 G ∧ OnlyOwn P n)
    (hdead : ∀ k, (∀ n ∈ live, n.id ≠ k) → Silent P k T0)
    (hnd : (live.map (·.id)).Nodup)
    (hside : G + d < ttl) (hd : 0 ≤ d)
    (ht : T0 + d + ttl < t) :
    sortedKeys (stateAt ttl self startT evs t) = ksort (live.map (·.id)) := by
  have hconv := converges ttl d G P live self startT evs t T0 hT hF hstart hlive hdead hside hd ht
  have hinv := (inv_run (ttl := ttl) (self := self) hT).1
  have hn : AList.NoDupKeys (stateAt ttl self startT evs t).items := hinv.1
  unfold sortedKeys
  apply ksort_eq_of_same_members
  · have := AList.nodup_keep (stateAt ttl self startT evs t).items hn
      (fun _ ve => !expired (stateAt ttl self startT evs t).now ve.2)
    simpa [AList.NoDupKeys, cleanup] using this
  · exact hnd
  · intro k
    have h1 := mem_sortedKeys (stateAt ttl self startT evs t) hn k
    unfold sortedKeys at h1
    rw [mem_ksort] at h1
    rw [h1, hconv k]
    unfold liveAddr
    cases hf : live.find? (fun n => n.id = k) with
    | some n =>
      have hn' : n ∈ live := List.mem_of_find?_eq_some hf
      have hk : n.id = k := by simpa using List.find?_some hf
      simp only [Option.map_some, Option.isSome_some, true_iff]
      exact List.mem_map.mpr ⟨n, hn', hk⟩
    | none =>
      simp only [Option.map_none, Option.isSome_none, Bool.false_eq_true, false_iff]
      intro hmem
      obtain ⟨n, hn', hk⟩ := List.mem_map.mp hmem
      have := List.find?_eq_none.mp hf n hn'
      simp [hk] at this

/-- the value `GetPeers` returns once the list is the live set: the live nodes' addresses in id
order (the node's own address if nobody is live — `GetPeers` never returns an empty list) -/
def liveList (live : List Node) (self : Node) : List Bytes :=
  match (ksort (live.map (·.id))).filterMap (liveAddr live) with
  | [] => [self.addr]
  | vs => vs

/-- **converges**, as the value `GetPeers` returns. -/
theorem converges_list (ttl d G : Int) (P : Pubs) (live : List Node) (self : Node) (startT : Int)
    (evs : List Ev) (t T0 : Int)
    (hT : Timed d startT evs t) (hF : Fair P d startT evs t) (hstart : startT ≤ T0)
    (hlive : ∀ n ∈ live, comma ∉ n.id ∧ PublishesEvery P n T0 G ∧ OnlyOwn P n)
    (hdead : ∀ k, (∀ n ∈ live, n.id ≠ k) → Silent P k T0)
    (hnd : (live.map (·.id)).Nodup)
    (hside : G + d < ttl) (hd : 0 ≤ d)
    (ht : T0 + d + ttl < t) :
    peersAt ttl self startT evs t = liveList live self := by
  have hconv := converges ttl d G P live self startT evs t T0 hT hF hstart hlive hdead hside hd ht
  have hkeys := converges_keys ttl d G P live self startT evs t T0 hT hF hstart hlive hdead hnd hside hd ht
  have hn : AList.NoDupKeys (stateAt ttl self startT evs t).items :=
    (inv_run (ttl := ttl) (self := self) hT).1.1
  unfold peersAt getPeers liveList
  rw [sortedValues_eq _ hn, hkeys]
  have : (fun k => lookup (stateAt ttl self startT evs t) k) = liveAddr live := funext hconv
  rw [this]
  rfl

/-! ### what the change-notification callback sees -/

/-- a state whose listed ids are the live ids and whose entries for live ids carry the live
addresses is one in which `GetPeers` returns the live list -/
theorem getPeers_of_keys (live : List Node) (self : Node) (s0 : St)
    (hg : GoodItems live s0.items) (hn : AList.NoDupKeys s0.items)
    (hk : sortedKeys s0 = ksort (live.map (·.id))) : getPeers self s0 = liveList live self := by
  unfold getPeers liveList
  rw [sortedValues_eq _ hn, hk]
  have : (ksort (live.map (·.id))).filterMap (fun k => lookup s0 k) =
      (ksort (live.map (·.id))).filterMap (liveAddr live) := by
    apply filterMap_congr'
    intro k hkm
    have hks : k ∈ sortedKeys s0 := by rw [hk]; exact hkm
    have hsome := (mem_sortedKeys s0 hn k).mp hks
    rw [mem_ksort] at hkm
    obtain ⟨n, hnl, hnk⟩ := List.mem_map.mp hkm
    -- the first live node with this id
    unfold liveAddr
    cases hf : live.find? (fun n => n.id = k) with
    | none =>
      have := List.find?_eq_none.mp hf n hnl
      simp [hnk] at this
    | some n' =>
      have hn' : n' ∈ live := List.mem_of_find?_eq_some hf
      have hk' : n'.id = k := by simpa using List.find?_some hf
      simp only [Option.map_some]
      unfold lookup at hsome ⊢
      cases hget : AList.get s0.items k with
      | none => simp [hget] at hsome
      | some ve =>
        obtain ⟨a, e⟩ := ve
        simp only [hget] at hsome ⊢
        have ha : a = n'.addr := hg k a e (AList.mem_of_get hget) n' hn' hk'
        by_cases hx : expired s0.now e = true
        · simp [hx] at hsome
        · simp [hx, ha]
  rw [this]
  rfl

/-- once a node has handled a message after `T0 + d + ttl`, the hash it stores is that of the live
id list (it is recomputed at every handled message, and only there) -/
theorem lastKeys_converged (ttl d G : Int) (P : Pubs) (live : List Node) (self : Node) (startT T0 : Int)
    (hstart : startT ≤ T0)
    (hlive : ∀ n ∈ live, comma ∉ n.id ∧ PublishesEvery P n T0 G ∧ OnlyOwn P n)
    (hdead : ∀ k, (∀ n ∈ live, n.id ≠ k) → Silent P k T0)
    (hnd : (live.map (·.id)).Nodup) (hside : G + d < ttl) (hd : 0 ≤ d) :
    ∀ (r : List Ev) (t : Int), Timed d startT r.reverse t → Fair P d startT r.reverse t →
      (∃ e ∈ r, e.handled = true ∧ T0 + d + ttl < e.time) →
      (runEvsN ttl self startT r.reverse).lastKeys = some (ksort (live.map (·.id))) := by
  intro r
  induction r with
  | nil => intro t _ _ h; simp at h
  | cons x r ih =>
    intro t hT hF hex
    rw [List.reverse_cons] at hT hF ⊢
    have hpre := timed_prefix r.reverse x [] startT t hT
    have hTx : Timed d startT (r.reverse ++ [x]) x.time := hpre.1
    have hFx : Fair P d startT (r.reverse ++ [x]) x.time := fair_prefix r.reverse x [] t hT hF
    have hrun : runEvsN ttl self startT (r.reverse ++ [x]) =
        stepEvN ttl self (runEvsN ttl self startT r.reverse) x := by
      simp [runEvsN, List.foldl_append]
    cases hh : x.handled with
    | true =>
      -- the stored hash is recomputed now, from a state that has converged
      have hbound : T0 + d + ttl < x.time := by
        obtain ⟨e, he, _, het⟩ := hex
        rcases List.mem_cons.mp he with rfl | he'
        · exact het
        · have := (timed_mem _ startT x.time hTx).2 e (by simp [he'])
          omega
      rw [hrun, stepEvN_lastKeys_handled ttl self _ x hh, ← hrun, runEvsN_st]
      have hkeys := converges_keys ttl d G P live self startT (r.reverse ++ [x]) x.time T0 hTx hFx hstart
        hlive hdead hnd hside hd hbound
      have hnow : (runEvs ttl self startT (r.reverse ++ [x])).now = x.time := by
        simp [runEvs, List.foldl_append, stepEv_now]
      have : stateAt ttl self startT (r.reverse ++ [x]) x.time = runEvs ttl self startT (r.reverse ++ [x]) := by
        unfold stateAt
        rw [← hnow]
      rw [← this, hkeys]
    | false =>
      rw [hrun, (stepEvN_unhandled ttl self _ x hh).1]
      have hex' : ∃ e ∈ r, e.handled = true ∧ T0 + d + ttl < e.time := by
        obtain ⟨e, he, heh, het⟩ := hex
        rcases List.mem_cons.mp he with rfl | he'
        · rw [hh] at heh; cases heh
        · exact ⟨e, he', heh, het⟩
      cases r with
      | nil => simp at hex'
      | cons y r' =>
        rw [List.reverse_cons] at hT hF ⊢
        have hT' : Timed d startT (r'.reverse ++ y :: [x]) t := by simpa using hT
        have hF' : Fair P d startT (r'.reverse ++ y :: [x]) t := by simpa using hF
        have h1 := (timed_prefix r'.reverse y [x] startT t hT').1
        have h2 := fair_prefix r'.reverse y [x] t hT' hF'
        have := ih y.time (by rw [List.reverse_cons]; exact h1) (by rw [List.reverse_cons]; exact h2) hex'
        rw [List.reverse_cons] at this
        exact this

/-- **callback_view_converges** — the list a registered change callback (the sharder's reload) saw
last is the live set, under the hypotheses of `converges` **plus**: the node has handled at least
one message after `T0 + d + ttl`.  The extra hypothesis is essential: `checkHash` runs only in
`listen`, so an entry that expires is dropped from `GetPeers` at once but is noticed — and the
callbacks told — only at the next handled message (in a live cluster: the next refresh of any
node, at most `refresh + jitter + d` later). -/
theorem callback_view_converges (ttl d G : Int) (P : Pubs) (live : List Node) (self : Node) (startT : Int)
    (evs : List Ev) (t T0 : Int)
    (hT : Timed d startT evs t) (hF : Fair P d startT evs t) (hstart : startT ≤ T0)
    (hlive : ∀ n ∈ live, comma ∉ n.id ∧ PublishesEvery P n T0 G ∧ OnlyOwn P n)
    (hdead : ∀ k, (∀ n ∈ live, n.id ≠ k) → Silent P k T0)
    (hnd : (live.map (·.id)).Nodup)
    (hselfaddr : ∀ n ∈ live, n.id = self.id → self.addr = n.addr)
    (hside : G + d < ttl) (hd : 0 ≤ d)
    (hhandled : ∃ e ∈ evs, e.handled = true ∧ T0 + d + ttl < e.time) :
    (runEvsN ttl self startT evs).view = some (liveList live self) := by
  -- the stored hash is the live id list's
  have hk := lastKeys_converged ttl d G P live self startT T0 hstart hlive hdead hnd hside hd
    evs.reverse t (by simpa using hT) (by simpa using hF)
    (by obtain ⟨e, he, h⟩ := hhandled; exact ⟨e, by simpa using he, h⟩)
  rw [List.reverse_reverse] at hk
  -- the view is GetPeers of a state with that id list and the right addresses
  have hO : ∀ n ∈ live, OnlyReg n.id n.addr evs := fun n hn => onlyReg_of_onlyOwn hF (hlive n hn).2.2
  have hJ : ∀ (l : List Ev), (∀ e ∈ l, e ∈ evs) → ∀ (n : NSt),
      GoodItems live n.st.items → AList.NoDupKeys n.st.items → ViewInv live self n →
      ViewInv live self (l.foldl (stepEvN ttl self) n) := by
    intro l
    induction l with
    | nil => intro _ n _ _ h; exact h
    | cons e es ih =>
      intro hsub n hg hn hv
      simp only [List.foldl_cons]
      have hg' : GoodItems live (stepEvN ttl self n e).st.items := by
        rw [stepEvN_st]
        apply good_stepEv e _ hg
        intro m hm sent t' msg c he hu hid
        exact hO m hm sent t' msg c (he ▸ hsub e List.mem_cons_self) hu hid
      have hn' : AList.NoDupKeys (stepEvN ttl self n e).st.items := by
        rw [stepEvN_st]; exact nodup_stepEv e hn
      exact ih (fun e' he' => hsub e' (List.mem_cons_of_mem _ he')) _ hg' hn' (viewInv_stepEvN e hg' hn' hv)
  have hstartGood : GoodItems live (startN ttl self startT).st.items := by
    intro k a e hm n hn hnk
    simp only [startN, start, AList.put, AList.del, List.filter_nil, List.mem_singleton, Prod.mk.injEq] at hm
    rw [hm.2.1]
    exact hselfaddr n hn (by rw [hnk, hm.1])
  have hstartNd : AList.NoDupKeys (startN ttl self startT).st.items :=
    AList.nodup_put _ AList.nodup_nil _ _
  have hv := hJ evs (fun _ h => h) (startN ttl self startT) hstartGood hstartNd (by simp [ViewInv, startN])
  change ViewInv live self (runEvsN ttl self startT evs) at hv
  unfold ViewInv at hv
  rw [hk] at hv
  cases hview : (runEvsN ttl self startT evs).view with
  | none => simp [hview] at hv
  | some v =>
    simp only [hview] at hv
    obtain ⟨s0, hg, hn, hks, hvs⟩ := hv
    rw [hvs, getPeers_of_keys live self s0 hg hn hks.symm]

/-! ## 4. the code's constants -/

/-- `PeerEntryTimeout` -/
abbrev codeTTL : Int := Gen.Peers.peerEntryTimeout
/-- longest gap between two refreshes of one node: `refreshCacheInterval` plus the jitter bound -/
abbrev codeGap : Int := Gen.Peers.refreshCacheInterval + Gen.Peers.refreshJitterBound
/-- largest delivery delay for which the theorems below are claimed: 6 s -/
abbrev maxDelay : Int := 6000000000

/-- **side condition** `refresh + jitter + d < TTL`, on the constants regenerated from the code,
for every delivery delay up to `maxDelay`.  (With `refreshCacheInterval` raised to 12 s this no
longer checks.) -/
theorem side_condition (d : Int) (hd : d ≤ maxDelay) : codeGap + d < codeTTL := by
  simp only [codeGap, codeTTL, maxDelay, Gen.Peers.refreshCacheInterval, Gen.Peers.refreshJitterBound,
    Gen.Peers.peerEntryTimeout] at *
  omega

/-- The refresh ticker of `Ready` — first tick one interval after the start, then one per interval,
interval = `refreshCacheInterval + rand.Int63n(jitter bound)` — publishes at least every
`codeGap`. -/
theorem ticker_publishes_every (P : Pubs) (n : Node) (S I : Int) (hI : 0 < I) (hI' : I ≤ codeGap)
    (hticker : Ticker P n S I) : PublishesEvery P n S codeGap := by
  intro τ hτ
  have hq : 0 ≤ (τ - S) / I := Int.ediv_nonneg (by omega) (by omega)
  have hr0 : 0 ≤ (τ - S) % I := Int.emod_nonneg _ (by omega)
  have hr1 : (τ - S) % I < I := Int.emod_lt_of_pos _ hI
  have hdiv : (τ - S) % I + I * ((τ - S) / I) = τ - S := Int.emod_add_mul_ediv _ _
  refine ⟨S + ((((τ - S) / I).toNat : Int) + 1) * I, ?_, ?_, hticker _⟩
  · rw [Int.toNat_of_nonneg hq, Int.add_mul, Int.mul_comm ((τ - S) / I) I]
    omega
  · rw [Int.toNat_of_nonneg hq, Int.add_mul, Int.mul_comm ((τ - S) / I) I]
    omega

/-! ### transient publish failures -/

/-- **publish_failure_does_not_change_period** — whatever `Publish` returned, the heartbeat keeps
its period. -/
theorem publish_failure_does_not_change_period (b : Beat) (published : Bool) :
    (b.step published).period = b.period := rfl

/-- … so after any sequence of successes and failures the period is the one drawn at the start and
the next tick is that many periods later: the attempts of a node started at `S` are at
`S + I`, `S + 2I`, … regardless of their outcomes. -/
theorem heartbeat_instants (b : Beat) (outcomes : List Bool) :
    (b.run outcomes).period = b.period ∧ (b.run outcomes).next = b.next + (outcomes.length : Int) * b.period := by
  induction outcomes generalizing b with
  | nil => simp [Beat.run]
  | cons o os ih =>
    have := ih (b.step o)
    simp only [Beat.run, List.foldl_cons] at this ⊢
    refine ⟨this.1, ?_⟩
    rw [this.2]
    simp only [Beat.step, List.length_cons, Int.natCast_succ, Int.add_mul]
    omega

/-- **publishes_every_after_failures** — a heartbeat with period `I ≤ G`, finitely many of whose
publishes failed, the last failure no later than `F`: from `F` on the node is on the record at
least every `G` ("publishes every ≤ G" — the hypothesis `converges` asks of a live node). -/
theorem publishes_every_after_failures (P : Pubs) (n : Node) (S I G F : Int) (ok : Nat → Bool)
    (hI : 0 < I) (hIG : I ≤ G) (hSF : S ≤ F)
    (hb : Heartbeat P n S I ok)
    (hfail : ∀ i : Nat, ok i = false → S + ((i : Int) + 1) * I ≤ F) :
    PublishesEvery P n F G := by
  intro τ hτ
  have hq : 0 ≤ (τ - S) / I := Int.ediv_nonneg (by omega) (by omega)
  have hr0 : 0 ≤ (τ - S) % I := Int.emod_nonneg _ (by omega)
  have hr1 : (τ - S) % I < I := Int.emod_lt_of_pos _ hI
  have hdiv : (τ - S) % I + I * ((τ - S) / I) = τ - S := Int.emod_add_mul_ediv _ _
  -- the first attempt strictly after τ
  have hs : S + ((((τ - S) / I).toNat : Int) + 1) * I = τ - (τ - S) % I + I := by
    rw [Int.toNat_of_nonneg hq, Int.add_mul, Int.mul_comm ((τ - S) / I) I]
    omega
  refine ⟨S + ((((τ - S) / I).toNat : Int) + 1) * I, by omega, by omega, ?_⟩
  apply hb
  cases hok : ok ((τ - S) / I).toNat with
  | true => rfl
  | false =>
    have := hfail _ hok
    omega

/-- **converges_after_publish_failures** — `converges` for clusters whose live nodes suffered
finitely many failed publishes: take `T0` no earlier than the last membership change *and* the
last failed publish; every live node runs a heartbeat with a period `≤ G` that failures do not
change.  After `T0 + d + ttl` every node up by `T0` lists exactly the live nodes. -/
theorem converges_after_publish_failures (ttl d G : Int) (P : Pubs) (live : List Node) (self : Node)
    (startT : Int) (evs : List Ev) (t T0 : Int)
    (hT : Timed d startT evs t) (hF : Fair P d startT evs t) (hstart : startT ≤ T0)
    (hlive : ∀ n ∈ live, comma ∉ n.id ∧ OnlyOwn P n ∧
      ∃ (S I : Int) (ok : Nat → Bool), 0 < I ∧ I ≤ G ∧ S ≤ T0 ∧ Heartbeat P n S I ok ∧
        ∀ i : Nat, ok i = false → S + ((i : Int) + 1) * I ≤ T0)
    (hdead : ∀ k, (∀ n ∈ live, n.id ≠ k) → Silent P k T0)
    (hside : G + d < ttl) (hd : 0 ≤ d)
    (ht : T0 + d + ttl < t) (k : Bytes) :
    lookup (stateAt ttl self startT evs t) k = liveAddr live k := by
  apply converges ttl d G P live self startT evs t T0 hT hF hstart _ hdead hside hd ht
  intro n hn
  obtain ⟨hcf, hown, S, I, ok, hI, hIG, hS, hb, hfail⟩ := hlive n hn
  exact ⟨hcf, publishes_every_after_failures P n S I G T0 ok hI hIG hS hb hfail, hown⟩

-- non-vacuity: a heartbeat of period 3 whose second and third publishes fail keeps its instants
example : (Beat.run ⟨3, 3⟩ [true, false, false, true]) = ⟨3, 15⟩ := by decide

/-- the interval `Ready` computes is positive and at most `codeGap` -/
theorem ticker_interval_ok (jitter : Int) (h0 : 0 ≤ jitter) (h1 : jitter < Gen.Peers.refreshJitterBound) :
    0 < Gen.Peers.refreshCacheInterval + jitter ∧ Gen.Peers.refreshCacheInterval + jitter ≤ codeGap := by
  simp only [codeGap, Gen.Peers.refreshCacheInterval, Gen.Peers.refreshJitterBound] at *
  omega

/-- **converges**, for the code's constants: `PeerEntryTimeout`, refresh tickers with the code's
interval and jitter, any delivery delay `d ≤ 6 s`. -/
theorem converges_code (d : Int) (P : Pubs) (live : List Node) (self : Node) (startT : Int)
    (evs : List Ev) (t T0 : Int) (hd : 0 ≤ d) (hdmax : d ≤ maxDelay)
    (hT : Timed d startT evs t) (hF : Fair P d startT evs t) (hstart : startT ≤ T0)
    (hlive : ∀ n ∈ live, comma ∉ n.id ∧ OnlyOwn P n ∧
      ∃ S jitter, S ≤ T0 ∧ 0 ≤ jitter ∧ jitter < Gen.Peers.refreshJitterBound ∧
        Ticker P n S (Gen.Peers.refreshCacheInterval + jitter))
    (hdead : ∀ k, (∀ n ∈ live, n.id ≠ k) → Silent P k T0)
    (ht : T0 + d + codeTTL < t) (k : Bytes) :
    lookup (stateAt codeTTL self startT evs t) k = liveAddr live k := by
  apply converges codeTTL d codeGap P live self startT evs t T0 hT hF hstart _ hdead
    (side_condition d hdmax) hd ht
  intro n hn
  obtain ⟨hcf, hown, S, jitter, hS, hj0, hj1, htick⟩ := hlive n hn
  refine ⟨hcf, ?_, hown⟩
  have hint := ticker_interval_ok jitter hj0 hj1
  have := ticker_publishes_every P n S _ hint.1 hint.2 htick
  intro τ hτ
  exact this τ (by omega)

/-- **converges within the peer entry timeout plus one refresh interval** (the property's own
bound): when deliveries take no longer than one refresh interval, every node up by `T0` lists
exactly the live nodes at every instant after `T0 + PeerEntryTimeout + refreshCacheInterval`. -/
theorem converges_within_timeout_plus_refresh (d : Int) (P : Pubs) (live : List Node) (self : Node)
    (startT : Int) (evs : List Ev) (t T0 : Int) (hd : 0 ≤ d) (hdr : d ≤ Gen.Peers.refreshCacheInterval)
    (hT : Timed d startT evs t) (hF : Fair P d startT evs t) (hstart : startT ≤ T0)
    (hlive : ∀ n ∈ live, comma ∉ n.id ∧ OnlyOwn P n ∧
      ∃ S jitter, S ≤ T0 ∧ 0 ≤ jitter ∧ jitter < Gen.Peers.refreshJitterBound ∧
        Ticker P n S (Gen.Peers.refreshCacheInterval + jitter))
    (hdead : ∀ k, (∀ n ∈ live, n.id ≠ k) → Silent P k T0)
    (ht : T0 + codeTTL + Gen.Peers.refreshCacheInterval < t) (k : Bytes) :
    lookup (stateAt codeTTL self startT evs t) k = liveAddr live k := by
  have h1 : d ≤ maxDelay := by
    simp only [maxDelay, Gen.Peers.refreshCacheInterval] at *; omega
  exact converges_code d P live self startT evs t T0 hd h1 hT hF hstart hlive hdead (by omega) k

/-! ## 5. addresses with commas -/

/-- **Full statement** of `live_persists` with no restriction on the address (the statement the
code before commit 7f6234c violated). -/
def LivePersistsAnyAddress : Prop :=
  ∀ (ttl d G : Int) (P : Pubs) (self : Node) (startT : Int) (evs : List Ev) (t S : Int) (n : Node),
    comma ∉ n.id →
    Timed d startT evs t → Fair P d startT evs t → PublishesEvery P n S G → OnlyOwn P n →
    G + d < ttl → S + G + d < t → startT + G + d < t →
    lookup (stateAt ttl self startT evs t) n.id = some n.addr

/-- **live_persists_any_address** — it holds: a live node is listed under its id with its exact
address whatever bytes the address contains. -/
theorem live_persists_any_address : LivePersistsAnyAddress :=
  fun ttl d G P self startT evs t S n hcf hT hF hpub hown hside h1 h2 =>
    live_persists ttl d G P self startT evs t S n hT hF hpub hown hcf hside h1 h2

/-- node `id1` at `http://a,b:8081` -/
def commaNode : Node := ⟨witnessId, witnessAddr⟩
/-- an observer, id `o` -/
def observer : Node := ⟨[111], [104]⟩
/-- the observer handles each of `commaNode`'s registers (published at 3, 6, 9) at once -/
def commaEvs : List Ev :=
  [.recv 3 3 (regMsg commaNode), .recv 6 6 (regMsg commaNode), .recv 9 9 (regMsg commaNode)]

/-- regression witness: at instant 12 (`ttl = 10`) the observer lists `id1` at `http://a,b:8081` -/
example : lookup (stateAt 10 observer 0 commaEvs 12) commaNode.id = some commaNode.addr := by decide
example : peersAt 10 observer 0 commaEvs 12 = [witnessAddr] := by decide

/-! ## 6. non-vacuity: concrete histories, evaluated by the kernel -/

/-- node `n1` at address `x`, node `n2` at address `y` -/
def n1 : Node := ⟨[110, 49], [120]⟩
def n2 : Node := ⟨[110, 50], [121]⟩

-- out of order: n2's unregister (published at 5) is handled *before* its register published at 4
def oooEvs : List Ev := [.recv 5 5 (unregMsg n2), .recv 4 6 (regMsg n2)]
example : Timed 2 0 oooEvs 16 := by delta oooEvs; simp [Timed, Ev.time, Ev.DelayOK]
-- … so n2 is listed again, until the late register's own expiry: still there at 6 + 10 = T0 + d + ttl …
example : peersAt 10 n1 0 oooEvs 16 = [[121]] := by decide
-- … and gone one tick later, as `stale_expires` (T0 = 4, d = 2, ttl = 10) says; n1 itself expired
-- too (it received none of its own refreshes), so `GetPeers` falls back to its own address
example : lookup (stateAt 10 n1 0 oooEvs 17) n2.id = none := by decide
example : peersAt 10 n1 0 oooEvs 17 = [[120]] := by decide
-- in order, the unregister removes the entry at once
example : peersAt 10 n1 0 [.recv 4 4 (regMsg n2), .recv 5 5 (unregMsg n2)] 6 = [[120]] := by decide
-- a refreshed entry persists, ids in byte order
example : peersAt 10 n2 0 [.recv 3 3 (regMsg n1), .recv 3 4 (regMsg n2), .query 9, .recv 9 9 (regMsg n1), .recv 9 10 (regMsg n2)] 19
    = [[120], [121]] := by decide
-- change notification: n2 registered at 1 and then went silent.  At 20 its entry has expired and a
-- `GetPeers` call has cleaned it up, but no message has been handled since: the callback's view
-- still shows n2 …
example : (runEvsN 10 n1 0 [.recv 1 1 (regMsg n2), .query 20]).view = some [[120], [121]] := by decide
-- … until the next handled message (here n1's own refresh coming back) runs `checkHash`
example : (runEvsN 10 n1 0 [.recv 1 1 (regMsg n2), .query 20, .recv 21 21 (regMsg n1)]).view = some [[120]] := by
  decide
-- messages that do not unmarshal are ignored
example : peersAt 10 n1 0 [.recv 1 1 [82, 120]] 5 = [[120]] := by decide

end Refinery.Props.C18
