import Refinery.Lemmas.Metrics
/-!
# C33 — the metrics store reports what was recorded

Statement (properties.jsonl): values read back from Refinery's metrics store equal what was
recorded: a counter equals the sum of its increments since start and never decreases, a gauge
equals its last value and an up-down counter equals ups minus downs, however many times and in
whatever order components register the metric.

Every theorem quantifies over an arbitrary history `ops : List (Op κ)` of `Register`, `Increment`,
`Count`, `Gauge`, `Histogram`, `Up`, `Down`, `Store`, `Get` calls on arbitrary names — i.e. over
every linearisation of concurrent callers, each call being one atomic operation on one
`sync.Map` entry (`conc_order_independent` adds that the adds commute, so the totals at
quiescence do not depend on the linearisation).

`run false` (`runCode`) is `metrics/multi_metrics.go` as it is; `run true` (`runFixed`) is the
same code with `Register` keeping an existing entry (`LoadOrStore`).  The full-strength
statements `CounterSum`, `CounterMonotone`, `GaugeLast`, `UpdownDiff`, `RegisterIdempotent` are
**refuted for the code as it is** (`*_refuted`, witnesses of three calls), proved for the repaired
`Register` (`*_fixed`), and proved for the code under the exact side condition (`*_partial`);
`*_since_last_register` say what the code reports instead: the value recorded since the most
recent `Register` of that name.  `store_last`, `unregistered_counter_sum` and
`conc_order_independent` hold for the code unconditionally.

Reading conventions: the hypotheses `lastReg k ops = some ty` ("`k` is currently registered with
type `ty`") and `slast k ops = none` ("no constant was `Store`d under the same name") fix which
map `Get` consults; without them `Get` legitimately answers from another map.
-/
set_option linter.unusedSectionVars false

namespace Refinery.Props.C33
open Refinery Refinery.Model.Metrics Refinery.Lemmas.Metrics

/-- what `Get` reports for a counter whose increments and counts sum to `t`: the `uint64` the sum
wraps to, converted to `float64`.  For `0 ≤ t < 2^53` this is `t` itself (`counterReading_exact`). -/
def counterReading (t : Int) : Int := (f64OfNat (t % (u64 : Int)).toNat : Int)

theorem counterReading_exact (t : Int) (h0 : 0 ≤ t) (h1 : t < (f64Exact : Int)) : counterReading t = t := by
  unfold counterReading
  have e : (t % (u64 : Int)).toNat = t.toNat := by
    simp only [u64, f64Exact] at h1 ⊢; omega
  rw [e, f64OfNat_exact _ (by simp only [f64Exact] at h1 ⊢; omega)]
  omega

/-! ## counter_sum -/

/-- **counter_sum (full statement).**  After any history, `Get` of a name currently registered
as a counter reports the sum of all its increments and counts since start. -/
def CounterSum (keep : Bool) : Prop :=
  ∀ (κ : Type) [DecidableEq κ] (ops : List (Op κ)) (k : κ),
    lastReg k ops = some .counter → slast k ops = none →
    get (run keep ops) k = some (counterReading (csum k ops))

/-- `counter_sum` holds, for every history, once `Register` keeps an existing entry. -/
theorem counter_sum_fixed : CounterSum true := by
  intro κ _ ops k hreg hst
  rw [get_run]
  have hty := (ty_run true k ops).trans hreg
  have hs := (s_run true k ops).trans hst
  have hc := c_foldl true k ops {} (fun b hb => by cases hb) (Or.inl rfl)
  rw [any_ctouch_of_registers k ops (lastReg_registers k ops _ hreg)] at hc
  rw [vget_counter _ hs hty, hc]
  simp [cval, counterReading]

/-- **counter_sum is refuted on the code as it is**: `register c; increment c; register c; get c`
answers 0, not 1 (reproduced on the real `MultiMetrics`, corpus/C33/reregister.ops). -/
theorem counter_sum_refuted : ¬ CounterSum false := by
  intro h
  have := h Nat [.register 0 .counter, .increment 0, .register 0 .counter] 0 (by decide) (by decide)
  revert this
  decide

/-- What the code reports for a counter: the sum of the increments and counts **since the most
recent `Register` of that name** (`post` contains no `Register(k, _)`). -/
theorem counter_since_last_register {κ : Type} [DecidableEq κ] (pre post : List (Op κ)) (k : κ)
    (hno : NoReg k post) (hst : slast k (pre ++ Op.register k .counter :: post) = none) :
    get (runCode (pre ++ Op.register k .counter :: post)) k = some (counterReading (csum k post)) := by
  rw [get_run]
  have hty := (ty_run false k _).trans (lastReg_append_register k pre post .counter hno)
  have hs := (s_run false k _).trans hst
  rw [vget_counter _ hs hty, view_after_register]
  have hw : (vstep false k (pre.foldl (vstep false k) {}) (.register k .counter)).c = some 0 := by
    simp [vstep, initV_false]
  rw [c_foldl false k post _ (fun b hb => by rw [hw] at hb; cases hb; decide) (Or.inr (hno .counter)), hw]
  simp [cval, counterReading]

/-- **counter_sum_partial.**  The code satisfies `counter_sum` when nothing (net) was
recorded before the last registration of the name — e.g. every component registers before first use and
nothing is ever registered again. -/
theorem counter_sum_partial {κ : Type} [DecidableEq κ] (pre post : List (Op κ)) (k : κ)
    (hpre : csum k pre = 0) (hno : NoReg k post)
    (hst : slast k (pre ++ Op.register k .counter :: post) = none) :
    get (runCode (pre ++ Op.register k .counter :: post)) k =
      some (counterReading (csum k (pre ++ Op.register k .counter :: post))) := by
  rw [counter_since_last_register pre post k hno hst, csum_append, csum_cons, hpre]
  simp [cplain]

/-- In the property's own words: while the sum stays in `[0, 2^53)` the reading *is* the sum. -/
theorem counter_sum_exact {κ : Type} [DecidableEq κ] (ops : List (Op κ)) (k : κ)
    (hreg : lastReg k ops = some .counter) (hst : slast k ops = none)
    (h0 : 0 ≤ csum k ops) (h1 : csum k ops < (f64Exact : Int)) :
    get (runFixed ops) k = some (csum k ops) := by
  rw [counter_sum_fixed κ ops k hreg hst, counterReading_exact _ h0 h1]

/-- A name that was never registered but used as a counter reads the sum of its increments —
on the code as it is (no `Register`, no reset). -/
theorem unregistered_counter_sum {κ : Type} [DecidableEq κ] (keep : Bool) (ops : List (Op κ)) (k : κ)
    (hno : NoReg k ops) (hst : slast k ops = none) (ht : ops.any (ctouch k) = true) :
    get (run keep ops) k = some (counterReading (csum k ops)) := by
  rw [get_run]
  have hty : (ops.foldl (vstep keep k) {}).ty = none := by
    rw [ty_foldl', rfold_noReg _ _ _ hno]
  have hs := (s_run keep k ops).trans hst
  have hc := c_foldl keep k ops {} (fun b hb => by cases hb) (Or.inr (hno .counter))
  rw [ht] at hc
  unfold vget
  rw [hs, hty, hc]
  simp [cval, counterReading]

/-! ## counter_monotone -/

/-- **counter_monotone (full statement).**  Whatever calls `more` follow a history — as long as
they add non-negative amounts, the name stays a counter and the sum stays below 2^53 (no `uint64`
wrap, no float rounding) — a later reading is never smaller than an earlier one. -/
def CounterMonotone (keep : Bool) : Prop :=
  ∀ (κ : Type) [DecidableEq κ] (ops more : List (Op κ)) (k : κ) (a b : Int),
    lastReg k ops = some .counter → lastReg k (ops ++ more) = some .counter →
    slast k (ops ++ more) = none →
    (∀ op ∈ more, 0 ≤ cplain k op) → 0 ≤ csum k ops → csum k (ops ++ more) < (f64Exact : Int) →
    get (run keep ops) k = some a → get (run keep (ops ++ more)) k = some b → a ≤ b

theorem counter_monotone_fixed : CounterMonotone true := by
  intro κ _ ops more k a b hr1 hr2 hst hnn h0 h1 ha hb
  have hm := csum_nonneg k more hnn
  have hst1 := slast_append_none k ops more hst
  rw [csum_append] at h1
  rw [counter_sum_exact ops k hr1 hst1 h0 (by omega)] at ha
  rw [counter_sum_exact (ops ++ more) k hr2 hst (by rw [csum_append]; omega) (by rw [csum_append]; omega),
    csum_append] at hb
  cases ha; cases hb; omega

/-- **counter_monotone is refuted on the code as it is**: the reading goes 1 → 0 across
`Register` of the same counter. -/
theorem counter_monotone_refuted : ¬ CounterMonotone false := by
  intro h
  have := h Nat [.register 0 .counter, .increment 0] [.register 0 .counter] 0 1 0
    (by decide) (by decide) (by decide) (by decide) (by decide) (by decide) (by decide) (by decide)
  revert this
  decide

/-- **counter_monotone_partial.**  On the code as it is, readings are monotone between two
registrations of the name (no `Register(k, _)` in `post` and `more`). -/
theorem counter_monotone_partial {κ : Type} [DecidableEq κ] (pre post more : List (Op κ)) (k : κ) (a b : Int)
    (hno1 : NoReg k post) (hno2 : NoReg k more)
    (hst : slast k (pre ++ Op.register k .counter :: (post ++ more)) = none)
    (hnn : ∀ op ∈ more, 0 ≤ cplain k op) (h0 : 0 ≤ csum k post)
    (h1 : csum k (post ++ more) < (f64Exact : Int))
    (ha : get (runCode (pre ++ Op.register k .counter :: post)) k = some a)
    (hb : get (runCode (pre ++ Op.register k .counter :: (post ++ more))) k = some b) : a ≤ b := by
  have hm := csum_nonneg k more hnn
  have hst1 : slast k (pre ++ Op.register k .counter :: post) = none := by
    apply slast_append_none k _ more
    simpa using hst
  rw [csum_append] at h1
  rw [counter_since_last_register pre post k hno1 hst1, counterReading_exact _ h0 (by omega)] at ha
  rw [counter_since_last_register pre (post ++ more) k (noReg_append hno1 hno2) hst,
    counterReading_exact _ (by rw [csum_append]; omega) (by rw [csum_append]; omega), csum_append] at hb
  cases ha; cases hb; omega

/-! ## gauge_last -/

/-- **gauge_last (full statement).**  `Get` of a name currently registered as a gauge reports the
value of the most recent `Gauge` call (0 if there was none). -/
def GaugeLast (keep : Bool) : Prop :=
  ∀ (κ : Type) [DecidableEq κ] (ops : List (Op κ)) (k : κ),
    lastReg k ops = some .gauge → slast k ops = none →
    get (run keep ops) k = some (glast k ops)

theorem gauge_last_fixed : GaugeLast true := by
  intro κ _ ops k hreg hst
  rw [get_run]
  have hty := (ty_run true k ops).trans hreg
  have hs := (s_run true k ops).trans hst
  have hg := g_foldl true k ops {} (Or.inl rfl)
  rw [any_gtouch_of_registers k ops (lastReg_registers k ops _ hreg)] at hg
  rw [vget_gauge _ hs hty, hg, glast_eq]
  simp [gval]

/-- **gauge_last is refuted on the code as it is**: `gauge g 5; register g; get g` answers 0. -/
theorem gauge_last_refuted : ¬ GaugeLast false := by
  intro h
  have := h Nat [.gauge 0 5, .register 0 .gauge] 0 (by decide) (by decide)
  revert this
  decide

/-- What the code reports for a gauge: the last value set **since the most recent `Register`**
(0 if none). -/
theorem gauge_since_last_register {κ : Type} [DecidableEq κ] (pre post : List (Op κ)) (k : κ)
    (hno : NoReg k post) (hst : slast k (pre ++ Op.register k .gauge :: post) = none) :
    get (runCode (pre ++ Op.register k .gauge :: post)) k = some (glast k post) := by
  rw [get_run]
  have hty := (ty_run false k _).trans (lastReg_append_register k pre post .gauge hno)
  have hs := (s_run false k _).trans hst
  rw [vget_gauge _ hs hty, view_after_register]
  have hw : (vstep false k (pre.foldl (vstep false k) {}) (.register k .gauge)).g = some 0 := by
    simp [vstep, initV_false]
  rw [g_foldl false k post _ (Or.inr (hno .gauge)), hw, glast_eq]
  simp [gval]

/-- **gauge_last_partial.**  The code satisfies `gauge_last` when the gauge read 0 at its last
registration or was set again after it. -/
theorem gauge_last_partial {κ : Type} [DecidableEq κ] (pre post : List (Op κ)) (k : κ)
    (hpre : glast k pre = 0 ∨ ∃ x, Op.gauge k x ∈ post) (hno : NoReg k post)
    (hst : slast k (pre ++ Op.register k .gauge :: post) = none) :
    get (runCode (pre ++ Op.register k .gauge :: post)) k =
      some (glast k (pre ++ Op.register k .gauge :: post)) := by
  rw [gauge_since_last_register pre post k hno hst, glast_append, List.foldl_cons, glast_eq]
  congr 1
  rcases hpre with h | h
  · rw [h]; rfl
  · exact gfold_overwritten k post _ _ h

/-! ## updown_diff -/

/-- **updown_diff (full statement).**  `Get` of a name currently registered as an up-down counter
reports ups minus downs since start. -/
def UpdownDiff (keep : Bool) : Prop :=
  ∀ (κ : Type) [DecidableEq κ] (ops : List (Op κ)) (k : κ),
    lastReg k ops = some .updown → slast k ops = none →
    get (run keep ops) k = some (f64OfInt (udiff k ops))

theorem updown_diff_fixed : UpdownDiff true := by
  intro κ _ ops k hreg hst
  rw [get_run]
  have hty := (ty_run true k ops).trans hreg
  have hs := (s_run true k ops).trans hst
  have hu := u_foldl true k ops {} (Or.inl rfl)
  rw [any_utouch_of_registers k ops (lastReg_registers k ops _ hreg)] at hu
  rw [vget_updown _ hs hty, hu]
  simp [uval]

/-- **updown_diff is refuted on the code as it is**: `register u; up u; register u; get u`
answers 0, not 1. -/
theorem updown_diff_refuted : ¬ UpdownDiff false := by
  intro h
  have := h Nat [.register 0 .updown, .up 0, .register 0 .updown] 0 (by decide) (by decide)
  revert this
  decide

/-- What the code reports for an up-down counter: ups minus downs **since the most recent
`Register`**. -/
theorem updown_since_last_register {κ : Type} [DecidableEq κ] (pre post : List (Op κ)) (k : κ)
    (hno : NoReg k post) (hst : slast k (pre ++ Op.register k .updown :: post) = none) :
    get (runCode (pre ++ Op.register k .updown :: post)) k = some (f64OfInt (udiff k post)) := by
  rw [get_run]
  have hty := (ty_run false k _).trans (lastReg_append_register k pre post .updown hno)
  have hs := (s_run false k _).trans hst
  rw [vget_updown _ hs hty, view_after_register]
  have hw : (vstep false k (pre.foldl (vstep false k) {}) (.register k .updown)).u = some 0 := by
    simp [vstep, initV_false]
  rw [u_foldl false k post _ (Or.inr (hno .updown)), hw]
  simp [uval]

/-- **updown_diff_partial.**  The code satisfies `updown_diff` when ups and downs balanced before
the last registration. -/
theorem updown_diff_partial {κ : Type} [DecidableEq κ] (pre post : List (Op κ)) (k : κ)
    (hpre : udiff k pre = 0) (hno : NoReg k post)
    (hst : slast k (pre ++ Op.register k .updown :: post) = none) :
    get (runCode (pre ++ Op.register k .updown :: post)) k =
      some (f64OfInt (udiff k (pre ++ Op.register k .updown :: post))) := by
  rw [updown_since_last_register pre post k hno hst, udiff_append, udiff_cons, hpre]
  simp [uplain]

/-! ## store_last -/

/-- **store_last.**  On the code as it is (and with the repair): once a constant has been
`Store`d under a name, `Get` reports the most recently stored value, whatever else happened. -/
theorem store_last {κ : Type} [DecidableEq κ] (keep : Bool) (ops : List (Op κ)) (k : κ) (v : Int)
    (h : slast k ops = some v) : get (run keep ops) k = some v := by
  rw [get_run]
  exact vget_store _ v ((s_run keep k ops).trans h)

/-! ## register_idempotent -/

/-- **register_idempotent (full statement).**  Registering a name again with the type it already
has changes no value `Get` reports, for any name. -/
def RegisterIdempotent (keep : Bool) : Prop :=
  ∀ (κ : Type) [DecidableEq κ] (ops : List (Op κ)) (k : κ) (ty : MType) (q : κ),
    lastReg k ops = some ty →
    get (run keep (ops ++ [.register k ty])) q = get (run keep ops) q

theorem register_idempotent_fixed : RegisterIdempotent true := by
  intro κ _ ops k ty q hreg
  rw [get_run, get_run, List.foldl_append, List.foldl_cons, List.foldl_nil]
  by_cases hq : k = q
  · subst hq
    congr 1
    have hr := lastReg_registers k ops _ hreg
    refine vstep_register_same_fixed k _ ty ((ty_run true k ops).trans hreg) ?_
    cases ty with
    | counter =>
      have hc := c_foldl true k ops {} (fun b hb => by cases hb) (Or.inl rfl)
      rw [any_ctouch_of_registers k ops hr] at hc
      simp [hasEntry, hc, cval]
    | gauge =>
      have hg := g_foldl true k ops {} (Or.inl rfl)
      rw [any_gtouch_of_registers k ops hr] at hg
      simp [hasEntry, hg, gval]
    | updown =>
      have hu := u_foldl true k ops {} (Or.inl rfl)
      rw [any_utouch_of_registers k ops hr] at hu
      simp [hasEntry, hu, uval]
    | histogram => rfl
  · congr 1
    cases ty <;> simp [vstep, hq]

/-- **register_idempotent is refuted on the code as it is** (same witness as `counter_sum`). -/
theorem register_idempotent_refuted : ¬ RegisterIdempotent false := by
  intro h
  have := h Nat [.register 0 .counter, .increment 0] 0 .counter 0 (by decide)
  revert this
  decide

/-- **register_idempotent_partial.**  On the code as it is, registering a name again with the
same type changes no reading exactly when that name currently reads 0 (or is a histogram, which
the store does not keep). -/
theorem register_idempotent_partial {κ : Type} [DecidableEq κ] (ops : List (Op κ)) (k : κ) (ty : MType) (q : κ)
    (hreg : lastReg k ops = some ty) (hst : slast k ops = none)
    (hz : get (runCode ops) k = some 0 ∨ ty = .histogram) :
    get (runCode (ops ++ [.register k ty])) q = get (runCode ops) q := by
  rw [get_run, get_run, List.foldl_append, List.foldl_cons, List.foldl_nil]
  by_cases hq : k = q
  · subst hq
    congr 1
    rw [get_run] at hz
    have hty := (ty_run false k ops).trans hreg
    have hs := (s_run false k ops).trans hst
    generalize ops.foldl (vstep false k) {} = v at hz hty hs
    obtain ⟨t, c, g, u, s⟩ := v
    simp only at hty hs
    subst hty hs
    cases ty with
    | counter =>
      rcases hz with hz | hz
      · cases c with
        | none => simp [vget] at hz
        | some c0 =>
          simp [vget] at hz
          have := f64OfNat_eq_zero c0 (by omega)
          subst this
          simp [vstep, initV]
      · cases hz
    | gauge =>
      rcases hz with hz | hz
      · cases g with
        | none => simp [vget] at hz
        | some g0 =>
          simp [vget] at hz
          subst hz
          simp [vstep, initV]
      · cases hz
    | updown =>
      rcases hz with hz | hz
      · cases u with
        | none => simp [vget] at hz
        | some u0 =>
          simp [vget] at hz
          have := f64OfInt_eq_zero u0 hz
          subst this
          simp [vstep, initV]
      · cases hz
    | histogram => simp [vstep]
  · congr 1
    cases ty <;> simp [vstep, hq]

/-! ## concurrency -/

/-- **conc_order_independent.**  Goroutines that only `Increment`/`Count`/`Up`/`Down` may be
linearised in any order: from any state, two permutations of the same multiset of calls leave
every `Get` with the same answer (this is what the harness' concurrent mode compares at
quiescence). -/
theorem conc_order_independent {κ : Type} [DecidableEq κ] (keep : Bool) (s : St κ) (l₁ l₂ : List (Op κ))
    (hp : l₁.Perm l₂) (hadd : ∀ op ∈ l₁, op.isAdd = true) (q : κ) :
    get (runFrom keep s l₁) q = get (runFrom keep s l₂) q := by
  rw [get_eq_vget, get_eq_vget, view_runFrom, view_runFrom]
  rw [foldl_perm_of_comm (vstep keep q) (fun op => op.isAdd = true)
    (fun b x y hx hy => vstep_comm keep q b x y hx hy) hp hadd]

/-! Non-vacuity: concrete histories evaluated by the kernel (names are `Nat` here). -/
example : get (runCode [.register 0 .counter, .increment 0, .count 0 41, .get 0]) (0 : Nat) = some 42 := by decide
example : get (runCode [.register 0 .counter, .increment 0, .register 0 .counter]) (0 : Nat) = some 0 := by decide
example : get (runFixed [.register 0 .counter, .increment 0, .register 0 .counter]) (0 : Nat) = some 1 := by decide
example : get (runCode [.increment 7, .increment 7, .gauge 7 3]) (7 : Nat) = some 2 := by decide
example : get (runCode [.register 1 .gauge, .gauge 1 5, .gauge 1 (-9)]) (1 : Nat) = some (-9) := by decide
example : get (runCode [.register 2 .updown, .up 2, .up 2, .down 2]) (2 : Nat) = some 1 := by decide
example : get (runCode [.register 2 .updown, .store 2 77, .up 2]) (2 : Nat) = some 77 := by decide
example : get (runCode [.register 3 .histogram, .histogram 3 5]) (3 : Nat) = none := by decide
example : get (runCode [.count 0 (-1)]) (0 : Nat) = some 18446744073709551616 := by decide
example : get (runCode [.count 0 9007199254740993]) (0 : Nat) = some 9007199254740992 := by decide
example : get (runCode [.count 0 9007199254740995]) (0 : Nat) = some 9007199254740996 := by decide
example : csum (0 : Nat) [.register 0 .counter, .increment 0, .count 0 41, .increment 1] = 42 := by decide

/-! ## concurrent first registration -/

/-- with `Register` keeping an existing entry, a registration commutes with every atomic add -/
theorem vstep_reg_add_comm {κ : Type} [DecidableEq κ] (q k : κ) (ty : MType) (v : View) (x : Op κ)
    (hx : x.isAdd = true) :
    vstep true q (vstep true q v (.register k ty)) x =
      vstep true q (vstep true q v x) (.register k ty) := by
  obtain ⟨n, hx⟩ := add_form true q x hx
  obtain ⟨t, c, g, u, s⟩ := v
  rcases hx with ⟨d, hx⟩ | ⟨d, hx⟩ <;> simp only [hx] <;>
    by_cases hk : k = q <;> by_cases hn : n = q <;> cases ty <;> cases c <;> cases u <;>
    simp [vstep, cadd, uadd, initV, orZero, hk, hn]

/-- **concurrent_first_registration_totals.**  Goroutines that each `Register(k, ty)` and then
`Increment`/`Count`/`Up`/`Down` (on any names) may be interleaved in any way: two interleavings
(permutations of the same multiset of atomic steps) leave every `Get` with the same answer — so a
counter first registered by `g` goroutines that make `n` increments each reads `g·n`.  This needs
`Register` to be one atomic `LoadOrStore`; a `Load` followed by `Store` is two steps and is not
covered (it loses updates). -/
theorem concurrent_first_registration_totals {κ : Type} [DecidableEq κ] (s : St κ) (k : κ) (ty : MType)
    (l₁ l₂ : List (Op κ)) (hp : l₁.Perm l₂)
    (h : ∀ op ∈ l₁, op.isAdd = true ∨ op = Op.register k ty) (q : κ) :
    get (runFrom true s l₁) q = get (runFrom true s l₂) q := by
  rw [get_eq_vget, get_eq_vget, view_runFrom, view_runFrom]
  rw [foldl_perm_of_comm (vstep true q) (fun op => op.isAdd = true ∨ op = Op.register k ty) ?_ hp h]
  intro b x y hx hy
  rcases hx with hx | hx <;> rcases hy with hy | hy
  · exact vstep_comm true q b x y hx hy
  · subst hy; exact (vstep_reg_add_comm q k ty b x hx).symm
  · subst hx; exact vstep_reg_add_comm q k ty b y hy
  · subst hx; subst hy; rfl

example : get (runFixed [.register 0 .counter, .increment 0, .increment 0, .register 0 .counter, .increment 0, .increment 0]) (0 : Nat) = some 4 := by decide
example : get (runFixed [.register 0 .counter, .register 0 .counter, .increment 0, .increment 0, .increment 0, .increment 0]) (0 : Nat) = some 4 := by decide
example : get (runFixed [.register 0 .counter, .increment 0, .register 0 .counter, .increment 0, .increment 0, .increment 0]) (0 : Nat) = some 4 := by decide

end Refinery.Props.C33
