import Refinery.Model.EventTime
/-!
# C22 — event timestamps are preserved exactly

The instant forwarded for an event is exactly the instant the client supplied: for an integer Unix
epoch whose first ten digits are seconds and whose remaining digits are a fraction of a second
(seconds / milliseconds / microseconds / nanoseconds and every length in between), and for msgpack
timestamps (re-encoded on the way out).  RFC 3339 parsing is Go's `time.Parse` (trusted, checked
only by the correspondence run).
-/
namespace Refinery.Props.C22
open Refinery.Model.EventTime

theorem numeral_foldl (ds : List Nat) (a : Nat) :
    ds.foldl (fun acc d => acc * 10 + d) a = a * 10 ^ ds.length + numeral ds := by
  induction ds generalizing a with
  | nil => simp [numeral]
  | cons d t ih =>
    simp only [List.foldl_cons, List.length_cons, numeral]
    rw [ih (a * 10 + d), ih (0 * 10 + d)]
    simp [Nat.pow_succ, Nat.add_mul, Nat.mul_assoc, Nat.mul_comm 10, Nat.add_assoc]

theorem numeral_append (a b : List Nat) :
    numeral (a ++ b) = numeral a * 10 ^ b.length + numeral b := by
  unfold numeral
  rw [List.foldl_append, numeral_foldl]
  rfl

theorem numeral_lt (ds : List Nat) (h : ∀ d ∈ ds, d < 10) : numeral ds < 10 ^ ds.length := by
  induction ds with
  | nil => simp [numeral]
  | cons d t ih =>
    have hd : d < 10 := h d (by simp)
    have ht := ih (fun x hx => h x (by simp [hx]))
    have e : numeral (d :: t) = d * 10 ^ t.length + numeral t := by
      have := numeral_append [d] t
      simpa [numeral] using this
    rw [e, List.length_cons, Nat.pow_succ]
    have hp : 0 < 10 ^ t.length := Nat.pow_pos (by omega)
    calc d * 10 ^ t.length + numeral t < d * 10 ^ t.length + 10 ^ t.length := by omega
      _ = (d + 1) * 10 ^ t.length := by rw [Nat.add_mul]; omega
      _ ≤ 10 * 10 ^ t.length := Nat.mul_le_mul_right _ (by omega)
      _ = 10 ^ t.length * 10 := Nat.mul_comm _ _

/-- **epoch_exact** — for every digit string of length 10…19 the parsed instant is *exactly* the
number the client wrote, read as seconds followed by a decimal fraction: in nanoseconds,
`sec·10⁹ + nsec = numeral · 10^(19 − length)`, and `nsec` is a proper sub-second part. -/
theorem epoch_exact (ds : List Nat) (hd : ∀ d ∈ ds, d < 10) (h10 : 10 ≤ ds.length)
    (h19 : ds.length ≤ 19) :
    ∃ sec nsec, parseEpochDigits ds = some (sec, nsec) ∧ nsec < 10 ^ 9 ∧
      sec * 10 ^ 9 + nsec = numeral ds * 10 ^ (19 - ds.length) := by
  have hsplit : ds = ds.take 10 ++ ds.drop 10 := (List.take_append_drop 10 ds).symm
  have hlen_drop : (ds.drop 10).length = ds.length - 10 := List.length_drop
  have htake9 : (ds.drop 10).take 9 = ds.drop 10 := List.take_of_length_le (by omega)
  refine ⟨numeral (ds.take 10), numeral (ds.drop 10) * 10 ^ (9 - (ds.drop 10).length), ?_, ?_, ?_⟩
  · unfold parseEpochDigits
    rw [if_neg (by omega)]
    simp only [htake9]
  · have hlt := numeral_lt (ds.drop 10) (fun d hd' => hd d (List.mem_of_mem_drop hd'))
    have hle : (ds.drop 10).length ≤ 9 := by omega
    calc numeral (ds.drop 10) * 10 ^ (9 - (ds.drop 10).length)
        < 10 ^ (ds.drop 10).length * 10 ^ (9 - (ds.drop 10).length) :=
          Nat.mul_lt_mul_of_pos_right hlt (Nat.pow_pos (by omega))
      _ = 10 ^ 9 := by rw [← Nat.pow_add]; congr 1; omega
  · have hnum : numeral ds = numeral (ds.take 10) * 10 ^ (ds.length - 10) + numeral (ds.drop 10) := by
      have := numeral_append (ds.take 10) (ds.drop 10)
      rw [List.take_append_drop, hlen_drop] at this
      exact this
    rw [hnum, hlen_drop]
    have e1 : 9 - (ds.length - 10) = 19 - ds.length := by omega
    rw [e1, Nat.add_mul, Nat.mul_assoc, ← Nat.pow_add]
    have e2 : ds.length - 10 + (19 - ds.length) = 9 := by omega
    rw [e2]

/-- The four lengths the property names. -/
theorem epoch_seconds (ds : List Nat) (hd : ∀ d ∈ ds, d < 10) (h : ds.length = 10) :
    parseEpochDigits ds = some (numeral ds, 0) := by
  unfold parseEpochDigits
  rw [if_neg (by omega)]
  have h1 : ds.take 10 = ds := List.take_of_length_le (by omega)
  have h2 : ds.drop 10 = [] := List.drop_eq_nil_of_le (by omega)
  simp [h1, h2, numeral]

/-! ## msgpack timestamps -/

theorem ofBE_foldl (bs : List Nat) (a : Nat) :
    bs.foldl (fun acc b => acc * 256 + b) a = a * 256 ^ bs.length + ofBE bs := by
  induction bs generalizing a with
  | nil => simp [ofBE]
  | cons d t ih =>
    simp only [List.foldl_cons, List.length_cons, ofBE]
    rw [ih (a * 256 + d), ih (0 * 256 + d)]
    simp [Nat.pow_succ, Nat.add_mul, Nat.mul_assoc, Nat.mul_comm 256, Nat.add_assoc]

theorem ofBE_append (a b : List Nat) : ofBE (a ++ b) = ofBE a * 256 ^ b.length + ofBE b := by
  unfold ofBE
  rw [List.foldl_append, ofBE_foldl]
  rfl

@[simp] theorem length_beBytes (n k : Nat) : (beBytes n k).length = n := by
  induction n generalizing k with
  | zero => simp [beBytes]
  | succ n ih => simp [beBytes, ih]

theorem ofBE_beBytes (n k : Nat) (h : k < 256 ^ n) : ofBE (beBytes n k) = k := by
  induction n generalizing k with
  | zero => simp [beBytes, ofBE] at *; omega
  | succ n ih =>
    simp only [beBytes]
    rw [ofBE_append, ih (k / 256) (by rw [Nat.pow_succ] at h; omega)]
    simp [ofBE]
    omega

/-- **ext_roundtrip** — every instant from the epoch to year 2262+ (`sec < 2⁶³`, `nsec < 10⁹`)
survives encoding as a msgpack timestamp and decoding, whichever of the three wire forms is used. -/
theorem ext_roundtrip (sec nsec : Nat) (hn : nsec < 10 ^ 9) (hs : sec < 2 ^ 63) :
    decodeTs (encodeTs sec nsec) = some (sec, nsec) := by
  unfold encodeTs
  split
  · rename_i h
    obtain ⟨h0, _, hle⟩ := h
    simp only [List.cons_append, List.nil_append, decodeTs, length_beBytes, if_true]
    rw [ofBE_beBytes 4 sec (by omega)]
    simp [h0]
  · split
    · rename_i _ h
      simp only [List.cons_append, List.nil_append, decodeTs, List.length_append, length_beBytes,
        if_true]
      have ht : (beBytes 4 nsec ++ beBytes 8 sec).take 4 = beBytes 4 nsec := by
        rw [List.take_append_of_le_length (by simp)]
        exact List.take_of_length_le (by simp)
      have hdr : (beBytes 4 nsec ++ beBytes 8 sec).drop 4 = beBytes 8 sec := by
        rw [List.drop_append_of_le_length (by simp)]
        simp [List.drop_eq_nil_of_le]
      rw [ht, hdr, ofBE_beBytes 4 nsec (by omega), ofBE_beBytes 8 sec (by omega)]
      rw [if_neg (by omega), if_neg (by omega)]
    · rename_i _ h
      have hs34 : sec < 2 ^ 34 := by omega
      simp only [List.cons_append, List.nil_append, decodeTs, length_beBytes, if_true]
      rw [ofBE_beBytes 8 _ (by omega)]
      have hdiv : (sec + nsec * 2 ^ 34) / 2 ^ 34 = nsec := by
        rw [Nat.add_mul_div_right _ _ (by omega), Nat.div_eq_of_lt hs34]; omega
      have hmod : (sec + nsec * 2 ^ 34) % 2 ^ 34 = sec := by
        rw [Nat.add_mul_mod_self_right, Nat.mod_eq_of_lt hs34]
      simp only [hdiv, hmod]
      rw [if_neg (by omega)]

/-- Composition: an epoch string is forwarded as exactly the instant it denotes — parse, then the
outgoing msgpack timestamp, then what the receiver decodes. -/
theorem epoch_forwarded_exact (ds : List Nat) (hd : ∀ d ∈ ds, d < 10) (h10 : 10 ≤ ds.length)
    (h19 : ds.length ≤ 19) :
    ∃ sec nsec, parseEpochDigits ds = some (sec, nsec) ∧
      decodeTs (encodeTs sec nsec) = some (sec, nsec) ∧
      sec * 10 ^ 9 + nsec = numeral ds * 10 ^ (19 - ds.length) := by
  obtain ⟨sec, nsec, hp, hn, he⟩ := epoch_exact ds hd h10 h19
  refine ⟨sec, nsec, hp, ext_roundtrip sec nsec hn ?_, he⟩
  have hsec : sec = numeral (ds.take 10) := by
    unfold parseEpochDigits at hp
    rw [if_neg (by omega)] at hp
    simp at hp; exact hp.1.symm
  have := numeral_lt (ds.take 10) (fun d hd' => hd d (List.mem_of_mem_take hd'))
  have hl : (ds.take 10).length = 10 := by simp; omega
  rw [hl] at this
  omega

/-! Non-vacuity: the values the design's probe used (the float path gave …641000032 ns). -/
example : parseEpoch "1535589382641" = some (1535589382, 641000000) := by decide
example : parseEpoch "1535589382641123" = some (1535589382, 641123000) := by decide
example : parseEpoch "9999999999999999999" = some (9999999999, 999999999) := by decide
example : parseEpoch "1535589382" = some (1535589382, 0) := by decide
example : decodeTs (encodeTs 1535589382 641000000) = some (1535589382, 641000000) := by decide
example : encodeTs 1535589382 0 = [0xd6, 0xff, 0x5b, 0x87, 0x3c, 0x06] := by decide

end Refinery.Props.C22
