import Refinery.Model.SamplerRegistry
namespace Refinery.Props.C12
end Refinery.Props.C12
