import Refinery.Lemmas.SamplerRegistryRun
import Refinery.Lemmas.SamplerRegistryPeers
/-!
# C12 — sampler state is shared across workers and isolated between definitions

Statement (properties.jsonl): all collector workers on a node use the same rate-tracking state for
a given sampler definition, so the worker count does not change sampling statistics.  State is
never shared between different environments or datasets, and two sampler definitions within one
environment share state only if their entire configurations are identical.

All theorems quantify over every start configuration `c0`, every list `cfgs` of configurations a
reload may switch to, every initial peer answer `a0` and every history `ops` of lazy sampler
creation on any worker (`get`), peer changes, config swaps, registry clears and per-worker cache
clears.  A *cached sampler* is a member `((w, env), ent)` of `(run …).caches`; `ent.slots` are the
dynsampler-backed samplers behind it (one for a top-level sampler, one per rule for a rules-based
one) and `slot.id` is the identity of the dynsampler instance (the rate-tracking state).
`ent.epoch = st.epoch` says the sampler was built after the last `ClearDynsamplers`.

Result: sharing across workers and `reload_clears` are proved; the isolation half of the property
is **refuted** for the code as it is (three machine-checked witness classes, each reproduced on the
real `SamplerFactory` by the harness, corpus/C12) and proved under the exact hypotheses the proof
needs (`isolation_partial`).
-/
namespace Refinery.Props.C12
open Refinery Refinery.Model.SamplerRegistry Refinery.Lemmas.SamplerRegistry

/-- **workers_share** — whenever registry keys determine the sampler type (`Faithful`; implied by
sampler keys without ':', see `workers_share_colonFree`), after any history and for any creation
order: two samplers built since the last reload — by any workers, for any sampler keys — that were
built for the same key prefix and the same definition use the same dynsampler instance. -/
theorem workers_share (c0 : Config) (a0 : Option Nat) (cfgs : List Config) (ops : List Op)
    (E : Str → Prop) (ho : OpsIn E ops) (hF : Faithful (InPlay (c0 :: cfgs) E)) :
    ∀ key1 ent1 key2 ent2, (key1, ent1) ∈ (run c0 a0 cfgs ops).caches →
      (key2, ent2) ∈ (run c0 a0 cfgs ops).caches →
      ent1.epoch = (run c0 a0 cfgs ops).epoch → ent2.epoch = (run c0 a0 cfgs ops).epoch →
      ∀ s1 ∈ ent1.slots, ∀ s2 ∈ ent2.slots, s1.pfx = s2.pfx → s1.d = s2.d → s1.id = s2.id := by
  intro key1 ent1 key2 ent2 hm1 hm2 he1 he2 s1 hs1 s2 hs2 hp hd
  have inv := inv_run c0 a0 cfgs E ops ho
  have c1 := inv.f hF key1 ent1 hm1 he1 s1 hs1
  have c2 := inv.f hF key2 ent2 hm2 he2 s2 hs2
  have ok1 := ((inv.c.slotWF key1 ent1 hm1).2 s1 hs1).2.2.1
  have ok2 := ((inv.c.slotWF key2 ent2 hm2).2 s2 hs2).2.2.1
  cases h1 : s1.id with
  | none =>
    have : s2.d.kind = .determ := by rw [← hd]; exact ok1.mp h1
    rw [ok2.mpr this]
  | some id1 =>
    cases h2 : s2.id with
    | none =>
      have : s1.d.kind = .determ := by rw [hd]; exact ok2.mp h2
      rw [ok1.mpr this] at h1; cases h1
    | some id2 =>
      have a := c1 id1 h1
      have b := c2 id2 h2
      rw [hp, hd, b] at a
      exact a.symm

/-- `workers_share` for sampler keys (environment / dataset names) that contain no ':' -/
theorem workers_share_colonFree (c0 : Config) (a0 : Option Nat) (cfgs : List Config) (ops : List Op)
    (ho : OpsIn (fun e => ':' ∉ e) ops) :
    ∀ key1 ent1 key2 ent2, (key1, ent1) ∈ (run c0 a0 cfgs ops).caches →
      (key2, ent2) ∈ (run c0 a0 cfgs ops).caches →
      ent1.epoch = (run c0 a0 cfgs ops).epoch → ent2.epoch = (run c0 a0 cfgs ops).epoch →
      ∀ s1 ∈ ent1.slots, ∀ s2 ∈ ent2.slots, s1.pfx = s2.pfx → s1.d = s2.d → s1.id = s2.id :=
  workers_share c0 a0 cfgs ops _ ho (faithful_of_colonFree _ _ (fun _ h => h))

/-- Two workers' samplers for the same sampler key, built since the last reload from the same
definitions, are backed by the same instances slot by slot: the worker count does not matter. -/
theorem workers_share_entry (c0 : Config) (a0 : Option Nat) (cfgs : List Config) (ops : List Op)
    (ho : OpsIn (fun e => ':' ∉ e) ops) (w1 w2 : Nat) (env : Str) (ent1 ent2 : Entry)
    (hm1 : ((w1, env), ent1) ∈ (run c0 a0 cfgs ops).caches)
    (hm2 : ((w2, env), ent2) ∈ (run c0 a0 cfgs ops).caches)
    (he1 : ent1.epoch = (run c0 a0 cfgs ops).epoch) (he2 : ent2.epoch = (run c0 a0 cfgs ops).epoch)
    (hsame : ent1.slots.map (fun s => (s.pfx, s.d)) = ent2.slots.map (fun s => (s.pfx, s.d))) :
    ent1.slots.map (·.id) = ent2.slots.map (·.id) := by
  have key := workers_share_colonFree c0 a0 cfgs ops ho _ ent1 _ ent2 hm1 hm2 he1 he2
  generalize ent1.slots = l1 at hsame key
  generalize ent2.slots = l2 at hsame key
  induction l1 generalizing l2 with
  | nil => cases l2 with
    | nil => rfl
    | cons b t => simp at hsame
  | cons a t ih =>
    cases l2 with
    | nil => simp at hsame
    | cons b t' =>
      simp only [List.map_cons, List.cons.injEq, Prod.mk.injEq] at hsame ⊢
      refine ⟨key a (by simp) b (by simp) hsame.1.1 hsame.1.2, ih t' hsame.2 ?_⟩
      intro s1 hs1 s2 hs2
      exact key s1 (List.mem_cons_of_mem _ hs1) s2 (List.mem_cons_of_mem _ hs2)

/-- **workers_share_concurrent** — several workers with empty caches ask for the sampler of the
same sampler key at the same moment (each `GetSamplerImplementationForKey` call is an atomic step
of the factory): whatever the order `ws'` in which their calls take effect — every permutation of
the workers `ws` — and whatever happened before, all of them end up with the same instances, slot
by slot. -/
theorem workers_share_concurrent (c0 : Config) (a0 : Option Nat) (cfgs : List Config) (ops : List Op)
    (env : Str) (henv : ':' ∉ env) (ho : OpsIn (fun e => ':' ∉ e) ops) (ws ws' : List Nat)
    (_hperm : ws'.Perm ws)
    (hfresh : ∀ w ∈ ws, ∀ ent, ((w, env), ent) ∉ (run c0 a0 cfgs ops).caches) :
    ∀ w1 ∈ ws, ∀ w2 ∈ ws, ∀ ent1 ent2,
      ((w1, env), ent1) ∈ (run c0 a0 cfgs (ops ++ ws'.map fun w => Op.get w env)).caches →
      ((w2, env), ent2) ∈ (run c0 a0 cfgs (ops ++ ws'.map fun w => Op.get w env)).caches →
      ent1.slots.map (·.id) = ent2.slots.map (·.id) := by
  intro w1 hw1 w2 hw2 ent1 ent2 hm1 hm2
  have ho' : OpsIn (fun e => ':' ∉ e) (ops ++ ws'.map fun w => Op.get w env) := by
    intro op hm e he
    rcases List.mem_append.mp hm with h | h
    · exact ho op h e he
    · obtain ⟨w', _, hop⟩ := List.mem_map.mp h
      subst hop
      cases he; exact henv
  have inv0 := inv_run c0 a0 cfgs _ ops ho
  have hrun : run c0 a0 cfgs (ops ++ ws'.map fun w => Op.get w env) =
      (ws'.map fun w => Op.get w env).foldl (step cfgs) (run c0 a0 cfgs ops) := by
    simp [run, List.foldl_append]
  obtain ⟨hc, he, hmem⟩ := foldl_gets_caches (cfgs := cfgs) (fun c hc => List.mem_cons_of_mem _ hc)
    env henv ws' _ inv0
  rw [← hrun] at hc he hmem
  have fresh : ∀ w ∈ ws, ∀ ent, ((w, env), ent) ∈ (run c0 a0 cfgs (ops ++ ws'.map fun w => Op.get w env)).caches →
      ent.epoch = (run c0 a0 cfgs (ops ++ ws'.map fun w => Op.get w env)).epoch ∧
      ent.slots.map (fun s => (s.pfx, s.d)) = slotsOf (run c0 a0 cfgs ops).cfg env := by
    intro w hw ent hm
    rcases hmem _ ent hm with h | ⟨_, b, c⟩
    · exact absurd h (hfresh w hw ent)
    · exact ⟨b.trans he.symm, c⟩
  obtain ⟨e1, s1⟩ := fresh w1 hw1 ent1 hm1
  obtain ⟨e2, s2⟩ := fresh w2 hw2 ent2 hm2
  exact workers_share_entry c0 a0 cfgs _ ho' w1 w2 env ent1 ent2 hm1 hm2 e1 e2 (s1.trans s2.symm)

/-! ### the shared state itself -/

/-- the events instance `id` has counted in its current window -/
def fedOf (st : St) (id : Nat) : Nat := (AList.get st.fed id).getD 0

/-- **feed_count_survives_other_workers_get** — another worker building (or re-using) its sampler
does not touch what the shared instances have counted: the state worker A fed is the state A sees
afterwards. -/
theorem feed_count_survives_other_workers_get (cfgs : List Config) (st : St) (w : Nat) (env : Str) (id : Nat) :
    fedOf (step cfgs st (.get w env)) id = fedOf st id := by
  unfold fedOf
  rw [step_fed cfgs st (.get w env) (fun _ _ _ h => by cases h)]

/-- more generally, only feeding traffic changes a count: not sampler creation on any worker, peer
changes, config swaps, registry clears or cache clears. -/
theorem feed_count_changed_by_feed_only (cfgs : List Config) (st : St) (op : Op)
    (hop : ∀ w e n, op ≠ .feed w e n) (id : Nat) : fedOf (step cfgs st op) id = fedOf st id := by
  unfold fedOf
  rw [step_fed cfgs st op hop]

/-- the steps of `InMemCollector.reloadConfigs` and what follows it, in the order the code performs
them: the factory is cleared first; then (stress relief is updated, and meanwhile) a worker `w` that
has not been signalled yet may make a decision for `env`; then all workers `ws` are signalled, handle
the signal (dropping their cached samplers) and ask for `env` again in some order `ws'`. -/
def reloadSeq (w : Nat) (env : Str) (ws ws' : List Nat) : List Op :=
  [.clear, .get w env] ++ ws.map Op.wreload ++ ws'.map fun w' => Op.get w' env

/-- **workers_share_after_reload** — after a reload performed in the code's order (clear the
factory, then signal the workers), whatever a worker did in the middle of it and in whatever order
the workers come back: all of them hold the same instances for the sampler key, slot by slot. -/
theorem workers_share_after_reload (c0 : Config) (a0 : Option Nat) (cfgs : List Config) (ops : List Op)
    (env : Str) (henv : ':' ∉ env) (ho : OpsIn (fun e => ':' ∉ e) ops) (w : Nat) (ws ws' : List Nat)
    (hperm : ws'.Perm ws) :
    ∀ w1 ∈ ws, ∀ w2 ∈ ws, ∀ ent1 ent2,
      ((w1, env), ent1) ∈ (run c0 a0 cfgs (ops ++ reloadSeq w env ws ws')).caches →
      ((w2, env), ent2) ∈ (run c0 a0 cfgs (ops ++ reloadSeq w env ws ws')).caches →
      ent1.slots.map (·.id) = ent2.slots.map (·.id) := by
  have ho1 : OpsIn (fun e => ':' ∉ e) (ops ++ ([.clear, .get w env] ++ ws.map Op.wreload)) := by
    intro op hm e he
    rcases List.mem_append.mp hm with h | h
    · exact ho op h e he
    · rcases List.mem_append.mp h with h | h
      · simp only [List.mem_cons, List.not_mem_nil, or_false] at h
        rcases h with h | h <;> subst h <;> cases he
        exact henv
      · obtain ⟨x, _, hx⟩ := List.mem_map.mp h; subst hx; cases he
  have hfresh : ∀ w' ∈ ws, ∀ ent,
      ((w', env), ent) ∉ (run c0 a0 cfgs (ops ++ ([.clear, .get w env] ++ ws.map Op.wreload))).caches := by
    intro w' hw' ent hm
    have e : run c0 a0 cfgs (ops ++ ([.clear, .get w env] ++ ws.map Op.wreload)) =
        (ws.map fun x => Op.wreload x).foldl (step cfgs) (run c0 a0 cfgs (ops ++ [.clear, .get w env])) := by
      simp [run, List.foldl_append]
    rw [e] at hm
    exact (foldl_wreload_caches cfgs ws _ _ ent hm).2 hw'
  have := workers_share_concurrent c0 a0 cfgs _ env henv ho1 ws ws' hperm hfresh
  have e : ops ++ reloadSeq w env ws ws' =
      (ops ++ ([.clear, .get w env] ++ ws.map Op.wreload)) ++ ws'.map fun w' => Op.get w' env := by
    simp [reloadSeq, List.append_assoc]
  rw [e]
  exact this

/-! ### reload -/

/-- **reload_clears (registry)** — `ClearDynsamplers` leaves no instance and no goal bookkeeping behind. -/
theorem reload_clears_registry (c0 : Config) (a0 : Option Nat) (cfgs : List Config) (ops : List Op) :
    (run c0 a0 cfgs (ops ++ [.clear])).reg = [] ∧ (run c0 a0 cfgs (ops ++ [.clear])).goalCfg = [] := by
  simp [run, List.foldl_append, step]

/-- right after `ClearDynsamplers` every cached sampler is from before it … -/
theorem reload_makes_stale (c0 : Config) (a0 : Option Nat) (cfgs : List Config) (ops : List Op) :
    ∀ key ent, (key, ent) ∈ (run c0 a0 cfgs (ops ++ [.clear])).caches →
      ent.epoch < (run c0 a0 cfgs (ops ++ [.clear])).epoch := by
  intro key ent hm
  have inv := inv_run c0 a0 cfgs (fun _ => True) ops (fun _ _ _ _ => trivial)
  have e : run c0 a0 cfgs (ops ++ [.clear]) =
      { run c0 a0 cfgs ops with reg := [], goalCfg := [], epoch := (run c0 a0 cfgs ops).epoch + 1 } := by
    simp [run, List.foldl_append, step]
  rw [e] at hm ⊢
  have := (inv.c.slotWF key ent hm).1
  simp only
  omega

/-- … a sampler a worker builds is stamped with the current reload count … -/
theorem built_is_current (cfgs : List Config) (st : St) (w : Nat) (env : Str) (ent : Entry)
    (hmiss : AList.get st.caches (w, env) = none)
    (hhit : AList.get (step cfgs st (.get w env)).caches (w, env) = some ent) :
    ent.epoch = (step cfgs st (.get w env)).epoch := by
  simp only [step, stepGet, hmiss] at hhit ⊢
  cases hg : getSampler st env with
  | none => simp only [hg] at hhit; rw [hmiss] at hhit; cases hhit
  | some r =>
    simp only [hg] at hhit ⊢
    rw [AList.get_put] at hhit
    simp only [if_true, Option.some.injEq] at hhit
    rw [← hhit]

/-- **reload_clears** — … and samplers built under different reload counts never share an
instance: whatever was created before `ClearDynsamplers` is not handed out after it. -/
theorem reload_clears (c0 : Config) (a0 : Option Nat) (cfgs : List Config) (ops : List Op) :
    ∀ key1 ent1 key2 ent2, (key1, ent1) ∈ (run c0 a0 cfgs ops).caches →
      (key2, ent2) ∈ (run c0 a0 cfgs ops).caches → ent1.epoch ≠ ent2.epoch →
      ∀ s1 ∈ ent1.slots, ∀ s2 ∈ ent2.slots, ∀ id, s1.id = some id → s2.id ≠ some id := by
  intro key1 ent1 key2 ent2 hm1 hm2 hne s1 hs1 s2 hs2 id h1 h2
  have inv := inv_run c0 a0 cfgs (fun _ => True) ops (fun _ _ _ _ => trivial)
  obtain ⟨i1, hi1, _, hb1, _⟩ := ((inv.c.slotWF key1 ent1 hm1).2 s1 hs1).2.2.2 id h1
  obtain ⟨i2, hi2, _, hb2, _⟩ := ((inv.c.slotWF key2 ent2 hm2).2 s2 hs2).2.2.2 id h2
  rw [hi1] at hi2; cases hi2
  exact hne (hb1.symm.trans hb2)

/-- a worker that handles its reload signal has no cached sampler left -/
theorem worker_reload_clears_cache (c0 : Config) (a0 : Option Nat) (cfgs : List Config) (ops : List Op)
    (w : Nat) : ∀ key ent, (key, ent) ∈ (run c0 a0 cfgs (ops ++ [.wreload w])).caches → key.1 ≠ w := by
  intro key ent hm
  have e : (run c0 a0 cfgs (ops ++ [.wreload w])).caches =
      AList.keep (run c0 a0 cfgs ops).caches (fun k _ => k.1 != w) := by
    simp [run, List.foldl_append, step]
  rw [e] at hm
  unfold AList.keep at hm
  have := (List.mem_filter.mp hm).2
  simpa using this

/-! ### isolation -/

/-- two definitions are the same configuration: everything equal, field order aside -/
def SameConfig (d1 d2 : Def) : Prop :=
  d1.kind = d2.kind ∧ d1.rate = d2.rate ∧ d1.fields.Perm d2.fields ∧
    d1.useCluster = d2.useCluster ∧ d1.tuning = d2.tuning

/-- The isolation half of C12 at full strength: whenever two cached sampler slots use the same
instance, they belong to the same environment / dataset and their configurations are identical. -/
def FullIsolation : Prop :=
  ∀ (c0 : Config) (a0 : Option Nat) (cfgs : List Config) (ops : List Op),
    ∀ key1 ent1 key2 ent2, (key1, ent1) ∈ (run c0 a0 cfgs ops).caches →
      (key2, ent2) ∈ (run c0 a0 cfgs ops).caches →
      ∀ s1 ∈ ent1.slots, ∀ s2 ∈ ent2.slots, ∀ id, s1.id = some id → s2.id = some id →
        key1.2 = key2.2 ∧ SameConfig s1.d s2.d

private def str (x : String) : Str := x.toList

private def dynA (t : Nat) : Def := { kind := .dynamic, rate := 10, fields := [str "a"], useCluster := false, tuning := t }

/-- witness (a): one rules-based environment, two downstream definitions that differ only in a tuning parameter -/
private def cfgTuning : Config := [(str "prod", .rules [dynA 0, dynA 2])]
/-- witness (b): environment `rules:x:` (top level) and the downstream sampler of environment `x` -/
private def cfgEnv : Config := [(str "x", .rules [dynA 0]), (str "rules:x:", .leaf (dynA 0))]
/-- witness (c): FieldList ["a b"] and FieldList ["a", "b"] -/
private def cfgFields : Config :=
  [(str "prod", .rules [{ dynA 0 with fields := [str "a b"] }, { dynA 0 with fields := [str "a", str "b"] }])]

/-- **refutation (a)** — two definitions of one environment that differ only in a tuning parameter
(ClearFrequency, MaxKeys, UseTraceLength, Weight, …; likewise UseClusterSize) share one instance. -/
theorem isolation_refuted_tuning :
    ∃ ent s1 s2 id, ((0, str "prod"), ent) ∈ (run cfgTuning (some 1) [] [.get 0 (str "prod")]).caches ∧
      s1 ∈ ent.slots ∧ s2 ∈ ent.slots ∧ s1.id = some id ∧ s2.id = some id ∧
      s1.d.kind = s2.d.kind ∧ s1.d.rate = s2.d.rate ∧ s1.d.fields = s2.d.fields ∧
      s1.d.useCluster = s2.d.useCluster ∧ s1.d.tuning ≠ s2.d.tuning :=
  ⟨⟨[⟨rulesPrefix (str "prod"), dynA 0, some 0⟩, ⟨rulesPrefix (str "prod"), dynA 2, some 0⟩], 0⟩,
    ⟨rulesPrefix (str "prod"), dynA 0, some 0⟩, ⟨rulesPrefix (str "prod"), dynA 2, some 0⟩, 0, by decide⟩

/-- **refutation (b)** — different environments share an instance: the top-level sampler of
environment `rules:x:` and the downstream sampler of environment `x`, on two workers. -/
theorem isolation_refuted_env :
    ∃ ent1 ent2 s1 s2 id,
      ((0, str "x"), ent1) ∈ (run cfgEnv (some 1) [] [.get 0 (str "x"), .get 1 (str "rules:x:")]).caches ∧
      ((1, str "rules:x:"), ent2) ∈ (run cfgEnv (some 1) [] [.get 0 (str "x"), .get 1 (str "rules:x:")]).caches ∧
      s1 ∈ ent1.slots ∧ s2 ∈ ent2.slots ∧ s1.id = some id ∧ s2.id = some id ∧ str "x" ≠ str "rules:x:" :=
  ⟨⟨[⟨rulesPrefix (str "x"), dynA 0, some 0⟩], 0⟩, ⟨[⟨str "rules:x:", dynA 0, some 0⟩], 0⟩,
    ⟨rulesPrefix (str "x"), dynA 0, some 0⟩, ⟨str "rules:x:", dynA 0, some 0⟩, 0, by decide⟩

/-- **refutation (c)** — `FieldList ["a b"]` and `FieldList ["a","b"]` (same environment, type and
rate) share an instance although the field lists are not permutations of each other. -/
theorem isolation_refuted_fieldlist :
    ∃ ent s1 s2 id, ((0, str "prod"), ent) ∈ (run cfgFields (some 1) [] [.get 0 (str "prod")]).caches ∧
      s1 ∈ ent.slots ∧ s2 ∈ ent.slots ∧ s1.id = some id ∧ s2.id = some id ∧
      s1.d.fields.length ≠ s2.d.fields.length :=
  ⟨⟨[⟨rulesPrefix (str "prod"), { dynA 0 with fields := [str "a b"] }, some 0⟩,
      ⟨rulesPrefix (str "prod"), { dynA 0 with fields := [str "a", str "b"] }, some 0⟩], 0⟩,
    ⟨rulesPrefix (str "prod"), { dynA 0 with fields := [str "a b"] }, some 0⟩,
    ⟨rulesPrefix (str "prod"), { dynA 0 with fields := [str "a", str "b"] }, some 0⟩, 0, by decide⟩

/-- **full_statement_refuted** — the isolation half of C12 does not hold for the code as it is. -/
theorem isolation_refuted : ¬ FullIsolation := by
  intro h
  obtain ⟨ent, s1, s2, id, hm, h1, h2, i1, i2, _, _, _, _, hne⟩ := isolation_refuted_tuning
  exact hne (h _ _ _ _ _ ent _ ent hm hm s1 h1 s2 h2 id i1 i2).2.2.2.2.2

/-- **isolation_partial** — for sampler keys (environment / dataset names) without ':' — after any
history, for any two cached sampler slots of any workers that use the same instance: they belong
to the same environment, sit at the same position (same key prefix), have the same sampler type and
the same rate / goal; and if moreover all their field names are non-empty and free of spaces, their
field lists are permutations of each other.  (What may still differ: tuning parameters and
UseClusterSize — refutation (a).) -/
theorem isolation_partial (c0 : Config) (a0 : Option Nat) (cfgs : List Config) (ops : List Op)
    (ho : OpsIn (fun e => ':' ∉ e) ops) :
    ∀ key1 ent1 key2 ent2, (key1, ent1) ∈ (run c0 a0 cfgs ops).caches →
      (key2, ent2) ∈ (run c0 a0 cfgs ops).caches →
      ∀ s1 ∈ ent1.slots, ∀ s2 ∈ ent2.slots, ∀ id, s1.id = some id → s2.id = some id →
        key1.2 = key2.2 ∧ s1.pfx = s2.pfx ∧ s1.d.kind = s2.d.kind ∧ s1.d.rate = s2.d.rate ∧
        ((∀ f ∈ s1.d.fields, CleanField f) → (∀ f ∈ s2.d.fields, CleanField f) →
          s1.d.fields.Perm s2.d.fields) := by
  intro key1 ent1 key2 ent2 hm1 hm2 s1 hs1 s2 hs2 id h1 h2
  have inv := inv_run c0 a0 cfgs _ ops ho
  obtain ⟨_, hp1, _, hi1⟩ := (inv.c.slotWF key1 ent1 hm1).2 s1 hs1
  obtain ⟨_, hp2, _, hi2⟩ := (inv.c.slotWF key2 ent2 hm2).2 s2 hs2
  obtain ⟨i1, hg1, hk1, _, _⟩ := hi1 id h1
  obtain ⟨i2, hg2, hk2, _, _⟩ := hi2 id h2
  rw [hg1] at hg2; cases hg2
  have hk : makeKey s1.pfx s1.d = makeKey s2.pfx s2.d := hk1.symm.trans hk2
  have hc1 : ':' ∉ key1.2 := inv.keys key1 ent1 hm1
  have hc2 : ':' ∉ key2.2 := inv.keys key2 ent2 hm2
  -- the origins of the two slots
  have ho1 : ∃ o : Origin, o.env = key1.2 ∧ o.pfx = s1.pfx := by
    rcases hp1 with e | e
    · exact ⟨.top key1.2, rfl, e.symm⟩
    · exact ⟨.down key1.2, rfl, e.symm⟩
  have ho2 : ∃ o : Origin, o.env = key2.2 ∧ o.pfx = s2.pfx := by
    rcases hp2 with e | e
    · exact ⟨.top key2.2, rfl, e.symm⟩
    · exact ⟨.down key2.2, rfl, e.symm⟩
  obtain ⟨o1, e1, p1⟩ := ho1
  obtain ⟨o2, e2, p2⟩ := ho2
  rw [← p1, ← p2] at hk
  obtain ⟨ho, hkind, hrate, hjoin⟩ := makeKey_inj (by rw [e1]; exact hc1) (by rw [e2]; exact hc2) hk
  refine ⟨by rw [← e1, ← e2, ho], by rw [← p1, ← p2, ho], hkind, hrate, ?_⟩
  intro hf1 hf2
  have hs : sortStr s1.d.fields = sortStr s2.d.fields :=
    joinSp_inj _ _ (fun a ha => hf1 a ((sortStr_perm _).mem_iff.mp ha))
      (fun a ha => hf2 a ((sortStr_perm _).mem_iff.mp ha)) hjoin
  exact (sortStr_perm _).symm.trans (hs ▸ sortStr_perm _)

/-! ### sharing needs faithful keys -/

private def dynE : Def := { kind := .dynamic, rate := 1, fields := [str "x:emadynamic:2:[y]"], useCluster := false, tuning := 0 }
private def emaE : Def := { kind := .emadynamic, rate := 2, fields := [str "y]"], useCluster := false, tuning := 0 }
/-- two definitions of different sampler types with the same registry key `e:dynamic:1:[x:emadynamic:2:[y]]` -/
private def cfgClash : Config := [(str "e", .leaf dynE), (str "e:dynamic:1:[x", .leaf emaE)]
private def opsClash : List Op := [.get 0 (str "e"), .get 0 (str "e:dynamic:1:[x"), .get 1 (str "e")]

/-- Without the hypothesis of `workers_share` sharing can fail: when definitions of different
sampler types have the same registry key, each creation replaces the other's registry entry and two
workers end up with different instances for the very same definition. -/
theorem workers_share_needs_faithful_keys :
    ∃ ent1 ent2, ((0, str "e"), ent1) ∈ (run cfgClash (some 1) [] opsClash).caches ∧
      ((1, str "e"), ent2) ∈ (run cfgClash (some 1) [] opsClash).caches ∧
      ent1.epoch = (run cfgClash (some 1) [] opsClash).epoch ∧
      ent2.epoch = (run cfgClash (some 1) [] opsClash).epoch ∧
      ent1.slots.map (fun s => (s.pfx, s.d)) = ent2.slots.map (fun s => (s.pfx, s.d)) ∧
      ent1.slots.map (·.id) ≠ ent2.slots.map (·.id) :=
  ⟨⟨[⟨str "e", dynE, some 0⟩], 0⟩, ⟨[⟨str "e", dynE, some 1⟩], 0⟩, by decide⟩

/-! Non-vacuity: concrete histories evaluated by the kernel. -/
example : makeKey (rulesPrefix (str "prod")) (dynA 0) = str "rules:prod::dynamic:10:[a]" := by decide
example : makeKey (str "e") { dynA 0 with rate := -3, fields := [str "b", str "a c"] } = str "e:dynamic:-3:[a c b]" := by decide
example : (run cfgTuning (some 1) [] [.feed 0 (str "prod") 5, .get 1 (str "prod"), .feed 1 (str "prod") 2]).fed = [(0, 14)] := by decide
example : ((run cfgTuning (some 1) [] [.get 0 (str "prod"), .clear, .get 1 (str "prod")]).caches.map
    fun p => (p.1.1, p.2.epoch, p.2.slots.map (·.id))) = [(1, 1, [some 1, some 1]), (0, 0, [some 0, some 0])] := by decide

end Refinery.Props.C12
