import Refinery.Lemmas.Decorate
/-!
# C04 — forwarded sample rates compose the client and Refinery rates

Statement (properties.jsonl): every span Refinery forwards for a kept trace outside dry run carries
a sample rate equal to the client-supplied rate (1 when absent or zero) times the trace's sampling
rate, which is at least 1, and records that product as `meta.refinery.final_sample_rate` and any
nonzero client rate as `meta.refinery.original_sample_rate`.  Late spans use the rate recorded with
the trace's decision and stress-relief spans use the stress-relief rate.

Quantifiers: all client rates in `[0, 2^31)`, all trace rates (the sampler's answer is a parameter
of the model), all states / histories of the collector model, every configuration.

The decision record keeps the rate at full `uint` width (`cache.keptTraceCacheEntry.rate`; before
the fix recorded as C04 `fixed` it kept `uint32(rate)` and the sentence about late spans was false
for rates ≥ 2^32), so `LateUsesRecord` holds for every rate a Go `uint` can hold.
-/
namespace Refinery.Props.C04
open Refinery Refinery.Model.Rates Refinery.Model.Decorate Refinery.Lemmas.Decorate

/-! ## arithmetic -/

theorem temp_eq_max (c : Nat) : temp c = max c 1 := by
  unfold temp
  by_cases h : c < 1
  · have : c = 0 := by omega
    subst this; simp
  · simp [h]; omega

theorem product_lt (c t : Nat) (hc : c < two31) (ht : t < two32) : max c 1 * t < two63 := by
  have h1 : max c 1 < two31 := by
    have : (1 : Nat) < two31 := by decide
    exact Nat.max_lt.mpr ⟨hc, this⟩
  calc max c 1 * t < two31 * two32 := Nat.mul_lt_mul'' h1 ht
    _ = two63 := by decide

theorem toInt64_small (n : Nat) (h : n < two63) : toInt64 n = (n : Int) := by
  have h64 : n < two64 := Nat.lt_trans h (by decide)
  unfold toInt64
  rw [Nat.mod_eq_of_lt h64]
  simp [h]

theorem mulU64_small (a b : Nat) (h : a * b < two63) : mulU64 a b = a * b := by
  unfold mulU64
  exact Nat.mod_eq_of_lt (Nat.lt_trans h (by decide))

/-- **merge_formula** — outside dry run, for every client rate in `[0, 2^31)` and every trace rate
below `2^32`: the forwarded rate is exactly `max(client,1) · traceRate` (no overflow), that
product is what is written to `meta.refinery.final_sample_rate`, the client rate is written to
`meta.refinery.original_sample_rate` iff it is nonzero, and the result is ≥ 1 when the trace rate
is. -/
theorem merge_formula (client traceRate : Nat) (hc : client < two31) (ht : traceRate < two32) :
    (merge client traceRate false).rate = max client 1 * traceRate ∧
    (merge client traceRate false).final = some ((max client 1 * traceRate : Nat) : Int) ∧
    ((merge client traceRate false).original.isSome = true ↔ client ≠ 0) ∧
    (client ≠ 0 → (merge client traceRate false).original = some (client : Int)) ∧
    (merge client traceRate false).dryRate = none ∧
    (1 ≤ traceRate → 1 ≤ (merge client traceRate false).rate) := by
  have hp := product_lt client traceRate hc ht
  have hm : mulU64 (temp client) traceRate = max client 1 * traceRate := by
    rw [temp_eq_max]; exact mulU64_small _ _ hp
  have hc63 : client < two63 := Nat.lt_trans hc (by decide)
  refine ⟨?_, ?_, ?_, ?_, ?_, ?_⟩
  · simp [merge, hm]
  · simp only [merge, Bool.false_eq_true, if_false, hm]
    rw [toInt64_small _ hp]
  · by_cases h0 : client = 0 <;> simp [merge, h0]
  · intro h0; simp [merge, h0, toInt64_small _ hc63]
  · simp [merge]
  · intro h1
    simp only [merge, Bool.false_eq_true, if_false, hm]
    have : 1 ≤ max client 1 := Nat.le_max_right _ _
    exact Nat.mul_le_mul this h1

/-- the metadata field is *present* whenever the final rate is ≥ 1 (0 reads back as absent) -/
theorem final_field_present (n : Nat) (h1 : 1 ≤ n) (h : n < two63) : metaVal (toInt64 n) = some (.int n) := by
  rw [toInt64_small n h]
  unfold metaVal
  have hn : n ≠ 0 := by omega
  simp [hn]

/-- In dry run the span keeps the client rate (0 ≡ 1) and the product only goes to
`meta.dryrun.sample_rate`; `final_sample_rate` is not written. -/
theorem merge_dry (client traceRate : Nat) :
    (merge client traceRate true).rate = max client 1 ∧
    (merge client traceRate true).final = none ∧
    (merge client traceRate true).dryRate = some (mulU64 (max client 1) traceRate) := by
  simp [merge, temp_eq_max]

/-! ## the three forwarding paths -/

theorem attrs_frame {attrs : List (String × String)} (ha : AttrsOk attrs) (f : Fields) (k : String)
    (hk : k ∈ reserved) : AList.get (addAttrs f attrs) k = AList.get f k :=
  get_addAttrs_not_mem attrs f k (ha.2 k hk)

/-- the rate part of a forwarded span, in terms of the rate the span arrived with (`client`), the
trace rate that applies, and the fields it arrived with -/
def RateSpec (client traceRate : Nat) (before : Fields) (o : Span) : Prop :=
  o.rate = max client 1 * traceRate ∧
  AList.get o.fields kFinal = metaVal ((max client 1 * traceRate : Nat) : Int) ∧
  AList.get o.fields kOriginal = (if client ≠ 0 then some (.int client) else AList.get before kOriginal) ∧
  (1 ≤ traceRate → 1 ≤ o.rate)

theorem rateSpec_of_merge (sp : Span) (pre : Fields) (traceRate : Nat) (o : Span)
    (hc : sp.rate < two31) (ht : traceRate < two32)
    (hrate : o.rate = (applyMerge { sp with fields := pre } traceRate false).rate)
    (hfin : AList.get o.fields kFinal = AList.get (applyMerge { sp with fields := pre } traceRate false).fields kFinal)
    (horig : AList.get o.fields kOriginal = AList.get (applyMerge { sp with fields := pre } traceRate false).fields kOriginal)
    (hpre : AList.get pre kOriginal = AList.get sp.fields kOriginal) :
    RateSpec sp.rate traceRate sp.fields o := by
  obtain ⟨m1, _, _, _, _, m6⟩ := merge_formula sp.rate traceRate hc ht
  have hp := product_lt sp.rate traceRate hc ht
  have hm : mulU64 (temp sp.rate) traceRate = max sp.rate 1 * traceRate := by
    rw [temp_eq_max]; exact mulU64_small _ _ hp
  have hc63 : sp.rate < two63 := Nat.lt_trans hc (by decide)
  refine ⟨?_, ?_, ?_, ?_⟩
  · rw [hrate, applyMerge_rate]; exact m1
  · rw [hfin, get_applyMerge_final]; simp only [hm, toInt64_small _ hp]
  · rw [horig, get_applyMerge_original]
    by_cases h0 : sp.rate = 0
    · simp [h0, hpre]
    · have : ((sp.rate : Nat) : Int) ≠ 0 := by omega
      simp [h0, toInt64_small _ hc63, metaVal, this]
  · intro h1; rw [hrate, applyMerge_rate]; exact m6 h1

/-- **merge_formula on the on-time path** (`sendTraces`): whatever the configuration in force
(outside dry run) and whatever the trace looks like, a span that arrived with client rate `c < 2^31`
is forwarded with `max(c,1) · traceRate` and the two metadata fields as specified. -/
theorem ontime_merge (cfg : Cfg) (host : String) (p : Pending) (sp : Span)
    (hd : cfg.dry = false) (hc : sp.rate < two31) (ht : p.rate < two32) (ha : AttrsOk cfg.attrs) :
    RateSpec sp.rate p.rate sp.fields (fwdOnTime cfg host p sp) := by
  apply rateSpec_of_merge sp (preOnTime cfg host p sp) p.rate _ hc ht
  · simp [fwdOnTime, hd]
  · simp only [fwdOnTime, hd]; exact attrs_frame ha _ _ (by decide)
  · simp only [fwdOnTime, hd]; exact attrs_frame ha _ _ (by decide)
  · exact get_preOnTime_frame cfg host p sp kOriginal (by decide) (by decide) (by decide) (by decide)
      (by decide) (by decide) (by decide) (by decide) (by decide)

/-- **late path** (`dealWithSentTrace`), stated for the rate *the record holds*. -/
theorem late_merge (cfg : Cfg) (host : String) (r : Rec) (sp : Span)
    (hd : cfg.dry = false) (hc : sp.rate < two31) (ht : r.rate < two32) (ha : AttrsOk cfg.attrs) :
    ∃ o, fwdLate cfg host (some r) sp = some o ∧ o.sid = sp.sid ∧ RateSpec sp.rate r.rate sp.fields o := by
  refine ⟨_, rfl, rfl, ?_⟩
  apply rateSpec_of_merge sp (preLate cfg host (some r) sp) r.rate _ hc ht
  · simp [hd, applyMerge_rate]
  · simp only [hd]
    rw [attrs_frame ha _ _ (by decide)]
    split
    · exact get_setRootCounts_frame _ _ _ _ _ _ _ (by decide) (by decide) (by decide) (by decide)
    · rfl
  · simp only [hd]
    rw [attrs_frame ha _ _ (by decide)]
    split
    · exact get_setRootCounts_frame _ _ _ _ _ _ _ (by decide) (by decide) (by decide) (by decide)
    · rfl
  · exact get_preLate_frame cfg host (some r) sp kOriginal (by decide) (by decide) (by decide) (by decide)

/-- **stress_uses_stress_rate** (`ProcessSpanImmediately`): the span is forwarded with
`max(c,1) · rate` for the rate it is given — the stress reliever's own answer on the first span of a
trace. -/
theorem stress_merge (cfg : Cfg) (host : String) (rate : Nat) (reason : String) (sp : Span)
    (hd : cfg.dry = false) (hc : sp.rate < two31) (ht : rate < two32) (ha : AttrsOk cfg.attrs) :
    RateSpec sp.rate rate sp.fields (fwdStress cfg host rate reason sp) := by
  apply rateSpec_of_merge sp (preStress cfg host reason sp) rate _ hc ht
  · simp [fwdStress, hd]
  · simp [fwdStress, hd]
  · simp [fwdStress, hd]
  · exact get_preStress_frame cfg host reason sp kOriginal (by decide) (by decide) (by decide)
      (ha.2 _ (by decide))

/-! ## histories -/

theorem map_updLastRoot {β : Type} (g : Span → Span) (f : Span → β) (hg : ∀ sp, f (g sp) = f sp)
    (l : List Span) : (updLastRoot g l).map f = l.map f := by
  induction l with
  | nil => rfl
  | cons sp rest ih =>
    unfold updLastRoot
    split
    · simp [ih]
    · split <;> simp [hg]

/-- A decision on a buffered trace that is kept (or made in dry run) queues the trace with exactly
the sampler's rate, and the spans keep the rates they arrived with. -/
theorem decide_queues (s : St) (tid : String) (d : Decision) (spans : List Span)
    (hl : (getT s tid).live = some spans) (hk : d.keep = true ∨ s.cfg.dry = true) :
    ∃ p, (step s (.decide tid (some d))).1.pending = s.pending ++ [p] ∧ p.tid = tid ∧ p.rate = d.rate ∧
      p.shouldSend = d.keep ∧
      p.spans.map (fun sp => (sp.sid, sp.rate)) = spans.map (fun sp => (sp.sid, sp.rate)) := by
  have hcond : (!d.keep && !s.cfg.dry) = false := by
    rcases hk with h | h <;> simp [h]
  simp only [step, hl, hcond]
  refine ⟨_, rfl, rfl, rfl, rfl, ?_⟩
  exact map_updLastRoot (traceRootCounts s.cfg spans) (fun sp => (sp.sid, sp.rate)) (fun _ => rfl) spans

/-- `sendTraces` forwards the oldest queued trace, every span through `fwdOnTime` under the
configuration in force *now*. -/
theorem drain_forwards (s : St) (p : Pending) (rest : List Pending) (h : s.pending = p :: rest) :
    (step s .drain).2 = .sent p.tid (p.spans.map (fwdOnTime s.cfg s.host p)) := by
  simp [step, h]

/-- **on time, end to end**: a buffered trace is decided "keep" with rate `d.rate < 2^32`, the
configuration is (possibly) reloaded to any `cfg'` outside dry run, `sendTraces` runs: every span
of the trace is forwarded with `max(client,1) · d.rate`. -/
theorem ontime_uses_trace_rate (s : St) (tid : String) (d : Decision) (spans : List Span) (cfg' : Cfg)
    (hq : s.pending = []) (hl : (getT s tid).live = some spans) (hk : d.keep = true)
    (ht : d.rate < two32) (hd : cfg'.dry = false) (ha : AttrsOk cfg'.attrs)
    (hc : ∀ sp ∈ spans, sp.rate < two31) :
    ∃ out, (step (step (step s (.decide tid (some d))).1 (.reload cfg')).1 .drain).2 = .sent tid out ∧
      out.map (·.sid) = spans.map (·.sid) ∧
      ∀ o ∈ out, ∃ sp ∈ spans, o.sid = sp.sid ∧ o.rate = max sp.rate 1 * d.rate ∧
        AList.get o.fields kFinal = metaVal ((max sp.rate 1 * d.rate : Nat) : Int) := by
  obtain ⟨p, hp, hptid, hprate, _, hpspans⟩ := decide_queues s tid d spans hl (Or.inl hk)
  rw [hq, List.nil_append] at hp
  have hdrain := drain_forwards (step (step s (.decide tid (some d))).1 (.reload cfg')).1 p [] (by simpa [step] using hp)
  have hcfg : (step (step s (.decide tid (some d))).1 (.reload cfg')).1.cfg = cfg' := rfl
  rw [hcfg, hptid] at hdrain
  refine ⟨_, hdrain, ?_, ?_⟩
  · have h1 : p.spans.map (·.sid) = spans.map (·.sid) := by
      have := congrArg (List.map Prod.fst) hpspans
      simp only [List.map_map] at this
      exact this
    rw [List.map_map]
    rw [← h1]
    apply List.map_congr_left
    intro sp _
    simp [fwdOnTime, applyMerge]
  · intro o ho
    obtain ⟨sp', hsp', rfl⟩ := List.mem_map.mp ho
    have hmem : (sp'.sid, sp'.rate) ∈ spans.map (fun sp => (sp.sid, sp.rate)) := by
      rw [← hpspans]; exact List.mem_map.mpr ⟨sp', hsp', rfl⟩
    obtain ⟨sp, hsp, heq⟩ := List.mem_map.mp hmem
    have hsid : sp.sid = sp'.sid := congrArg Prod.fst heq
    have hrate : sp.rate = sp'.rate := congrArg Prod.snd heq
    have hc' : sp'.rate < two31 := hrate ▸ hc sp hsp
    have hspec := ontime_merge cfg' (step (step s (.decide tid (some d))).1 (.reload cfg')).1.host p sp' hd hc'
      (hprate ▸ ht) ha
    refine ⟨sp, hsp, ?_, ?_, ?_⟩
    · rw [hsid]; simp [fwdOnTime, applyMerge]
    · rw [hrate, ← hprate]; exact hspec.1
    · rw [hrate, ← hprate]; exact hspec.2.1

/-- a "keep" decision on a buffered trace leaves a kept record holding the sampler's rate -/
theorem decide_keptAs (s : St) (tid : String) (d : Decision) (spans : List Span)
    (hl : (getT s tid).live = some spans) (hdr : (getT s tid).dropped = false) (hk : d.keep = true) :
    KeptAs (getT (step s (.decide tid (some d))).1 tid) d.rate d.reason := by
  have key : getT (step s (.decide tid (some d))).1 tid =
      { (record (getT s tid) d.rate d.keep d.reason spans) with live := none } := by
    simp only [step, hl]
    split <;> simp [getT, putT, AList.get_put]
  rw [key]
  simp [KeptAs, record, hk, hdr, mkRec]

/-- the stress reliever's first "keep" answer for a trace without record leaves a kept record
holding its rate -/
theorem stress_keptAs (s : St) (tid : String) (sp : Span) (rate : Nat) (reason : String)
    (hl : (getT s tid).live = none) (hdr : (getT s tid).dropped = false) (hk : (getT s tid).kept = none) :
    KeptAs (getT (step s (.stress tid sp (some (rate, true, reason)))).1 tid) rate reason ∧
    (step s (.stress tid sp (some (rate, true, reason)))).2 = .fwd (fwdStress s.cfg s.host rate reason sp) := by
  have key : step s (.stress tid sp (some (rate, true, reason))) =
      (putT s tid (record (getT s tid) rate true reason []), .fwd (fwdStress s.cfg s.host rate reason sp)) := by
    simp [step, checkSpan, hdr, hk]
  rw [key]
  simp [getT_putT, KeptAs, record, hl, hdr, mkRec]

/-- what a span arriving for a trace in state `KeptAs R` is forwarded with (both late paths) -/
theorem late_of_keptAs (s : St) (tid : String) (sp : Span) (R : Nat) (rs : String)
    (h : KeptAs (getT s tid) R rs) (hd : s.cfg.dry = false) (hc : sp.rate < two31) (hR : R < two32)
    (ha : AttrsOk s.cfg.attrs) :
    (∃ o, (step s (.span tid sp)).2 = .late o ∧ o.sid = sp.sid ∧ RateSpec sp.rate R sp.fields o) ∧
    (∃ o, (step s (.stress tid sp none)).2 = .fwd o ∧ RateSpec sp.rate R sp.fields o) := by
  obtain ⟨hl, hdr, r, hk, hr, _⟩ := h
  constructor
  · rw [step_span_kept s tid sp r hl hdr hk]
    obtain ⟨o, ho, hsid, hspec⟩ := late_merge s.cfg s.host (r.count sp.kind) sp hd hc
      (by rw [count_rate, hr]; exact hR) ha
    refine ⟨o, ?_, hsid, ?_⟩
    · simp only [ho, lateOut]
    · rw [count_rate, hr] at hspec; exact hspec
  · rw [step_stress_kept s tid sp r hdr hk]
    have hR' : (r.count sp.kind).rate = R := by rw [count_rate, hr]
    refine ⟨_, rfl, ?_⟩
    rw [hR']
    exact stress_merge s.cfg s.host R _ sp hd hc hR ha

/-- the rate of a span arriving for a trace in state `KeptAs R`, without any bound on `R`: the Go
`uint` product of `max(client,1)` and the recorded rate -/
theorem late_rate_of_keptAs (s : St) (tid : String) (sp : Span) (R : Nat) (rs : String)
    (h : KeptAs (getT s tid) R rs) (hd : s.cfg.dry = false) :
    ∃ o, (step s (.span tid sp)).2 = .late o ∧ o.sid = sp.sid ∧ o.rate = mulU64 (max sp.rate 1) R := by
  obtain ⟨hl, hdr, r, hk, hr, _⟩ := h
  rw [step_span_kept s tid sp r hl hdr hk]
  refine ⟨_, rfl, rfl, ?_⟩
  simp [applyMerge_rate, merge, hd, count_rate, hr, temp_eq_max]

/-- **late spans use the recorded rate, with the metadata fields** — after a "keep" decision with
sampler rate `d.rate < 2^32` and *any* further history `mid` (spans, decisions, drains,
stress-relief spans, reloads), a span of that trace is forwarded — by `processSpan` or by
`ProcessSpanImmediately` — with `max(client,1) · d.rate`, records it as `final_sample_rate`, and the
client rate as `original_sample_rate` iff nonzero. -/
theorem late_uses_stored_rate (s : St) (tid : String) (d : Decision) (spans : List Span) (mid : List Op)
    (sp : Span) (hl : (getT s tid).live = some spans) (hdr : (getT s tid).dropped = false)
    (hk : d.keep = true) (hc : sp.rate < two31) (hrate : d.rate < two32)
    (hd : (run (step s (.decide tid (some d))).1 mid).cfg.dry = false)
    (ha : AttrsOk (run (step s (.decide tid (some d))).1 mid).cfg.attrs) :
    (∃ o, (step (run (step s (.decide tid (some d))).1 mid) (.span tid sp)).2 = .late o ∧ o.sid = sp.sid ∧
      RateSpec sp.rate d.rate sp.fields o) ∧
    (∃ o, (step (run (step s (.decide tid (some d))).1 mid) (.stress tid sp none)).2 = .fwd o ∧
      RateSpec sp.rate d.rate sp.fields o) :=
  late_of_keptAs _ tid sp d.rate d.reason
    (keptAs_run mid _ tid _ _ (decide_keptAs s tid d spans hl hdr hk)) hd hc hrate ha

/-- The property's sentence "late spans use the rate recorded with the trace's decision", at full
strength — every rate a Go `uint` can hold, any history between the decision and the late span:
the late span is multiplied (in `uint` arithmetic, like an on-time span) with the rate of the
decision; whenever the product fits a `uint` it is the exact product. -/
def LateUsesRecord : Prop :=
  ∀ (s : St) (tid : String) (d : Decision) (spans : List Span) (mid : List Op) (sp : Span),
    (getT s tid).live = some spans → (getT s tid).dropped = false → d.keep = true → d.rate < two64 →
    (run (step s (.decide tid (some d))).1 mid).cfg.dry = false →
    ∃ o, (step (run (step s (.decide tid (some d))).1 mid) (.span tid sp)).2 = .late o ∧ o.sid = sp.sid ∧
      o.rate = mulU64 (max sp.rate 1) d.rate ∧
      (max sp.rate 1 * d.rate < two64 → o.rate = max sp.rate 1 * d.rate)

/-- **late_uses_record** — the full statement holds (the record keeps the rate at full width). -/
theorem late_uses_record : LateUsesRecord := by
  intro s tid d spans mid sp hl hdr hk _ hd
  obtain ⟨o, ho, hsid, hrate⟩ := late_rate_of_keptAs _ tid sp d.rate d.reason
    (keptAs_run mid _ tid _ _ (decide_keptAs s tid d spans hl hdr hk)) hd
  refine ⟨o, ho, hsid, hrate, ?_⟩
  intro hlt
  rw [hrate]; unfold mulU64; exact Nat.mod_eq_of_lt hlt

/-- **stress_uses_stress_rate** — the first span of a trace under stress relief is forwarded with
`max(client,1) ·` the stress reliever's rate (for rates < 2^32 with the two metadata fields as in
`merge_formula`); this holds in every state in which the trace has no decision record yet. -/
theorem stress_uses_stress_rate (s : St) (tid : String) (sp : Span) (rate : Nat) (reason : String)
    (hl : (getT s tid).live = none) (hdr : (getT s tid).dropped = false) (hk : (getT s tid).kept = none)
    (hd : s.cfg.dry = false) (hc : sp.rate < two31) (ht : rate < two32) (ha : AttrsOk s.cfg.attrs) :
    ∃ o, (step s (.stress tid sp (some (rate, true, reason)))).2 = .fwd o ∧ RateSpec sp.rate rate sp.fields o :=
  ⟨_, (stress_keptAs s tid sp rate reason hl hdr hk).2, stress_merge s.cfg s.host rate reason sp hd hc ht ha⟩

/-- later spans of a trace first seen under stress relief (any history in between, either path)
use the record made then, i.e. the stress rate. -/
theorem stress_later_spans (s : St) (tid : String) (sp0 sp : Span) (rate : Nat) (reason : String) (mid : List Op)
    (hl : (getT s tid).live = none) (hdr : (getT s tid).dropped = false) (hk : (getT s tid).kept = none)
    (hc : sp.rate < two31) (ht : rate < two32)
    (hd : (run (step s (.stress tid sp0 (some (rate, true, reason)))).1 mid).cfg.dry = false)
    (ha : AttrsOk (run (step s (.stress tid sp0 (some (rate, true, reason)))).1 mid).cfg.attrs) :
    (∃ o, (step (run (step s (.stress tid sp0 (some (rate, true, reason)))).1 mid) (.span tid sp)).2 = .late o ∧
      o.sid = sp.sid ∧ RateSpec sp.rate rate sp.fields o) ∧
    (∃ o, (step (run (step s (.stress tid sp0 (some (rate, true, reason)))).1 mid) (.stress tid sp none)).2 = .fwd o ∧
      RateSpec sp.rate rate sp.fields o) :=
  late_of_keptAs _ tid sp rate reason
    (keptAs_run mid _ tid _ _ (stress_keptAs s tid sp0 rate reason hl hdr hk).1) hd hc ht ha

/-- the same for every stress rate a `uint` can hold (e.g. `SamplingRate = 2^32`): the late span
carries the `uint` product with the stress rate, no truncation. -/
theorem stress_later_spans_any_rate (s : St) (tid : String) (sp0 sp : Span) (rate : Nat) (reason : String)
    (mid : List Op) (hl : (getT s tid).live = none) (hdr : (getT s tid).dropped = false)
    (hk : (getT s tid).kept = none)
    (hd : (run (step s (.stress tid sp0 (some (rate, true, reason)))).1 mid).cfg.dry = false) :
    ∃ o, (step (run (step s (.stress tid sp0 (some (rate, true, reason)))).1 mid) (.span tid sp)).2 = .late o ∧
      o.rate = mulU64 (max sp.rate 1) rate := by
  obtain ⟨o, ho, _, hrate⟩ := late_rate_of_keptAs _ tid sp rate reason
    (keptAs_run mid _ tid _ _ (stress_keptAs s tid sp0 rate reason hl hdr hk).1) hd
  exact ⟨o, ho, hrate⟩

/-! ## sampler floors -/

theorem uintOfInt_pos (i : Int) (h1 : 0 < i) (h2 : i < (two63 : Int)) : 1 ≤ uintOfInt i := by
  unfold uintOfInt
  have : i % (two64 : Int) = i := Int.emod_eq_of_lt (by omega) (by unfold two63 two64 at *; omega)
  rw [this]; omega

/-- **sampler_floor** — every sampler's rate is at least 1 whenever it says "keep", given only
that its inputs are Go `int`s: deterministic (`≤ 1 ⇒ 1`), the dynsampler family (the dynsampler's
answer is floored at 1 before the `uint` conversion — whatever it returns, even a negative
number), rules (`keep` requires `SampleRate > 0`). -/
theorem sampler_floor (i : Int) (hhi : i < (two63 : Int)) :
    1 ≤ deterministicRate i ∧ 1 ≤ dynRate i ∧
    (∀ drop draw, rulesKeep drop i draw = true → 1 ≤ rulesRate i) := by
  refine ⟨?_, ?_, ?_⟩
  · unfold deterministicRate
    by_cases h : i ≤ 1
    · simp [h]
    · simp only [h, if_false]; exact uintOfInt_pos i (by omega) hhi
  · unfold dynRate
    by_cases h : i < 1
    · simp [h]
    · simp only [h, if_false]; exact uintOfInt_pos i (by omega) hhi
  · intro drop draw hk
    unfold rulesKeep at hk
    simp only [Bool.and_eq_true, decide_eq_true_eq] at hk
    exact uintOfInt_pos i hk.1.2 hhi

/-- the floored dynsampler answer is passed on unchanged when it is a positive `int` -/
theorem dynRate_pos (i : Int) (h1 : 1 ≤ i) (hhi : i < (two63 : Int)) : (dynRate i : Int) = i := by
  unfold dynRate uintOfInt
  have h : ¬ i < 1 := by omega
  have : i % (two64 : Int) = i := Int.emod_eq_of_lt (by omega) (by unfold two63 two64 at *; omega)
  simp only [h, if_false, this]; omega

/-- in-range client rates pass the router's conversions unchanged, an absent/zero batch rate
becomes 1 (`uint(int64)`, `getSampleRate`) -/
theorem router_rates (c : Nat) (hc : c < two31) :
    batchRate (c : Int) = max c 1 ∧ headerRate (some (c : Int)) = c ∧ headerRate none = 1 := by
  have hu : uintOfInt (c : Int) = c := by
    unfold uintOfInt
    have : (c : Int) % (two64 : Int) = c := Int.emod_eq_of_lt (by omega) (by unfold two31 two64 at *; omega)
    rw [this]; simp
  refine ⟨?_, ?_, rfl⟩
  · unfold batchRate
    by_cases h0 : c = 0
    · subst h0; simp
    · have : (c : Int) ≠ 0 := by omega
      simp only [this, if_false, hu]; omega
  · simp [headerRate, hu]

/-! ## non-vacuity -/
example : (merge 0 10 false).rate = 10 ∧ (merge 0 10 false).original = none := by decide
example : (merge 3 7 false).rate = 21 ∧ (merge 3 7 false).final = some 21 ∧ (merge 3 7 false).original = some 3 := by decide
example : (merge 2147483647 4294967295 false).rate = 2147483647 * 4294967295 := by decide
example : (merge 5 4294967296 false).rate = 5 * 4294967296 := by decide
example : dynRate (-3) = 1 ∧ dynRate 0 = 1 ∧ dynRate 7 = 7 ∧ deterministicRate 0 = 1 ∧ deterministicRate 10 = 10 := by decide

end Refinery.Props.C04
