import Refinery.Lemmas.Health
import Refinery.Gen.Health
/-!
# C30 — liveness and readiness follow subsystem reports within one tick

Statement (properties.jsonl): a subsystem that reports at intervals shorter than its timeout
minus one 500 ms health tick is never reported dead, and one silent for longer than its timeout
plus one tick is reported dead until it reports again.  Refinery is ready only when at least one
subsystem is registered, every registered subsystem has reported and declared itself ready, and
no subsystem has unregistered.

Two levels.  *Tick level*: arbitrary histories `ops : List Op` of register / unregister /
report ready|unready / tick, with the exact characterisations `alive_iff` and `ready_iff` in
terms of the per-subsystem history `track s ops` (registered?, timeout, ticks since the latest
accepted report, its flag).  *Wall-clock level*: arbitrary histories `tops : List TOp` where
`adv d` moves the clock and fires the ticks the interval contains; `ticks_in_interval` /
`ticks_times_period` are the only link between the two, and `never_dead_if_frequent`,
`dead_if_silent`, `ready_only_if`, `ready_if` are stated with wall-clock gaps.

Hypotheses the proofs force (each shown necessary by an `example` at the end):
`0 < timeout` for "never dead" (a zero timeout is dead at the first report), `0 ≤ timeout` for
"dead if silent" (a negative timeout is stored as a negative counter, which — like the `-1`
"no report yet" sentinel — is never decremented and never equals `0`).  "No subsystem has
unregistered" is the state "its latest register/unregister is an unregister": the code lets a
subsystem re-register and become ready again.
-/
namespace Refinery.Props.C30
open Refinery Refinery.Model.Health Refinery.Lemmas.Health

/-- the code's tick period `health.TickerTime` in ns, as extracted from the compiled package -/
abbrev TickerTime : Nat := Refinery.Gen.Health.tickerTime.toNat

theorem tickerTime_pos : 0 < TickerTime := by decide

/-! ## Tick level -/

/-- the subsystem has timed out: registered with a non-negative timeout `t`, reported since,
and `k` ticks with `t ≤ k·T` have fired since that report -/
def TimedOut (T : Nat) (h : Track) : Prop :=
  ∃ t k r, h.reg = some t ∧ h.rep = some (k, r) ∧ 0 ≤ t ∧ t ≤ ((k * T : Nat) : Int)

/-- the subsystem is in good standing: registered with a positive timeout `t`, its latest
report since registration said "ready", and the `k` ticks fired since then have `k·T < t` -/
def Good (T : Nat) (h : Track) : Prop :=
  ∃ t k, h.reg = some t ∧ h.rep = some (k, true) ∧ 0 < t ∧ ((k * T : Nat) : Int) < t

theorem left_eq_zero_iff (T : Nat) (h : Track) : left T h = some 0 ↔ TimedOut T h := by
  unfold left TimedOut
  cases hreg : h.reg with
  | none => simp
  | some t =>
    cases hrep : h.rep with
    | none => simp
    | some p =>
      obtain ⟨k, r⟩ := p
      simp only [Option.some.injEq, decay_eq_zero_iff]
      constructor
      · intro hh; exact ⟨t, k, r, rfl, rfl, hh.1, hh.2⟩
      · rintro ⟨t', k', r', e1, e2, h1, h2⟩
        cases e1; cases e2
        exact ⟨h1, h2⟩

/-- the counter the model (= the code) holds for `s` is the one its history predicts -/
theorem counter_eq (T : Nat) (ops : List Op) (s : Nat) :
    AList.get (run T ops).timeLeft s = left T (track s ops) := (sim_run T ops s).2.1

/-- **alive_iff** — after any history, `IsAlive` answers true exactly when no subsystem has
timed out (registered, reported, and then `timeout/T` or more ticks without a report). -/
theorem alive_iff (T : Nat) (ops : List Op) :
    isAlive (run T ops) = true ↔ ∀ s, ¬ TimedOut T (track s ops) := by
  unfold isAlive
  rw [all_iff_get _ (wf_run T ops).2.1]
  constructor
  · intro h s hto
    have h0 := (left_eq_zero_iff T _).mpr hto
    have := h s 0 (by rw [counter_eq]; exact h0)
    simp at this
  · intro h k v hg
    rw [counter_eq] at hg
    simp only [bne_iff_ne, ne_eq]
    intro hv
    subst hv
    exact h k ((left_eq_zero_iff T _).mp hg)

/-- **ready_iff** — after any history of registrations, unregistrations, re-registrations,
reports and ticks, `IsReady` answers true exactly when (1) at least one subsystem has been
registered (or unregistered) at all, and every such subsystem (2) is currently registered — its
latest register/unregister is a register —, (3) has reported since that registration and its
latest report declared it ready, and (4) has not run its counter down (`k·T < timeout`). -/
theorem ready_iff (T : Nat) (ops : List Op) :
    isReady (run T ops) = true ↔
      (∃ s, (track s ops).known = true) ∧
        ∀ s, (track s ops).known = true → Good T (track s ops) := by
  have wf := wf_run T ops
  unfold isReady
  simp only [Bool.and_eq_true, Bool.not_eq_true']
  rw [isEmpty_false_iff, all_iff_get _ wf.2.1, all_iff_get _ wf.2.2]
  constructor
  · rintro ⟨⟨⟨k, v, hkv⟩, hpos⟩, hflags⟩
    refine ⟨⟨k, ?_⟩, ?_⟩
    · have s3 := (sim_run T ops k).2.2.1
      rw [s3, flag] at hkv
      by_cases hk : (track k ops).known = true
      · exact hk
      · rw [if_neg hk] at hkv; simp at hkv
    · intro s hk
      obtain ⟨_, s2, s3, w1, _⟩ := sim_run T ops s
      have hf := s3
      rw [flag, if_pos hk] at hf
      have hb := hflags s _ hf
      cases hrep : (track s ops).rep with
      | none => rw [hrep] at hb; simp at hb
      | some p =>
        obtain ⟨k', r⟩ := p
        rw [hrep] at hb
        simp only at hb
        subst hb
        cases hreg : (track s ops).reg with
        | none => have := w1 hreg; rw [hrep] at this; simp at this
        | some t =>
          have hl : AList.get (run T ops).timeLeft s = some (decay T t k') := by
            rw [s2, left, hreg, hrep]
          have hp := hpos s _ hl
          simp only [decide_eq_true_eq] at hp
          have := (decay_pos_iff T t k').mp hp
          exact ⟨t, k', hreg, hrep, this.1, this.2⟩
  · rintro ⟨⟨s, hs⟩, hall⟩
    refine ⟨⟨⟨s, ?_⟩, ?_⟩, ?_⟩
    · have s3 := (sim_run T ops s).2.2.1
      rw [s3, flag, if_pos hs]
      exact ⟨_, rfl⟩
    · intro k v hg
      obtain ⟨_, s2, _, _, w2⟩ := sim_run T ops k
      rw [s2] at hg
      cases hreg : (track k ops).reg with
      | none => rw [left, hreg] at hg; simp at hg
      | some t =>
        have hk : (track k ops).known = true := w2 (by rw [hreg]; simp)
        obtain ⟨t', k', e1, e2, h1, h2⟩ := hall k hk
        rw [hreg] at e1
        cases e1
        rw [left, hreg, e2] at hg
        simp only [Option.some.injEq] at hg
        subst hg
        simp only [decide_eq_true_eq]
        exact (decay_pos_iff T t k').mpr ⟨h1, h2⟩
    · intro k v hg
      have s3 := (sim_run T ops k).2.2.1
      rw [s3, flag] at hg
      by_cases hk : (track k ops).known = true
      · obtain ⟨t', k', _, e2, _, _⟩ := hall k hk
        rw [if_pos hk, e2] at hg
        simp only [Option.some.injEq] at hg
        exact hg.symm
      · rw [if_neg hk] at hg; simp at hg

/-- **not_dead_before_first_report** — a subsystem that has not reported since its latest
registration (counter = the `-1` sentinel, whatever number of ticks has fired) or that is not
registered (no counter) never makes `IsAlive` false. -/
theorem not_dead_before_first_report (T : Nat) (ops : List Op) (s : Nat)
    (h : (track s ops).rep = none) : AList.get (run T ops).timeLeft s ≠ some 0 := by
  rw [counter_eq]
  intro h0
  obtain ⟨_, _, _, _, hrep, _⟩ := (left_eq_zero_iff T _).mp h0
  rw [h] at hrep
  simp at hrep

theorem rep_none_of_no_report (s : Nat) (ops : List Op) :
    ∀ h : Track, h.rep = none → (∀ r, Op.report s r ∉ ops) → (trackFrom s h ops).rep = none := by
  induction ops with
  | nil => intro h hn _; exact hn
  | cons o os ih =>
    intro h hn hno
    have hos : ∀ r, Op.report s r ∉ os := fun r hm => hno r (List.mem_cons_of_mem _ hm)
    apply ih _ _ hos
    cases o with
    | register s' t => simp only [Track.step]; split <;> simp [hn]
    | unregister s' => simp only [Track.step]; split <;> simp [hn]
    | report s' r =>
      simp only [Track.step]
      by_cases e : s' = s
      · subst e
        exact absurd (List.mem_cons_self) (hno r)
      · simp [e, hn]
    | tick => simp [Track.step, hn]

/-- corollary: however many subsystems register and however long they stay silent, nobody is
dead as long as nobody has reported. -/
theorem alive_if_nobody_reported (T : Nat) (ops : List Op) (h : ∀ s r, Op.report s r ∉ ops) :
    isAlive (run T ops) = true := by
  rw [alive_iff]
  rintro s ⟨_, _, _, _, hrep, _⟩
  have := rep_none_of_no_report s ops {} rfl (h s)
  unfold track at hrep
  rw [this] at hrep
  simp at hrep

/-- tick form of "never dead": fewer than `timeout/T` ticks since the latest report ⇒ the
counter is exactly `timeout - k·T`, which is positive. -/
theorem counter_of_recent_report (T : Nat) (ops : List Op) (s : Nat) (t : Int) (k : Nat) (r : Bool)
    (hreg : (track s ops).reg = some t) (hrep : (track s ops).rep = some (k, r))
    (hpos : 0 < t) (hk : ((k * T : Nat) : Int) < t) :
    AList.get (run T ops).timeLeft s = some (t - ((k * T : Nat) : Int)) := by
  rw [counter_eq, left, hreg, hrep]
  simp only [decay_pos T hpos, if_pos hk]

/-- tick form of "dead if silent": `timeout/T` or more ticks since the latest report ⇒ the counter
is `0` and `IsAlive` is false. -/
theorem dead_of_ticks (T : Nat) (ops : List Op) (s : Nat) (t : Int) (k : Nat) (r : Bool)
    (hreg : (track s ops).reg = some t) (hrep : (track s ops).rep = some (k, r))
    (h0 : 0 ≤ t) (hk : t ≤ ((k * T : Nat) : Int)) :
    AList.get (run T ops).timeLeft s = some 0 ∧ isAlive (run T ops) = false := by
  have hto : TimedOut T (track s ops) := ⟨t, k, r, hreg, hrep, h0, hk⟩
  refine ⟨by rw [counter_eq]; exact (left_eq_zero_iff T _).mpr hto, ?_⟩
  cases ha : isAlive (run T ops) with
  | false => rfl
  | true => exact absurd hto ((alive_iff T ops).mp ha s)

/-! ## From wall-clock intervals to tick counts -/

/-- **ticks_in_interval** — whatever the phase `a` of the interval relative to the ticker, an
interval `(a, a+d]` contains at least `⌊d/T⌋` and at most `⌊d/T⌋ + 1` tick instants. -/
theorem ticks_in_interval (T : Nat) (hT : 0 < T) (a d : Nat) :
    d / T ≤ ticksIn T a d ∧ ticksIn T a d ≤ d / T + 1 := by
  unfold ticksIn
  have h1 : a / T + d / T ≤ (a + d) / T := by
    rw [Nat.le_div_iff_mul_le hT, Nat.add_mul]
    exact Nat.add_le_add (Nat.div_mul_le_self a T) (Nat.div_mul_le_self d T)
  have h2 : (a + d) / T < a / T + d / T + 2 := by
    rw [Nat.div_lt_iff_lt_mul hT, Nat.add_mul, Nat.add_mul]
    have ha := Nat.div_add_mod a T
    have hd := Nat.div_add_mod d T
    have ha' := Nat.mod_lt a hT
    have hd' := Nat.mod_lt d hT
    rw [Nat.mul_comm] at ha hd
    generalize a / T * T = x at *
    generalize d / T * T = y at *
    omega
  generalize (a + d) / T = c at *
  generalize a / T = e at *
  generalize d / T = f at *
  omega

/-- the same in the form the proofs use: with `k` the number of ticks between instants `a ≤ now`,
`now - a < k·T + T` and `k·T ≤ (now - a) + T`. -/
theorem ticks_times_period (T : Nat) (hT : 0 < T) {a now : Nat} (ha : a ≤ now) :
    now - a < (now / T - a / T) * T + T ∧ (now / T - a / T) * T ≤ (now - a) + T := by
  have hk := ticks_in_interval T hT a (now - a)
  unfold ticksIn at hk
  rw [Nat.add_sub_cancel' ha] at hk
  generalize now / T - a / T = k at *
  generalize he : now - a = e at *
  have hm := Nat.div_add_mod e T
  have hl := Nat.mod_lt e hT
  rw [Nat.mul_comm] at hm
  have u1 : e / T * T ≤ k * T := Nat.mul_le_mul_right T hk.1
  have u2 : k * T ≤ (e / T + 1) * T := Nat.mul_le_mul_right T hk.2
  rw [Nat.add_mul, Nat.one_mul] at u2
  generalize e / T * T = x at *
  generalize k * T = y at *
  omega

/-! ## Wall-clock level -/

/-- `Frequent`: if the subsystem is registered and has reported since, its timeout is positive
and its latest report is less than `timeout - T` old.  (Unregistered or not-yet-reported
subsystems satisfy it vacuously: they cannot be dead.) -/
def Frequent (T : Nat) (h : TTrack) : Prop :=
  ∀ t a r, h.reg = some t → h.rep = some (a, r) → 0 < t ∧ ((h.now - a : Nat) : Int) + (T : Int) < t

/-- `Silent`: registered with a non-negative timeout, and the latest report since registration
is more than `timeout + T` old. -/
def Silent (T : Nat) (h : TTrack) : Prop :=
  ∃ t a r, h.reg = some t ∧ h.rep = some (a, r) ∧ 0 ≤ t ∧ t + (T : Int) < ((h.now - a : Nat) : Int)

theorem not_timedOut_of_frequent (T : Nat) (hT : 0 < T) (tops : List TOp) (s : Nat)
    (hf : Frequent T (ttrack s tops)) : ¬ TimedOut T (track s (compile T 0 tops)) := by
  obtain ⟨_, _, r3, r4, r5⟩ := rel_run T s tops
  rintro ⟨t, k, r, hreg, hrep, _, hk⟩
  rw [r3] at hreg
  rw [r4] at hrep
  cases hp : (ttrack s tops).rep with
  | none => rw [hp] at hrep; simp at hrep
  | some p =>
    obtain ⟨a, r'⟩ := p
    rw [hp] at hrep
    simp only [Option.map_some, Option.some.injEq, Prod.mk.injEq] at hrep
    obtain ⟨hk', _⟩ := hrep
    have ha := r5 a r' hp
    obtain ⟨hpos, hgap⟩ := hf t a r' hreg hp
    have := (ticks_times_period T hT ha).2
    rw [hk'] at this
    generalize (ttrack s tops).now - a = e at *
    generalize k * T = y at *
    omega

theorem timedOut_of_silent (T : Nat) (hT : 0 < T) (tops : List TOp) (s : Nat)
    (hs : Silent T (ttrack s tops)) : TimedOut T (track s (compile T 0 tops)) := by
  obtain ⟨_, _, r3, r4, r5⟩ := rel_run T s tops
  obtain ⟨t, a, r, hreg, hrep, h0, hgap⟩ := hs
  have ha := r5 a r hrep
  refine ⟨t, (ttrack s tops).now / T - a / T, r, by rw [r3]; exact hreg, by rw [r4, hrep]; rfl, h0, ?_⟩
  have := (ticks_times_period T hT ha).1
  generalize (ttrack s tops).now - a = e at *
  generalize ((ttrack s tops).now / T - a / T) * T = y at *
  omega

/-- pointwise form, any period `T > 0`: at any instant of any history, a subsystem whose latest
report is less than `timeout - T` old has a positive counter. -/
theorem counter_pos_of_frequent (T : Nat) (hT : 0 < T) (tops : List TOp) (s : Nat)
    (hf : Frequent T (ttrack s tops)) : AList.get (trun T tops).core.timeLeft s ≠ some 0 := by
  rw [trun_core, counter_eq]
  intro h0
  exact not_timedOut_of_frequent T hT tops s hf ((left_eq_zero_iff T _).mp h0)

theorem alive_of_all_frequent (T : Nat) (hT : 0 < T) (tops : List TOp)
    (h : ∀ s, Frequent T (ttrack s tops)) : isAlive (trun T tops).core = true := by
  rw [trun_core, alive_iff]
  intro s
  exact not_timedOut_of_frequent T hT tops s (h s)

/-- **never_dead_if_frequent** — take any timed history (registrations, unregistrations,
reports, clock advances of any size, any phase relative to the 500 ms ticker).  If at every
instant of it subsystem `s` — whenever registered with a (positive) timeout and having
reported — reported less than `timeout - TickerTime` ago, i.e. every gap between its reports
(and the time since the last one) is shorter than its timeout minus one tick, then at every
instant its counter is not `0`: it is never reported dead. -/
theorem never_dead_if_frequent (tops : List TOp) (s : Nat)
    (h : ∀ p, p <+: tops → Frequent TickerTime (ttrack s p)) :
    ∀ p, p <+: tops → AList.get (trun TickerTime p).core.timeLeft s ≠ some 0 :=
  fun p hp => counter_pos_of_frequent TickerTime tickerTime_pos p s (h p hp)

/-- system form: if every subsystem reports that frequently, `IsAlive` is true at every
instant of the history. -/
theorem never_dead_if_all_frequent (tops : List TOp)
    (h : ∀ p, p <+: tops → ∀ s, Frequent TickerTime (ttrack s p)) :
    ∀ p, p <+: tops → isAlive (trun TickerTime p).core = true :=
  fun p hp => alive_of_all_frequent TickerTime tickerTime_pos p (h p hp)

/-- **dead_if_silent** — at any instant of any timed history, a registered subsystem (timeout
`≥ 0`) whose latest report is more than `timeout + TickerTime` old has counter `0`, and
`IsAlive` answers false. -/
theorem dead_if_silent (tops : List TOp) (s : Nat) (hs : Silent TickerTime (ttrack s tops)) :
    AList.get (trun TickerTime tops).core.timeLeft s = some 0 ∧
      isAlive (trun TickerTime tops).core = false := by
  obtain ⟨t, k, r, hreg, hrep, h0, hk⟩ := timedOut_of_silent TickerTime tickerTime_pos tops s hs
  rw [trun_core]
  exact dead_of_ticks TickerTime _ s t k r hreg hrep h0 hk

theorem silent_stable (T : Nat) (s : Nat) (more : List TOp) :
    ∀ h : TTrack, Silent T h → (∀ o, o ∈ more → subject o ≠ some s) →
      Silent T (ttrackFrom s h more) := by
  induction more with
  | nil => intro h hs _; exact hs
  | cons o os ih =>
    intro h hs hno
    apply ih _ _ (fun o' ho' => hno o' (List.mem_cons_of_mem _ ho'))
    have ho := hno o List.mem_cons_self
    cases o with
    | register s' t =>
      have e : ¬ s' = s := fun e => ho (by simp [subject, e])
      simp only [TTrack.step, e, if_false]; exact hs
    | unregister s' =>
      have e : ¬ s' = s := fun e => ho (by simp [subject, e])
      simp only [TTrack.step, e, if_false]; exact hs
    | report s' r =>
      have e : ¬ s' = s := fun e => ho (by simp [subject, e])
      simp only [TTrack.step, e, if_false]; exact hs
    | adv d =>
      obtain ⟨t, a, r, hreg, hrep, h0, hgap⟩ := hs
      refine ⟨t, a, r, hreg, hrep, h0, ?_⟩
      simp only [TTrack.step]
      omega

/-- **… until it reports again** — once silent for more than `timeout + TickerTime`, the
subsystem stays reported dead through any continuation (clock advances, operations of other
subsystems) that contains no register / unregister / report of its own. -/
theorem dead_until_next_report (tops more : List TOp) (s : Nat)
    (hs : Silent TickerTime (ttrack s tops)) (hno : ∀ o, o ∈ more → subject o ≠ some s) :
    isAlive (trun TickerTime (tops ++ more)).core = false := by
  have : Silent TickerTime (ttrack s (tops ++ more)) := by
    unfold ttrack ttrackFrom
    rw [List.foldl_append]
    exact silent_stable TickerTime s more _ hs hno
  exact (dead_if_silent _ s this).2

/-- **… and alive again immediately after it** — a report by a registered subsystem puts its
counter back to its full timeout at once (so with a positive timeout it is not dead any more),
whatever happened before. -/
theorem alive_again_after_report (T : Nat) (tops : List TOp) (s : Nat) (t : Int) (r : Bool)
    (hreg : (ttrack s tops).reg = some t) :
    AList.get (trun T (tops ++ [.report s r])).core.timeLeft s = some t := by
  have h1 : AList.get (trun T tops).core.timeouts s = some t := by
    rw [trun_core, (sim_run T _ s).1, (rel_run T s tops).2.2.1]
    exact hreg
  unfold trun at h1 ⊢
  rw [List.foldl_append]
  simp only [List.foldl_cons, List.foldl_nil, tstep, expand, runFrom, step, h1, AList.get_put,
    if_true]

/-- `ReadyPossible`: registered with a positive timeout, latest report since registration said
ready and is less than `timeout + T` old. -/
def ReadyPossible (T : Nat) (h : TTrack) : Prop :=
  ∃ t a, h.reg = some t ∧ h.rep = some (a, true) ∧ 0 < t ∧ ((h.now - a : Nat) : Int) < t + (T : Int)

/-- `ReadySure`: registered with a positive timeout, latest report since registration said ready
and is less than `timeout - T` old. -/
def ReadySure (T : Nat) (h : TTrack) : Prop :=
  ∃ t a, h.reg = some t ∧ h.rep = some (a, true) ∧ 0 < t ∧ ((h.now - a : Nat) : Int) + (T : Int) < t

theorem ready_only_if_T (T : Nat) (hT : 0 < T) (tops : List TOp)
    (h : isReady (trun T tops).core = true) :
    (∃ s, (ttrack s tops).known = true) ∧
      ∀ s, (ttrack s tops).known = true → ReadyPossible T (ttrack s tops) := by
  rw [trun_core, ready_iff] at h
  obtain ⟨⟨s0, hs0⟩, hall⟩ := h
  refine ⟨⟨s0, by rw [← (rel_run T s0 tops).2.1]; exact hs0⟩, ?_⟩
  intro s hk
  obtain ⟨_, r2, r3, r4, r5⟩ := rel_run T s tops
  obtain ⟨t, k, hreg, hrep, hpos, hlt⟩ := hall s (by rw [r2]; exact hk)
  rw [r3] at hreg
  rw [r4] at hrep
  cases hp : (ttrack s tops).rep with
  | none => rw [hp] at hrep; simp at hrep
  | some p =>
    obtain ⟨a, r'⟩ := p
    rw [hp] at hrep
    simp only [Option.map_some, Option.some.injEq, Prod.mk.injEq] at hrep
    obtain ⟨hk', hr'⟩ := hrep
    subst hr'
    have ha := r5 a _ hp
    refine ⟨t, a, hreg, hp, hpos, ?_⟩
    have := (ticks_times_period T hT ha).1
    rw [hk'] at this
    generalize (ttrack s tops).now - a = e at *
    generalize k * T = y at *
    omega

theorem ready_if_T (T : Nat) (hT : 0 < T) (tops : List TOp)
    (h1 : ∃ s, (ttrack s tops).known = true)
    (h2 : ∀ s, (ttrack s tops).known = true → ReadySure T (ttrack s tops)) :
    isReady (trun T tops).core = true := by
  rw [trun_core, ready_iff]
  obtain ⟨s0, hs0⟩ := h1
  refine ⟨⟨s0, by rw [(rel_run T s0 tops).2.1]; exact hs0⟩, ?_⟩
  intro s hk
  obtain ⟨_, r2, r3, r4, r5⟩ := rel_run T s tops
  obtain ⟨t, a, hreg, hrep, hpos, hgap⟩ := h2 s (by rw [← r2]; exact hk)
  have ha := r5 a _ hrep
  refine ⟨t, (ttrack s tops).now / T - a / T, by rw [r3]; exact hreg, by rw [r4, hrep]; rfl, hpos, ?_⟩
  have := (ticks_times_period T hT ha).2
  generalize (ttrack s tops).now - a = e at *
  generalize ((ttrack s tops).now / T - a / T) * T = y at *
  omega

/-- **ready_only_if** (the property's sentence) — at any instant of any timed history, if
`IsReady` answers true then at least one subsystem has been registered, and every subsystem ever
registered or unregistered is currently registered (has not unregistered since), has reported
since and declared itself ready in its latest report, and that report is less than
`timeout + TickerTime` old. -/
theorem ready_only_if (tops : List TOp) (h : isReady (trun TickerTime tops).core = true) :
    (∃ s, (ttrack s tops).known = true) ∧
      ∀ s, (ttrack s tops).known = true → ReadyPossible TickerTime (ttrack s tops) :=
  ready_only_if_T TickerTime tickerTime_pos tops h

/-- **ready_if** (the converse, up to the tick granularity) — if at least one subsystem has been
registered and every subsystem ever registered or unregistered is currently registered and
declared itself ready less than `timeout - TickerTime` ago, `IsReady` answers true. -/
theorem ready_if (tops : List TOp) (h1 : ∃ s, (ttrack s tops).known = true)
    (h2 : ∀ s, (ttrack s tops).known = true → ReadySure TickerTime (ttrack s tops)) :
    isReady (trun TickerTime tops).core = true :=
  ready_if_T TickerTime tickerTime_pos tops h1 h2

/-! ## Non-vacuity and necessity of the hypotheses (evaluated by the kernel; times in ns) -/

-- 1.5 s timeout: reports every 0.9 s (< 1.5 s − 0.5 s) keep it alive and ready …
example : isAlive (trun TickerTime [.adv 499999999, .register 0 1500000000, .report 0 true,
    .adv 900000000, .report 0 true, .adv 999999999]).core = true := by decide
example : isReady (trun TickerTime [.adv 499999999, .register 0 1500000000, .report 0 true,
    .adv 900000000, .report 0 true, .adv 999999999]).core = true := by decide
-- … while a gap of timeout − tick + 2 ns starting 1 ns before a tick is already fatal (3 ticks)
example : isAlive (trun TickerTime [.adv 499999999, .register 0 1500000000, .report 0 true,
    .adv 1000000002]).core = false := by decide
-- a silence of timeout + tick − 2 ns starting on a tick instant is survived (3 ticks, 1 ns left) …
example : isAlive (trun TickerTime [.register 0 1500000001, .report 0 true,
    .adv 1999999999]).core = true := by decide
-- … one of timeout + tick + 1 ns is not, wherever it starts
example : isAlive (trun TickerTime [.register 0 1500000001, .report 0 true,
    .adv 2000000002]).core = false := by decide
example : isAlive (trun TickerTime [.adv 1, .register 0 1500000001, .report 0 true,
    .adv 2000000002]).core = false := by decide
-- dead, then alive again at once on the next report; unready reports keep it alive, not ready
example : (let st := (trun TickerTime [.register 0 1000000000, .report 0 true, .adv 2000000000,
    .report 0 false]).core; (isAlive st, isReady st)) = (true, false) := by decide
-- never reported: any number of ticks leaves the -1 sentinel, alive and not ready
example : (let st := (trun TickerTime [.register 0 1000000000, .adv 10000000000]).core;
    (isAlive st, isReady st, AList.get st.timeLeft 0)) = (true, false, some (-1)) := by decide
-- unregistering makes the system not ready; re-registering and reporting makes it ready again
example : isReady (run TickerTime [.register 0 1000000000, .report 0 true, .unregister 0]) = false := by
  decide
example : isReady (run TickerTime [.register 0 1000000000, .report 0 true, .unregister 0,
    .register 0 1000000000, .report 0 true]) = true := by decide
-- necessity of `0 < timeout` in never_dead: zero timeout, dead at the first report
example : isAlive (trun TickerTime [.register 0 0, .report 0 true]).core = false := by decide
-- necessity of `0 ≤ timeout` in dead_if_silent: a negative timeout is never decremented
example : isAlive (trun TickerTime [.register 0 (-2000000000), .report 0 true,
    .adv 10000000000]).core = true := by decide

end Refinery.Props.C30
