import Refinery.Model.SentCache
import Refinery.Lemmas.SentCacheInv
import Refinery.Gen.Sentcache
/-!
# C31 — the decision cache remembers what it promises

Statement (properties.jsonl): a worker's decision cache answers 'kept', with the recorded rate and
reason, for every kept trace among its most recently recorded or consulted kept decisions up to
its per-worker kept capacity, and a resize keeps the newest of them up to the new capacity.  A
trace recorded as dropped is answered 'dropped', even if it was also recorded as kept, at least
until the dropped-trace filter has been filled to capacity since the record (barring add-queue
overflow and filter false positives).

All theorems quantify over arbitrary parameters `cfg` (library sizing function, hash function,
thresholds, queue depth, TTL) and arbitrary operation histories `ops : List Op` — records, both
kinds of lookup, queue drains and maintenance cycles with arbitrary adversarial filter behaviour,
resizes and clock advances.
-/
namespace Refinery.Props.C31
open Refinery Refinery.Model.SentCache Refinery.Lemmas.SentCache

/-!
Vocabulary (defined in `Refinery/Lemmas/SentCacheInv.lean`):
`keptIds s` ids of the kept list, most recently used first · `transcript`/`touches`/`dedup` the
observable run, its touch sequence (kept records and consults answered "kept", most recent first)
and first-occurrence de-duplication · `kevs`/`specK` the recency specification with resizes ·
`lastKept ops id` rate and reason of the latest kept record · `HashInj` no reason-hash collision ·
`losesCur id op` a failed insert of `op` kicks `id` out · `rotates cfg s op` / `NoRotation` ·
`advTotal ops` total clock advance.

Proved there and not restated here: `kept_within_capacity`, `resize_keeps_newest_run`,
`resize_zero_refused` (size 0 is refused, nothing changes), `reasonGet_stable` (an interned index
keeps its meaning), `kinv_run` (table and entry invariant in every reachable state),
`kept_answered_span` (the `CheckSpan` form, counters after counting the span), `record_enqueues`,
`overflow_loses_record`, `rotates_observable`, `no_nil_current` (with futPm ≤ rotPm `current` is never
nil), `wfr_run`.
-/

/-! ## Kept side -/

/-- **lru_refines_spec** — after any history (resizes included) the kept ids and capacity are
exactly what the recency specification computes from the observable transcript: every kept record
and every consult answered "kept" moves the id to the front and the first `cap` stay; a
successful resize to `k` keeps the first `k`. -/
theorem lru_refines_spec (cfg : Cfg) (kc dc : Nat) (ops : List Op) :
    (keptIds (run cfg kc dc ops), (run cfg kc dc ops).keptCap)
      = (kevs cfg (init cfg kc dc) ops).foldl specK ([], kc) :=
  Refinery.Lemmas.SentCache.lru_refines_spec cfg kc dc ops

/-- **lru_refines_recency** — after any history without resize, the kept ids are exactly the
first `cap` elements of the history's touch sequence (kept records and consults answered "kept"),
most recent first, de-duplicated. -/
theorem lru_refines_recency (cfg : Cfg) (kc dc : Nat) (ops : List Op)
    (h : ∀ o ∈ ops, isResize o = false) :
    keptIds (run cfg kc dc ops) = (dedup (touches (transcript cfg (init cfg kc dc) ops))).take kc :=
  Refinery.Lemmas.SentCache.lru_refines_recency cfg kc dc ops h

/-- **kept_prefix_of_recency** — after any history, resizes included, the kept ids are a prefix of
the de-duplicated touch sequence read most recent first: whatever is retained is the newest. -/
theorem kept_prefix_of_recency (cfg : Cfg) (kc dc : Nat) (ops : List Op) :
    keptIds (run cfg kc dc ops) <+: dedup (touches (transcript cfg (init cfg kc dc) ops)) :=
  Refinery.Lemmas.SentCache.kept_prefix_of_recency cfg kc dc ops

/-- **resize_keeps_newest** — a resize to a positive per-worker size `k` leaves exactly the first
`min(len, k)` entries of the old recency order, in the same order (entries, counters and all). -/
theorem resize_keeps_newest (cfg : Cfg) (s : St) (k d : Nat) (hk : k ≠ 0) :
    (step cfg s (.resize k d)).1.kept = s.kept.take k ∧ (step cfg s (.resize k d)).1.keptCap = k ∧
    (step cfg s (.resize k d)).2 = .resizeOk :=
  Refinery.Lemmas.SentCache.resize_keeps_newest cfg s k d hk

/-- **reason_roundtrip** — the index `Set` returns for a reason reads back as that reason
(no hash collision assumed) … -/
theorem reason_roundtrip (hash : Nat → Nat) (hinj : HashInj hash) (t : Reasons) (r : Nat)
    (hinv : RInv hash t) :
    reasonGet (reasonSet hash t r).1 (reasonSet hash t r).2 = some r :=
  Refinery.Lemmas.SentCache.reason_roundtrip hash hinj t r hinv

/-- **kept_answered** — after any history, a trace that is still in the kept list and is neither in
the dropped filter nor in the recent-drop set is answered "kept" by `CheckTrace`, with the rate (as `uint32`) and the reason
of its most recent kept record. -/
theorem kept_answered (cfg : Cfg) (hinj : HashInj cfg.hash) (kc dc : Nat) (ops : List Op) (id : Nat)
    (e : Entry) (hfind : lruFind (run cfg kc dc ops).kept id = some e)
    (hnd : (run cfg kc dc ops).cur.ids.contains id = false)
    (hnr : recentHas (run cfg kc dc ops) id = false) :
    ∃ rate why, lastKept ops id = some (rate, why) ∧
      (step cfg (run cfg kc dc ops) (.checkTrace id false)).2 = .ans (.kept (u32 rate) why e.ev e.se e.sl e.sp) :=
  Refinery.Lemmas.SentCache.kept_answered cfg hinj kc dc ops id e hfind hnd hnr

/-- **kept_answered_recent** — the property's kept clause: after any resize-free history, every
trace among the first `cap` distinct entries of the touch sequence (most recent first) that neither the
dropped filter nor the recent-drop set claims is answered "kept" with its recorded rate and reason. -/
theorem kept_answered_recent (cfg : Cfg) (hinj : HashInj cfg.hash) (kc dc : Nat) (ops : List Op) (id : Nat)
    (hnores : ∀ o ∈ ops, isResize o = false)
    (hrecent : id ∈ (dedup (touches (transcript cfg (init cfg kc dc) ops))).take kc)
    (hnd : (run cfg kc dc ops).cur.ids.contains id = false)
    (hnr : recentHas (run cfg kc dc ops) id = false) :
    ∃ rate why ev se sl sp, lastKept ops id = some (rate, why) ∧
      (step cfg (run cfg kc dc ops) (.checkTrace id false)).2 = .ans (.kept (u32 rate) why ev se sl sp) :=
  Refinery.Lemmas.SentCache.kept_answered_recent cfg hinj kc dc ops id hnores hrecent hnd hnr

/-! ## Dropped side -/

/-- **dropped_wins** — in every state, an id the current dropped filter or the recent-drop set
holds is answered "dropped" by both lookups, whatever the kept list says (the kept list is not
even consulted); a filter false positive (`fp`) has the same effect. -/
theorem dropped_wins (cfg : Cfg) (s : St) (id kind : Nat) (fp : Bool) :
    (id ∈ s.cur.ids ∨ recentHas s id = true → (step cfg s (.checkTrace id fp)).2 = .ans .dropped) ∧
    (id ∈ s.cur.ids ∨ recentHas s id = true → (step cfg s (.checkSpan id kind fp)).2 = .ans .dropped) ∧
    (step cfg s (.checkTrace id true)).2 = .ans .dropped :=
  ⟨dropped_wins_trace cfg s id fp, dropped_wins_span cfg s id kind fp, false_positive_answers_dropped cfg s id⟩

/-- **drain_settles** — a drain that takes the id from the queue puts it into the current filter
(and into the future filter when there is one) unless a failed insert kicked it out. -/
theorem drain_settles (cfg : Cfg) (s s' : St) (a : Adv) (id : Nat) (h : drainCore cfg s a = some s')
    (hq : id ∈ s.queue.take a.k) :
    (a.lostC.contains id = false → id ∈ s'.cur.ids) ∧
    (∀ f, s.fut = some f → a.lostF.contains id = false → ∃ f', s'.fut = some f' ∧ id ∈ f'.ids) :=
  Refinery.Lemmas.SentCache.drain_settles cfg s s' a id h hq

/-- **rotation_needs_full** — `Maintain` rotates only when, after its own drain, the current
filter's load exceeds `rotPm`/1000 (0.99 in the code: see `gen_constants`). -/
theorem rotation_needs_full (cfg : Cfg) (s : St) (a : Adv) (h : rotates cfg s (.maintain a) = true) :
    ∃ s1, drainCore cfg s a = some s1 ∧ 1000 * s1.cur.count > cfg.rotPm * s1.cur.slots :=
  Refinery.Lemmas.SentCache.rotation_needs_full cfg s a h

/-- **dropped_until_rotation** — from any state in which the current filter holds `id`, through
any further operations none of which kicks `id` out by a failed insert and none of which rotates
the filters, both lookups still answer "dropped" — whatever was or is recorded as kept. -/
theorem dropped_until_rotation (cfg : Cfg) (s : St) (suf : List Op) (id : Nat) (hin : id ∈ s.cur.ids)
    (hl : ∀ o ∈ suf, losesCur id o = false) (hr : NoRotation cfg s suf) (fp : Bool) (kind : Nat) :
    (step cfg (runFrom cfg s suf) (.checkTrace id fp)).2 = .ans .dropped ∧
    (step cfg (runFrom cfg s suf) (.checkSpan id kind fp)).2 = .ans .dropped :=
  Refinery.Lemmas.SentCache.dropped_until_rotation cfg s suf id hin hl hr fp kind

/-- **dropped_until_rotation** at the level of histories: after any history whose add queue is
not full, a drop record followed by a drain of the whole queue in which the id is not kicked out
is answered "dropped" until the filters rotate — which needs a load above `rotPm`/1000
(`rotation_needs_full`) — even when the trace was, or later is, recorded as kept. -/
theorem dropped_until_rotation_run (cfg : Cfg) (kc dc : Nat) (pre suf : List Op) (id : Nat) (a : Adv)
    (hroom : (run cfg kc dc pre).queue.length < cfg.depth)
    (hk : a.k = (run cfg kc dc pre).queue.length + 1)
    (hvalid : (drainCore cfg (run cfg kc dc (pre ++ [.recDrop id])) a).isSome = true)
    (hkeep : a.lostC.contains id = false)
    (hl : ∀ o ∈ suf, losesCur id o = false)
    (hr : NoRotation cfg (run cfg kc dc (pre ++ [.recDrop id, .drain a])) suf) (fp : Bool) (kind : Nat) :
    (step cfg (run cfg kc dc (pre ++ [.recDrop id, .drain a] ++ suf)) (.checkTrace id fp)).2 = .ans .dropped ∧
    (step cfg (run cfg kc dc (pre ++ [.recDrop id, .drain a] ++ suf)) (.checkSpan id kind fp)).2 = .ans .dropped :=
  Refinery.Lemmas.SentCache.dropped_until_rotation_run cfg kc dc pre suf id a hroom hk hvalid hkeep hl hr fp kind

/-- **dropped_survives_rotation** — an id that is also in the future filter (it was drained after
the future filter was started) is still answered "dropped" after the next rotation. -/
theorem dropped_survives_rotation (cfg : Cfg) (s : St) (a : Adv) (f : Filter) (id : Nat)
    (hf : s.fut = some f) (hin : id ∈ f.ids) (hl : a.lostF.contains id = false)
    (hrot : rotates cfg s (.maintain a) = true) : id ∈ (step cfg s (.maintain a)).1.cur.ids :=
  Refinery.Lemmas.SentCache.dropped_survives_rotation cfg s a f id hf hin hl hrot

/-- **recent_covers_gap** — after any history, a drop record is answered "dropped" by both
lookups through whatever happens next (queue overflow, no drain at all, filter rotations, kept
records of the same trace) as long as the clock has advanced by at most the recent-drop TTL since
— the expiry instant included. -/
theorem recent_covers_gap (cfg : Cfg) (kc dc : Nat) (pre suf : List Op) (id kind : Nat) (fp : Bool)
    (hadv : (advTotal suf : Int) ≤ cfg.ttl) :
    (step cfg (run cfg kc dc (pre ++ [.recDrop id] ++ suf)) (.checkSpan id kind fp)).2 = .ans .dropped ∧
    (step cfg (run cfg kc dc (pre ++ [.recDrop id] ++ suf)) (.checkTrace id fp)).2 = .ans .dropped :=
  Refinery.Lemmas.SentCache.recent_covers_gap cfg kc dc pre suf id kind fp hadv

/-! ## Right after the record (repaired by /repo 10253ac: `CheckTrace` consults the recent-drop set) -/

/-- The full-strength reading of "a trace recorded as dropped is answered dropped": right after
the record (no clock advance) *both* lookups answer "dropped" — whether or not the add queue has
been drained, or even had room. -/
def FullStatement : Prop :=
  ∀ (cfg : Cfg) (kc dc : Nat) (pre : List Op) (id kind : Nat), 0 ≤ cfg.ttl →
    (step cfg (run cfg kc dc (pre ++ [.recDrop id])) (.checkSpan id kind false)).2 = .ans .dropped ∧
    (step cfg (run cfg kc dc (pre ++ [.recDrop id])) (.checkTrace id false)).2 = .ans .dropped

def cfg0 : Cfg :=
  { slots := fun _ => 8, hash := fun r => r, depth := 1000, futPm := 500, rotPm := 990, minFull := 4,
    ttl := 3000000000 }

/-- **full_statement** — holds for every history since the repair (before it, `rd 1; ct 1`
answered "not found": corpus/C31/checktrace-gap.ops keeps that witness as a regression). -/
theorem full_statement : FullStatement := by
  intro cfg kc dc pre id kind h0
  have := Refinery.Lemmas.SentCache.recent_covers_gap cfg kc dc pre [] id kind false (by simpa [advTotal] using h0)
  simpa using this

-- the former witnesses now answer "dropped"
example : (step cfg0 (run cfg0 2 8 [.recDrop 1]) (.checkTrace 1 false)).2 = .ans .dropped := by decide
example : (step cfg0 (run cfg0 2 8 [.recKept 1 10 3 0 0 0 1, .recDrop 1]) (.checkTrace 1 false)).2
    = .ans .dropped := by decide
-- CheckTrace does not refresh the TTL: never drained, one tick past the TTL it is "kept" again
example : (step cfg0 (run cfg0 2 8 [.recKept 1 10 3 0 0 0 1, .recDrop 1, .adv 3000000000, .checkTrace 1 false,
    .adv 1]) (.checkTrace 1 false)).2 = .ans (.kept 10 3 0 0 0 1) := by decide

/-! ## The constants, as read from the compiled code -/

/-- The thresholds `Maintain` uses (measured on the real code by the harness): the future filter
starts above 50 % load, rotation needs more than 99 % — "filled to capacity" —, the future
threshold is below the rotation threshold (so `current` is never nil), the recent-drop TTL is 3 s
and the add queue holds 1000 ids. -/
theorem gen_constants :
    Refinery.Gen.Sentcache.futurePermille = 500 ∧ Refinery.Gen.Sentcache.rotatePermille ≥ 990 ∧
    Refinery.Gen.Sentcache.rotatePermille < 1000 ∧
    Refinery.Gen.Sentcache.futurePermille ≤ Refinery.Gen.Sentcache.rotatePermille ∧
    Refinery.Gen.Sentcache.recentTTLns = 3000000000 ∧ Refinery.Gen.Sentcache.addQueueDepth = 1000 := by
  decide

/-! ## Non-vacuity: concrete histories evaluated by the kernel -/

-- capacity 2: the third kept record evicts the least recently touched one; a consult refreshes
example : keptIds (run cfg0 2 8 [.recKept 1 10 3 0 0 0 1, .recKept 2 5 4 0 0 0 1, .checkTrace 1 false,
    .recKept 3 7 3 0 0 0 1]) = [3, 1] := by decide
example : (step cfg0 (run cfg0 2 8 [.recKept 1 10 3 0 0 0 1, .recKept 2 5 4 0 0 0 1]) (.checkSpan 1 2 false)).2
    = .ans (.kept 10 3 1 0 1 1) := by decide
-- dropped wins over kept once drained; the recent-drop set covers CheckSpan before the drain
example : (step cfg0 (run cfg0 2 8 [.recKept 1 10 3 0 0 0 1, .recDrop 1, .drain { k := 1 }]) (.checkTrace 1 false)).2
    = .ans .dropped := by decide
example : (step cfg0 (run cfg0 2 8 [.recKept 1 10 3 0 0 0 1, .recDrop 1, .adv 3000000000]) (.checkSpan 1 0 false)).2
    = .ans .dropped := by decide
example : (step cfg0 (run cfg0 2 8 [.recKept 1 10 3 0 0 0 1, .recDrop 1, .adv 3000000001]) (.checkSpan 1 0 false)).2
    = .ans (.kept 10 3 1 0 0 2) := by decide
-- 8 slots: the 8th insert fills the filter; the next maintenance rotates and the first id is forgotten
-- (once the recent-drop TTL has passed too)
example : rotates cfg0 (run cfg0 2 8 ((List.range 8).map .recDrop ++ [.drain { k := 8 }])) (.maintain {}) = true := by
  decide
example : rotates cfg0 (run cfg0 2 8 ((List.range 7).map .recDrop ++ [.drain { k := 7 }])) (.maintain {}) = false := by
  decide
example : (step cfg0 (run cfg0 2 8 ((List.range 5).map .recDrop ++ [.maintain { k := 5 }] ++
    [.recDrop 5, .recDrop 6, .recDrop 7, .maintain { k := 3 }, .adv 3000000001])) (.checkTrace 0 false)).2 = .ans .notFound := by decide
example : (step cfg0 (run cfg0 2 8 ((List.range 5).map .recDrop ++ [.maintain { k := 5 }] ++
    [.recDrop 5, .recDrop 6, .recDrop 7, .maintain { k := 3 }])) (.checkTrace 7 false)).2 = .ans .dropped := by decide
-- resize keeps the newest
example : keptIds (run cfg0 3 8 [.recKept 1 1 0 0 0 0 0, .recKept 2 1 0 0 0 0 0, .recKept 3 1 0 0 0 0 0,
    .resize 2 8]) = [3, 2] := by decide

end Refinery.Props.C31
