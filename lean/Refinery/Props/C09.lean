import Refinery.Model.Decode
import Refinery.Props.C08
import Refinery.Props.C11
import Refinery.Gen.Encoding
import Std.Data.String.ToInt
/-!
# C09 — sampling does not depend on wire encoding or span order

Statement (properties.jsonl): the sampling decision, rate and sample key for a trace do not depend
on the order in which its spans arrived or on how each span was encoded (JSON event, JSON batch,
msgpack batch with integers encoded signed or unsigned and floats in 32 or 64 bits, OTLP, or
forwarded from a peer) whenever the encodings carry the same field names and numerically equal
values.  Fields named in the trace-ID and parent-ID configuration are excluded, and dynamic keys are
compared only below the 100-distinct-value cap.

* `order_invariant` — proved for every configuration and trace.
* `EncodingInvariant` — the full statement; **refuted** for the code (`encoding_invariant_refuted`),
  with one witness per failing class (`uint_not_numeric`, `float32_not_numeric`, `bin_not_string`,
  `percent_v_large_int_rules`, `percent_v_large_int_root_key`, `json_batch_number_parse`,
  `forwarded_small_uint`), each reproduced on the real ingestion paths and samplers (corpus/C09).
* `encoding_invariant_partial` — what does hold, under the hypothesis the proof forces (`SafePair`:
  values reach the samplers as int64 / float64 / string / bool / nil, JSON batch literals parsed
  exactly, integers below 10^6), derived from `encoding_invariant_of_sim` (values that the four rule
  coercions and the two key renderings cannot tell apart).
-/
namespace Refinery.Props.C09
open Refinery Refinery.Model Refinery.Model.Decode
open Refinery.Model.Rules (Val Cond Ext condValue)

/-! ## the constants of the compiled code agree with the ones the reused models were checked with -/

example : Gen.Encoding.rootPrefix = Gen.Rules.rootPrefix := by decide
example : Gen.Encoding.rootPrefix = Gen.Tracekey.rootPrefix := by decide
example : Gen.Encoding.maxKeyLength = Gen.Tracekey.maxKeyLength := by decide
example : Gen.Encoding.computedPrefix = Gen.Rules.computedPrefix := by decide

/-! ## rules sampler: the trace enters only through its span list, root span and span count -/

theorem extractLoop_root (t₁ t₂ : Rules.Trace) (h : t₁.root = t₂.root) (s : Rules.Span) (fs : List String)
    (c0 : Bool) : Rules.extractLoop t₁ s fs c0 = Rules.extractLoop t₂ s fs c0 := by
  induction fs generalizing c0 with
  | nil => rfl
  | cons f fs ih => simp only [Rules.extractLoop, h, ih]

/-- with `CheckNestedFields` off (as in every trace built here, `mkRulesTrace`) a value is found
by the field loop or not at all -/
theorem extract_flat (E : Ext) (t : Rules.Trace) (hn : t.nested = false) (s : Rules.Span) (c : Cond) :
    Rules.extract E t s c =
      if Rules.isNumDescendants c then { val := .int t.spans.length, ex := true, cor := true }
      else if (Rules.extractLoop t s (Rules.effFields c) true).ex then Rules.extractLoop t s (Rules.effFields c) true
      else { val := .nil, ex := false, cor := false } := by
  simp [Rules.extract, hn]

theorem extract_congr (E : Ext) (t₁ t₂ : Rules.Trace) (hr : t₁.root = t₂.root)
    (hl : t₁.spans.length = t₂.spans.length) (hn₁ : t₁.nested = false) (hn₂ : t₂.nested = false)
    (s : Rules.Span) (c : Cond) : Rules.extract E t₁ s c = Rules.extract E t₂ s c := by
  simp only [extract_flat E _ hn₁, extract_flat E _ hn₂, hl, extractLoop_root t₁ t₂ hr]

theorem condOnSpan_congr (E : Ext) (t₁ t₂ : Rules.Trace) (hr : t₁.root = t₂.root)
    (hl : t₁.spans.length = t₂.spans.length) (hn₁ : t₁.nested = false) (hn₂ : t₂.nested = false)
    (c : Cond) (s : Rules.Span) : Rules.condOnSpan E t₁ c s = Rules.condOnSpan E t₂ c s := by
  simp only [Rules.condOnSpan, extract_congr E t₁ t₂ hr hl hn₁ hn₂]

/-- Reordering the spans does not change whether a rule matches, in either scope. -/
theorem ruleMatches_perm (E : Ext) (root : Option Rules.Span) (s₁ s₂ : List Rules.Span) (h : s₁.Perm s₂)
    (r : Rules.Rule) :
    Rules.ruleMatches E (mkRulesTrace s₁ root) r = Rules.ruleMatches E (mkRulesTrace s₂ root) r := by
  have hc : ∀ c s, Rules.condOnSpan E (mkRulesTrace s₁ root) c s = Rules.condOnSpan E (mkRulesTrace s₂ root) c s :=
    fun c s => condOnSpan_congr E (mkRulesTrace s₁ root) (mkRulesTrace s₂ root) rfl h.length_eq rfl rfl c s
  have hs₁ : (mkRulesTrace s₁ root).spans = s₁ := rfl
  have hs₂ : (mkRulesTrace s₂ root).spans = s₂ := rfl
  have hroot : (mkRulesTrace s₁ root).root = (mkRulesTrace s₂ root).root := rfl
  unfold Rules.ruleMatches
  cases r.scope with
  | invalid => rfl
  | span =>
    simp only [C08.span_scope_spec, hs₁, hs₂]
    congr 1
    rw [h.any_eq]
    congr 1
    funext s
    simp only [hc]
  | trace =>
    simp only [C08.trace_scope_spec]
    congr 1
    funext c
    simp only [C08.traceCondSpec, hs₁, hs₂, hroot]
    split
    · rfl
    · rw [h.any_eq]
      congr 1
      funext s
      exact hc c s

theorem getSampleRate_congr (E : Ext) (t₁ t₂ : Rules.Trace) (down₁ down₂ : Nat → Option Rules.DownRes)
    (intn : Int → Nat) (rules : List Rules.Rule)
    (hm : ∀ r ∈ rules, Rules.ruleMatches E t₁ r = Rules.ruleMatches E t₂ r)
    (hd : ∀ id, down₁ id = down₂ id) :
    Rules.getSampleRate E t₁ down₁ intn rules = Rules.getSampleRate E t₂ down₂ intn rules := by
  have hdd : down₁ = down₂ := funext hd
  subst hdd
  induction rules with
  | nil => rfl
  | cons r rs ih =>
    simp only [Rules.getSampleRate, hm r List.mem_cons_self]
    rw [ih (fun r' hr' => hm r' (List.mem_cons_of_mem _ hr'))]

/-! ## order invariance -/

/-- "dynamic keys are compared only below the 100-distinct-value cap": fewer than `cap` distinct
values are involved in the dynamic sampler's key and in the key of every dynsampler-backed
downstream sampler of the rules. -/
def BelowCaps (S : Samplers) (spans : List ESpan) : Prop :=
  C11.BelowCap S.cap S.pre S.render S.keyCfg (spans.map (keySpan S.dec)) ∧
  ∀ id c ans r, S.downs id = .keyed c ans r → C11.BelowCap S.cap S.pre S.render c (spans.map (keySpan S.dec))

theorem key_perm (S : Samplers) (c : TraceKey.Cfg) (root : Option ESpan) (s₁ s₂ : List ESpan) (h : s₁.Perm s₂)
    (hcap : C11.BelowCap S.cap S.pre S.render c (s₁.map (keySpan S.dec))) :
    TraceKey.key S.cap S.pre S.render c (keyTrace S.dec ⟨s₁, root⟩) =
      TraceKey.key S.cap S.pre S.render c (keyTrace S.dec ⟨s₂, root⟩) := by
  unfold TraceKey.key keyTrace
  rw [C11.perm_invariant S.cap S.pre S.render c (root.map (keySpan S.dec)) _ _ (h.map (keySpan S.dec)) hcap]

/-- **order_invariant** — for every sampler configuration (rules in trace and span scope, with or
without downstream samplers; dynamic sampler with any key fields), every trace and every
permutation of its spans (the root span being the same span), the rules sampler's decision, rate,
reason and key and the dynamic sampler's key, rate and decision are the same, while fewer than the
cap of distinct values are involved in the keys. -/
theorem order_invariant (S : Samplers) (root : Option ESpan) (s₁ s₂ : List ESpan) (h : s₁.Perm s₂)
    (hcap : BelowCaps S s₁) : outcome S ⟨s₁, root⟩ = outcome S ⟨s₂, root⟩ := by
  have hlen : (s₁.map (keySpan S.dec)).length = (s₂.map (keySpan S.dec)).length := by
    simp [h.length_eq]
  have hk := key_perm S S.keyCfg root s₁ s₂ h hcap.1
  have hdyn : dynOutcome S ⟨s₁, root⟩ = dynOutcome S ⟨s₂, root⟩ := by
    unfold dynOutcome TraceKey.getSampleRate
    simp only [hk]
    simp only [keyTrace, hlen]
  have hdown : ∀ id, downOf S (keyTrace S.dec ⟨s₁, root⟩) id = downOf S (keyTrace S.dec ⟨s₂, root⟩) id := by
    intro id
    unfold downOf
    cases hd : S.downs id with
    | missing => rfl
    | fixed d => rfl
    | keyed c ans r =>
      simp only [key_perm S c root s₁ s₂ h (hcap.2 id c ans r hd)]
      simp only [keyTrace, hlen]
  have hrules : rulesOutcome S ⟨s₁, root⟩ = rulesOutcome S ⟨s₂, root⟩ := by
    unfold rulesOutcome
    apply getSampleRate_congr
    · intro r _
      exact ruleMatches_perm S.E (root.map (rulesSpan S.dec)) _ _ (h.map (rulesSpan S.dec)) r
    · exact hdown
  simp only [outcome, hdyn, hrules]

/-! ## rules sampler: a value enters a condition only through four coercions -/

/-- two Go values that none of the rules sampler's coercions can tell apart: `%v`
(`convertToString`, hence `TryConvertToBool`, the string / regexp / `in` operators),
`tryConvertToInt`, `tryConvertToFloat`, and `compare` against any condition value -/
structure RSim (E : Ext) (v₁ v₂ : Val) : Prop where
  fmt : E.fmt v₁ = E.fmt v₂
  int : Rules.tryInt E v₁ = Rules.tryInt E v₂
  flt : Rules.tryFloat E v₁ = Rules.tryFloat E v₂
  cmp : ∀ c, Rules.compareVals v₁ c = Rules.compareVals v₂ c

theorem compareMatcher_sim (E : Ext) (c : Cond) {v₁ v₂ : Val} (h : RSim E v₁ v₂) (ex : Bool)
    (f : Rules.Matcher) (hf : Rules.compareMatcher E c = some f) : f v₁ ex = f v₂ ex := by
  unfold Rules.compareMatcher at hf
  cases hdt : c.dt <;> simp only [hdt] at hf
  · cases hf
  · cases hf; simp only [h.fmt]
  · cases hv : Rules.tryInt E c.val <;> simp only [hv] at hf
    · cases hf
    · cases hf; simp only [h.int]
  · cases hv : Rules.tryFloat E c.val <;> simp only [hv] at hf
    · cases hf
    · cases hf; simp only [h.flt]
  · split at hf
    · cases hf; simp only [Rules.toBool, h.fmt]
    · cases hf

theorem inBase_sim (E : Ext) (c : Cond) {v₁ v₂ : Val} (h : RSim E v₁ v₂)
    (f : Val → Bool) (hf : Rules.inBase E c = some f) : f v₁ = f v₂ := by
  unfold Rules.inBase at hf
  cases hi : Rules.inItems c <;> simp only [hi] at hf
  · cases hf
  · cases hdt : c.dt <;> simp only [hdt] at hf
    · cases hf; simp only [h.fmt]
    · cases hf; simp only [h.fmt]
    · cases hf; simp only [h.int]
    · cases hf; simp only [h.flt]
    · cases hf

theorem matcher_sim (E : Ext) (c : Cond) {v₁ v₂ : Val} (h : RSim E v₁ v₂) (ex : Bool) (f : Rules.Matcher)
    (hf : Rules.matcher E c = some f) : f v₁ ex = f v₂ ex := by
  unfold Rules.matcher at hf
  cases hop : c.op <;> simp only [hop] at hf
  all_goals first
    | (cases hf; done)
    | (cases hf; simp [h.fmt]; done)
    | exact compareMatcher_sim E c h ex f hf
    | skip
  · split at hf
    · cases hf; simp only [h.fmt]
    · cases hf
  · cases hb : Rules.inBase E c <;> simp only [hb] at hf
    · cases hf
    · cases hf; exact inBase_sim E c h _ hb
  · cases hb : Rules.inBase E c <;> simp only [hb] at hf
    · cases hf
    · cases hf; simp only [inBase_sim E c h _ hb]

/-- Values the four coercions cannot tell apart are matched alike by every condition. -/
theorem condValue_sim (E : Ext) (c : Cond) {v₁ v₂ : Val} (h : RSim E v₁ v₂) (ex : Bool) :
    condValue E c v₁ ex = condValue E c v₂ ex := by
  unfold condValue
  cases hm : Rules.matcherOf E c with
  | none => simp only [Rules.untyped, h.cmp]
  | some f =>
    simp only
    unfold Rules.matcherOf at hm
    split at hm
    · cases hm
    · exact matcher_sim E c h ex f hm


theorem RSim.rfl' (E : Ext) (v : Val) : RSim E v v := ⟨rfl, rfl, rfl, fun _ => rfl⟩

/-- pointwise relation of two lists of the same length (core has no `Forall₂`) -/
inductive All₂ {α β : Type} (R : α → β → Prop) : List α → List β → Prop
  | nil : All₂ R [] []
  | cons {a b l₁ l₂} : R a b → All₂ R l₁ l₂ → All₂ R (a :: l₁) (b :: l₂)

theorem All₂.length_eq {α β : Type} {R : α → β → Prop} {l₁ : List α} {l₂ : List β} (h : All₂ R l₁ l₂) :
    l₁.length = l₂.length := by
  induction h with
  | nil => rfl
  | cons _ _ ih => simp [ih]

theorem All₂.map {α β γ δ : Type} {R : α → β → Prop} {Q : γ → δ → Prop} {f : α → γ} {g : β → δ}
    (hfg : ∀ a b, R a b → Q (f a) (g b)) {l₁ : List α} {l₂ : List β} (h : All₂ R l₁ l₂) :
    All₂ Q (l₁.map f) (l₂.map g) := by
  induction h with
  | nil => exact .nil
  | cons hab _ ih => exact .cons (hfg _ _ hab) ih

theorem All₂.imp {α β : Type} {R Q : α → β → Prop} (hRQ : ∀ a b, R a b → Q a b) {l₁ : List α} {l₂ : List β}
    (h : All₂ R l₁ l₂) : All₂ Q l₁ l₂ := by
  induction h with
  | nil => exact .nil
  | cons hab _ ih => exact .cons (hRQ _ _ hab) ih

theorem optRel_imp {α β : Type} {R Q : α → β → Prop} (hRQ : ∀ a b, R a b → Q a b) {o₁ : Option α} {o₂ : Option β}
    (h : Option.Rel R o₁ o₂) : Option.Rel Q o₁ o₂ := by
  cases h with
  | none => exact .none
  | some hab => exact .some (hRQ _ _ hab)

/-- same field names in the same order, related values -/
def DataSim {α β : Type} (R : α → β → Prop) (a : List (String × α)) (b : List (String × β)) : Prop :=
  All₂ (fun x y => x.1 = y.1 ∧ R x.2 y.2) a b

theorem lookup_sim {α β : Type} {R : α → β → Prop} {a : List (String × α)} {b : List (String × β)}
    (h : DataSim R a b) (f : String) : Option.Rel R (a.lookup f) (b.lookup f) := by
  induction h with
  | nil => exact .none
  | @cons x y l₁ l₂ hxy _ ih =>
    obtain ⟨k₁, v₁⟩ := x
    obtain ⟨k₂, v₂⟩ := y
    simp only at hxy
    obtain ⟨hk, hv⟩ := hxy
    subst hk
    simp only [List.lookup]
    cases hfk : f == k₁
    · exact ih
    · exact .some hv

def SpanSim (E : Ext) (a b : Rules.Span) : Prop := DataSim (RSim E) a.data b.data

structure TSim (E : Ext) (t₁ t₂ : Rules.Trace) : Prop where
  spans : All₂ (SpanSim E) t₁.spans t₂.spans
  root : Option.Rel (SpanSim E) t₁.root t₂.root
  flat₁ : t₁.nested = false        -- `CheckNestedFields` off
  flat₂ : t₂.nested = false

structure ExSim (E : Ext) (x y : Rules.Extract) : Prop where
  val : RSim E x.val y.val
  ex : x.ex = y.ex
  cor : x.cor = y.cor

theorem extractLoop_sim (E : Ext) {t₁ t₂ : Rules.Trace} (hroot : Option.Rel (SpanSim E) t₁.root t₂.root)
    {s₁ s₂ : Rules.Span} (hs : SpanSim E s₁ s₂) (fs : List String) (c0 : Bool) :
    ExSim E (Rules.extractLoop t₁ s₁ fs c0) (Rules.extractLoop t₂ s₂ fs c0) := by
  obtain ⟨sp₁, root₁⟩ := t₁
  obtain ⟨sp₂, root₂⟩ := t₂
  simp only at hroot
  induction fs generalizing c0 with
  | nil => exact ⟨RSim.rfl' E _, rfl, rfl⟩
  | cons f fs ih =>
    simp only [Rules.extractLoop]
    split
    · cases hroot with
      | none => exact ih c0
      | @some r₁ r₂ hr =>
        simp only
        have hl := lookup_sim hr (Rules.dropPrefix f Gen.Rules.rootPrefix)
        revert hl
        generalize r₁.data.lookup (Rules.dropPrefix f Gen.Rules.rootPrefix) = o₁
        generalize r₂.data.lookup (Rules.dropPrefix f Gen.Rules.rootPrefix) = o₂
        intro hl
        cases hl with
        | none => exact ih c0
        | some hv => exact ⟨hv, rfl, rfl⟩
    · have hl := lookup_sim hs f
      revert hl
      generalize s₁.data.lookup f = o₁
      generalize s₂.data.lookup f = o₂
      intro hl
      cases hl with
      | none => exact ih false
      | some hv => exact ⟨hv, rfl, rfl⟩

theorem extract_sim (E : Ext) {t₁ t₂ : Rules.Trace} (ht : TSim E t₁ t₂) {s₁ s₂ : Rules.Span}
    (hs : SpanSim E s₁ s₂) (c : Cond) : ExSim E (Rules.extract E t₁ s₁ c) (Rules.extract E t₂ s₂ c) := by
  rw [extract_flat E t₁ ht.flat₁, extract_flat E t₂ ht.flat₂]
  have h := extractLoop_sim E ht.root hs (Rules.effFields c) true
  split
  · rw [ht.spans.length_eq]; exact ⟨RSim.rfl' E _, rfl, rfl⟩
  · rw [h.ex]
    split
    · exact h
    · exact ⟨RSim.rfl' E _, rfl, rfl⟩

theorem condOnSpan_sim (E : Ext) {t₁ t₂ : Rules.Trace} (ht : TSim E t₁ t₂) {s₁ s₂ : Rules.Span}
    (hs : SpanSim E s₁ s₂) (c : Cond) : Rules.condOnSpan E t₁ c s₁ = Rules.condOnSpan E t₂ c s₂ := by
  have h := extract_sim E ht hs c
  unfold Rules.condOnSpan
  rw [h.ex, condValue_sim E c h.val]

theorem traceCond_sim (E : Ext) {t₁ t₂ : Rules.Trace} (ht : TSim E t₁ t₂) (c : Cond)
    {l₁ l₂ : List Rules.Span} (hl : All₂ (SpanSim E) l₁ l₂) :
    Rules.traceCond E t₁ c l₁ = Rules.traceCond E t₂ c l₂ := by
  induction hl with
  | nil => rfl
  | cons hs _ ih =>
    simp only [Rules.traceCond, condOnSpan_sim E ht hs c, (extract_sim E ht hs c).cor, ih]

theorem traceLoop_sim (E : Ext) {t₁ t₂ : Rules.Trace} (ht : TSim E t₁ t₂) (cs : List Cond) (m : Nat) :
    Rules.traceLoop E t₁ cs m = Rules.traceLoop E t₂ cs m := by
  have hroot : t₁.root.isSome = t₂.root.isSome := by
    have := ht.root
    revert this
    generalize t₁.root = o₁
    generalize t₂.root = o₂
    intro h
    cases h <;> rfl
  induction cs generalizing m with
  | nil => rfl
  | cons c cs ih =>
    simp only [Rules.traceLoop, hroot, traceCond_sim E ht c ht.spans, ih]

theorem spanConds_sim (E : Ext) {t₁ t₂ : Rules.Trace} (ht : TSim E t₁ t₂) {s₁ s₂ : Rules.Span}
    (hs : SpanSim E s₁ s₂) (cs : List Cond) : Rules.spanConds E t₁ s₁ cs = Rules.spanConds E t₂ s₂ cs := by
  induction cs with
  | nil => rfl
  | cons c cs ih =>
    simp only [Rules.spanConds, condOnSpan_sim E ht hs c, (extract_sim E ht hs c).cor, ih]

theorem spanLoop_sim (E : Ext) {t₁ t₂ : Rules.Trace} (ht : TSim E t₁ t₂) (cs : List Cond)
    {l₁ l₂ : List Rules.Span} (hl : All₂ (SpanSim E) l₁ l₂) :
    Rules.spanLoop E t₁ cs l₁ = Rules.spanLoop E t₂ cs l₂ := by
  induction hl with
  | nil => rfl
  | cons hs _ ih => simp only [Rules.spanLoop, spanConds_sim E ht hs cs, ih]

/-- Traces whose spans carry, position by position, the same field names and values the
coercions cannot tell apart are matched by the same rules. -/
theorem ruleMatches_sim (E : Ext) {t₁ t₂ : Rules.Trace} (ht : TSim E t₁ t₂) (r : Rules.Rule) :
    Rules.ruleMatches E t₁ r = Rules.ruleMatches E t₂ r := by
  unfold Rules.ruleMatches
  cases r.scope with
  | invalid => rfl
  | span => simp only [Rules.matchSpan, spanLoop_sim E ht r.conds ht.spans]
  | trace => simp only [Rules.matchTrace, traceLoop_sim E ht r.conds 0]


/-! ## dynamic key: the trace enters only through the renderings of its values -/

structure KSim (x : TraceKey.Render) (u v : TraceKey.Val) : Prop where
  conv : x.conv u = x.conv v
  fmtv : x.fmtv u = x.fmtv v

def KSpanSim (x : TraceKey.Render) (a b : TraceKey.Span) : Prop := DataSim (KSim x) a b

theorem fieldVals_sim (x : TraceKey.Render) {s₁ s₂ : List TraceKey.Span} (h : All₂ (KSpanSim x) s₁ s₂)
    (f : String) : TraceKey.fieldVals x.conv s₁ f = TraceKey.fieldVals x.conv s₂ f := by
  unfold TraceKey.fieldVals
  induction h with
  | nil => rfl
  | @cons a b l₁ l₂ hab _ ih =>
    have hl := lookup_sim hab f
    simp only [List.filterMap_cons]
    revert hl
    generalize List.lookup f a = o₁
    generalize List.lookup f b = o₂
    intro hl
    cases hl with
    | none => simpa using ih
    | some hv => simp [hv.conv, ih]

theorem collect_sim (cap : Nat) (conv : TraceKey.Val → String) {s₁ s₂ : List TraceKey.Span}
    (h : ∀ f, TraceKey.fieldVals conv s₁ f = TraceKey.fieldVals conv s₂ f) (fs : List String) (cnt : Nat) :
    TraceKey.collect cap conv s₁ fs cnt = TraceKey.collect cap conv s₂ fs cnt := by
  induction fs generalizing cnt with
  | nil => rfl
  | cons f fs ih => simp only [TraceKey.collect, h f, ih]

theorem renderRoot_sim (x : TraceKey.Render) {r₁ r₂ : Option TraceKey.Span} (h : Option.Rel (KSpanSim x) r₁ r₂)
    (fs : List String) : TraceKey.renderRoot x.fmtv r₁ fs = TraceKey.renderRoot x.fmtv r₂ fs := by
  induction fs with
  | nil => rfl
  | cons f fs ih =>
    cases h with
    | none => simp only [TraceKey.renderRoot]
    | @some a b hab =>
      have hl := lookup_sim hab f
      simp only [TraceKey.renderRoot]
      revert hl
      generalize List.lookup f a = o₁
      generalize List.lookup f b = o₂
      intro hl
      cases hl with
      | none => simpa using ih
      | some hv => simp only [hv.fmtv, ih]

/-- Traces whose spans carry, position by position, the same field names and values with the
same two renderings get the same key (no cap needed: nothing is reordered). -/
theorem build_sim (cap : Nat) (pre : String) (x : TraceKey.Render) (c : TraceKey.Cfg) {t₁ t₂ : TraceKey.Trace}
    (hs : All₂ (KSpanSim x) t₁.spans t₂.spans) (hr : Option.Rel (KSpanSim x) t₁.root t₂.root) :
    TraceKey.build cap pre x c t₁ = TraceKey.build cap pre x c t₂ := by
  unfold TraceKey.build
  rw [collect_sim cap x.conv (fieldVals_sim x hs), renderRoot_sim x hr]
  simp only [TraceKey.renderLen, hs.length_eq]

/-! ## encoding invariance, abstractly: what the proof needs of two corresponding Go values -/

/-- none of the rules sampler's four coercions and neither of the key's two renderings tells the
two values apart -/
structure GSim (S : Samplers) (g₁ g₂ : GoVal) : Prop where
  rules : RSim S.E (toVal g₁) (toVal g₂)
  key : KSim S.render (toTK g₁) (toTK g₂)

/-- same field names in the same order, indistinguishable values -/
def ESpanSim (S : Samplers) (a b : ESpan) : Prop := DataSim (GSim S) (goSpan S.dec a) (goSpan S.dec b)

theorem optRel_map {α β γ δ : Type} {R : α → β → Prop} {Q : γ → δ → Prop} {f : α → γ} {g : β → δ}
    (hfg : ∀ a b, R a b → Q (f a) (g b)) {o₁ : Option α} {o₂ : Option β} (h : Option.Rel R o₁ o₂) :
    Option.Rel Q (o₁.map f) (o₂.map g) := by
  cases h with
  | none => exact .none
  | some hab => exact .some (hfg _ _ hab)

theorem rulesSpan_sim (S : Samplers) {a b : ESpan} (h : ESpanSim S a b) :
    SpanSim S.E (rulesSpan S.dec a) (rulesSpan S.dec b) :=
  All₂.map (fun _ _ hxy => ⟨hxy.1, hxy.2.rules⟩) h

theorem keySpan_sim (S : Samplers) {a b : ESpan} (h : ESpanSim S a b) :
    KSpanSim S.render (keySpan S.dec a) (keySpan S.dec b) :=
  All₂.map (fun _ _ hxy => ⟨hxy.1, hxy.2.key⟩) h

/-- **encoding_invariant (abstract form)** — two traces whose spans carry, position by position,
the same field names and Go values that the coercions of the rules sampler (`%v`, to-int,
to-float, `compare`) and the renderings of the key (`AddAsString`, `%v`) do not tell apart get the
same outcome, whatever paths and encodings the values came in by. -/
theorem encoding_invariant_of_sim (S : Samplers) (t₁ t₂ : ETrace)
    (hs : All₂ (ESpanSim S) t₁.spans t₂.spans) (hr : Option.Rel (ESpanSim S) t₁.root t₂.root) :
    outcome S t₁ = outcome S t₂ := by
  have hT : TSim S.E (rulesTrace S.dec t₁) (rulesTrace S.dec t₂) :=
    ⟨All₂.map (fun _ _ h => rulesSpan_sim S h) hs, optRel_map (fun _ _ h => rulesSpan_sim S h) hr, rfl, rfl⟩
  have hKs : All₂ (KSpanSim S.render) (keyTrace S.dec t₁).spans (keyTrace S.dec t₂).spans :=
    All₂.map (fun _ _ h => keySpan_sim S h) hs
  have hKr : Option.Rel (KSpanSim S.render) (keyTrace S.dec t₁).root (keyTrace S.dec t₂).root :=
    optRel_map (fun _ _ h => keySpan_sim S h) hr
  have hlen : (keyTrace S.dec t₁).spans.length = (keyTrace S.dec t₂).spans.length := hKs.length_eq
  have hkey : ∀ c, TraceKey.key S.cap S.pre S.render c (keyTrace S.dec t₁) = TraceKey.key S.cap S.pre S.render c (keyTrace S.dec t₂) :=
    fun c => by unfold TraceKey.key; rw [build_sim S.cap S.pre S.render c hKs hKr]
  have hdyn : dynOutcome S t₁ = dynOutcome S t₂ := by
    unfold dynOutcome TraceKey.getSampleRate
    simp only [hkey, hlen]
  have hdown : ∀ id, downOf S (keyTrace S.dec t₁) id = downOf S (keyTrace S.dec t₂) id := by
    intro id
    unfold downOf
    cases S.downs id with
    | missing => rfl
    | fixed d => rfl
    | keyed c ans r => simp only [hkey, hlen]
  have hrules : rulesOutcome S t₁ = rulesOutcome S t₂ := by
    unfold rulesOutcome
    exact getSampleRate_congr _ _ _ _ _ _ _ (fun r _ => ruleMatches_sim S.E hT r) hdown
  simp only [outcome, hdyn, hrules]


/-! ## encoding invariance on the wire: the part that holds -/

/-- What the proof uses of Go's formatting: an integral `float64` of magnitude below 10^6 is
rendered like the `int64` of the same value, by `%v` (rules: `convertToString`; key: `root.`
fields) and by `AddAsString` (`strconv.AppendFloat(…, 'f', -1, 64)` vs `AppendInt`).  True of the
real functions; the harness passes their graphs on every value it meets. -/
structure GoFmt (S : Samplers) : Prop where
  fmt_small : ∀ n : Int, n.natAbs < 1000000 → S.E.fmt (.flt n 1) = S.E.fmt (.int n)
  fmtv_small : ∀ n : Int, n.natAbs < 1000000 → S.render.fmtv (toTK (.flt n 1)) = S.render.fmtv (toTK (.int n))
  conv_small : ∀ n : Int, n.natAbs < 1000000 → S.render.conv (toTK (.flt n 1)) = S.render.conv (toTK (.int n))

/-- the pairs of Go values the proof can show indistinguishable: identical values, and an `int64`
against the `float64` of the same integer of magnitude below 10^6 -/
inductive Compat : GoVal → GoVal → Prop
  | refl (v : GoVal) : Compat v v
  | intFlt (n : Int) : n.natAbs < 1000000 → Compat (.int n) (.flt n 1)
  | fltInt (n : Int) : n.natAbs < 1000000 → Compat (.flt n 1) (.int n)

theorem rsim_int_flt (E : Ext) (n : Int) (h : E.fmt (.flt n 1) = E.fmt (.int n)) :
    RSim E (.int n) (.flt n 1) := by
  refine ⟨h.symm, ?_, rfl, ?_⟩
  · simp [Rules.tryInt]
  · intro c
    cases c <;> simp [Rules.compareVals, Rules.cmpQ]

theorem RSim.symm {E : Ext} {v₁ v₂ : Val} (h : RSim E v₁ v₂) : RSim E v₂ v₁ :=
  ⟨h.fmt.symm, h.int.symm, h.flt.symm, fun c => (h.cmp c).symm⟩

theorem gsim_of_compat (S : Samplers) (hf : GoFmt S) {g₁ g₂ : GoVal} (h : Compat g₁ g₂) : GSim S g₁ g₂ := by
  cases h with
  | refl v => exact ⟨RSim.rfl' _ _, rfl, rfl⟩
  | intFlt n hn =>
    exact ⟨rsim_int_flt S.E n (hf.fmt_small n hn), (hf.conv_small n hn).symm, (hf.fmtv_small n hn).symm⟩
  | fltInt n hn =>
    exact ⟨(rsim_int_flt S.E n (hf.fmt_small n hn)).symm, hf.conv_small n hn, hf.fmtv_small n hn⟩

/-- a Go value denotes a logical value: a number is a `float64` or, if integral, an `int64` -/
def Denotes (g : GoVal) : Logical → Prop
  | .num n d => g = .flt n d ∨ (d = 1 ∧ g = .int n)
  | .str s => g = .str s
  | .bool b => g = .bool b
  | .null => g = .nil

/-- on the JSON batch path the number literal is parsed to the value it denotes -/
def JsonExact (fj : String → Int × Nat) (p : Path) (w : Wire) : Prop :=
  ∀ lit n d, w = .jnum lit n d → p.entry = .jsonBatch → fj lit = (n, d)

/-- Whatever the path and the encoding: if the samplers see a plain Go value (and a JSON batch
number was parsed exactly), it denotes the value the encoding carries. -/
theorem denotes_of_plain (fj : String → Int × Nat) (p : Path) (m : Bool) (w : Wire)
    (hp : (goOf fj p m w).plain = true) (hj : JsonExact fj p w) : Denotes (goOf fj p m w) (logical w) := by
  obtain ⟨e, vp⟩ := p
  cases w with
  | jnum lit n d =>
    cases e <;> cases vp <;> cases m <;>
      first
        | (have := hj lit n d rfl rfl
           simp [goOf, decode, forwarded, Entry.memoizes, logical, Denotes, this])
        | simp [goOf, decode, forwarded, Entry.memoizes, logical, Denotes]
  | muint n =>
    by_cases hn : n < 128 <;> cases e <;> cases vp <;> cases m <;>
      simp [goOf, decode, forwarded, Entry.memoizes, logical, Denotes, GoVal.plain, hn] at hp ⊢
  | _ =>
    cases e <;> cases vp <;> cases m <;>
      simp_all [goOf, decode, forwarded, Entry.memoizes, logical, Denotes, GoVal.plain]

theorem compat_of_denotes {g₁ g₂ : GoVal} {l : Logical} (h₁ : Denotes g₁ l) (h₂ : Denotes g₂ l)
    (hs : ∀ n, l = .num n 1 → n.natAbs < 1000000) : Compat g₁ g₂ := by
  cases l with
  | num n d =>
    rcases h₁ with h₁ | ⟨hd, h₁⟩ <;> rcases h₂ with h₂ | ⟨hd', h₂⟩ <;> subst h₁ <;> subst h₂
    · exact .refl _
    · subst hd'; exact .fltInt n (hs n rfl)
    · subst hd; exact .intFlt n (hs n rfl)
    · exact .refl _
  | str s => simp only [Denotes] at h₁ h₂; subst h₁; subst h₂; exact .refl _
  | bool b => simp only [Denotes] at h₁ h₂; subst h₁; subst h₂; exact .refl _
  | null => simp only [Denotes] at h₁ h₂; subst h₁; subst h₂; exact .refl _

/-- The hypothesis the proof forces on two corresponding fields `(k, w₁)` of a span that came in by
`p₁` and `(k, w₂)` of a span that came in by `p₂`: same name, same logical value; both decode to
int64 / float64 / string / bool / nil (so: no msgpack uint ≥ 128 or forwarded uint, no float32 and
no bin on the msgpack batch / OTLP-less paths); JSON batch number literals are parsed exactly by
`fastjson`; and an integral number has magnitude below 10^6. -/
structure SafePair (S : Samplers) (p₁ p₂ : Path) (x y : String × Wire) : Prop where
  name : x.1 = y.1
  value : logical x.2 = logical y.2
  plain₁ : (goOf S.fj p₁ (S.dec.sampled x.1) x.2).plain = true
  plain₂ : (goOf S.fj p₂ (S.dec.sampled y.1) y.2).plain = true
  exact₁ : JsonExact S.fj p₁ x.2
  exact₂ : JsonExact S.fj p₂ y.2
  small : ∀ n, logical x.2 = .num n 1 → n.natAbs < 1000000

def SafeSpans (S : Samplers) (a b : ESpan) : Prop := All₂ (SafePair S a.path b.path) a.data b.data

theorem espanSim_of_safe (S : Samplers) (hf : GoFmt S) {a b : ESpan} (h : SafeSpans S a b) : ESpanSim S a b := by
  unfold ESpanSim goSpan
  refine All₂.map ?_ h
  intro x y hxy
  refine ⟨hxy.name, gsim_of_compat S hf ?_⟩
  have d₁ := denotes_of_plain S.fj a.path (S.dec.sampled x.1) x.2 hxy.plain₁ hxy.exact₁
  have d₂ := denotes_of_plain S.fj b.path (S.dec.sampled y.1) y.2 hxy.plain₂ hxy.exact₂
  rw [← hxy.value] at d₂
  exact compat_of_denotes d₁ d₂ hxy.small

/-- **encoding_invariant_partial** — for every sampler configuration: two traces whose spans
carry, position by position, the same field names and logically equal values, in any mix of
ingestion paths (JSON event, JSON batch, msgpack event, msgpack batch, OTLP, each possibly forwarded
by a peer) and wire encodings, get the same decision, rate, reason and keys **provided** every value
reaches the samplers as int64 / float64 / string / bool / nil, JSON batch literals are parsed
exactly, and integers have magnitude below 10^6 (`SafePair`).  Combined with `order_invariant`
the spans may also arrive in any order. -/
theorem encoding_invariant_partial (S : Samplers) (hf : GoFmt S) (t₁ t₂ : ETrace)
    (hs : All₂ (SafeSpans S) t₁.spans t₂.spans) (hr : Option.Rel (SafeSpans S) t₁.root t₂.root) :
    outcome S t₁ = outcome S t₂ :=
  encoding_invariant_of_sim S t₁ t₂ (All₂.imp (fun _ _ h => espanSim_of_safe S hf h) hs)
    (optRel_imp (fun _ _ h => espanSim_of_safe S hf h) hr)


/-! ## the full statement, and why it does not hold for the code -/

/-- same field names (in the same order) and logically equal values, whatever the encodings -/
def SameLogical (a b : ESpan) : Prop :=
  All₂ (fun x y => x.1 = y.1 ∧ logical x.2 = logical y.2) a.data b.data

/-- "the encodings carry the same field names and numerically equal values" -/
structure SameContent (t₁ t₂ : ETrace) : Prop where
  spans : All₂ SameLogical t₁.spans t₂.spans
  root : Option.Rel SameLogical t₁.root t₂.root

/-- **encoding_invariant, full statement** — two traces whose spans carry the same field names
and numerically equal values, in any mix of ingestion paths and wire encodings, get the same
decision, rate and keys (for every sampler configuration; formatting functions as Go's). -/
def EncodingInvariant : Prop :=
  ∀ (S : Samplers) (t₁ t₂ : ETrace), GoFmt S → t₁.realizable = true → t₂.realizable = true →
    SameContent t₁ t₂ → outcome S t₁ = outcome S t₂

/-! The external functions on the handful of arguments the witnesses use, with the values the
real functions take there (each witness below is a corpus case replayed on the real code, which
passes these very graphs as `ext` lines). -/

/-- `fmt.Sprintf("%v", ·)`, strconv -/
def goE : Ext where
  fmt
    | .str s => s
    | .int n => toString n
    | .flt n d =>
      if d = 1 ∧ n.natAbs < 1000000 then toString n
      else if d = 1 ∧ n = 1000000 then "1e+06"
      else if d = 1 ∧ n = 1234567 then "1.234567e+06"
      else "?"
    | .bool b => toString b
    | .nil => "<nil>"
    | .other id =>
      if id = "bin:GET" then "[71 69 84]" else if id = "u64:503" then "503" else if id = "u64:5" then "5"
      else if id = "f32:5/2" then "2.5" else "?"
  atoi _ := none
  pfloat _ := none
  pbool _ := none
  rxCompiles _ := false
  rxMatch _ _ := false

/-- the two external renderings of the trace-key model, for float64 / float32 / []byte:
`AddAsString` (decimal digits for an integral float64) and `%v` -/
def goX : TraceKey.Ext where
  str ty raw := if ty = "[]uint8" then (if raw = "GET" then "[71 69 84]" else "?") else raw
  fmt ty raw := if ty = "float64" ∧ raw = "1234567" then "1.234567e+06" else raw

/-- `fastjson`'s number parser: exact on plain decimal literals, off by one ulp on `1.000001e6` -/
def goFj (lit : String) : Int × Nat :=
  if lit = "1.000001e6" then (8589943181934591, 8589934592)
  else if lit = "1000001" then (1000001, 1)
  else if lit = "1000000" then (1000000, 1)
  else if lit = "1234567" then (1234567, 1)
  else (0, 1)

/-- a rules sampler and a dynamic sampler over Go's functions; dynsampler answers rate 1 -/
def mkS (rules : List Rules.Rule) (keyFields : List String) : Samplers where
  fj := goFj
  computedPre := Gen.Encoding.computedPrefix
  E := goE
  x := goX
  cap := Gen.Encoding.maxKeyLength.toNat
  pre := Gen.Encoding.rootPrefix
  rules := rules
  downs := fun _ => .missing
  intn := fun _ => 0
  keyCfg := { fields := keyFields, useTraceLength := false }
  dyn := fun _ _ => 1
  dintn := fun _ => 0

theorem goFmt_mkS (rules : List Rules.Rule) (keyFields : List String) : GoFmt (mkS rules keyFields) := by
  refine ⟨?_, ?_, ?_⟩
  · intro n hn; simp [mkS, goE, hn]
  · intro n hn
    have hne : n ≠ 1234567 := by intro h; subst h; simp at hn
    have h1 : ¬ (n.repr = "1234567") := by
      intro h
      have : Int.repr n = Int.repr 1234567 := by
        have h2 : Int.repr (1234567 : Int) = "1234567" := by decide
        rw [h2]; exact h
      exact hne (Int.repr_inj.mp this)
    simp [mkS, goX, toTK, fracRaw, Samplers.render, TraceKey.renderOf, h1]
  · intro n _; simp [mkS, goX, toTK, fracRaw, Samplers.render, TraceKey.renderOf]

def oneRule (name : String) (drop : Bool) (c : Cond) : Rules.Rule :=
  { name := name, rate := 1, drop := drop, scope := .trace, conds := [c] }

/-- a trace of one span (its own root) with one field, coming in by `p` encoded as `w` -/
def one (p : Path) (k : String) (w : Wire) : ETrace := ⟨[⟨p, [(k, w)]⟩], some ⟨p, [(k, w)]⟩⟩

theorem sameContent_one (p₁ p₂ : Path) (k : String) (w₁ w₂ : Wire) (h : logical w₁ = logical w₂) :
    SameContent (one p₁ k w₁) (one p₂ k w₂) :=
  ⟨.cons (.cons ⟨rfl, h⟩ .nil) .nil, .some (.cons ⟨rfl, h⟩ .nil)⟩

/-- the sampler configurations of the witnesses -/
def sUint : Samplers := mkS [oneRule "drop5xx" true { field := "status", op := .gte, dt := .int, val := .int 500 }] []
def sF32 : Samplers := mkS [oneRule "slow" true { field := "duration_ms", op := .gt, dt := .float, val := .flt 3 2 }] []
def sBin : Samplers := mkS [oneRule "get" true { field := "method", op := .eq, val := .str "GET" }] ["method"]
def sPctV : Samplers := mkS [oneRule "tenant" true { field := "tenant_id", op := .eq, dt := .str, val := .str "1000000" }] []
def sRootKey : Samplers := mkS [] ["root.tenant_id"]
def sJson : Samplers := mkS [oneRule "exact" true { field := "v", op := .eq, val := .int 1000001 }] []
def sFwd : Samplers := mkS [oneRule "retry" true { field := "retries", op := .gt, dt := .float, val := .int 2 }] []

def mb : Path := ⟨.msgpBatch, false⟩
def je : Path := ⟨.jsonEvent, false⟩
def jb : Path := ⟨.jsonBatch, false⟩

/-- **(a) msgpack unsigned integers are not numeric**: `status >= 500` (Datatype int) drops the
trace whose span carries `status = 503` as a msgpack int, and keeps it when the same 503 is a
msgpack uint (0xcd 0x01f7), which decodes to `uint64`: `tryConvertToInt` has no case for it. -/
theorem uint_not_numeric :
    (outcome sUint (one mb "status" (.mint 503))).rules.keep = false ∧
    (outcome sUint (one mb "status" (.muint 503))).rules.keep = true := by decide

/-- **(a) msgpack 32-bit floats are not numeric**: `duration_ms > 1.5` (Datatype float) matches
2.5 sent as float64 and not 2.5 sent as float32 (`tryConvertToFloat` has no case for `float32`). -/
theorem float32_not_numeric :
    (outcome sF32 (one mb "duration_ms" (.mf64 5 2))).rules.keep = false ∧
    (outcome sF32 (one mb "duration_ms" (.mf32 5 2))).rules.keep = true := by decide

/-- **msgpack bin is not a string** on the batch path: `method = "GET"` matches the str encoding,
not the bin encoding (`[]byte`; `compare` has no case), and the dynamic key of the latter is
`[71 69 84]`.  (`msgpTypeToFieldType` classifies bin as a string; `/1/events` decodes it to one.) -/
theorem bin_not_string :
    (outcome sBin (one mb "method" (.mstr "GET"))).rules.keep = false ∧
    (outcome sBin (one mb "method" (.mbin "GET"))).rules.keep = true ∧
    (outcome sBin (one mb "method" (.mstr "GET"))).dynKey = "GET•," ∧
    (outcome sBin (one mb "method" (.mbin "GET"))).dynKey = "[71 69 84]•," := by decide

/-- **(b) `%v` of a large integer, rules**: `tenant_id = "1000000"` (Datatype string) matches the
msgpack int (rendered `1000000`) and not the same number from JSON, which is a `float64` rendered
`1e+06`. -/
theorem percent_v_large_int_rules :
    (outcome sPctV (one mb "tenant_id" (.mint 1000000))).rules.keep = false ∧
    (outcome sPctV (one je "tenant_id" (.jnum "1000000" 1000000 1))).rules.keep = true := by decide

/-- **(b) `%v` of a large integer, root-field key**: with key field `root.tenant_id` the msgpack
int 1234567 gives the key `1234567,` and the JSON number 1234567 the key `1.234567e+06,`. -/
theorem percent_v_large_int_root_key :
    (outcome sRootKey (one mb "tenant_id" (.mint 1234567))).dynKey = "1234567," ∧
    (outcome sRootKey (one je "tenant_id" (.jnum "1234567" 1234567 1))).dynKey = "1.234567e+06," := by decide

/-- **JSON batch number parsing**: the JSON document `{"v": 1.000001e6}` matches `v = 1000001`
on `/1/events` and not on `/1/batch`, whose `fastjson` parser yields 1000000.9999999999. -/
theorem json_batch_number_parse :
    (outcome sJson (one je "v" (.jnum "1.000001e6" 1000001 1))).rules.keep = false ∧
    (outcome sJson (one jb "v" (.jnum "1.000001e6" 1000001 1))).rules.keep = true := by decide

/-- **forwarding changes the type**: the very same bytes (`retries` = 5 as a msgpack uint8) are a
`uint64` for the node that received them and an `int64` for the peer they were forwarded to
(`AppendUint64` writes a fixint), so `retries > 2` matches only after forwarding. -/
theorem forwarded_small_uint :
    (outcome sFwd (one mb "retries" (.muint 5))).rules.keep = true ∧
    (outcome sFwd (one ⟨.msgpBatch, true⟩ "retries" (.muint 5))).rules.keep = false := by decide

/-- **encoding_invariant is refuted** for the code: the two traces of `uint_not_numeric` carry the
same field name and the same number 503, are both realizable, and get different decisions. -/
theorem encoding_invariant_refuted : ¬ EncodingInvariant := by
  intro h
  have := h sUint (one mb "status" (.mint 503)) (one mb "status" (.muint 503)) (goFmt_mkS _ _)
    (by decide) (by decide) (sameContent_one _ _ _ _ _ (by decide))
  have hk := congrArg (fun o => o.rules.keep) this
  simp only [uint_not_numeric.1, uint_not_numeric.2] at hk
  exact absurd hk (by decide)

/-- every other witness pair also satisfies the hypotheses of the full statement -/
theorem witnesses_same_content :
    SameContent (one mb "duration_ms" (.mf64 5 2)) (one mb "duration_ms" (.mf32 5 2)) ∧
    SameContent (one mb "method" (.mstr "GET")) (one mb "method" (.mbin "GET")) ∧
    SameContent (one mb "tenant_id" (.mint 1000000)) (one je "tenant_id" (.jnum "1000000" 1000000 1)) ∧
    SameContent (one mb "tenant_id" (.mint 1234567)) (one je "tenant_id" (.jnum "1234567" 1234567 1)) ∧
    SameContent (one je "v" (.jnum "1.000001e6" 1000001 1)) (one jb "v" (.jnum "1.000001e6" 1000001 1)) ∧
    SameContent (one mb "retries" (.muint 5)) (one ⟨.msgpBatch, true⟩ "retries" (.muint 5)) :=
  ⟨sameContent_one _ _ _ _ _ (by decide), sameContent_one _ _ _ _ _ (by decide), sameContent_one _ _ _ _ _ (by decide),
   sameContent_one _ _ _ _ _ (by decide), sameContent_one _ _ _ _ _ (by decide), sameContent_one _ _ _ _ _ (by decide)⟩

/-! ## what each path decodes to (the table the correspondence check replays) -/

/-- JSON numbers are `float64` on both JSON paths, forwarded or not, whatever their spelling. -/
theorem json_numbers_are_float64 (fj : String → Int × Nat) (e : Entry) (vp m : Bool) (lit : String) (n : Int) (d : Nat)
    (he : e.format = .json) : ∃ q : Int × Nat, goOf fj ⟨e, vp⟩ m (.jnum lit n d) = .flt q.1 q.2 := by
  cases e <;> cases vp <;> cases m <;> simp [Entry.format] at he <;>
    first
      | exact ⟨(n, d), rfl⟩
      | exact ⟨fj lit, rfl⟩

/-- The msgpack batch path keeps the wire type: uint → `uint64`, float32 → `float32`, bin →
`[]byte`; the msgpack event path widens float32 and reads bin as a string, but not uint. -/
theorem msgpack_decode_table (fj : String → Int × Nat) (m : Bool) (n : Nat) (q : Int) (d : Nat) (s : String) :
    goOf fj ⟨.msgpBatch, false⟩ m (.muint n) = .u64 n ∧ goOf fj ⟨.msgpBatch, false⟩ m (.mf32 q d) = .f32 q d ∧
    goOf fj ⟨.msgpBatch, false⟩ m (.mbin s) = .bin s ∧
    goOf fj ⟨.msgpEvent, false⟩ m (.muint n) = .u64 n ∧ goOf fj ⟨.msgpEvent, false⟩ m (.mf32 q d) = .flt q d ∧
    goOf fj ⟨.msgpEvent, false⟩ m (.mbin s) = .str s :=
  ⟨rfl, rfl, rfl, rfl, rfl, rfl⟩

/-- Forwarding to a peer does not change a value of the plain types. -/
theorem forward_plain (v : GoVal) (h : v.plain = true) : forwarded v = v := by
  cases v <;> simp_all [forwarded, GoVal.plain]

/-! ## non-vacuity: concrete configurations and traces, evaluated by the kernel -/

def sEx : Samplers :=
  mkS [{ name := "r0", rate := 1, drop := true, scope := .span,
         conds := [{ field := "a", op := .gte, val := .int 200 }, { field := "root.b", op := .startsWith, val := .str "ab" }] }]
      ["a", "root.b"]

def spA (p : Path) (w : Wire) : ESpan := ⟨p, [("a", w)]⟩
def spR (p : Path) (a b : Wire) : ESpan := ⟨p, [("a", a), ("b", b)]⟩

-- three spans in two orders and two mixes of paths / encodings: same outcome, and it is a drop by rule r0
example : outcome sEx ⟨[spA mb (.mint 200), spR mb (.mint 5) (.mstr "abc"), spA mb (.mint 404)], some (spR mb (.mint 5) (.mstr "abc"))⟩
    = { rules := { rate := 1, keep := false, reason := .rule .span "r0", key := "" }, dynKey := "200•404•5•,abc,",
        dyn := { rate := 1, keep := true } } := by decide
example : outcome sEx ⟨[spA ⟨.otlp, true⟩ (.odbl 404 1), spA ⟨.msgpEvent, false⟩ (.mf32 200 1), spR ⟨.msgpEvent, true⟩ (.mf64 5 1) (.mbin "abc")],
      some (spR ⟨.msgpEvent, true⟩ (.mf64 5 1) (.mbin "abc"))⟩
    = { rules := { rate := 1, keep := false, reason := .rule .span "r0", key := "" }, dynKey := "200•404•5•,abc,",
        dyn := { rate := 1, keep := true } } := by decide
example : BelowCaps sEx [spA mb (.mint 200), spR mb (.mint 5) (.mstr "abc"), spA mb (.mint 404)] :=
  ⟨by decide, by intro id c ans r h; simp [sEx, mkS] at h⟩
example : SafeSpans sEx (spR mb (.mint 5) (.mstr "abc")) (spR ⟨.msgpEvent, true⟩ (.mf64 5 1) (.mbin "abc")) :=
  .cons ⟨rfl, rfl, by decide, by decide, (by intro l n d h; cases h), (by intro l n d h; cases h), (by intro n h; cases h; decide)⟩
    (.cons ⟨rfl, rfl, by decide, by decide, (by intro l n d h; cases h), (by intro l n d h; cases h), (by intro n h; cases h)⟩ .nil)
example : (samplingFields sEx) = ["a", "b", "a", "b"] := by decide

end Refinery.Props.C09
