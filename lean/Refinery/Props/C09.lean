import Refinery.Model.Decode
import Refinery.Props.C08
import Refinery.Props.C11
import Refinery.Gen.Encoding
/-!
# C09 — sampling does not depend on wire encoding or span order

Statement (properties.jsonl): the sampling decision, rate and sample key for a trace do not depend
on the order in which its spans arrived or on how each span was encoded (JSON event, JSON batch,
msgpack batch with integers encoded signed or unsigned and floats in 32 or 64 bits, OTLP, or
forwarded from a peer) whenever the encodings carry the same field names and numerically equal
values.  Fields named in the trace-ID and parent-ID configuration are excluded, and dynamic keys are
compared only below the 100-distinct-value cap.

* `order_invariant` — proved for every configuration and trace.
* `EncodingInvariant` — the full statement; **refuted** for the code (`encoding_invariant_refuted`),
  with one witness per failing class (`uint_not_numeric`, `float32_not_numeric`, `bin_not_string`,
  `percent_v_large_int_rules`, `percent_v_large_int_root_key`, `json_batch_number_parse`,
  `forwarded_small_uint`), each reproduced on the real ingestion paths and samplers (corpus/C09).
* `encoding_invariant_partial` — what does hold, under the hypothesis the proof forces.
-/
namespace Refinery.Props.C09
open Refinery Refinery.Model Refinery.Model.Decode
open Refinery.Model.Rules (Val Cond Ext condValue)

/-! ## the constants of the compiled code agree with the ones the reused models were checked with -/

example : Gen.Encoding.rootPrefix = Gen.Rules.rootPrefix := by decide
example : Gen.Encoding.rootPrefix = Gen.Tracekey.rootPrefix := by decide
example : Gen.Encoding.maxKeyLength = Gen.Tracekey.maxKeyLength := by decide
example : Gen.Encoding.computedPrefix = Gen.Rules.computedPrefix := by decide

/-! ## rules sampler: the trace enters only through its span list, root span and span count -/

theorem extractLoop_root (t₁ t₂ : Rules.Trace) (h : t₁.root = t₂.root) (s : Rules.Span) (fs : List String)
    (c0 : Bool) : Rules.extractLoop t₁ s fs c0 = Rules.extractLoop t₂ s fs c0 := by
  induction fs generalizing c0 with
  | nil => rfl
  | cons f fs ih => simp only [Rules.extractLoop, h, ih]

theorem extract_congr (t₁ t₂ : Rules.Trace) (hr : t₁.root = t₂.root)
    (hl : t₁.spans.length = t₂.spans.length) (s : Rules.Span) (c : Cond) :
    Rules.extract t₁ s c = Rules.extract t₂ s c := by
  simp only [Rules.extract, hl, extractLoop_root t₁ t₂ hr]

theorem condOnSpan_congr (E : Ext) (t₁ t₂ : Rules.Trace) (hr : t₁.root = t₂.root)
    (hl : t₁.spans.length = t₂.spans.length) (c : Cond) (s : Rules.Span) :
    Rules.condOnSpan E t₁ c s = Rules.condOnSpan E t₂ c s := by
  simp only [Rules.condOnSpan, extract_congr t₁ t₂ hr hl]

/-- Reordering the spans does not change whether a rule matches, in either scope. -/
theorem ruleMatches_perm (E : Ext) (root : Option Rules.Span) (s₁ s₂ : List Rules.Span) (h : s₁.Perm s₂)
    (r : Rules.Rule) : Rules.ruleMatches E ⟨s₁, root⟩ r = Rules.ruleMatches E ⟨s₂, root⟩ r := by
  have hc : ∀ c s, Rules.condOnSpan E ⟨s₁, root⟩ c s = Rules.condOnSpan E ⟨s₂, root⟩ c s :=
    fun c s => condOnSpan_congr E ⟨s₁, root⟩ ⟨s₂, root⟩ rfl h.length_eq c s
  unfold Rules.ruleMatches
  cases r.scope with
  | invalid => rfl
  | span =>
    simp only [C08.span_scope_spec]
    congr 1
    rw [h.any_eq]
    congr 1
    funext s
    simp only [hc]
  | trace =>
    simp only [C08.trace_scope_spec]
    congr 1
    funext c
    simp only [C08.traceCondSpec]
    split
    · rfl
    · rw [h.any_eq]
      congr 1
      funext s
      exact hc c s

theorem getSampleRate_congr (E : Ext) (t₁ t₂ : Rules.Trace) (down₁ down₂ : Nat → Option Rules.DownRes)
    (intn : Int → Nat) (rules : List Rules.Rule)
    (hm : ∀ r ∈ rules, Rules.ruleMatches E t₁ r = Rules.ruleMatches E t₂ r)
    (hd : ∀ id, down₁ id = down₂ id) :
    Rules.getSampleRate E t₁ down₁ intn rules = Rules.getSampleRate E t₂ down₂ intn rules := by
  have hdd : down₁ = down₂ := funext hd
  subst hdd
  induction rules with
  | nil => rfl
  | cons r rs ih =>
    simp only [Rules.getSampleRate, hm r List.mem_cons_self]
    rw [ih (fun r' hr' => hm r' (List.mem_cons_of_mem _ hr'))]

end Refinery.Props.C09
