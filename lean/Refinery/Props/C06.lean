import Refinery.Props.C04
/-!
# C06 — forwarded spans are decorated as configured, including after reload

Statement (properties.jsonl): every span the collector forwards (on time, late, or under stress
relief) carries the configured additional attributes and, when host metadata is enabled, the
Refinery hostname; with rule reasons enabled it carries the decision reason.  A root span forwarded
by the trace sampler carries span and event counts equal to the number of spans of its trace
Refinery had received when the trace was decided, or when the root itself arrived if it came after
the decision; changes to these reloadable options apply to spans forwarded after the reload.

The model reads every option from the configuration in force at the step that forwards the span
(`s.cfg`, replaced by `reload`), except the hostname, which `Start` captures once.  So everything
holds for the configuration in force — `decorated_*`, `root_counts_*`, `reload_applies_partial` —
but the sentence about reload is false for `AddHostMetadataToTrace` (`reload: true` in
configMeta.yaml): `ReloadApplies` is refuted.
-/
namespace Refinery.Props.C06
open Refinery Refinery.Model.Rates Refinery.Model.Decorate Refinery.Lemmas.Decorate

/-! ## the fields written before the rate merge -/

theorem get_setRootCounts_counts (cfg : Cfg) (f : Fields) (d e l s : Nat) (h : cfg.counts = true) :
    AList.get (setRootCounts cfg f d e l s) kSpanCount = metaVal s ∧
    AList.get (setRootCounts cfg f d e l s) kSpanEventCount = metaVal e ∧
    AList.get (setRootCounts cfg f d e l s) kSpanLinkCount = metaVal l ∧
    AList.get (setRootCounts cfg f d e l s) kEventCount = metaVal d := by
  simp [setRootCounts, h, get_setInt, kSpanCount, kSpanEventCount, kSpanLinkCount, kEventCount]

theorem get_setRootCounts_spanCount (cfg : Cfg) (f : Fields) (d e l s : Nat)
    (h : cfg.counts = false) (h2 : cfg.spanCount = true) :
    AList.get (setRootCounts cfg f d e l s) kSpanCount = metaVal d := by
  simp [setRootCounts, h, h2, get_setInt]

theorem get_setRootCounts_off (cfg : Cfg) (f : Fields) (d e l s : Nat)
    (h : cfg.counts = false) (h2 : cfg.spanCount = false) : setRootCounts cfg f d e l s = f := by
  simp [setRootCounts, h, h2]

/-- what a span carries for key `k` after the on-time decoration, for the keys Refinery owns -/
theorem get_fwdOnTime_reserved (cfg : Cfg) (host : String) (p : Pending) (sp : Span) (k : String)
    (ha : AttrsOk cfg.attrs) (hk : k ∈ reserved) (h1 : k ≠ kOriginal) (h2 : k ≠ kFinal) (h3 : k ≠ kDryRate) :
    AList.get (fwdOnTime cfg host p sp).fields k = AList.get (preOnTime cfg host p sp) k := by
  unfold fwdOnTime
  simp only
  rw [C04.attrs_frame ha _ _ hk, get_applyMerge_frame _ _ _ _ h1 h2 h3]

theorem frameR (cfg : Cfg) (f : Fields) (d e l s : Nat) (k : String)
    (h : k = kReason ∨ k = kSendReason ∨ k = kSampleKey ∨ k = kHost ∨ k = kDryKept) :
    AList.get (setRootCounts cfg f d e l s) k = AList.get f k := by
  rcases h with h | h | h | h | h <;> subst h <;>
    exact get_setRootCounts_frame _ _ _ _ _ _ _ (by decide) (by decide) (by decide) (by decide)

theorem get_preOnTime_reason (cfg : Cfg) (host : String) (p : Pending) (sp : Span) :
    AList.get (preOnTime cfg host p sp) kReason = (if cfg.reason then strVal p.reason else AList.get sp.fields kReason) ∧
    AList.get (preOnTime cfg host p sp) kSendReason = (if cfg.reason then strVal p.sendReason else AList.get sp.fields kSendReason) ∧
    AList.get (preOnTime cfg host p sp) kSampleKey =
      (if cfg.reason ∧ p.key ≠ "" then some (.str p.key) else AList.get sp.fields kSampleKey) := by
  have e1 : kSendReason ≠ kReason := by decide
  have e2 : kSampleKey ≠ kReason := by decide
  have e3 : kDryKept ≠ kReason := by decide
  have e4 : kHost ≠ kReason := by decide
  have e5 : kReason ≠ kSendReason := by decide
  have e6 : kSampleKey ≠ kSendReason := by decide
  have e7 : kDryKept ≠ kSendReason := by decide
  have e8 : kHost ≠ kSendReason := by decide
  have e9 : kReason ≠ kSampleKey := by decide
  have e10 : kSendReason ≠ kSampleKey := by decide
  have e11 : kDryKept ≠ kSampleKey := by decide
  have e12 : kHost ≠ kSampleKey := by decide
  refine ⟨?_, ?_, ?_⟩ <;>
  (cases hr : cfg.reason <;> cases hroot : sp.root <;> cases hdry : cfg.dry <;> by_cases hkey : p.key = "" <;>
    simp [preOnTime, traceRootCounts, hr, hroot, hdry, hkey, get_setHost, get_setAny, get_setStr, strVal,
      frameR, e1, e2, e3, e4, e5, e6, e7, e8, e9, e10, e11, e12])

theorem get_preOnTime_host (cfg : Cfg) (host : String) (p : Pending) (sp : Span) :
    AList.get (preOnTime cfg host p sp) kHost = (if host ≠ "" then some (.str host) else AList.get sp.fields kHost) := by
  have e1 : kSendReason ≠ kHost := by decide
  have e2 : kSampleKey ≠ kHost := by decide
  have e3 : kDryKept ≠ kHost := by decide
  have e4 : kReason ≠ kHost := by decide
  cases hr : cfg.reason <;> cases hroot : sp.root <;> cases hdry : cfg.dry <;> by_cases hkey : p.key = "" <;>
    by_cases hh : host = "" <;>
    simp [preOnTime, traceRootCounts, hr, hroot, hdry, hkey, hh, get_setHost, get_setAny, get_setStr,
      frameR, e1, e2, e3, e4]

theorem get_preOnTime_root_counts (cfg : Cfg) (host : String) (p : Pending) (sp : Span)
    (hroot : sp.root = true) (hc : cfg.counts = true) :
    AList.get (preOnTime cfg host p sp) kSpanCount = metaVal (countKind .span p.spans % two32 : Nat) ∧
    AList.get (preOnTime cfg host p sp) kSpanEventCount = metaVal (countKind .event p.spans % two32 : Nat) ∧
    AList.get (preOnTime cfg host p sp) kSpanLinkCount = metaVal (countKind .link p.spans % two32 : Nat) ∧
    AList.get (preOnTime cfg host p sp) kEventCount = metaVal (p.spans.length % two32 : Nat) := by
  refine ⟨?_, ?_, ?_, ?_⟩ <;>
  (cases hr : cfg.reason <;> cases hdry : cfg.dry <;> by_cases hkey : p.key = "" <;> by_cases hh : host = "" <;>
    simp [preOnTime, traceRootCounts, setRootCounts, hc, hr, hroot, hdry, hkey, hh, get_setHost, get_setAny,
      get_setStr, get_setInt, kSpanCount, kSpanEventCount, kSpanLinkCount, kEventCount, kReason, kSendReason,
      kSampleKey, kDryKept, kHost])

theorem get_preOnTime_root_spanCount (cfg : Cfg) (host : String) (p : Pending) (sp : Span)
    (hroot : sp.root = true) (hc : cfg.counts = false) (hs : cfg.spanCount = true) :
    AList.get (preOnTime cfg host p sp) kSpanCount = metaVal (p.spans.length % two32 : Nat) := by
  cases hr : cfg.reason <;> cases hdry : cfg.dry <;> by_cases hkey : p.key = "" <;> by_cases hh : host = "" <;>
    simp [preOnTime, traceRootCounts, setRootCounts, hc, hs, hr, hroot, hdry, hkey, hh, get_setHost, get_setAny,
      get_setStr, get_setInt, kSpanCount, kSpanEventCount, kSpanLinkCount, kEventCount, kReason, kSendReason,
      kSampleKey, kDryKept, kHost]

/-! ## decorated: every forwarded span carries the attributes of the configuration in force -/

/-- **decorated (on time)** — a span forwarded by `sendTraces` under configuration `cfg` carries
every additional attribute of `cfg`, the captured hostname (if one was captured), with
AddRuleReasonToTrace the sampler's reason, the send reason and (if any) the sample key, and in dry
run the would-be decision. -/
theorem decorated_ontime (cfg : Cfg) (host : String) (p : Pending) (sp : Span) (ha : AttrsOk cfg.attrs) :
    (∀ k v, (k, v) ∈ cfg.attrs → AList.get (fwdOnTime cfg host p sp).fields k = some (.str v)) ∧
    AList.get (fwdOnTime cfg host p sp).fields kHost =
      (if host ≠ "" then some (.str host) else AList.get sp.fields kHost) ∧
    (cfg.reason = true →
      AList.get (fwdOnTime cfg host p sp).fields kReason = strVal p.reason ∧
      AList.get (fwdOnTime cfg host p sp).fields kSendReason = strVal p.sendReason ∧
      (p.key ≠ "" → AList.get (fwdOnTime cfg host p sp).fields kSampleKey = some (.str p.key))) ∧
    (cfg.reason = false →
      AList.get (fwdOnTime cfg host p sp).fields kReason = AList.get sp.fields kReason ∧
      AList.get (fwdOnTime cfg host p sp).fields kSendReason = AList.get sp.fields kSendReason ∧
      AList.get (fwdOnTime cfg host p sp).fields kSampleKey = AList.get sp.fields kSampleKey) := by
  obtain ⟨r1, r2, r3⟩ := get_preOnTime_reason cfg host p sp
  refine ⟨?_, ?_, ?_, ?_⟩
  · intro k v hkv
    exact get_addAttrs_mem cfg.attrs _ k v ha.1 hkv
  · rw [get_fwdOnTime_reserved cfg host p sp kHost ha (by decide) (by decide) (by decide) (by decide)]
    exact get_preOnTime_host cfg host p sp
  · intro hr
    rw [get_fwdOnTime_reserved cfg host p sp kReason ha (by decide) (by decide) (by decide) (by decide),
      get_fwdOnTime_reserved cfg host p sp kSendReason ha (by decide) (by decide) (by decide) (by decide),
      get_fwdOnTime_reserved cfg host p sp kSampleKey ha (by decide) (by decide) (by decide) (by decide),
      r1, r2, r3]
    exact ⟨by simp [hr], by simp [hr], fun hk => by simp [hr, hk]⟩
  · intro hr
    rw [get_fwdOnTime_reserved cfg host p sp kReason ha (by decide) (by decide) (by decide) (by decide),
      get_fwdOnTime_reserved cfg host p sp kSendReason ha (by decide) (by decide) (by decide) (by decide),
      get_fwdOnTime_reserved cfg host p sp kSampleKey ha (by decide) (by decide) (by decide) (by decide),
      r1, r2, r3]
    simp [hr]

theorem lateReason_ne (r : String) : r ++ lateSuffix ≠ "" := by
  intro h
  have := congrArg String.length h
  simp [String.length_append, lateSuffix] at this

/-- the reason a late span is tagged with: `<kept reason> - late arriving span` -/
def lateReason (kept : Option Rec) : String :=
  match kept with
  | some r => if r.reason ≠ "" then r.reason ++ lateSuffix else lateOnly
  | none => lateOnly

theorem lateReason_nonempty (kept : Option Rec) : lateReason kept ≠ "" := by
  unfold lateReason
  cases kept with
  | none => decide
  | some r =>
    by_cases h : r.reason = ""
    · simp [h]; decide
    · simp only [ne_eq, h, not_false_eq_true, if_true]; exact lateReason_ne _

theorem get_preLate_vals (cfg : Cfg) (host : String) (kept : Option Rec) (sp : Span) :
    AList.get (preLate cfg host kept sp) kReason =
      (if cfg.reason then some (.str (lateReason kept)) else AList.get sp.fields kReason) ∧
    AList.get (preLate cfg host kept sp) kSendReason =
      (if cfg.reason then some (.str sendLateSpan) else AList.get sp.fields kSendReason) ∧
    AList.get (preLate cfg host kept sp) kHost =
      (if host ≠ "" then some (.str host) else AList.get sp.fields kHost) := by
  have e1 : kSendReason ≠ kReason := by decide
  have e2 : kDryKept ≠ kReason := by decide
  have e3 : kHost ≠ kReason := by decide
  have e4 : kReason ≠ kSendReason := by decide
  have e5 : kDryKept ≠ kSendReason := by decide
  have e6 : kHost ≠ kSendReason := by decide
  have e7 : kDryKept ≠ kHost := by decide
  have e8 : kReason ≠ kHost := by decide
  have e9 : kSendReason ≠ kHost := by decide
  have e10 : sendLateSpan ≠ "" := by decide
  have e11 : lateOnly ≠ "" := by decide
  cases kept with
  | none =>
    refine ⟨?_, ?_, ?_⟩ <;>
    (cases hr : cfg.reason <;> cases hdry : cfg.dry <;> by_cases hh : host = "" <;>
      simp [preLate, lateReason, hr, hdry, hh, get_setHost, get_setAny, get_setStr, strVal,
        e1, e2, e3, e4, e5, e6, e7, e8, e9, e10, e11])
  | some r =>
    have e12 := lateReason_ne r.reason
    refine ⟨?_, ?_, ?_⟩ <;>
    (cases hr : cfg.reason <;> cases hdry : cfg.dry <;> by_cases hh : host = "" <;> by_cases hk : r.reason = "" <;>
      simp [preLate, lateReason, hr, hdry, hh, hk, get_setHost, get_setAny, get_setStr, strVal,
        e1, e2, e3, e4, e5, e6, e7, e8, e9, e10, e11, e12])

/-- fields of a span forwarded late from a kept record, for keys that neither the merge nor the
root counts nor the attributes touch -/
theorem get_fwdLate_frame (cfg : Cfg) (host : String) (r : Rec) (sp : Span) (k : String) (ha : AttrsOk cfg.attrs)
    (hk : k ∈ reserved) (h1 : k ≠ kOriginal) (h2 : k ≠ kFinal) (h3 : k ≠ kDryRate)
    (h4 : k ≠ kSpanEventCount) (h5 : k ≠ kSpanLinkCount) (h6 : k ≠ kSpanCount) (h7 : k ≠ kEventCount) :
    ∃ o, fwdLate cfg host (some r) sp = some o ∧
      AList.get o.fields k = AList.get (preLate cfg host (some r) sp) k := by
  refine ⟨_, rfl, ?_⟩
  simp only
  rw [C04.attrs_frame ha _ _ hk]
  split
  · rw [get_setRootCounts_frame _ _ _ _ _ _ _ h4 h5 h6 h7, get_applyMerge_frame _ _ _ _ h1 h2 h3]
  · rw [get_applyMerge_frame _ _ _ _ h1 h2 h3]

/-- **decorated (late)** — a late span of a kept trace, forwarded by `dealWithSentTrace` under
`cfg`, carries the attributes of `cfg`, the captured hostname, and with AddRuleReasonToTrace the
kept reason with the late marker and the late send reason. -/
theorem decorated_late (cfg : Cfg) (host : String) (r : Rec) (sp : Span) (ha : AttrsOk cfg.attrs) :
    ∃ o, fwdLate cfg host (some r) sp = some o ∧
      (∀ k v, (k, v) ∈ cfg.attrs → AList.get o.fields k = some (.str v)) ∧
      AList.get o.fields kHost = (if host ≠ "" then some (.str host) else AList.get sp.fields kHost) ∧
      (cfg.reason = true → AList.get o.fields kReason = some (.str (lateReason (some r))) ∧
        AList.get o.fields kSendReason = some (.str sendLateSpan)) ∧
      (cfg.reason = false → AList.get o.fields kReason = AList.get sp.fields kReason ∧
        AList.get o.fields kSendReason = AList.get sp.fields kSendReason) := by
  obtain ⟨v1, v2, v3⟩ := get_preLate_vals cfg host (some r) sp
  obtain ⟨o, ho, f1⟩ := get_fwdLate_frame cfg host r sp kReason ha (by decide) (by decide) (by decide) (by decide)
    (by decide) (by decide) (by decide) (by decide)
  obtain ⟨o2, ho2, f2⟩ := get_fwdLate_frame cfg host r sp kSendReason ha (by decide) (by decide) (by decide) (by decide)
    (by decide) (by decide) (by decide) (by decide)
  obtain ⟨o3, ho3, f3⟩ := get_fwdLate_frame cfg host r sp kHost ha (by decide) (by decide) (by decide) (by decide)
    (by decide) (by decide) (by decide) (by decide)
  rw [ho] at ho2 ho3
  injection ho2 with e2; injection ho3 with e3
  subst e2; subst e3
  refine ⟨o, ho, ?_, ?_, ?_, ?_⟩
  · intro k v hkv
    have : o = _ := (Option.some.inj ho).symm
    rw [this]
    exact get_addAttrs_mem cfg.attrs _ k v ha.1 hkv
  · rw [f3, v3]
  · intro hr; rw [f1, f2, v1, v2]; simp [hr]
  · intro hr; rw [f1, f2, v1, v2]; simp [hr]

/-- **decorated (stress relief)** — a span forwarded by `ProcessSpanImmediately` under `cfg`
carries the attributes of `cfg`, the captured hostname, `meta.stressed`, and with
AddRuleReasonToTrace the reason it was given. -/
theorem decorated_stress (cfg : Cfg) (host : String) (rate : Nat) (reason : String) (sp : Span)
    (ha : AttrsOk cfg.attrs) :
    (∀ k v, (k, v) ∈ cfg.attrs → AList.get (fwdStress cfg host rate reason sp).fields k = some (.str v)) ∧
    AList.get (fwdStress cfg host rate reason sp).fields kHost =
      (if host ≠ "" then some (.str host) else AList.get sp.fields kHost) ∧
    AList.get (fwdStress cfg host rate reason sp).fields kStressed = some (.bool true) ∧
    (cfg.reason = true → AList.get (fwdStress cfg host rate reason sp).fields kReason = strVal reason) := by
  have hres : ∀ k ∈ reserved, k ∉ cfg.attrs.map (·.1) := ha.2
  have e1 : kReason ≠ kHost := by decide
  have e2 : kStressed ≠ kHost := by decide
  have e3 : kReason ≠ kStressed := by decide
  have e4 : kHost ≠ kStressed := by decide
  have e5 : kStressed ≠ kReason := by decide
  have e6 : kHost ≠ kReason := by decide
  refine ⟨?_, ?_, ?_, ?_⟩
  · intro k v hkv
    have hmem : k ∈ cfg.attrs.map (·.1) := List.mem_map.mpr ⟨(k, v), hkv, rfl⟩
    have n1 : k ≠ kOriginal := fun e => hres kOriginal (by decide) (e ▸ hmem)
    have n2 : k ≠ kFinal := fun e => hres kFinal (by decide) (e ▸ hmem)
    have n3 : k ≠ kDryRate := fun e => hres kDryRate (by decide) (e ▸ hmem)
    unfold fwdStress
    rw [get_applyMerge_frame _ _ _ _ n1 n2 n3]
    exact get_addAttrs_mem cfg.attrs _ k v ha.1 hkv
  · unfold fwdStress
    rw [get_applyMerge_frame _ _ _ _ (by decide) (by decide) (by decide)]
    simp only [preStress]
    rw [get_addAttrs_not_mem _ _ _ (hres kHost (by decide))]
    cases hr : cfg.reason <;> by_cases hh : host = "" <;>
      simp [hr, hh, get_setHost, get_setAny, get_setStr, e1, e2]
  · unfold fwdStress
    rw [get_applyMerge_frame _ _ _ _ (by decide) (by decide) (by decide)]
    simp only [preStress]
    rw [get_addAttrs_not_mem _ _ _ (hres kStressed (by decide))]
    cases hr : cfg.reason <;> by_cases hh : host = "" <;>
      simp [hr, hh, get_setHost, get_setAny, get_setStr, e3, e4]
  · intro hr
    unfold fwdStress
    rw [get_applyMerge_frame _ _ _ _ (by decide) (by decide) (by decide)]
    simp only [preStress]
    rw [get_addAttrs_not_mem _ _ _ (hres kReason (by decide))]
    by_cases hh : host = "" <;> simp [hr, hh, get_setHost, get_setAny, get_setStr, e5, e6]


/-! ## root counts -/

theorem countKind_eq (k : Kind) (l : List Span) :
    countKind k l = ((l.map (·.kind)).filter (fun x => x = k)).length := by
  induction l with
  | nil => rfl
  | cons sp t ih =>
    simp only [countKind, List.filter_cons, List.map_cons] at ih ⊢
    by_cases h : sp.kind = k <;> simp [h, ih]

theorem countKind_updLastRoot (g : Span → Span) (hg : ∀ sp, (g sp).kind = sp.kind) (k : Kind) (l : List Span) :
    countKind k (updLastRoot g l) = countKind k l := by
  rw [countKind_eq, countKind_eq, C04.map_updLastRoot g (·.kind) hg l]

theorem length_updLastRoot (g : Span → Span) (l : List Span) : (updLastRoot g l).length = l.length := by
  have := congrArg List.length (C04.map_updLastRoot g (fun _ => ()) (fun _ => rfl) l)
  simpa using this

/-- what `makeDecision` + `send` queue for a buffered trace: the trace's spans (same number, same
kinds), the sampler's reason and key, the send reason -/
theorem decide_queues_counts (s : St) (tid : String) (d : Decision) (spans : List Span)
    (hl : (getT s tid).live = some spans) (hk : d.keep = true ∨ s.cfg.dry = true) :
    ∃ p, (step s (.decide tid (some d))).1.pending = s.pending ++ [p] ∧ p.tid = tid ∧
      p.spans.length = spans.length ∧ (∀ k, countKind k p.spans = countKind k spans) ∧
      p.reason = d.reason ∧ p.key = d.key ∧ p.shouldSend = d.keep ∧
      p.sendReason = (if spans.any (·.root) then sendGotRoot else sendExpired) := by
  have hcond : (!d.keep && !s.cfg.dry) = false := by
    rcases hk with h | h <;> simp [h]
  simp only [step, hl, hcond]
  refine ⟨_, rfl, rfl, ?_, ?_, rfl, rfl, rfl, rfl⟩
  · exact length_updLastRoot (traceRootCounts s.cfg spans) spans
  · intro k; exact countKind_updLastRoot (traceRootCounts s.cfg spans) (fun _ => rfl) k spans

/-- **root_counts_on_time (one span)** — a root span forwarded by `sendTraces` under `cfg`: with
AddCountsToRoot the four count fields are the trace's numbers of spans / span events / links /
all of them (a field whose value is 0 is absent); with only AddSpanCountToRoot `meta.span_count` is
the number of all of them. -/
theorem root_counts_fwdOnTime (cfg : Cfg) (host : String) (p : Pending) (sp : Span) (ha : AttrsOk cfg.attrs)
    (hroot : sp.root = true) :
    (cfg.counts = true →
      AList.get (fwdOnTime cfg host p sp).fields kSpanCount = metaVal (countKind .span p.spans % two32 : Nat) ∧
      AList.get (fwdOnTime cfg host p sp).fields kSpanEventCount = metaVal (countKind .event p.spans % two32 : Nat) ∧
      AList.get (fwdOnTime cfg host p sp).fields kSpanLinkCount = metaVal (countKind .link p.spans % two32 : Nat) ∧
      AList.get (fwdOnTime cfg host p sp).fields kEventCount = metaVal (p.spans.length % two32 : Nat)) ∧
    (cfg.counts = false → cfg.spanCount = true →
      AList.get (fwdOnTime cfg host p sp).fields kSpanCount = metaVal (p.spans.length % two32 : Nat)) := by
  constructor
  · intro hc
    obtain ⟨c1, c2, c3, c4⟩ := get_preOnTime_root_counts cfg host p sp hroot hc
    rw [get_fwdOnTime_reserved cfg host p sp kSpanCount ha (by decide) (by decide) (by decide) (by decide),
      get_fwdOnTime_reserved cfg host p sp kSpanEventCount ha (by decide) (by decide) (by decide) (by decide),
      get_fwdOnTime_reserved cfg host p sp kSpanLinkCount ha (by decide) (by decide) (by decide) (by decide),
      get_fwdOnTime_reserved cfg host p sp kEventCount ha (by decide) (by decide) (by decide) (by decide)]
    exact ⟨c1, c2, c3, c4⟩
  · intro hc hs
    rw [get_fwdOnTime_reserved cfg host p sp kSpanCount ha (by decide) (by decide) (by decide) (by decide)]
    exact get_preOnTime_root_spanCount cfg host p sp hroot hc hs

/-- **root_counts_on_time** — a buffered trace with spans `spans` is decided (kept, or dry run),
the options are (possibly) reloaded to `cfg'`, `sendTraces` runs: every root span that comes out
carries the counts of `spans`, i.e. of what Refinery had received when the trace was decided. -/
theorem root_counts_on_time (s : St) (tid : String) (d : Decision) (spans : List Span) (cfg' : Cfg)
    (hq : s.pending = []) (hl : (getT s tid).live = some spans) (hk : d.keep = true ∨ s.cfg.dry = true)
    (ha : AttrsOk cfg'.attrs) :
    ∃ out, (step (step (step s (.decide tid (some d))).1 (.reload cfg')).1 .drain).2 = .sent tid out ∧
      out.length = spans.length ∧
      ∀ o ∈ out, o.root = true →
        (cfg'.counts = true →
          AList.get o.fields kSpanCount = metaVal (countKind .span spans % two32 : Nat) ∧
          AList.get o.fields kSpanEventCount = metaVal (countKind .event spans % two32 : Nat) ∧
          AList.get o.fields kSpanLinkCount = metaVal (countKind .link spans % two32 : Nat) ∧
          AList.get o.fields kEventCount = metaVal (spans.length % two32 : Nat)) ∧
        (cfg'.counts = false → cfg'.spanCount = true →
          AList.get o.fields kSpanCount = metaVal (spans.length % two32 : Nat)) := by
  obtain ⟨p, hp, hptid, hlen, hcnt, _⟩ := decide_queues_counts s tid d spans hl hk
  rw [hq, List.nil_append] at hp
  have hdrain := C04.drain_forwards (step (step s (.decide tid (some d))).1 (.reload cfg')).1 p []
    (by simpa [step] using hp)
  have hcfg : (step (step s (.decide tid (some d))).1 (.reload cfg')).1.cfg = cfg' := rfl
  rw [hcfg, hptid] at hdrain
  refine ⟨_, hdrain, by simp [hlen], ?_⟩
  intro o ho hroot
  obtain ⟨sp', _, rfl⟩ := List.mem_map.mp ho
  have hr' : sp'.root = true := by simpa [fwdOnTime, applyMerge] using hroot
  have h := root_counts_fwdOnTime cfg' (step (step s (.decide tid (some d))).1 (.reload cfg')).1.host p sp' ha hr'
  rw [hcnt .span, hcnt .event, hcnt .link, hlen] at h
  exact h

/-! ### late roots: the record counts every span that arrives after the decision -/

/-- the spans of trace `tid` that an operation hands to the decision record -/
def arrival (tid : String) : Op → List Kind
  | .span t sp => if t = tid then [sp.kind] else []
  | .stress t sp none => if t = tid then [sp.kind] else []
  | _ => []

def arrivalsOf (tid : String) (ops : List Op) : List Kind := ops.flatMap (arrival tid)

/-- the trace is decided "keep", and its record is `r0` plus one `Count` per span in `ks` -/
def KeptCounts (t : TraceSt) (r0 : Rec) (ks : List Kind) : Prop :=
  t.live = none ∧ t.dropped = false ∧ t.kept = some (ks.foldl Rec.count r0)

theorem keptCounts_step (s : St) (op : Op) (tid : String) (r0 : Rec) (ks : List Kind)
    (h : KeptCounts (getT s tid) r0 ks) : KeptCounts (getT (step s op).1 tid) r0 (ks ++ arrival tid op) := by
  obtain ⟨hl, hd, hk⟩ := h
  have keep : KeptCounts (getT s tid) r0 (ks ++ []) := by rw [List.append_nil]; exact ⟨hl, hd, hk⟩
  have counted : ∀ k, KeptCounts { (getT s tid) with kept := some ((ks.foldl Rec.count r0).count k) } r0 (ks ++ [k]) :=
    fun k => ⟨hl, hd, by simp [List.foldl_append]⟩
  cases op with
  | span tid' sp =>
    by_cases ht : tid' = tid
    · subst ht
      rw [step_span_kept s tid' sp _ hl hd hk]
      simp only [getT_putT, if_true, arrival]
      exact counted _
    · rw [getT_step_other s _ tid ht]; simp only [arrival, ht, if_false]; exact keep
  | decide tid' d =>
    by_cases ht : tid' = tid
    · subst ht
      simp only [step, hl, arrival]
      exact keep
    · rw [getT_step_other s _ tid ht]; exact keep
  | drain => rw [getT_step_other s _ tid trivial]; exact keep
  | stress tid' sp sr =>
    by_cases ht : tid' = tid
    · subst ht
      cases sr with
      | none =>
        rw [step_stress_kept s tid' sp _ hd hk]
        simp only [getT_putT, if_true, arrival]
        exact counted _
      | some x => rw [step_stress_kept_bad s tid' sp _ x hd hk]; exact keep
    · rw [getT_step_other s _ tid ht]
      cases sr <;> simp only [arrival, ht, if_false] <;> exact keep
  | reload cfg => exact keep

theorem keptCounts_run (ops : List Op) (s : St) (tid : String) (r0 : Rec) (ks : List Kind)
    (h : KeptCounts (getT s tid) r0 ks) : KeptCounts (getT (run s ops) tid) r0 (ks ++ arrivalsOf tid ops) := by
  induction ops generalizing s ks with
  | nil => simpa [arrivalsOf, run] using h
  | cons o os ih =>
    have := ih (step s o).1 (ks ++ arrival tid o) (keptCounts_step s o tid r0 ks h)
    simpa [arrivalsOf, run, List.append_assoc] using this

def countK (k : Kind) (ks : List Kind) : Nat := (ks.filter (fun x => x = k)).length

def RecBounded (r : Rec) : Prop := r.desc < two32 ∧ r.spans < two32 ∧ r.events < two32 ∧ r.links < two32

theorem count_bounded (r : Rec) (k : Kind) (h : RecBounded r) : RecBounded (r.count k) := by
  obtain ⟨h1, h2, h3, h4⟩ := h
  have hm : ∀ n : Nat, n % two32 < two32 := fun n => Nat.mod_lt _ (by decide)
  cases k <;> exact ⟨hm _, by first | exact hm _ | exact h2, by first | exact hm _ | exact h3,
    by first | exact hm _ | exact h4⟩

/-- `uint32` counters: the record after the spans `ks` arrived -/
theorem foldl_count (ks : List Kind) (r0 : Rec) (h : RecBounded r0) :
    (ks.foldl Rec.count r0).desc = (r0.desc + ks.length) % two32 ∧
    (ks.foldl Rec.count r0).spans = (r0.spans + countK .span ks) % two32 ∧
    (ks.foldl Rec.count r0).events = (r0.events + countK .event ks) % two32 ∧
    (ks.foldl Rec.count r0).links = (r0.links + countK .link ks) % two32 := by
  induction ks generalizing r0 with
  | nil =>
    obtain ⟨h1, h2, h3, h4⟩ := h
    simp [countK, Nat.mod_eq_of_lt h1, Nat.mod_eq_of_lt h2, Nat.mod_eq_of_lt h3, Nat.mod_eq_of_lt h4]
  | cons k t ih =>
    simp only [List.foldl_cons, List.length_cons]
    obtain ⟨i1, i2, i3, i4⟩ := ih (r0.count k) (count_bounded r0 k h)
    rw [i1, i2, i3, i4]
    obtain ⟨h1, h2, h3, h4⟩ := h
    cases k <;> simp [Rec.count, countK] <;> unfold two32 at * <;> omega

theorem mkRec_bounded (rate : Nat) (reason : String) (spans : List Span) : RecBounded (mkRec rate reason spans) := by
  have hm : ∀ n : Nat, n % two32 < two32 := fun n => Nat.mod_lt _ (by decide)
  exact ⟨hm _, hm _, hm _, hm _⟩

/-- the count fields of a root span forwarded late from record `r` -/
theorem root_counts_fwdLate (cfg : Cfg) (host : String) (r : Rec) (sp : Span) (ha : AttrsOk cfg.attrs)
    (hroot : sp.root = true) :
    ∃ o, fwdLate cfg host (some r) sp = some o ∧
      (cfg.counts = true →
        AList.get o.fields kSpanCount = metaVal r.spans ∧ AList.get o.fields kSpanEventCount = metaVal r.events ∧
        AList.get o.fields kSpanLinkCount = metaVal r.links ∧ AList.get o.fields kEventCount = metaVal r.desc) ∧
      (cfg.counts = false → cfg.spanCount = true → AList.get o.fields kSpanCount = metaVal r.desc) := by
  refine ⟨_, rfl, ?_, ?_⟩
  · intro hc
    simp only [applyMerge_root, hroot, if_true]
    rw [C04.attrs_frame ha _ _ (by decide), C04.attrs_frame ha _ _ (by decide), C04.attrs_frame ha _ _ (by decide),
      C04.attrs_frame ha _ _ (by decide)]
    exact get_setRootCounts_counts cfg _ _ _ _ _ hc
  · intro hc hs
    simp only [applyMerge_root, hroot, if_true]
    rw [C04.attrs_frame ha _ _ (by decide)]
    exact get_setRootCounts_spanCount cfg _ _ _ _ _ hc hs

/-- **root_counts_late** — a trace with spans `spans` is decided "keep"; after any history `mid`
its root arrives.  The root is forwarded with counts = spans at the decision + every span of the
trace that arrived since (through `processSpan` or `ProcessSpanImmediately`) + the root itself
(`uint32` counters, so modulo 2^32). -/
theorem root_counts_late (s : St) (tid : String) (d : Decision) (spans : List Span) (mid : List Op) (sp : Span)
    (hl : (getT s tid).live = some spans) (hdr : (getT s tid).dropped = false) (hk : d.keep = true)
    (hroot : sp.root = true) (ha : AttrsOk (run (step s (.decide tid (some d))).1 mid).cfg.attrs) :
    ∃ o, (step (run (step s (.decide tid (some d))).1 mid) (.span tid sp)).2 = .late o ∧
      ((run (step s (.decide tid (some d))).1 mid).cfg.counts = true →
        AList.get o.fields kEventCount =
          metaVal ((spans.length + (arrivalsOf tid mid).length + 1) % two32 : Nat) ∧
        AList.get o.fields kSpanCount =
          metaVal ((countKind .span spans + countK .span (arrivalsOf tid mid ++ [sp.kind])) % two32 : Nat) ∧
        AList.get o.fields kSpanEventCount =
          metaVal ((countKind .event spans + countK .event (arrivalsOf tid mid ++ [sp.kind])) % two32 : Nat) ∧
        AList.get o.fields kSpanLinkCount =
          metaVal ((countKind .link spans + countK .link (arrivalsOf tid mid ++ [sp.kind])) % two32 : Nat)) ∧
      ((run (step s (.decide tid (some d))).1 mid).cfg.counts = false →
        (run (step s (.decide tid (some d))).1 mid).cfg.spanCount = true →
        AList.get o.fields kSpanCount =
          metaVal ((spans.length + (arrivalsOf tid mid).length + 1) % two32 : Nat)) := by
  have h0 : KeptCounts (getT (step s (.decide tid (some d))).1 tid) (mkRec d.rate d.reason spans) [] := by
    have key : getT (step s (.decide tid (some d))).1 tid =
        { (record (getT s tid) d.rate d.keep d.reason spans) with live := none } := by
      simp only [step, hl]
      split <;> simp [getT, putT, AList.get_put]
    rw [key]
    simp [KeptCounts, record, hk, hdr]
  have h1 := keptCounts_run mid _ tid _ _ h0
  rw [List.nil_append] at h1
  obtain ⟨hl2, hd2, hk2⟩ := h1
  rw [step_span_kept _ tid sp _ hl2 hd2 hk2]
  obtain ⟨o, ho, hc1, hc2⟩ := root_counts_fwdLate (run (step s (.decide tid (some d))).1 mid).cfg
    (run (step s (.decide tid (some d))).1 mid).host
    (((arrivalsOf tid mid).foldl Rec.count (mkRec d.rate d.reason spans)).count sp.kind) sp ha hroot
  -- the record after counting the root = fold over (arrivals ++ [root])
  have hfold : ((arrivalsOf tid mid).foldl Rec.count (mkRec d.rate d.reason spans)).count sp.kind =
      (arrivalsOf tid mid ++ [sp.kind]).foldl Rec.count (mkRec d.rate d.reason spans) := by
    simp [List.foldl_append]
  obtain ⟨f1, f2, f3, f4⟩ := foldl_count (arrivalsOf tid mid ++ [sp.kind]) (mkRec d.rate d.reason spans)
    (mkRec_bounded _ _ _)
  rw [hfold] at hc1 hc2
  rw [f1, f2, f3, f4] at hc1
  rw [f1] at hc2
  have e1 : ((mkRec d.rate d.reason spans).desc + (arrivalsOf tid mid ++ [sp.kind]).length) % two32 =
      (spans.length + (arrivalsOf tid mid).length + 1) % two32 := by
    simp only [mkRec, List.length_append, List.length_cons, List.length_nil]
    unfold two32; omega
  have e2 : ∀ a b : Nat, (a % two32 + b) % two32 = (a + b) % two32 := by
    intro a b; unfold two32; omega
  refine ⟨o, by simp only [ho, lateOut], ?_, ?_⟩
  · intro hc
    obtain ⟨a1, a2, a3, a4⟩ := hc1 hc
    refine ⟨by rw [a4, e1], ?_, ?_, ?_⟩
    · rw [a1]; simp only [mkRec, e2]
    · rw [a2]; simp only [mkRec, e2]
    · rw [a3]; simp only [mkRec, e2]
  · intro hc hs
    rw [hc2 hc hs, e1]

/-! ## reload -/

/-- no operation of the collector re-reads the hostname: whatever the history, it is what `Start`
captured -/
theorem host_constant (ops : List Op) (s : St) : (run s ops).host = s.host := by
  induction ops generalizing s with
  | nil => rfl
  | cons o os ih =>
    have h1 : (step s o).1.host = s.host := by
      cases o with
      | span tid sp => simp only [step]; split <;> (try split) <;> rfl
      | decide tid d => simp only [step]; split <;> (try split) <;> rfl
      | drain => simp only [step]; split <;> rfl
      | stress tid sp sr => simp only [step]; split <;> (try split) <;> rfl
      | reload cfg => rfl
    show (run (step s o).1 os).host = s.host
    rw [ih, h1]

/-- The property's sentence "changes to these reloadable options apply to spans forwarded after the
reload", for AddHostMetadataToTrace (documented `reload: true`): after a reload to `cfg'`, a span
forwarded by `sendTraces` carries the hostname iff `cfg'` enables host metadata. -/
def ReloadApplies : Prop :=
  ∀ (cfg0 cfg' : Cfg) (hn : String) (ops : List Op) (p : Pending) (sp : Span),
    hn ≠ "" → AttrsOk cfg'.attrs → AList.get sp.fields kHost = none →
    AList.get (fwdOnTime (step (run (init cfg0 hn) ops) (.reload cfg')).1.cfg
        (step (run (init cfg0 hn) ops) (.reload cfg')).1.host p sp).fields kHost =
      (if cfg'.host then some (.str hn) else none)

/-- what actually holds: the span carries the hostname iff host metadata was enabled *at start* -/
theorem hostname_follows_startup (cfg0 cfg' : Cfg) (hn : String) (ops : List Op) (p : Pending) (sp : Span)
    (hhn : hn ≠ "") (ha : AttrsOk cfg'.attrs) (hsp : AList.get sp.fields kHost = none) :
    AList.get (fwdOnTime (step (run (init cfg0 hn) ops) (.reload cfg')).1.cfg
        (step (run (init cfg0 hn) ops) (.reload cfg')).1.host p sp).fields kHost =
      (if cfg0.host then some (.str hn) else none) := by
  have hcfg : (step (run (init cfg0 hn) ops) (.reload cfg')).1.cfg = cfg' := rfl
  have hhost : (step (run (init cfg0 hn) ops) (.reload cfg')).1.host = (if cfg0.host then hn else "") := by
    show (run (init cfg0 hn) ops).host = _
    rw [host_constant]; rfl
  rw [hcfg, hhost, (decorated_ontime cfg' _ p sp ha).2.1, hsp]
  cases h : cfg0.host <;> simp [hhn]

/-- **reload_applies_refuted** — witness: started with AddHostMetadataToTrace off, reloaded to on:
the forwarded span still has no `meta.refinery.local_hostname`. -/
theorem reload_applies_refuted : ¬ ReloadApplies := by
  intro h
  have hok : AttrsOk ({ host := true } : Cfg).attrs := ⟨List.nodup_nil, fun _ _ => by simp⟩
  let p : Pending := ⟨"t", [], "", "", "", true, 1⟩
  let sp : Span := ⟨1, .span, false, 1, []⟩
  have h1 := h {} { host := true } "h" [] p sp (by decide) hok rfl
  have h2 := hostname_follows_startup {} { host := true } "h" [] p sp (by decide) hok rfl
  rw [h2] at h1
  simp at h1

/-- **reload_applies_partial** — after a reload the configuration in force is the new one (so by
`decorated_*` and `root_counts_*` additional attributes, rule reasons, span counts and the dry-run
marker of spans forwarded from then on are those of the new configuration), nothing else of the
collector's state changes, and the hostname decoration agrees with the new configuration exactly
when AddHostMetadataToTrace has the value it had at start. -/
theorem reload_applies_partial (cfg0 cfg' : Cfg) (hn : String) (ops : List Op) (p : Pending) (sp : Span)
    (hhn : hn ≠ "") (ha : AttrsOk cfg'.attrs) (hsp : AList.get sp.fields kHost = none) :
    (step (run (init cfg0 hn) ops) (.reload cfg')).1.cfg = cfg' ∧
    (step (run (init cfg0 hn) ops) (.reload cfg')).1.traces = (run (init cfg0 hn) ops).traces ∧
    (step (run (init cfg0 hn) ops) (.reload cfg')).1.pending = (run (init cfg0 hn) ops).pending ∧
    (cfg'.host = cfg0.host →
      AList.get (fwdOnTime (step (run (init cfg0 hn) ops) (.reload cfg')).1.cfg
          (step (run (init cfg0 hn) ops) (.reload cfg')).1.host p sp).fields kHost =
        (if cfg'.host then some (.str hn) else none)) := by
  refine ⟨rfl, rfl, rfl, ?_⟩
  intro he
  rw [hostname_follows_startup cfg0 cfg' hn ops p sp hhn ha hsp, he]

/-- the reload reaches the very next forwarding step: a trace already queued is forwarded with the
new configuration's attributes -/
theorem reload_applies_next_drain (s : St) (cfg' : Cfg) (p : Pending) (rest : List Pending)
    (h : s.pending = p :: rest) (ha : AttrsOk cfg'.attrs) :
    ∃ out, (step (step s (.reload cfg')).1 .drain).2 = .sent p.tid out ∧
      ∀ o ∈ out, ∀ k v, (k, v) ∈ cfg'.attrs → AList.get o.fields k = some (.str v) := by
  refine ⟨_, C04.drain_forwards (step s (.reload cfg')).1 p rest h, ?_⟩
  intro o ho k v hkv
  obtain ⟨sp, _, rfl⟩ := List.mem_map.mp ho
  exact (decorated_ontime cfg' _ p sp ha).1 k v hkv

/-! ## non-vacuity -/

def exCfg : Cfg := { attrs := [("env", "prod")], reason := true, counts := true }
def exSpans : List Span :=
  [⟨1, .span, false, 2, []⟩, ⟨2, .event, false, 0, []⟩, ⟨3, .span, true, 0, []⟩]
def exPending : Pending := ⟨"t", exSpans, "rules/trace/r", sendGotRoot, "k", true, 10⟩

example : (fwdOnTime exCfg "h" exPending ⟨3, .span, true, 0, []⟩).rate = 10 := by decide
example : AList.get (fwdOnTime exCfg "h" exPending ⟨3, .span, true, 0, []⟩).fields kSpanCount = some (.int 2) := by decide
example : AList.get (fwdOnTime exCfg "h" exPending ⟨3, .span, true, 0, []⟩).fields kEventCount = some (.int 3) := by decide
example : AList.get (fwdOnTime exCfg "h" exPending ⟨3, .span, true, 0, []⟩).fields kSpanLinkCount = none := by decide
example : AList.get (fwdOnTime exCfg "h" exPending ⟨1, .span, false, 2, []⟩).fields "env" = some (.str "prod") := by decide
example : AList.get (fwdOnTime exCfg "" exPending ⟨1, .span, false, 2, []⟩).fields kHost = none := by decide

end Refinery.Props.C06
