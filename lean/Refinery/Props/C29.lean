import Refinery.Model.Settings
/-!
# C29 — settings resolve with documented precedence and env expansion

Statement (properties.jsonl): the effective value of each setting is, in decreasing precedence,
the command-line flag, the environment variable, the config files (later files overriding earlier
ones), then the documented default, and `${VAR}` references in any string-valued setting of the
main config are replaced by the variable's value (left unchanged when it is unset).  The values
validation checks are the values Refinery then uses.

The model (`Refinery.Model.Settings`) mirrors the code as it is.  One part of the statement is
false of it, and its negation is proved here with witnesses that the check reproduces on the real
loader (list-valued options, which used to keep element 0 only, are repaired: `list_option_full`):

* validation pass 1 looks at the files alone, so it refuses a file value that a flag or variable
  overrides, and pass 2 checks a placeholder instead of an empty API key —
  `validated_full_refuted`, `checked_final_full_refuted`, with `accepted_value_was_validated`,
  `checked_final_eq_used_partial` and `rejected_first_pass_is_used_partial` for what does hold.
-/
namespace Refinery.Props.C29
open Refinery Refinery.Model.Settings

/-! ## `${VAR}` expansion -/

theorem scan_unset (env : Str → Str) (cs : Str) :
    ∀ m, (∀ n ∈ refsFrom m cs, env n = []) → scan env m cs = pending m ++ cs := by
  induction cs with
  | nil => intro m _; cases m <;> simp [scan, pending]
  | cons c cs ih =>
    intro m h
    cases m with
    | out =>
      simp only [scan, refsFrom, pending] at h ⊢
      split
      · next hc => simp only [hc, if_true] at h; rw [ih _ h]; simp [pending, hc]
      · next hc => simp only [hc, if_false] at h; rw [ih _ h]; simp [pending]
    | dollar =>
      simp only [scan, refsFrom, pending] at h ⊢
      split
      · next hc => simp only [hc, if_true] at h; rw [ih _ h]; simp [pending, hc]
      · next hc =>
        simp only [hc, if_false] at h
        split
        · next hd => simp only [hd, if_true] at h; rw [ih _ h]; simp [pending, hd]
        · next hd => simp only [hd, if_false] at h; rw [ih _ h]; simp [pending]
    | name acc =>
      simp only [scan, refsFrom, pending] at h ⊢
      split
      · next hc =>
        simp only [hc, if_true] at h
        split
        · next ha => simp only [ha, if_true] at h; rw [ih _ h]; simp [pending, ha, hc]
        · next ha =>
          simp only [ha, if_false] at h
          have h1 : env acc = [] := h acc (by simp)
          have h2 : ∀ n ∈ refsFrom .out cs, env n = [] := fun n hn => h n (by simp [hn])
          rw [ih _ h2]
          simp [subst, h1, pending, hc]
      · next hc => simp only [hc, if_false] at h; rw [ih _ h]; simp [pending]

/-- **expand_unset_id** — a string whose references all name unset (or empty) variables is left
exactly as it is. -/
theorem expand_unset_id (env : Str → Str) (s : Str) (h : ∀ n ∈ refs s, env n = []) :
    expand env s = s := by
  simpa [expand, pending] using scan_unset env s .out h

/-- with no variable set at all nothing changes -/
theorem expand_all_unset (s : Str) : expand (fun _ => []) s = s :=
  expand_unset_id _ s (fun _ _ => rfl)

theorem refs_of_no_open (cs : Str) :
    hasOpen cs = false → refsFrom .out cs = [] ∧ (cs.head? ≠ some '{' → refsFrom .dollar cs = []) := by
  induction cs with
  | nil => intro _; simp [refsFrom]
  | cons c cs ih =>
    intro h
    cases cs with
    | nil =>
      constructor
      · simp only [refsFrom]; split <;> simp
      · intro hh
        have hc : c ≠ '{' := by simpa using hh
        simp only [refsFrom, hc, if_false]; split <;> simp
    | cons b t =>
      simp only [hasOpen, Bool.or_eq_false_iff, Bool.and_eq_false_iff, decide_eq_false_iff_not] at h
      obtain ⟨h1, h2⟩ := h
      obtain ⟨ih1, ih2⟩ := ih h2
      have hb : c = '$' → (b :: t).head? ≠ some '{' := by
        intro hc; rcases h1 with h1 | h1
        · exact absurd hc h1
        · simpa using h1
      constructor
      · simp only [refsFrom]
        split
        · next hc => exact ih2 (hb hc)
        · exact ih1
      · intro hh
        have hc : c ≠ '{' := by simpa using hh
        simp only [refsFrom, hc, if_false]
        split
        · next hc => exact ih2 (hb hc)
        · exact ih1

/-- **expand_only_inside_braces** — text without the two-character opener `${` is never touched:
`$VAR`, `$$`, `{VAR}`, a lone `$` at the end all stay as written. -/
theorem expand_only_inside_braces (env : Str → Str) (s : Str) (h : hasOpen s = false) :
    expand env s = s :=
  expand_unset_id env s (by simp [refs, (refs_of_no_open s h).1])

/-- text in front of the first `$` is copied -/
theorem expand_plain_prefix (env : Str → Str) (p s : Str) (hp : '$' ∉ p) :
    expand env (p ++ s) = p ++ expand env s := by
  induction p with
  | nil => rfl
  | cons c p ih =>
    have hc : c ≠ '$' := fun e => hp (by simp [e])
    have hp' : '$' ∉ p := fun e => hp (by simp [e])
    simp only [expand, List.cons_append, scan, hc, if_false] at ih ⊢
    rw [ih hp']

theorem scan_name (env : Str → Str) (n t : Str) (hn : '}' ∉ n) :
    ∀ acc, scan env (.name acc) (n ++ '}' :: t) =
      if acc ++ n = [] then '$' :: '{' :: '}' :: scan env .out t
      else subst env (acc ++ n) ++ scan env .out t := by
  induction n with
  | nil => intro acc; simp [scan]
  | cons c n ih =>
    intro acc
    have hc : c ≠ '}' := fun e => hn (by simp [e])
    have hn' : '}' ∉ n := fun e => hn (by simp [e])
    simp only [List.cons_append, scan, hc, if_false]
    rw [ih hn']
    simp

/-- **expand_replaces_reference** — `${name}` (any non-empty name without `}`) standing after
plain text is replaced by the variable's value when it is set, kept when it is not, and expansion
goes on behind it (the inserted value is not looked at again). -/
theorem expand_replaces_reference (env : Str → Str) (p n t : Str)
    (hp : '$' ∉ p) (hn : n ≠ []) (hc : '}' ∉ n) :
    expand env (p ++ '$' :: '{' :: (n ++ '}' :: t)) = p ++ subst env n ++ expand env t := by
  rw [expand_plain_prefix env p _ hp]
  have e : expand env ('$' :: '{' :: (n ++ '}' :: t)) = scan env (.name []) (n ++ '}' :: t) := by
    simp [expand, scan]
  rw [e, scan_name env n t hc []]
  simp [hn, expand, List.append_assoc]

theorem subst_set (env : Str → Str) (n : Str) (h : env n ≠ []) : subst env n = env n := by
  simp [subst, h]

theorem subst_unset (env : Str → Str) (n : Str) (h : env n = []) :
    subst env n = '$' :: '{' :: (n ++ ['}']) := by
  simp [subst, h]

def envAB : Str → Str := fun n =>
  if n = ['A'] then ['$', '{', 'B', '}'] else if n = ['B'] then ['x'] else []

/-- **expand_not_idempotent** — the code expands once; a value that itself looks like a reference
would be expanded by a second pass (`A=${B}`, `B=x`: `${A}` ↦ `${B}` ↦ `x`). -/
theorem expand_not_idempotent :
    ∃ (env : Str → Str) (s : Str), expand env (expand env s) ≠ expand env s :=
  ⟨envAB, ['$', '{', 'A', '}'], by decide⟩

/-- … and is idempotent on strings whose references are all unset -/
theorem expand_idempotent_partial (env : Str → Str) (s : Str) (h : ∀ n ∈ refs s, env n = []) :
    expand env (expand env s) = expand env s := by
  rw [expand_unset_id env s h, expand_unset_id env s h]

/-! Non-vacuity / syntax examples, evaluated by the kernel. -/
def envA : Str → Str := fun n => if n = ['A'] then ['v', 'a', 'l'] else []
example : expand envA ['x', '$', '{', 'A', '}', 'y'] = ['x', 'v', 'a', 'l', 'y'] := by decide
example : expand envA ['$', 'A'] = ['$', 'A'] := by decide                                  -- $VAR
example : expand envA ['$', '$', '{', 'A', '}'] = ['$', 'v', 'a', 'l'] := by decide          -- $${A}
example : expand envA ['$', '{', 'A'] = ['$', '{', 'A'] := by decide                          -- never closed
example : expand envA ['$', '{', '}', '$', '{', 'A', '}'] = ['$', '{', '}', 'v', 'a', 'l'] := by decide
example : expand envA ['$', '{', 'B', '}'] = ['$', '{', 'B', '}'] := by decide                -- unset
example : expand envA ['$', '{', 'B', '$', '{', 'A', '}', '}'] = ['$', '{', 'B', '$', '{', 'A', '}', '}'] := by decide
example : refs ['$', '{', 'B', '$', '{', 'A', '}', '}'] = [['B', '$', '{', 'A']] := by decide

/-! ## Precedence -/

/-- the options in front all have the zero value (flag and variable absent, or empty) -/
def AllZero (k : Kind) (os : List OptSrc) : Prop := ∀ o ∈ os, ∃ v, cmdField k o = some v ∧ isZero v = true

theorem applyOpts_skip_zero (k : Kind) (cur : Val) (zs rest : List OptSrc) (hz : AllZero k zs) :
    applyOpts k cur (zs ++ rest) = applyOpts k cur rest := by
  induction zs with
  | nil => rfl
  | cons z zs ih =>
    obtain ⟨v, hv, hzv⟩ := hz z (by simp)
    simp only [List.cons_append, applyOpts, hv, hzv, if_true]
    exact ih (fun o ho => hz o (by simp [ho]))

theorem applyOpts_nonzero (k : Kind) (cur : Val) (o : OptSrc) (rest : List OptSrc) (v : Val)
    (hv : cmdField k o = some v) (hnz : isZero v = false) (hl : ∀ l, v ≠ .list l) :
    applyOpts k cur (o :: rest) = .ok v := by
  simp only [applyOpts, hv, hnz]
  cases v with
  | list l => exact absurd rfl (hl l)
  | str s => rfl
  | map m => rfl
  | num n => rfl

/-- **precedence (flag / variable over files and default)** — for every setting that is not a
list: as soon as one of its options carries a non-zero value — and the options named earlier in
the `cmdenv` tag carry none — that value is the effective one, whatever the config files and the
default say. -/
theorem option_beats_files (d : Desc) (zs : List OptSrc) (o : OptSrc) (rest : List OptSrc)
    (files : List (Option Val)) (v : Val)
    (hz : AllZero d.kind zs) (hv : cmdField d.kind o = some v) (hnz : isZero v = false)
    (hl : ∀ l, v ≠ .list l) :
    resolve d ⟨zs ++ o :: rest, files⟩ = .ok v := by
  simp only [resolve]
  rw [applyOpts_skip_zero _ _ _ _ hz]
  exact applyOpts_nonzero _ _ _ _ _ hv hnz hl

/-- **precedence (flag over variable)** — once the flag is given, the environment variable has no
influence on the setting at all (all kinds, any number of occurrences). -/
theorem flag_beats_env (d : Desc) (dl : Option Char) (vs : List Str) (e1 e2 : Option Str)
    (zs rest : List OptSrc) (files : List (Option Val)) :
    resolve d ⟨zs ++ { delim := dl, flag := some vs, env := e1 } :: rest, files⟩ =
    resolve d ⟨zs ++ { delim := dl, flag := some vs, env := e2 } :: rest, files⟩ := by
  simp only [resolve]
  induction zs with
  | nil => simp [applyOpts, cmdField, rawValues]
  | cons z zs ih => simp only [List.cons_append, applyOpts]; rw [ih]

/-- a string setting takes the (last) value of its flag … -/
theorem flag_value_used (d : Desc) (hk : d.kind = .str) (dl : Option Char) (vs : List Str) (v : Str)
    (e : Option Str) (rest : List OptSrc) (files : List (Option Val))
    (hlast : vs.getLast? = some v) (hv : v ≠ []) :
    resolve d ⟨{ delim := dl, flag := some vs, env := e } :: rest, files⟩ = .ok (.str v) := by
  have := option_beats_files d [] { delim := dl, flag := some vs, env := e } rest files (.str v)
    (fun _ h => by simp at h) (by simp [hk, cmdField, rawValues, hlast])
    (by cases v with | nil => exact absurd rfl hv | cons _ _ => rfl) (fun l => by simp)
  simpa using this

/-- … and, without a flag, the value of its environment variable -/
theorem env_value_used (d : Desc) (hk : d.kind = .str) (e : Str) (rest : List OptSrc)
    (files : List (Option Val)) (he : e ≠ []) :
    resolve d ⟨{ delim := none, flag := none, env := some e } :: rest, files⟩ = .ok (.str e) := by
  have := option_beats_files d [] { delim := none, flag := none, env := some e } rest files (.str e)
    (fun _ h => by simp at h) (by simp [hk, cmdField, rawValues])
    (by cases e with | nil => exact absurd rfl he | cons _ _ => rfl) (fun l => by simp)
  simpa using this

/-- A flag that is given with an empty value hides the environment variable *and* is itself
skipped: the files decide.  (`--redis-host= REFINERY_REDIS_HOST=e`, file `f` ⇒ `f`.) -/
theorem empty_flag_hides_env (d : Desc) (hk : d.kind = .str) (e : Str) (files : List (Option Val)) :
    resolve d ⟨[{ delim := none, flag := some [[]], env := some e }], files⟩ =
      .ok (withDefault (structFiles files) d.dflt) := by
  simp [resolve, applyOpts, hk, cmdField, rawValues, isZero]

theorem applyOpts_all_zero (k : Kind) (cur : Val) (os : List OptSrc) (hz : AllZero k os) :
    applyOpts k cur os = .ok cur := by
  have := applyOpts_skip_zero k cur os [] hz
  simpa [applyOpts] using this

theorem foldl_merge_none (acc : Option Val) (n : Nat) :
    (List.replicate n (none : Option Val)).foldl mergeStruct acc = acc := by
  induction n with
  | zero => rfl
  | succ n ih => simp [List.replicate_succ, mergeStruct, ih]

/-- **precedence (later file over earlier file, files over default)** — when no option carries a
value, the last config file that mentions the setting with a non-zero, non-map value decides,
whatever earlier files and the default say. -/
theorem later_file_beats_earlier (d : Desc) (opts : List OptSrc) (earlier : List (Option Val))
    (v : Val) (n : Nat) (hz : AllZero d.kind opts) (hnz : isZero v = false) (hm : ∀ m, v ≠ .map m) :
    resolve d ⟨opts, earlier ++ some v :: List.replicate n none⟩ = .ok v := by
  simp only [resolve]
  rw [applyOpts_all_zero _ _ _ hz]
  have : structFiles (earlier ++ some v :: List.replicate n none) = some v := by
    simp only [structFiles, List.foldl_append, List.foldl_cons, foldl_merge_none]
    cases v with
    | map m => exact absurd rfl (hm m)
    | str s => rfl
    | list l => rfl
    | num k => rfl
  rw [this]
  cases v with
  | map m => exact absurd rfl (hm m)
  | str s => simp [isZero] at hnz; simp [withDefault, hnz]
  | list l => rfl
  | num k => simp [isZero] at hnz; simp [withDefault, hnz]

theorem get_foldl_put (m a : AList Str Str) (k : Str) :
    AList.get (m.foldl (fun a kv => AList.put a kv.1 kv.2) a) k =
      match AList.get m.reverse k with
      | some v => some v
      | none => AList.get a k := by
  induction m generalizing a with
  | nil => simp
  | cons kv m ih =>
    simp only [List.foldl_cons, List.reverse_cons]
    rw [ih]
    have hsplit : ∀ (l : AList Str Str) (p : Str × Str),
        AList.get (l ++ [p]) k = match AList.get l k with | some v => some v | none => if p.1 = k then some p.2 else none := by
      intro l p
      induction l with
      | nil => simp [AList.get]
      | cons q l ihl =>
        obtain ⟨qk, qv⟩ := q
        simp only [List.cons_append, AList.get_cons]
        by_cases hq : qk = k
        · simp [hq]
        · simp [hq, ihl]
    rw [hsplit]
    cases hg : AList.get m.reverse k with
    | some v => simp
    | none =>
      simp only [AList.get_put]
      by_cases hk : kv.1 = k <;> simp [hk]

/-- **precedence (maps, later file over earlier file, key by key)** — string maps of several files
are merged: a key takes its value from the last file that has it. -/
theorem later_file_beats_earlier_map (earlier : List (Option Val)) (prev m : AList Str Str) (k : Str)
    (hprev : structFiles earlier = some (.map prev)) :
    ∃ merged, structFiles (earlier ++ [some (.map m)]) = some (.map merged) ∧
      AList.get merged k = (match AList.get m.reverse k with
        | some v => some v
        | none => AList.get prev k) := by
  refine ⟨m.foldl (fun a kv => AList.put a kv.1 kv.2) prev, ?_, get_foldl_put m prev k⟩
  simp only [structFiles, List.foldl_append, List.foldl_cons, List.foldl_nil] at hprev ⊢
  rw [hprev]
  rfl

/-- **precedence (default)** — nothing on the command line, in the environment or in any file:
the setting has its default. -/
theorem default_when_unset (d : Desc) (opts : List OptSrc) (n : Nat) (hz : AllZero d.kind opts) :
    resolve d ⟨opts, List.replicate n none⟩ = .ok d.dflt := by
  simp only [resolve]
  rw [applyOpts_all_zero _ _ _ hz]
  simp [structFiles, foldl_merge_none, withDefault]

/-- a string that a later file sets to "" falls back to the default, not to the earlier file -/
theorem empty_string_takes_default (d : Desc) (earlier : List (Option Val)) :
    resolve d ⟨[], earlier ++ [some (.str [])]⟩ = .ok d.dflt := by
  simp [resolve, applyOpts, structFiles, mergeStruct, withDefault]

/-- **precedence** — a string setting with one option and two config files, in the property's own
words: with every given value non-empty, the effective value is the flag's, else the environment
variable's, else the later file's, else the earlier file's, else the default. -/
theorem precedence (d : Desc) (dv : Str) (hk : d.kind = .str) (hd : d.dflt = .str dv)
    (f e a b : Option Str)
    (hf : ∀ x, f = some x → x ≠ []) (he : ∀ x, e = some x → x ≠ [])
    (ha : ∀ x, a = some x → x ≠ []) (hb : ∀ x, b = some x → x ≠ []) :
    resolve d ⟨[{ delim := none, flag := f.map fun x => [x], env := e }], [a.map .str, b.map .str]⟩ =
      .ok (.str ((f <|> e <|> b <|> a).getD dv)) := by
  have ne : ∀ x : Str, x ≠ [] → x.isEmpty = false := by
    intro x hx; cases x with | nil => exact absurd rfl hx | cons _ _ => rfl
  cases f with
  | some x =>
    have := ne x (hf x rfl)
    simp [resolve, applyOpts, cmdField, rawValues, isZero, hk, this]
  | none =>
    cases e with
    | some x =>
      have := ne x (he x rfl)
      simp [resolve, applyOpts, cmdField, rawValues, isZero, hk, this]
    | none =>
      cases b with
      | some x =>
        have := ne x (hb x rfl)
        cases a <;> simp [resolve, applyOpts, cmdField, rawValues, isZero, hk, structFiles, mergeStruct, withDefault, this]
      | none =>
        cases a with
        | some x =>
          have := ne x (ha x rfl)
          simp [resolve, applyOpts, cmdField, rawValues, isZero, hk, structFiles, mergeStruct, withDefault, this]
        | none =>
          simp [resolve, applyOpts, cmdField, rawValues, isZero, hk, hd, structFiles, mergeStruct, withDefault]

/-! ### list-valued options -/

/-- Full-strength statement for a list-valued option: every address given on the command line
(in one occurrence or several) or in the variable is in the effective list. -/
def ListOptionFull : Prop :=
  ∀ (d : Desc) (c : Char) (o : OptSrc) (rest : List OptSrc) (files : List (Option Val)),
    d.kind = .strs → o.delim = some c → documentedList c o ≠ [] →
    resolve d ⟨o :: rest, files⟩ = .ok (.list (documentedList c o))

theorem splitChar_no_delim (c : Char) (s : Str) (h : c ∉ s) : splitChar c s = [s] := by
  induction s with
  | nil => rfl
  | cons x xs ih =>
    have hx : x ≠ c := fun e => h (by simp [e])
    have hxs : c ∉ xs := fun e => h (by simp [e])
    simp [splitChar, hx, ih hxs]

theorem splitChar_ne_nil (c : Char) (s : Str) : splitChar c s ≠ [] := by
  cases s with
  | nil => simp [splitChar]
  | cons x xs =>
    simp only [splitChar]
    split
    · simp
    · split <;> simp

/-- the pieces of a split do not contain the delimiter -/
theorem splitChar_pieces (c : Char) (s : Str) : ∀ p ∈ splitChar c s, c ∉ p := by
  induction s with
  | nil => intro p hp; simp [splitChar] at hp; simp [hp]
  | cons x xs ih =>
    intro p hp
    simp only [splitChar] at hp
    split at hp
    · rcases List.mem_cons.mp hp with h | h
      · simp [h]
      · exact ih p h
    · next hx =>
      split at hp
      · next hnil => exact absurd hnil (splitChar_ne_nil c xs)
      · next h t hs =>
        rcases List.mem_cons.mp hp with e | e
        · subst e
          have : c ∉ h := ih h (by rw [hs]; simp)
          intro hm
          rcases List.mem_cons.mp hm with e1 | e1
          · exact hx e1.symm
          · exact this e1
        · exact ih p (by rw [hs]; simp [e])

theorem flatMap_split_of_pieces (c : Char) (l : List Str) (h : ∀ p ∈ l, c ∉ p) :
    l.flatMap (splitChar c) = l := by
  induction l with
  | nil => rfl
  | cons p l ih =>
    simp only [List.flatMap_cons]
    rw [splitChar_no_delim c p (h p (by simp)), ih (fun q hq => h q (by simp [hq]))]
    rfl

/-- **list_option_full** — a list-valued option (`RedisClusterHosts`) takes every address it is
given: all occurrences of the flag, each split at the delimiter, or else every delimiter-separated
part of the environment variable.  (Before the repair of `applyCmdEnvTags` only element 0 was
kept; the witnesses `REFINERY_REDIS_CLUSTER_HOSTS=a,b` and a repeated flag are regression cases in
`corpus/C29/list_option_keeps_first.ops`.) -/
theorem list_option_full : ListOptionFull := by
  intro d c o rest files hk hd hne
  obtain ⟨dl, fl, ev⟩ := o
  simp only at hd
  subst hd
  cases fl with
  | some vs =>
    have hvs : vs.isEmpty = false := by
      cases vs with
      | nil => simp [documentedList] at hne
      | cons _ _ => rfl
    simp [resolve, applyOpts, hk, cmdField, rawValues, isZero, documentedList, hvs]
  | none =>
    cases ev with
    | none => simp [documentedList] at hne
    | some e =>
      have hne' : (splitChar c e).isEmpty = false := by
        cases h : splitChar c e with
        | nil => exact absurd h (splitChar_ne_nil c e)
        | cons _ _ => rfl
      simp [resolve, applyOpts, hk, cmdField, rawValues, isZero, documentedList, hne',
        flatMap_split_of_pieces c _ (splitChar_pieces c e)]

/-- the two former witnesses, now as documented -/
example : resolve { kind := .strs, dflt := .list [] }
    ⟨[{ delim := some ',', flag := none, env := some ['a', ',', 'b'] }], []⟩ = .ok (.list [['a'], ['b']]) := by
  decide
example : resolve { kind := .strs, dflt := .list [] }
    ⟨[{ delim := some ',', flag := some [['a'], ['b', ',', 'c']], env := some ['e'] }], [some (.list [['f']])]⟩ =
      .ok (.list [['a'], ['b'], ['c']]) := by
  decide

/-! ## Validated = used -/

/-- **accepted_value_was_validated** — whenever the loader starts up with validation on, the value
the getters return is the value the final validation pass looked at and accepted — except for the
two coded cases where that pass does not see the value: the API-key placeholder and an
`omitempty` field that is zero. -/
theorem finalPass_accepted (d : Desc) (s : Src) (env : Str → Str) (bad : Val → Bool) (u : Val)
    (h : finalPass d s env bad = .accepted u) :
    ∃ r, resolve d s = .ok r ∧ expandVal env r = u ∧
      ((d.omitEmpty && isZero (withPlaceholder d r)) = true ∨
        bad (expandVal env (withPlaceholder d r)) = false) := by
  unfold finalPass checkedFinal used at h
  cases hr : resolve d s with
  | error e => simp [hr, Except.map] at h
  | ok r =>
    simp only [hr, Except.map] at h
    refine ⟨r, rfl, ?_⟩
    cases hom : (d.omitEmpty && isZero (withPlaceholder d r)) with
    | true =>
      simp only [hom, if_true, outcomeOf] at h
      exact ⟨by injection h, Or.inl rfl⟩
    | false =>
      simp only [hom, Bool.false_eq_true, if_false] at h
      split at h
      · exact absurd h (by simp)
      · next hb =>
        simp only [outcomeOf] at h
        exact ⟨by injection h, Or.inr (by simpa using hb)⟩

theorem accepted_value_was_validated (d : Desc) (s : Src) (env : Str → Str) (bad : Val → Bool) (u : Val)
    (h : loadValidated d s env bad = .accepted u) :
    used d s env = .ok u ∧
    ∀ r, resolve d s = .ok r → withPlaceholder d r = r → (d.omitEmpty && isZero r) = false →
      checkedFinal d s env = .ok (some u) ∧ bad u = false := by
  have hf : finalPass d s env bad = .accepted u := by
    unfold loadValidated at h
    split at h
    · split at h
      · exact absurd h (by simp)
      · exact h
    · exact h
  obtain ⟨r, hr, hur, hcase⟩ := finalPass_accepted d s env bad u hf
  refine ⟨by simp [used, hr, Except.map, hur], ?_⟩
  intro r' hr' hph hoz
  have : r' = r := by rw [hr] at hr'; injection hr' with e; exact e.symm
  subst this
  rw [hph] at hcase
  rcases hcase with hc | hc
  · rw [hoz] at hc; exact absurd hc (by simp)
  · rw [hur] at hc
    exact ⟨by simp [checkedFinal, hr, Except.map, hph, hoz, hur], hc⟩

/-- **checked_final_eq_used_partial** — outside those two cases the value pass 2 checks *is* the
value used (same files, defaults, flags and variables, expanded the same way). -/
theorem checked_final_eq_used_partial (d : Desc) (s : Src) (env : Str → Str) (r : Val)
    (hr : resolve d s = .ok r) (hph : withPlaceholder d r = r) (hoz : (d.omitEmpty && isZero r) = false) :
    ∃ u, used d s env = .ok u ∧ checkedFinal d s env = .ok (some u) := by
  refine ⟨expandVal env r, by simp [used, hr, Except.map], ?_⟩
  simp [checkedFinal, hr, Except.map, hph, hoz]

/-- **validated_eq_used** (partial) — the same in the property's words: the value validation
checks last is the value Refinery then uses, outside the two coded exceptions. -/
theorem validated_eq_used_partial (d : Desc) (s : Src) (env : Str → Str) (r : Val)
    (hr : resolve d s = .ok r) (hph : withPlaceholder d r = r) (hoz : (d.omitEmpty && isZero r) = false) :
    ∃ u, used d s env = .ok u ∧ checkedFinal d s env = .ok (some u) :=
  checked_final_eq_used_partial d s env r hr hph hoz

/-- Full statement, pass 2: whatever the final validation pass checks is the value used. -/
def CheckedFinalFull : Prop :=
  ∀ (d : Desc) (s : Src) (env : Str → Str) (v : Val),
    checkedFinal d s env = .ok (some v) → used d s env = .ok v

/-- **refuted** — an unset logger / metrics / tracing API key is validated as the literal
`InvalidHoneycombAPIKey` and used as "". -/
theorem checked_final_full_refuted : ¬ CheckedFinalFull := by
  intro h
  have := h { kind := .str, dflt := .str [], placeholder := some ['K'] } ⟨[], []⟩ (fun _ => []) (.str ['K'])
    (by decide)
  exact absurd this (by decide)

/-- Full statement, any pass: a value validation objects to is the value that would be used. -/
def ValidatedFull : Prop :=
  ∀ (d : Desc) (s : Src) (env : Str → Str) (bad : Val → Bool) (p : Nat) (v : Val),
    loadValidated d s env bad = .rejected p v → used d s env = .ok v

def badJunk : Val → Bool := fun v => v == .str ['j']

/-- **refuted** — pass 1 validates the files alone: file `ListenAddr: j` (invalid) with
`REFINERY_HTTP_LISTEN_ADDRESS=ok` is refused because of `j`, which would never be used. -/
theorem validated_full_refuted : ¬ ValidatedFull := by
  intro h
  have := h { kind := .str, dflt := .str [] }
    ⟨[{ delim := none, flag := none, env := some ['o', 'k'] }], [some (.str ['j'])]⟩
    (fun _ => []) badJunk 1 (.str ['j']) (by decide)
  exact absurd this (by decide)

theorem structFiles_eq_mapFiles_aux (files : List (Option Val)) (hs : ∀ f ∈ files, ∀ v, f = some v → ∃ s, v = .str s)
    (acc : Option Val) :
    files.foldl mergeStruct acc =
      files.foldl (fun acc f => match f with | none => acc | some v => some v) acc := by
  induction files generalizing acc with
  | nil => rfl
  | cons f fs ih =>
    simp only [List.foldl_cons]
    have hfs : ∀ f ∈ fs, ∀ v, f = some v → ∃ s, v = .str s := fun g hg => hs g (by simp [hg])
    cases f with
    | none => simpa [mergeStruct] using ih hfs acc
    | some v =>
      obtain ⟨s, rfl⟩ := hs (some v) (by simp) v rfl
      simpa [mergeStruct] using ih hfs (some (.str s))

/-- **partial** — for a string setting without a non-zero option, a first-pass rejection is about
the value that would be used (as long as that file value is not empty). -/
theorem rejected_first_pass_is_used_partial (d : Desc) (s : Src) (env : Str → Str) (bad : Val → Bool)
    (v : Val) (hz : AllZero d.kind s.opts)
    (hs : ∀ f ∈ s.files, ∀ v, f = some v → ∃ t, v = .str t)
    (hne : ∀ t, mapFiles s.files = some (.str t) → t ≠ [])
    (h : loadValidated d s env bad = .rejected 1 v) :
    used d s env = .ok v := by
  unfold loadValidated at h
  have hfp : ∀ p w, finalPass d s env bad = .rejected p w → p = 2 := by
    intro p w hf
    unfold finalPass at hf
    split at hf
    · exact absurd hf (by simp)
    · unfold Model.Settings.outcomeOf at hf; split at hf <;> exact absurd hf (by simp)
    · split at hf
      · injection hf with h1 _; exact h1.symm
      · unfold Model.Settings.outcomeOf at hf; split at hf <;> exact absurd hf (by simp)
  split at h
  · next v1 hv1 =>
    split at h
    · injection h with _ hv
      subst hv
      simp only [checkedFirst, Option.map_eq_some_iff] at hv1
      obtain ⟨fv, hfv, rfl⟩ := hv1
      have hsf : structFiles s.files = some fv := by
        unfold structFiles; rw [structFiles_eq_mapFiles_aux s.files hs none]; exact hfv
      simp only [used, resolve, hsf]
      rw [applyOpts_all_zero _ _ _ hz]
      -- fv is a non-empty string
      have : ∃ t, fv = .str t := by
        unfold mapFiles at hfv
        have key : ∀ (fs : List (Option Val)) (acc : Option Val),
            (∀ f ∈ fs, ∀ v, f = some v → ∃ t, v = .str t) → (∀ w, acc = some w → ∃ t, w = .str t) →
            ∀ w, fs.foldl (fun acc f => match f with | none => acc | some v => some v) acc = some w → ∃ t, w = .str t := by
          intro fs
          induction fs with
          | nil => intro acc _ ha w hw; exact ha w hw
          | cons f fs ih =>
            intro acc hfs ha w hw
            simp only [List.foldl_cons] at hw
            cases f with
            | none => exact ih acc (fun g hg => hfs g (by simp [hg])) ha w hw
            | some x =>
              exact ih (some x) (fun g hg => hfs g (by simp [hg]))
                (fun w' hw' => by injection hw' with e; subst e; exact hfs (some x) (by simp) x rfl) w hw
        exact key s.files none hs (fun _ h => by simp at h) fv hfv
      obtain ⟨t, rfl⟩ := this
      have ht : t ≠ [] := hne t hfv
      have hte : t.isEmpty = false := by cases t with | nil => exact absurd rfl ht | cons _ _ => rfl
      simp [withDefault, hte, Except.map]
    · have := hfp 1 v h; exact absurd this (by decide)
  · have := hfp 1 v h; exact absurd this (by decide)

/-! Non-vacuity: concrete start-ups, evaluated by the kernel. -/
def dStr : Desc := { kind := .str, dflt := .str ['d'] }
def oFE : OptSrc := { flag := some [['f']], env := some ['e'] }
def oE : OptSrc := { env := some ['e'] }
example : resolve dStr ⟨[oFE], [some (.str ['a']), some (.str ['b'])]⟩ = .ok (.str ['f']) := by decide
example : resolve dStr ⟨[oE], [some (.str ['a']), some (.str ['b'])]⟩ = .ok (.str ['e']) := by decide
example : resolve dStr ⟨[{}], [some (.str ['a']), some (.str ['b'])]⟩ = .ok (.str ['b']) := by decide
example : resolve dStr ⟨[{}], [some (.str ['a']), none]⟩ = .ok (.str ['a']) := by decide
example : resolve dStr ⟨[{}], [none, none]⟩ = .ok (.str ['d']) := by decide
example : used dStr ⟨[{ flag := some [['$', '{', 'A', '}']] }], []⟩ envA = .ok (.str ['v', 'a', 'l']) := by decide
example : loadValidated dStr ⟨[oE], [some (.str ['j'])]⟩ (fun _ => []) badJunk = .rejected 1 (.str ['j']) := by decide
example : loadValidated dStr ⟨[{ env := some ['j'] }], [some (.str ['a'])]⟩ (fun _ => []) badJunk = .rejected 2 (.str ['j']) := by decide
example : loadValidated dStr ⟨[oE], [some (.str ['a'])]⟩ (fun _ => []) badJunk = .accepted (.str ['e']) := by decide

end Refinery.Props.C29
