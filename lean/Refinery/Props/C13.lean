import Refinery.Model.SamplerRegistry
namespace Refinery.Props.C13
end Refinery.Props.C13
