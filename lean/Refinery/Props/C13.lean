import Refinery.Lemmas.SamplerRegistryRun
import Refinery.Lemmas.SamplerRegistryPeers
/-!
# C13 — throughput goals scale with the current cluster size

Statement (properties.jsonl): for throughput-based samplers with UseClusterSize, the per-node goal
in force is max(1, floor(configured goal / current number of peers)) after any sequence of
membership changes, sampler creations and configuration reloads; throughput samplers without
UseClusterSize always use their configured goal.

Vocabulary as in `Props/C12.lean`.  A membership change has two steps that other work may come
between: the peer source starts answering differently (`peerset n` / `peersetFail`) and, later, the
registered callback runs (`peercb`); `peers n` / `peersFail` are the two steps at once.  The count in
force is `st.peerCount`; `peerCount_after_callback` / `peerCount_spec` tie it to the membership: after
the callback it is the size of the peer list (failed and empty answers are ignored, as
`updatePeerCounts` does; 1 before any good answer).  The goal of instance `id` is `st.insts[id].goal`.  A goal of
0 in the configuration means the dynsampler library default (`creationGoal`).

Result: the UseClusterSize half is proved at registry level for all histories and per definition
whenever keys determine type and goal; the other half is **refuted** for the code as it is (a
definition without UseClusterSize that has the same key as one with it is scaled too — C12's leak;
reproduced on the real code, corpus/C13) and proved under the no-collision hypothesis.
-/
namespace Refinery.Props.C13
open Refinery Refinery.Model.SamplerRegistry Refinery.Lemmas.SamplerRegistry

/-- **peerCount_spec** — when every membership change is delivered together with its callback, the
peer count the factory divides by is, after any history, the size of the most recent non-empty
successfully queried membership (`lastGood`), and it is never 0. -/
theorem peerCount_spec (c0 : Config) (a0 : Option Nat) (cfgs : List Config) (ops : List Op)
    (hs : NoSplit ops) :
    (run c0 a0 cfgs ops).peerCount = lastGood a0 ops ∧ 1 ≤ (run c0 a0 cfgs ops).peerCount := by
  constructor
  · rw [lastGood_eq]
    exact foldl_pc cfgs ops (init c0 a0) (by simp only [Sync, init]; exact refresh_idem _ _) (noSplit_iff hs)
  · exact (inv_run c0 a0 cfgs (fun _ => True) ops (fun _ _ _ _ => trivial)).r.pcPos

/-- **peerCount_after_callback** — whatever happened between a membership change and its callback
(sampler creations, reloads, further changes): once the callback has run, the count in force is the
size of the peer list the source answers now; a failing or empty answer leaves it as it was. -/
theorem peerCount_after_callback (c0 : Config) (a0 : Option Nat) (cfgs : List Config) (ops : List Op) :
    (∀ n, srcAnswer a0 ops = some n → 0 < n → (run c0 a0 cfgs (ops ++ [.peercb])).peerCount = n) ∧
    ((srcAnswer a0 ops = none ∨ srcAnswer a0 ops = some 0) →
      (run c0 a0 cfgs (ops ++ [.peercb])).peerCount = (run c0 a0 cfgs ops).peerCount) ∧
    1 ≤ (run c0 a0 cfgs (ops ++ [.peercb])).peerCount := by
  have hrun : run c0 a0 cfgs (ops ++ [.peercb]) = step cfgs (run c0 a0 cfgs ops) .peercb := by
    simp [run, List.foldl_append]
  have hact : (run c0 a0 cfgs ops).actual = srcAnswer a0 ops := by
    unfold run srcAnswer
    rw [foldl_actual]; rfl
  have hpc := (step_peercb cfgs (run c0 a0 cfgs ops)).1
  rw [← hrun, hact] at hpc
  refine ⟨fun n hn hpos => ?_, fun hbad => ?_, ?_⟩
  · rw [hpc, hn]; simp [refreshCount, hpos]
  · rw [hpc]
    rcases hbad with h | h <;> rw [h] <;> simp [refreshCount]
  · exact (inv_run c0 a0 cfgs (fun _ => True) _ (fun _ _ _ _ => trivial)).r.pcPos

/-- **goal_invariant (registry level)** — after any history of membership changes (callback
delayed or not, failing and empty queries), creations on any worker, config swaps and reloads: every
registered throughput dynsampler whose key has a remembered configured goal `c` (some UseClusterSize
definition with that key was created since the last reload) has goal `max(c / peers in force, 1)`,
and every other one still has the goal it was created with. -/
theorem goal_invariant_registry (c0 : Config) (a0 : Option Nat) (cfgs : List Config) (ops : List Op) :
    ∀ k id i, (k, id) ∈ (run c0 a0 cfgs ops).reg → (run c0 a0 cfgs ops).insts[id]? = some i →
      i.kind.isThroughput = true →
      match AList.get (run c0 a0 cfgs ops).goalCfg k with
      | some c => i.goal = max (Int.tdiv c (run c0 a0 cfgs ops).peerCount) 1
      | none => i.goal = creationGoal i.creator.rate := by
  intro k id i hm hi ht
  have inv := inv_run c0 a0 cfgs (fun _ => True) ops (fun _ _ _ _ => trivial)
  cases hg : AList.get (run c0 a0 cfgs ops).goalCfg k with
  | some c => exact inv.r.goalTracked k id i c hm hi ht hg
  | none => exact inv.r.goalUntracked k id i hm hi ht hg

/-- **goal_invariant** — whenever registry keys determine sampler type and goal (`Faithful`; implied
by sampler keys without ':'), after any history: the instance behind every throughput sampler slot
with UseClusterSize built since the last reload has goal `max(configured goal / peers in force, 1)`
— all of them, not only the one created last. -/
theorem goal_invariant (c0 : Config) (a0 : Option Nat) (cfgs : List Config) (ops : List Op)
    (E : Str → Prop) (ho : OpsIn E ops) (hF : Faithful (InPlay (c0 :: cfgs) E)) :
    ∀ key ent, (key, ent) ∈ (run c0 a0 cfgs ops).caches → ent.epoch = (run c0 a0 cfgs ops).epoch →
      ∀ s ∈ ent.slots, s.d.kind.isThroughput = true → s.d.useCluster = true → ∀ id, s.id = some id →
        ∃ i, (run c0 a0 cfgs ops).insts[id]? = some i ∧
          i.goal = max (Int.tdiv s.d.rate (run c0 a0 cfgs ops).peerCount) 1 := by
  intro key ent hm hep s hs ht hu id hid
  have inv := inv_run c0 a0 cfgs E ops ho
  have hcur := inv.f hF key ent hm hep s hs id hid
  obtain ⟨hP, _, _, hi⟩ := (inv.c.slotWF key ent hm).2 s hs
  obtain ⟨i, hget, _, _, hok⟩ := hi id hid
  have hik : i.kind = s.d.kind := assertOk_throughput hok ht
  have htr := inv.c.tracked key ent hm hep s hs (by rw [hid]; simp) ht hu
  cases hg : AList.get (run c0 a0 cfgs ops).goalCfg (makeKey s.pfx s.d) with
  | none => rw [hg] at htr; cases htr
  | some c =>
    obtain ⟨pd, hPd, hkd, _, _, hrate⟩ := inv.r.goalProv _ c hg
    have hr : pd.2.rate = s.d.rate := (hF pd (s.pfx, s.d) hPd hP hkd).2
    have := inv.r.goalTracked _ id i c (AList.mem_of_get hcur) hget (by rw [hik]; exact ht) hg
    refine ⟨i, hget, ?_⟩
    rw [this, ← hrate, hr]
    rfl

/-- `goal_invariant` for sampler keys (environment / dataset names) that contain no ':' -/
theorem goal_invariant_colonFree (c0 : Config) (a0 : Option Nat) (cfgs : List Config) (ops : List Op)
    (ho : OpsIn (fun e => ':' ∉ e) ops) :
    ∀ key ent, (key, ent) ∈ (run c0 a0 cfgs ops).caches → ent.epoch = (run c0 a0 cfgs ops).epoch →
      ∀ s ∈ ent.slots, s.d.kind.isThroughput = true → s.d.useCluster = true → ∀ id, s.id = some id →
        ∃ i, (run c0 a0 cfgs ops).insts[id]? = some i ∧
          i.goal = max (Int.tdiv s.d.rate (run c0 a0 cfgs ops).peerCount) 1 :=
  goal_invariant c0 a0 cfgs ops _ ho (faithful_of_colonFree _ _ (fun _ h => h))

/-- **goal_invariant_after_callback** — in the property's words: once the membership callback has
run with the peer list at `n > 0` members — whatever was created or reloaded between the change and
the callback — *every* live UseClusterSize throughput sampler has goal `max(configured goal / n, 1)`. -/
theorem goal_invariant_after_callback (c0 : Config) (a0 : Option Nat) (cfgs : List Config) (ops : List Op)
    (ho : OpsIn (fun e => ':' ∉ e) ops) (n : Nat) (hn : srcAnswer a0 ops = some n) (hpos : 0 < n) :
    ∀ key ent, (key, ent) ∈ (run c0 a0 cfgs (ops ++ [.peercb])).caches →
      ent.epoch = (run c0 a0 cfgs (ops ++ [.peercb])).epoch →
      ∀ s ∈ ent.slots, s.d.kind.isThroughput = true → s.d.useCluster = true → ∀ id, s.id = some id →
        ∃ i, (run c0 a0 cfgs (ops ++ [.peercb])).insts[id]? = some i ∧
          i.goal = max (Int.tdiv s.d.rate n) 1 := by
  intro key ent hm hep s hs ht hu id hid
  have ho' : OpsIn (fun e => ':' ∉ e) (ops ++ [.peercb]) := by
    intro op hmem e he
    rcases List.mem_append.mp hmem with h | h
    · exact ho op h e he
    · simp only [List.mem_singleton] at h
      subst h; cases he
  obtain ⟨i, hi, hg⟩ := goal_invariant_colonFree c0 a0 cfgs _ ho' key ent hm hep s hs ht hu id hid
  rw [(peerCount_after_callback c0 a0 cfgs ops).1 n hn hpos] at hg
  exact ⟨i, hi, hg⟩

/-- **goal_invariant_overlapping_callbacks** — two membership callbacks overlap around a change to
`n2 > 0` peers: the first has read the old membership, the second reads the new one.  The factory
reads the list while holding its mutex, so the two commit in the order they read — the last
completed read wins: afterwards every live UseClusterSize throughput sampler has goal
`max(configured goal / n2, 1)`. -/
theorem goal_invariant_overlapping_callbacks (c0 : Config) (a0 : Option Nat) (cfgs : List Config)
    (ops : List Op) (ho : OpsIn (fun e => ':' ∉ e) ops) (n2 : Nat) (hpos : 0 < n2) :
    ∀ key ent, (key, ent) ∈ (run c0 a0 cfgs (ops ++ [.peercb, .peerset n2, .peercb])).caches →
      ent.epoch = (run c0 a0 cfgs (ops ++ [.peercb, .peerset n2, .peercb])).epoch →
      ∀ s ∈ ent.slots, s.d.kind.isThroughput = true → s.d.useCluster = true → ∀ id, s.id = some id →
        ∃ i, (run c0 a0 cfgs (ops ++ [.peercb, .peerset n2, .peercb])).insts[id]? = some i ∧
          i.goal = max (Int.tdiv s.d.rate n2) 1 := by
  have ho' : OpsIn (fun e => ':' ∉ e) (ops ++ [.peercb, .peerset n2]) := by
    intro op hmem e he
    rcases List.mem_append.mp hmem with h | h
    · exact ho op h e he
    · simp only [List.mem_cons, List.not_mem_nil, or_false] at h
      rcases h with h | h <;> subst h <;> cases he
  have hsrc : srcAnswer a0 (ops ++ [.peercb, .peerset n2]) = some n2 := by
    simp [srcAnswer, List.foldl_append, srcStep]
  have e : ops ++ [Op.peercb, .peerset n2, .peercb] = (ops ++ [.peercb, .peerset n2]) ++ [.peercb] := by simp
  rw [e]
  exact goal_invariant_after_callback c0 a0 cfgs _ ho' n2 hsrc hpos

/-- The second half of C13 at full strength: the instance behind every throughput sampler slot
without UseClusterSize built since the last reload has its configured goal. -/
def NoClusterSizeFixed : Prop :=
  ∀ (c0 : Config) (a0 : Option Nat) (cfgs : List Config) (ops : List Op),
    ∀ key ent, (key, ent) ∈ (run c0 a0 cfgs ops).caches → ent.epoch = (run c0 a0 cfgs ops).epoch →
      ∀ s ∈ ent.slots, s.d.kind.isThroughput = true → s.d.useCluster = false → ∀ id, s.id = some id →
        ∀ i, (run c0 a0 cfgs ops).insts[id]? = some i → i.goal = creationGoal s.d.rate

private def str (x : String) : Str := x.toList
private def emt (uc : Bool) : Def := { kind := .emathroughput, rate := 100, fields := [str "a"], useCluster := uc, tuning := 0 }
/-- one rules-based environment with `EMAThroughput{100,[a],UseClusterSize}` and `EMAThroughput{100,[a]}` -/
private def cfgLeak : Config := [(str "prod", .rules [emt true, emt false])]
private def opsLeak : List Op := [.get 0 (str "prod"), .peers 4]

/-- **full_statement_refuted** — with 4 peers the definition *without* UseClusterSize runs at goal
25 instead of 100, because it shares its instance (and registry key) with one that has it. -/
theorem no_cluster_size_fixed_refuted : ¬ NoClusterSizeFixed := by
  intro h
  have := h cfgLeak (some 1) [] opsLeak (0, str "prod")
    ⟨[⟨rulesPrefix (str "prod"), emt true, some 0⟩, ⟨rulesPrefix (str "prod"), emt false, some 0⟩], 0⟩
    (by decide) (by decide) ⟨rulesPrefix (str "prod"), emt false, some 0⟩ (by decide) (by decide) (by decide)
    0 rfl ⟨.emathroughput, 25, rulesPrefix (str "prod"), emt true, 0⟩ (by decide)
  revert this
  decide

/-- **no_cluster_size_fixed (partial)** — whenever keys determine type and goal, a throughput
sampler slot without UseClusterSize whose registry key is not also the key of a UseClusterSize
definition in play keeps its configured goal after any history. -/
theorem no_cluster_size_fixed (c0 : Config) (a0 : Option Nat) (cfgs : List Config) (ops : List Op)
    (E : Str → Prop) (ho : OpsIn E ops) (hF : Faithful (InPlay (c0 :: cfgs) E)) :
    ∀ key ent, (key, ent) ∈ (run c0 a0 cfgs ops).caches → ent.epoch = (run c0 a0 cfgs ops).epoch →
      ∀ s ∈ ent.slots, s.d.kind.isThroughput = true → s.d.useCluster = false →
      (∀ pd, InPlay (c0 :: cfgs) E pd → makeKey pd.1 pd.2 = makeKey s.pfx s.d → pd.2.useCluster = false) →
      ∀ id, s.id = some id →
        ∃ i, (run c0 a0 cfgs ops).insts[id]? = some i ∧ i.goal = creationGoal s.d.rate := by
  intro key ent hm hep s hs ht hu hno id hid
  have inv := inv_run c0 a0 cfgs E ops ho
  have hcur := inv.f hF key ent hm hep s hs id hid
  obtain ⟨hP, _, _, hi⟩ := (inv.c.slotWF key ent hm).2 s hs
  obtain ⟨i, hget, _, _, hok⟩ := hi id hid
  have hik : i.kind = s.d.kind := assertOk_throughput hok ht
  have hmem := AList.mem_of_get hcur
  obtain ⟨i', hget', hk', _, hP'⟩ := inv.r.regWF _ id hmem
  rw [hget] at hget'; cases hget'
  have hrate : i.creator.rate = s.d.rate := (hF (i.pfx, i.creator) (s.pfx, s.d) hP' hP hk').2
  cases hg : AList.get (run c0 a0 cfgs ops).goalCfg (makeKey s.pfx s.d) with
  | some c =>
    obtain ⟨pd, hPd, hkd, hucl, _, _⟩ := inv.r.goalProv _ c hg
    rw [hno pd hPd hkd] at hucl; cases hucl
  | none =>
    refine ⟨i, hget, ?_⟩
    rw [inv.r.goalUntracked _ id i hmem hget (by rw [hik]; exact ht) hg, hrate]

/-! Non-vacuity: concrete histories evaluated by the kernel. -/
example : ((run cfgLeak (some 3) [] [.get 0 (str "prod")]).insts.map (·.goal)) = [33] := by decide
example : ((run cfgLeak (some 3) [] [.get 0 (str "prod"), .peers 0, .peersFail, .peers 1000]).insts.map (·.goal)) = [1] := by decide
example : lastGood none [.peers 0, .peers 5, .peersFail, .get 0 (str "x"), .peers 0] = 5 := by decide
example : ((run cfgLeak (some 1) [] [.get 0 (str "prod"), .peerset 4, .get 1 (str "other"), .peercb]).insts.map (·.goal)) = [25] := by decide
example : ((run [(str "a", .leaf (emt true)), (str "b", .leaf { emt true with rate := 60 })] (some 1) []
    [.get 0 (str "a"), .peerset 3, .get 0 (str "b"), .peercb]).insts.map (·.goal)) = [33, 20] := by decide
example : ((run [(str "p", .leaf (emt false))] (some 7) [] [.get 0 (str "p"), .peers 9]).insts.map (·.goal)) = [100] := by decide
example : ((run cfgLeak (some 1) [] [.get 0 (str "prod"), .peers 2, .peercb, .peerset 3, .peercb]).insts.map (·.goal)) = [33] := by decide
example : newGoal (-3) 2 = 1 ∧ newGoal 7 2 = 3 ∧ newGoal 0 5 = 1 := by decide

end Refinery.Props.C13
