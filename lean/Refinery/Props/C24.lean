import Refinery.Model.Auth
import Refinery.Gen.Auth
/-!
# C24 — ingest authorization and key replacement are uniform across protocols

Statement (properties.jsonl): on every ingestion endpoint (single events, batches, OTLP traces and
logs over HTTP and gRPC) a request is accepted exactly when `AcceptOnlyListedKeys` is off or the key
the client sent (or its key ID) is listed or equals `SendKey`, and data is sent upstream with
exactly the key the documented `SendKeyMode` table prescribes for the client's key.  No event ever
leaves Refinery with a blank API key.

The model (`Refinery.Model.Auth`) mirrors the code, including the order in which each endpoint
calls `IsAccepted` and `GetReplaceKey`.  The gRPC trace endpoint used to replace first and accept
on the *replaced* key (uniformity was refuted with a witness); since the fix it accepts on the
client's key first and `uniform` is proved for all six endpoints.  Its second `IsAccepted`, on the
replaced key in `ExportTraceData`, is shown to be redundant (`grpcTraces_second_check_redundant`).
-/
set_option linter.unusedSimpArgs false

namespace Refinery.Props.C24
open Refinery.Model.Auth

/-! ## The mode list and the replacement table come from the code -/

/-- The modes of the model are exactly the modes the compiled configuration metadata accepts
(`facts`: `choices` of `AccessKeys.SendKeyMode`): a mode added to the code breaks this obligation. -/
theorem modes_from_code : Refinery.Gen.Auth.sendKeyModes = Mode.list.map Mode.name := by decide

theorem mode_mem_list (m : Mode) : m ∈ Mode.list := by cases m <;> decide

/-- husky refuses a blank API key while translating logs (`TranslateLogsRequest`) and traces
(`UnmarshalTraceRequestDirectMsgp`) — established on the linked husky version by the harness'
`facts`; this is the blank half of `Env.HuskySpec`, on which `never_blank` rests for the gRPC logs
endpoint. -/
theorem husky_rejects_blank :
    Refinery.Gen.Auth.huskyLogsRejectsBlank = 1 ∧ Refinery.Gen.Auth.huskyTracesRejectsBlank = 1 := by
  decide

/-- one representative configuration and key per class, the same the harness' `facts` uses -/
def repCfg (m : String) (set : Bool) : Cfg :=
  { receiveKeys := ["L"], receiveKeyIDs := ["I"], sendKey := if set then "S" else "", sendKeyMode := m }

def reps : List (KeyClass × String × String) :=
  [(.blank, "", ""), (.sendKey, "S", ""), (.listed, "L", ""), (.listedByID, "X", "I"), (.unlisted, "U", "J")]

def actName (sk key : String) : Option String → String
  | none => "reject"
  | some r => if r == key then "keep" else if r == sk then "sendkey" else "other"

/-- the table computed by a replacement function `f` on the representatives, in the order of `facts` -/
def rowsOf (f : Cfg → String → String → Option String) : List (String × Bool × String × String) :=
  Mode.list.flatMap fun m => [false, true].flatMap fun set => reps.filterMap fun (cl, k, id) =>
    if cl == .sendKey && !set then none
    else some (m.name, set, cl.name, actName (repCfg m.name set).sendKey k (f (repCfg m.name set) k id))

/-- The model's `getReplaceKey` and the compiled `GetReplaceKey` give the same table on one
representative per (mode, SendKey set?, key class). -/
theorem code_table_eq_model : Refinery.Gen.Auth.replaceTable = rowsOf getReplaceKey := by decide

/-- … and that table is the documented one. -/
theorem code_table_eq_doc :
    Refinery.Gen.Auth.replaceTable =
      rowsOf (fun c k id => match Mode.ofName? c.sendKeyMode with
        | some m => docReplace c m k id
        | none => none) := by decide

/-! ## accept_spec -/

theorem contains_iff (l : List String) (k : String) : l.contains k = true ↔ k ∈ l := by
  simp

/-- **accept_spec** — a key is accepted exactly when `AcceptOnlyListedKeys` is off, or it equals the
(non-empty) `SendKey`, or it is listed in `ReceiveKeys`, or its (non-empty) key ID is listed in
`ReceiveKeyIDs`; for all configurations, keys and key IDs. -/
theorem accept_spec (c : Cfg) (k kid : String) :
    isAccepted c k kid = true ↔
      (c.acceptOnlyListed = false ∨ (c.sendKey ≠ "" ∧ k = c.sendKey) ∨ k ∈ c.receiveKeys ∨
        (kid ≠ "" ∧ kid ∈ c.receiveKeyIDs)) := by
  unfold isAccepted isListed
  cases h : c.acceptOnlyListed <;> simp

/-- a configuration is well-formed when the empty string is not one of the `ReceiveKeys` (otherwise
"blank" and "listed" overlap and the documentation does not say which wins) -/
def WF (c : Cfg) : Prop := "" ∉ c.receiveKeys

/-- facts about a blank key used by the class lemmas -/
theorem blank_facts (c : Cfg) (hwf : WF c) (k kid : String) (hkid : k = "" → kid = "")
    (h : (k == "") = true) :
    (c.sendKey != "" && k == c.sendKey) = false ∧ c.receiveKeys.contains k = false ∧
      (kid != "" && c.receiveKeyIDs.contains kid) = false := by
  have hk : k = "" := eq_of_beq h
  have hkid' := hkid hk
  subst hk; subst hkid'
  unfold WF at hwf
  refine ⟨?_, by simpa using hwf, by simp⟩
  by_cases hs : c.sendKey = ""
  · simp [hs]
  · have : ("" == c.sendKey) = false := by simpa using fun h : c.sendKey = "" => hs h
    simp [this]

/-- acceptance depends on the key only through its class (a blank key has no key ID: `getKeyID`
never asks for one) -/
theorem accept_by_class (c : Cfg) (hwf : WF c) (k kid : String) (hkid : k = "" → kid = "") :
    isAccepted c k kid = acceptedByClass c (classify c k kid) := by
  have hb := blank_facts c hwf k kid hkid
  unfold isAccepted acceptedByClass classify isListed
  generalize (k == "") = b0 at hb ⊢
  generalize (c.sendKey != "" && k == c.sendKey) = b1 at hb ⊢
  generalize c.receiveKeys.contains k = b2 at hb ⊢
  generalize (kid != "" && c.receiveKeyIDs.contains kid) = b3 at hb ⊢
  cases c.acceptOnlyListed <;> cases b0 <;> cases b1 <;> cases b2 <;> cases b3 <;>
    simp_all [KeyClass.authorised]

/-! ## replace_table -/

/-- **replace_table** — for every configuration whose mode is one of the accepted modes, every key
and key ID, `GetReplaceKey` answers exactly what the documented `SendKeyMode` table prescribes for
the class of the client's key (and refuses exactly when the prescribed key is blank). -/
theorem replace_table (c : Cfg) (m : Mode) (hm : c.sendKeyMode = m.name) (hwf : WF c)
    (k kid : String) (hkid : k = "" → kid = "") :
    getReplaceKey c k kid = docReplace c m k kid := by
  have hb := blank_facts c hwf k kid hkid
  unfold getReplaceKey finalKey overwriteWith docReplace classify isListed
  rw [hm]
  by_cases hs : c.sendKey = ""
  · simp [hs, realize]
  · by_cases hk : k = ""
    · have hb' := hb (by simp [hk])
      subst hk
      cases m <;> simp_all [Mode.name, docTable, realize]
    · by_cases he : k = c.sendKey
      · subst he
        cases m <;> simp [Mode.name, docTable, realize, hs] <;> split <;> simp_all
      · by_cases hl : k ∈ c.receiveKeys
        · cases m <;> simp [Mode.name, docTable, realize, hs, hk, he, hl]
        · by_cases hi : (¬kid = "" ∧ kid ∈ c.receiveKeyIDs)
          · have hi2 : ¬ (kid = "" ∨ ¬kid ∈ c.receiveKeyIDs) := by
              intro h; rcases h with h | h
              · exact hi.1 h
              · exact h hi.2
            cases m <;> simp [Mode.name, docTable, realize, hs, hk, he, hl, hi, hi2]
          · have hi2 : (kid = "" ∨ ¬kid ∈ c.receiveKeyIDs) := by
              by_cases h : kid = ""
              · exact Or.inl h
              · exact Or.inr (fun h2 => hi ⟨h, h2⟩)
            cases m <;> simp [Mode.name, docTable, realize, hs, hk, he, hl, hi, hi2]

/-- an out-of-list mode (not reachable through configuration validation) replaces nothing -/
theorem unknown_mode_keeps (c : Cfg) (h : c.sendKeyMode ∉ Mode.list.map Mode.name) (k kid : String) :
    getReplaceKey c k kid = realize "" k .keep := by
  simp [Mode.list, Mode.name] at h
  obtain ⟨h1, h2, h3, h4, h5, h6⟩ := h
  unfold getReplaceKey finalKey overwriteWith realize
  by_cases hs : c.sendKey = "" <;> simp [hs, h1, h2, h3, h4, h5, h6]

/-- The replacement depends on the key only through its class: per (configuration, class) there is
one action — keep the client's key or use `SendKey` — that describes `GetReplaceKey` on *every* key
of that class.  (This is the lemma that lifts the finite table to all strings.) -/
theorem replace_class_only (c : Cfg) (m : Mode) (hm : c.sendKeyMode = m.name) (hwf : WF c)
    (cl : KeyClass) :
    ∃ act : Action, ∀ k kid, (k = "" → kid = "") → classify c k kid = cl →
      getReplaceKey c k kid = realize c.sendKey k act := by
  by_cases hs : c.sendKey = ""
  · refine ⟨.keep, fun k kid hkid _ => ?_⟩
    rw [replace_table c m hm hwf k kid hkid]
    simp [docReplace, hs, realize]
  · refine ⟨docTable m cl, fun k kid hkid hcl => ?_⟩
    rw [replace_table c m hm hwf k kid hkid]
    simp [docReplace, hs, hcl]

/-! ## never_blank -/

theorem replace_some_iff (c : Cfg) (k kid r : String) :
    getReplaceKey c k kid = some r ↔ finalKey c k kid = r ∧ r ≠ "" := by
  unfold getReplaceKey
  by_cases h : finalKey c k kid = ""
  · simp only [h, beq_self_eq_true, if_true]
    constructor
    · intro h2; cases h2
    · rintro ⟨h2, h3⟩; exact absurd h2.symm h3
  · have hb : (finalKey c k kid == "") = false := by simpa using h
    simp only [hb, Bool.false_eq_true, if_false, Option.some.injEq]
    constructor
    · intro h2; subst h2; exact ⟨rfl, h⟩
    · exact fun h2 => h2.1

theorem replace_none_iff (c : Cfg) (k kid : String) :
    getReplaceKey c k kid = none ↔ finalKey c k kid = "" := by
  unfold getReplaceKey
  by_cases h : finalKey c k kid = "" <;> simp [h]

/-- the final key is the client's key or the (non-empty) `SendKey` -/
theorem finalKey_cases (c : Cfg) (k kid : String) :
    finalKey c k kid = k ∨ (finalKey c k kid = c.sendKey ∧ c.sendKey ≠ "") := by
  unfold finalKey
  by_cases hs : c.sendKey = ""
  · simp [hs]
  · simp only [bne_iff_ne, ne_eq, hs, not_false_eq_true, if_true]
    by_cases how : overwriteWith c k kid = ""
    · simp [how]
    · simp only [how, not_false_eq_true, if_true]
      unfold overwriteWith at how ⊢
      repeat' split
      all_goals simp_all

theorem replace_never_blank {c : Cfg} {k kid r : String} (h : getReplaceKey c k kid = some r) :
    r ≠ "" := ((replace_some_iff c k kid r).mp h).2

/-- the result of a replacement is the client's key or the (non-empty) `SendKey` -/
theorem replace_result {c : Cfg} {k kid r : String} (h : getReplaceKey c k kid = some r) :
    r = k ∨ (r = c.sendKey ∧ c.sendKey ≠ "") := by
  obtain ⟨h1, _⟩ := (replace_some_iff c k kid r).mp h
  subst h1
  exact finalKey_cases c k kid

/-- a non-blank client key is never refused by `GetReplaceKey` -/
theorem replace_nonblank_some (c : Cfg) {k : String} (kid : String) (hk : k ≠ "") :
    ∃ r, getReplaceKey c k kid = some r := by
  refine ⟨finalKey c k kid, (replace_some_iff c k kid _).mpr ⟨rfl, ?_⟩⟩
  rcases finalKey_cases c k kid with h | ⟨h, hs⟩
  · rw [h]; exact hk
  · rw [h]; exact hs

/-- **never_blank** — on every endpoint, for every configuration, every environment in which husky
refuses a blank key, and every pair of request headers: if data leaves, it leaves with a non-blank
API key. -/
theorem never_blank (ep : Endpoint) (c : Cfg) (env : Env) (hh : env.huskyOK "" = false)
    (long short r : String) (h : serve ep c env long short = .sent r) : r ≠ "" := by
  unfold serve at h
  generalize clientKey ep long short = k at h
  have key : ∀ x : String, env.huskyOK x = true → x ≠ "" := by
    intro x hx hx0; subst hx0; rw [hh] at hx; cases hx
  cases ep <;> simp only [handle, handleV1, handleOTLPHTTP, handleTracesGRPC, handleLogsGRPC] at h
  case event | batch =>
    split at h
    · cases h
    · split at h
      · cases h
      · rename_i r' hr; cases h; exact replace_never_blank hr
  case otlpTracesHTTP | otlpLogsHTTP =>
    repeat' split at h
    all_goals first | cases h | skip
    all_goals (rename_i hok; exact key _ (by simpa using hok))
  case otlpTracesGRPC =>
    split at h
    · cases h
    · split at h
      · cases h
      · rename_i r' hr
        repeat' split at h
        all_goals first | cases h | skip
        all_goals exact replace_never_blank hr
  case otlpLogsGRPC =>
    repeat' split at h
    all_goals first | cases h | skip
    all_goals (rename_i hok; exact key _ (by simpa using hok))

/-- The gRPC logs handler itself tolerates a missing key (`err != ErrMissingAPIKeyHeader`) and drops
the error of `GetReplaceKey`: what keeps a blank key from leaving is husky's second validation inside
`TranslateLogsRequest`.  Were husky lenient, a blank key would go upstream. -/
theorem grpcLogs_blank_rests_on_husky (env : Env) (hh : env.huskyOK "" = true) :
    handle .otlpLogsGRPC {} env "" = .sent "" := by
  simp [handle, handleLogsGRPC, isAccepted, getReplaceKey, finalKey, hh]

/-! ## uniform -/

/-- **uniform**, full strength: every endpoint behaves as "accept on the key the client sent, then
replace" — same acceptance, same upstream key. -/
def Uniform : Prop :=
  ∀ (ep : Endpoint) (c : Cfg) (env : Env), env.HuskySpec → ∀ k : String,
    (handle ep c env k).key? = refHandle c env k

def witnessEnv : Env := { legacy := fun _ => false, authID := fun _ => "", huskyOK := fun k => k != "" }

/-- the configuration of the former counterexample (gRPC traces accepted `U` and sent `S`) -/
def witnessCfg : Cfg :=
  { receiveKeys := ["L"], sendKey := "S", sendKeyMode := "all", acceptOnlyListed := true }

/-- `SendKey`, when set, is always acceptable -/
theorem sendKey_accepted (c : Cfg) (hs : c.sendKey ≠ "") (kid : String) :
    isAccepted c c.sendKey kid = true := by
  unfold isAccepted; cases c.acceptOnlyListed <;> simp [hs]

/-- **The second acceptance check of the gRPC trace endpoint is redundant**: when the client's key
is acceptable, the key `GetReplaceKey` yields (the client's key itself or `SendKey`) is acceptable
too, with the key ID looked up for it — so `ExportTraceData`'s `IsAccepted` on the replaced key
never refuses a request `customTraceExportHandler` let through. -/
theorem grpcTraces_second_check_redundant (c : Cfg) (env : Env) (k r : String)
    (hacc : isAccepted c k (keyIDOf c env k) = true)
    (hr : getReplaceKey c k (keyIDOf c env k) = some r) :
    isAccepted c r (keyIDOf c env r) = true := by
  rcases replace_result hr with h1 | ⟨h1, hs⟩
  · subst h1; exact hacc
  · subst h1; exact sendKey_accepted c hs _

/-- **uniform** — all six endpoints (single events, batches, OTLP traces and logs over HTTP and
over gRPC) accept exactly on the client's key and send exactly the replacement of the client's key,
for all configurations, environments (with husky refusing a blank key) and keys. -/
theorem uniform : Uniform := by
  intro ep c env hh k
  have hb : env.huskyOK "" = false := by rw [hh]; rfl
  cases ep <;> simp only [handle, handleV1, handleOTLPHTTP, handleLogsGRPC, handleTracesGRPC, refHandle]
  case event | batch =>
    cases isAccepted c k (keyIDOf c env k) <;> simp [Result.key?]
    cases getReplaceKey c k (keyIDOf c env k) <;> simp [Result.key?]
  case otlpTracesHTTP | otlpLogsHTTP =>
    cases isAccepted c k (keyIDOf c env k) <;> simp [Result.key?]
    cases hr : getReplaceKey c k (keyIDOf c env k) with
    | none =>
      simp only [Option.getD_none, hb]
      cases env.huskyOK k <;> simp [Result.key?]
    | some r =>
      have hr0 := replace_never_blank hr
      have : env.huskyOK r = true := by rw [hh]; simpa using hr0
      simp [this, hr0, Result.key?]
  case otlpTracesGRPC =>
    cases hacc : isAccepted c k (keyIDOf c env k) with
    | false => simp [Result.key?]
    | true =>
      cases hr : getReplaceKey c k (keyIDOf c env k) with
      | none => simp [Result.key?]
      | some r =>
        have hr0 := replace_never_blank hr
        have h1 : env.huskyOK r = true := by rw [hh]; simpa using hr0
        have h2 := grpcTraces_second_check_redundant c env k r hacc hr
        simp [h1, h2, Result.key?]
  case otlpLogsGRPC =>
    cases isAccepted c k (keyIDOf c env k) <;> simp [Result.key?]
    cases hr : getReplaceKey c k (keyIDOf c env k) with
    | none => simp [hb, Result.key?]
    | some r =>
      have hr0 := replace_never_blank hr
      have : env.huskyOK r = true := by rw [hh]; simpa using hr0
      simp [this, Result.key?]

/-! Non-vacuity, on the former counterexample: every endpoint now refuses the unlisted key `U` and
the missing key, and forwards the listed key `L` with `SendKey`. -/
example : handle .otlpTracesGRPC witnessCfg witnessEnv "U" = .rejected .unlisted := by decide
example : handle .otlpTracesGRPC witnessCfg witnessEnv "" = .rejected .unlisted := by decide
example : handle .otlpTracesGRPC witnessCfg witnessEnv "L" = .sent "S" := by decide
example : handle .otlpLogsGRPC witnessCfg witnessEnv "U" = .rejected .unlisted := by decide
example : handle .otlpTracesHTTP witnessCfg witnessEnv "U" = .rejected .unlisted := by decide
example : handle .event witnessCfg witnessEnv "U" = .rejected .unlisted := by decide
example : refHandle witnessCfg witnessEnv "L" = some "S" := by decide

/-! Non-vacuity of the table: concrete configurations, evaluated by the kernel. -/
example : getReplaceKey { sendKey := "S", sendKeyMode := "listedonly", receiveKeys := ["L"] } "L" "" = some "S" := by decide
example : getReplaceKey { sendKey := "S", sendKeyMode := "listedonly", receiveKeyIDs := ["I"] } "X" "I" = some "S" := by decide
example : getReplaceKey { sendKey := "S", sendKeyMode := "listedonly", receiveKeys := ["L"] } "U" "" = some "U" := by decide
example : getReplaceKey { sendKey := "S", sendKeyMode := "unlisted", receiveKeys := ["L"] } "" "" = none := by decide
example : getReplaceKey { sendKey := "S", sendKeyMode := "missingonly" } "" "" = some "S" := by decide
example : getReplaceKey { sendKey := "", sendKeyMode := "all" } "" "" = none := by decide
example : isAccepted { acceptOnlyListed := true, receiveKeyIDs := ["I"] } "X" "I" = true := by decide
example : isAccepted { acceptOnlyListed := true, receiveKeys := ["L"], sendKey := "S" } "U" "" = false := by decide

/-! ## The endpoints against the documentation, and the divergent cells of gRPC traces -/

theorem keyIDOf_blank (c : Cfg) (env : Env) (k : String) (hk : k = "") : keyIDOf c env k = "" := by
  subst hk; unfold keyIDOf; cases c.receiveKeyIDs.isEmpty <;> simp

/-- the reference behaviour is the documented one: acceptance by class, key by the documented table -/
theorem ref_eq_doc (c : Cfg) (m : Mode) (hm : c.sendKeyMode = m.name) (hwf : WF c) (env : Env)
    (k : String) : refHandle c env k = docOutcome c m k (keyIDOf c env k) := by
  unfold refHandle docOutcome
  simp only
  rw [accept_by_class c hwf k _ (keyIDOf_blank c env k), replace_table c m hm hwf k _ (keyIDOf_blank c env k)]

/-- **Every endpoint does what the documentation says**, for all well-formed configurations with
an accepted mode and all keys: accepted iff `AcceptOnlyListedKeys` is off or the client's key is
`SendKey`/listed/listed by ID; upstream key = the documented table's; nothing leaves blank. -/
theorem endpoints_match_documentation (ep : Endpoint) (c : Cfg)
    (m : Mode) (hm : c.sendKeyMode = m.name) (hwf : WF c) (env : Env) (hh : env.HuskySpec) (k : String) :
    (handle ep c env k).key? = docOutcome c m k (keyIDOf c env k) := by
  rw [uniform ep c env hh k, ref_eq_doc c m hm hwf env k]

/-- in particular an unauthorised key (blank or unlisted under `AcceptOnlyListedKeys`) is refused on
every endpoint whatever the `SendKeyMode` — the five cells in which gRPC traces used to forward such
a request with `SendKey` included -/
theorem unauthorised_key_refused (ep : Endpoint) (c : Cfg) (hwf : WF c) (env : Env)
    (hh : env.HuskySpec) (k : String) (haolk : c.acceptOnlyListed = true)
    (hcl : (classify c k (keyIDOf c env k)).authorised = false) :
    (handle ep c env k).key? = none := by
  rw [uniform ep c env hh k]
  unfold refHandle
  simp only
  rw [accept_by_class c hwf k _ (keyIDOf_blank c env k)]
  simp [acceptedByClass, haolk, hcl]

end Refinery.Props.C24
