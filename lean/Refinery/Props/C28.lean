import Refinery.Model.Startup
import Refinery.Gen.Nocrash
/-!
# C28 — no accepted configuration can crash Refinery (modelled paths)

Statement (properties.jsonl): for every configuration that passes validation and every request,
Refinery answers or drops the request without panicking, terminating or hanging.
C28 is claimed as *partial*: this file covers the configuration half on the modelled paths
(rules file → `ValidateRules` + YAML decoding → `SamplerFactory` / `Start` of every sampler type →
`GetSampleRate`, and the per-request `GetKeyFields`); third-party decoders and the HTTP stack are
not modelled (the request half is fuzzing in the harness, not a theorem).

The full statement `valid_config_no_panic` is **refuted** for the code as it is (`fixed = false`):
nine witnesses, one per panic site, each a rules file the real validator accepts (reproduced on
the real code by the harness; see corpus/C28).  `valid_config_no_panic_partial` is what does hold,
under the hypotheses `Benign` the validator would have to enforce and does not.
`valid_config_no_panic_fixed` is the full statement for the proposed repairs (`fixed = true`),
for every metadata table and every later answer of the third-party samplers.
-/
namespace Refinery.Props.C28
open Refinery.Model.Startup

instance {ε α : Type} [DecidableEq ε] [DecidableEq α] : DecidableEq (Except ε α)
  | .ok a, .ok b => if h : a = b then isTrue (by rw [h]) else isFalse (by intro e; cases e; exact h rfl)
  | .error a, .error b => if h : a = b then isTrue (by rw [h]) else isFalse (by intro e; cases e; exact h rfl)
  | .ok _, .error _ => isFalse (by intro e; cases e)
  | .error _, .ok _ => isFalse (by intro e; cases e)

/-- the real `rulesMeta.yaml`, as the compiled code reads it -/
abbrev md : Meta := Refinery.Gen.Nocrash.rulesMeta

/-- later answers of a third-party sampler that respect its contract: a non-negative `int` -/
def laterNonneg (a : Int) : Prop := 0 ≤ a ∧ a < 9223372036854775808
/-- no assumption at all about later answers -/
def laterAny (_ : Int) : Prop := True

/-- **Full statement**: whatever rules file the validator and decoder accept, key-field derivation,
sampler construction and every sampling decision complete without panic, exit or crash. -/
def valid_config_no_panic (fixed : Bool) (md : Meta) : Prop :=
  ∀ raw c, load md fixed raw = .ok c → NoCrash fixed laterNonneg c

/-! ## Side conditions on the metadata table (from the code, discharged by evaluation) -/

/-- every validation type in the real table is one `Validate` knows (otherwise it panics) -/
theorem meta_validations_known :
    md.all (fun g => g.2.all fun f => f.2.2.all fun v => knownValidations.contains v.1) = true := by decide

/-- the mapping-valued keys are declared with the types the model's structural recursion assumes -/
theorem meta_structure :
    (findGroup md "RulesBasedSampler").map (hasTyped · "Rules" "objectarray") = some true ∧
    (findGroup md "Rules").map (hasTyped · "Conditions" "objectarray") = some true ∧
    (findGroup md "Rules").map (hasTyped · "Sampler" "object") = some true := by decide

/-- what the real table enforces on the values the panics depend on: nothing.
(`notempty` on a list is vacuous, `gte=1` exists only as a struct tag.) -/
theorem meta_enforces_nothing_relevant :
    validateGroup md "DeterministicSampler" (.obj [("SampleRate", .int 0)]) = true ∧
    validateGroup md "DynamicSampler" (.obj [("SampleRate", .int (-5)), ("FieldList", .list [.str ""]),
                                             ("ClearFrequency", .dur (-1))]) = true := by decide

/-! ## Witnesses: one accepted configuration per panic site -/

def leafCfg (g : String) (f : Fields) : RawCfg := { entries := [.leaf g (.obj f)] }
def rulesCfg (rs : List (Shape RawRule)) : RawCfg := { entries := [.rules (.obj { fields := [], rules := some rs })] }

/-- `FieldList: [""]` -/
def wIndex : RawCfg := leafCfg "DynamicSampler" [("SampleRate", .int 2), ("FieldList", .list [.str ""])]
/-- `DeterministicSampler: {SampleRate: 4294967296}` -/
def wDivzero : RawCfg := leafCfg "DeterministicSampler" [("SampleRate", .int 4294967296)]
/-- `DynamicSampler: {SampleRate: -5, FieldList: [a]}` -/
def wIntn : RawCfg := leafCfg "DynamicSampler" [("SampleRate", .int (-5)), ("FieldList", .list [.str "a"])]
/-- `EMAThroughputSampler: {GoalThroughputPerSec: 5, AdjustmentInterval: 1µs, FieldList: [a]}` -/
def wNilmap : RawCfg := leafCfg "EMAThroughputSampler"
  [("GoalThroughputPerSec", .int 5), ("AdjustmentInterval", .dur 1000), ("FieldList", .list [.str "a"])]
/-- `TotalThroughputSampler: {GoalThroughputPerSec: 2, ClearFrequency: -1ns, FieldList: [a]}` -/
def wTicker : RawCfg := leafCfg "TotalThroughputSampler"
  [("GoalThroughputPerSec", .int 2), ("ClearFrequency", .dur (-1)), ("FieldList", .list [.str "a"])]
/-- `__default__: {}` -/
def wExit : RawCfg := {}
/-- `Rules: [{Sampler: {}}]` -/
def wExitDown : RawCfg := rulesCfg [.obj { fields := [], conds := none, sampler := some [] }]
/-- `Rules: [null]` -/
def wNilRule : RawCfg := rulesCfg [.null]
/-- `Rules: [{Conditions: [null]}]` -/
def wNilCond : RawCfg := rulesCfg [.obj { fields := [], conds := some [.null], sampler := none }]

def startOf (raw : RawCfg) : Option (Except Crash Sampler) :=
  match load md false raw with
  | .ok c => some (start false c)
  | _ => none

def evalOf (raw : RawCfg) : Option (Except Crash Int) :=
  match load md false raw with
  | .ok c => (match start false c with
              | .ok s => some (eval false s (fun _ => true) none)
              | .error _ => none)
  | _ => none

def reqOf (raw : RawCfg) : Option (Except Crash Unit) :=
  match load md false raw with
  | .ok c => some (reqKeyFields false c)
  | _ => none

/-- `C28:getkeyfields-empty-field-name` — accepted; `Start` (and every request) indexes `""[0]` -/
theorem witness_index : startOf wIndex = some (.error .index) ∧ reqOf wIndex = some (.error .index) := by decide
/-- `C28:deterministic-samplerate-zero-mod-2^32` — accepted; `Start` divides by `uint32(2^32) = 0` -/
theorem witness_divzero : startOf wDivzero = some (.error .divzero) := by decide
/-- `C28:intn-negative-dynsampler-rate` — accepted, starts; the first decision calls `rand.Intn(-5)` -/
theorem witness_intn : evalOf wIntn = some (.error .intn) := by decide
/-- `C28:emathroughput-start-error-dropped-nil-map` — accepted, starts; the first decision writes a nil map -/
theorem witness_nilmap : evalOf wNilmap = some (.error .nilmap) := by decide
/-- `C28:newticker-non-positive-interval` — accepted; the sampler's goroutine panics in `time.NewTicker` -/
theorem witness_ticker : startOf wTicker = some (.error .ticker) := by decide
/-- `C28:no-sampler-configured-os-exit` — accepted; `createSampler` exits the process -/
theorem witness_exit : startOf wExit = some (.error .exit) := by decide
/-- `C28:empty-downstream-sampler-os-exit` — accepted; `GetDownstreamSampler` exits the process -/
theorem witness_exit_downstream : startOf wExitDown = some (.error .exit) := by decide
/-- `C28:rules-null-rule-nil-dereference` — accepted; `RulesBasedSampler.Start` dereferences the nil rule -/
theorem witness_nil_rule : startOf wNilRule = some (.error .nilptr) := by decide
/-- `C28:rules-null-condition-nil-dereference` — accepted; `GetSamplingFields` calls `Init` on nil -/
theorem witness_nil_condition :
    startOf wNilCond = some (.error .nilptr) ∧ reqOf wNilCond = some (.error .nilptr) := by decide

/-- The full statement is false of the code as it is. -/
theorem valid_config_no_panic_refuted : ¬ valid_config_no_panic false md := by
  intro h
  have hl : load md false wDivzero = .ok (.leaf (.det 4294967296)) := by decide
  obtain ⟨_, s, hs, _⟩ := h _ _ hl
  have : start false (.leaf (.det 4294967296)) = .error .divzero := by decide
  rw [this] at hs
  cases hs

/-! ## What does hold -/

theorem isOk_ok {ε α : Type} (a : α) : isOk (.ok a : Except ε α) = true := rfl

/-- `mapE` succeeds when the function succeeds on every element, and a property of the results carries over -/
theorem mapE_ok {α β ε : Type} (f : α → Except ε β) (P : β → Prop) :
    ∀ (l : List α), (∀ a ∈ l, ∃ b, f a = .ok b ∧ P b) → ∃ bs, mapE f l = .ok bs ∧ ∀ b ∈ bs, P b := by
  intro l
  induction l with
  | nil => intro _; exact ⟨[], rfl, by simp⟩
  | cons a as ih =>
    intro h
    obtain ⟨b, hb, hPb⟩ := h a (by simp)
    obtain ⟨bs, hbs, hPbs⟩ := ih (fun a' ha' => h a' (by simp [ha']))
    refine ⟨b :: bs, ?_, ?_⟩
    · simp [mapE, hb, hbs]
    · intro x hx
      rcases List.mem_cons.mp hx with rfl | hx
      · exact hPb
      · exact hPbs x hx

/-- a started leaf sampler whose decisions cannot fail, given what later answers may be -/
def LeafGood (fixed : Bool) (laterOk : Int → Prop) (s : LeafS) : Prop :=
  ∀ later : Option Int, (∀ a, later = some a → laterOk a) → isOk (leafEval fixed s later) = true

def RuleGood (fixed : Bool) (laterOk : Int → Prop) (r : RuleS) : Prop :=
  ∀ s, r.down = some s → LeafGood fixed laterOk s

theorem rulesEval_ok (fixed : Bool) (laterOk : Int → Prop) (m : Nat → Bool) (later : Option Int)
    (hl : ∀ a, later = some a → laterOk a) :
    ∀ (rs : List RuleS) (i : Nat), (∀ r ∈ rs, RuleGood fixed laterOk r) →
      isOk (rulesEval fixed m later i rs) = true := by
  intro rs
  induction rs with
  | nil => intro i _; rfl
  | cons r rest ih =>
    intro i h
    unfold rulesEval
    by_cases hm : m i = true
    · simp only [hm, if_true]
      by_cases hs : r.hasSampler = true
      · simp only [hs, if_true]
        cases hd : r.down with
        | none => rfl
        | some s => exact h r (by simp) s hd later hl
      · simp only [hs]; rfl
    · simp only [hm]
      exact ih (i + 1) (fun r' hr' => h r' (by simp [hr']))

/-! ### the repaired code (`fixed = true`) -/

theorem keyFields_fixed (fs : List String) : keyFields true fs = .ok () := by simp [keyFields]

theorem dynCreate_fixed (c : DynCfg) : dynCreate true c = .ok false := by
  unfold dynCreate
  cases c.kind <;> simp only [second, millisecond, true_and] <;> (repeat' split) <;>
    first | rfl | omega

theorem leafEval_fixed (c : DynCfg) (later : Option Int) : isOk (leafEval true (.dyn c false) later) = true := by
  simp [leafEval, isOk]

theorem leafStart_fixed (l : Leaf) : ∃ s, leafStart true l = .ok s ∧ LeafGood true laterAny s := by
  cases l with
  | det rate =>
    refine ⟨.det rate, by simp [leafStart, detStart], ?_⟩
    intro later _; simp [leafEval, isOk]
  | dyn c =>
    refine ⟨.dyn c false, by simp [leafStart, dynCreate_fixed, keyFields_fixed], ?_⟩
    intro later _; exact leafEval_fixed c later

theorem hasNilCond_of_wf (rs : List (Option Rule)) (h : rs.all ruleWF = true) : hasNilCond rs = false := by
  unfold hasNilCond
  rw [Bool.eq_false_iff]
  intro hc
  rw [List.any_eq_true] at hc
  obtain ⟨r, hr, hrc⟩ := hc
  have hw := List.all_eq_true.mp h r hr
  cases r with
  | none => simp at hrc
  | some r =>
    simp only [ruleWF, Bool.and_eq_true] at hw
    rw [List.any_eq_true] at hrc
    obtain ⟨c, hcm, hcn⟩ := hrc
    have := List.all_eq_true.mp hw.1 c hcm
    cases c with
    | none => simp at this
    | some c => simp at hcn

theorem startRule_fixed (r : Option Rule) (h : ruleWF r = true) :
    ∃ s, startRule true r = .ok s ∧ RuleGood true laterAny s := by
  cases r with
  | none => simp [ruleWF] at h
  | some r =>
    simp only [ruleWF, Bool.and_eq_true, bne_iff_ne, ne_eq] at h
    cases hs : r.sampler with
    | none =>
      exact ⟨{ sampleRate := r.sampleRate, hasSampler := false, down := none }, by simp [startRule, hs],
        by intro s hd; simp at hd⟩
    | some d =>
      cases d with
      | empty => exact absurd hs h.2
      | leaf l =>
        obtain ⟨s, hls, hg⟩ := leafStart_fixed l
        refine ⟨{ sampleRate := r.sampleRate, hasSampler := true, down := some s }, by simp [startRule, hs, hls], ?_⟩
        intro s' hd
        simp at hd
        subst hd
        exact hg

/-- every configuration that passes the proposed structural check starts and decides without a crash,
whatever the third-party samplers answer later -/
theorem wellFormed_no_crash (c : Choice) (h : wellFormed c = true) : NoCrash true laterAny c := by
  cases c with
  | none => simp [wellFormed] at h
  | leaf l =>
    obtain ⟨s, hs, hg⟩ := leafStart_fixed l
    refine ⟨by simp [reqKeyFields, keyFields_fixed], .leaf s, by simp [start, hs], ?_⟩
    intro m later hl
    exact hg later hl
  | rules rs =>
    simp only [wellFormed] at h
    have hn := hasNilCond_of_wf rs h
    obtain ⟨ss, hss, hgs⟩ := mapE_ok (startRule true) (RuleGood true laterAny) rs
      (fun r hr => startRule_fixed r (List.all_eq_true.mp h r hr))
    refine ⟨by simp [reqKeyFields, rulesKeyFields, hn, keyFields_fixed], .rules ss,
      by simp [start, rulesKeyFields, hn, keyFields_fixed, hss], ?_⟩
    intro m later hl
    exact rulesEval_ok true laterAny m later hl ss 0 hgs

/-- **valid_config_no_panic (repaired code)** — for *every* metadata table: a rules file accepted by
the repaired loader makes key-field derivation, sampler construction and every decision succeed,
for every trace and every (even negative) later answer of the third-party samplers. -/
theorem valid_config_no_panic_fixed (md : Meta) (raw : RawCfg) (c : Choice)
    (h : load md true raw = .ok c) : NoCrash true laterAny c := by
  apply wellFormed_no_crash
  unfold load at h
  split at h
  · split at h
    · split at h
      · cases h
      · rename_i hw
        cases h
        simpa using hw
    · cases h
  · cases h

/-- the full statement holds for the repaired code (later answers restricted as in the statement) -/
theorem valid_config_no_panic_holds_when_fixed (md : Meta) : valid_config_no_panic true md := by
  intro raw c h
  obtain ⟨h1, s, h2, h3⟩ := valid_config_no_panic_fixed md raw c h
  exact ⟨h1, s, h2, fun m later _ => h3 m later (fun _ _ => trivial)⟩

/-! ### the code as it is (`fixed = false`): the exact extra hypotheses -/

/-- what a dynsampler-backed sampler's configuration must satisfy (nothing of it is validated) -/
def dynBenign (c : DynCfg) : Prop :=
  "" ∉ c.fieldList ∧
  (match c.kind with
   | .dynamic | .emaDynamic => 0 ≤ c.interval ∧ 0 ≤ c.rate ∧ c.rate < 9223372036854775808
   | .emaThroughput => (c.interval = 0 ∨ millisecond ≤ c.interval) ∧ 0 ≤ c.initial ∧ c.initial < 9223372036854775808
   | .windowed | .total => 0 ≤ c.interval)

def leafBenign : Leaf → Prop
  | .det rate => rate % 4294967296 ≠ 0
  | .dyn c => dynBenign c

def ruleBenign : Option Rule → Prop
  | none => False
  | some r =>
    (∀ c ∈ r.conds, ∃ c', c = some c' ∧ "" ∉ condFields c') ∧
    (match r.sampler with
     | none => True
     | some .empty => False
     | some (.leaf l) => leafBenign l)

/-- the hypotheses under which the unrepaired code does not crash: a sampler is configured, no rule,
condition or downstream sampler is missing, no field name is empty, the deterministic rate is not
a multiple of 2^32, no interval is negative (EMAThroughput: not in (0, 1 ms) either) and no initial
rate is negative -/
def Benign : Choice → Prop
  | .none => False
  | .leaf l => leafBenign l
  | .rules rs => ∀ r ∈ rs, ruleBenign r

theorem keyFields_ok (fs : List String) (h : "" ∉ fs) : keyFields false fs = .ok () := by
  simp [keyFields, h]

theorem dynCreate_benign (c : DynCfg) (h : dynBenign c) : dynCreate false c = .ok false := by
  obtain ⟨_, hk⟩ := h
  unfold dynCreate
  cases hkind : c.kind <;> simp only [hkind] at hk <;>
    simp only [second, millisecond, Bool.false_eq_true, false_and, or_false] at * <;>
    (repeat' split) <;> first | rfl | omega

theorem initialAnswer_benign (c : DynCfg) (h : dynBenign c) :
    0 ≤ initialAnswer c ∧ initialAnswer c < 9223372036854775808 := by
  obtain ⟨_, hk⟩ := h
  unfold initialAnswer
  cases hkind : c.kind <;> simp only [hkind] at hk <;> simp only [] <;> (try split) <;> omega

theorem leafEval_nonneg (c : DynCfg) (a : Int) (h0 : 0 ≤ a) (h1 : a < 9223372036854775808)
    (later : Option Int) (hl : later.getD (initialAnswer c) = a) :
    isOk (leafEval false (.dyn c false) later) = true := by
  simp only [leafEval, hl, toU64, toI64, Bool.false_eq_true, if_false]
  have hm : a % 18446744073709551616 = a := Int.emod_eq_of_lt h0 (by omega)
  rw [hm]
  by_cases h : a < 1
  · simp [h, isOk]
  · simp only [h, if_false]
    have h2 : ¬ (a ≤ 0) := by omega
    simp [h1, h2, isOk]

theorem leafStart_benign (l : Leaf) (h : leafBenign l) :
    ∃ s, leafStart false l = .ok s ∧ LeafGood false laterNonneg s := by
  cases l with
  | det rate =>
    refine ⟨.det rate, ?_, ?_⟩
    · simp only [leafBenign] at h
      simp [leafStart, detStart, h]
    · intro later _; simp [leafEval, isOk]
  | dyn c =>
    have hb : dynBenign c := h
    refine ⟨.dyn c false, by simp [leafStart, dynCreate_benign c hb, keyFields_ok _ hb.1], ?_⟩
    intro later hl
    cases hlat : later with
    | none =>
      obtain ⟨h0, h1⟩ := initialAnswer_benign c hb
      exact leafEval_nonneg c _ h0 h1 none rfl
    | some a =>
      obtain ⟨h0, h1⟩ := hl a hlat
      exact leafEval_nonneg c a h0 h1 (some a) rfl

theorem startRule_benign (r : Option Rule) (h : ruleBenign r) :
    ∃ s, startRule false r = .ok s ∧ RuleGood false laterNonneg s := by
  cases r with
  | none => exact absurd h (by simp [ruleBenign])
  | some r =>
    obtain ⟨_, hs⟩ := h
    cases hsam : r.sampler with
    | none =>
      exact ⟨{ sampleRate := r.sampleRate, hasSampler := false, down := none }, by simp [startRule, hsam],
        by intro s hd; simp at hd⟩
    | some d =>
      rw [hsam] at hs
      cases d with
      | empty => exact absurd hs (by simp)
      | leaf l =>
        obtain ⟨s, hls, hg⟩ := leafStart_benign l hs
        refine ⟨{ sampleRate := r.sampleRate, hasSampler := true, down := some s }, by simp [startRule, hsam, hls], ?_⟩
        intro s' hd
        simp at hd
        subst hd
        exact hg

theorem not_mem_flatMap {α β : Type} (f : α → List β) (x : β) (l : List α) (h : ∀ a ∈ l, x ∉ f a) :
    x ∉ l.flatMap f := by
  intro hx
  obtain ⟨a, ha, hxa⟩ := List.mem_flatMap.mp hx
  exact h a ha hxa

theorem rules_fields_benign (rs : List (Option Rule)) (h : ∀ r ∈ rs, ruleBenign r) :
    hasNilCond rs = false ∧ "" ∉ allFields rs := by
  constructor
  · unfold hasNilCond
    rw [Bool.eq_false_iff]
    intro hc
    rw [List.any_eq_true] at hc
    obtain ⟨r, hr, hrc⟩ := hc
    have hb := h r hr
    cases r with
    | none => simp at hrc
    | some r =>
      rw [List.any_eq_true] at hrc
      obtain ⟨c, hcm, hcn⟩ := hrc
      obtain ⟨c', hc', _⟩ := hb.1 c hcm
      subst hc'
      simp at hcn
  · unfold allFields
    apply not_mem_flatMap
    intro r hr
    obtain ⟨or', hor, he⟩ := List.mem_filterMap.mp hr
    simp only [id] at he
    subst he
    have hb := h (some r) hor
    unfold ruleFields
    intro hmem
    rcases List.mem_append.mp hmem with hm | hm
    · revert hm
      apply not_mem_flatMap
      intro c hc
      obtain ⟨oc, hoc, hoe⟩ := List.mem_filterMap.mp hc
      obtain ⟨c', hc', hne⟩ := hb.1 oc hoc
      subst hc'
      simp at hoe
      subst hoe
      exact hne
    · have hs := hb.2
      cases hsam : r.sampler with
      | none => simp [hsam, downFields] at hm
      | some d =>
        rw [hsam] at hs hm
        cases d with
        | empty => simp [downFields] at hm
        | leaf l =>
          cases l with
          | det _ => simp [downFields, leafFields] at hm
          | dyn c =>
            simp only [downFields, leafFields] at hm
            exact hs.1 hm

/-- a benign configuration does not crash the code as it is -/
theorem benign_no_crash (c : Choice) (h : Benign c) : NoCrash false laterNonneg c := by
  cases c with
  | none => exact absurd h (by simp [Benign])
  | leaf l =>
    have hb : leafBenign l := h
    obtain ⟨s, hs, hg⟩ := leafStart_benign l hb
    refine ⟨?_, .leaf s, by simp [start, hs], fun m later hl => hg later hl⟩
    cases l with
    | det _ => simp [reqKeyFields, leafFields, keyFields]
    | dyn c => exact keyFields_ok _ hb.1
  | rules rs =>
    have hb : ∀ r ∈ rs, ruleBenign r := h
    obtain ⟨hn, hf⟩ := rules_fields_benign rs hb
    obtain ⟨ss, hss, hgs⟩ := mapE_ok (startRule false) (RuleGood false laterNonneg) rs
      (fun r hr => startRule_benign r (hb r hr))
    refine ⟨by simp [reqKeyFields, rulesKeyFields, hn, keyFields_ok _ hf], .rules ss,
      by simp [start, rulesKeyFields, hn, keyFields_ok _ hf, hss], ?_⟩
    intro m later hl
    exact rulesEval_ok false laterNonneg m later hl ss 0 hgs

/-- **valid_config_no_panic_partial** — what holds of the code as it is: a rules file that the
validator and decoder accept *and* that is `Benign` makes key-field derivation, sampler
construction and every decision succeed (for every trace; later answers of the third-party
samplers assumed non-negative).  The validator contributes nothing to this conclusion
(`meta_enforces_nothing_relevant`); each clause of `Benign` is needed (the nine witnesses each
violate exactly one; for leaf samplers `leaf_no_crash_iff_benign` proves the equivalence). -/
theorem valid_config_no_panic_partial (md : Meta) (raw : RawCfg) (c : Choice)
    (_ : load md false raw = .ok c) (hb : Benign c) : NoCrash false laterNonneg c :=
  benign_no_crash c hb

/-- the integers of a leaf configuration are values a Go `int` can hold (the decoder guarantees it) -/
def leafInRange : Leaf → Prop
  | .det _ => True
  | .dyn c => -9223372036854775808 ≤ c.rate ∧ c.rate < 9223372036854775808 ∧
              -9223372036854775808 ≤ c.initial ∧ c.initial < 9223372036854775808

theorem isOk_eq_true_iff {ε α : Type} (x : Except ε α) : isOk x = true ↔ ∃ a, x = .ok a := by
  cases x <;> simp [isOk]

/-- **Exactness of the extra hypotheses (leaf samplers)** — for a deterministic or dynsampler-backed
sampler whose integers fit a Go `int`, the code as it is survives key-field derivation, `Start` and
the first decision *exactly* when the configuration is `leafBenign`: no clause can be dropped. -/
theorem leaf_no_crash_iff_benign (l : Leaf) (hr : leafInRange l) :
    NoCrash false laterNonneg (.leaf l) ↔ leafBenign l := by
  constructor
  · rintro ⟨hreq, s, hs, hev⟩
    cases l with
    | det rate =>
      simp only [leafBenign]
      intro hz
      simp [start, leafStart, detStart, hz] at hs
    | dyn c =>
      obtain ⟨hr1, hr2, hr3, hr4⟩ := hr
      -- request path: no empty name
      have hf : "" ∉ c.fieldList := by
        intro hmem
        simp [reqKeyFields, leafFields, keyFields, hmem] at hreq
      -- Start: the sampler could be created
      simp only [start, leafStart] at hs
      cases hc : dynCreate false c with
      | error e => simp [hc] at hs
      | ok mapsNil =>
        simp only [hc, keyFields_ok _ hf] at hs
        cases hs
        have h0 := hev (fun _ => true) none (by intro a h; cases h)
        simp only [eval, leafEval] at h0
        cases mapsNil with
        | true => simp [isOk] at h0
        | false =>
          refine ⟨hf, ?_⟩
          simp only [Bool.false_eq_true, if_false, Option.getD_none, toU64, toI64] at h0
          unfold dynCreate at hc
          unfold initialAnswer at h0
          cases hk : c.kind <;> simp only [hk] at hc h0 ⊢ <;>
            simp only [second, millisecond, Bool.false_eq_true, false_and, or_false] at hc ⊢ <;>
            (repeat' split at hc) <;> (try (simp at hc; done)) <;>
            (repeat' split at h0) <;> (try (simp [isOk] at h0; done)) <;> omega
  · intro hb
    exact benign_no_crash (.leaf l) hb

/-! Non-vacuity: concrete accepted, benign configurations, evaluated by the kernel. -/

def okDyn : RawCfg := leafCfg "DynamicSampler"
  [("SampleRate", .int 10), ("ClearFrequency", .dur 30000000000), ("FieldList", .list [.str "a", .str "root.b"])]
def okRules : RawCfg := rulesCfg
  [.obj { fields := [("Name", .str "r1"), ("SampleRate", .int 5)],
          conds := some [.obj [("Field", .str "http.status"), ("Operator", .str "="), ("Value", .int 500)]],
          sampler := none },
   .obj { fields := [("Name", .str "r2")], conds := none,
          sampler := some [{ group := "EMAThroughputSampler",
                             value := .obj [("GoalThroughputPerSec", .int 100), ("FieldList", .list [.str "a"])] }] }]

def okDynDecoded : DynCfg := { kind := .dynamic, rate := 10, interval := 30000000000, fieldList := ["a", "root.b"] }
example : load md false okDyn = .ok (.leaf (.dyn okDynDecoded)) := by decide
example : evalOf okDyn = some (.ok 10) := by decide
example : (match load md false okRules with | .ok c => wellFormed c | _ => false) = true := by decide
example : evalOf okRules = some (.ok 5) := by decide
example : (match load md true okRules with
           | .ok c => (match start true c with | .ok s => isOk (eval true s (fun i => i == 1) (some (-7))) | _ => false)
           | _ => false) = true := by decide
/-- the repaired loader refuses the structural witnesses, the repaired samplers survive the others -/
example : load md true wExit = .loaderr ∧ load md true wExitDown = .loaderr ∧ load md true wNilRule = .loaderr
    ∧ load md true wNilCond = .loaderr := by decide
example : (match load md true wIntn with
           | .ok c => (match start true c with | .ok s => eval true s (fun _ => true) none | .error e => .error e)
           | _ => .error .exit) = .ok 1 := by decide
/-- validation does reject what the metadata really constrains -/
example : load md false (leafCfg "EMAThroughputSampler" [("GoalThroughputPerSec", .int 0), ("FieldList", .list [])]) = .reject := by decide
example : load md false (leafCfg "EMADynamicSampler" [("GoalSampleRate", .int 2), ("FieldList", .list []), ("BurstDetectionDelay", .int (-1))]) = .loaderr := by decide

end Refinery.Props.C28
