import Refinery.Model.Startup
import Refinery.Gen.Nocrash
/-!
# C28 — no accepted configuration can crash Refinery (modelled paths)

Statement (properties.jsonl): for every configuration that passes validation and every request,
Refinery answers or drops the request without panicking, terminating or hanging.
C28 is claimed as *partial*: this file covers the configuration half on the modelled paths
(rules file → `ValidateRules` + YAML decoding → `SamplerFactory` / `Start` of every sampler type →
`GetSampleRate`, and the per-request `GetKeyFields`); third-party decoders and the HTTP stack are
not modelled (the request half is fuzzing in the harness, not a theorem).

The full statement `valid_config_no_panic` is **refuted** for the code as it is (`Fixes.none`):
nine witnesses, one per panic site, each a rules file the real validator accepts (reproduced on
the real code by the harness; see corpus/C28).  `valid_config_no_panic_partial` is what does hold,
under the hypotheses `Benign` the validator would have to enforce and does not.
The proposed repairs are seven independent flags (`Fixes`); for each flag one theorem says that
its crash class can no longer occur whatever the other flags are (`getkeyfields_fixed`,
`deterministic_fixed`, `intn_fixed`, `emathroughput_fixed`, `ticker_fixed`, `null_elements_fixed`,
`no_sampler_fixed`), and `valid_config_no_panic_fixed` is the full statement with all of them, for
every metadata table and every later answer of the third-party samplers.
-/
set_option linter.unusedSimpArgs false

namespace Refinery.Props.C28
open Refinery.Model.Startup

instance {ε α : Type} [DecidableEq ε] [DecidableEq α] : DecidableEq (Except ε α)
  | .ok a, .ok b => if h : a = b then isTrue (by rw [h]) else isFalse (by intro e; cases e; exact h rfl)
  | .error a, .error b => if h : a = b then isTrue (by rw [h]) else isFalse (by intro e; cases e; exact h rfl)
  | .ok _, .error _ => isFalse (by intro e; cases e)
  | .error _, .ok _ => isFalse (by intro e; cases e)

/-- the real `rulesMeta.yaml`, as the compiled code reads it -/
abbrev md : Meta := Refinery.Gen.Nocrash.rulesMeta

/-- later answers of a third-party sampler that respect its contract: a non-negative `int` -/
def laterNonneg (a : Int) : Prop := 0 ≤ a ∧ a < 9223372036854775808
/-- no assumption at all about later answers -/
def laterAny (_ : Int) : Prop := True

/-- **Full statement**: whatever rules file the validator and decoder accept, key-field derivation,
sampler construction and every sampling decision complete without panic, exit or crash. -/
def valid_config_no_panic (fx : Fixes) (md : Meta) : Prop :=
  ∀ raw c, load md fx raw = .ok c → NoCrash fx laterNonneg c

/-! ## Side conditions on the metadata table (from the code, discharged by evaluation) -/

/-- every validation type in the real table is one `Validate` knows (otherwise it panics) -/
theorem meta_validations_known :
    md.all (fun g => g.2.all fun f => f.2.2.all fun v => knownValidations.contains v.1) = true := by decide

/-- the mapping-valued keys are declared with the types the model's structural recursion assumes -/
theorem meta_structure :
    (findGroup md "RulesBasedSampler").map (hasTyped · "Rules" "objectarray") = some true ∧
    (findGroup md "Rules").map (hasTyped · "Conditions" "objectarray") = some true ∧
    (findGroup md "Rules").map (hasTyped · "Sampler" "object") = some true := by decide

/-- what the real table enforces on the values the panics depend on: nothing.
(`notempty` on a list is vacuous, `gte=1` exists only as a struct tag.) -/
theorem meta_enforces_nothing_relevant :
    validateGroup md "DeterministicSampler" (.obj [("SampleRate", .int 0)]) = true ∧
    validateGroup md "DynamicSampler" (.obj [("SampleRate", .int (-5)), ("FieldList", .list [.str ""]),
                                             ("ClearFrequency", .dur (-1))]) = true := by decide

/-! ## Witnesses: one accepted configuration per panic site -/

def leafCfg (g : String) (f : Fields) : RawCfg := { entries := [.leaf g (.obj f)] }
def rulesCfg (rs : List (Shape RawRule)) : RawCfg := { entries := [.rules (.obj { fields := [], rules := some rs })] }

/-- `FieldList: [""]` -/
def wIndex : RawCfg := leafCfg "DynamicSampler" [("SampleRate", .int 2), ("FieldList", .list [.str ""])]
/-- `DeterministicSampler: {SampleRate: 4294967296}` -/
def wDivzero : RawCfg := leafCfg "DeterministicSampler" [("SampleRate", .int 4294967296)]
/-- `DynamicSampler: {SampleRate: -5, FieldList: [a]}` -/
def wIntn : RawCfg := leafCfg "DynamicSampler" [("SampleRate", .int (-5)), ("FieldList", .list [.str "a"])]
/-- `EMAThroughputSampler: {GoalThroughputPerSec: 5, AdjustmentInterval: 1µs, FieldList: [a]}` -/
def wNilmap : RawCfg := leafCfg "EMAThroughputSampler"
  [("GoalThroughputPerSec", .int 5), ("AdjustmentInterval", .dur 1000), ("FieldList", .list [.str "a"])]
/-- `TotalThroughputSampler: {GoalThroughputPerSec: 2, ClearFrequency: -1ns, FieldList: [a]}` -/
def wTicker : RawCfg := leafCfg "TotalThroughputSampler"
  [("GoalThroughputPerSec", .int 2), ("ClearFrequency", .dur (-1)), ("FieldList", .list [.str "a"])]
/-- `__default__: {}` -/
def wExit : RawCfg := {}
/-- `Rules: [{Sampler: {}}]` -/
def wExitDown : RawCfg := rulesCfg [.obj { fields := [], conds := none, sampler := some [] }]
/-- `Rules: [null]` -/
def wNilRule : RawCfg := rulesCfg [.null]
/-- `Rules: [{Conditions: [null]}]` -/
def wNilCond : RawCfg := rulesCfg [.obj { fields := [], conds := some [.null], sampler := none }]

def startOf (raw : RawCfg) : Option (Except Crash Sampler) :=
  match load md Fixes.none raw with
  | .ok c => some (start Fixes.none c)
  | _ => none

def evalOf (raw : RawCfg) : Option (Except Crash Int) :=
  match load md Fixes.none raw with
  | .ok c => (match start Fixes.none c with
              | .ok s => some (eval Fixes.none s (fun _ => true) none)
              | .error _ => none)
  | _ => none

def reqOf (raw : RawCfg) : Option (Except Crash Unit) :=
  match load md Fixes.none raw with
  | .ok c => some (reqKeyFields Fixes.none c)
  | _ => none

/-- `C28:getkeyfields-empty-field-name` — accepted; `Start` (and every request) indexes `""[0]` -/
theorem witness_index : startOf wIndex = some (.error .index) ∧ reqOf wIndex = some (.error .index) := by decide
/-- `C28:deterministic-samplerate-zero-mod-2^32` — accepted; `Start` divides by `uint32(2^32) = 0` -/
theorem witness_divzero : startOf wDivzero = some (.error .divzero) := by decide
/-- `C28:intn-negative-dynsampler-rate` — accepted, starts; the first decision calls `rand.Intn(-5)` -/
theorem witness_intn : evalOf wIntn = some (.error .intn) := by decide
/-- `C28:emathroughput-start-error-dropped-nil-map` — accepted, starts; the first decision writes a nil map -/
theorem witness_nilmap : evalOf wNilmap = some (.error .nilmap) := by decide
/-- `C28:newticker-non-positive-interval` — accepted; the sampler's goroutine panics in `time.NewTicker` -/
theorem witness_ticker : startOf wTicker = some (.error .ticker) := by decide
/-- `C28:no-sampler-configured-os-exit` — accepted; `createSampler` exits the process -/
theorem witness_exit : startOf wExit = some (.error .exit) := by decide
/-- `C28:empty-downstream-sampler-os-exit` — accepted; `GetDownstreamSampler` exits the process -/
theorem witness_exit_downstream : startOf wExitDown = some (.error .exit) := by decide
/-- `C28:rules-null-rule-nil-dereference` — accepted; `RulesBasedSampler.Start` dereferences the nil rule -/
theorem witness_nil_rule : startOf wNilRule = some (.error .nilptr) := by decide
/-- `C28:rules-null-condition-nil-dereference` — accepted; `GetSamplingFields` calls `Init` on nil -/
theorem witness_nil_condition :
    startOf wNilCond = some (.error .nilptr) ∧ reqOf wNilCond = some (.error .nilptr) := by decide

/-- The full statement is false of the code as it is. -/
theorem valid_config_no_panic_refuted : ¬ valid_config_no_panic Fixes.none md := by
  intro h
  have hl : load md Fixes.none wDivzero = .ok (.leaf (.det 4294967296)) := by decide
  obtain ⟨_, s, hs, _⟩ := h _ _ hl
  have : start Fixes.none (.leaf (.det 4294967296)) = .error .divzero := by decide
  rw [this] at hs
  cases hs

/-! ## What does hold -/

theorem isOk_ok {ε α : Type} (a : α) : isOk (.ok a : Except ε α) = true := rfl

/-- `mapE` succeeds when the function succeeds on every element, and a property of the results carries over -/
theorem mapE_ok {α β ε : Type} (f : α → Except ε β) (P : β → Prop) :
    ∀ (l : List α), (∀ a ∈ l, ∃ b, f a = .ok b ∧ P b) → ∃ bs, mapE f l = .ok bs ∧ ∀ b ∈ bs, P b := by
  intro l
  induction l with
  | nil => intro _; exact ⟨[], rfl, by simp⟩
  | cons a as ih =>
    intro h
    obtain ⟨b, hb, hPb⟩ := h a (by simp)
    obtain ⟨bs, hbs, hPbs⟩ := ih (fun a' ha' => h a' (by simp [ha']))
    refine ⟨b :: bs, ?_, ?_⟩
    · simp [mapE, hb, hbs]
    · intro x hx
      rcases List.mem_cons.mp hx with rfl | hx
      · exact hPb
      · exact hPbs x hx

/-- a started leaf sampler whose decisions cannot fail, given what later answers may be -/
def LeafGood (fx : Fixes) (laterOk : Int → Prop) (s : LeafS) : Prop :=
  ∀ later : Option Int, (∀ a, later = some a → laterOk a) → isOk (leafEval fx s later) = true

def RuleGood (fx : Fixes) (laterOk : Int → Prop) (r : RuleS) : Prop :=
  ∀ s, r.down = some s → LeafGood fx laterOk s

theorem rulesEval_ok (fx : Fixes) (laterOk : Int → Prop) (m : Nat → Bool) (later : Option Int)
    (hl : ∀ a, later = some a → laterOk a) :
    ∀ (rs : List RuleS) (i : Nat), (∀ r ∈ rs, RuleGood fx laterOk r) →
      isOk (rulesEval fx m later i rs) = true := by
  intro rs
  induction rs with
  | nil => intro i _; rfl
  | cons r rest ih =>
    intro i h
    unfold rulesEval
    by_cases hm : m i = true
    · simp only [hm, if_true]
      by_cases hs : r.hasSampler = true
      · simp only [hs, if_true]
        cases hd : r.down with
        | none => rfl
        | some s => exact h r (by simp) s hd later hl
      · simp only [hs]; rfl
    · simp only [hm]
      exact ih (i + 1) (fun r' hr' => h r' (by simp [hr']))

/-! ### which crash can still occur with which repairs: one classification, one theorem per flag -/

theorem mapE_error {α β ε : Type} (f : α → Except ε β) :
    ∀ (l : List α) (e : ε), mapE f l = .error e → ∃ a ∈ l, f a = .error e := by
  intro l
  induction l with
  | nil => intro e h; simp [mapE] at h
  | cons a as ih =>
    intro e h
    unfold mapE at h
    split at h
    · rename_i e' he'
      cases h
      exact ⟨a, by simp, he'⟩
    · split at h
      · rename_i e' he'
        cases h
        obtain ⟨a', ha', hf⟩ := ih e he'
        exact ⟨a', by simp [ha'], hf⟩
      · cases h

theorem mapE_mem {α β ε : Type} (f : α → Except ε β) :
    ∀ (l : List α) (bs : List β), mapE f l = .ok bs → ∀ b ∈ bs, ∃ a ∈ l, f a = .ok b := by
  intro l
  induction l with
  | nil => intro bs h b hb; simp [mapE] at h; subst h; simp at hb
  | cons a as ih =>
    intro bs h b hb
    unfold mapE at h
    split at h
    · cases h
    · rename_i b0 hb0
      split at h
      · cases h
      · rename_i bs0 hbs0
        cases h
        rcases List.mem_cons.mp hb with rfl | hb
        · exact ⟨a, by simp, hb0⟩
        · obtain ⟨a', ha', hf⟩ := ih bs0 hbs0 b hb
          exact ⟨a', by simp [ha'], hf⟩

/-- A crash of class `e` is only possible while the repair for that class is missing (`nilptr`,
`exit`: while the configuration has the structural defect `hasNil` / `missing`). -/
def Allowed (fx : Fixes) (hasNil missing : Bool) : Crash → Prop
  | .index => fx.keyFields = false
  | .divzero => fx.det = false
  | .intn => fx.intn = false
  | .nilmap => fx.emaInterval = false
  | .ticker => fx.ticker = false
  | .nilptr => hasNil = true
  | .exit => missing = true

theorem keyFields_error (fx : Fixes) (fs : List String) (e : Crash) (h : keyFields fx fs = .error e) :
    e = .index ∧ fx.keyFields = false := by
  unfold keyFields at h
  split at h
  · rename_i hc
    cases h
    simp at hc
    exact ⟨rfl, hc.1⟩
  · cases h

theorem detStart_error (fx : Fixes) (rate : Int) (e : Crash) (h : detStart fx rate = .error e) :
    e = .divzero ∧ fx.det = false := by
  unfold detStart at h
  split at h
  · rename_i hc
    cases h
    simp at hc
    exact ⟨rfl, hc.1⟩
  · cases h

/-- `createDynFor…`: either it succeeds (with nil maps only while the EMAThroughput repair is
missing) or the ticker goroutine panics (only while the ticker repair is missing) -/
theorem dynCreate_cases (fx : Fixes) (c : DynCfg) :
    (∃ b, dynCreate fx c = .ok b ∧ (b = true → fx.emaInterval = false)) ∨
    (dynCreate fx c = .error .ticker ∧ fx.ticker = false) := by
  unfold dynCreate
  cases ht : fx.ticker <;> cases he : fx.emaInterval <;> cases hk : c.kind <;>
    simp only [Bool.false_eq_true, false_and, or_false, true_and, second, millisecond] <;>
    (repeat' split) <;>
    first | (exfalso; omega) | simp

theorem dynCreate_error (fx : Fixes) (c : DynCfg) (e : Crash) (h : dynCreate fx c = .error e) :
    e = .ticker ∧ fx.ticker = false := by
  rcases dynCreate_cases fx c with ⟨b, hb, _⟩ | ⟨he, hf⟩
  · rw [hb] at h; cases h
  · rw [he] at h; cases h; exact ⟨rfl, hf⟩

theorem dynCreate_mapsNil (fx : Fixes) (c : DynCfg) (h : dynCreate fx c = .ok true) : fx.emaInterval = false := by
  rcases dynCreate_cases fx c with ⟨b, hb, hi⟩ | ⟨he, _⟩
  · rw [hb] at h; cases h; exact hi rfl
  · rw [he] at h; cases h

theorem leafStart_error (fx : Fixes) (l : Leaf) (e : Crash) (h : leafStart fx l = .error e) :
    Allowed fx false false e := by
  cases l with
  | det rate =>
    cases hd : detStart fx rate with
    | ok u => simp [leafStart, hd] at h
    | error e' =>
      simp only [leafStart, hd] at h
      cases h
      obtain ⟨rfl, hf⟩ := detStart_error fx rate _ hd
      exact hf
  | dyn c =>
    cases hd : dynCreate fx c with
    | error e' =>
      simp only [leafStart, hd] at h
      cases h
      obtain ⟨rfl, hf⟩ := dynCreate_error fx c _ hd
      exact hf
    | ok mn =>
      cases hkf : keyFields fx c.fieldList with
      | ok u => simp [leafStart, hd, hkf] at h
      | error e' =>
        simp only [leafStart, hd, hkf] at h
        cases h
        obtain ⟨rfl, hf⟩ := keyFields_error fx _ _ hkf
        exact hf

/-- a started leaf sampler has nil maps only while the EMAThroughput repair is missing -/
theorem leafStart_mapsNil (fx : Fixes) (l : Leaf) (c : DynCfg) (h : leafStart fx l = .ok (.dyn c true)) :
    fx.emaInterval = false := by
  cases l with
  | det rate =>
    cases hd : detStart fx rate <;> simp [leafStart, hd] at h
  | dyn c' =>
    cases hd : dynCreate fx c' with
    | error e' => simp [leafStart, hd] at h
    | ok mn =>
      cases hkf : keyFields fx c'.fieldList with
      | error e' => simp [leafStart, hd, hkf] at h
      | ok u =>
        simp only [leafStart, hd, hkf] at h
        cases h
        exact dynCreate_mapsNil fx c hd

theorem leafEval_error (fx : Fixes) (s : LeafS) (later : Option Int) (e : Crash)
    (h : leafEval fx s later = .error e) :
    (e = .nilmap ∧ ∃ c, s = .dyn c true) ∨ (e = .intn ∧ fx.intn = false) := by
  cases s with
  | det rate => simp [leafEval] at h
  | dyn c mapsNil =>
    cases mapsNil with
    | true =>
      simp only [leafEval, if_true] at h
      cases h
      exact Or.inl ⟨rfl, c, rfl⟩
    | false =>
      cases hi : fx.intn with
      | true => simp [leafEval, hi] at h
      | false =>
        simp only [leafEval, hi, Bool.false_eq_true, if_false] at h
        (repeat' split at h) <;> first | (cases h; done) | (cases h; exact Or.inr ⟨rfl, rfl⟩)

theorem rulesEval_error (fx : Fixes) (m : Nat → Bool) (later : Option Int) (e : Crash) :
    ∀ (rs : List RuleS) (i : Nat), rulesEval fx m later i rs = .error e →
      ∃ r ∈ rs, ∃ s, r.down = some s ∧ leafEval fx s later = .error e := by
  intro rs
  induction rs with
  | nil => intro i h; simp [rulesEval] at h
  | cons r rest ih =>
    intro i h
    unfold rulesEval at h
    by_cases hm : m i = true
    · simp only [hm, if_true] at h
      by_cases hs : r.hasSampler = true
      · simp only [hs, if_true] at h
        cases hd : r.down with
        | none => simp [hd] at h
        | some s => simp only [hd] at h; exact ⟨r, by simp, s, hd, h⟩
      · simp [hs] at h
    · simp only [hm] at h
      obtain ⟨r', hr', hx⟩ := ih (i + 1) h
      exact ⟨r', by simp [hr'], hx⟩

theorem startRule_error (fx : Fixes) (r : Option Rule) (e : Crash) (h : startRule fx r = .error e) :
    (e = .nilptr ∧ r = none) ∨ (e = .exit ∧ ∃ r', r = some r' ∧ r'.sampler = some .empty) ∨ Allowed fx false false e := by
  cases r with
  | none =>
    simp only [startRule] at h
    cases h
    exact Or.inl ⟨rfl, rfl⟩
  | some r =>
    simp only [startRule] at h
    cases hs : r.sampler with
    | none => simp [hs] at h
    | some d =>
      cases d with
      | empty =>
        simp only [hs] at h
        cases h
        exact Or.inr (Or.inl ⟨rfl, r, rfl, hs⟩)
      | leaf l =>
        simp only [hs] at h
        cases hl : leafStart fx l with
        | ok s' => simp [hl] at h
        | error e' =>
          simp only [hl] at h
          cases h
          exact Or.inr (Or.inr (leafStart_error fx l _ hl))

theorem startRule_down (fx : Fixes) (r : Option Rule) (rs : RuleS) (s : LeafS)
    (h : startRule fx r = .ok rs) (hd : rs.down = some s) : ∃ l, leafStart fx l = .ok s := by
  cases r with
  | none => simp [startRule] at h
  | some r =>
    simp only [startRule] at h
    cases hs : r.sampler with
    | none => simp only [hs] at h; cases h; simp at hd
    | some d =>
      cases d with
      | empty => simp [hs] at h
      | leaf l =>
        simp only [hs] at h
        cases hl : leafStart fx l with
        | error e' => simp [hl] at h
        | ok s' =>
          simp only [hl] at h
          cases h
          simp at hd
          subst hd
          exact ⟨l, hl⟩

theorem allowed_weaken (fx : Fixes) (e : Crash) (a b : Bool) (h : Allowed fx false false e) : Allowed fx a b e := by
  cases e <;> simp_all [Allowed]

theorem rulesKeyFields_error (fx : Fixes) (rs : List (Option Rule)) (e : Crash)
    (h : rulesKeyFields fx rs = .error e) : Allowed fx (hasNil (.rules rs)) (missingSampler (.rules rs)) e := by
  unfold rulesKeyFields at h
  split at h
  · rename_i hn
    cases h
    simp only [Allowed, hasNil]
    unfold hasNilCond at hn
    rw [List.any_eq_true] at hn ⊢
    obtain ⟨r, hr, hrc⟩ := hn
    refine ⟨r, hr, ?_⟩
    cases r with
    | none => rfl
    | some r => simpa using hrc
  · obtain ⟨rfl, hf⟩ := keyFields_error fx _ _ h
    exact hf

/-- **Classification (request path)**: `NewCoreFieldsUnmarshaler` can only fail with a class whose repair is missing. -/
theorem reqKeyFields_error (fx : Fixes) (c : Choice) (e : Crash) (h : reqKeyFields fx c = .error e) :
    Allowed fx (hasNil c) (missingSampler c) e := by
  cases c with
  | none => simp [reqKeyFields] at h
  | leaf l =>
    obtain ⟨rfl, hf⟩ := keyFields_error fx _ _ h
    exact hf
  | rules rs => exact rulesKeyFields_error fx rs e h

/-- **Classification (sampler construction)** -/
theorem start_error (fx : Fixes) (c : Choice) (e : Crash) (h : start fx c = .error e) :
    Allowed fx (hasNil c) (missingSampler c) e := by
  cases c with
  | none =>
    simp only [start] at h
    cases h
    simp [Allowed, missingSampler]
  | leaf l =>
    simp only [start] at h
    cases hl : leafStart fx l with
    | ok s => simp [hl] at h
    | error e' =>
      simp only [hl] at h
      cases h
      exact allowed_weaken fx _ _ _ (leafStart_error fx l _ hl)
  | rules rs =>
    simp only [start] at h
    cases hk : rulesKeyFields fx rs with
    | error e' =>
      simp only [hk] at h
      cases h
      exact rulesKeyFields_error fx rs _ hk
    | ok u =>
      simp only [hk] at h
      cases hm : mapE (startRule fx) rs with
      | ok ss => simp [hm] at h
      | error e' =>
        simp only [hm] at h
        cases h
        obtain ⟨r, hr, hre⟩ := mapE_error _ rs _ hm
        rcases startRule_error fx r _ hre with ⟨rfl, rfl⟩ | ⟨rfl, r', rfl, hs⟩ | ha
        · simp only [Allowed, hasNil]
          exact List.any_eq_true.mpr ⟨none, hr, rfl⟩
        · simp only [Allowed, missingSampler]
          exact List.any_eq_true.mpr ⟨some r', hr, by simp [hs]⟩
        · exact allowed_weaken fx _ _ _ ha

/-- **Classification (decisions)** -/
theorem eval_error (fx : Fixes) (c : Choice) (s : Sampler) (m : Nat → Bool) (later : Option Int) (e : Crash)
    (hs : start fx c = .ok s) (h : eval fx s m later = .error e) : Allowed fx false false e := by
  have leafCase : ∀ (l : Leaf) (ls : LeafS), leafStart fx l = .ok ls → leafEval fx ls later = .error e →
      Allowed fx false false e := by
    intro l ls hl he
    rcases leafEval_error fx ls later e he with ⟨rfl, c', rfl⟩ | ⟨rfl, hf⟩
    · exact leafStart_mapsNil fx l c' hl
    · exact hf
  cases c with
  | none => simp [start] at hs
  | leaf l =>
    simp only [start] at hs
    cases hl : leafStart fx l with
    | error e' => simp [hl] at hs
    | ok ls =>
      simp only [hl] at hs
      cases hs
      exact leafCase l ls hl h
  | rules rs =>
    simp only [start] at hs
    cases hk : rulesKeyFields fx rs with
    | error e' => simp [hk] at hs
    | ok u =>
      simp only [hk] at hs
      cases hm : mapE (startRule fx) rs with
      | error e' => simp [hm] at hs
      | ok ss =>
        simp only [hm] at hs
        cases hs
        obtain ⟨r, hr, ls, hd, he⟩ := rulesEval_error fx m later e ss 0 h
        obtain ⟨a, _, ha⟩ := mapE_mem _ rs ss hm r hr
        obtain ⟨l, hl⟩ := startRule_down fx a r ls ha hd
        exact leafCase l ls hl he

/-- a crash of class `e` occurs somewhere on the modelled paths of configuration `c` -/
def Occurs (fx : Fixes) (c : Choice) (e : Crash) : Prop :=
  reqKeyFields fx c = .error e ∨ start fx c = .error e ∨
  ∃ s m later, start fx c = .ok s ∧ eval fx s m later = .error e

theorem occurs_allowed (fx : Fixes) (c : Choice) (e : Crash) (h : Occurs fx c e) :
    Allowed fx (hasNil c) (missingSampler c) e := by
  rcases h with h | h | ⟨s, m, later, hs, h⟩
  · exact reqKeyFields_error fx c e h
  · exact start_error fx c e h
  · exact allowed_weaken fx _ _ _ (eval_error fx c s m later e hs h)

/-! One theorem per repair: with that flag set — whatever the other flags — the corresponding crash
class no longer occurs for any configuration (`nullElems`, `noSampler`: any configuration the
repaired loader accepts), any trace and any later answer of the third-party samplers. -/

/-- flag `keyFields` retires `C28:getkeyfields-empty-field-name` -/
theorem getkeyfields_fixed (fx : Fixes) (hf : fx.keyFields = true) (c : Choice) : ¬ Occurs fx c .index := by
  intro h; have := occurs_allowed fx c _ h; simp [Allowed, hf] at this

/-- flag `det` retires `C28:deterministic-samplerate-zero-mod-2^32` -/
theorem deterministic_fixed (fx : Fixes) (hf : fx.det = true) (c : Choice) : ¬ Occurs fx c .divzero := by
  intro h; have := occurs_allowed fx c _ h; simp [Allowed, hf] at this

/-- flag `intn` retires `C28:intn-negative-dynsampler-rate` -/
theorem intn_fixed (fx : Fixes) (hf : fx.intn = true) (c : Choice) : ¬ Occurs fx c .intn := by
  intro h; have := occurs_allowed fx c _ h; simp [Allowed, hf] at this

/-- flag `emaInterval` retires `C28:emathroughput-start-error-dropped-nil-map` -/
theorem emathroughput_fixed (fx : Fixes) (hf : fx.emaInterval = true) (c : Choice) : ¬ Occurs fx c .nilmap := by
  intro h; have := occurs_allowed fx c _ h; simp [Allowed, hf] at this

/-- flag `ticker` retires `C28:newticker-non-positive-interval` -/
theorem ticker_fixed (fx : Fixes) (hf : fx.ticker = true) (c : Choice) : ¬ Occurs fx c .ticker := by
  intro h; have := occurs_allowed fx c _ h; simp [Allowed, hf] at this

theorem mem_getD_nil {α : Type} (o : Option (List α)) (l : List α) (h : o = some l) : o.getD [] = l := by
  subst h; rfl

/-- members of `Rules:` / `Conditions:` that are all mappings decode to non-nil pointers -/
theorem decodeCond_some (sh : Shape Fields) (x : Option Cond) (ho : isObj sh = true) (hd : decodeCond sh = .ok x) :
    x.isSome = true := by
  cases sh with
  | obj f => simp only [decodeCond] at hd; cases hd; rfl
  | null => simp [isObj] at ho
  | scalar => simp [isObj] at ho

theorem decodeRule_no_nil (a : Shape RawRule) (r : Option Rule) (ho : ruleElemsObj a = true)
    (hd : decodeRule a = .ok r) : ∃ r', r = some r' ∧ r'.conds.any Option.isNone = false := by
  cases a with
  | null => simp [ruleElemsObj] at ho
  | scalar => simp [ruleElemsObj] at ho
  | obj rr =>
    simp only [ruleElemsObj] at ho
    simp only [decodeRule] at hd
    cases hcs : mapE decodeCond (rr.conds.getD []) with
    | error x => simp [hcs] at hd
    | ok cs =>
      have hnone : cs.any Option.isNone = false := by
        rw [Bool.eq_false_iff]
        intro hx
        obtain ⟨x, hxm, hxn⟩ := List.any_eq_true.mp hx
        obtain ⟨sh, hsh, hdc⟩ := mapE_mem _ _ cs hcs x hxm
        have := decodeCond_some sh x (List.all_eq_true.mp ho sh hsh) hdc
        cases x <;> simp_all
      simp only [hcs] at hd
      cases hsam : rr.sampler with
      | none =>
        simp only [hsam] at hd
        cases hd
        exact ⟨_, rfl, hnone⟩
      | some es =>
        simp only [hsam] at hd
        cases hdd : decodeDown es with
        | error x => simp [hdd] at hd
        | ok d =>
          simp only [hdd] at hd
          cases hd
          exact ⟨_, rfl, hnone⟩

/-- members of `Rules:` / `Conditions:` that are all mappings decode to non-nil pointers -/
theorem decode_no_nil (raw : RawCfg) (c : Choice) (he : elemsObj raw = true) (hd : decode raw = .ok c) :
    hasNil c = false := by
  unfold decode at hd
  cases hent : raw.entries with
  | nil => simp only [hent] at hd; cases hd; rfl
  | cons e es =>
    simp only [hent] at hd
    have heo : entryElemsObj e = true := List.all_eq_true.mp he e (by simp [hent])
    cases e with
    | leaf g v =>
      simp only [decodeEntry] at hd
      cases hl : decodeLeafShape g v with
      | error x => simp [hl] at hd
      | ok o =>
        cases o with
        | none => simp only [hl] at hd; cases hd; rfl
        | some l => simp only [hl] at hd; cases hd; rfl
    | rules v =>
      cases v with
      | null => simp only [decodeEntry] at hd; cases hd; rfl
      | scalar => simp [decodeEntry] at hd
      | obj rb =>
        simp only [decodeEntry] at hd
        cases hrs : mapE decodeRule (rb.rules.getD []) with
        | error x => simp [hrs] at hd
        | ok rs =>
          simp only [hrs] at hd
          cases hd
          simp only [entryElemsObj] at heo
          simp only [hasNil]
          rw [Bool.eq_false_iff]
          intro hany
          obtain ⟨r, hr, hbad⟩ := List.any_eq_true.mp hany
          obtain ⟨a, ha, hda⟩ := mapE_mem _ _ rs hrs r hr
          obtain ⟨r', rfl, hn⟩ := decodeRule_no_nil a r (List.all_eq_true.mp heo a ha) hda
          simp [hn] at hbad

theorem load_ok (md : Meta) (fx : Fixes) (raw : RawCfg) (c : Choice) (h : load md fx raw = .ok c) :
    validate md fx raw = true ∧ decode raw = .ok c ∧ (fx.noSampler = true → missingSampler c = false) := by
  unfold load at h
  split at h
  · rename_i hv
    split at h
    · rename_i ch hch
      split at h
      · cases h
      · rename_i hm
        cases h
        refine ⟨hv, hch, ?_⟩
        intro hn
        simp [hn] at hm
        exact hm
    · cases h
  · cases h

/-- flag `nullElems` retires `C28:rules-null-rule-nil-dereference` and `C28:rules-null-condition-nil-dereference` -/
theorem null_elements_fixed (md : Meta) (fx : Fixes) (hf : fx.nullElems = true) (raw : RawCfg) (c : Choice)
    (hl : load md fx raw = .ok c) : ¬ Occurs fx c .nilptr := by
  intro h
  obtain ⟨hv, hd, _⟩ := load_ok md fx raw c hl
  have he : elemsObj raw = true := by
    simp only [validate, hf, Bool.not_true, Bool.false_or, Bool.and_eq_true] at hv
    exact hv.2
  have := occurs_allowed fx c _ h
  simp [Allowed, decode_no_nil raw c he hd] at this

/-- flag `noSampler` retires `C28:no-sampler-configured-os-exit` and `C28:empty-downstream-sampler-os-exit` -/
theorem no_sampler_fixed (md : Meta) (fx : Fixes) (hf : fx.noSampler = true) (raw : RawCfg) (c : Choice)
    (hl : load md fx raw = .ok c) : ¬ Occurs fx c .exit := by
  intro h
  obtain ⟨_, _, hm⟩ := load_ok md fx raw c hl
  have := occurs_allowed fx c _ h
  simp [Allowed, hm hf] at this

/-- no crash class occurs ⇒ the conclusion of C28 on the modelled paths -/
theorem no_crash_of_not_occurs (fx : Fixes) (c : Choice) (h : ∀ e, ¬ Occurs fx c e) : NoCrash fx laterAny c := by
  have h1 : reqKeyFields fx c = .ok () := by
    cases hr : reqKeyFields fx c with
    | ok u => rfl
    | error e => exact absurd (Or.inl hr) (h e)
  cases hs : start fx c with
  | error e => exact absurd (Or.inr (Or.inl hs)) (h e)
  | ok s =>
    refine ⟨h1, s, hs, ?_⟩
    intro m later _
    cases he : eval fx s m later with
    | ok r => rfl
    | error e => exact absurd (Or.inr (Or.inr ⟨s, m, later, hs, he⟩)) (h e)

/-- **valid_config_no_panic (all repairs)** — for *every* metadata table: a rules file accepted by
the repaired loader makes key-field derivation, sampler construction and every decision succeed,
for every trace and every (even negative) later answer of the third-party samplers. -/
theorem valid_config_no_panic_fixed (md : Meta) (raw : RawCfg) (c : Choice)
    (h : load md Fixes.all raw = .ok c) : NoCrash Fixes.all laterAny c := by
  apply no_crash_of_not_occurs
  intro e
  cases e with
  | index => exact getkeyfields_fixed _ rfl c
  | divzero => exact deterministic_fixed _ rfl c
  | intn => exact intn_fixed _ rfl c
  | nilmap => exact emathroughput_fixed _ rfl c
  | ticker => exact ticker_fixed _ rfl c
  | nilptr => exact null_elements_fixed md _ rfl raw c h
  | exit => exact no_sampler_fixed md _ rfl raw c h

/-- the full statement holds for the repaired code (later answers restricted as in the statement) -/
theorem valid_config_no_panic_holds_when_fixed (md : Meta) : valid_config_no_panic Fixes.all md := by
  intro raw c h
  obtain ⟨h1, s, h2, h3⟩ := valid_config_no_panic_fixed md raw c h
  exact ⟨h1, s, h2, fun m later _ => h3 m later (fun _ _ => trivial)⟩

/-! ### the code as it is (`Fixes.none`): the exact extra hypotheses -/

@[simp] theorem none_keyFields : Fixes.none.keyFields = false := rfl
@[simp] theorem none_det : Fixes.none.det = false := rfl
@[simp] theorem none_intn : Fixes.none.intn = false := rfl
@[simp] theorem none_ema : Fixes.none.emaInterval = false := rfl
@[simp] theorem none_ticker : Fixes.none.ticker = false := rfl

/-- what a dynsampler-backed sampler's configuration must satisfy (nothing of it is validated) -/
def dynBenign (c : DynCfg) : Prop :=
  "" ∉ c.fieldList ∧
  (match c.kind with
   | .dynamic | .emaDynamic => 0 ≤ c.interval ∧ 0 ≤ c.rate ∧ c.rate < 9223372036854775808
   | .emaThroughput => (c.interval = 0 ∨ millisecond ≤ c.interval) ∧ 0 ≤ c.initial ∧ c.initial < 9223372036854775808
   | .windowed | .total => 0 ≤ c.interval)

def leafBenign : Leaf → Prop
  | .det rate => rate % 4294967296 ≠ 0
  | .dyn c => dynBenign c

def ruleBenign : Option Rule → Prop
  | none => False
  | some r =>
    (∀ c ∈ r.conds, ∃ c', c = some c' ∧ "" ∉ condFields c') ∧
    (match r.sampler with
     | none => True
     | some .empty => False
     | some (.leaf l) => leafBenign l)

/-- the hypotheses under which the unrepaired code does not crash: a sampler is configured, no rule,
condition or downstream sampler is missing, no field name is empty, the deterministic rate is not
a multiple of 2^32, no interval is negative (EMAThroughput: not in (0, 1 ms) either) and no initial
rate is negative -/
def Benign : Choice → Prop
  | .none => False
  | .leaf l => leafBenign l
  | .rules rs => ∀ r ∈ rs, ruleBenign r

theorem keyFields_ok (fs : List String) (h : "" ∉ fs) : keyFields Fixes.none fs = .ok () := by
  simp [keyFields, h]

theorem dynCreate_benign (c : DynCfg) (h : dynBenign c) : dynCreate Fixes.none c = .ok false := by
  obtain ⟨_, hk⟩ := h
  unfold dynCreate
  cases hkind : c.kind <;> simp only [none_keyFields, none_det, none_intn, none_ema, none_ticker, hkind] at hk <;>
    simp only [none_keyFields, none_det, none_intn, none_ema, none_ticker, second, millisecond, Bool.false_eq_true, false_and, or_false] at * <;>
    (repeat' split) <;> first | rfl | omega

theorem initialAnswer_benign (c : DynCfg) (h : dynBenign c) :
    0 ≤ initialAnswer c ∧ initialAnswer c < 9223372036854775808 := by
  obtain ⟨_, hk⟩ := h
  unfold initialAnswer
  cases hkind : c.kind <;> simp only [none_keyFields, none_det, none_intn, none_ema, none_ticker, hkind] at hk <;> simp only [none_keyFields, none_det, none_intn, none_ema, none_ticker, ] <;> (try split) <;> omega

theorem leafEval_nonneg (c : DynCfg) (a : Int) (h0 : 0 ≤ a) (h1 : a < 9223372036854775808)
    (later : Option Int) (hl : later.getD (initialAnswer c) = a) :
    isOk (leafEval Fixes.none (.dyn c false) later) = true := by
  simp only [none_keyFields, none_det, none_intn, none_ema, none_ticker, leafEval, hl, toU64, toI64, Bool.false_eq_true, if_false]
  have hm : a % 18446744073709551616 = a := Int.emod_eq_of_lt h0 (by omega)
  rw [hm]
  by_cases h : a < 1
  · simp [h, isOk]
  · simp only [none_keyFields, none_det, none_intn, none_ema, none_ticker, h, if_false]
    have h2 : ¬ (a ≤ 0) := by omega
    simp [h1, h2, isOk]

theorem leafStart_benign (l : Leaf) (h : leafBenign l) :
    ∃ s, leafStart Fixes.none l = .ok s ∧ LeafGood Fixes.none laterNonneg s := by
  cases l with
  | det rate =>
    refine ⟨.det rate, ?_, ?_⟩
    · simp only [none_keyFields, none_det, none_intn, none_ema, none_ticker, leafBenign] at h
      simp [leafStart, detStart, h]
    · intro later _; simp [leafEval, isOk]
  | dyn c =>
    have hb : dynBenign c := h
    refine ⟨.dyn c false, by simp [leafStart, dynCreate_benign c hb, keyFields_ok _ hb.1], ?_⟩
    intro later hl
    cases hlat : later with
    | none =>
      obtain ⟨h0, h1⟩ := initialAnswer_benign c hb
      exact leafEval_nonneg c _ h0 h1 none rfl
    | some a =>
      obtain ⟨h0, h1⟩ := hl a hlat
      exact leafEval_nonneg c a h0 h1 (some a) rfl

theorem startRule_benign (r : Option Rule) (h : ruleBenign r) :
    ∃ s, startRule Fixes.none r = .ok s ∧ RuleGood Fixes.none laterNonneg s := by
  cases r with
  | none => exact absurd h (by simp [ruleBenign])
  | some r =>
    obtain ⟨_, hs⟩ := h
    cases hsam : r.sampler with
    | none =>
      exact ⟨{ sampleRate := r.sampleRate, hasSampler := false, down := none }, by simp [startRule, hsam],
        by intro s hd; simp at hd⟩
    | some d =>
      rw [hsam] at hs
      cases d with
      | empty => exact absurd hs (by simp)
      | leaf l =>
        obtain ⟨s, hls, hg⟩ := leafStart_benign l hs
        refine ⟨{ sampleRate := r.sampleRate, hasSampler := true, down := some s }, by simp [startRule, hsam, hls], ?_⟩
        intro s' hd
        simp at hd
        subst hd
        exact hg

theorem not_mem_flatMap {α β : Type} (f : α → List β) (x : β) (l : List α) (h : ∀ a ∈ l, x ∉ f a) :
    x ∉ l.flatMap f := by
  intro hx
  obtain ⟨a, ha, hxa⟩ := List.mem_flatMap.mp hx
  exact h a ha hxa

theorem rules_fields_benign (rs : List (Option Rule)) (h : ∀ r ∈ rs, ruleBenign r) :
    hasNilCond rs = false ∧ "" ∉ allFields rs := by
  constructor
  · unfold hasNilCond
    rw [Bool.eq_false_iff]
    intro hc
    rw [List.any_eq_true] at hc
    obtain ⟨r, hr, hrc⟩ := hc
    have hb := h r hr
    cases r with
    | none => simp at hrc
    | some r =>
      rw [List.any_eq_true] at hrc
      obtain ⟨c, hcm, hcn⟩ := hrc
      obtain ⟨c', hc', _⟩ := hb.1 c hcm
      subst hc'
      simp at hcn
  · unfold allFields
    apply not_mem_flatMap
    intro r hr
    obtain ⟨or', hor, he⟩ := List.mem_filterMap.mp hr
    simp only [none_keyFields, none_det, none_intn, none_ema, none_ticker, id] at he
    subst he
    have hb := h (some r) hor
    unfold ruleFields
    intro hmem
    rcases List.mem_append.mp hmem with hm | hm
    · revert hm
      apply not_mem_flatMap
      intro c hc
      obtain ⟨oc, hoc, hoe⟩ := List.mem_filterMap.mp hc
      obtain ⟨c', hc', hne⟩ := hb.1 oc hoc
      subst hc'
      simp at hoe
      subst hoe
      exact hne
    · have hs := hb.2
      cases hsam : r.sampler with
      | none => simp [hsam, downFields] at hm
      | some d =>
        rw [hsam] at hs hm
        cases d with
        | empty => simp [downFields] at hm
        | leaf l =>
          cases l with
          | det _ => simp [downFields, leafFields] at hm
          | dyn c =>
            simp only [none_keyFields, none_det, none_intn, none_ema, none_ticker, downFields, leafFields] at hm
            exact hs.1 hm

/-- a benign configuration does not crash the code as it is -/
theorem benign_no_crash (c : Choice) (h : Benign c) : NoCrash Fixes.none laterNonneg c := by
  cases c with
  | none => exact absurd h (by simp [Benign])
  | leaf l =>
    have hb : leafBenign l := h
    obtain ⟨s, hs, hg⟩ := leafStart_benign l hb
    refine ⟨?_, .leaf s, by simp [start, hs], fun m later hl => hg later hl⟩
    cases l with
    | det _ => simp [reqKeyFields, leafFields, keyFields]
    | dyn c => exact keyFields_ok _ hb.1
  | rules rs =>
    have hb : ∀ r ∈ rs, ruleBenign r := h
    obtain ⟨hn, hf⟩ := rules_fields_benign rs hb
    obtain ⟨ss, hss, hgs⟩ := mapE_ok (startRule Fixes.none) (RuleGood Fixes.none laterNonneg) rs
      (fun r hr => startRule_benign r (hb r hr))
    refine ⟨by simp [reqKeyFields, rulesKeyFields, hn, keyFields_ok _ hf], .rules ss,
      by simp [start, rulesKeyFields, hn, keyFields_ok _ hf, hss], ?_⟩
    intro m later hl
    exact rulesEval_ok Fixes.none laterNonneg m later hl ss 0 hgs

/-- **valid_config_no_panic_partial** — what holds of the code as it is: a rules file that the
validator and decoder accept *and* that is `Benign` makes key-field derivation, sampler
construction and every decision succeed (for every trace; later answers of the third-party
samplers assumed non-negative).  The validator contributes nothing to this conclusion
(`meta_enforces_nothing_relevant`); each clause of `Benign` is needed (the nine witnesses each
violate exactly one; for leaf samplers `leaf_no_crash_iff_benign` proves the equivalence). -/
theorem valid_config_no_panic_partial (md : Meta) (raw : RawCfg) (c : Choice)
    (_ : load md Fixes.none raw = .ok c) (hb : Benign c) : NoCrash Fixes.none laterNonneg c :=
  benign_no_crash c hb

/-- the integers of a leaf configuration are values a Go `int` can hold (the decoder guarantees it) -/
def leafInRange : Leaf → Prop
  | .det _ => True
  | .dyn c => -9223372036854775808 ≤ c.rate ∧ c.rate < 9223372036854775808 ∧
              -9223372036854775808 ≤ c.initial ∧ c.initial < 9223372036854775808

theorem isOk_eq_true_iff {ε α : Type} (x : Except ε α) : isOk x = true ↔ ∃ a, x = .ok a := by
  cases x <;> simp [isOk]

/-- **Exactness of the extra hypotheses (leaf samplers)** — for a deterministic or dynsampler-backed
sampler whose integers fit a Go `int`, the code as it is survives key-field derivation, `Start` and
the first decision *exactly* when the configuration is `leafBenign`: no clause can be dropped. -/
theorem leaf_no_crash_iff_benign (l : Leaf) (hr : leafInRange l) :
    NoCrash Fixes.none laterNonneg (.leaf l) ↔ leafBenign l := by
  constructor
  · rintro ⟨hreq, s, hs, hev⟩
    cases l with
    | det rate =>
      simp only [none_keyFields, none_det, none_intn, none_ema, none_ticker, leafBenign]
      intro hz
      simp [start, leafStart, detStart, hz] at hs
    | dyn c =>
      obtain ⟨hr1, hr2, hr3, hr4⟩ := hr
      -- request path: no empty name
      have hf : "" ∉ c.fieldList := by
        intro hmem
        simp [reqKeyFields, leafFields, keyFields, hmem] at hreq
      -- Start: the sampler could be created
      simp only [none_keyFields, none_det, none_intn, none_ema, none_ticker, start, leafStart] at hs
      cases hc : dynCreate Fixes.none c with
      | error e => simp [hc] at hs
      | ok mapsNil =>
        simp only [none_keyFields, none_det, none_intn, none_ema, none_ticker, hc, keyFields_ok _ hf] at hs
        cases hs
        have h0 := hev (fun _ => true) none (by intro a h; cases h)
        simp only [none_keyFields, none_det, none_intn, none_ema, none_ticker, eval, leafEval] at h0
        cases mapsNil with
        | true => simp [isOk] at h0
        | false =>
          refine ⟨hf, ?_⟩
          simp only [none_keyFields, none_det, none_intn, none_ema, none_ticker, Bool.false_eq_true, if_false, Option.getD_none, toU64, toI64] at h0
          unfold dynCreate at hc
          unfold initialAnswer at h0
          cases hk : c.kind <;> simp only [none_keyFields, none_det, none_intn, none_ema, none_ticker, hk] at hc h0 ⊢ <;>
            simp only [none_keyFields, none_det, none_intn, none_ema, none_ticker, second, millisecond, Bool.false_eq_true, false_and, or_false] at hc ⊢ <;>
            (repeat' split at hc) <;> (try (simp at hc; done)) <;>
            (repeat' split at h0) <;> (try (simp [isOk] at h0; done)) <;> omega
  · intro hb
    exact benign_no_crash (.leaf l) hb

/-! Non-vacuity: concrete accepted, benign configurations, evaluated by the kernel. -/

def okDyn : RawCfg := leafCfg "DynamicSampler"
  [("SampleRate", .int 10), ("ClearFrequency", .dur 30000000000), ("FieldList", .list [.str "a", .str "root.b"])]
def okRules : RawCfg := rulesCfg
  [.obj { fields := [("Name", .str "r1"), ("SampleRate", .int 5)],
          conds := some [.obj [("Field", .str "http.status"), ("Operator", .str "="), ("Value", .int 500)]],
          sampler := none },
   .obj { fields := [("Name", .str "r2")], conds := none,
          sampler := some [{ group := "EMAThroughputSampler",
                             value := .obj [("GoalThroughputPerSec", .int 100), ("FieldList", .list [.str "a"])] }] }]

def okDynDecoded : DynCfg := { kind := .dynamic, rate := 10, interval := 30000000000, fieldList := ["a", "root.b"] }
example : load md Fixes.none okDyn = .ok (.leaf (.dyn okDynDecoded)) := by decide
example : evalOf okDyn = some (.ok 10) := by decide
example : (match load md Fixes.none okRules with | .ok c => !hasNil c && !missingSampler c | _ => false) = true := by decide
example : evalOf okRules = some (.ok 5) := by decide
example : (match load md Fixes.all okRules with
           | .ok c => (match start Fixes.all c with | .ok s => isOk (eval Fixes.all s (fun i => i == 1) (some (-7))) | _ => false)
           | _ => false) = true := by decide
/-- the repaired loader refuses the structural witnesses, the repaired samplers survive the others -/
example : load md Fixes.all wExit = .loaderr ∧ load md Fixes.all wExitDown = .loaderr ∧ load md Fixes.all wNilRule = .reject
    ∧ load md Fixes.all wNilCond = .reject := by decide
/-- one flag at a time: only the matching witness changes -/
example : load md { nullElems := true } wNilRule = .reject ∧ load md { nullElems := true } wExit = .ok .none
    ∧ load md { noSampler := true } wExit = .loaderr ∧ (load md { noSampler := true } wNilRule = .ok (.rules [none])) := by decide
example : (match load md { det := true } wDivzero with | .ok c => isOk (start { det := true } c) | _ => false) = true
    ∧ (match load md { det := true } wIndex with | .ok c => start { det := true } c | _ => .error .exit) = .error .index := by decide
example : (match load md Fixes.all wIntn with
           | .ok c => (match start Fixes.all c with | .ok s => eval Fixes.all s (fun _ => true) none | .error e => .error e)
           | _ => .error .exit) = .ok 1 := by decide
/-- validation does reject what the metadata really constrains -/
example : load md Fixes.none (leafCfg "EMAThroughputSampler" [("GoalThroughputPerSec", .int 0), ("FieldList", .list [])]) = .reject := by decide
example : load md Fixes.none (leafCfg "EMADynamicSampler" [("GoalSampleRate", .int 2), ("FieldList", .list []), ("BurstDetectionDelay", .int (-1))]) = .loaderr := by decide

end Refinery.Props.C28
