import Refinery.Lemmas.Payload
import Refinery.Lemmas.PayloadFixed
/-!
# C21 — trace identity and root status follow the ID-field configuration

Statement (properties.jsonl): an event belongs to a trace exactly when `meta.trace_id` or one of the
configured trace-ID fields holds a non-empty string; its trace ID is `meta.trace_id` if present,
otherwise the value of the first such field in configured order, independent of field order and
encoding.  It is a root span exactly when it belongs to a trace, no configured parent-ID field
holds a non-empty string, and it is not a log record.

The theorems are about the model's ingestion functions themselves (`ingestBatch` = msgpack and JSON
`/1/batch`, `ingestMeta` = OTLP msgpack, `extractMap` = JSON `/1/events`), for **all** field lists
and configurations.  Two parts of the statement are false for the code as it is and are refuted
with concrete witnesses (both reproduced on the real code by the harness):

* `trace_id_configured_order` — with several trace-ID fields present the first in *wire* order
  (Go-map iteration order on `/1/events`) wins, not the first in configured order;
* `belongs_iff` — a `meta.trace_id` holding the empty string that comes after a trace-ID field
  erases the trace ID, so the event is handed on as not belonging to any trace.

Scope hypotheses used below: `Sane cfg` (no configured trace-ID / parent-ID / sampling-key name is
one of Refinery's reserved metadata names), `Disjoint` (no name is both a trace-ID and a parent-ID
name), unique keys, and — for client events — no `meta.refinery.root` / `meta.refinery.probe` key.
-/
namespace Refinery.Props.C21
open Refinery Refinery.Model.Payload Refinery.Lemmas.Payload

/-! ## The property theorems, per ingestion path

`wireOutcome` : `/1/batch` with a msgpack or JSON body;  `metaOnlyOutcome` : the OTLP msgpack
unmarshaller;  `mapOutcome` : `/1/events` with a JSON body, for *every* iteration order `ord` of the
memoised Go map. -/

/-- **belongs_iff (partial: no empty-string `meta.trace_id`)** — an event is handed to the collector
as part of a trace exactly when `meta.trace_id` or a configured trace-ID field holds a non-empty string. -/
theorem belongs_iff_partial {cfg : Cfg} {fs : List (String × Val)} (hs : Sane cfg) (hnd : (keysOf fs).Nodup)
    (hne : NoEmptyMetaTid fs) (hp : kProbe ∉ keysOf fs) (herr : wireOutcome cfg fs ≠ .err) :
    (∃ t r, wireOutcome cfg fs = .span t r) ↔ Belongs cfg fs := by
  rw [wire_ident hs herr]; exact core_belongs hs hnd hne hp

theorem belongs_iff_partial_otlp {cfg : Cfg} {fs : List (String × Val)} (hs : Sane cfg) (hnd : (keysOf fs).Nodup)
    (hne : NoEmptyMetaTid fs) (hp : kProbe ∉ keysOf fs) (herr : metaOnlyOutcome cfg fs ≠ .err) :
    (∃ t r, metaOnlyOutcome cfg fs = .span t r) ↔ Belongs cfg fs := by
  rw [metaOnly_ident hs herr]; exact core_belongs hs hnd hne hp

theorem belongs_iff_partial_map {cfg : Cfg} {ord : List (String × Val)} (f2i : Nat → Int) (hs : Sane cfg)
    (hnd : (keysOf ord).Nodup) (hne : NoEmptyMetaTid ord) (hp : kProbe ∉ keysOf ord) :
    (∃ t r, mapOutcome cfg f2i ord = .span t r) ↔ Belongs cfg ord := by
  rw [map_ident hs]; exact core_belongs hs hnd hne hp

/-- **root_iff** — a span is handed on as root exactly when it belongs to a trace, no configured
parent-ID field holds a non-empty string, and it is not a log record (client events: no
`meta.refinery.root` / `meta.refinery.probe` field of their own). -/
theorem root_iff {cfg : Cfg} {fs : List (String × Val)} (hs : Sane cfg) (hd : Disjoint cfg)
    (hnd : (keysOf fs).Nodup) (hne : NoEmptyMetaTid fs) (hr : kRoot ∉ keysOf fs) (hp : kProbe ∉ keysOf fs)
    (herr : wireOutcome cfg fs ≠ .err) :
    (∃ t, wireOutcome cfg fs = .span t true) ↔ (Belongs cfg fs ∧ ¬ HasParent cfg fs ∧ ¬ IsLog fs) := by
  rw [wire_ident hs herr]; exact core_root hs hd hnd hne hr hp

theorem root_iff_otlp {cfg : Cfg} {fs : List (String × Val)} (hs : Sane cfg) (hd : Disjoint cfg)
    (hnd : (keysOf fs).Nodup) (hne : NoEmptyMetaTid fs) (hr : kRoot ∉ keysOf fs) (hp : kProbe ∉ keysOf fs)
    (herr : metaOnlyOutcome cfg fs ≠ .err) :
    (∃ t, metaOnlyOutcome cfg fs = .span t true) ↔ (Belongs cfg fs ∧ ¬ HasParent cfg fs ∧ ¬ IsLog fs) := by
  rw [metaOnly_ident hs herr]; exact core_root hs hd hnd hne hr hp

theorem root_iff_map {cfg : Cfg} {ord : List (String × Val)} (f2i : Nat → Int) (hs : Sane cfg) (hd : Disjoint cfg)
    (hnd : (keysOf ord).Nodup) (hne : NoEmptyMetaTid ord) (hr : kRoot ∉ keysOf ord) (hp : kProbe ∉ keysOf ord) :
    (∃ t, mapOutcome cfg f2i ord = .span t true) ↔ (Belongs cfg ord ∧ ¬ HasParent cfg ord ∧ ¬ IsLog ord) := by
  rw [map_ident hs]; exact core_root hs hd hnd hne hr hp

/-- **log_never_root** — a log record is never handed on as a root span (whatever else it carries,
including a `meta.refinery.root` of its own). -/
theorem log_never_root {cfg : Cfg} {fs : List (String × Val)} (hs : Sane cfg) (hnd : (keysOf fs).Nodup)
    (hl : IsLog fs) (t : String) : wireOutcome cfg fs ≠ .span t true := by
  intro h
  have herr : wireOutcome cfg fs ≠ .err := by rw [h]; intro e; cases e
  rw [wire_ident hs herr] at h
  exact core_log hs hnd hl t h

theorem log_never_root_otlp {cfg : Cfg} {fs : List (String × Val)} (hs : Sane cfg) (hnd : (keysOf fs).Nodup)
    (hl : IsLog fs) (t : String) : metaOnlyOutcome cfg fs ≠ .span t true := by
  intro h
  have herr : metaOnlyOutcome cfg fs ≠ .err := by rw [h]; intro e; cases e
  rw [metaOnly_ident hs herr] at h
  exact core_log hs hnd hl t h

theorem log_never_root_map {cfg : Cfg} {ord : List (String × Val)} (f2i : Nat → Int) (hs : Sane cfg)
    (hnd : (keysOf ord).Nodup) (hl : IsLog ord) (t : String) : mapOutcome cfg f2i ord ≠ .span t true := by
  rw [map_ident hs]; exact core_log hs hnd hl t

/-- **trace_id_wire_order** — what the code computes: `meta.trace_id` if it holds a string, otherwise
the first non-empty configured trace-ID field in the order the path visits the entries. -/
theorem trace_id_wire_order {cfg : Cfg} {fs : List (String × Val)} {tid : String} {r : Bool} (hs : Sane cfg)
    (hnd : (keysOf fs).Nodup) (hne : NoEmptyMetaTid fs) (h : wireOutcome cfg fs = .span tid r) :
    tid = actualTid cfg fs := by
  have herr : wireOutcome cfg fs ≠ .err := by rw [h]; intro e; cases e
  rw [wire_ident hs herr] at h
  exact core_tid hs hnd hne h

theorem trace_id_visit_order_map {cfg : Cfg} {ord : List (String × Val)} {tid : String} {r : Bool}
    (f2i : Nat → Int) (hs : Sane cfg) (hnd : (keysOf ord).Nodup) (hne : NoEmptyMetaTid ord)
    (h : mapOutcome cfg f2i ord = .span tid r) : tid = actualTid cfg ord := by
  rw [map_ident hs] at h
  exact core_tid hs hnd hne h

/-- **trace_id_configured_order (partial: the trace-ID fields present agree, e.g. at most one is
present)** — the trace ID is `meta.trace_id` if present, otherwise the value of the first configured
trace-ID field holding a non-empty string, whatever the field order. -/
theorem trace_id_configured_order_partial {cfg : Cfg} {fs : List (String × Val)} {tid : String} {r : Bool}
    (hs : Sane cfg) (hnd : (keysOf fs).Nodup) (hne : NoEmptyMetaTid fs) (ha : Agree cfg fs)
    (h : wireOutcome cfg fs = .span tid r) : tid = specTid cfg fs := by
  rw [← actual_eq_spec ha]; exact trace_id_wire_order hs hnd hne h

theorem trace_id_configured_order_partial_otlp {cfg : Cfg} {fs : List (String × Val)} {tid : String} {r : Bool}
    (hs : Sane cfg) (hnd : (keysOf fs).Nodup) (hne : NoEmptyMetaTid fs) (ha : Agree cfg fs)
    (h : metaOnlyOutcome cfg fs = .span tid r) : tid = specTid cfg fs := by
  have herr : metaOnlyOutcome cfg fs ≠ .err := by rw [h]; intro e; cases e
  rw [metaOnly_ident hs herr] at h
  rw [← actual_eq_spec ha]; exact core_tid hs hnd hne h

theorem trace_id_configured_order_partial_map {cfg : Cfg} {ord : List (String × Val)} {tid : String} {r : Bool}
    (f2i : Nat → Int) (hs : Sane cfg) (hnd : (keysOf ord).Nodup) (hne : NoEmptyMetaTid ord) (ha : Agree cfg ord)
    (h : mapOutcome cfg f2i ord = .span tid r) : tid = specTid cfg ord := by
  rw [← actual_eq_spec ha]; exact trace_id_visit_order_map f2i hs hnd hne h

/-! ## The two parts of the statement that do not hold for the code as it is -/

def cfgW : Cfg := { tn := ["trace.trace_id", "traceId"], pn := ["trace.parent_id"] }

theorem cfgW_sane : Sane cfgW := by
  intro k h
  simp only [cfgW, List.mem_cons, List.not_mem_nil, or_false] at h
  rcases h with (rfl | rfl) | rfl <;> decide

/-- full-strength statement: configured order decides -/
def TraceIdConfiguredOrder : Prop :=
  ∀ (cfg : Cfg) (fs : List (String × Val)) (tid : String) (r : Bool), Sane cfg → (keysOf fs).Nodup →
    NoEmptyMetaTid fs → wireOutcome cfg fs = .span tid r → tid = specTid cfg fs

def TraceIdConfiguredOrderMap : Prop :=
  ∀ (cfg : Cfg) (f2i : Nat → Int) (ord : List (String × Val)) (tid : String) (r : Bool), Sane cfg →
    (keysOf ord).Nodup → NoEmptyMetaTid ord → mapOutcome cfg f2i ord = .span tid r → tid = specTid cfg ord

/-- two configured trace-ID fields, the second-configured one first on the wire -/
def swappedW : List (String × Val) := [("traceId", .str "2"), ("trace.trace_id", .str "1")]

theorem swappedW_ok : (keysOf swappedW).Nodup ∧ NoEmptyMetaTid swappedW := by
  refine ⟨by decide, ?_⟩
  simp [NoEmptyMetaTid, swappedW]

theorem trace_id_configured_order_refuted : ¬ TraceIdConfiguredOrder := by
  intro h
  have h1 := h cfgW swappedW "2" true cfgW_sane swappedW_ok.1 swappedW_ok.2 (by decide)
  revert h1
  decide

theorem trace_id_configured_order_map_refuted : ¬ TraceIdConfiguredOrderMap := by
  intro h
  have h1 := h cfgW (fun _ => 0) swappedW "2" true cfgW_sane swappedW_ok.1 swappedW_ok.2 (by decide)
  revert h1
  decide

/-- on `/1/events` the trace ID depends on the iteration order of a Go map -/
theorem trace_id_depends_on_map_order :
    ∃ (cfg : Cfg) (ord ord' : List (String × Val)), Sane cfg ∧ ord.Perm ord' ∧
      mapOutcome cfg (fun _ => 0) ord ≠ mapOutcome cfg (fun _ => 0) ord' :=
  ⟨cfgW, swappedW, [("trace.trace_id", .str "1"), ("traceId", .str "2")], cfgW_sane,
    List.Perm.swap _ _ _, by decide⟩

/-- full-strength statement: belonging to a trace -/
def BelongsIff : Prop :=
  ∀ (cfg : Cfg) (fs : List (String × Val)), Sane cfg → (keysOf fs).Nodup → kProbe ∉ keysOf fs →
    wireOutcome cfg fs ≠ .err → ((∃ t r, wireOutcome cfg fs = .span t r) ↔ Belongs cfg fs)

def BelongsIffMap : Prop :=
  ∀ (cfg : Cfg) (f2i : Nat → Int) (ord : List (String × Val)), Sane cfg → (keysOf ord).Nodup →
    kProbe ∉ keysOf ord → ((∃ t r, mapOutcome cfg f2i ord = .span t r) ↔ Belongs cfg ord)

/-- a trace-ID field followed by a `meta.trace_id` holding the empty string -/
def erasedW : List (String × Val) := [("trace.trace_id", .str "abc"), (kTid, .str "")]

theorem erasedW_belongs : Belongs cfgW erasedW :=
  ⟨"trace.trace_id", "abc", Or.inr (by decide), by simp [erasedW], by decide⟩

theorem belongs_iff_refuted : ¬ BelongsIff := by
  intro h
  obtain ⟨t, r, ht⟩ := (h cfgW erasedW cfgW_sane (by decide) (by decide) (by decide)).mpr erasedW_belongs
  have h2 : wireOutcome cfgW erasedW = .nonspan := by decide
  rw [h2] at ht
  cases ht

theorem belongs_iff_map_refuted : ¬ BelongsIffMap := by
  intro h
  obtain ⟨t, r, ht⟩ := (h cfgW (fun _ => 0) erasedW cfgW_sane (by decide) (by decide)).mpr erasedW_belongs
  have h2 : mapOutcome cfgW (fun _ => 0) erasedW = .nonspan := by decide
  rw [h2] at ht
  cases ht

/-! ## The repaired variants: the full statements hold

`Fixed` (Model/Payload.lean) has one flag per repair of `types/payload.go`; the oracle runs the `…F`
functions with `fixedNow`.  With no flag set they are the functions above (first three theorems), so
everything above is about the code as it was; the theorems below are about the code with repair 01
(`emptyMetaTid`: an empty `meta.trace_id` erases nothing) resp. 02 (`configuredOrder`: the first
*configured* trace-ID field wins, on every path, independent of wire / Go-map order). -/

theorem fixed_none_wire (cfg : Cfg) (fs : List (String × Val)) : wireOutcomeF {} cfg fs = wireOutcome cfg fs := rfl
theorem fixed_none_otlp (cfg : Cfg) (fs : List (String × Val)) : metaOnlyOutcomeF {} cfg fs = metaOnlyOutcome cfg fs := rfl
theorem fixed_none_map (cfg : Cfg) (f2i : Nat → Int) (ord : List (String × Val)) :
    mapOutcomeF {} cfg f2i ord = mapOutcome cfg f2i ord := rfl

/-- **belongs_iff, full statement, with repair 01** (with or without 02) — `BelongsIff` for the
repaired `/1/batch` path: no hypothesis about empty `meta.trace_id` values any more. -/
theorem belongs_iff_fixed {fx : Fixed} (he : fx.emptyMetaTid = true) (cfg : Cfg) (fs : List (String × Val))
    (hs : Sane cfg) (_hnd : (keysOf fs).Nodup) (hp : kProbe ∉ keysOf fs) (herr : wireOutcomeF fx cfg fs ≠ .err) :
    (∃ t r, wireOutcomeF fx cfg fs = .span t r) ↔ Belongs cfg fs := by
  have hr : Repaired fx := by simp [Repaired, he]
  rw [wireF_ident hr hs herr]; exact identN_belongs he hs hp

theorem belongs_iff_fixed_otlp {fx : Fixed} (he : fx.emptyMetaTid = true) (cfg : Cfg) (fs : List (String × Val))
    (hs : Sane cfg) (_hnd : (keysOf fs).Nodup) (hp : kProbe ∉ keysOf fs) (herr : metaOnlyOutcomeF fx cfg fs ≠ .err) :
    (∃ t r, metaOnlyOutcomeF fx cfg fs = .span t r) ↔ Belongs cfg fs := by
  have hr : Repaired fx := by simp [Repaired, he]
  rw [metaOnlyF_ident hr hs herr]; exact identN_belongs he hs hp

/-- `BelongsIffMap` for the repaired `/1/events` path, for every iteration order -/
theorem belongs_iff_fixed_map {fx : Fixed} (he : fx.emptyMetaTid = true) (cfg : Cfg) (f2i : Nat → Int)
    (ord : List (String × Val)) (hs : Sane cfg) (hnd : (keysOf ord).Nodup) (hp : kProbe ∉ keysOf ord) :
    (∃ t r, mapOutcomeF fx cfg f2i ord = .span t r) ↔ Belongs cfg ord := by
  have hr : Repaired fx := by simp [Repaired, he]
  rw [mapF_ident hr hs]; exact identM_belongs he hs hnd hp

/-- **trace_id_configured_order, full statement, with repair 02** — `TraceIdConfiguredOrder` for the
repaired `/1/batch` path: the trace ID is `meta.trace_id` if present, otherwise the value of the
first configured trace-ID field holding a non-empty string, whatever the order on the wire. -/
theorem trace_id_configured_order_fixed {fx : Fixed} (hc : fx.configuredOrder = true) (cfg : Cfg)
    (fs : List (String × Val)) (tid : String) (r : Bool) (hs : Sane cfg) (hnd : (keysOf fs).Nodup)
    (hne : NoEmptyMetaTid fs) (h : wireOutcomeF fx cfg fs = .span tid r) : tid = specTid cfg fs := by
  have hr : Repaired fx := by simp [Repaired, hc]
  have herr : wireOutcomeF fx cfg fs ≠ .err := by rw [h]; intro e; cases e
  rw [wireF_ident hr hs herr] at h
  rw [← identN_tid hc hnd hne]
  exact (outcomeId_span.mp h).2.1.symm

theorem trace_id_configured_order_fixed_otlp {fx : Fixed} (hc : fx.configuredOrder = true) (cfg : Cfg)
    (fs : List (String × Val)) (tid : String) (r : Bool) (hs : Sane cfg) (hnd : (keysOf fs).Nodup)
    (hne : NoEmptyMetaTid fs) (h : metaOnlyOutcomeF fx cfg fs = .span tid r) : tid = specTid cfg fs := by
  have hr : Repaired fx := by simp [Repaired, hc]
  have herr : metaOnlyOutcomeF fx cfg fs ≠ .err := by rw [h]; intro e; cases e
  rw [metaOnlyF_ident hr hs herr] at h
  rw [← identN_tid hc hnd hne]
  exact (outcomeId_span.mp h).2.1.symm

/-- `TraceIdConfiguredOrderMap` for the repaired `/1/events` path: the same value for **every**
iteration order of the Go map -/
theorem trace_id_configured_order_fixed_map {fx : Fixed} (hc : fx.configuredOrder = true) (cfg : Cfg)
    (f2i : Nat → Int) (ord : List (String × Val)) (tid : String) (r : Bool) (hs : Sane cfg)
    (hnd : (keysOf ord).Nodup) (hne : NoEmptyMetaTid ord) (h : mapOutcomeF fx cfg f2i ord = .span tid r) :
    tid = specTid cfg ord := by
  have hr : Repaired fx := by simp [Repaired, hc]
  rw [mapF_ident hr hs] at h
  rw [← identM_tid hc hnd hne]
  exact (outcomeId_span.mp h).2.1.symm

/-! the witnesses of the refutations, on the repaired variants -/
example : wireOutcomeF { emptyMetaTid := true } cfgW erasedW = .span "abc" true := by decide
example : mapOutcomeF { emptyMetaTid := true } cfgW (fun _ => 0) erasedW = .span "abc" true := by decide
example : wireOutcomeF { emptyMetaTid := true, configuredOrder := true } cfgW erasedW = .span "abc" true := by decide
example : wireOutcomeF { emptyMetaTid := true, configuredOrder := true } cfgW swappedW = .span "1" true := by decide
example : metaOnlyOutcomeF { emptyMetaTid := true, configuredOrder := true } cfgW swappedW = .span "1" true := by decide
example : mapOutcomeF { emptyMetaTid := true, configuredOrder := true } cfgW (fun _ => 0) swappedW = .span "1" true := by decide
example : mapOutcomeF { emptyMetaTid := true, configuredOrder := true } cfgW (fun _ => 0)
    [("trace.trace_id", .str "1"), ("traceId", .str "2")] = .span "1" true := by decide
example : wireOutcomeF { emptyMetaTid := true, configuredOrder := true } cfgW
    [("traceId", .str "2"), ("trace.parent_id", .str "p"), (kTid, .str "m")] = .span "m" false := by decide

/-! ## Non-vacuity: concrete events, evaluated by the kernel -/

example : wireOutcome cfgW [("name", .str "x"), ("traceId", .str "t1"), ("trace.parent_id", .str "p")]
    = .span "t1" false := by decide
example : wireOutcome cfgW [("traceId", .str "t1"), ("name", .int 3)] = .span "t1" true := by decide
example : wireOutcome cfgW [("traceId", .str "t1"), (kSig, .str "log")] = .span "t1" false := by decide
example : wireOutcome cfgW [("traceId", .str "t1"), (kTid, .str "m")] = .span "m" true := by decide
example : wireOutcome cfgW [("traceId", .bin "t1"), ("name", .str "x")] = .nonspan := by decide
example : wireOutcome cfgW [(kTid, .bin "t1")] = .err := by decide
example : wireOutcome cfgW [] = .err := by decide
example : metaOnlyOutcome cfgW swappedW = .span "2" true := by decide
example : mapOutcome cfgW (fun _ => 0) [("trace.parent_id", .str "p"), ("trace.trace_id", .str "t")]
    = .span "t" false := by decide
example : specTid cfgW swappedW = "1" ∧ actualTid cfgW swappedW = "2" := by decide

end Refinery.Props.C21
