import Refinery.Model.Payload
/-!
# C21 — trace identity and root status follow the ID-field configuration

Statement (properties.jsonl): an event belongs to a trace exactly when `meta.trace_id` or one of the
configured trace-ID fields holds a non-empty string; its trace ID is `meta.trace_id` if present,
otherwise the value of the first such field in configured order, independent of field order and
encoding.  It is a root span exactly when it belongs to a trace, no configured parent-ID field
holds a non-empty string, and it is not a log record.

The theorems are about the model's ingestion functions themselves (`ingestBatch` = msgpack and JSON
`/1/batch`, `ingestMeta` = OTLP msgpack, `extractMap` = JSON `/1/events`), for **all** field lists
and configurations.  Two parts of the statement are false for the code as it is and are refuted
with concrete witnesses (both reproduced on the real code by the harness):

* `trace_id_configured_order` — with several trace-ID fields present the first in *wire* order
  (Go-map iteration order on `/1/events`) wins, not the first in configured order;
* `belongs_iff` — a `meta.trace_id` holding the empty string that comes after a trace-ID field
  erases the trace ID, so the event is handed on as not belonging to any trace.

Scope hypotheses used below: `Sane cfg` (no configured trace-ID / parent-ID / sampling-key name is
one of Refinery's reserved metadata names), `Disjoint` (no name is both a trace-ID and a parent-ID
name), unique keys, and — for client events — no `meta.refinery.root` / `meta.refinery.probe` key.
-/
namespace Refinery.Props.C21
open Refinery Refinery.Model.Payload

/-! ## The reserved table (regenerated from the code): side conditions by evaluation -/

theorem table_prefix : ∀ e ∈ metaTable, hasPrefix "meta." e.1 = true := by decide

theorem prefKind_eq (k : String) : prefKind k = tableKind k := by
  unfold prefKind
  split
  · rfl
  · rename_i h
    unfold tableKind
    cases hg : AList.get metaTable k with
    | none => rfl
    | some v =>
      have := table_prefix _ (AList.mem_of_get hg)
      simp_all

theorem kind_kTid : tableKind kTid = some .str := by decide
theorem kind_kSig : tableKind kSig = some .str := by decide
theorem kind_kRoot : tableKind kRoot = some .bool := by decide
theorem kind_kProbe : tableKind kProbe = some .bool := by decide
theorem kind_kUA : tableKind kUA = some .str := by decide

theorem keys_ne : kTid ≠ kSig ∧ kTid ≠ kRoot ∧ kTid ≠ kProbe ∧ kSig ≠ kRoot ∧ kSig ≠ kProbe ∧
    kRoot ≠ kProbe ∧ kUA ≠ kTid ∧ kUA ≠ kSig ∧ kUA ≠ kRoot ∧ kUA ≠ kProbe := by decide

/-- No configured trace-ID, parent-ID or sampling-key field name is a reserved metadata name. -/
def Sane (cfg : Cfg) : Prop :=
  ∀ k, (k ∈ cfg.tn ∨ k ∈ cfg.pn ∨ k ∈ cfg.sk) → tableKind k = none

/-! ## The identity part of `extractCriticalFieldsFromBytes`, isolated -/

def idStep (cfg : Cfg) (s : IdSt) (kv : String × Val) : Option IdSt :=
  match metaDecode kv.1 kv.2 with
  | .err => none
  | .done mv => some (idPut s kv.1 mv)
  | .skip => some ((idFall cfg s kv.1 kv.2).getD s)

def idFold (cfg : Cfg) : IdSt → List (String × Val) → Option IdSt
  | s, [] => some s
  | s, kv :: t =>
    match idStep cfg s kv with
    | none => none
    | some s' => idFold cfg s' t

theorem put_id (m : Meta) (k : String) (v : MVal) : (m.put k v).id = idPut m.id k v := by
  unfold Meta.put
  split
  · rfl
  · rename_i h
    simp only [isIdKey, Bool.or_eq_true, decide_eq_true_eq, not_or] at h
    simp [idPut, h.1.1.1, h.1.1.2, h.1.2, h.2]

theorem wireKey_id {sk : List String} (hsk : ∀ k ∈ sk, tableKind k = none) (p : Pay) (f : Nat)
    (k : String) (v : Val) : (wireKey sk p f k v).1.md.id = p.md.id := by
  unfold wireKey
  split
  · rename_i h
    simp [Pay.set, hsk k h.2.1]
  · rfl

theorem wstep_id {cfg : Cfg} {sk : List String} (hsk : ∀ k ∈ sk, tableKind k = none)
    (st : Pay × Nat) (kv : String × Val) :
    (wstep cfg sk st kv).map (fun r => r.1.md.id) = idStep cfg st.1.md.id kv := by
  unfold wstep idStep
  generalize metaDecode kv.1 kv.2 = d
  cases d with
  | err => rfl
  | done mv => simp [put_id]
  | skip =>
    simp only
    generalize idFall cfg st.1.md.id kv.1 kv.2 = o
    cases o with
    | some i => simp
    | none => simp [wireKey_id hsk]

theorem wfold_id {cfg : Cfg} {sk : List String} (hsk : ∀ k ∈ sk, tableKind k = none) :
    ∀ (fs : List (String × Val)) (st : Pay × Nat),
      (wfold cfg sk st fs).map (fun r => r.1.md.id) = idFold cfg st.1.md.id fs
  | [], st => rfl
  | kv :: t, st => by
    have h := wstep_id (cfg := cfg) hsk st kv
    unfold wfold idFold
    cases hw : wstep cfg sk st kv with
    | none =>
      rw [hw] at h
      simp only [Option.map_none] at h
      rw [← h]
    | some st' =>
      rw [hw] at h
      simp only [Option.map_some] at h
      rw [← h]
      exact wfold_id hsk t st'

/-! ## What the identity part computes, as one plain function of the entry -/

def specStep (cfg : Cfg) (s : IdSt) (kv : String × Val) : IdSt :=
  if kv.1 = kTid then (match kv.2 with | .str x => { s with tid := x } | _ => s)
  else if kv.1 = kSig then (match kv.2 with | .str x => { s with sig := x } | _ => s)
  else if kv.1 = kRoot then (match kv.2 with | .bool b => { s with root := some b } | _ => s)
  else if kv.1 = kProbe then (match kv.2 with | .bool b => { s with probe := some b } | _ => s)
  else match kv.2 with
    | .str x =>
      if s.tid = "" ∧ kv.1 ∈ cfg.tn then { s with tid := x }
      else if kv.1 ∈ cfg.pn ∧ x ≠ "" then { s with root := some false }
      else s
    | _ => s

def specFold (cfg : Cfg) (s : IdSt) (fs : List (String × Val)) : IdSt := fs.foldl (specStep cfg) s

theorem idFall_not_cfg {cfg : Cfg} {k : String} (h1 : k ∉ cfg.tn) (h2 : k ∉ cfg.pn) (s : IdSt) (v : Val) :
    idFall cfg s k v = none := by
  cases v <;> simp [idFall, h1, h2]

theorem prefKind_kTid : prefKind kTid = some .str := by rw [prefKind_eq, kind_kTid]
theorem prefKind_kSig : prefKind kSig = some .str := by rw [prefKind_eq, kind_kSig]
theorem prefKind_kRoot : prefKind kRoot = some .bool := by rw [prefKind_eq, kind_kRoot]
theorem prefKind_kProbe : prefKind kProbe = some .bool := by rw [prefKind_eq, kind_kProbe]

theorem idStep_spec {cfg : Cfg} (hs : Sane cfg) {s s1 : IdSt} {kv : String × Val}
    (h : idStep cfg s kv = some s1) : s1 = specStep cfg s kv := by
  obtain ⟨k, v⟩ := kv
  unfold idStep at h
  simp only at h
  cases hk : tableKind k with
  | none =>
    have hp : prefKind k = none := by rw [prefKind_eq, hk]
    have hd : metaDecode k v = .skip := by simp [metaDecode, hp]
    rw [hd] at h
    simp only [Option.some.injEq] at h
    subst h
    have h1 : k ≠ kTid := by intro e; rw [e, kind_kTid] at hk; cases hk
    have h2 : k ≠ kSig := by intro e; rw [e, kind_kSig] at hk; cases hk
    have h3 : k ≠ kRoot := by intro e; rw [e, kind_kRoot] at hk; cases hk
    have h4 : k ≠ kProbe := by intro e; rw [e, kind_kProbe] at hk; cases hk
    unfold specStep
    simp only [h1, h2, h3, h4, if_false]
    cases v <;> simp only [idFall, Option.getD_none]
    rename_i x
    by_cases c1 : s.tid = "" ∧ k ∈ cfg.tn
    · simp [c1]
    · by_cases c2 : k ∈ cfg.pn <;> by_cases c3 : x = "" <;> simp [c1, c2, c3]
  | some kd =>
    have hp : prefKind k = some kd := by rw [prefKind_eq, hk]
    have hn1 : k ∉ cfg.tn := fun hm => by have := hs k (Or.inl hm); rw [this] at hk; cases hk
    have hn2 : k ∉ cfg.pn := fun hm => by have := hs k (Or.inr (Or.inl hm)); rw [this] at hk; cases hk
    have hf : idFall cfg s k v = none := idFall_not_cfg hn1 hn2 s v
    have hspecElse : (match v with
        | .str x => if s.tid = "" ∧ k ∈ cfg.tn then { s with tid := x }
            else if k ∈ cfg.pn ∧ x ≠ "" then { s with root := some false } else s
        | _ => s) = s := by
      cases v <;> simp [hn1, hn2]
    obtain ⟨n1, n2, n3, n4, n5, n6, _⟩ := keys_ne
    by_cases e1 : k = kTid
    · subst e1
      have : kd = .str := by rw [kind_kTid] at hk; cases hk; rfl
      subst this
      cases v <;> simp [metaDecode, hp, hf, idPut, specStep] at h ⊢ <;> exact h.symm
    · by_cases e2 : k = kSig
      · subst e2
        have : kd = .str := by rw [kind_kSig] at hk; cases hk; rfl
        subst this
        cases v <;> simp [metaDecode, hp, hf, idPut, specStep, Ne.symm n1] at h ⊢ <;> exact h.symm
      · by_cases e3 : k = kRoot
        · subst e3
          have : kd = .bool := by rw [kind_kRoot] at hk; cases hk; rfl
          subst this
          cases v <;> simp [metaDecode, hp, hf, idPut, specStep, Ne.symm n2, Ne.symm n4] at h ⊢ <;> exact h.symm
        · by_cases e4 : k = kProbe
          · subst e4
            have : kd = .bool := by rw [kind_kProbe] at hk; cases hk; rfl
            subst this
            cases v <;> simp [metaDecode, hp, hf, idPut, specStep, Ne.symm n3, Ne.symm n5, Ne.symm n6] at h ⊢ <;>
              exact h.symm
          · have hput : ∀ mv, idPut s k mv = s := by intro mv; simp [idPut, e1, e2, e3, e4]
            have hspec : specStep cfg s (k, v) = s := by
              unfold specStep
              simp only [e1, e2, e3, e4, if_false]
              exact hspecElse
            rw [hspec]
            cases hd : metaDecode k v with
            | err => rw [hd] at h; simp at h
            | done mv => rw [hd] at h; simp [hput] at h; exact h.symm
            | skip => rw [hd] at h; simp [hf] at h; exact h.symm

theorem idFold_spec {cfg : Cfg} (hs : Sane cfg) :
    ∀ (fs : List (String × Val)) (s s' : IdSt), idFold cfg s fs = some s' → s' = specFold cfg s fs
  | [], s, s', h => by simp [idFold] at h; simp [specFold, h]
  | kv :: t, s, s', h => by
    unfold idFold at h
    cases h1 : idStep cfg s kv with
    | none => rw [h1] at h; simp at h
    | some s1 =>
      rw [h1] at h
      have := idStep_spec hs h1
      subst this
      have := idFold_spec hs t _ _ h
      simpa [specFold] using this

end Refinery.Props.C21
