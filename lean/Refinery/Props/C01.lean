import Refinery.Lemmas.CollectorFacts
/-!
# C01 — One keep/drop decision per trace, applied to every span

Statement (properties.jsonl): every span of a trace that Refinery accepts is treated according to a
single keep-or-drop decision for that trace: either all of its accepted spans are forwarded to
Honeycomb or none are, including spans that arrive after the decision was made.  This holds for any
arrival order, batching, timing, worker count, sampler reload and memory-pressure ejection,
provided cluster membership is stable, stress relief does not switch on or off while the trace is
buffered, and the trace's decision is still remembered (it has not aged out of the kept-decision
capacity and its ID is not a false positive of the dropped-trace filter).

How the hypotheses appear here
* arrival order / batching / timing / ejection / reload: the theorems quantify over every
  `ops : List Op`; *when* and *by which path* (tick, span limit, ejection) a trace is decided is the
  position of its `decide` op; a reload may change the sampler between any two ops.
* worker count: `P.owner` is an arbitrary function from trace ids to workers.
* "still remembered": `Remembered s t` — no arrival of `t` after its decision missed the record
  (`t ∉ s.missed`; covers eviction from the kept LRU and a drop forgotten by the filter) and the
  dropped filter never claimed `t` without a recorded drop (`t ∉ s.falsePos`).
* stress relief: `StressConstant s t` — the stress path (`ProcessSpanImmediately`, taken by every span
  while the node is stressed) never made a decision for `t` while spans of `t` were buffered, which is
  what "stress relief switches on while the trace is buffered" amounts to (`t ∉ s.mixed`; switching
  *off* is harmless: the stress decision is recorded and later spans obey it).
  `stress_switch_can_split` shows the hypothesis is needed.
* kept capacity: `Op.resize` changes it at any point; a shrink forgets exactly the records beyond the
  newest `c` of each worker (`resize_keeps_newest`), and a late span of a forgotten trace is a miss.
* cluster membership: a single node is modelled.
* DryRun: the property is silent about it; dry run forwards spans of dropped traces by design, so
  "all or none" is stated for histories in which DryRun is never on (`everDry = false`); with
  DryRun always on *all* spans are forwarded (C05); `dryrun_toggle_can_split` shows that a toggle
  does split a trace.
-/
namespace Refinery.Props.C01
open Refinery.Model.Collector Refinery.Lemmas.Collector

/-- every accepted span of `t` was forwarded (exactly once) -/
def AllForwarded (s : St) (t : Nat) : Prop := ∀ sp ∈ s.accepted, sp.trace = t → timesForwarded s sp.id = 1
/-- no accepted span of `t` was forwarded -/
def NoneForwarded (s : St) (t : Nat) : Prop := ∀ sp ∈ s.accepted, sp.trace = t → timesForwarded s sp.id = 0

instance (s : St) (t : Nat) : Decidable (AllForwarded s t) := by unfold AllForwarded; infer_instance
instance (s : St) (t : Nat) : Decidable (NoneForwarded s t) := by unfold NoneForwarded; infer_instance

/-- **decide_once** — a trace whose decision is remembered is decided at most once, whatever the
history (ticks, ejections and reloads included). -/
theorem decide_once (P : Params) (dry : Bool) (ops : List Op) (t : Nat)
    (hrem : Remembered (run P dry ops) t) (hsc : StressConstant (run P dry ops) t) :
    ((run P dry ops).decisions.filter (fun d => d.trace == t)).length ≤ 1 :=
  (inv_run P dry ops).once t hrem.1 hsc

/-- **buffer_record_disjoint** — a buffered trace has no decision (hence no kept or dropped record
made for it) unless one of its arrivals missed the record. -/
theorem buffer_record_disjoint (P : Params) (dry : Bool) (ops : List Op) (t : Nat)
    (hbuf : ∃ sp ∈ (run P dry ops).buf, sp.trace = t) (hm : t ∉ (run P dry ops).missed)
    (hsc : StressConstant (run P dry ops) t) :
    (∀ d ∈ (run P dry ops).decisions, d.trace ≠ t) ∧ t ∉ (run P dry ops).dropped ∧
      ∀ e ∈ (run P dry ops).kept, e.1 ≠ t := by
  have h := inv_run P dry ops
  obtain ⟨sp, hsp, ht⟩ := hbuf
  have hnone : ∀ d ∈ (run P dry ops).decisions, d.trace ≠ t := by
    intro d hd hdt
    rcases ht ▸ h.bufMissed sp hsp ⟨d, hd, hdt.trans ht.symm⟩ with h1 | h1
    · exact hm h1
    · exact hsc h1
  refine ⟨hnone, ?_, ?_⟩
  · intro hdrop
    obtain ⟨d, hd, hdt, _⟩ := h.dropDec t hdrop
    exact hnone d hd hdt
  · intro e he het
    obtain ⟨d, hd, hdt, _⟩ := h.keptDec e he
    exact hnone d hd (hdt.trans het)

/-- **late_obeys (keep)** — a span arriving for an unbuffered trace with a kept record (and no claim
of the dropped filter) is forwarded at once. -/
theorem late_obeys_keep (s : St) (t : Nat) (root : Bool) (client : Nat) (e : Nat × Nat)
    (hnb : buffered s t = false) (hk : s.kept.find? (fun e => e.1 == t) = some e) :
    (arrive s t root client false).out =
      s.out ++ [lateFwd s { id := s.nextId, trace := t, root := root, client := client } e.2] ∧
    (arrive s t root client false).buf = s.buf := by
  simp [arrive, hnb, hk]

/-- **late_obeys (drop)** — a span arriving for an unbuffered trace that the dropped record claims
is not forwarded outside dry run (and not buffered either). -/
theorem late_obeys_drop (s : St) (t : Nat) (root : Bool) (client : Nat)
    (hnb : buffered s t = false) (hdry : s.dryRun = false) :
    (arrive s t root client true).out = s.out ∧ (arrive s t root client true).buf = s.buf := by
  simp [arrive, hnb, hdry]

/-- **single_decision** — in every history in which DryRun was never on, a trace whose decision is
still remembered and which has left the buffer and `tracesToSend` has either all of its accepted
spans forwarded (each exactly once) or none; and which of the two is the sampler's one decision for
it: all, iff a "keep" decision exists. -/
theorem single_decision (P : Params) (dry : Bool) (ops : List Op) (t : Nat)
    (hrem : Remembered (run P dry ops) t)
    (hsc : StressConstant (run P dry ops) t)
    (hnodry : (run P dry ops).everDry = false)
    (hq : Quiescent (run P dry ops) t) :
    ((∃ d ∈ (run P dry ops).decisions, d.trace = t ∧ d.keep = true) ∧ AllForwarded (run P dry ops) t) ∨
    ((∀ d ∈ (run P dry ops).decisions, d.trace = t → d.keep = false) ∧ NoneForwarded (run P dry ops) t) := by
  have h := inv_run P dry ops
  by_cases hk : ∃ d ∈ (run P dry ops).decisions, d.trace = t ∧ d.keep = true
  · exact Or.inl ⟨hk, kept_all_of_inv h t hrem hsc hk hq.2⟩
  · right
    have hdrop : ∀ d ∈ (run P dry ops).decisions, d.trace = t → d.keep = false := by
      intro d hd hdt
      cases hkk : d.keep with
      | false => rfl
      | true => exact absurd ⟨d, hd, hdt, hkk⟩ hk
    exact ⟨hdrop, dropped_never_of_inv h t hnodry hdrop⟩

/-- `single_decision` with the DryRun hypothesis as a predicate of the op list: the collector starts
with DryRun off and no reload turns it on. -/
theorem single_decision_ops (P : Params) (ops : List Op) (t : Nat)
    (hno : NoDryReload ops)
    (hrem : Remembered (run P false ops) t) (hsc : StressConstant (run P false ops) t)
    (hq : Quiescent (run P false ops) t) :
    AllForwarded (run P false ops) t ∨ NoneForwarded (run P false ops) t :=
  (single_decision P false ops t hrem hsc (everDry_run P ops hno) hq).imp (·.2) (·.2)

/-- stress relief never switched on: `StressConstant` holds for every trace -/
theorem stressConstant_of_noStress (P : Params) (dry : Bool) (ops : List Op) (hno : NoStressOn ops) (t : Nat) :
    StressConstant (run P dry ops) t := by
  have := ((inv_run P dry ops).noStress (everStressed_run P dry ops hno)).2.2.1
  unfold StressConstant; rw [this]; simp

/-- **resize_keeps_newest** — `Resize` to `c` records per worker keeps every record that has fewer than
`c` more recent records of the same worker (so a trace among the newest `c` kept decisions of its
worker is still remembered after a shrinking reload; the older ones are forgotten). -/
theorem resize_keeps_newest (P : Params) (s : St) (c : Nat) (hc : c ≠ 0) (pre post : List (Nat × Nat)) (e : Nat × Nat)
    (hk : s.kept = pre ++ e :: post)
    (hrank : (pre.filter (fun x => P.owner x.1 == P.owner e.1)).length < c) :
    e ∈ (resizeCfg P s c).kept := by
  simp only [resizeCfg, hc, if_false, hk]
  exact resizeKept_keeps P c e post pre [] (by simpa using hrank)

/-! ## The hypotheses are needed -/

/-- `single_decision` without "the decision is still remembered" -/
def SingleDecisionUnconditional : Prop :=
  ∀ (P : Params) (ops : List Op) (t : Nat), NoDryReload ops → NoStressOn ops → Quiescent (run P false ops) t →
    AllForwarded (run P false ops) t ∨ NoneForwarded (run P false ops) t

/-- generation 0 keeps every trace, generation 1 drops every trace; one worker, one kept record -/
def wP : Params := { decide := fun g _ => { keep := g == 0, rate := 1 }, owner := fun _ => 0, cap := 1 }

/-- trace 0 kept and sent; trace 1 kept, which evicts trace 0's record (capacity 1); the rules are
reloaded; a late span of trace 0 finds no record, is buffered as a new trace and dropped. -/
def wForgotten : List Op :=
  [.span 0 true 1 false, .decide 0, .drain, .span 1 true 1 false, .decide 1, .drain,
   .reload 1 false, .span 0 false 1 false, .decide 0]

/-- **forgotten_can_split** — the "still remembered" hypothesis is necessary: with kept capacity 1,
two kept traces and a late span of the first, trace 0 ends with one span forwarded and one dropped. -/
theorem forgotten_can_split : ¬ SingleDecisionUnconditional := by
  intro h
  have := h wP wForgotten 0 (by intro g d hm; simp [wForgotten] at hm; exact hm.2) (by decide) (by decide)
  revert this
  decide

/-- the same for the other half of the record: a false positive of the dropped-trace filter drops a
late span of a kept trace. -/
theorem false_positive_can_split : ¬ SingleDecisionUnconditional := by
  intro h
  have := h wP [.span 0 true 1 false, .decide 0, .drain, .span 0 false 1 true] 0
    (by intro g d hm; simp at hm) (by decide) (by decide)
  revert this
  decide

/-- `single_decision` without "DryRun was never on" -/
def SingleDecisionAnyDryRun : Prop :=
  ∀ (P : Params) (dry : Bool) (ops : List Op) (t : Nat), Remembered (run P dry ops) t → NoStressOn ops →
    Quiescent (run P dry ops) t → AllForwarded (run P dry ops) t ∨ NoneForwarded (run P dry ops) t

/-- **dryrun_toggle_can_split** — a trace dropped with DryRun off whose late span arrives with DryRun
on has that span forwarded (marked `kept=false`): the DryRun hypothesis of `single_decision` is needed. -/
theorem dryrun_toggle_can_split : ¬ SingleDecisionAnyDryRun := by
  intro h
  have := h wP false [.reload 1 false, .span 0 true 1 false, .decide 0, .reload 1 true, .span 0 false 1 true] 0
    (by decide) (by decide) (by decide)
  revert this
  decide

/-- `single_decision` without "stress relief does not switch on while the trace is buffered" -/
def SingleDecisionAnyStress : Prop :=
  ∀ (P : Params) (ops : List Op) (t : Nat), NoDryReload ops → Remembered (run P false ops) t →
    Quiescent (run P false ops) t → AllForwarded (run P false ops) t ∨ NoneForwarded (run P false ops) t

/-- **stress_switch_can_split** — a span of trace 0 is buffered, stress relief switches on and keeps a
second span of trace 0 (recording "kept"), switches off, the rules now drop trace 0: the buffered span
is dropped although the stress-path span was forwarded.  The stress hypothesis is needed. -/
theorem stress_switch_can_split : ¬ SingleDecisionAnyStress := by
  intro h
  have := h wP [.span 0 true 1 false, .stress true, .span 0 false 1 false, .stress false, .reload 1 false, .decide 0] 0
    (by intro g d hm; simp at hm; exact hm.2) (by decide) (by decide)
  revert this
  decide

/-- `wP` with a shrinking reload: traces 0 and 1 kept (capacity 2), resize to 1 forgets trace 0 (the
older one) and keeps trace 1 -/
example : (run { wP with cap := 2 } false [.span 0 true 1 false, .decide 0, .span 1 true 1 false, .decide 1, .resize 1]).kept
    = [(1, 1)] := by decide

/-! ## Non-vacuity -/

/-- a 3-span trace with a late root: child, child, decision (keep), `sendTraces`, late root -/
example : Remembered (run wP false [.span 0 false 0 false, .span 0 false 2 false, .decide 0, .drain, .span 0 true 1 false]) 0
    ∧ StressConstant (run wP false [.span 0 false 0 false, .span 0 false 2 false, .decide 0, .drain, .span 0 true 1 false]) 0
    ∧ Quiescent (run wP false [.span 0 false 0 false, .span 0 false 2 false, .decide 0, .drain, .span 0 true 1 false]) 0
    ∧ AllForwarded (run wP false [.span 0 false 0 false, .span 0 false 2 false, .decide 0, .drain, .span 0 true 1 false]) 0 := by
  decide

/-- the same trace under the dropping rules: none forwarded, including the late root -/
example : Remembered (run wP false [.reload 1 false, .span 0 false 0 false, .span 0 false 2 false, .decide 0, .span 0 true 1 true]) 0
    ∧ Quiescent (run wP false [.reload 1 false, .span 0 false 0 false, .span 0 false 2 false, .decide 0, .span 0 true 1 true]) 0
    ∧ NoneForwarded (run wP false [.reload 1 false, .span 0 false 0 false, .span 0 false 2 false, .decide 0, .span 0 true 1 true]) 0
    ∧ (run wP false [.reload 1 false, .span 0 false 0 false, .span 0 false 2 false, .decide 0, .span 0 true 1 true]).accepted.length = 3 := by
  decide

/-- in `wForgotten` trace 0 is indeed not remembered, and was decided twice -/
example : ¬ Remembered (run wP false wForgotten) 0 ∧
    ((run wP false wForgotten).decisions.filter (fun d => d.trace == 0)).length = 2 := by decide

end Refinery.Props.C01
