import Refinery.Lemmas.TraceKey
import Refinery.Gen.Tracekey
import Std.Data.String.ToInt
/-!
# C11 — dynamic sample keys depend only on the trace's distinct field values

Statement (properties.jsonl): for dynamic and throughput samplers, a trace's sample key is
determined by the set of distinct values each configured field takes across its spans
(`root.`-prefixed fields read from the root span only) plus the span count when `UseTraceLength`
is set, so reordering or duplicating spans does not change it while fewer than 100 distinct values
are involved.  Traces whose fields are all present and differ in some field's value set (values
free of the key delimiters) get different keys, and the sampler returns a rate of at least 1 and
keeps with probability 1/rate.

All theorems quantify over every trace (any spans, any typed values, root present or not), every
field list, both settings of `UseTraceLength`, every rendering of values (`Render`; the code's is
`renderOf e`) and — where it does not matter — every cap and root prefix; the code's own constants
are `codeCap`, `codePrefix` (generated from the compiled package).

"Distinct values" are LOGICAL, type-tagged values (`Val`), not their renderings.  The key is text,
so two different values that render alike (`int64 1`, `uint64 1`, `"1"`, `float64 1`) cannot be
told apart by design of the key format (`TestDistinctValue_AddAsString` expects exactly that); the
separation theorem therefore carries the explicit hypothesis `RenderInj`: among the values
involved, different values have different renderings.  For integers of any Go integer type the
modelled rendering is injective in the number (`render_int_inj`), so e.g. `int64 -1` and
`uint64 2^64-1` must get different keys.

History: before commit a1a4703 the value `""` was never written (`prevStr` started as `""`), so
`{"", "a"}` and `{"a"}` gave the same key and `KeySeparates` was refuted.  The repaired loop
(`j == 0 || str != values[j-1]`) writes it, and `key_separates` below is the full statement.
-/
namespace Refinery.Props.C11
open Refinery Refinery.Model.TraceKey

/-- `maxKeyLength` and `config.RootPrefix` of the compiled code -/
def codeCap : Nat := Gen.Tracekey.maxKeyLength.toNat
def codePrefix : String := Gen.Tracekey.rootPrefix

/-- "fewer than `cap` distinct values are involved" -/
def BelowCap (cap : Nat) (pre : String) (x : Render) (c : Cfg) (spans : List Span) : Prop :=
  distinctTotal x.conv spans (nonRootFields pre c) < cap

instance (cap pre x c spans) : Decidable (BelowCap cap pre x c spans) := by
  unfold BelowCap; infer_instance

/-! ## the key is a function of the value sets -/

/-- **key_determined** — below the cap, the key (and the value count) depends only on: the *set* of
values each non-root field takes across the spans, the root span, and the number of spans if
`UseTraceLength` is set. -/
theorem key_determined (cap : Nat) (pre : String) (x : Render) (c : Cfg) (t₁ t₂ : Trace)
    (hroot : t₁.root = t₂.root)
    (hlen : c.useTraceLength = true → t₁.spans.length = t₂.spans.length)
    (hset : ∀ f ∈ nonRootFields pre c,
      SameSet (fieldVals x.conv t₁.spans f) (fieldVals x.conv t₂.spans f))
    (hcap : BelowCap cap pre x c t₁.spans) :
    build cap pre x c t₁ = build cap pre x c t₂ := by
  unfold BelowCap at hcap
  have hcap2 : distinctTotal x.conv t₂.spans (nonRootFields pre c) < cap := by
    rw [← distinctTotal_congr _ hset]; exact hcap
  have hl : renderLen c t₁.spans = renderLen c t₂.spans := by
    unfold renderLen
    cases h : c.useTraceLength
    · rfl
    · simp [hlen h]
  unfold build
  rw [collect_below _ _ _ _ 0 (by omega), collect_below _ _ _ _ 0 (by omega),
    renderGroups_congr _ hset, hroot, hl]

/-- **perm_invariant** — reordering the spans in any way does not change the key while fewer
than `cap` distinct values are involved. -/
theorem perm_invariant (cap : Nat) (pre : String) (x : Render) (c : Cfg) (root : Option Span)
    (s₁ s₂ : List Span) (h : s₁.Perm s₂) (hcap : BelowCap cap pre x c s₁) :
    build cap pre x c ⟨s₁, root⟩ = build cap pre x c ⟨s₂, root⟩ :=
  key_determined cap pre x c ⟨s₁, root⟩ ⟨s₂, root⟩ rfl (fun _ => h.length_eq)
    (fun _ _ _ => (h.filterMap _).mem_iff) hcap

theorem sameSet_dup (conv : Val → String) (l₁ l₂ : List Span) (sp : Span) (hmem : sp ∈ l₁ ++ l₂)
    (f : String) : SameSet (fieldVals conv (l₁ ++ sp :: l₂) f) (fieldVals conv (l₁ ++ l₂) f) := by
  intro s
  simp only [fieldVals, List.mem_filterMap, List.mem_append, List.mem_cons] at hmem ⊢
  constructor
  · rintro ⟨a, (h | h | h), ha⟩
    · exact ⟨a, Or.inl h, ha⟩
    · subst h; exact ⟨a, hmem, ha⟩
    · exact ⟨a, Or.inr h, ha⟩
  · rintro ⟨a, (h | h), ha⟩
    · exact ⟨a, Or.inl h, ha⟩
    · exact ⟨a, Or.inr (Or.inr h), ha⟩

/-- **dup_invariant** — inserting, at any position, a copy of a span the trace already has does
not change the key (below the cap; `UseTraceLength` off — with it on, the span count is part of
the key by definition, see `dup_changes_only_length`). -/
theorem dup_invariant (cap : Nat) (pre : String) (x : Render) (c : Cfg) (root : Option Span)
    (l₁ l₂ : List Span) (sp : Span) (hmem : sp ∈ l₁ ++ l₂) (htl : c.useTraceLength = false)
    (hcap : BelowCap cap pre x c (l₁ ++ l₂)) :
    build cap pre x c ⟨l₁ ++ sp :: l₂, root⟩ = build cap pre x c ⟨l₁ ++ l₂, root⟩ :=
  (key_determined cap pre x c ⟨l₁ ++ l₂, root⟩ ⟨l₁ ++ sp :: l₂, root⟩ rfl
    (fun h => by simp [htl] at h)
    (fun f _ s => (sameSet_dup x.conv l₁ l₂ sp hmem f s).symm) hcap).symm

/-- The key is `body ++ span count`, the body not depending on `UseTraceLength`. -/
theorem key_eq_body_append_len (cap : Nat) (pre : String) (x : Render) (c : Cfg) (t : Trace) :
    key cap pre x c t =
      key cap pre x { c with useTraceLength := false } t ++ (renderLen c t.spans).1 := by
  simp [key, build, nonRootFields, rootFields, renderLen]

/-- **dup_invariant with `UseTraceLength`** — duplicating a span changes nothing but the span
count at the end of the key. -/
theorem dup_changes_only_length (cap : Nat) (pre : String) (x : Render) (c : Cfg) (root : Option Span)
    (l₁ l₂ : List Span) (sp : Span) (hmem : sp ∈ l₁ ++ l₂) (htl : c.useTraceLength = true)
    (hcap : BelowCap cap pre x c (l₁ ++ l₂)) :
    ∃ body, key cap pre x c ⟨l₁ ++ l₂, root⟩ = body ++ toString (l₁ ++ l₂).length ∧
      key cap pre x c ⟨l₁ ++ sp :: l₂, root⟩ = body ++ toString ((l₁ ++ l₂).length + 1) := by
  refine ⟨key cap pre x { c with useTraceLength := false } ⟨l₁ ++ l₂, root⟩, ?_, ?_⟩
  · rw [key_eq_body_append_len]; simp [renderLen, htl]
  · rw [key_eq_body_append_len]
    have := dup_invariant cap pre x { c with useTraceLength := false } root l₁ l₂ sp hmem rfl
      (by simpa [BelowCap, nonRootFields] using hcap)
    simp only [key, this]
    simp [renderLen, htl, Nat.add_assoc]

/-- The configured order of the field list does not matter (`newTraceKey` sorts it). -/
theorem field_order_invariant (cap : Nat) (pre : String) (x : Render) (f₁ f₂ : List String) (tl : Bool)
    (t : Trace) (h : f₁.Perm f₂) : build cap pre x ⟨f₁, tl⟩ t = build cap pre x ⟨f₂, tl⟩ t := by
  simp [build, nonRootFields, rootFields, renderLen, sortStr_eq_of_perm h]

/-! ## separation -/

/-- rendering of a root-only field: read from the root span, nowhere else -/
def rootVal (fmtv : Val → String) (root : Option Span) (f : String) : Option String :=
  root.bind fun r => (r.lookup f).map fmtv

/-- The hypotheses of the separation claim on one trace: below the cap, every configured field
present (non-root fields on some span, root fields on the root span), every value free of the two
key delimiters `•` and `,`. -/
structure Admissible (cap : Nat) (pre : String) (x : Render) (c : Cfg) (t : Trace) : Prop where
  belowCap : BelowCap cap pre x c t.spans
  present : ∀ f ∈ nonRootFields pre c, fieldVals x.conv t.spans f ≠ []
  rootPresent : ∀ f ∈ rootFields pre c, (rootVal x.fmtv t.root f).isSome = true
  delimFree : ∀ f ∈ nonRootFields pre c, ∀ s ∈ fieldVals x.conv t.spans f, DelimFree s
  rootDelimFree : ∀ f ∈ rootFields pre c, ∀ s ∈ (rootVal x.fmtv t.root f).toList, DelimFree s

/-- some field's value set differs -/
def Differ (pre : String) (x : Render) (c : Cfg) (t₁ t₂ : Trace) : Prop :=
  (∃ f ∈ nonRootFields pre c, ¬ SameSet (fieldVals x.conv t₁.spans f) (fieldVals x.conv t₂.spans f)) ∨
  (∃ f ∈ rootFields pre c, rootVal x.fmtv t₁.root f ≠ rootVal x.fmtv t₂.root f)

/-- separation stated on renderings (internal step; the property's statement is `KeySeparates`) -/
def KeySeparatesRenderings (cap : Nat) (pre : String) : Prop :=
  ∀ (x : Render) (c : Cfg) (t₁ t₂ : Trace),
    Admissible cap pre x c t₁ → Admissible cap pre x c t₂ → Differ pre x c t₁ t₂ →
    key cap pre x c t₁ ≠ key cap pre x c t₂

/-- the logical value of a root-only field: read from the root span, nowhere else -/
def rootLogical (root : Option Span) (f : String) : Option Val := root.bind fun r => r.lookup f

/-- some field's set of LOGICAL values differs -/
def DifferLogical (pre : String) (c : Cfg) (t₁ t₂ : Trace) : Prop :=
  (∃ f ∈ nonRootFields pre c, ¬ SameSet (fieldLogical t₁.spans f) (fieldLogical t₂.spans f)) ∨
  (∃ f ∈ rootFields pre c, rootLogical t₁.root f ≠ rootLogical t₂.root f)

/-- Among the values the two traces have in one key field, different values render differently
(the key is text: `int64 1` and `"1"` in the same field are indistinguishable by design). -/
def RenderInj (pre : String) (x : Render) (c : Cfg) (t₁ t₂ : Trace) : Prop :=
  (∀ f ∈ nonRootFields pre c, ∀ v ∈ fieldLogical t₁.spans f ++ fieldLogical t₂.spans f,
     ∀ w ∈ fieldLogical t₁.spans f ++ fieldLogical t₂.spans f, x.conv v = x.conv w → v = w) ∧
  (∀ f ∈ rootFields pre c, ∀ v w, rootLogical t₁.root f = some v → rootLogical t₂.root f = some w →
     x.fmtv v = x.fmtv w → v = w)

/-- **key_separates, full statement**: traces whose fields are all present and differ in some
field's set of (logical) values — values whose renderings are free of the key delimiters and
pairwise different — get different keys. -/
def KeySeparates (cap : Nat) (pre : String) : Prop :=
  ∀ (x : Render) (c : Cfg) (t₁ t₂ : Trace),
    Admissible cap pre x c t₁ → Admissible cap pre x c t₂ → RenderInj pre x c t₁ t₂ →
    DifferLogical pre c t₁ t₂ → key cap pre x c t₁ ≠ key cap pre x c t₂

/-! The former counterexample: one key field `f`; trace 1 has spans with `f=""` and `f="a"`,
trace 2 has `f="a"` twice.  The keys are now `•a•,2` and `a•,2`. -/
def we : Ext := ⟨fun _ r => r, fun _ r => r⟩
def wx : Render := renderOf we
def wc : Cfg := ⟨["f"], true⟩
def wt₁ : Trace := ⟨[[("f", .str "")], [("f", .str "a")]], none⟩
def wt₂ : Trace := ⟨[[("f", .str "a")], [("f", .str "a")]], none⟩

example : build codeCap codePrefix wx wc wt₁ = ("•a•,2", 3) := by decide
example : build codeCap codePrefix wx wc wt₂ = ("a•,2", 2) := by decide
example : Admissible codeCap codePrefix wx wc wt₁ :=
  ⟨by decide, by decide, by decide, by decide, by decide⟩

theorem renderRoot_cons_some {fmtv : Val → String} {root : Option Span} {f s : String}
    (fs : List String) (h : rootVal fmtv root f = some s) :
    (renderRoot fmtv root (f :: fs)).1 = s ++ "," ++ (renderRoot fmtv root fs).1 := by
  cases root with
  | none => simp [rootVal] at h
  | some r =>
    simp only [rootVal, Option.bind_some] at h
    cases hl : r.lookup f with
    | none => simp [hl] at h
    | some v =>
      simp only [hl, Option.map_some, Option.some.injEq] at h
      simp [renderRoot, hl, h]

/-- the groups of the non-root fields can be parsed back from the key -/
theorem groups_inj {conv : Val → String} {s₁ s₂ : List Span} (fs : List String) {X₁ X₂ : List Char}
    (hp₁ : ∀ f ∈ fs, fieldVals conv s₁ f ≠ []) (hp₂ : ∀ f ∈ fs, fieldVals conv s₂ f ≠ [])
    (hd₁ : ∀ f ∈ fs, ∀ s ∈ fieldVals conv s₁ f, DelimFree s)
    (hd₂ : ∀ f ∈ fs, ∀ s ∈ fieldVals conv s₂ f, DelimFree s)
    (h : (renderGroups (fs.map (distinctVals conv s₁))).1.toList ++ X₁ =
         (renderGroups (fs.map (distinctVals conv s₂))).1.toList ++ X₂) :
    (∀ f ∈ fs, SameSet (fieldVals conv s₁ f) (fieldVals conv s₂ f)) ∧ X₁ = X₂ := by
  induction fs with
  | nil => simpa [renderGroups] using h
  | cons f fs ih =>
    have hm := @List.mem_cons_self _ f fs
    have chars : ∀ (sp : List Span), fieldVals conv sp f ≠ [] →
        (renderGroup (distinctVals conv sp f)).1.toList =
          bullets (sortStr (distinctVals conv sp f)) ++ [','] := by
      intro sp hne
      apply renderGroup_chars
      · intro e
        obtain ⟨a, ha⟩ := List.exists_mem_of_ne_nil _ hne
        have := (mem_distinctVals conv sp f a).mpr ha
        rw [e] at this; simp at this
      · exact distinctVals_nodup _ _ _
    simp only [List.map_cons, renderGroups, String.toList_append] at h
    rw [chars s₁ (hp₁ f hm), chars s₂ (hp₂ f hm)] at h
    simp only [List.append_assoc, List.singleton_append] at h
    have h1 := bullets_inj
      (fun s m => hd₁ f hm s (by rwa [mem_sortStr, mem_distinctVals] at m))
      (fun s m => hd₂ f hm s (by rwa [mem_sortStr, mem_distinctVals] at m)) h
    have h2 := ih (fun g hg => hp₁ g (List.mem_cons_of_mem _ hg)) (fun g hg => hp₂ g (List.mem_cons_of_mem _ hg))
      (fun g hg => hd₁ g (List.mem_cons_of_mem _ hg)) (fun g hg => hd₂ g (List.mem_cons_of_mem _ hg)) h1.2
    refine ⟨?_, h2.2⟩
    intro g hg
    rcases List.mem_cons.mp hg with rfl | hg
    · intro s
      rw [← mem_distinctVals, ← mem_distinctVals, ← mem_sortStr s (distinctVals conv s₁ g),
        ← mem_sortStr s (distinctVals conv s₂ g), h1.1]
    · exact h2.1 g hg

/-- the root-only values can be parsed back from the key -/
theorem root_inj {fmtv : Val → String} {r₁ r₂ : Option Span} (fs : List String) {Y₁ Y₂ : List Char}
    (hp₁ : ∀ f ∈ fs, (rootVal fmtv r₁ f).isSome = true) (hp₂ : ∀ f ∈ fs, (rootVal fmtv r₂ f).isSome = true)
    (hd₁ : ∀ f ∈ fs, ∀ s ∈ (rootVal fmtv r₁ f).toList, DelimFree s)
    (hd₂ : ∀ f ∈ fs, ∀ s ∈ (rootVal fmtv r₂ f).toList, DelimFree s)
    (h : (renderRoot fmtv r₁ fs).1.toList ++ Y₁ = (renderRoot fmtv r₂ fs).1.toList ++ Y₂) :
    (∀ f ∈ fs, rootVal fmtv r₁ f = rootVal fmtv r₂ f) ∧ Y₁ = Y₂ := by
  induction fs with
  | nil => simpa [renderRoot] using h
  | cons f fs ih =>
    have hm := @List.mem_cons_self _ f fs
    obtain ⟨a, ha⟩ := Option.isSome_iff_exists.mp (hp₁ f hm)
    obtain ⟨b, hb⟩ := Option.isSome_iff_exists.mp (hp₂ f hm)
    rw [renderRoot_cons_some fs ha, renderRoot_cons_some fs hb] at h
    simp only [String.toList_append, List.append_assoc] at h
    have hc : (",":String).toList = [','] := by decide
    rw [hc] at h
    simp only [List.singleton_append] at h
    have h1 := split_unique (hd₁ f hm a (by simp [ha])).2 (hd₂ f hm b (by simp [hb])).2 h
    have h2 := ih (fun g hg => hp₁ g (List.mem_cons_of_mem _ hg)) (fun g hg => hp₂ g (List.mem_cons_of_mem _ hg))
      (fun g hg => hd₁ g (List.mem_cons_of_mem _ hg)) (fun g hg => hd₂ g (List.mem_cons_of_mem _ hg)) h1.2
    refine ⟨?_, h2.2⟩
    intro g hg
    rcases List.mem_cons.mp hg with rfl | hg
    · rw [ha, hb, String.toList_inj.mp h1.1]
    · exact h2.1 g hg

/-- Equal keys of admissible traces ⇒ equal value sets. -/
theorem value_sets_of_key (cap : Nat) (pre : String) (x : Render) (c : Cfg) (t₁ t₂ : Trace)
    (a₁ : Admissible cap pre x c t₁) (a₂ : Admissible cap pre x c t₂)
    (h : key cap pre x c t₁ = key cap pre x c t₂) :
    (∀ f ∈ nonRootFields pre c, SameSet (fieldVals x.conv t₁.spans f) (fieldVals x.conv t₂.spans f)) ∧
    (∀ f ∈ rootFields pre c, rootVal x.fmtv t₁.root f = rootVal x.fmtv t₂.root f) := by
  have b₁ := a₁.belowCap
  have b₂ := a₂.belowCap
  unfold BelowCap at b₁ b₂
  have h' := congrArg String.toList h
  simp only [key, build] at h'
  rw [collect_below _ _ _ _ 0 (by omega), collect_below _ _ _ _ 0 (by omega)] at h'
  simp only [String.toList_append, List.append_assoc] at h'
  have g := groups_inj (nonRootFields pre c) a₁.present a₂.present a₁.delimFree a₂.delimFree h'
  have r := root_inj (rootFields pre c) a₁.rootPresent a₂.rootPresent a₁.rootDelimFree a₂.rootDelimFree g.2
  exact ⟨g.1, r.1⟩

theorem key_separates_renderings (cap : Nat) (pre : String) : KeySeparatesRenderings cap pre := by
  intro x c t₁ t₂ a₁ a₂ hd h
  have v := value_sets_of_key cap pre x c t₁ t₂ a₁ a₂ h
  rcases hd with ⟨f, hf, hne⟩ | ⟨f, hf, hne⟩
  · exact hne (v.1 f hf)
  · exact hne (v.2 f hf)

theorem fieldVals_eq_map (conv : Val → String) (spans : List Span) (f : String) :
    fieldVals conv spans f = (fieldLogical spans f).map conv := by
  simp [fieldVals, fieldLogical, List.map_filterMap]

theorem rootVal_eq_map (fmtv : Val → String) (root : Option Span) (f : String) :
    rootVal fmtv root f = (rootLogical root f).map fmtv := by
  cases root <;> simp [rootVal, rootLogical]

/-- **key_separates** — the full statement, for every cap, root prefix and rendering (the code's
included): traces whose fields are all present and differ in some field's set of logical values
get different keys, provided the values' renderings are free of `•` and `,` (the empty string
allowed), pairwise different for different values, and fewer than `cap` distinct values are
involved. -/
theorem key_separates (cap : Nat) (pre : String) : KeySeparates cap pre := by
  intro x c t₁ t₂ a₁ a₂ hinj hd h
  have v := value_sets_of_key cap pre x c t₁ t₂ a₁ a₂ h
  rcases hd with ⟨f, hf, hne⟩ | ⟨f, hf, hne⟩
  · apply hne
    have hs := v.1 f hf
    rw [fieldVals_eq_map, fieldVals_eq_map] at hs
    have hi := hinj.1 f hf
    intro u
    constructor
    · intro hu
      obtain ⟨w, hw, e⟩ := List.mem_map.mp ((hs (x.conv u)).mp (List.mem_map.mpr ⟨u, hu, rfl⟩))
      have := hi w (List.mem_append.mpr (Or.inr hw)) u (List.mem_append.mpr (Or.inl hu)) e
      exact this ▸ hw
    · intro hu
      obtain ⟨w, hw, e⟩ := List.mem_map.mp ((hs (x.conv u)).mpr (List.mem_map.mpr ⟨u, hu, rfl⟩))
      have := hi w (List.mem_append.mpr (Or.inl hw)) u (List.mem_append.mpr (Or.inr hu)) e
      exact this ▸ hw
  · apply hne
    have hs := v.2 f hf
    rw [rootVal_eq_map, rootVal_eq_map] at hs
    have p₁ := a₁.rootPresent f hf
    have p₂ := a₂.rootPresent f hf
    rw [rootVal_eq_map] at p₁ p₂
    cases h₁ : rootLogical t₁.root f with
    | none => simp [h₁] at p₁
    | some a =>
      cases h₂ : rootLogical t₂.root f with
      | none => simp [h₂] at p₂
      | some b =>
        simp only [h₁, h₂, Option.map_some, Option.some.injEq] at hs
        rw [hinj.2 f hf a b h₁ h₂ hs]

/-- The modelled rendering of integers is injective in the number, whatever the Go integer types:
different integers (e.g. `int64 -1` and `uint64 18446744073709551615`) never render alike. -/
theorem render_int_inj (e : Ext) (t₁ t₂ : String) (n m : Int)
    (h : (renderOf e).conv (.int t₁ n) = (renderOf e).conv (.int t₂ m)) : n = m :=
  Int.repr_injective h

/-- the former counterexample is separated now -/
example : key codeCap codePrefix wx wc wt₁ ≠ key codeCap codePrefix wx wc wt₂ := by decide

/-- plain renderings are fixed by the model, not taken from the code -/
example : (renderOf we).conv (.int "uint64" 18446744073709551615) = "18446744073709551615" := by decide
example : (renderOf we).conv (.int "int64" (-9223372036854775808)) = "-9223372036854775808" := by decide
example : key codeCap codePrefix wx ⟨["f"], false⟩ ⟨[[("f", .int "int64" (-1))]], none⟩ ≠
    key codeCap codePrefix wx ⟨["f"], false⟩ ⟨[[("f", .int "uint64" 18446744073709551615)]], none⟩ := by decide

/-! ## rate floor and keep draw -/

theorem decision_rate (r : Int) (intn : Nat → Nat) : (decision r intn).rate = max 1 r.toNat := by
  unfold decision
  simp only
  split <;> omega

/-- **rate_floor** — the rate `GetSampleRate` returns is at least 1, whatever dynsampler answered
(0 and negative answers included: the answer is clamped as an `int` before the conversion). -/
theorem rate_floor (r : Int) (intn : Nat → Nat) : 1 ≤ (decision r intn).rate := by
  rw [decision_rate]; omega

/-- An answer of at least 1 is returned unchanged. -/
theorem rate_floor_exact (r : Int) (intn : Nat → Nat) (h : 1 ≤ r) :
    ((decision r intn).rate : Int) = r := by
  rw [decision_rate]; omega

/-- **never_panics** — `rand.Intn` is always called with a valid argument: `int(rate)` is the
clamped answer, positive and (for every 64-bit `int` answer) below 2^63.  The model has no panic
outcome any more; before commit 6dd5492 a negative answer made `rand.Intn` panic. -/
theorem never_panics (r : Int) (intn : Nat → Nat) (h : r < (two63 : Int)) :
    0 < (decision r intn).rate ∧ (decision r intn).rate < two63 := by
  rw [decision_rate]
  simp only [two63] at *
  omega

/-- **keep_iff_draw_zero** — the trace is kept exactly when `rand.Intn(rate)` drew 0. -/
theorem keep_iff_draw_zero (r : Int) (intn : Nat → Nat) :
    (decision r intn).keep = true ↔ intn (decision r intn).rate = 0 := by
  simp [decision]

theorem countP_eq_zero_range (n : Nat) : (List.range n).countP (fun d => d == 0) = if n = 0 then 0 else 1 := by
  induction n with
  | zero => rfl
  | succ k ih =>
    rw [List.range_succ, List.countP_append, ih]
    cases k with
    | zero => rfl
    | succ j => simp

/-- **keeps with probability 1/rate** — of the `rate` equally likely values `rand.Intn(rate)` can
return, exactly one keeps the trace. -/
theorem keep_one_in_rate (r : Int) :
    (List.range (decision r (fun _ => 0)).rate).countP (fun d => (decision r (fun _ => d)).keep) = 1 := by
  have h1 := rate_floor r (fun _ => 0)
  have hk : ∀ d, (decision r (fun _ => d)).keep = (d == 0) := by intro d; simp [decision]
  simp only [hk]
  rw [countP_eq_zero_range]
  split <;> omega

/-- `GetSampleRate` as a whole: the key handed to dynsampler and returned is the trace key, and
the floor / keep claims hold for whatever dynsampler (`dyn`) and `rand.Intn` (`intn`) do. -/
theorem getSampleRate_spec (cap : Nat) (pre : String) (x : Render) (c : Cfg) (t : Trace)
    (dyn : String → Nat → Int) (intn : Nat → Nat) :
    let res := getSampleRate cap pre x c t dyn intn
    res.1 = key cap pre x c t ∧ 1 ≤ res.2.rate ∧ (res.2.keep = true ↔ intn res.2.rate = 0) :=
  ⟨rfl, rate_floor _ _, keep_iff_draw_zero _ _⟩

/-! ## non-vacuity: concrete traces evaluated by the kernel -/

def ex : Render := ⟨(renderOf we).conv, fun v => "<" ++ (renderOf we).fmtv v ++ ">"⟩
def ec : Cfg := ⟨["root.svc", "status", "path"], true⟩
def sA : Span := [("status", .int "int" 200), ("path", .str "/x"), ("svc", .str "ignored")]
def sB : Span := [("status", .int "int" 404)]
def sR : Span := [("svc", .str "api"), ("status", .int "int" 200)]

example : build codeCap codePrefix ex ec ⟨[sA, sB, sR], some sR⟩ = ("/x•,200•404•,<api>,3", 5) := by decide
example : build codeCap codePrefix ex ec ⟨[sR, sB, sA], some sR⟩ = ("/x•,200•404•,<api>,3", 5) := by decide
example : BelowCap codeCap codePrefix ex ec [sA, sB, sR] := by decide
example : build codeCap codePrefix ex ⟨["status"], false⟩ ⟨[sA, sB, sA, sR], none⟩ = ("200•404•,", 2) := by decide
example : build codeCap codePrefix ex ⟨["status"], false⟩ ⟨[sB, sA], none⟩ = ("200•404•,", 2) := by decide
-- the cap at work (cap 3: the third distinct value is counted but not stored, then the loop stops)
example : build 3 codePrefix ex ⟨["status"], false⟩
    ⟨[[("status", .int "int" 1)], [("status", .int "int" 2)], [("status", .int "int" 3)], [("status", .int "int" 4)]], none⟩
    = ("1•2•,", 2) := by decide
example : Admissible codeCap codePrefix ex ec ⟨[sA, sB, sR], some sR⟩ :=
  ⟨by decide, by decide, by decide, by decide, by decide⟩
example : key codeCap codePrefix ex ec ⟨[sA, sR], some sR⟩ ≠ key codeCap codePrefix ex ec ⟨[sA, sB, sR], some sR⟩ := by decide
example : decision 0 (fun _ => 0) = ⟨1, true⟩ := by decide
example : decision 10 (fun _ => 3) = ⟨10, false⟩ := by decide
example : decision (-1) (fun _ => 0) = ⟨1, true⟩ := by decide

end Refinery.Props.C11
