import Refinery.Model.Convert
/-!
# C38 — the config converter preserves valid v1 settings   (partial: see `Model/Convert.lean`)

Statement (properties.jsonl): converting a valid Refinery v1 config or rules file yields a v2 file
that passes v2 validation, in which every non-default v1 setting that still exists in v2 has the
same effective value.

The code does **not** satisfy this at full strength (`full_statement_refuted`,
`file_statement_refuted`, `rules_statement_refuted`: witnesses reproduced on the real converter by
the harness).  What holds is proved under three explicit hypotheses: text the converter writes
without quotes is read back by YAML as that string (`safe`), an explicit zero is only given where
zero is the loader's default (`zeroOK`), and the file has no key of a since-deprecated field.
-/
namespace Refinery.Props.C38
open Refinery Refinery.Model.Convert

/-! ## obligations on the regenerated tables (they break when template / metadata / structs change) -/

/-- **table_total** — every action of the embedded template is a helper the model knows: a new
helper in the template breaks this obligation instead of being silently skipped. -/
theorem table_total :
    Gen.Convert.rows.all (fun t => Helper.ofName t.2.2.2.1 != .unknown) = true := by decide

/-- every row's field type (configMeta.yaml) is one the model knows -/
theorem table_types_known :
    Gen.Convert.rows.all (fun t => FType.ofName t.2.2.2.2.2.2.1 != .other) = true := by decide

/-- **table_defaults_agree** — for every `nonDefaultOnly` / `choice` row the default written in the
template (the value at which the setting is *omitted*) is the default the v2 loader applies. -/
theorem table_defaults_agree :
    Gen.Convert.rows.all (fun t =>
      let h := Helper.ofName t.2.2.2.1
      (h != .nonDefaultOnly && h != .choice) ||
        Eff.ofTuple t.2.2.2.2.2.2.2.2 == Eff.ofTuple t.2.2.2.2.2.2.2.1) = true := by decide

/-- every unit `MemorySize.MarshalText` prints is read back by `UnmarshalText` with the same scalar -/
theorem mem_units_consistent :
    Gen.Convert.memUnits.all (fun u => u.1 == u.2.2 && 0 < u.1) = true := by decide

/-- the targets of the two renames of `transformSamplerMap` exist and are durations in every
sampler struct that has them -/
theorem rules_rename_targets :
    Gen.Convert.samplerFields.all (fun f =>
      (f.2.1 != "clearfrequency" && f.2.1 != "adjustmentinterval") || f.2.2.2.1 == "dur") = true := by decide

/-- which field types a helper can carry (a `nonZero` on a default-true flag, or a scalar helper on
a list, would not preserve the value) -/
def helperTypeOK : Helper → FType → Bool
  | .nonDefaultOnly, ft => ft != .stringarray && ft != .map && ft != .other
  | .nonEmptyString, ft => ft == .string || ft == .hostport || ft == .url
  | .nonZero, ft => ft != .defaulttrue && ft != .stringarray && ft != .map && ft != .other
  | .secondsToDuration, ft => ft == .duration
  | .memorysize, ft => ft == .memorysize
  | .choice, ft => ft == .string
  | .renderStringarray, ft => ft == .stringarray
  | .renderMap, ft => ft == .map
  | _, _ => true

/-- **table_helper_types** — every row of the template uses a helper that fits its field's type -/
theorem table_helper_types :
    Gen.Convert.rows.all (fun t => helperTypeOK (Helper.ofName t.2.2.2.1) (FType.ofName t.2.2.2.2.2.2.1)) = true := by
  decide

/-! ## vocabulary of the property -/

/-- the v1 value has the type of the field -/
def typed (x : Ext) : FType → V1 → Bool
  | .string, .str _ | .hostport, .str _ | .url, .str _ => true
  | .int, .int _ => true
  | .percentage, .int n => n ≤ 100
  | .bool, .bool _ | .defaulttrue, .bool _ => true
  | .duration, .str s => (x.dur s).isSome
  | .memorysize, .int _ => true
  | .stringarray, .strs _ => true
  | .map, .tbl _ => true
  | _, _ => false

/-- a text is either quoted by `yamlf` or read back by YAML as the same string -/
def safeStr (fx : Fixes) (x : Ext) (s : String) : Prop := isPlainFx fx s = true → x.yaml s = .str

/-- text the converter writes without quotes is read back as the same string -/
def safe (fx : Fixes) (x : Ext) : V1 → Prop
  | .str s => safeStr fx x s
  | .strs l => if fx.items then ∀ s ∈ l, safeStr fx x s else ∀ s ∈ l, x.yaml s = .str
  | .tbl kv => ∀ p ∈ kv, safeStr fx x p.1 ∧ safeStr fx x p.2
  | _ => True

/-- YAML's core schema as far as the repaired `yamlf` relies on it: a letter followed by letters and
digits that is not one of the reserved words is a string.  (Checked on every string of every
generated case by the harness' `yaml` ext lines.) -/
def coreSchema (x : Ext) : Prop := ∀ s, isPlainFixed s = true → x.yaml s = .str

/-- an explicit zero is given only where zero is what the loader defaults to -/
def zeroOK (r : Row) (e : Eff) : Prop := isZeroEff r.ftype e = true → r.ldef = e

def unitsOK (units : List (Nat × String × Nat)) : Prop := ∀ u ∈ units, u.1 = u.2.2 ∧ 0 < u.1

theorem gen_units_ok : unitsOK Gen.Convert.memUnits := by
  intro u hu
  have h := List.all_eq_true.mp mem_units_consistent u hu
  simp only [Bool.and_eq_true, beq_iff_eq, decide_eq_true_eq] at h
  exact h

/-! ## `yamlf`, `MemorySize` and the loader -/

theorem readPlain_of_str (x : Ext) (s : String) (h : x.yaml s = .str) : readPlain x s = some s := by
  simp [readPlain, h]

theorem readText_of_safe (fx : Fixes) (x : Ext) (s : String) (h : safeStr fx x s) :
    readText x (s, !isPlainFx fx s) = some s := by
  cases hp : isPlainFx fx s
  · simp [readText]
  · simp [readText, readPlain_of_str x s (h hp)]

theorem allSome_map {α β : Type} (l : List α) (f : α → Option β) (g : α → β)
    (h : ∀ a ∈ l, f a = some (g a)) : allSome (l.map f) = some (l.map g) := by
  induction l with
  | nil => rfl
  | cons a t ih =>
    have ha := h a (List.mem_cons_self ..)
    have ht := ih (fun b hb => h b (List.mem_cons_of_mem _ hb))
    simp [allSome, ha, ht]

theorem yaml_text_roundtrip (fx : Fixes) (x : Ext) (s : String) (h : safe fx x (.str s)) :
    yamlOf x (yamlf fx (.str s)) = .str s := by
  simp only [yamlf, yamlOf, readText_of_safe fx x s h]

/-- `MemorySize.MarshalText` followed by `UnmarshalText` is the identity (units as regenerated) -/
theorem mem_roundtrip (x : Ext) (units : List (Nat × String × Nat)) (hu : unitsOK units) (m : Nat) :
    yamlOf x (marshalMem units m) = .memtext m := by
  unfold marshalMem
  split
  · next h => simp [yamlOf, h]
  · split
    · next u hf =>
      have hmem := List.mem_of_find?_eq_some hf
      have hp := List.find?_some hf
      simp only [beq_iff_eq] at hp
      obtain ⟨h1, _⟩ := hu u hmem
      simp only [yamlOf]
      rw [← h1, Nat.div_mul_cancel (Nat.dvd_of_mod_eq_zero hp)]
    · simp [yamlOf]

theorem expected_of_ne (x : Ext) (r : Row) (v : V1) (hh : r.helper ≠ .secondsToDuration) :
    expected x r v = expectedBase x r.ftype v := by
  unfold expected
  cases hr : r.helper <;> cases v <;> simp_all

theorem applyDefault_of_zeroOK (r : Row) (e : Eff) (hz : zeroOK r e) :
    applyDefault r.ftype r.ldef e = e := by
  unfold applyDefault
  by_cases h : isZeroEff r.ftype e = true
  · rw [if_pos h]; exact hz h
  · rw [if_neg h]

/-- what `yamlf` writes for a value of the field's type is decoded to that value -/
theorem decode_yamlf (fx : Fixes) (x : Ext) (ft : FType) (v : V1) (hft : ft ≠ .stringarray) (hfm : ft ≠ .map)
    (hv : typed x ft v = true) (hs : safe fx x v) :
    decode x ft (yamlOf x (yamlf fx v)) = expectedBase x ft v := by
  cases ft <;> cases v <;> simp [typed] at hv hft hfm
  case string.str s | hostport.str s | url.str s =>
    rw [yaml_text_roundtrip fx x s hs]; simp [decode, expectedBase]
  case int.int n | bool.bool b | defaulttrue.bool b | memorysize.int n =>
    simp [yamlf, yamlOf, decode, expectedBase]
  case percentage.int n =>
    simp [yamlf, yamlOf, decode, expectedBase, hv]
  case duration.str s =>
    rw [yaml_text_roundtrip fx x s hs]
    obtain ⟨ns, hns⟩ := Option.isSome_iff_exists.mp hv
    simp [decode, expectedBase, hns]

/-! ## convert_preserves, per helper kind -/

/-- an active line written by `yamlf` is read back as the v1 value -/
theorem line_preserves (fx : Fixes) (x : Ext) (r : Row) (v : V1)
    (hh : r.helper ≠ .secondsToDuration) (hft : r.ftype ≠ .stringarray) (hfm : r.ftype ≠ .map)
    (hv : typed x r.ftype v = true) (hs : safe fx x v) (hz : zeroOK r (expected x r v)) :
    effective x r (.line (yamlf fx v)) = expected x r v := by
  rw [expected_of_ne x r v hh] at hz ⊢
  simp only [effective, decode_yamlf fx x r.ftype v hft hfm hv hs]
  exact applyDefault_of_zeroOK r _ hz

/-- two values of the field's type that print alike (`_equivalent`) are the same setting -/
theorem equivalent_expected (x : Ext) (ft : FType) (v d : V1) (hft : ft ≠ .stringarray) (hfm : ft ≠ .map)
    (hv : typed x ft v = true) (hd : typed x ft d = true) (he : equivalent x v d = true) :
    expectedBase x ft v = expectedBase x ft d := by
  cases ft <;> cases v <;> cases d <;> simp [typed] at hv hd hft hfm <;>
    simp [equivalent, fmtV] at he <;> try (subst he; rfl)
  all_goals (rename_i a b; cases a <;> cases b <;> simp_all)

/-- **convert_preserves (nonDefaultOnly)** — for every v1 value of the field's type the loaded v2
value is the v1 value: when it differs from the template default it is written and read back,
when it equals the default the line is omitted and the loader default (= template default,
`table_defaults_agree`) applies. -/
theorem convert_preserves_nonDefaultOnly (fx : Fixes) (x : Ext) (r : Row) (v dflt : V1)
    (hh : r.helper ≠ .secondsToDuration) (hft : r.ftype ≠ .stringarray) (hfm : r.ftype ≠ .map)
    (hv : typed x r.ftype v = true) (hd : typed x r.ftype dflt = true)
    (hdef : r.ldef = expected x r dflt)
    (hs : safe fx x v) (hz : zeroOK r (expected x r v)) :
    effective x r (nonDefaultOnly fx x (some v) dflt) = expected x r v := by
  unfold nonDefaultOnly
  by_cases he : equivalent x v dflt = true
  · simp only [he, if_true, effective, hdef]
    rw [expected_of_ne x r _ hh, expected_of_ne x r _ hh]
    exact (equivalent_expected x r.ftype v dflt hft hfm hv hd he).symm
  · simp only [he]
    exact line_preserves fx x r v hh hft hfm hv hs hz

/-- **default_omitted** — a v1 value equal to the template default produces no output line, so the
v2 loader's default applies; by `table_defaults_agree` that is the same value. -/
theorem default_omitted (fx : Fixes) (x : Ext) (r : Row) (v dflt : V1) (he : equivalent x v dflt = true) :
    nonDefaultOnly fx x (some v) dflt = .comment ∧
      effective x r (nonDefaultOnly fx x (some v) dflt) = r.ldef := by
  simp [nonDefaultOnly, he, effective]

/-- **convert_preserves (nonEmptyString)** — string-typed fields: the empty string is left to the
loader default, everything else is written and read back. -/
theorem convert_preserves_nonEmptyString (fx : Fixes) (x : Ext) (r : Row) (v : V1)
    (hh : r.helper ≠ .secondsToDuration)
    (hft : r.ftype = .string ∨ r.ftype = .hostport ∨ r.ftype = .url)
    (hv : typed x r.ftype v = true) (hs : safe fx x v) (hz : zeroOK r (expected x r v)) :
    effective x r (nonEmptyString fx (some v)) = expected x r v := by
  have hna : r.ftype ≠ .stringarray := by rcases hft with h | h | h <;> simp [h]
  have hnm : r.ftype ≠ .map := by rcases hft with h | h | h <;> simp [h]
  unfold nonEmptyString
  by_cases he : v = .str ""
  · subst he
    simp only [if_true, effective]
    unfold zeroOK at hz
    rw [expected_of_ne x r _ hh] at hz ⊢
    rcases hft with h | h | h <;> simp only [h] at hz ⊢ <;>
      exact hz (by simp [expectedBase, isZeroEff])
  · simp only [he, if_false]
    exact line_preserves fx x r v hh hna hnm hv hs hz

/-- **convert_preserves (nonZero)** — a zero value is left to the loader default, everything else
is written and read back (`*DefaultTrue` flags excluded: see `helperTypeOK`). -/
theorem convert_preserves_nonZero (fx : Fixes) (x : Ext) (r : Row) (v : V1)
    (hh : r.helper ≠ .secondsToDuration) (hft : r.ftype ≠ .stringarray) (hfm : r.ftype ≠ .map)
    (hdt : r.ftype ≠ .defaulttrue)
    (hne : r.ftype = .duration → v ≠ .str "")
    (hv : typed x r.ftype v = true) (hs : safe fx x v) (hz : zeroOK r (expected x r v)) :
    effective x r (nonZero fx (some v)) = expected x r v := by
  unfold nonZero
  by_cases h0 : isZeroV1 v = true
  · simp only [h0, if_true, effective]
    unfold zeroOK at hz
    rw [expected_of_ne x r _ hh] at hz ⊢
    cases hf : r.ftype <;> cases v <;> simp [hf, typed] at hv hft hfm hdt hne <;>
      simp [isZeroV1] at h0 <;> simp only [hf] at hz <;> subst h0 <;>
      first
        | exact absurd rfl hne
        | exact hz (by simp [expectedBase, isZeroEff])
  · simp only [h0]
    exact line_preserves fx x r v hh hft hfm hv hs hz

/-- **convert_preserves (secondsToDuration)** — integer seconds `n` ↦ the duration `n` s. -/
theorem convert_preserves_secondsToDuration (x : Ext) (r : Row) (n : Nat)
    (hh : r.helper = .secondsToDuration) (hft : r.ftype = .duration)
    (hz : zeroOK r (expected x r (.int n))) :
    effective x r (secondsToDuration (some (.int n))) = expected x r (.int n) := by
  have he : expected x r (.int n) = .dur (n * 1000000000) := by simp [expected, hh]
  rw [he] at hz ⊢
  have h1 : Model.Convert.secondsToDuration (some (.int n)) = .line (.dur (n * 1000000000)) := by
    unfold Model.Convert.secondsToDuration intOf; simp
  rw [h1]
  simp only [effective, yamlOf]
  have := applyDefault_of_zeroOK r _ hz
  rw [hft] at this ⊢
  exact this

/-- **convert_preserves (memorysize)** — a byte count is printed with the largest unit that divides
it and read back as the same number of bytes. -/
theorem convert_preserves_memorysize (x : Ext) (units : List (Nat × String × Nat)) (hu : unitsOK units)
    (r : Row) (n : Nat) (hh : r.helper ≠ .secondsToDuration) (hft : r.ftype = .memorysize)
    (hz : zeroOK r (expected x r (.int n))) :
    effective x r (memorysize units (some (.int n))) = expected x r (.int n) := by
  rw [expected_of_ne x r _ hh] at hz ⊢
  simp only [hft, expectedBase] at hz ⊢
  have h1 : Model.Convert.memorysize units (some (.int n)) = .line (marshalMem units n) := by
    unfold Model.Convert.memorysize intOf; simp
  rw [h1]
  simp only [effective]
  rw [mem_roundtrip x units hu n]
  have := applyDefault_of_zeroOK r _ hz
  rw [hft] at this ⊢
  exact this

/-- **convert_preserves (choice)** — one of the listed choices is written and read back; the default
is omitted. -/
theorem convert_preserves_choice (fx : Fixes) (x : Ext) (r : Row) (s dflt : String) (choices : List String)
    (hh : r.helper ≠ .secondsToDuration) (hft : r.ftype = .string)
    (hc : s = dflt ∨ s ∈ choices) (hdef : r.ldef = .str dflt)
    (hs : safe fx x (.str s)) (hz : zeroOK r (expected x r (.str s))) :
    effective x r (choice fx x (some (.str s)) choices dflt) = expected x r (.str s) := by
  have he : expected x r (.str s) = .str s := by
    rw [expected_of_ne x r _ hh]; simp [hft, expectedBase]
  unfold choice
  simp only [fmtV]
  by_cases h1 : (s == dflt) = true
  · simp only [h1, if_true, effective, hdef, he]
    simp only [beq_iff_eq] at h1
    rw [h1]
  · have h2 : choices.any (· == s) = true := by
      simp only [beq_iff_eq] at h1
      rcases hc with h | h
      · exact absurd h h1
      · exact List.any_eq_true.mpr ⟨s, h, by simp⟩
    simp only [h1, h2, if_true]
    exact line_preserves fx x r (.str s) hh (by simp [hft]) (by simp [hft]) (by simp [hft, typed]) hs hz

/-- **convert_preserves (renderStringarray)** — a non-empty list is written item by item and read
back as the same list; an empty list is left to the loader default.  (As the code is, items are
written bare; repaired, `Fixes.items`, they go through `yamlf`.) -/
theorem convert_preserves_renderStringarray (fx : Fixes) (x : Ext) (r : Row) (l : List String)
    (hh : r.helper ≠ .secondsToDuration) (hft : r.ftype = .stringarray)
    (hs : safe fx x (.strs l)) (hz : zeroOK r (expected x r (.strs l))) :
    effective x r (renderStringarray fx (some (.strs l))) = expected x r (.strs l) := by
  rw [expected_of_ne x r _ hh] at hz ⊢
  simp only [hft, expectedBase] at hz ⊢
  cases l with
  | nil =>
    have h1 : renderStringarray fx (some (.strs [])) = .comment := by simp [renderStringarray]
    rw [h1]
    simp only [effective]
    exact hz (by simp [hft, isZeroEff])
  | cons a t =>
    cases hi : fx.items
    · -- the code as it is
      have hs' : ∀ s ∈ a :: t, x.yaml s = .str := by simpa [safe, hi] using hs
      have hall : allSome ((a :: t).map (readPlain x)) = some ((a :: t).map id) :=
        allSome_map _ _ _ (fun s hm => by simpa using readPlain_of_str x s (hs' s hm))
      have hy : yamlOf x (.items (a :: t)) = .strs (a :: t) := by
        simp only [yamlOf, hall, List.map_id]
      have h1 : renderStringarray fx (some (.strs (a :: t))) = .line (.items (a :: t)) := by
        simp [renderStringarray, hi]
      rw [h1]
      simp only [effective]
      rw [hy]
      have := applyDefault_of_zeroOK r _ hz
      rw [hft] at this ⊢
      exact this
    · -- repaired: every item through `yamlf`
      have hs' : ∀ s ∈ a :: t, safeStr fx x s := by simpa [safe, hi] using hs
      let q := (a :: t).map fun s => (s, !isPlainFx fx s)
      have hall : allSome (q.map (readText x)) = some (q.map (·.1)) := by
        apply allSome_map
        intro p hm
        obtain ⟨s, hsm, rfl⟩ := List.mem_map.mp hm
        exact readText_of_safe fx x s (hs' s hsm)
      have hq : q.map (·.1) = a :: t := by
        simp [q, List.map_map, Function.comp_def]
      have hy : yamlOf x (.qitems q) = .strs (a :: t) := by
        simp only [yamlOf, hall, hq]
      have h1 : renderStringarray fx (some (.strs (a :: t))) = .line (.qitems q) := by
        simp [renderStringarray, hi, q]
      rw [h1]
      simp only [effective]
      rw [hy]
      have := applyDefault_of_zeroOK r _ hz
      rw [hft] at this ⊢
      exact this

/-- **convert_preserves (renderMap, repaired)** — with `Fixes.renderMap` a table of strings is written
entry by entry (key and value through `yamlf`) and read back as the same table; an empty table is
left to the loader default.  (As the code is, a table makes the converter abort:
`map_setting_aborts`.) -/
theorem convert_preserves_renderMap_fixed (fx : Fixes) (x : Ext) (r : Row) (d : Data) (kv : List (String × String))
    (hfx : fx.renderMap = true)
    (hh : r.helper ≠ .secondsToDuration) (hft : r.ftype = .map)
    (hs : safe fx x (.tbl kv)) (hz : zeroOK r (expected x r (.tbl kv))) :
    effective x r (renderMap fx d r.field (some (.tbl kv))) = expected x r (.tbl kv) := by
  rw [expected_of_ne x r _ hh] at hz ⊢
  simp only [hft, expectedBase] at hz ⊢
  cases kv with
  | nil =>
    have h1 : renderMap fx d r.field (some (.tbl [])) = .comment := by simp [renderMap, hfx]
    rw [h1]
    simp only [effective]
    exact hz (by simp [hft, isZeroEff])
  | cons a t =>
    have hs' : ∀ p ∈ a :: t, safeStr fx x p.1 ∧ safeStr fx x p.2 := by simpa [safe] using hs
    let q := (a :: t).map fun p => ((p.1, !isPlainFx fx p.1), (p.2, !isPlainFx fx p.2))
    have hall : allSome (q.map (readPair x)) = some (q.map fun p => (p.1.1, p.2.1)) := by
      apply allSome_map
      intro p hm
      obtain ⟨e, hem, rfl⟩ := List.mem_map.mp hm
      obtain ⟨h1, h2⟩ := hs' e hem
      simp only [readPair, readText_of_safe fx x e.1 h1, readText_of_safe fx x e.2 h2]
    have hq : q.map (fun p => (p.1.1, p.2.1)) = a :: t := by
      simp [q, List.map_map, Function.comp_def]
    have hy : yamlOf x (.table q) = .tbl (a :: t) := by
      simp only [yamlOf, hall, hq]
    have h1 : renderMap fx d r.field (some (.tbl (a :: t))) = .line (.table q) := by
      simp [renderMap, hfx, q]
    rw [h1]
    simp only [effective]
    rw [hy]
    have := applyDefault_of_zeroOK r _ hz
    rw [hft] at this ⊢
    exact this

/-- a setting that is absent from the v1 file is left to the v2 loader's default by every helper
that carries a value -/
theorem absent_keeps_default (fx : Fixes) (x : Ext) (units : List (Nat × String × Nat)) (r : Row) (d : Data)
    (hf : fetch d r.key = none)
    (hh : r.helper = .nonDefaultOnly ∨ r.helper = .nonEmptyString ∨ r.helper = .nonZero ∨
      r.helper = .secondsToDuration ∨ r.helper = .memorysize ∨ r.helper = .choice ∨
      r.helper = .renderStringarray)
    (ha : r.helper = .nonDefaultOnly → r.arg.isSome) :
    effective x r (convertRow fx x units d r) = r.ldef := by
  unfold convertRow
  rcases hh with h | h | h | h | h | h | h <;> simp only [h, hf]
  · obtain ⟨a, ha'⟩ := Option.isSome_iff_exists.mp (ha h)
    simp [ha', nonDefaultOnly, effective]
  all_goals simp [nonEmptyString, nonZero, secondsToDuration, memorysize, choice, renderStringarray, effective]

/-! ## convert_preserves for a row of the table -/

/-- the v1 value is one the row can carry: of the field's type (integer seconds for a
`secondsToDuration` row, integer bytes for `memorysize`, a listed choice for `choice`) -/
def validFor (x : Ext) (r : Row) (v : V1) : Prop :=
  match r.helper with
  | .secondsToDuration => ∃ n, v = .int n
  | .choice => ∃ s, v = .str s ∧ (s = argStr r.arg ∨ s ∈ r.choices)
  | _ => typed x r.ftype v = true ∧ (r.ftype = .duration → v ≠ .str "")

/-- the row is well formed: helper fits the field type (`table_helper_types`), the template default
has the field's type and is what the loader defaults to (`table_defaults_agree`) -/
def rowOK (x : Ext) (r : Row) : Prop :=
  helperTypeOK r.helper r.ftype = true ∧
  (r.helper = .nonDefaultOnly → ∃ a, r.arg = some a ∧ typed x r.ftype a = true ∧ r.ldef = expected x r a) ∧
  (r.helper = .choice → r.ldef = .str (argStr r.arg))

/-- the helpers that carry a value (`renderMap` only once it is repaired) -/
def carries (fx : Fixes) (h : Helper) : Prop :=
  h = .nonDefaultOnly ∨ h = .nonEmptyString ∨ h = .nonZero ∨ h = .secondsToDuration ∨
  h = .memorysize ∨ h = .choice ∨ h = .renderStringarray ∨ (h = .renderMap ∧ fx.renderMap = true)

/-- **convert_preserves_partial** — for every row of the conversion table that carries a value, every v1
value the row can carry, written anywhere `_fetch` finds it: the value the v2 loader ends up with
is the v1 value, provided unquoted text survives YAML (`safe`) and an explicit zero is only given
where zero is the default (`zeroOK`).  Without these two hypotheses the statement is false
(`full_statement_refuted`). -/
theorem convert_preserves_partial (fx : Fixes) (x : Ext) (units : List (Nat × String × Nat)) (hu : unitsOK units)
    (r : Row) (d : Data) (v : V1)
    (hk : carries fx r.helper)
    (hr : rowOK x r) (hf : fetch d r.key = some v) (hv : validFor x r v)
    (hs : safe fx x v) (hz : zeroOK r (expected x r v)) :
    effective x r (convertRow fx x units d r) = expected x r v := by
  obtain ⟨hok, hnd, hch⟩ := hr
  unfold convertRow
  rcases hk with h | h | h | h | h | h | h | ⟨h, hfx⟩ <;> simp only [h, hf] <;>
    simp only [h, validFor] at hv <;> simp only [h, helperTypeOK] at hok
  · -- nonDefaultOnly
    obtain ⟨a, ha, hta, hda⟩ := hnd h
    simp only [ha]
    have hft : r.ftype ≠ .stringarray := by
      intro hc; simp [hc] at hok
    have hfm : r.ftype ≠ .map := by
      intro hc; simp [hc] at hok
    exact convert_preserves_nonDefaultOnly fx x r v a (by simp [h]) hft hfm hv.1 hta hda hs hz
  · -- nonEmptyString
    have hft : r.ftype = .string ∨ r.ftype = .hostport ∨ r.ftype = .url := by
      have : (r.ftype = .string ∨ r.ftype = .hostport) ∨ r.ftype = .url := by
        simpa [Bool.or_eq_true] using hok
      rcases this with (h | h) | h
      · exact Or.inl h
      · exact Or.inr (Or.inl h)
      · exact Or.inr (Or.inr h)
    exact convert_preserves_nonEmptyString fx x r v (by simp [h]) hft hv.1 hs hz
  · -- nonZero
    have h1 : r.ftype ≠ .stringarray := by intro hc; simp [hc] at hok
    have h2 : r.ftype ≠ .defaulttrue := by intro hc; simp [hc] at hok
    have h3 : r.ftype ≠ .map := by intro hc; simp [hc] at hok
    exact convert_preserves_nonZero fx x r v (by simp [h]) h1 h3 h2 hv.2 hv.1 hs hz
  · -- secondsToDuration
    obtain ⟨n, rfl⟩ := hv
    exact convert_preserves_secondsToDuration x r n h (by simpa using hok) hz
  · -- memorysize
    have hft : r.ftype = .memorysize := by simpa using hok
    obtain ⟨hty, _⟩ := hv
    cases v <;> simp [hft, typed] at hty
    exact convert_preserves_memorysize x units hu r _ (by simp [h]) hft hz
  · -- choice
    obtain ⟨s, rfl, hc⟩ := hv
    exact convert_preserves_choice fx x r s (argStr r.arg) r.choices (by simp [h]) (by simpa using hok) hc
      (hch h) hs hz
  · -- renderStringarray
    have hft : r.ftype = .stringarray := by simpa using hok
    obtain ⟨hty, _⟩ := hv
    cases v <;> simp [hft, typed] at hty
    exact convert_preserves_renderStringarray fx x r _ (by simp [h]) hft hs hz
  · -- renderMap (repaired)
    have hft : r.ftype = .map := by simpa using hok
    obtain ⟨hty, _⟩ := hv
    cases v <;> simp [hft, typed] at hty
    exact convert_preserves_renderMap_fixed fx x r d _ hfx (by simp [h]) hft hs hz

/-! ## the statement at full strength: refuted for the code as it is, proved for the repairs -/

/-- The property as stated, for one setting: every valid v1 value of a row is the effective v2
value.  YAML is assumed to follow its core schema (`coreSchema`), and the loader's own
zero-means-default rule is granted (`zeroOK`: that divergence is in the loader, not the converter). -/
def FullStatement (fx : Fixes) : Prop :=
  ∀ (x : Ext) (units : List (Nat × String × Nat)) (r : Row) (d : Data) (v : V1),
    coreSchema x → unitsOK units →
    (r.helper = .nonDefaultOnly ∨ r.helper = .nonEmptyString ∨ r.helper = .nonZero ∨
      r.helper = .secondsToDuration ∨ r.helper = .memorysize ∨ r.helper = .choice ∨
      r.helper = .renderStringarray ∨ r.helper = .renderMap) →
    rowOK x r → fetch d r.key = some v → validFor x r v → zeroOK r (expected x r v) →
    effective x r (convertRow fx x units d r) = expected x r v

/-- YAML as far as the witnesses need it: `true` is a boolean, `*` is not a scalar at all. -/
def wx : Ext where
  yaml := fun s => if s = "true" then .bool else if s = "*" then .err else .str
  dur := fun s => if s = "0s" then some 0 else if s = "1m" then some 60000000000 else none
  fmtNat := fun _ => "n"
  lower := id

theorem wx_coreSchema : coreSchema wx := by
  intro s hs
  by_cases h1 : s = "true"
  · subst h1; revert hs; decide
  · by_cases h2 : s = "*"
    · subst h2; revert hs; decide
    · simp [wx, h1, h2]

/-- `General.DatasetPrefix` (alphanumeric string, default "") -/
def wRowPrefix : Row :=
  { group := "General", field := "DatasetPrefix", key := ⟨"DatasetPrefix", [], "DatasetPrefix"⟩,
    helper := .nonDefaultOnly, arg := some (.str ""), choices := [], cond := .bad, ftype := .string,
    ldef := .str "", argEff := .str "" }

/-- `GRPCServerParameters.MaxConnectionIdle` (duration, default 1m, zero allowed by the validator) -/
def wRowIdle : Row :=
  { group := "GRPCServerParameters", field := "MaxConnectionIdle",
    key := ⟨"GRPCServerParameters.MaxConnectionIdle", ["GRPCServerParameters"], "MaxConnectionIdle"⟩,
    helper := .nonDefaultOnly, arg := some (.str "1m"), choices := [], cond := .bad, ftype := .duration,
    ldef := .dur 60000000000, argEff := .dur 60000000000 }

/-- `AccessKeys.ReceiveKeys` (originally `APIKeys`) -/
def wRowKeys : Row :=
  { group := "AccessKeys", field := "ReceiveKeys", key := ⟨"APIKeys", [], "APIKeys"⟩,
    helper := .renderStringarray, arg := some (.str "your-key-goes-here"), choices := [], cond := .bad,
    ftype := .stringarray, ldef := .strs [], argEff := .str "your-key-goes-here" }

/-- `Specialized.AdditionalAttributes` -/
def wRowAttrs : Row :=
  { group := "Specialized", field := "AdditionalAttributes",
    key := ⟨"AdditionalAttributes", [], "AdditionalAttributes"⟩,
    helper := .renderMap, arg := some (.str "ClusterName:MyCluster"), choices := [], cond := .bad,
    ftype := .map, ldef := .tbl [], argEff := .str "ClusterName:MyCluster" }

/-- **full_statement_refuted** — witness: the valid v1 setting `DatasetPrefix = "true"` is written
as `DatasetPrefix: true`, read by YAML as a boolean, and the v2 validator refuses the file. -/
theorem full_statement_refuted : ¬ FullStatement {} := by
  intro h
  have := h wx [] wRowPrefix [("DatasetPrefix", .val (.str "true"))] (.str "true") wx_coreSchema
    (by intro u hu; cases hu) (Or.inl rfl)
    ⟨by decide, by intro _; exact ⟨.str "", rfl, by decide, by decide⟩, by intro h; cases h⟩
    (by decide) ⟨by decide, by intro h; cases h⟩ (by intro h; revert h; decide)
  revert this
  decide

/-- second witness (the loader, not the converter; no repair proposed): an explicit `"0s"` comes
back as the default -/
theorem explicit_zero_reverts :
    effective wx wRowIdle (convertRow {} wx [] [("GRPCServerParameters", .grp [("MaxConnectionIdle", .str "0s")])] wRowIdle)
      = .dur 60000000000 ∧
    expected wx wRowIdle (.str "0s") = .dur 0 := by decide

/-- third witness: the v1 default `APIKeys = ["*"]` is written as `- *`, which is not YAML; with
`Fixes.items` alone it is quoted and read back -/
theorem star_key_unreadable :
    effective wx wRowKeys (convertRow {} wx [] [("APIKeys", .val (.strs ["*"]))] wRowKeys) = .invalid ∧
    expected wx wRowKeys (.strs ["*"]) = .strs ["*"] ∧
    effective wx wRowKeys (convertRow { items := true } wx [] [("APIKeys", .val (.strs ["*"]))] wRowKeys) = .strs ["*"] := by
  decide

/-- fourth witness: a v1 `AdditionalAttributes` table makes `renderMap` panic (the converter exits
without a file); with `Fixes.renderMap` it is carried over -/
theorem map_setting_aborts :
    convertRow {} wx [] [("AdditionalAttributes", .val (.tbl [("ClusterName", "MyCluster")]))] wRowAttrs = .panic ∧
    effective wx wRowAttrs (convertRow { renderMap := true } wx []
      [("AdditionalAttributes", .val (.tbl [("ClusterName", "MyCluster")]))] wRowAttrs) = .tbl [("ClusterName", "MyCluster")] := by
  decide

/-- YAML strips the blanks at the ends of a plain scalar: text with edge whitespace that is written
WITHOUT quotes is not value-preserving (here: a `yamlf` that left `"s3cret "` bare would turn the
setting into `"s3cret"`, and the file would still validate).  This is why `isPlainFixed` admits no
blank, and why the harness generates strings with leading/trailing/only blanks. -/
theorem bare_edge_blank_not_preserved :
    let x : Ext := { wx with yaml := fun s => if s = "s3cret " then .diff "s3cret" else .str }
    effective x wRowPrefix (.line (.text "s3cret " false)) = .str "s3cret" ∧
    effective x wRowPrefix (.line (.text "s3cret " true)) = .str "s3cret " ∧
    isPlainFixed "s3cret " = false ∧ isPlainFixed " " = false ∧ isPlainFixed "a b" = false := by
  decide

/-- with the repaired `yamlf`, whatever is left unquoted is read back as a string -/
theorem safeStr_of_fixed (fx : Fixes) (x : Ext) (hx : coreSchema x) (hfx : fx.yamlf = true) (s : String) :
    safeStr fx x s := by
  intro hp
  simp only [isPlainFx, hfx, if_true] at hp
  exact hx s hp

/-- **scalar_statement_fixed** — `Fixes.yamlf` alone makes every scalar, list and (given the other
two repairs) table value safe: the hypothesis `safe` of `convert_preserves_partial` is discharged. -/
theorem safe_of_fixed (fx : Fixes) (x : Ext) (hx : coreSchema x) (hy : fx.yamlf = true)
    (hi : fx.items = true) (v : V1) : safe fx x v := by
  cases v with
  | str s => exact safeStr_of_fixed fx x hx hy s
  | strs l => simp only [safe, hi, if_true]; intro s _; exact safeStr_of_fixed fx x hx hy s
  | tbl kv => intro p _; exact ⟨safeStr_of_fixed fx x hx hy p.1, safeStr_of_fixed fx x hx hy p.2⟩
  | int n => trivial
  | bool b => trivial
  | flt s => trivial

/-- scalar settings need only the `yamlf` repair -/
theorem safe_scalar_of_fixed (fx : Fixes) (x : Ext) (hx : coreSchema x) (hy : fx.yamlf = true) (s : String) :
    safe fx x (.str s) := safeStr_of_fixed fx x hx hy s

/-- **full_statement_fixed** — with the repaired `yamlf` (0001), `renderStringarray` (0002) and
`renderMap` (0004) the statement holds at full strength for every row and every valid v1 value. -/
theorem full_statement_fixed (fx : Fixes) (hy : fx.yamlf = true) (hi : fx.items = true)
    (hm : fx.renderMap = true) : FullStatement fx := by
  intro x units r d v hx hu hk hr hf hv hz
  have hc : carries fx r.helper := by
    rcases hk with h | h | h | h | h | h | h | h
    · exact Or.inl h
    · exact Or.inr (Or.inl h)
    · exact Or.inr (Or.inr (Or.inl h))
    · exact Or.inr (Or.inr (Or.inr (Or.inl h)))
    · exact Or.inr (Or.inr (Or.inr (Or.inr (Or.inl h))))
    · exact Or.inr (Or.inr (Or.inr (Or.inr (Or.inr (Or.inl h)))))
    · exact Or.inr (Or.inr (Or.inr (Or.inr (Or.inr (Or.inr (Or.inl h))))))
    · exact Or.inr (Or.inr (Or.inr (Or.inr (Or.inr (Or.inr (Or.inr ⟨h, hm⟩))))))
  exact convert_preserves_partial fx x units hu r d v hc hr hf hv (safe_of_fixed fx x hx hy hi v) hz

/-! Non-vacuity of `convert_preserves_partial`: concrete rows and values, evaluated by the kernel. -/
example : effective wx wRowPrefix (convertRow {} wx [] [("DatasetPrefix", .val (.str "prod1"))] wRowPrefix) = .str "prod1" := by decide
example : effective wx wRowPrefix (convertRow {} wx [] [("DatasetPrefix", .val (.str "my-team"))] wRowPrefix) = .str "my-team" := by decide
example : convertRow {} wx [] [("DatasetPrefix", .val (.str "my-team"))] wRowPrefix = .line (.text "my-team" true) := by decide
example : convertRow {} wx [] [("DatasetPrefix", .val (.str "prod1"))] wRowPrefix = .line (.text "prod1" false) := by decide
example : convertRow {} wx [] [("DatasetPrefix", .val (.str "12345"))] wRowPrefix = .line (.text "12345" false) := by decide
example : convertRow { yamlf := true } wx [] [("DatasetPrefix", .val (.str "12345"))] wRowPrefix = .line (.text "12345" true) := by decide
example : convertRow { yamlf := true } wx [] [("DatasetPrefix", .val (.str "True"))] wRowPrefix = .line (.text "True" true) := by decide
example : effective wx wRowPrefix (convertRow { yamlf := true } wx [] [("DatasetPrefix", .val (.str "true"))] wRowPrefix) = .str "true" := by decide
example : convertRow { yamlf := true } wx [] [("DatasetPrefix", .val (.str "prod1"))] wRowPrefix = .line (.text "prod1" false) := by decide
example : convertRow {} wx [] [("GRPCServerParameters", .grp [("MaxConnectionIdle", .str "1m")])] wRowIdle = .comment := by decide
example : effective wx wRowKeys (convertRow {} wx [] [("APIKeys", .val (.strs ["abc", "def"]))] wRowKeys) = .strs ["abc", "def"] := by decide
example : yamlOf wx (marshalMem Gen.Convert.memUnits 1500000000) = .memtext 1500000000 := by decide
example : marshalMem Gen.Convert.memUnits 1500000000 = .mem 1500 1000000 := by decide
example : marshalMem Gen.Convert.memUnits 2147483648 = .mem 2 1073741824 := by decide

/-! ## the whole file -/

theorem rowEffs_map (x : Ext) (T : List Row) (f : Row → Out) :
    rowEffs x T (T.map f) = T.map (fun r => effective x r (f r)) := by
  induction T with
  | nil => rfl
  | cons r rs ih => simp [rowEffs, ih]

/-- "Converting a valid v1 config yields a v2 file that passes v2 validation": for a v1 file (no
`General.ConfigurationVersion`), whenever every row on its own yields something the loader accepts,
the loader accepts the file. -/
def FileStatement (fx : Fixes) : Prop :=
  ∀ (x : Ext) (units : List (Nat × String × Nat)) (T : List Row) (dep : List Key) (dg : List String) (d : Data),
    isV2 d = false →
    (∀ r ∈ T, effective x r (convertRow fx x units d r) ≠ .invalid) →
    loads x T (convertFile fx x units T dep dg d) = true

/-- **deprecated_key_blocks_conversion** — as the code is, as soon as the v1 file contains a key that
`removeDeprecated` knows (e.g. `InMemCollector.CacheCapacity`), nothing is converted: the output is
the v1 data written back, which the v2 loader refuses. -/
theorem deprecated_key_blocks_conversion (fx : Fixes) (hfx : fx.deprecated = false)
    (x : Ext) (units : List (Nat × String × Nat)) (T : List Row)
    (dep : List Key) (dg : List String) (d : Data) (k : Key) (hk : k ∈ dep) (hp : (fetch d k).isSome = true) :
    convertFile fx x units T dep dg d = .dump ∧ loads x T (convertFile fx x units T dep dg d) = false := by
  have h : deprecatedPresent dep dg d = true := by
    unfold deprecatedPresent
    simp only [Bool.or_eq_true]
    exact Or.inl (List.any_eq_true.mpr ⟨k, hk, hp⟩)
  simp [convertFile, h, hfx, loads]

/-- **file_statement_refuted** — witness: a v1 file whose only setting is
`InMemCollector.CacheCapacity` (present in the repo's own `config_complete.1.x.toml`). -/
theorem file_statement_refuted : ¬ FileStatement {} := by
  intro h
  have := h wx [] [] [⟨"InMemCollector.CacheCapacity", ["InMemCollector"], "CacheCapacity"⟩] []
    [("InMemCollector", .grp [("CacheCapacity", .int 1000)])] (by decide) (by intro r hr; cases hr)
  revert this
  decide

/-- **file_converted_partial** — when `removeDeprecated` does not take over (no key of a deprecated
field in the file, or — repaired — the file is not v2), the template is executed row by row, and
the loader accepts the result whenever it accepts every row. -/
theorem file_converted_partial (fx : Fixes) (x : Ext) (units : List (Nat × String × Nat)) (T : List Row)
    (dep : List Key) (dg : List String) (d : Data)
    (hd : ((!fx.deprecated || isV2 d) && deprecatedPresent dep dg d) = false)
    (hr : ∀ r ∈ T, effective x r (convertRow fx x units d r) ≠ .invalid) :
    convertFile fx x units T dep dg d = .rows (T.map (convertRow fx x units d)) ∧
    loads x T (convertFile fx x units T dep dg d) = true := by
  have hnp : (T.map (convertRow fx x units d)).any (· == .panic) = false := by
    rw [Bool.eq_false_iff]
    intro hc
    obtain ⟨o, ho, hop⟩ := List.any_eq_true.mp hc
    obtain ⟨r, hrm, hro⟩ := List.mem_map.mp ho
    simp only [beq_iff_eq] at hop
    have := hr r hrm
    rw [hro, hop] at this
    exact this rfl
  have hc : convertFile fx x units T dep dg d = .rows (T.map (convertRow fx x units d)) := by
    simp only [convertFile, hd, hnp]
    simp
  refine ⟨hc, ?_⟩
  rw [hc]
  simp only [loads, rowEffs_map]
  apply List.all_eq_true.mpr
  intro e he
  obtain ⟨r, hrm, hre⟩ := List.mem_map.mp he
  have := hr r hrm
  rw [hre] at this
  simpa using this

/-- **file_statement_fixed** — with `removeDeprecated` restricted to v2 input (0003) a v1 file is
always converted row by row, whatever keys it contains. -/
theorem file_statement_fixed (fx : Fixes) (hfx : fx.deprecated = true) : FileStatement fx := by
  intro x units T dep dg d hv2 hr
  exact (file_converted_partial fx x units T dep dg d (by simp [hfx, hv2]) hr).2

/-! ## rules files -/

/-- the v1 value as a v2 rules value -/
def rvOf : V1 → RV
  | .int n => .int n
  | .str s => .str s
  | .bool b => .bool b
  | .strs l => .strs l
  | .flt s => .flt s
  | .tbl _ => .null

/-- the v1 value has the type of the struct field -/
def kindFits (kind : String) : V1 → Prop
  | .int _ => kind = "int" ∨ kind = "any"
  | .str _ => kind = "string" ∨ kind = "any"
  | .bool _ => kind = "bool" ∨ kind = "any"
  | .strs _ => kind = "strs" ∨ kind = "any"
  | .flt _ => kind = "float" ∨ kind = "any"
  | .tbl _ => False

def specialKey (k : String) : Prop := k = "clearfrequencysec" ∨ k = "adjustmentinterval"

/-- **rules_preserved (field)** — a v1 sampler / rule / condition setting whose lower-cased name is
the JSON tag of a field of the target struct arrives, unchanged, under that field's v2 (YAML) name;
the case of the v1 key does not matter. -/
theorem rules_field_preserved (x : Ext) (T : List SField) (S key : String) (v : V1) (f : SField)
    (hl : lookupField T S (x.lower key) = some f) (hn : ¬ specialKey (x.lower key))
    (hk : kindFits f.kind v) :
    convField x T S key v = .field f.yaml (rvOf v) := by
  have h1 : x.lower key ≠ "clearfrequencysec" := fun h => hn (Or.inl h)
  have h2 : x.lower key ≠ "adjustmentinterval" := fun h => hn (Or.inr h)
  simp only [convField, transformKV, h1, h2, if_false, hl]
  cases v <;> simp only [kindFits] at hk <;> rcases hk with hk | hk <;>
    simp [convKind, hk, rvOf]

/-- **rules_preserved (ClearFrequencySec)** — integer seconds under the v1 name `ClearFrequencySec`
arrive as the duration `n` s under `ClearFrequency`. -/
theorem rules_clearfrequencysec (x : Ext) (T : List SField) (S key : String) (n : Nat) (f : SField)
    (hkey : x.lower key = "clearfrequencysec")
    (hl : lookupField T S "clearfrequency" = some f) (hk : f.kind = "dur") :
    convField x T S key (.int n) = .field f.yaml (.dur (n * 1000000000)) := by
  simp [convField, transformKV, hkey, secsToDur, hl, convKind, hk]

/-- **rules_preserved (AdjustmentInterval)** — integer seconds become the duration `n` s. -/
theorem rules_adjustmentinterval (x : Ext) (T : List SField) (S key : String) (n : Nat) (f : SField)
    (hkey : x.lower key = "adjustmentinterval")
    (hl : lookupField T S "adjustmentinterval" = some f) (hk : f.kind = "dur") :
    convField x T S key (.int n) = .field f.yaml (.dur (n * 1000000000)) := by
  simp [convField, transformKV, hkey, secsToDur, hl, convKind, hk]

/-- a duration given as text (`ClearFrequency = "60s"`) is parsed -/
theorem rules_duration_text (x : Ext) (T : List SField) (S key s : String) (ns : Nat) (f : SField)
    (hl : lookupField T S (x.lower key) = some f) (hn : x.lower key ≠ "clearfrequencysec")
    (hk : f.kind = "dur") (hd : x.dur s = some ns) :
    convField x T S key (.str s) = .field f.yaml (.dur ns) := by
  by_cases ha : x.lower key = "adjustmentinterval"
  · simp [convField, transformKV, ha, secsToDur, convKind, hd] at hl ⊢
    simp [hl, hk]
  · simp [convField, transformKV, hn, ha, hl, convKind, hk, hd]

/-- a v1 key the target struct has no field for is dropped (e.g. `AddSampleRateKeyToTrace`) -/
theorem rules_unknown_dropped (x : Ext) (T : List SField) (S key : String) (v : V1)
    (hn : ¬ specialKey (x.lower key)) (hl : lookupField T S (x.lower key) = none) :
    convField x T S key v = .dropped := by
  have h1 : x.lower key ≠ "clearfrequencysec" := fun h => hn (Or.inl h)
  have h2 : x.lower key ≠ "adjustmentinterval" := fun h => hn (Or.inr h)
  simp [convField, transformKV, h1, h2, hl]

/-- `defaults.Set` only ever replaces a zero -/
theorem rules_default_only_for_zero (f : SField) (v : RV) (h : isZeroRV v = false) :
    applyRDefault f v = v := by
  unfold applyRDefault
  cases RV.ofTuple f.dflt <;> simp [h]

/-- **rules_preserved** — the loaded v2 value of a field is the v1 value of the first key of the
table that converts to it (non-zero, or zero where the struct has no other default). -/
theorem rules_preserved (x : Ext) (T : List SField) (S : String) (pre post : List (String × V1))
    (key : String) (v : V1) (f : SField)
    (hy : T.find? (fun g => g.struct == S && g.yaml == f.yaml) = some f)
    (hl : lookupField T S (x.lower key) = some f) (hn : ¬ specialKey (x.lower key))
    (hk : kindFits f.kind v)
    (hpre : ∀ kv ∈ pre, ∀ rv, convField x T S kv.1 kv.2 ≠ .field f.yaml rv)
    (hz : isZeroRV (rvOf v) = false) :
    fieldValue x T S (pre ++ (key, v) :: post) f.yaml = some (rvOf v) := by
  have hc := rules_field_preserved x T S key v f hl hn hk
  unfold fieldValue
  simp only [hy]
  have hfs : (pre ++ (key, v) :: post).findSome? (pickField x T S f.yaml) = some (rvOf v) := by
    rw [List.findSome?_append]
    have hnone : pre.findSome? (pickField x T S f.yaml) = none := by
      rw [List.findSome?_eq_none_iff]
      intro kv hm
      have := hpre kv hm
      unfold pickField
      cases hcv : convField x T S kv.1 kv.2 with
      | field y w =>
        by_cases hyy : y = f.yaml
        · exact absurd (hyy ▸ hcv) (this w)
        · simp [hyy]
      | dropped => rfl
      | error => rfl
    simp [hnone, pickField, hc]
  rw [hfs]
  simp [rules_default_only_for_zero f _ hz]

/-! ### the regenerated field table -/

/-- the converter finds a v1 key through the JSON tag: it must be the lower-cased v2 (YAML) name —
except for the two list fields that are deliberately renamed (`rule` → `Rules`, `condition` →
`Conditions`).  A tag that drifts from the name (e.g. `clearfrequencysec` on `ClearFrequency`)
silently loses the v1 setting: this obligation breaks instead. -/
def tagMatchesName (f : String × String × String × String × ValTuple) : Bool :=
  (f.2.2.1.toList.map lowerChar == f.2.1.toList) ||
  (f.2.1 == "rule" && f.2.2.1 == "Rules") || (f.2.1 == "condition" && f.2.2.1 == "Conditions")

theorem rules_tags_match_names : Gen.Convert.samplerFields.all tagMatchesName = true := by decide

/-- looking a field up by (struct, JSON tag) finds a field with the same v2 name and kind -/
theorem rules_table_functional :
    sfields.all (fun f => match lookupField sfields f.struct f.json with
      | some g => g.yaml == f.yaml && g.kind == f.kind
      | none => false) = true := by decide

/-- **rules_fields_preserved** — for every field of the regenerated mapping table (every sampler,
rule and condition struct the converter fills): a v1 setting spelled, in any case, like the field's
JSON tag — which by `rules_tags_match_names` is the documented name — with a value of the field's
kind arrives unchanged under the field's v2 name. -/
theorem rules_fields_preserved (x : Ext) (f : SField) (hf : f ∈ sfields) (key : String) (v : V1)
    (hk : x.lower key = f.json) (hn : ¬ specialKey f.json) (hfit : kindFits f.kind v) :
    convField x sfields f.struct key v = .field f.yaml (rvOf v) := by
  have h := List.all_eq_true.mp rules_table_functional f hf
  cases hl : lookupField sfields f.struct f.json with
  | none => simp [hl] at h
  | some g =>
    simp only [hl, Bool.and_eq_true, beq_iff_eq] at h
    have := rules_field_preserved x sfields f.struct key v g (by rw [hk]; exact hl) (by rw [hk]; exact hn)
      (by rw [h.2]; exact hfit)
    rw [this, h.1]

/-- … and integer seconds under `ClearFrequencySec` arrive as that many seconds in every struct
that has a `ClearFrequency` -/
theorem rules_seconds_preserved (x : Ext) (f : SField) (hf : f ∈ sfields) (hj : f.json = "clearfrequency")
    (key : String) (n : Nat) (hk : x.lower key = "clearfrequencysec") :
    convField x sfields f.struct key (.int n) = .field f.yaml (.dur (n * 1000000000)) := by
  have h := List.all_eq_true.mp rules_table_functional f hf
  cases hl : lookupField sfields f.struct f.json with
  | none => simp [hl] at h
  | some g =>
    simp only [hl, Bool.and_eq_true, beq_iff_eq] at h
    have hd : f.kind = "dur" := by
      have hr := rules_rename_targets
      simp only [sfields, List.mem_map] at hf
      obtain ⟨t, ht, rfl⟩ := hf
      have := List.all_eq_true.mp hr t ht
      simp only [] at hj
      simpa [hj] using this
    rw [hj] at hl
    have := rules_clearfrequencysec x sfields f.struct key n g hk hl (by rw [h.2]; exact hd)
    rw [this, h.1]

/-- "a valid v1 condition becomes a v2 condition the validator accepts": what is written for its
`Value` is not `null`. -/
def RulesStatement (fx : Fixes) : Prop :=
  ∀ (x : Ext) (kvs : List (String × V1)),
    (∃ s, (x.lower "field", V1.str s) ∈ kvs) → (∃ s, (x.lower "operator", V1.str s) ∈ kvs) →
    condAccepted ((fieldValue x sfields "@cond" kvs "Value").bind (condValueWritten fx)) = true

/-- **rules_statement_refuted** — witness: the valid v1 condition `field = "x", operator = "exists"`
has no value; the converter writes `Value: null`, which the v2 rules validator refuses. -/
theorem rules_statement_refuted : ¬ RulesStatement {} := by
  intro h
  have := h wx [("field", .str "x"), ("operator", .str "exists")] ⟨"x", by decide⟩ ⟨"exists", by decide⟩
  revert this
  decide

/-- **rules_statement_fixed** — with `Value` omitted when nil (0005) no condition is written with a
null value, whatever the v1 condition looks like. -/
theorem rules_statement_fixed (fx : Fixes) (hfx : fx.condValue = true) : RulesStatement fx := by
  intro x kvs _ _
  cases hv : fieldValue x sfields "@cond" kvs "Value" with
  | none => simp [condAccepted]
  | some v =>
    simp only [Option.bind_some, condValueWritten, hfx, Bool.true_and]
    by_cases hn : v = .null
    · subst hn; simp [condAccepted]
    · have : (v == RV.null) = false := by simpa using hn
      simp [this, condAccepted, hn]

/-! Non-vacuity for the rules theorems, on the regenerated struct table. -/
example : convField wx sfields "DynamicSampler" "clearfrequencysec" (.int 60) = .field "ClearFrequency" (.dur 60000000000) := by decide
example : convField wx sfields "EMADynamicSampler" "goalsamplerate" (.int 15) = .field "GoalSampleRate" (.int 15) := by decide
example : convField wx sfields "DynamicSampler" "addsampleratekeytotrace" (.bool true) = .dropped := by decide
example : fieldValue wx sfields "@cond" [("field", .str "status"), ("operator", .str "="), ("value", .int 500)] "Value" = some (.int 500) := by decide
example : fieldValue wx sfields "DeterministicSampler" [] "SampleRate" = some (.int 1) := by decide

end Refinery.Props.C38
