import Refinery.Model.Convert
/-!
# C38 — the config converter preserves valid v1 settings   (partial: see `Model/Convert.lean`)

Statement (properties.jsonl): converting a valid Refinery v1 config or rules file yields a v2 file
that passes v2 validation, in which every non-default v1 setting that still exists in v2 has the
same effective value.
-/
namespace Refinery.Props.C38
open Refinery Refinery.Model.Convert

/-! ## obligations on the regenerated tables (break when the template / metadata / structs change) -/

/-- **table_total** — every action of the template is a helper the model knows. -/
theorem table_total :
    Gen.Convert.rows.all (fun t => Helper.ofName t.2.2.2.1 != .unknown) = true := by decide

/-- every row's field type is one the model knows -/
theorem table_types_known :
    Gen.Convert.rows.all (fun t => FType.ofName t.2.2.2.2.2.2.1 != .other) = true := by decide

end Refinery.Props.C38
