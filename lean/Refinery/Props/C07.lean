import Refinery.Model.Deadline
import Refinery.Lemmas.Deadline
/-!
# C07 — memory-pressure ejection decides traces rather than discarding them

Statement (properties.jsonl): when heap usage exceeds the configured memory limit, each worker
makes early decisions for its buffered traces, heaviest estimated impact first, until the data size
it has released exceeds its share of the overage or its buffer is empty.  Ejected traces are
decided, forwarded or dropped, and reported with the memory send reason exactly as if they had
timed out, and they leave the buffer.

The estimated impacts (`Trace.CacheImpact`, a function of the wall clock) and the tie order of
`sort.Slice` are inputs of the model's `eject` step; the theorems hold for every impact assignment
`imp`, every byte share, every buffer (`s` with distinct keys — all reachable states, `run_wf`)
and, where stated over `run`, every operation history.
-/
namespace Refinery.Props.C07
open Refinery Refinery.Model.Deadline Refinery.Lemmas.Deadline

/-- every reachable state has distinct buffer keys -/
theorem run_wf (c : Cfg) (ops : List Op) : AList.NoDupKeys (run c ops).buf := run_nodup c ops

/-- **eject_prefix** — the traces an ejection decides, in the order it decides them, are a prefix of
an impact-descending order of the whole buffer (heaviest estimated impact first; ties open). -/
theorem eject_prefix (s : St) (hwf : AList.NoDupKeys s.buf) (bytes : Nat) (imp : AList Nat Nat)
    (order : List Nat) (ages : AList Nat (List (Nat × Nat × Nat))) (l : List Sent) (left : List Nat)
    (h : (step s (.eject bytes imp order ages)).2 = .sent l left) :
    l.map (·.1) = order ∧
    ∃ full : List Nat, full.Perm (AList.keys s.buf) ∧
      full.Pairwise (fun a b => impOf imp b ≤ impOf imp a) ∧
      order = full.take order.length := by
  obtain ⟨⟨hnd, hsub, _, hpw, hrest, _, _, _⟩, hl, _, _⟩ := eject_accepted h
  refine ⟨by rw [hl]; exact sentOf_ids _ order hsub, ?_⟩
  let key : Nat → Int := fun id => -((impOf imp id : Nat) : Int)
  let rest := (AList.keys s.buf).filter (fun x => decide (x ∉ order))
  have hkey : ∀ a b, key a ≤ key b ↔ impOf imp b ≤ impOf imp a := by
    intro a b; simp only [key]; omega
  refine ⟨order ++ sortBy key rest, ?_, ?_, ?_⟩
  · refine (List.Perm.append_left order (sortBy_perm _ _)).trans ?_
    have hnd2 : (order ++ rest).Nodup := by
      rw [List.nodup_append]
      refine ⟨hnd, (List.Nodup.sublist List.filter_sublist hwf), ?_⟩
      intro a ha b hb hab
      subst hab
      simp only [rest, List.mem_filter, decide_eq_true_eq] at hb
      exact hb.2 ha
    rw [List.perm_ext_iff_of_nodup hnd2 hwf]
    intro a
    simp only [List.mem_append, rest, List.mem_filter, decide_eq_true_eq]
    constructor
    · rintro (ha | ha)
      · exact hsub a ha
      · exact ha.1
    · intro ha
      by_cases hin : a ∈ order
      · exact Or.inl hin
      · exact Or.inr ⟨ha, hin⟩
  · rw [List.pairwise_append]
    refine ⟨hpw, ?_, ?_⟩
    · exact (sortBy_pairwise key rest).imp (fun {a b} hab => (hkey a b).mp hab)
    · intro a ha b hb
      have hb' := (sortBy_perm key rest).subset hb
      simp only [rest, List.mem_filter, decide_eq_true_eq] at hb'
      exact hrest b hb'.1 hb'.2 a ha
  · rw [List.take_left']
    rfl

/-- **eject_stop_rule** — the ejection stops at the first point where the released data size exceeds
the worker's share, or when the buffer is empty: after every proper prefix of the ejected traces
the released size was still `≤ bytes`, and at the end either it exceeds `bytes` or nothing is left
in the buffer.  (In particular a non-empty buffer always loses at least one trace, even for a
share of 0.) -/
theorem eject_stop_rule (s : St) (hwf : AList.NoDupKeys s.buf) (bytes : Nat) (imp : AList Nat Nat)
    (order : List Nat) (ages : AList Nat (List (Nat × Nat × Nat))) (l : List Sent) (left : List Nat)
    (h : (step s (.eject bytes imp order ages)).2 = .sent l left) :
    (∀ k, k < order.length → sizeSum s (order.take k) ≤ bytes) ∧
    (bytes < sizeSum s order ∨ (step s (.eject bytes imp order ages)).1.buf = []) ∧
    (s.buf ≠ [] → order ≠ []) := by
  obtain ⟨⟨hnd, hsub, _, _, _, hstop, hend, _⟩, _, hs', _⟩ := eject_accepted h
  refine ⟨fun k hk => hstop k (List.mem_range.mpr hk), ?_, ?_⟩
  · rcases hend with hgt | hlen
    · exact Or.inl hgt
    · right
      rw [hs']
      simp only [setMemo, removeIds]
      have hall : ∀ a ∈ AList.keys s.buf, a ∈ order :=
        subset_of_nodup_length hwf hnd hsub (by simpa [AList.keys] using hlen)
      apply List.filter_eq_nil_iff.mpr
      intro p hp
      have : p.1 ∈ order := hall p.1 (List.mem_map.mpr ⟨p, hp, rfl⟩)
      simp [this]
  · intro hne ho
    subst ho
    rcases hend with hgt | hlen
    · simp [sizeSum] at hgt
    · simp only [List.length_nil] at hlen
      exact hne (List.eq_nil_of_length_eq_zero hlen.symm)

/-- **eject_decides** — every ejected trace was buffered, is reported with the memory send reason
and with all the spans it held, has left the buffer, has a recorded decision, and a later span for
it is treated as a late span (it is not re-buffered). -/
theorem eject_decides (s : St) (bytes : Nat) (imp : AList Nat Nat)
    (order : List Nat) (ages : AList Nat (List (Nat × Nat × Nat))) (l : List Sent) (left : List Nat)
    (h : (step s (.eject bytes imp order ages)).2 = .sent l left) :
    let s' := (step s (.eject bytes imp order ages)).1
    ∀ x ∈ l, ∃ tr, AList.get s.buf x.1 = some tr ∧ x = (x.1, Reason.ejectedMemsize, tr.count) ∧
      AList.get s'.buf x.1 = none ∧ x.1 ∈ s'.decided ∧
      ∀ root size, (step s' (.span x.1 root size)).2 = .late := by
  obtain ⟨_, hl, hs', _⟩ := eject_accepted h
  intro s' x hx
  rw [hl] at hx
  obtain ⟨hin, tr, hg, hxe⟩ := mem_sentOf hx
  have hnone : AList.get s'.buf x.1 = none := by
    simp only [s', hs', setMemo, removeIds]
    rw [get_filter_key s.buf (fun k => decide (k ∉ order)) x.1]
    simp [hin]
  have hdec : x.1 ∈ s'.decided := by
    simp only [s', hs', setMemo, removeIds, List.mem_append]
    exact Or.inl hin
  refine ⟨tr, hg, hxe, hnone, hdec, ?_⟩
  intro root size
  simp only [step, processSpan, hnone, hdec, if_true]

/-- after any history, the span count reported for an ejected trace is the number of spans that
arrived for it: no accepted span of an ejected trace is lost -/
theorem eject_decides_all_spans (c : Cfg) (ops : List Op) (bytes : Nat) (imp : AList Nat Nat)
    (order : List Nat) (ages : AList Nat (List (Nat × Nat × Nat))) (l : List Sent) (left : List Nat)
    (h : (step (run c ops) (.eject bytes imp order ages)).2 = .sent l left) :
    ∀ x ∈ l, ∃ a, (Spec.run c ops).arr x.1 = some a ∧ x.2.2 = a.count := by
  obtain ⟨_, hl, _, _⟩ := eject_accepted h
  intro x hx
  rw [hl] at hx
  obtain ⟨_, tr, hg, hxe⟩ := mem_sentOf hx
  obtain ⟨_, _, _, h4, _, _⟩ := inv_run c ops
  obtain ⟨_, a, ha, hrel⟩ := h4 x.1 tr hg
  exact ⟨a, ha, by rw [hxe]; exact hrel.count⟩

/-- **eject_conserves** (one ejection) — the buffer before the ejection is exactly the ejected traces
plus the buffer after it; the traces that stay are untouched; the reported remaining ids are the
buffer's ids. -/
theorem eject_conserves (s : St) (hwf : AList.NoDupKeys s.buf) (bytes : Nat) (imp : AList Nat Nat)
    (order : List Nat) (ages : AList Nat (List (Nat × Nat × Nat))) (l : List Sent) (left : List Nat)
    (h : (step s (.eject bytes imp order ages)).2 = .sent l left) :
    let s' := (step s (.eject bytes imp order ages)).1
    (order ++ AList.keys s'.buf).Perm (AList.keys s.buf) ∧
    (∀ id, id ∉ order → AList.get s'.buf id = AList.get s.buf id) ∧
    s'.decided = order ++ s.decided ∧
    left = isort (AList.keys s'.buf) := by
  obtain ⟨⟨hnd, hsub, _⟩, _, hs', hleft⟩ := eject_accepted h
  intro s'
  have hkeys : AList.keys s'.buf = (AList.keys s.buf).filter (fun k => decide (k ∉ order)) := by
    simp only [s', hs', setMemo, removeIds]
    exact keys_filter_key s.buf (fun k => decide (k ∉ order))
  refine ⟨?_, ?_, ?_, ?_⟩
  · rw [hkeys]
    have hnd2 : (order ++ (AList.keys s.buf).filter (fun k => decide (k ∉ order))).Nodup := by
      rw [List.nodup_append]
      refine ⟨hnd, (List.Nodup.sublist List.filter_sublist hwf), ?_⟩
      intro a ha b hb hab
      subst hab
      simp only [List.mem_filter, decide_eq_true_eq] at hb
      exact hb.2 ha
    rw [List.perm_ext_iff_of_nodup hnd2 hwf]
    intro a
    simp only [List.mem_append, List.mem_filter, decide_eq_true_eq]
    constructor
    · rintro (ha | ha)
      · exact hsub a ha
      · exact ha.1
    · intro ha
      by_cases hin : a ∈ order
      · exact Or.inl hin
      · exact Or.inr ⟨ha, hin⟩
  · intro id hid
    simp only [s', hs', setMemo, removeIds]
    rw [get_filter_key s.buf (fun k => decide (k ∉ order)) id]
    simp [hid]
  · simp only [s', hs', setMemo, removeIds]
  · rw [hleft]; simp only [s', hs', setMemo, leftIds, removeIds]

/-- **eject_conserves** (all histories) — in every reachable state, every trace for which a span has
ever arrived is either still buffered or has a recorded decision, never both, and nothing else is
buffered or decided: no trace is lost by ejections (or ticks). -/
theorem accepted_is_buffered_or_decided (c : Cfg) (ops : List Op) (id : Nat) :
    ((Spec.run c ops).arr id ≠ none ↔
      (id ∈ AList.keys (run c ops).buf ∨ id ∈ (run c ops).decided)) ∧
    ¬ (id ∈ AList.keys (run c ops).buf ∧ id ∈ (run c ops).decided) := by
  obtain ⟨_, _, _, h4, h5, h6⟩ := inv_run c ops
  constructor
  · constructor
    · intro ha
      cases hg : AList.get (run c ops).buf id with
      | none => exact Or.inr (h5 id hg ha)
      | some tr => left; rw [AList.mem_keys_iff, hg]; rfl
    · rintro (hk | hd)
      · rw [AList.mem_keys_iff] at hk
        cases hg : AList.get (run c ops).buf id with
        | none => simp [hg] at hk
        | some tr =>
          obtain ⟨_, a, ha, _⟩ := h4 id tr hg
          simp [ha]
      · exact h6 id hd
  · rintro ⟨hk, hd⟩
    rw [AList.mem_keys_iff] at hk
    cases hg : AList.get (run c ops).buf id with
    | none => simp [hg] at hk
    | some tr => exact (h4 id tr hg).1 hd

/-- **Refinement / non-vacuity**: whenever the impacts are the estimates the code defines, the loop of
`sendTracesEarly` over the impact-sorted buffer produces an ejection the acceptor admits. -/
theorem eject_loop_refines_acceptor (s : St) (hwf : AList.NoDupKeys s.buf) (bytes : Nat)
    (imp : AList Nat Nat) (ages : AList Nat (List (Nat × Nat × Nat)))
    (himp : ∀ id ∈ AList.keys s.buf, (AList.get imp id).isSome)
    (hok : ∀ id ∈ AList.keys s.buf, impactOK s imp ages id = true) :
    ValidEject s bytes imp (ejectRef s bytes imp) ages := by
  let key : Nat → Int := fun id => -((impOf imp id : Nat) : Int)
  have hkey : ∀ a b, key a ≤ key b ↔ impOf imp b ≤ impOf imp a := by
    intro a b; simp only [key]; omega
  have hperm := sortBy_perm key (AList.keys s.buf)
  have hsorted : (sortBy key (AList.keys s.buf)).Pairwise (fun a b => impOf imp b ≤ impOf imp a) :=
    (sortBy_pairwise key _).imp (fun {a b} hab => (hkey a b).mp hab)
  obtain ⟨k, hk1, hk2, hk3, hk4⟩ := ejectLoop_spec s bytes (sortBy key (AList.keys s.buf)) 0 (Nat.zero_le _)
  have hdef : ejectRef s bytes imp = (sortBy key (AList.keys s.buf)).take k := hk1
  generalize hL : sortBy key (AList.keys s.buf) = L at *
  have hLnd : L.Nodup := hperm.nodup_iff.mpr hwf
  rw [hdef]
  refine ⟨hLnd.sublist (List.take_sublist k L), ?_, himp, hsorted.sublist (List.take_sublist k L), ?_, ?_, ?_, hok⟩
  · intro id hid
    exact hperm.subset (List.mem_of_mem_take hid)
  · intro x hx hxn y hy
    have hxL : x ∈ L := hperm.symm.subset hx
    have hsplit : L = L.take k ++ L.drop k := (List.take_append_drop k L).symm
    have hxd : x ∈ L.drop k := by
      rw [hsplit] at hxL
      rcases List.mem_append.mp hxL with h | h
      · exact absurd h hxn
      · exact h
    rw [hsplit, List.pairwise_append] at hsorted
    exact hsorted.2.2 y hy x hxd
  · intro j hj
    rw [List.mem_range, List.length_take] at hj
    have hjk : j < k := by omega
    have := hk3 j hjk
    rw [List.take_take]
    rw [Nat.min_eq_left (by omega)]
    omega
  · rcases hk4 with h | h
    · left; omega
    · right
      rw [List.length_take, h, Nat.min_self, hperm.length_eq]
      simp [AList.keys]

/-- In every state some ejection is admissible (the one the reference loop computes), so the
theorems about accepted ejections are never vacuous. -/
theorem eject_always_admissible (s : St) (hwf : AList.NoDupKeys s.buf) (bytes : Nat)
    (imp : AList Nat Nat) (ages : AList Nat (List (Nat × Nat × Nat)))
    (himp : ∀ id ∈ AList.keys s.buf, (AList.get imp id).isSome)
    (hok : ∀ id ∈ AList.keys s.buf, impactOK s imp ages id = true) :
    ∃ l left, (step s (.eject bytes imp (ejectRef s bytes imp) ages)).2 = .sent l left := by
  have hv := eject_loop_refines_acceptor s hwf bytes imp ages himp hok
  exact ⟨sentOf s (fun _ => Reason.ejectedMemsize) (ejectRef s bytes imp),
    leftIds (setMemo (removeIds s (ejectRef s bytes imp)) (memoAfter s imp)),
    by simp only [step, eject, hv, if_true]⟩

/-! ## the estimated impact -/

/-- **impact_formula** — closed form of the estimate as `types/event.go` defines it: a span weighs
its data size times `(cacheImpactFactor · age / traceTimeout + 1)`, the factor (4, read from the
code) applied BEFORE the truncating division; a trace weighs the sum over its spans; within one
trace timeout the multiplier ranges over `1 … cacheImpactFactor + 1`. -/
theorem impact_formula (tt size since : Nat) (spans : List (Nat × Nat)) :
    impactFactor = 4 ∧
    spanImpact tt size since = size * (impactFactor * since / tt) + size ∧
    traceImpact tt spans = (spans.map fun p => p.1 * (impactFactor * p.2 / tt) + p.1).sum ∧
    (0 < tt → since ≤ tt → size ≤ spanImpact tt size since ∧
      spanImpact tt size since ≤ (impactFactor + 1) * size) := by
  refine ⟨by decide, ?_, ?_, ?_⟩
  · simp only [spanImpact, Nat.add_mul, Nat.one_mul]; rw [Nat.mul_comm]
  · simp only [traceImpact, spanImpact, Nat.add_mul, Nat.one_mul]
    congr 1
    apply List.map_congr_left
    intro p _
    rw [Nat.mul_comm]
  · intro htt hle
    have h1 : impactFactor * since / tt ≤ impactFactor := by
      apply Nat.div_le_of_le_mul
      rw [Nat.mul_comm tt]
      exact Nat.mul_le_mul_left _ hle
    constructor
    · simp only [spanImpact]
      exact Nat.le_mul_of_pos_left _ (Nat.succ_pos _)
    · simp only [spanImpact]
      exact Nat.mul_le_mul_right _ (Nat.add_le_add_right h1 1)

/-- **impact_monotone_in_age** — with the same data size an older span never weighs less; hence a
trace whose spans are all at least as old weighs at least as much. -/
theorem impact_monotone_in_age (tt size since since' : Nat) (h : since ≤ since') :
    spanImpact tt size since ≤ spanImpact tt size since' := by
  simp only [spanImpact]
  exact Nat.mul_le_mul_right _ (Nat.add_le_add_right
    (Nat.div_le_div_right (Nat.mul_le_mul_left _ h)) 1)

theorem trace_impact_monotone_in_age (tt : Nat) (sp : List (Nat × Nat × Nat))
    (h : ∀ e ∈ sp, e.2.1 ≤ e.2.2) : traceImpact tt (lows sp) ≤ traceImpact tt (highs sp) := by
  induction sp with
  | nil => simp [traceImpact, lows, highs]
  | cons e t ih =>
    have he := h e List.mem_cons_self
    have iht := ih (fun x hx => h x (List.mem_cons_of_mem _ hx))
    simp only [traceImpact, lows, highs, List.map_cons, List.sum_cons] at iht ⊢
    exact Nat.add_le_add (impact_monotone_in_age tt e.1 _ _ he) iht

/-- the modelled estimate of a buffered trace at the instant of the ejection (span ages known) -/
def modelImpact (s : St) (ages : AList Nat (List (Nat × Nat × Nat))) (id : Nat) : Nat :=
  match AList.get ages id with
  | some sp => traceImpact s.cfg.impactTimeout (lows sp)
  | none => 0

/-- An accepted impact is the modelled estimate: for a trace without memoised value in a buffer of
at least two, the impact the code used lies between the estimates for the lower and upper bounds
of its span ages, and equals the modelled estimate when the ages are known exactly. -/
theorem impact_is_modelled (s : St) (imp : AList Nat Nat) (ages : AList Nat (List (Nat × Nat × Nat)))
    (id : Nat) (hok : impactOK s imp ages id = true) (hm : impOf s.memo id = 0)
    (h2 : 2 ≤ s.buf.length) :
    ∃ sp tr, AList.get ages id = some sp ∧ AList.get s.buf id = some tr ∧
      sp.length = tr.count ∧ (sp.map (·.1)).sum = tr.size ∧
      traceImpact s.cfg.impactTimeout (lows sp) ≤ impOf imp id ∧
      impOf imp id ≤ traceImpact s.cfg.impactTimeout (highs sp) ∧
      ((∀ e ∈ sp, e.2.1 = e.2.2) → impOf imp id = modelImpact s ages id) := by
  unfold impactOK at hok
  have hc : ¬ (impOf s.memo id ≠ 0 ∨ s.buf.length < 2) := by omega
  simp only [hc, if_false] at hok
  cases hsp : AList.get ages id with
  | none => simp [hsp] at hok
  | some sp =>
    cases htr : AList.get s.buf id with
    | none => simp [hsp, htr] at hok
    | some tr =>
      simp only [hsp, htr, decide_eq_true_eq] at hok
      obtain ⟨h1, h2', _, h4, h5⟩ := hok
      refine ⟨sp, tr, rfl, rfl, h1, h2', h4, h5, ?_⟩
      intro hex
      have hlh : highs sp = lows sp := by
        simp only [highs, lows]
        apply List.map_congr_left
        intro e he
        rw [hex e he]
      rw [hlh] at h5
      simp only [modelImpact, hsp]
      omega

/-- **eject_prefix over the modelled estimate** — when nothing is memoised, at least two traces are
buffered and the span ages are known exactly, the traces an ejection decides are a prefix of an
order of the whole buffer that is descending in the MODELLED age-weighted impact
`Σ size · (4·age/TraceTimeout + 1)`. -/
theorem eject_prefix_modelled (s : St) (hwf : AList.NoDupKeys s.buf) (bytes : Nat) (imp : AList Nat Nat)
    (order : List Nat) (ages : AList Nat (List (Nat × Nat × Nat))) (l : List Sent) (left : List Nat)
    (h : (step s (.eject bytes imp order ages)).2 = .sent l left)
    (hm : ∀ id ∈ AList.keys s.buf, impOf s.memo id = 0) (h2 : 2 ≤ s.buf.length)
    (hex : ∀ id sp, AList.get ages id = some sp → ∀ e ∈ sp, e.2.1 = e.2.2) :
    l.map (·.1) = order ∧
    ∃ full : List Nat, full.Perm (AList.keys s.buf) ∧
      full.Pairwise (fun a b => modelImpact s ages b ≤ modelImpact s ages a) ∧
      order = full.take order.length := by
  obtain ⟨hv, _, _, _⟩ := eject_accepted h
  have hok := hv.2.2.2.2.2.2.2
  have heq : ∀ id ∈ AList.keys s.buf, impOf imp id = modelImpact s ages id := by
    intro id hid
    obtain ⟨sp, _, hsp, _, _, _, _, _, hexact⟩ := impact_is_modelled s imp ages id (hok id hid) (hm id hid) h2
    exact hexact (hex id sp hsp)
  obtain ⟨hl, full, hperm, hpw, htake⟩ := eject_prefix s hwf bytes imp order ages l left h
  refine ⟨hl, full, hperm, ?_, htake⟩
  refine hpw.imp_of_mem ?_
  intro a b ha hb hab
  rw [← heq a (hperm.subset ha), ← heq b (hperm.subset hb)]
  exact hab

/-- **share_formula** — `checkAlloc` asks no worker to eject exactly when the limit is unset or the heap
reading is below it; otherwise every worker gets the same share `⌊(heap − MaxAlloc) / workers⌋`,
so the shares together cover the overage up to less than one byte per worker. -/
theorem share_formula (heap maxAlloc workers : Nat) (hw : 0 < workers) :
    (evictionShare heap maxAlloc workers = none ↔ (maxAlloc = 0 ∨ heap < maxAlloc)) ∧
    ∀ b, evictionShare heap maxAlloc workers = some b →
      b = (heap - maxAlloc) / workers ∧
      workers * b ≤ heap - maxAlloc ∧ heap - maxAlloc < workers * b + workers := by
  unfold evictionShare
  constructor
  · split <;> simp_all
  · intro b hb
    split at hb
    · cases hb
    · simp only [Option.some.injEq] at hb
      subst hb
      refine ⟨rfl, Nat.mul_div_le _ _, ?_⟩
      have := Nat.lt_mul_div_succ (heap - maxAlloc) hw
      rw [Nat.mul_succ] at this
      exact this

/-! ## non-vacuity: concrete buffers evaluated by the kernel -/

def cfg0 : Cfg := { traceTimeout := 0, sendDelay := 0, spanLimit := 0, maxExpired := 0 }
/-- three buffered traces of sizes 10, 100, 100 -/
def buf3 : St := run cfg0 [.span 1 false 10, .span 2 false 100, .span 3 false 60, .span 3 false 40]
def imps : AList Nat Nat := [(1, 10), (2, 100), (3, 500)]
/-- spans as (size, age lower bound, age upper bound): traces 1 and 2 are fresh, trace 3 is one trace
timeout (60 s) old, so its 100 bytes weigh 5 × 100 -/
def ages3 : AList Nat (List (Nat × Nat × Nat)) :=
  [(1, [(10, 0, 0)]), (2, [(100, 0, 0)]), (3, [(60, 60000000000, 60000000000), (40, 60000000000, 60000000000)])]

-- share 0: exactly the heaviest trace goes, with the memory reason and both its spans
example : (step buf3 (.eject 0 imps [3] ages3)).2 = .sent [(3, .ejectedMemsize, 2)] [1, 2] := by decide
-- share 100: after trace 3 (100 bytes) the released size does not yet exceed 100, so trace 2 goes too
example : (step buf3 (.eject 100 imps [3] ages3)).2 = .reject := by decide
example : (step buf3 (.eject 100 imps [3, 2] ages3)).2
    = .sent [(3, .ejectedMemsize, 2), (2, .ejectedMemsize, 1)] [1] := by decide
-- not heaviest first / one too many / more than the whole buffer
example : (step buf3 (.eject 0 imps [2] ages3)).2 = .reject := by decide
example : (step buf3 (.eject 0 imps [3, 2] ages3)).2 = .reject := by decide
example : (step buf3 (.eject 100000 imps [3, 2, 1] ages3)).2
    = .sent [(3, .ejectedMemsize, 2), (2, .ejectedMemsize, 1), (1, .ejectedMemsize, 1)] [] := by decide
example : (step buf3 (.eject 100000 imps [3, 2] ages3)).2 = .reject := by decide
-- an ejected trace is not re-buffered
example : (step (step buf3 (.eject 0 imps [3] ages3)).1 (.span 3 true 5)).2 = .late := by decide
-- truncation order: half a trace timeout old => multiplier 3 (4·½ + 1), not 1
example : spanImpact 60000000000 100 30000000000 = 300 ∧ spanImpact 60000000000 100 0 = 100 ∧
    spanImpact 60000000000 100 14999999999 = 100 ∧ spanImpact 60000000000 100 15000000000 = 200 := by decide
-- age flips the order: an older small trace (100 bytes, half a timeout: 300) goes before a fresh larger one (200)
def bufFlip : St := run cfg0 [.span 1 false 100, .span 2 false 200]
def agesFlip : AList Nat (List (Nat × Nat × Nat)) := [(1, [(100, 30000000000, 30000000000)]), (2, [(200, 0, 0)])]
example : (step bufFlip (.eject 0 [(1, 300), (2, 200)] [1] agesFlip)).2 = .sent [(1, .ejectedMemsize, 1)] [2] := by decide
-- the impacts a size-only estimate would give (multiplier 1 for the old trace) are not accepted
example : (step bufFlip (.eject 0 [(1, 100), (2, 200)] [2] agesFlip)).2 = .reject := by decide
-- a memoised impact is reused until the next span arrives
example : (step (step buf3 (.eject 0 imps [3] ages3)).1 (.eject 0 [(1, 10), (2, 100)] [2] [])).2
    = .sent [(2, .ejectedMemsize, 1)] [1] := by decide
example : ejectRef buf3 100 imps = [3, 2] ∧ ejectRef buf3 0 imps = [3] ∧ ejectRef buf3 100000 imps = [3, 2, 1] := by decide
example : evictionShare 1000 400 3 = some 200 ∧ evictionShare 399 400 3 = none ∧
    evictionShare 400 400 3 = some 0 ∧ evictionShare 1000 0 3 = none := by decide

end Refinery.Props.C07
