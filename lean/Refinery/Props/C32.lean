import Refinery.Model.TTL
/-!
# C32 — TTL sets and maps agree on membership at every instant

Statement (properties.jsonl): an item added to a TTL set or map is present for its TTL after
its most recent add and absent afterwards, and every query (membership test, listing, count,
lookup) gives the same answer at every instant, including the expiry instant itself.

All theorems quantify over an arbitrary operation history `ops : List Op` (adds, removals,
queries — which clean up — and clock advances of any size, so every expiry instant is covered).
-/
namespace Refinery.Props.C32
open Refinery Refinery.Model.TTL

/-- Simulation invariant between the concrete container and the history-indexed spec. -/
def Inv (ttl : Int) (s : St) (sp : Spec) : Prop :=
  s.ttl = ttl ∧ s.now = sp.now ∧ AList.NoDupKeys s.items ∧
  ∀ k, match AList.get s.items k with
    | some (v, e) => sp.last k = some (v, e - ttl)
    | none => sp.last k = none ∨ ∃ v t, sp.last k = some (v, t) ∧ t + ttl < sp.now

theorem inv_init (ttl : Int) : Inv ttl (init ttl) {} := by
  refine ⟨rfl, rfl, AList.nodup_nil, ?_⟩
  intro k; simp [init]

theorem inv_cleanup {ttl : Int} {s : St} {sp : Spec} (h : Inv ttl s sp) : Inv ttl (cleanup s) sp := by
  obtain ⟨h1, h2, h3, h4⟩ := h
  refine ⟨h1, h2, by simpa [cleanup] using AList.nodup_keep _ h3 _, ?_⟩
  intro k
  have hk := h4 k
  simp only [cleanup]
  rw [AList.get_keep _ h3]
  cases hg : AList.get s.items k with
  | none => simp [hg] at hk ⊢; exact hk
  | some ve =>
    obtain ⟨v, e⟩ := ve
    simp only [hg] at hk
    by_cases hx : expired s.now e = true
    · simp only [Option.filter, hx]
      right
      refine ⟨v, e - ttl, hk, ?_⟩
      simp only [expired, decide_eq_true_eq] at hx
      omega
    · simp only [Option.filter, hx]
      simpa using hk

theorem inv_step {ttl : Int} {s : St} {sp : Spec} (h : Inv ttl s sp) (o : Op) :
    Inv ttl (step s o).1 (sp.step o) := by
  cases o with
  | adv d =>
    obtain ⟨h1, h2, h3, h4⟩ := h
    refine ⟨h1, by simp [step, Spec.step, h2], h3, ?_⟩
    intro k
    have hk := h4 k
    simp only [step, Spec.step]
    cases hg : AList.get s.items k with
    | none =>
      simp only [hg] at hk ⊢
      rcases hk with hk | ⟨v, t, hk, hlt⟩
      · exact Or.inl hk
      · exact Or.inr ⟨v, t, hk, by omega⟩
    | some ve => simp only [hg] at hk ⊢; exact hk
  | set k v =>
    obtain ⟨h1, h2, h3, h4⟩ := h
    refine ⟨h1, h2, AList.nodup_put _ h3 _ _, ?_⟩
    intro k'
    have hk := h4 k'
    simp only [step, Spec.step]
    rw [AList.get_put]
    by_cases hkk : k = k'
    · simp only [hkk, if_true]
      have : s.now + s.ttl - ttl = sp.now := by omega
      simp [this]
    · simp only [hkk, if_false]; exact hk
  | del k =>
    obtain ⟨h1, h2, h3, h4⟩ := h
    refine ⟨h1, h2, AList.nodup_del _ h3 _, ?_⟩
    intro k'
    have hk := h4 k'
    simp only [step, Spec.step]
    rw [AList.get_del]
    by_cases hkk : k = k'
    · simp [hkk]
    · simp only [hkk, if_false]; exact hk
  | get k => exact h
  | keys => exact inv_cleanup h
  | values => exact inv_cleanup h
  | length => exact inv_cleanup h

/-- The invariant holds in every reachable state. -/
theorem inv_run (ttl : Int) (ops : List Op) : Inv ttl (run ttl ops) (Spec.run ops) := by
  unfold run Spec.run
  suffices ∀ s sp, Inv ttl s sp →
      Inv ttl (ops.foldl (fun s o => (step s o).1) s) (ops.foldl Spec.step sp) from
    this _ _ (inv_init ttl)
  induction ops with
  | nil => intro s sp h; exact h
  | cons o os ih => intro s sp h; exact ih _ _ (inv_step h o)

theorem lookup_eq_present {ttl : Int} {s : St} {sp : Spec} (h : Inv ttl s sp) (k : Nat) :
    lookup s k = sp.present ttl k := by
  obtain ⟨h1, h2, _, h4⟩ := h
  have hk := h4 k
  unfold lookup Spec.present
  cases hg : AList.get s.items k with
  | none =>
    simp only [hg] at hk ⊢
    rcases hk with hk | ⟨v, t, hk, hlt⟩
    · simp [hk]
    · simp only [hk]; rw [if_neg (by omega)]
  | some ve =>
    obtain ⟨v, e⟩ := ve
    simp only [hg] at hk ⊢
    simp only [hk, expired]
    by_cases hx : e < s.now
    · have h' : ¬ sp.now ≤ e - ttl + ttl := by omega
      simp [hx, h'] <;> omega
    · have h' : sp.now ≤ e - ttl + ttl := by omega
      simp [hx, h'] <;> omega

/-- **present_for_ttl** — after any history, a lookup (`Get`, `Contains`) answers exactly the
specification: the value of the most recent un-removed add `t`, iff `now ≤ t + TTL`. -/
theorem present_for_ttl (ttl : Int) (ops : List Op) (k : Nat) :
    lookup (run ttl ops) k = (Spec.run ops).present ttl k :=
  lookup_eq_present (inv_run ttl ops) k

theorem mem_sortedKeys (s : St) (hn : AList.NoDupKeys s.items) (k : Nat) :
    k ∈ sortedKeys s ↔ (lookup s k).isSome = true := by
  unfold sortedKeys lookup
  rw [mem_isort, AList.mem_keys_iff]
  simp only [cleanup]
  rw [AList.get_keep _ hn]
  cases hg : AList.get s.items k with
  | none => simp
  | some ve =>
    obtain ⟨v, e⟩ := ve
    by_cases hx : expired s.now e = true <;> simp [Option.filter, hx]

/-- **queries_agree (membership)** — at every instant of every history the listing
(`Members` / `SortedKeys`) contains `k` exactly when the membership test / lookup finds it. -/
theorem queries_agree_members (ttl : Int) (ops : List Op) (k : Nat) :
    k ∈ sortedKeys (run ttl ops) ↔ (lookup (run ttl ops) k).isSome = true :=
  mem_sortedKeys _ (inv_run ttl ops).2.2.1 k

/-- **queries_agree (count)** — `Length` equals the number of listed members. -/
theorem queries_agree_length (ttl : Int) (ops : List Op) :
    length (run ttl ops) = (sortedKeys (run ttl ops)).length := by
  simp [length, sortedKeys, AList.keys]

/-- **queries_agree (values)** — `SortedValues` lists exactly the values `Get` returns for the
listed keys, in key order. -/
theorem queries_agree_values (ttl : Int) (ops : List Op) :
    sortedValues (run ttl ops) =
      (sortedKeys (run ttl ops)).filterMap (fun k => lookup (run ttl ops) k) := by
  have hn := (inv_run ttl ops).2.2.1
  unfold sortedValues
  apply filterMap_congr'
  intro k hk
  have hk' := (mem_sortedKeys _ hn k).mp hk
  unfold lookup at hk' ⊢
  simp only [cleanup]
  rw [AList.get_keep _ hn]
  cases hg : AList.get (run ttl ops).items k with
  | none => simp [hg] at hk'
  | some ve =>
    obtain ⟨v, e⟩ := ve
    simp only [hg] at hk'
    by_cases hx : expired (run ttl ops).now e = true <;> simp_all [Option.filter]

/-- A query never changes what later queries answer (cleanup is unobservable). -/
theorem cleanup_unobservable (ttl : Int) (ops : List Op) (k : Nat) :
    lookup (cleanup (run ttl ops)) k = lookup (run ttl ops) k := by
  rw [lookup_eq_present (inv_cleanup (inv_run ttl ops)) k, lookup_eq_present (inv_run ttl ops) k]

/-- Corollary in the property's own words: an item added at an instant and not touched again is
present `d` later iff `d ≤ TTL` — in particular present at the expiry instant itself and absent
one nanosecond after it. -/
theorem present_exactly_ttl (ttl : Int) (ops : List Op) (k v d : Nat) :
    lookup (run ttl (ops ++ [.set k v, .adv d])) k = if (d : Int) ≤ ttl then some v else none := by
  rw [present_for_ttl]
  simp only [Spec.run, List.foldl_append, List.foldl_cons, List.foldl_nil, Spec.step, Spec.present,
    if_true]
  by_cases h : (d : Int) ≤ ttl
  · rw [if_pos (by omega), if_pos h]
  · rw [if_neg (by omega), if_neg h]

/-! Non-vacuity: concrete histories, evaluated by the kernel. -/
example : lookup (run 10 [.set 1 7, .adv 10]) 1 = some 7 := by decide
example : sortedKeys (run 10 [.set 1 7, .set 2 8, .adv 10]) = [1, 2] := by decide
example : lookup (run 10 [.set 1 7, .adv 11]) 1 = none := by decide
example : sortedKeys (run 10 [.set 1 7, .adv 5, .set 2 8, .adv 6, .length]) = [2] := by decide

end Refinery.Props.C32
