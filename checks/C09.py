def nontrivial(c):
    evals = [l for l in c["lines"] if l.startswith("op eval ")]
    tids = {}
    for l in evals:
        for p in l.split(" "):
            if p.startswith("t="):
                tids[p] = tids.get(p, 0) + 1
    has_cfg = any(l.startswith("op cond ") for l in c["lines"]) or any(
        l.startswith("op key ") and "fields=-" not in l for l in c["lines"])
    return has_cfg and any(n >= 2 for n in tids.values()) and any(l.startswith("obs rate=") for l in c["lines"])


SPEC = dict(
    property="C09",
    component="encoding",
    props_module="Refinery.Props.C09",
    gen_module="Refinery.Gen.Encoding",
    quick=dict(cases=400, len=60, shards=4),
    thorough=dict(cases=24000, len=80, shards=16),
    nontrivial=nontrivial,
    rule="TODO",
    trusted_base=[],
    manifest=dict(text="TODO", note="TODO", technique="TODO"),
    assumptions=[],
)
