def _evals(c):
    tids = {}
    for l in c["lines"]:
        if l.startswith("op eval "):
            for p in l.split(" "):
                if p.startswith("t="):
                    tids[p] = tids.get(p, 0) + 1
    return tids


def nontrivial(c):
    # a sampler that reads some field, one logical trace evaluated in at least two variants, and
    # real outcomes observed
    has_cfg = any(l.startswith("op cond ") for l in c["lines"]) or any(
        l.startswith("op key ") and " fields=- " not in l for l in c["lines"])
    return has_cfg and any(n >= 2 for n in _evals(c).values()) and any(l.startswith("obs rate=") for l in c["lines"])


SPEC = dict(
    property="C09",
    component="encoding",
    props_module="Refinery.Props.C09",
    gen_module="Refinery.Gen.Encoding",
    quick=dict(cases=600, len=60, shards=4),
    thorough=dict(cases=32000, len=80, shards=16),
    nontrivial=nontrivial,
    rule="a case = one sampler configuration (1-3 rules of 0-3 conditions over all 15 operators and 5 datatypes, trace/span scope, "
         "drop / SampleRate / deterministic or dynamic downstream sampler; a dynamic sampler with 0-6 key fields incl. root. fields, "
         "UseTraceLength on/off) and 1-3 logical traces (1-4 spans, 0-4 fields drawn from a small palette of numbers around the type "
         "boundaries 127/128, 255/256, 65535/65536, 2^24, 2^31, 10^6 +-1, negative numbers, dyadic fractions, strings, booleans, null), "
         "in 30% of the cases rule r0 is a condition over 2-3 Fields mixing a plain and a root.-prefixed name (any order, also in random conditions) and the first trace has a root with a non-matching root field, spans lacking the plain field and exactly one span whose plain field matches, permuted more often; each trace is evaluated in 3-7 variants: the reference encoding, pure permutations, and re-encodings with a per-span choice of "
         "ingestion path (JSON /1/events, JSON /1/batch, msgpack /1/events, msgpack /1/batch, OTLP protobuf through husky; each also "
         "forwarded to a peer through the real batch re-encoding) and a per-field choice of wire type (JSON number in three spellings; "
         "msgpack int / uint family in minimal or 64-bit width, float32 / float64, str / bin; OTLP int / double), by profile: safe "
         "(only encodings the partial theorem covers), uint, f32, bin, json, mix. Every variant goes through the real handlers, "
         "Payload, RulesBasedSampler and DynamicSampler. non-trivial = a sampler that reads some field, a logical trace with at least "
         "two evaluated variants and observed outcomes; distinct by transcript hash",
    trusted_base=["fmt %v, strconv, regexp, distinctValue.AddAsString's rendering and fastjson's number parser: their graphs on the "
                  "arguments met are passed to the model as ext lines (taken from the running code)",
                  "math/rand seeded through rand.Seed (GODEBUG randseednop=0 in the harness binary only); dynsampler-go's answer is taken as observed",
                  "the harness's own request builders (JSON text, msgpack bytes incl. the uint family and forced 64-bit widths, OTLP protobuf "
                  "via the official proto types) and its recording collector / transmission; husky's OTLP translation is run, not modelled",
                  "Refinery.Model.Rules (C08) and Refinery.Model.TraceKey (C11), reused unchanged"],
    manifest=dict(
        text="Lean theorems over all sampler configurations, traces and external functions: order_invariant (any permutation of the spans, "
             "root span fixed: same rules decision / rate / reason / key and same dynamic key / rate / decision below the distinct-value cap, "
             "reusing C08's scope specifications and C11's perm_invariant); the decode table goOf per ingestion path; the full statement "
             "EncodingInvariant is REFUTED for the code (proved negation, one kernel-evaluated witness per class: msgpack uint, float32, bin, "
             "%v of integers >= 10^6 in rules and in root-field keys, fastjson's number parser on /1/batch, uint < 128 changing type when "
             "forwarded); encoding_invariant_partial proves the statement for values that reach the samplers as int64/float64/string/bool/nil "
             "with exactly parsed JSON batch literals and integers below 10^6 (via encoding_invariant_of_sim: values the four rule coercions "
             "and the two key renderings cannot tell apart). The model is tied to the code by pushing every variant of every generated trace "
             "through the real ingestion handlers and samplers and comparing each decoded Go value, decision, rate, reason and key with the "
             "model; a monitor compares the real outcomes of variants carrying the same logical trace and "
             "attributes a difference to the code site where it shows (the rule that matched in one variant only and how its conditions read the value; "
             "the ordinary-field part or the root-field part of the key) and, only when the fields read there carry exactly one such class, to a class of encodings.",
        note="Trusted: Lean kernel; the differential check (sampled); Go's formatting / parsing taken as graphs from the running code. "
             "Known divergences recorded as findings: one signature per (wire-encoding class, code site) - compare(), the typed conversions, "
             "convertToString, AddAsString (ordinary key field), %v of root. key fields - so a new divergence of a known class at another site is still a violation.",
        technique="Lean 4 proof (permutation invariance through the all/any specifications; relational lifting of value indistinguishability "
                  "through extraction, both rule scopes and the key builder; refutation by witness) + model/implementation correspondence check",
    ),
    assumptions=["a trace has at most one root span, so trace.RootSpan does not depend on arrival order (the collector keeps the last span that arrived without a parent id)",
                 "numbers are finite, exactly representable in their wire type, of magnitude <= 2^53 for integers; negative zero, NaN and infinities are not generated",
                 "jsoniter (JSON /1/events) yields the float64 nearest to the literal, which for the generated literals is its exact value (checked by the differential on every literal); fastjson's parser is an external function",
                 "every field a sampler reads is one of the dataset's sampling key fields at the receiving node (production: the same sampler configuration on all nodes), hence memoized there before forwarding",
                 "field names are not meta.* and not the configured trace-id / parent-id fields (excluded by the property)",
                 "CheckNestedFields is off in every case (the rules model's nested fallback, Rules.Trace.nested / maps, keeps its defaults: values here are scalars)",
                 "msgpack values are scalars (maps, arrays, ext, time are C20's subject); OTLP attributes are int / double / string / bool",
                 "the downstream dynamic sampler's rate/keep is taken as observed (function of key and span count); its key is predicted by the model",
                 "peer forwarding is exercised through the real batchedEvent.MarshalMsg / Payload.MarshalMsg and the peer router's /1/batch handler, not over HTTP"],
)
